(* Strconv/FModel.v — executable model of strconv/float.go and strconv/decimal.go.
   Definitions only.  float64 is Coq's [SpecFloat.spec_float] at prec = 53, emax = 1024 with the
   standard library's executable, axiom-free SFmul/SFdiv/SFadd/SFsub (round to nearest even);
   values cross the harness as IEEE-754 bit patterns (math.Float64bits).
   int64(f) is the amd64 conversion (CVTTSD2SQ): truncation, and 0x8000000000000000 when the
   value does not fit or is NaN. *)
From Coq Require Import Floats.SpecFloat.
From Verif Require Import Common.Base Strconv.Model Gen.Tables.

Notation f64 := spec_float.

Definition fmul : f64 -> f64 -> f64 := SFmul 53 1024.
Definition fdiv : f64 -> f64 -> f64 := SFdiv 53 1024.
Definition fadd : f64 -> f64 -> f64 := SFadd 53 1024.
Definition fsub : f64 -> f64 -> f64 := SFsub 53 1024.
Definition fneg : f64 -> f64 := SFopp.
Definition flt : f64 -> f64 -> bool := SFltb.
Definition fle : f64 -> f64 -> bool := SFleb.
Definition feq : f64 -> f64 -> bool := SFeqb.

(* float64(n) for an integer n (correctly rounded) *)
Definition f_of_Z (n : Z) : f64 := binary_normalize 53 1024 n 0 false.

Definition fzero : f64 := S754_zero false.
Definition fhalf : f64 := S754_finite false 4503599627370496 (-53).
Definition fone : f64 := S754_finite false 4503599627370496 (-52).
Definition f1e15 : f64 := f_of_Z 1000000000000000.

Definition p52 : Z := 4503599627370496.

Definition f_of_bits (x : Z) : f64 :=
  let s := two63 <=? x in
  let e := (x / p52) mod 2048 in
  let m := x mod p52 in
  if e =? 2047 then (if m =? 0 then S754_infinity s else S754_nan)
  else if e =? 0 then match m with Zpos p => S754_finite s p (-1074) | _ => S754_zero s end
  else match m + p52 with Zpos p => S754_finite s p (e - 1075) | _ => S754_nan end.

(* biased exponent field of the bit pattern *)
Definition f_expfield (f : f64) : Z :=
  match f with
  | S754_zero _ => 0
  | S754_infinity _ | S754_nan => 2047
  | S754_finite _ m e => if Zpos m <? p52 then 0 else e + 1075
  end.

(* math.Float64bits; NaN is reported as the canonical quiet NaN 0x7FF8000000000000 *)
Definition bits_of_f (f : f64) : Z :=
  match f with
  | S754_zero s => if s then two63 else 0
  | S754_infinity s => (if s then two63 else 0) + 2047 * p52
  | S754_nan => 2047 * p52 + p52 / 2
  | S754_finite s m e =>
      (if s then two63 else 0) + (if Zpos m <? p52 then Zpos m else (e + 1075) * p52 + (Zpos m - p52))
  end.

Definition f_is_nan (f : f64) : bool := match f with S754_nan => true | _ => false end.
Definition f_is_inf (f : f64) : bool := match f with S754_infinity _ => true | _ => false end.

(* int64(f) on amd64 *)
Definition f_to_i64 (f : f64) : Z :=
  match f with
  | S754_zero _ => 0
  | S754_nan | S754_infinity _ => min_i64
  | S754_finite s m e =>
      let a := if 0 <=? e then Zpos m * 2 ^ e else Zpos m / 2 ^ (- e) in
      let v := if s then - a else a in
      if (min_i64 <=? v) && (v <=? max_i64) then v else min_i64
  end.

(* math.Pow10 (its tables are regenerated from the toolchain by translator T1) *)
Definition pow10 (n : Z) : f64 :=
  if (-323 <=? n) && (n <=? 308) then f_of_bits (nth (Z.to_nat (n + 323)) math_pow10_bits 0)
  else if 0 <? n then S754_infinity false else fzero.

(* float64pow10[k] *)
Definition f64pow10 (k : Z) : res f64 :=
  match peekz strconv_float64pow10_bits k with Some x => Ok (f_of_bits x) | None => Panic end.

(* int64pow10[k] *)
Definition i64pow10 (k : Z) : res Z :=
  match peekz strconv_int64pow10 k with Some x => Ok x | None => Panic end.

(* ---- ParseFloat ------------------------------------------------------------------------------------ *)

(* the mantissa loop over the suffix l = b[i:]; result (i, n, dot, trunk) *)
Fixpoint pf_scan (l : list Z) (i n dot trunk : Z) : Z * Z * Z * Z :=
  match l with
  | [] => (i, n, dot, trunk)
  | c :: t =>
      if is_digit c then
        if trunk =? -1 then
          let d := byte (c - 48) in
          if (max_u64 / 10 <? n) || (max_u64 - d <? u64 (n * 10)) then pf_scan t (i + 1) n dot i
          else pf_scan t (i + 1) (u64 (u64 (n * 10) + d)) dot trunk
        else pf_scan t (i + 1) n dot trunk
      else if (dot =? -1) && (c =? 46) then pf_scan t (i + 1) n i trunk
      else (i, n, dot, trunk)
  end.

(* for ; j < len(b) && '0' <= b[j] && b[j] <= '9'; j++ { if expExp < 1e15 { expExp = expExp*10 + int64(b[j]-'0') } }
   over the suffix l = b[j:]; result (expExp, j) *)
Fixpoint pf_expdigits (l : list Z) (e j : Z) : Z * Z :=
  match l with
  | c :: t =>
      if is_digit c then
        pf_expdigits t (if e <? 1000000000000000 then i64 (i64 (e * 10) + byte (c - 48)) else e) (j + 1)
      else (e, j)
  | [] => (e, j)
  end.

(* the optional exponent at b[i:] = rest; result (expExp, new i).  The accumulator saturates above 1e15,
   every digit is consumed; without a digit nothing is consumed and expExp stays 0. *)
Definition pf_exponent (rest : list Z) (i : Z) : Z * Z :=
  match rest with
  | c :: t =>
      if (c =? 101) || (c =? 69) then
        let sgn := match t with s :: _ => (s =? 43) || (s =? 45) | [] => false end in
        let negExp := match t with s :: _ => s =? 45 | [] => false end in
        let startExp := i + 1 + (if sgn then 1 else 0) in
        let r := pf_expdigits (if sgn then tl t else t) 0 startExp in
        if startExp <? snd r then ((if negExp then i64 (- fst r) else fst r), snd r) else (0, i)
      else (0, i)
  | [] => (0, i)
  end.

(* the arithmetic of ParseFloat after scanning: f = +-float64(n) *)
Definition pf_value (f : f64) (mantExp expExp : Z) : res f64 :=
  let exp := i64 (expExp - mantExp) in
  let slow :=
    if feq f fzero then Ok f
    else
      let h := fmul f (pow10 (i64 (- mantExp))) in
      let h := fmul h (pow10 expExp) in
      if feq h fzero || f_is_inf h then
        let fe := if exp <? -308 then (fmul f (pow10 (-308)), i64 (exp + 308))
                  else if 308 <? exp then (fmul f (pow10 308), i64 (exp - 308))
                  else (f, exp) in
        Ok (fmul (fst fe) (pow10 (snd fe)))
      else Ok h in
  if exp =? 0 then Ok f
  else if (0 <? exp) && (exp <=? 15 + 22) then
    gg <-- (if 22 <? exp then p <-- f64pow10 (exp - 22) ;; Ok (fmul f p, 22) else Ok (f, exp)) ;;
    if fle (fneg f1e15) (fst gg) && fle (fst gg) f1e15 then
      p <-- f64pow10 (snd gg) ;; Ok (fmul (fst gg) p)
    else slow
  else if (-22 <=? exp) && (exp <? 0) then
    p <-- f64pow10 (- exp) ;; Ok (fdiv f p)
  else slow.

Definition parse_float (b : list Z) : res (f64 * Z) :=
  let sgn := match b with c :: _ => (c =? 43) || (c =? 45) | [] => false end in
  let neg := match b with c :: _ => c =? 45 | [] => false end in
  let start := if sgn then 1 else 0 in
  let sc := pf_scan (if sgn then tl b else b) start 0 (-1) (-1) in
  let i := fst (fst (fst sc)) in
  let n := snd (fst (fst sc)) in
  let dot := snd (fst sc) in
  let trunk := snd sc in
  if (i =? start) || ((i =? start + 1) && (dot =? start)) then Ok (fzero, 0)
  else
    let f := f_of_Z n in
    let f := if neg then fneg f else f in
    let mantExp :=
      if negb (dot =? -1) then
        let trunk := if trunk =? -1 then i else trunk in
        if trunk <? dot then trunk - dot else trunk - dot - 1
      else if negb (trunk =? -1) then trunk - i
      else 0 in
    let ex := pf_exponent (skipz i b) i in
    v <-- pf_value f mantExp (fst ex) ;;
    Ok (v, snd ex).

(* ---- float64exp --------------------------------------------------------------------------------------- *)

(* const log2 = 0.3010299956639812 as a float64 *)
Definition flog2 : f64 := f_of_bits 4599094494223104511.

Definition float64exp (f : f64) : Z :=
  let exp2 := if feq f fzero then 0 else f_expfield f - 1023 + 1 in
  let exp10 := fmul (f_of_Z exp2) flog2 in
  let exp10 := if flt exp10 fzero then fsub exp10 fone else exp10 in
  f_to_i64 exp10.

(* ---- ParseDecimal ------------------------------------------------------------------------------------- *)

(* the loop over the suffix l = b[i:]; result (i, start, dot, n) *)
Fixpoint pd_scan (l : list Z) (i start dot n : Z) : Z * Z * Z * Z :=
  match l with
  | [] => (i, start, dot, n)
  | c :: t =>
      if is_digit c then
        if start =? -1 then
          if (49 <=? c) && (c <=? 57) then pd_scan t (i + 1) i dot (u64 (byte (c - 48)))
          else pd_scan t (i + 1) start dot n
        else if i - start <? 18 then pd_scan t (i + 1) start dot (u64 (u64 (n * 10) + byte (c - 48)))
        else pd_scan t (i + 1) start dot n
      else if c =? 46 then
        if negb (dot =? -1) then (i, start, dot, n) else pd_scan t (i + 1) start i n
      else (i, start, dot, n)
  end.

Definition parse_decimal (b : list Z) : res (f64 * Z) :=
  let neg := match b with c :: _ => c =? 45 | [] => false end in
  let sc := pd_scan (if neg then tl b else b) (if neg then 1 else 0) (-1) (-1) 0 in
  let i := fst (fst (fst sc)) in
  let start := snd (fst (fst sc)) in
  let dot := snd (fst sc) in
  let n := snd sc in
  if (i =? 1) && (dot =? 0) then Ok (fzero, 0)
  else if start =? -1 then Ok (fzero, i)
  else
    let dot := if dot =? -1 then i else dot in
    let exp := (dot - start) - len_uint n in
    let exp := if dot <? start then exp + 1 else exp in
    if 1023 <? exp then Ok (S754_infinity neg, i)
    else if exp <? -1022 then Ok (fzero, i)
    else
      let f := fmul (if neg then fneg fone else fone) (f_of_Z n) in
      if (0 <=? exp) && (exp <? 23) then p <-- f64pow10 exp ;; Ok (fmul f p, i)
      else if (-22 <=? exp) && (exp <? 0) then p <-- f64pow10 (- exp) ;; Ok (fdiv f p, i)
      else Ok (fmul f (pow10 exp), i).

(* ---- AppendDecimal ------------------------------------------------------------------------------------ *)

(* for 0 < dec && num%10 == 0 { num /= 10; dec-- } ; at most dec iterations *)
Fixpoint ad_strip (k : nat) (num dec : Z) : Z * Z :=
  match k with
  | O => (num, dec)
  | S k' => if (0 <? dec) && (Z.rem num 10 =? 0) then ad_strip k' (Z.quot num 10) (dec - 1) else (num, dec)
  end.

(* the second digit loop: for 0 < dec { b[i] = byte(num%10)+'0'; num /= 10; dec--; i-- } *)
Fixpoint ad_frac (k : nat) (b : list Z) (i num : Z) : res (list Z * Z * Z) :=
  match k with
  | O => Ok (b, i, num)
  | S k' => b' <-- store b i (byte (byte (Z.rem num 10) + 48)) ;;
            ad_frac k' b' (i - 1) (Z.quot num 10)
  end.

(* everything of AppendDecimal after num := int64(f) and the trailing-zero loop *)
Definition ad_print (b spare : list Z) (num dec : Z) : res (list Z) :=
  let i := len b in
  let n := len_int num in
  n2 <-- (if 0 <? dec then
            let n1 := if (num <? 0) && (n - 1 <? dec) then dec + 1
                      else if (0 <? num) && (n <? dec) then dec
                      else n in
            let n1 := n1 + 1 in
            lim <-- i64pow10 dec ;;
            if ((0 <? num) && (num <? lim)) || ((num <? 0) && (- lim <? num)) then Ok (n1 + 1) else Ok n1
          else Ok n) ;;
  b1 <-- grow b spare n2 ;;
  r <-- (if num <? 0 then b2 <-- store b1 i 45 ;; Ok (b2, i64 (- num)) else Ok (b1, num)) ;;
  let i := i + n2 - 1 in
  r2 <-- (if 0 <? dec then
            r' <-- ad_frac (Z.to_nat dec) (fst r) i (snd r) ;;
            let i' := snd (fst r') in
            b3 <-- store (fst (fst r')) i' 46 ;;
            Ok (b3, i' - 1, snd r')
          else Ok (fst r, i, snd r)) ;;
  let b4 := fst (fst r2) in
  let i4 := snd (fst r2) in
  let num4 := snd r2 in
  if num4 =? 0 then store b4 i4 48
  else r3 <-- put_digits 20 b4 i4 num4 ;; Ok (fst r3).

(* ---- strconv.AppendFloat(b, f, 'f', dec, 64) of the standard library, as a specification: the exact value
   m * 2^e of the float, scaled by 10^dec and rounded to an integer half-to-even, printed with dec decimals ---- *)

(* n / d rounded to the nearest integer, ties to even (n >= 0, d > 0) *)
Definition div_half_even (n d : Z) : Z :=
  let q := n / d in
  let r := n mod d in
  if 2 * r <? d then q else if d <? 2 * r then q + 1 else if Z.even q then q else q + 1.

(* |f| * 10^dec rounded half-even, f finite *)
Definition f_scaled_half_even (f : f64) (dec : Z) : Z :=
  match f with
  | S754_finite _ m e =>
      if 0 <=? e then Zpos m * 2 ^ e * 10 ^ dec else div_half_even (Zpos m * 10 ^ dec) (2 ^ (- e))
  | _ => 0
  end.

Definition f_signbit (f : f64) : bool :=
  match f with
  | S754_zero s | S754_infinity s | S754_finite s _ _ => s
  | S754_nan => false
  end.

(* decimal digits of n > 0, least significant first *)
Fixpoint z_rdigits (fuel : nat) (n : Z) : list Z :=
  if n =? 0 then []
  else match fuel with
       | O => []
       | S f => (48 + n mod 10) :: z_rdigits f (n / 10)
       end.
Definition z_decimal (n : Z) : list Z :=
  if n =? 0 then [48] else rev (z_rdigits (S (Z.to_nat (Z.log2 n))) n).
(* the k low digits of m, least significant first *)
Fixpoint z_frac_rdigits (k : nat) (m : Z) : list Z :=
  match k with
  | O => []
  | S k' => (48 + m mod 10) :: z_frac_rdigits k' (m / 10)
  end.

Definition std_format_f (f : f64) (dec : Z) : list Z :=
  let q := f_scaled_half_even f dec in
  (if f_signbit f then [45] else []) ++ z_decimal (q / 10 ^ dec) ++
  (if 0 <? dec then 46 :: rev (z_frac_rdigits (Z.to_nat dec) q) else []).

(* n := len(b); for b[n-1] == '0' { n-- }; if b[n-1] == '.' { n-- }; b = b[:n]   on the reversed slice *)
Fixpoint ad_drop_zeros (r : list Z) : res (list Z) :=
  match r with
  | c :: t => if c =? 48 then ad_drop_zeros t else Ok r
  | [] => Panic
  end.
Definition ad_trim (b : list Z) : res (list Z) :=
  r <-- ad_drop_zeros (rev b) ;;
  match r with
  | c :: t => if c =? 46 then Ok (rev t) else Ok (rev r)
  | [] => Panic
  end.

Definition f9e18 : f64 := f_of_Z 9000000000000000000.

Definition append_decimal (b spare : list Z) (f : f64) (dec : Z) : res (list Z) :=
  if f_is_nan f || f_is_inf f then Ok b
  else
    let dec := if (dec <? 0) || (17 <? dec) then 17 else dec in
    if fle f9e18 (fmul (SFabs f) (pow10 dec)) then
      (* does not fit in an int64: formatted by the standard library *)
      let b1 := b ++ std_format_f f dec in
      if 0 <? dec then ad_trim b1 else Ok b1
    else
    let f := fmul f (pow10 dec) in
    let f := if fle fzero f then fadd f fhalf else fsub f fhalf in
    let num := f_to_i64 f in
    if num =? 0 then Ok (b ++ [48])
    else
      let nd := ad_strip (Z.to_nat dec) num dec in
      ad_print b spare (fst nd) (snd nd).

(* ---- AppendFloat -------------------------------------------------------------------------------------- *)

Record afst := mkAf { af_b : list Z; af_i : Z; af_j : Z; af_last : Z; af_dot : Z; af_exp : Z; af_zero : bool }.

(* the big conversion loop: for 0 < mant { ... } *)
Fixpoint af_loop (fuel : nat) (s : afst) (mant : Z) : res afst :=
  if 0 <? mant then
    match fuel with
    | O => NoFuel
    | S fu =>
        s1 <-- (if af_j s =? af_dot s then
                  b' <-- store (af_b s) (af_j s) 46 ;;
                  Ok (mkAf b' (af_i s) (af_j s - 1) (af_last s) (af_dot s) (af_exp s) (af_zero s))
                else Ok s) ;;
        let newMant := Z.quot mant 10 in
        let digit := mant - 10 * newMant in
        let s2 :=
          if af_zero s1 && (0 <? digit) then
            let s' :=
              if af_dot s1 <? af_j s1 then
                let i := af_j s1 + 1 in
                if af_exp s1 <? 0 then
                  let newExp := af_exp s1 - (af_j s1 - af_dot s1) in
                  if len_int newExp =? len_int (af_exp s1) then
                    mkAf (af_b s1) (i - 1) (af_j s1 - 1) (af_last s1) (af_j s1) newExp (af_zero s1)
                  else mkAf (af_b s1) i (af_j s1) (af_last s1) (af_dot s1) (af_exp s1) (af_zero s1)
                else mkAf (af_b s1) i (af_j s1) (af_last s1) (af_dot s1) (af_exp s1) (af_zero s1)
              else mkAf (af_b s1) (af_dot s1) (af_j s1) (af_last s1) (af_dot s1) (af_exp s1) (af_zero s1) in
            mkAf (af_b s') (af_i s') (af_j s') (af_j s') (af_dot s') (af_exp s') false
          else s1 in
        b' <-- store (af_b s2) (af_j s2) (byte (48 + byte digit)) ;;
        af_loop fu (mkAf b' (af_i s2) (af_j s2 - 1) (af_last s2) (af_dot s2) (af_exp s2) (af_zero s2)) newMant
    end
  else Ok s.

(* for dot < j { b[j] = '0'; j-- } *)
Fixpoint af_zeros (k : nat) (b : list Z) (j : Z) : res (list Z * Z) :=
  match k with
  | O => Ok (b, j)
  | S k' => b' <-- store b j 48 ;; af_zeros k' b' (j - 1)
  end.

(* for 0 < exp { newExp := exp/10; digit := exp - 10*newExp; j--; b[j] = '0'+byte(digit); exp = newExp } *)
Fixpoint af_expdigits (fuel : nat) (b : list Z) (j exp : Z) : res (list Z) :=
  if 0 <? exp then
    match fuel with
    | O => NoFuel
    | S fu =>
        let newExp := Z.quot exp 10 in
        let digit := exp - 10 * newExp in
        b' <-- store b (j - 1) (byte (48 + byte digit)) ;;
        af_expdigits fu b' (j - 1) newExp
    end
  else Ok b.

(* b[:i] *)
Definition reslice (b : list Z) (i : Z) : res (list Z) :=
  if (0 <=? i) && (i <=? len b) then Ok (firstz i b) else Panic.

(* everything of AppendFloat after mant := int64(f): the layout of mant * 10^-prec *)
Definition af_print (b spare : list Z) (neg : bool) (mant prec : Z) : res (list Z) :=
  let mantLen := len_int mant in
  let mantExp := mantLen - prec - 1 in
  if mant =? 0 then Ok (b ++ [48])
  else
    let exp := if 0 <? mantExp then (if prec <? 0 then mantExp else 0)
               else if mantExp <? -3 then mantExp else 0 in
    let expLen := if 0 <? mantExp then 1 + len_int exp
                  else if mantExp <? -3 then 1 + len_int exp else 0 in
    let mantLen := if (0 <? mantExp) || (mantExp <? -3) then mantLen
                   else if mantExp <? -1 then mantLen + (- mantExp - 1) else mantLen in
    let i := len b in
    let maxLen := 1 + mantLen + expLen in
    let maxLen := if neg then maxLen + 1 else maxLen in
    b1 <-- grow b spare maxLen ;;
    bi <-- (if neg then b2 <-- store b1 i 45 ;; Ok (b2, i + 1) else Ok (b1, i)) ;;
    let i := snd bi in
    let first := i in
    let last := i + mantLen in
    let dot := last - prec - exp in
    s <-- af_loop 20 (mkAf (fst bi) i last last dot exp true) mant ;;
    s3 <-- (if af_dot s <? af_j s then
              r <-- af_zeros (Z.to_nat (af_j s - af_dot s)) (af_b s) (af_j s) ;;
              b' <-- store (fst r) (snd r) 46 ;;
              Ok (mkAf b' (af_i s) (snd r) (af_last s) (af_dot s) (af_exp s) (af_zero s))
            else if af_last s + 3 <? af_dot s then
              Ok (mkAf (af_b s) (af_last s + 1) (af_j s) (af_last s) (af_dot s) (af_dot s - af_last s - 1) (af_zero s))
            else if af_j s =? af_dot s then
              b' <-- store (af_b s) (af_j s) 46 ;;
              Ok (mkAf b' (af_i s) (af_j s) (af_last s) (af_dot s) (af_exp s) (af_zero s))
            else Ok s) ;;
    let exp := af_exp s3 in
    let i := af_i s3 in
    let b3 := af_b s3 in
    if negb (exp =? 0) then
      if exp =? 1 then
        b4 <-- store b3 i 48 ;; reslice b4 (i + 1)
      else if exp =? 2 then
        twodigits <-- (if first + 3 <=? i then
                         match peekz b3 (i - 2) with Some c => Ok (c =? 46) | None => Panic end
                       else Ok false) ;;
        if twodigits then
          match peekz b3 (i - 1) with
          | Some c => b4 <-- store b3 (i - 2) c ;; b5 <-- store b4 (i - 1) 48 ;; reslice b5 i
          | None => Panic
          end
        else
          b4 <-- store b3 i 48 ;; b5 <-- store b4 (i + 1) 48 ;; reslice b5 (i + 2)
      else
        b4 <-- store b3 i 101 ;;
        let i := i + 1 in
        be <-- (if exp <? 0 then b5 <-- store b4 i 45 ;; Ok (b5, i + 1, - exp) else Ok (b4, i, exp)) ;;
        let i := snd (fst be) + len_int (snd be) in
        b6 <-- af_expdigits 20 (fst (fst be)) i (snd be) ;;
        reslice b6 i
    else reslice b3 i.

(* the scaled mantissa and the adjusted precision AppendFloat computes for f >= 0 *)
Definition af_prec (f : f64) (prec : Z) : Z :=
  let prec := if (prec <? 0) || (17 <? prec) then 17 else prec in
  let exp10 := float64exp f in
  let exp10 := if flt f (pow10 exp10) then exp10 - 1 else exp10 in
  prec - exp10.
Definition af_mant (f : f64) (prec : Z) : Z :=
  let prec := af_prec f prec in
  f_to_i64 (if 308 <? prec then fmul (fmul f (pow10 308)) (pow10 (prec - 308)) else fmul f (pow10 prec)).

Definition append_float (b spare : list Z) (f : f64) (prec : Z) : res (list Z) :=
  if f_is_nan f || f_is_inf f then Ok b
  else
    let neg := flt f fzero in
    let f := if neg then fneg f else f in
    af_print b spare neg (af_mant f prec) (af_prec f prec).
