(* Strconv/Legacy.v — the size computations of AppendNumber and AppendDecimal as they were BEFORE the
   repairs 739b10f (D9) and c031a2d (D8), and machine-checked witnesses that the statements proved for the
   current code (append_number_spec, append_decimal_shape) were false of them.  Not part of the model. *)
From Coq Require Import ZifyBool Floats.SpecFloat.
From Verif Require Import Common.Base Strconv.Model Strconv.FModel Strconv.IntProofs Strconv.NumProofs Strconv.DecProofs.

(* number.go before 739b10f:  n += utf8.RuneLen(groupSym) * (n - dec - 1) / groupSize *)
Definition append_number_legacy (b spare : list Z) (num dec gsize gs ds : Z) : res (list Z) :=
  let dec := if dec <? 0 then 0 else dec in
  let gs := if rune_len gs =? -1 then 46 else gs in
  let ds := if rune_len ds =? -1 then 44 else ds in
  let sign := if num <? 0 then -1 else 1 in
  let n := len_int num in
  let n := if sign =? -1 then n - 1 else n in
  let n := if (dec <? n) && (0 <? gsize) && negb (gs =? 0)
           then n + Z.quot (rune_len gs * (n - dec - 1)) gsize else n in
  let n := if 0 <? dec then (if n <=? dec then 1 + dec else n) + rune_len ds else n in
  let n := if sign =? -1 then n + 1 else n in
  let i := len b in
  b1 <-- grow b spare n ;;
  let i := i + n - 1 in
  r1 <-- (if 0 <? dec then
            r <-- an_frac (Z.to_nat dec) b1 i num sign ;;
            let i3 := snd (fst r) - rune_len ds in
            b3 <-- store_list (fst (fst r)) (i3 + 1) (utf8_encode ds) ;;
            Ok (b3, i3, snd r)
          else Ok (b1, i, num)) ;;
  let b4 := fst (fst r1) in
  let i4 := snd (fst r1) in
  let num4 := snd r1 in
  if num4 =? 0 then
    b5 <-- store b4 i4 48 ;;
    if sign =? -1 then store b5 (i4 - 1) 45 else Ok b5
  else
    r <-- an_int 20 b4 i4 num4 sign gsize gs 0 ;;
    if sign =? -1 then store (fst r) (snd r) 45 else Ok (fst r).

(* 123456 with a 2-byte group symbol (U+00A0) and groups of 3: one NUL byte in front *)
Lemma append_number_legacy_refuted :
  exists b spare num dec gsize gs ds out,
    min_i64 <= num <= max_i64 /\ 0 <= dec /\ valid_rune gs /\ valid_rune ds /\
    append_number_legacy b spare num dec gsize gs ds = Ok out /\
    out <> b ++ render num dec gsize gs ds /\ hd 1 out = 0.
Proof.
  exists [], [], 123456, 0, 3, 160, 44, [0; 49; 50; 51; 194; 160; 52; 53; 54].
  unfold valid_rune. vm_compute. repeat split; try discriminate.
Qed.

(* decimal.go before c031a2d:  if n < dec { n = dec }  (n includes the sign) *)
Definition ad_print_legacy (b spare : list Z) (num dec : Z) : res (list Z) :=
  let i := len b in
  let n := len_int num in
  n2 <-- (if 0 <? dec then
            let n1 := if n <? dec then dec else n in
            let n1 := n1 + 1 in
            lim <-- i64pow10 dec ;;
            if ((0 <? num) && (num <? lim)) || ((num <? 0) && (- lim <? num)) then Ok (n1 + 1) else Ok n1
          else Ok n) ;;
  b1 <-- grow b spare n2 ;;
  r <-- (if num <? 0 then b2 <-- store b1 i 45 ;; Ok (b2, i64 (- num)) else Ok (b1, num)) ;;
  let i := i + n2 - 1 in
  r2 <-- (if 0 <? dec then
            r' <-- ad_frac (Z.to_nat dec) (fst r) i (snd r) ;;
            let i' := snd (fst r') in
            b3 <-- store (fst (fst r')) i' 46 ;;
            Ok (b3, i' - 1, snd r')
          else Ok (fst r, i, snd r)) ;;
  let b4 := fst (fst r2) in
  let i4 := snd (fst r2) in
  let num4 := snd r2 in
  if num4 =? 0 then store b4 i4 48
  else r3 <-- put_digits 20 b4 i4 num4 ;; Ok (fst r3).

(* -0.096 at 6 decimals is num = -96, dec = 3 after the trailing-zero loop: the '-' is overwritten *)
Lemma append_decimal_legacy_refuted :
  exists num dec out,
    min_i64 < num <= max_i64 /\ num <> 0 /\ 0 <= dec <= 18 /\
    ad_print_legacy [] [] num dec = Ok out /\ out <> dec_text num dec /\ out = [48; 46; 48; 57; 54].
Proof.
  exists (-96), 3, [48; 46; 48; 57; 54]. vm_compute. repeat split; discriminate.
Qed.
