(* Strconv/AFValueProofs.v — AppendFloat: for every normal float64 the scaled mantissa mant = int64(|f| * 10^p') fits
   int64 (0 <= mant < 10^19) and mant * 10^-p' is |f| truncated at the last requested digit, up to the binary64 noise of
   the scaling: |mant * 10^-p' - |f|| <= 10^-p' + 5 * 2^-51 * |f|.  Real-number argument through Flocq. *)
From Coq Require Import ZArith Reals Lia Lra Psatz Floats.SpecFloat ZifyBool.
From Flocq Require Import Core.Core IEEE754.BinarySingleNaN.
From Flocq Require IEEE754.PrimFloat.
From Verif Require Import Common.Base Common.Tactics Strconv.Model Strconv.FModel Strconv.IntProofs Strconv.NumProofs
  Strconv.DecProofs Strconv.ScanProofs Strconv.FloatProofs Strconv.DecSideProofs Strconv.AccuracyProofs
  Strconv.AFProofs Strconv.AFLitProofs Strconv.AFShape Gen.Tables.
Open Scope Z_scope.
#[local] Existing Instance Flocq.IEEE754.PrimFloat.Hprec.
#[local] Existing Instance Flocq.IEEE754.PrimFloat.Hmax.

(* ---- float64exp estimates the decimal exponent from the binary one (checked for every exponent field) ------- *)

(* 10^k <= 2^x <= 10^(k+1) for k = fexp10 x, as integer inequalities *)
Definition pow_le (a x b y : Z) : bool :=     (* a^x <= b^y for possibly negative x, y *)
  a ^ Z.max x 0 * b ^ Z.max (- y) 0 <=? b ^ Z.max y 0 * a ^ Z.max (- x) 0.

Definition fexp10_ok (x : Z) : bool :=
  let k := fexp10 x in pow_le 10 k 2 x && pow_le 2 x 10 (k + 1) && (-308 <=? k) && (k <=? 308).

Lemma fexp10_ok_all : forallb fexp10_ok (zrange (-1021) 1024) = true.
Proof. vm_cast_no_check (eq_refl true). Qed.

Definition Rpw (a : R) (x : Z) : R := powerRZ a x.

Lemma powerRZ_IZR a x : 0 < a -> 0 <= x -> powerRZ (IZR a) x = IZR (a ^ x).
Proof.
  intros Ha Hx. rewrite <- (Z2Nat.id x Hx) at 1. rewrite <- pow_powerRZ, pow_IZR. rewrite Z2Nat.id by lia. reflexivity.
Qed.

Lemma powerRZ_split a x : 0 < a -> powerRZ (IZR a) x = (IZR (a ^ Z.max x 0) / IZR (a ^ Z.max (- x) 0))%R.
Proof.
  intros Ha. assert (Hnz : (IZR a <> 0)%R) by (apply not_0_IZR; lia).
  destruct (Z.le_gt_cases 0 x) as [H|H].
  - rewrite (Z.max_l x 0), (Z.max_r (- x) 0) by lia. rewrite Z.pow_0_r. rewrite powerRZ_IZR by lia. field.
  - rewrite (Z.max_r x 0), (Z.max_l (- x) 0) by lia. rewrite Z.pow_0_r.
    replace x with (- (- x)) at 1 by lia. rewrite powerRZ_neg'. rewrite powerRZ_IZR by lia. field.
    apply not_0_IZR. pose proof (Z.pow_pos_nonneg a (- x) Ha ltac:(lia)). lia.
Qed.

Lemma pow_le_real a x b y : 0 < a -> 0 < b -> pow_le a x b y = true -> (powerRZ (IZR a) x <= powerRZ (IZR b) y)%R.
Proof.
  intros Ha Hb H. unfold pow_le in H. apply Z.leb_le in H. rewrite (powerRZ_split a x Ha), (powerRZ_split b y Hb).
  assert (P1 : (0 < IZR (a ^ Z.max (- x) 0))%R) by (apply IZR_lt, Z.pow_pos_nonneg; lia).
  assert (P2 : (0 < IZR (b ^ Z.max (- y) 0))%R) by (apply IZR_lt, Z.pow_pos_nonneg; lia).
  apply Rmult_le_reg_r with (IZR (a ^ Z.max (- x) 0) * IZR (b ^ Z.max (- y) 0))%R; [apply Rmult_lt_0_compat; assumption|].
  replace (IZR (a ^ Z.max x 0) / IZR (a ^ Z.max (- x) 0) * (IZR (a ^ Z.max (- x) 0) * IZR (b ^ Z.max (- y) 0)))%R
    with (IZR (a ^ Z.max x 0) * IZR (b ^ Z.max (- y) 0))%R by (field; lra).
  replace (IZR (b ^ Z.max y 0) / IZR (b ^ Z.max (- y) 0) * (IZR (a ^ Z.max (- x) 0) * IZR (b ^ Z.max (- y) 0)))%R
    with (IZR (b ^ Z.max y 0) * IZR (a ^ Z.max (- x) 0))%R by (field; lra).
  rewrite <- !mult_IZR. apply IZR_le. exact H.
Qed.

Lemma bpow_powerRZ e : bpow radix2 e = powerRZ 2 e.
Proof. rewrite bpow_powerRZ. reflexivity. Qed.

(* ---- a normal float64: 2^(x-1) <= |f| < 2^x for x = exponent field - 1022 ------------------------------------ *)

Definition f_normal (f : f64) : bool :=
  match f with S754_finite _ m _ => p52 <=? Z.pos m | _ => false end.

Lemma normal_bounds (G : bin64) : f_normal (B2SF G) = true ->
  let x := f_expfield (B2SF G) - 1023 + 1 in
  -1021 <= x <= 1024 /\ (powerRZ 2 (x - 1) <= Rabs (B2R G) < powerRZ 2 x)%R /\ is_finite G = true.
Proof.
  destruct G as [s|s| |s m e Hb]; try discriminate. cbn [B2SF f_normal f_expfield]. intros Hn. unfold p52 in *. apply Z.leb_le in Hn.
  replace (Z.pos m <? 4503599627370496) with false by lia. cbv zeta.
  pose proof Hb as Hb'. unfold bounded, canonical_mantissa, fexp, emin in Hb'. apply andb_true_iff in Hb'. destruct Hb' as [Hc He].
  apply Zeq_bool_eq in Hc. apply Zle_bool_imp_le in He.
  assert (Hd : Z.pos (digits2_pos m) = 53).
  { assert (Hlo : 53 <= Z.pos (digits2_pos m)).
    { rewrite Digits.Zpos_digits2_pos. pose proof (Digits.Zdigits_gt_Zpower radix2 52 (Z.pos m)) as Hg. change (radix2 ^ 52) with 4503599627370496 in Hg. cbn [Z.abs] in Hg. specialize (Hg Hn). lia. }
    lia. }
  assert (Hm : Z.pos m < 2 ^ 53).
  { pose proof (Digits.Zdigits_correct radix2 (Z.pos m)) as H. rewrite <- Digits.Zpos_digits2_pos, Hd in H. cbn [Z.abs] in H. change (radix2 ^ 53) with (2 ^ 53) in H. lia. }
  split; [lia|]. split; [|reflexivity].
  cbn [B2R]. rewrite <- F2R_Zabs, abs_cond_Zopp. unfold F2R. cbn [Fnum Fexp Z.abs].
  replace (e + 1075 - 1023 + 1 - 1) with (52 + e) by lia. replace (e + 1075 - 1023 + 1) with (53 + e) by lia.
  rewrite <- !bpow_powerRZ. rewrite !bpow_plus.
  assert (Hp : (0 < bpow radix2 e)%R) by apply bpow_gt_0.
  assert (H52 : (bpow radix2 52 <= IZR (Z.pos m))%R) by (rewrite <- (IZR_Zpower radix2 52) by lia; apply IZR_le; exact Hn).
  assert (H53 : (IZR (Z.pos m) < bpow radix2 53)%R) by (rewrite <- (IZR_Zpower radix2 53) by lia; apply IZR_lt; exact Hm).
  split; nra.
Qed.

(* ---- int64(h) is the floor of a non-negative h below 2^63 ---------------------------------------------------------- *)

Lemma f_to_i64_floor (H : bin64) : is_finite H = true -> (0 <= B2R H < IZR (2 ^ 63))%R ->
  0 <= f_to_i64 (B2SF H) /\ (IZR (f_to_i64 (B2SF H)) <= B2R H < IZR (f_to_i64 (B2SF H)) + 1)%R.
Proof.
  intros HF [H0 H63]. destruct H as [s|s| |s m e Hb]; try discriminate.
  - cbn [B2SF f_to_i64 B2R]. split; [lia|lra].
  - cbn [B2SF f_to_i64]. cbn [B2R] in *. unfold F2R in *. cbn [Fnum Fexp] in *.
    pose proof (bpow_gt_0 radix2 e) as Hp.
    destruct s.
    { cbn [cond_Zopp] in H0. rewrite opp_IZR in H0. assert (0 < IZR (Z.pos m))%R by (apply IZR_lt; lia). nra. }
    cbn [cond_Zopp] in *.
    set (a := if 0 <=? e then Z.pos m * 2 ^ e else Z.pos m / 2 ^ (- e)).
    assert (Ha : 0 <= a /\ (IZR a <= IZR (Z.pos m) * bpow radix2 e < IZR a + 1)%R).
    { unfold a. destruct (0 <=? e) eqn:E.
      - rewrite mult_IZR. replace (IZR (2 ^ e)) with (bpow radix2 e) by (rewrite <- (IZR_Zpower radix2 e) by lia; reflexivity). split; [assert (0 < 2 ^ e) by (apply Z.pow_pos_nonneg; lia); nia|lra].
      - assert (Hd : 0 < 2 ^ (- e)) by (apply Z.pow_pos_nonneg; lia).
        pose proof (Z.div_mod (Z.pos m) (2 ^ (- e)) ltac:(lia)) as Ed. pose proof (Z.mod_pos_bound (Z.pos m) (2 ^ (- e)) Hd) as Bd.
        split; [apply Z.div_pos; lia|].
        replace (bpow radix2 e) with (/ IZR (2 ^ (- e)))%R by (replace e with (- (- e)) at 2 by lia; rewrite bpow_opp, <- (IZR_Zpower radix2 (- e)) by lia; reflexivity).
        assert (Hdr : (0 < IZR (2 ^ (- e)))%R) by (apply IZR_lt; exact Hd).
        set (q := Z.pos m / 2 ^ (- e)) in *. set (r := Z.pos m mod 2 ^ (- e)) in *.
        assert (Em : IZR (Z.pos m) = (IZR (2 ^ (- e)) * IZR q + IZR r)%R) by (rewrite <- mult_IZR, <- plus_IZR; f_equal; exact Ed).
        assert (Hr : (0 <= IZR r < IZR (2 ^ (- e)))%R) by (split; [apply IZR_le|apply IZR_lt]; lia).
        rewrite Em. split.
        + apply Rmult_le_reg_r with (IZR (2 ^ (- e))); [exact Hdr|]. rewrite Rmult_assoc, Rinv_l by lra. nra.
        + apply Rmult_lt_reg_r with (IZR (2 ^ (- e))); [exact Hdr|]. rewrite Rmult_assoc, Rinv_l by lra. nra. }
    destruct Ha as [Ha0 [Ha1 Ha2]].
    assert (Hlt : a < 2 ^ 63) by (apply lt_IZR; lra).
    change (2 ^ 63) with 9223372036854775808 in Hlt. unfold min_i64, max_i64.
    replace ((-9223372036854775808 <=? a) && (a <=? 9223372036854775807)) with true by lia.
    split; [exact Ha0|split; assumption].
Qed.

Lemma flt_B (a b : bin64) : is_finite a = true -> is_finite b = true ->
  flt (B2SF a) (B2SF b) = match Rcompare (B2R a) (B2R b) with Lt => true | _ => false end.
Proof.
  intros Ha Hb. unfold flt, SFltb. change (SFcompare (B2SF a) (B2SF b)) with (Bcompare a b).
  rewrite (Bcompare_correct _ _ a b Ha Hb). destruct (Rcompare (B2R a) (B2R b)); reflexivity.
Qed.

Lemma pow4_bound : ((1 + uu) ^ 4 - 1 <= 5 * uu)%R.
Proof. pose proof uu_pos. pose proof uu_small. nra. Qed.

(* ---- the scaled mantissa of a normal, non-negative float64 ---------------------------------------------------------- *)

Theorem af_mant_value (G : bin64) prec :
  f_normal (B2SF G) = true -> Bsign G = false ->
  let g := B2R G in
  let p' := af_prec (B2SF G) prec in
  let mant := af_mant (B2SF G) prec in
  0 <= mant < 10 ^ 19 /\
  (Rabs (IZR mant * Rp10 (- p') - g) <= Rp10 (- p') + 5 * uu * g)%R.
Proof.
  intros Hnorm Hsign. cbv zeta.
  destruct (normal_bounds G Hnorm) as (Hx & [Hglo Hghi] & HGF). cbv zeta in Hx, Hglo, Hghi.
  set (x := f_expfield (B2SF G) - 1023 + 1) in *.
  assert (Hgpos : (0 < B2R G)%R).
  { assert (0 < powerRZ 2 (x - 1))%R by (apply powerRZ_lt; lra).
    destruct G as [s|s| |s m e Hb]; try discriminate. cbn [Bsign] in Hsign. subst s.
    cbn [B2R]. apply F2R_gt_0. reflexivity. }
  rewrite (Rabs_pos_eq (B2R G)) in Hglo, Hghi by lra. assert (Hgnz : B2R G <> 0%R) by lra. set (g := B2R G) in *.
  (* float64exp *)
  assert (Hfe : float64exp (B2SF G) = fexp10 x).
  { unfold float64exp. rewrite (feq_zero_false G HGF Hgnz). reflexivity. }
  pose proof (zrange_forall _ (-1021) 1024 fexp10_ok_all x Hx) as Hok. cbv beta in Hok. unfold fexp10_ok in Hok. cbv zeta in Hok.
  set (k := fexp10 x) in *.
  apply andb_true_iff in Hok. destruct Hok as [Hok Hk2]. apply andb_true_iff in Hok. destruct Hok as [Hok Hk1].
  apply andb_true_iff in Hok. destruct Hok as [Hle1 Hle2].
  apply (pow_le_real 10 k 2 x ltac:(lia) ltac:(lia)) in Hle1. apply (pow_le_real 2 x 10 (k + 1) ltac:(lia) ltac:(lia)) in Hle2.
  fold (Rp10 k) in Hle1. fold (Rp10 (k + 1)) in Hle2.
  assert (Hk : -308 <= k <= 308) by lia. clear Hk1 Hk2.
  clearbody k x.
  assert (H2x : powerRZ 2 x = (2 * powerRZ 2 (x - 1))%R).
  { replace x with (1 + (x - 1)) at 1 by lia. rewrite powerRZ_add by lra. simpl. ring. }
  (* the corrected exponent *)
  set (k' := if flt (B2SF G) (pow10 k) then k - 1 else k).
  set (p := af_clamp prec). assert (Hp : 0 <= p <= 17) by (unfold p, af_clamp; destruct ((prec <? 0) || (17 <? prec)) eqn:E; lia).
  assert (Hprec : af_prec (B2SF G) prec = p - k').
  { unfold af_prec. cbv zeta. fold (af_clamp prec). fold p. rewrite Hfe. reflexivity. }
  clearbody p.
  assert (Hk' : k - 1 <= k' <= k /\ (Rp10 k' / 2 <= g)%R /\ (g < Rp10 (k' + 1) * (1 + uu))%R).
  { destruct (pow10_rel k Hk) as (P & d & HP & HPF & HPR & Hd). unfold k'. rewrite HP, flt_B by assumption. rewrite HPR.
    pose proof (Rp10_pos k) as Pk. pose proof (Rp10_pos (k - 1)) as Pk1. pose proof uu_pos as U.
    assert (Hkk : Rp10 k = (10 * Rp10 (k - 1))%R) by (replace k with (1 + (k - 1)) at 1 by lia; rewrite Rp10_add; unfold Rp10 at 1; simpl; ring).
    apply Rabs_le_inv in Hd.
    fold g. destruct (Rcompare_spec g (Rp10 k * (1 + d))) as [Hlt|Heq|Hgt].
    - split; [lia|]. split; [nra|]. replace (k - 1 + 1) with k by lia. nra.
    - split; [lia|]. split; [nra|]. rewrite Rp10_add in Hle2 |- *. nra.
    - split; [lia|]. split; [nra|]. nra. }
  destruct Hk' as (Hkr & Hlo & Hhi). clearbody k'.
  rewrite Hprec. set (p' := p - k') in *.
  (* the exact scaled value *)
  set (S0 := (g * Rp10 p')%R).
  assert (HS0 : (/ 2 <= S0 < IZR (10 ^ 18) * (1 + uu))%R).
  { unfold S0. pose proof (Rp10_pos p') as Pp. pose proof uu_pos as U.
    assert (E1 : (Rp10 k' * Rp10 p' = Rp10 p)%R) by (rewrite <- Rp10_add; f_equal; unfold p'; lia).
    assert (E2 : (Rp10 (k' + 1) * Rp10 p' = Rp10 (p + 1))%R) by (rewrite <- Rp10_add; f_equal; unfold p'; lia).
    assert (L1 : (1 <= Rp10 p)%R) by (rewrite Rp10_nonneg by lia; apply (IZR_le 1); pose proof (Z.pow_pos_nonneg 10 p); lia).
    assert (L2 : (Rp10 (p + 1) <= IZR (10 ^ 18))%R) by (rewrite <- (Rp10_nonneg 18) by lia; apply Rp10_le; lia).
    split; nra. }
  (* the computed scaled value *)
  assert (HGa : approx 0 g g) by apply approx_exact.
  assert (Hvr : forall v, (Rp10 (-20) <= v <= IZR (10 ^ 19))%R -> vrange v).
  { intros v [V1 V2]. pose proof (Rp10_pos (-20)). unfold vrange. rewrite Rabs_pos_eq by lra. split.
    - apply Rle_trans with (Rp10 (-20)); [apply Rp10_le; lia|exact V1].
    - apply Rle_trans with (IZR (10 ^ 19)); [exact V2|]. rewrite Rp10_nonneg by lia. rewrite <- mult_IZR. apply IZR_le. vm_compute. discriminate. }
  assert (H1819 : (IZR (10 ^ 18) * (1 + uu) <= IZR (10 ^ 19))%R).
  { pose proof uu_small. replace (10 ^ 19) with (10 * 10 ^ 18) by reflexivity. rewrite mult_IZR. assert (0 < IZR (10 ^ 18))%R by (apply IZR_lt; reflexivity). nra. }
  assert (Hm20 : (Rp10 (-20) <= / 2)%R).
  { apply Rle_trans with (Rp10 (-1)); [apply Rp10_le; lia|]. unfold Rp10. simpl. lra. }
  assert (HH : exists H : bin64,
            (if 308 <? p' then fmul (fmul (B2SF G) (pow10 308)) (pow10 (p' - 308)) else fmul (B2SF G) (pow10 p')) = B2SF H /\
            is_finite H = true /\ approx 4 (B2R H) S0).
  { destruct (308 <? p') eqn:E308.
    - destruct (pow10_rel 308 ltac:(lia)) as (P1 & d1 & -> & HP1F & HP1R & Hd1).
      destruct (pow10_rel (p' - 308) ltac:(unfold p'; lia)) as (P2 & d2 & -> & HP2F & HP2R & Hd2).
      assert (HP1a : approx 1 (B2R P1) (Rp10 308)) by (exists d1; split; [exact HP1R|simpl; lra]).
      assert (HP2a : approx 1 (B2R P2) (Rp10 (p' - 308))) by (exists d2; split; [exact HP2R|simpl; lra]).
      assert (Hsplit : (g * Rp10 308 * Rp10 (p' - 308))%R = S0) by (unfold S0; rewrite Rmult_assoc, <- Rp10_add; f_equal; f_equal; lia).
      assert (Hmid : (Rp10 (-20) <= g * Rp10 308 <= IZR (10 ^ 19))%R).
      { pose proof (Rp10_pos 308) as P308. pose proof (Rp10_pos k') as Pk'.
        assert (E1 : (Rp10 k' * Rp10 308 = Rp10 (k' + 308))%R) by (rewrite Rp10_add; reflexivity).
        assert (L : (Rp10 (-19) <= Rp10 (k' + 308))%R) by (apply Rp10_le; unfold p' in *; lia).
        assert (L19 : (Rp10 (-20) <= Rp10 (-19) / 2)%R).
        { replace (-19) with (1 + -20) by lia. rewrite Rp10_add. unfold Rp10 at 2. simpl. pose proof (Rp10_pos (-20)). lra. }
        assert (U : (g * Rp10 308 <= S0)%R) by (unfold S0; apply Rmult_le_compat_l; [lra|apply Rp10_le; lia]).
        split; nra. }
      destruct (mul_approx G P1 0 1 _ _ HGF HP1F HGa HP1a ltac:(lia) (Hvr _ Hmid)) as (H1 & -> & H1F & H1a).
      destruct (mul_approx H1 P2 2 1 _ _ H1F HP2F H1a HP2a ltac:(lia) ltac:(rewrite Hsplit; apply Hvr; lra)) as (H2 & -> & H2F & H2a).
      rewrite Hsplit in H2a. exists H2. split; [reflexivity|]. split; [exact H2F|exact H2a].
    - destruct (pow10_rel p' ltac:(unfold p'; lia)) as (P & d & -> & HPF & HPR & Hd).
      assert (HPa : approx 1 (B2R P) (Rp10 p')) by (exists d; split; [exact HPR|simpl; lra]).
      destruct (mul_approx G P 0 1 _ _ HGF HPF HGa HPa ltac:(lia) ltac:(apply Hvr; fold S0; lra)) as (H & -> & HF & Ha).
      exists H. split; [reflexivity|]. split; [exact HF|]. apply (approx_mono 2 4); [lia|exact Ha]. }
  destruct HH as (H & HHeq & HHF & (eps & HHR & Heps)).
  assert (Hmant : af_mant (B2SF G) prec = f_to_i64 (B2SF H)).
  { unfold af_mant. cbv zeta. rewrite Hprec. fold p'. rewrite HHeq. reflexivity. }
  rewrite Hmant. pose proof pow4_bound as P4. pose proof uu_pos as U. pose proof uu_small as Us.
  assert (He5 : (Rabs eps <= 5 * uu)%R) by lra. apply Rabs_le_inv in He5.
  assert (HHb : (0 <= B2R H < IZR (2 ^ 63))%R).
  { rewrite HHR. split; [nra|].
    apply Rlt_le_trans with (IZR (10 ^ 18) * (1 + uu) * (1 + 5 * uu))%R; [nra|].
    assert (IZR (10 ^ 18) * 2 <= IZR (2 ^ 63))%R by (rewrite <- (mult_IZR _ 2); apply IZR_le; vm_compute; discriminate).
    assert (0 < IZR (10 ^ 18))%R by (apply IZR_lt; reflexivity). nra. }
  destruct (f_to_i64_floor H HHF HHb) as (Hm0 & Hm1 & Hm2). set (mant := f_to_i64 (B2SF H)) in *.
  split.
  - split; [exact Hm0|]. apply lt_IZR. apply Rle_lt_trans with (B2R H); [exact Hm1|]. rewrite HHR.
    apply Rlt_le_trans with (IZR (10 ^ 18) * (1 + uu) * (1 + 5 * uu))%R; [nra|].
    replace (10 ^ 19) with (10 * 10 ^ 18) by reflexivity. rewrite mult_IZR. assert (0 < IZR (10 ^ 18))%R by (apply IZR_lt; reflexivity). nra.
  - (* mant <= S0 (1+eps) < mant + 1, scaled back by 10^-p' *)
    set (r := Rp10 (- p')). pose proof (Rp10_pos (- p')) as Hr. fold r in Hr.
    assert (Hback : (S0 * r = g)%R).
    { unfold S0, r. rewrite Rmult_assoc, <- Rp10_add. replace (p' + - p') with 0 by lia. unfold Rp10. simpl. ring. }
    rewrite HHR in Hm1, Hm2.
    assert (B1 : (IZR mant * r <= g * (1 + eps))%R) by (rewrite <- Hback; nra).
    assert (B2 : (g * (1 + eps) < (IZR mant + 1) * r)%R) by (rewrite <- Hback; nra).
    apply Rabs_le. split; nra.
Qed.

(* ---- AppendFloat for every normal float64 ------------------------------------------------------------------------------- *)

Theorem append_float_normal_proof : forall b spare f prec, valid_binary 53 1024 f = true -> f_normal f = true ->
  let neg := flt f fzero in
  let g := if neg then fneg f else f in
  let p' := af_prec g prec in
  let mant := af_mant g prec in
  0 <= mant < 10 ^ 19 /\
  (Rabs (IZR mant * Rp10 (- p') - Rabs (SF2R radix2 f)) <= Rp10 (- p') + 5 * uu * Rabs (SF2R radix2 f))%R /\
  exists out, append_float b spare f prec = Ok (b ++ out) /\
              (mant = 0 -> out = [48]) /\ (0 < mant -> float_literal neg out).
Proof.
  intros b spare f prec Hv Hn. cbv zeta.
  destruct f as [s0|s0| |s m e]; try discriminate.
  assert (Hneg : flt (S754_finite s m e) fzero = s) by (destruct s; reflexivity). rewrite Hneg.
  set (g := if s then fneg (S754_finite s m e) else S754_finite s m e).
  assert (Hg : g = S754_finite false m e) by (unfold g; destruct s; reflexivity).
  assert (Hvg : valid_binary 53 1024 g = true) by (rewrite Hg; exact Hv).
  set (G := @SF2B 53 1024 g Hvg).
  assert (HGSF : B2SF G = g) by apply B2SF_SF2B.
  assert (HGn : f_normal (B2SF G) = true) by (rewrite HGSF, Hg; exact Hn).
  assert (HGs : Bsign G = false).
  { rewrite <- signbit_B, HGSF, Hg. reflexivity. }
  assert (HGR : B2R G = Rabs (SF2R radix2 (S754_finite s m e))).
  { rewrite <- SF2R_B2SF, HGSF, Hg. cbn [SF2R]. rewrite <- F2R_Zabs, abs_cond_Zopp. reflexivity. }
  destruct (af_mant_value G prec HGn HGs) as [Hm Hval]. cbv zeta in Hm, Hval. rewrite HGSF, HGR in *.
  split; [exact Hm|]. split; [exact Hval|].
  destruct (append_float_shape_proof b spare (S754_finite s m e) prec Hv) as [_ Hsh].
  specialize (Hsh eq_refl). cbv zeta in Hsh. rewrite Hneg in Hsh. fold g in Hsh.
  apply Hsh. lia.
Qed.

(* ---- the number the written literal denotes ------------------------------------------------------------------------------ *)

(* the value of  -?(digits[.digits]|.digits)[e-?digits]  read as a decimal literal: the digits of the integer part and
   the fraction as one integer, scaled by 10^(exponent - number of fraction digits), negated after '-' *)
Definition lit_value (out : list Z) : R :=
  let me := lit_mant_exp (lit_body out) in
  let v := (IZR (fst me) * Rp10 (snd me))%R in
  if lit_neg out then (- v)%R else v.

(* "-12.50e-3" = -1250 * 10^(-3-2);  ".5" = 5 * 10^-1;  "120" = 120 *)
Example lit_value_ex :
  lit_mant_exp (lit_body [45; 49; 50; 46; 53; 48; 101; 45; 51]) = (1250, -5) /\ lit_neg [45; 49; 50; 46; 53; 48; 101; 45; 51] = true /\
  lit_mant_exp (lit_body [46; 53]) = (5, -1) /\ lit_mant_exp (lit_body [49; 50; 48]) = (120, 0).
Proof. repeat split; reflexivity. Qed.

(* on the parts of a literal *)
Lemma lit_value_parts (neg : bool) ip fp ex : all_digits ip -> all_digits fp ->
  (ex = [] \/ exists ds, all_digits ds /\ ds <> [] /\ (ex = 101 :: ds \/ ex = 101 :: 45 :: ds)) ->
  (ip <> [] \/ fp <> []) ->
  lit_value ((if neg then [45] else []) ++ ip ++ (match fp with [] => [] | _ => 46 :: fp end) ++ ex) =
  ((if neg then -1 else 1) * IZR (dec_value (ip ++ fp)) * Rp10 (exp_value ex - len fp))%R.
Proof.
  intros Hip Hfp Hex Hne.
  assert (Hexp : exp_part ex) by (destruct Hex as [->|(ds & _ & _ & [-> | ->])]; [left; reflexivity|right; eauto|right; eauto]).
  set (hasdot := match fp with [] => false | _ => true end).
  assert (Hdot : (match fp with [] => [] | _ => 46 :: fp end) = if hasdot then 46 :: fp else []) by (unfold hasdot; destruct fp; reflexivity).
  assert (Hnd : hasdot = false -> fp = []) by (unfold hasdot; destruct fp; [reflexivity|discriminate]).
  rewrite Hdot.
  assert (Hhead : lit_neg (ip ++ (if hasdot then 46 :: fp else []) ++ ex) = false).
  { destruct ip as [|c ip'].
    - destruct Hne as [H|H]; [contradiction|]. unfold hasdot. destruct fp; [contradiction|reflexivity].
    - inversion Hip as [|? ? Hc _]; subst. apply is_digit_range in Hc. cbn [app lit_neg]. lia. }
  unfold lit_value. destruct neg.
  - cbn [app]. change (lit_neg (45 :: ip ++ (if hasdot then 46 :: fp else []) ++ ex)) with true.
    change (lit_body (45 :: ip ++ (if hasdot then 46 :: fp else []) ++ ex)) with (ip ++ (if hasdot then 46 :: fp else []) ++ ex).
    rewrite (lit_mant_exp_parts ip fp ex hasdot Hip Hfp Hexp Hnd). cbn [fst snd]. lra.
  - cbn [app]. unfold lit_body. rewrite Hhead. rewrite (lit_mant_exp_parts ip fp ex hasdot Hip Hfp Hexp Hnd). cbn [fst snd]. lra.
Qed.

Lemma lit_value_of_pair out (neg : bool) q t0 bb prec mant : lit_neg out = neg -> 0 <= t0 -> 0 <= bb -> mant = q * 10 ^ t0 ->
  lit_mant_exp (lit_body out) = (q * 10 ^ bb, t0 - prec - bb) ->
  lit_value out = ((if neg then - IZR mant else IZR mant) * Rp10 (- prec))%R.
Proof.
  intros Hneg Ht Hb Hm Hp. unfold lit_value. rewrite Hneg, Hp. cbn [fst snd].
  assert (E : (IZR (q * 10 ^ bb) * Rp10 (t0 - prec - bb) = IZR mant * Rp10 (- prec))%R).
  { rewrite Hm, !mult_IZR, <- !Rp10_nonneg by lia. rewrite !Rmult_assoc, <- !Rp10_add. f_equal. f_equal. lia. }
  destruct neg; rewrite E; lra.
Qed.

(* AppendFloat on the normal float64: the literal written parses back to the argument within the requested digits *)
Theorem append_float_parse_back_proof : forall b spare f prec, valid_binary 53 1024 f = true -> f_normal f = true ->
  let neg := flt f fzero in
  let g := if neg then fneg f else f in
  let p' := af_prec g prec in
  let mant := af_mant g prec in
  0 <= mant < 10 ^ 19 /\
  exists out, append_float b spare f prec = Ok (b ++ out) /\
              (mant = 0 -> out = [48]) /\ (0 < mant -> float_literal neg out) /\
              lit_value out = ((if neg then - IZR mant else IZR mant) * Rp10 (- p'))%R /\
              (Rabs (lit_value out - SF2R radix2 f) <= Rp10 (- p') + 5 * uu * Rabs (SF2R radix2 f))%R.
Proof.
  intros b spare f prec Hv Hn.
  destruct (append_float_normal_proof b spare f prec Hv Hn) as (Hm & Hval & _). cbv zeta in *.
  set (neg := flt f fzero) in *. set (g := if neg then fneg f else f) in *.
  set (p' := af_prec g prec) in *. set (mant := af_mant g prec) in *.
  split; [exact Hm|].
  assert (Hvg : valid_binary 53 1024 g = true) by (unfold g; destruct neg; [apply valid_fneg|]; exact Hv).
  pose proof (af_prec_range g prec Hvg) as Hp. fold p' in Hp.
  assert (Hfin : f_is_nan f || f_is_inf f = false) by (destruct f; try discriminate; reflexivity).
  assert (Happ : append_float b spare f prec = af_print b spare neg mant p').
  { unfold append_float. rewrite Hfin. reflexivity. }
  (* the sign of f *)
  assert (Hsgn : SF2R radix2 f = (if neg then - Rabs (SF2R radix2 f) else Rabs (SF2R radix2 f))%R).
  { destruct f as [s0|s0| |s m e]; try discriminate. unfold neg. destruct s.
    - change (flt (S754_finite true m e) fzero) with true. cbv iota.
      assert (SF2R radix2 (S754_finite true m e) < 0)%R by (cbn [SF2R]; apply F2R_lt_0; reflexivity).
      rewrite Rabs_left by exact H. lra.
    - change (flt (S754_finite false m e) fzero) with false. cbv iota.
      assert (0 < SF2R radix2 (S754_finite false m e))%R by (cbn [SF2R]; apply F2R_gt_0; reflexivity).
      rewrite Rabs_pos_eq by lra. reflexivity. }
  assert (Hfinish : forall out, lit_value out = ((if neg then - IZR mant else IZR mant) * Rp10 (- p'))%R ->
            (Rabs (lit_value out - SF2R radix2 f) <= Rp10 (- p') + 5 * uu * Rabs (SF2R radix2 f))%R).
  { intros out ->. rewrite Hsgn at 1. destruct neg.
    - replace (- IZR mant * Rp10 (- p') - - Rabs (SF2R radix2 f))%R with (- (IZR mant * Rp10 (- p') - Rabs (SF2R radix2 f)))%R by ring.
      rewrite Rabs_Ropp. exact Hval.
    - exact Hval. }
  destruct (Z.eq_dec mant 0) as [E0|E0].
  - exists [48]. rewrite Happ. unfold af_print. rewrite E0. change (0 =? 0) with true. cbv iota.
    split; [reflexivity|]. split; [reflexivity|]. split; [lia|].
    assert (Hlv : lit_value [48] = ((if neg then - IZR 0 else IZR 0) * Rp10 (- p'))%R).
    { unfold lit_value. cbn. destruct neg; lra. }
    split; [exact Hlv|]. rewrite <- E0 in Hlv. apply Hfinish. exact Hlv.
  - destruct (af_print_value_proof b spare neg mant p' ltac:(lia) Hp) as (out & Hout & Hlit & Hneg & q & t0 & bb & Ht0 & Hbb & Hq & Hpair).
    exists out. rewrite Happ. split; [exact Hout|]. split; [lia|]. split; [intros _; exact Hlit|].
    pose proof (lit_value_of_pair out neg q t0 bb p' mant Hneg Ht0 Hbb Hq Hpair) as Hlv.
    split; [exact Hlv|apply Hfinish; exact Hlv].
Qed.
