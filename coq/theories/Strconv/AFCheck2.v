(* Strconv/AFCheck2.v — AppendFloat layout: the canonical mantissas of 10..13 digits, every number of trailing
   zeros, every adjusted precision in [-350, 350], both signs, by computation. *)
From Verif Require Import Common.Base Strconv.Model Strconv.FModel Strconv.AFProofs.
Lemma af_check_10_13 : af_check_range 10 13 = true.
Proof. vm_cast_no_check (eq_refl true). Qed.
