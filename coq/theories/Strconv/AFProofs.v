(* Strconv/AFProofs.v — AppendFloat (float.go): the literal written after mant := int64(f) is well formed, carries
   the right sign and (with AFLitProofs.v) denotes mant * 10^-prec, for every mantissa and every adjusted precision.
   Method: the layout is run on canonical mantissas with the digit cells holding position tags (af_print_g tag_enc);
   a lockstep argument (this file) shows that the code's output for any mantissa of the same shape is that tagged
   output with every tag replaced by the digit at that position; the tagged outputs are checked by computation
   (AFCheck1..4.v) against an explicit form whose meaning is proved in AFLitProofs.v. *)
From Coq Require Import ZifyBool Floats.SpecFloat.
From Verif Require Import Common.Base Common.Tactics Strconv.Model Strconv.FModel Strconv.IntProofs Gen.Tables.

(* ---- the literal syntax   -? ( digits [. digits] | . digits ) [ e -? digits ] ------------------------------ *)

Definition float_literal (neg : bool) (out : list Z) : Prop :=
  exists ip fp ex,
    out = (if neg then [45] else []) ++ ip ++ (match fp with [] => [] | _ => 46 :: fp end) ++ ex /\
    all_digits ip /\ all_digits fp /\ (ip <> [] \/ fp <> []) /\
    (ex = [] \/ exists ds, all_digits ds /\ ds <> [] /\ (ex = 101 :: ds \/ ex = 101 :: 45 :: ds)).

(* an executable recogniser *)
Definition lit_exp_b (ex : list Z) : bool :=
  match ex with
  | [] => true
  | c :: t =>
      (c =? 101) &&
      (let t' := match t with m :: t2 => if m =? 45 then t2 else t | [] => t end in
       negb (len (take_digits t') =? 0) && match drop_digits t' with [] => true | _ => false end)
  end.

Definition lit_body_b (l : list Z) : bool :=
  match drop_digits l with
  | c :: t =>
      if c =? 46 then negb (len (take_digits t) =? 0) && lit_exp_b (drop_digits t)
      else negb (len (take_digits l) =? 0) && lit_exp_b (c :: t)
  | [] => negb (len (take_digits l) =? 0)
  end.

Definition float_lit_b (neg : bool) (out : list Z) : bool :=
  match out with
  | c :: t => if c =? 45 then neg && lit_body_b t else negb neg && lit_body_b out
  | [] => false
  end.


(* the canonical mantissa with L digits of which the last z are zeros: 1..10..0 *)
Definition canon_mant (L z : Z) : Z := (10 ^ (L - z) - 1) / 9 * 10 ^ z.

Definition markers : list Z := repeat 1000 64.
(* what the tagged run may leave in its result: bytes, or tags 2000 + t *)
Definition no_marker (l : list Z) : bool := forallb (fun c => (c <? 1000) || (2000 <=? c)) l.

(* ---- the conversion loop with the encoding of the digit cells as a parameter ---------------------------------- *)

(* the part of an iteration between the dot and the digit store *)
Definition af_mid (s1 : afst) (digit : Z) : afst :=
  if af_zero s1 && (0 <? digit) then
    let s' :=
      if af_dot s1 <? af_j s1 then
        let i := af_j s1 + 1 in
        if af_exp s1 <? 0 then
          let newExp := af_exp s1 - (af_j s1 - af_dot s1) in
          if len_int newExp =? len_int (af_exp s1) then
            mkAf (af_b s1) (i - 1) (af_j s1 - 1) (af_last s1) (af_j s1) newExp (af_zero s1)
          else mkAf (af_b s1) i (af_j s1) (af_last s1) (af_dot s1) (af_exp s1) (af_zero s1)
        else mkAf (af_b s1) i (af_j s1) (af_last s1) (af_dot s1) (af_exp s1) (af_zero s1)
      else mkAf (af_b s1) (af_dot s1) (af_j s1) (af_last s1) (af_dot s1) (af_exp s1) (af_zero s1) in
    mkAf (af_b s') (af_i s') (af_j s') (af_j s') (af_dot s') (af_exp s') false
  else s1.

(* af_loop, storing [enc fu digit] for the digit produced when fu iterations of fuel remain: the code's bytes for
   std_enc; for tag_enc the tag 2000 + t of the t-th digit from the right (fuel 20 at the start) *)
Fixpoint af_loop_g (enc : nat -> Z -> Z) (fuel : nat) (s : afst) (mant : Z) : res afst :=
  if 0 <? mant then
    match fuel with
    | O => NoFuel
    | S fu =>
        s1 <-- (if af_j s =? af_dot s then
                  b' <-- store (af_b s) (af_j s) 46 ;;
                  Ok (mkAf b' (af_i s) (af_j s - 1) (af_last s) (af_dot s) (af_exp s) (af_zero s))
                else Ok s) ;;
        let newMant := Z.quot mant 10 in
        let digit := mant - 10 * newMant in
        let s2 := af_mid s1 digit in
        b' <-- store (af_b s2) (af_j s2) (enc fu digit) ;;
        af_loop_g enc fu (mkAf b' (af_i s2) (af_j s2 - 1) (af_last s2) (af_dot s2) (af_exp s2) (af_zero s2)) newMant
    end
  else Ok s.

Definition std_enc (fu : nat) (d : Z) : Z := byte (48 + byte d).
Definition tag_enc (fu : nat) (d : Z) : Z := 2000 + (19 - Z.of_nat fu).

Lemma af_loop_std fuel : forall s mant, af_loop fuel s mant = af_loop_g std_enc fuel s mant.
Proof.
  induction fuel as [|fu IH]; intros s mant; [reflexivity|].
  cbn [af_loop af_loop_g]. destruct (0 <? mant); [|reflexivity].
  destruct (if af_j s =? af_dot s then _ else _) as [s1| |]; cbn [rbind]; try reflexivity.
  cbv zeta. fold (af_mid s1 (mant - 10 * Z.quot mant 10)). unfold std_enc.
  destruct (store _ _ _); cbn [rbind]; try reflexivity. apply IH.
Qed.

Lemma af_loop_g_S enc fu s mant :
  af_loop_g enc (S fu) s mant =
  if 0 <? mant then
    s1 <-- (if af_j s =? af_dot s then
              b' <-- store (af_b s) (af_j s) 46 ;;
              Ok (mkAf b' (af_i s) (af_j s - 1) (af_last s) (af_dot s) (af_exp s) (af_zero s))
            else Ok s) ;;
    let newMant := Z.quot mant 10 in
    let digit := mant - 10 * newMant in
    let s2 := af_mid s1 digit in
    b' <-- store (af_b s2) (af_j s2) (enc fu digit) ;;
    af_loop_g enc fu (mkAf b' (af_i s2) (af_j s2 - 1) (af_last s2) (af_dot s2) (af_exp s2) (af_zero s2)) newMant
  else Ok s.
Proof. reflexivity. Qed.

(* the digit of weight 10^t, and the byte a cell of the tagged run stands for *)
Definition dig (M t : Z) : Z := (M / 10 ^ t) mod 10.
Definition subst (M c : Z) : Z := if 2000 <=? c then 48 + dig M (c - 2000) else c.

Lemma dig_range M t : 0 <= dig M t <= 9.
Proof. unfold dig. pose proof (Z.mod_pos_bound (M / 10 ^ t) 10 ltac:(lia)). lia. Qed.

Lemma byte_lt x : 0 <= byte x < 1000.
Proof. unfold byte. pose proof (Z.mod_pos_bound x 256 ltac:(lia)). lia. Qed.

Lemma quot_div_nonneg m : 0 <= m -> Z.quot m 10 = m / 10 /\ m - 10 * Z.quot m 10 = m mod 10.
Proof.
  intros H. rewrite Z.quot_div_nonneg by lia. split; [reflexivity|]. pose proof (Z.div_mod m 10 ltac:(lia)). lia.
Qed.

(* ---- lockstep: the layout does not depend on which digits the mantissa has ------------------------------------ *)

Section Lockstep.
Variable M : Z.

(* the left cell is the byte the right cell (a byte or a tag) stands for *)
Definition trel (x y : Z) : Prop := (y < 1000 \/ 2000 <= y) /\ x = subst M y.
(* ... or the right-hand cell is still an unwritten marker *)
Definition mrel (x y : Z) : Prop := trel x y \/ 1000 <= y < 2000.
(* left buffer = pre ++ X with X cell-wise related to the right buffer *)
Definition brel (pre B X0 : list Z) : Prop := exists X, B = pre ++ X /\ Forall2 mrel X X0.

Lemma trel_const c : c < 1000 -> trel c c.
Proof. intros H. unfold trel, subst. split; [lia|]. replace (2000 <=? c) with false by lia. reflexivity. Qed.

Lemma setz_cons x t i v : 0 <= i -> setz (x :: t) i v = if i =? 0 then v :: t else x :: setz t (i - 1) v.
Proof.
  intros Hi. unfold setz. rewrite len_cons. pose proof (len_nonneg t) as Ht.
  destruct (i =? 0) eqn:E0.
  - assert (i = 0) by lia. subst i. replace ((0 <=? 0) && (0 <? 1 + len t)) with true by lia. reflexivity.
  - replace ((0 <=? i) && (i <? 1 + len t)) with ((0 <=? i - 1) && (i - 1 <? len t)) by lia.
    destruct ((0 <=? i - 1) && (i - 1 <? len t)) eqn:E; [|reflexivity].
    unfold firstz, skipz. replace (Z.to_nat i) with (S (Z.to_nat (i - 1))) by lia.
    replace (Z.to_nat (i + 1)) with (S (Z.to_nat (i - 1 + 1))) by lia. reflexivity.
Qed.

Lemma Forall2_setz {R : Z -> Z -> Prop} X X0 : Forall2 R X X0 -> forall i v v0, 0 <= i -> R v v0 ->
  Forall2 R (setz X i v) (setz X0 i v0).
Proof.
  intros H. induction H as [|x y t t0 Hxy Ht IH]; intros i v v0 Hi Hv.
  - unfold setz. change (len (@nil Z)) with 0. replace ((0 <=? i) && (i <? 0)) with false by lia. constructor.
  - rewrite !setz_cons by lia. destruct (i =? 0) eqn:E0; constructor; try assumption. apply IH; [lia|exact Hv].
Qed.

Lemma Forall2_len {A B} {R : A -> B -> Prop} l l0 : Forall2 R l l0 -> len l = len l0.
Proof. intros H. unfold len. induction H; cbn [length]; lia. Qed.

Lemma setz_app_r pre X i v : 0 <= i -> setz (pre ++ X) (i + len pre) v = pre ++ setz X i v.
Proof.
  intros Hi. induction pre as [|p pre IH]; [cbn [app]; change (len (@nil Z)) with 0; rewrite Z.add_0_r; reflexivity|].
  cbn [app]. rewrite len_cons. pose proof (len_nonneg pre). rewrite setz_cons by lia.
  replace (i + (1 + len pre) =? 0) with false by lia. replace (i + (1 + len pre) - 1) with (i + len pre) by lia.
  rewrite IH. reflexivity.
Qed.

Lemma store_rel pre B X0 i v v0 X0' : brel pre B X0 -> trel v v0 -> store X0 i v0 = Ok X0' ->
  exists B', store B (i + len pre) v = Ok B' /\ brel pre B' X0'.
Proof.
  intros (X & -> & HX) Hv Hs. unfold store in *. pose proof (Forall2_len _ _ HX) as Hl.
  destruct ((0 <=? i) && (i <? len X0)) eqn:E; [|discriminate]. inversion Hs; subst X0'.
  rewrite len_app. pose proof (len_nonneg pre).
  replace ((0 <=? i + len pre) && (i + len pre <? len pre + len X)) with true by lia.
  eexists. split; [reflexivity|]. exists (setz X i v). split; [apply setz_app_r; lia|].
  apply Forall2_setz; [exact HX|lia|left; exact Hv].
Qed.

Lemma peekz_cons x t i : 0 <= i -> peekz (x :: t) i = if i =? 0 then Some x else peekz t (i - 1).
Proof.
  intros Hi. unfold peekz. rewrite len_cons. pose proof (len_nonneg t).
  destruct (i =? 0) eqn:E0.
  - assert (i = 0) by lia. subst i. replace ((0 <=? 0) && (0 <? 1 + len t)) with true by lia. reflexivity.
  - replace ((0 <=? i) && (i <? 1 + len t)) with ((0 <=? i - 1) && (i - 1 <? len t)) by lia.
    destruct ((0 <=? i - 1) && (i - 1 <? len t)); [|reflexivity].
    replace (Z.to_nat i) with (S (Z.to_nat (i - 1))) by lia. reflexivity.
Qed.

Lemma peekz_neg l i : i < 0 -> peekz l i = None.
Proof. intros H. unfold peekz. replace (0 <=? i) with false by lia. reflexivity. Qed.

Lemma Forall2_peekz {R : Z -> Z -> Prop} X X0 : Forall2 R X X0 -> forall i c0, peekz X0 i = Some c0 ->
  exists c, peekz X i = Some c /\ R c c0.
Proof.
  intros H. induction H as [|x y t t0 Hxy Ht IH]; intros i c0 Hp.
  - unfold peekz in Hp. change (len (@nil Z)) with 0 in Hp. destruct ((0 <=? i) && (i <? 0)) eqn:E; [lia|discriminate].
  - destruct (Z.ltb_spec i 0) as [Hneg|Hi]; [rewrite peekz_neg in Hp by lia; discriminate|].
    rewrite peekz_cons in * by lia. destruct (i =? 0) eqn:E0; [inversion Hp; subst; eauto|]. apply IH. exact Hp.
Qed.

Lemma peekz_app_pre pre X i : 0 <= i -> peekz (pre ++ X) (i + len pre) = peekz X i.
Proof.
  intros Hi. pose proof (len_nonneg pre). rewrite peekz_app_r by lia. f_equal. lia.
Qed.

Lemma peek_rel pre B X0 i c0 : brel pre B X0 -> peekz X0 i = Some c0 ->
  exists c, peekz B (i + len pre) = Some c /\ mrel c c0.
Proof.
  intros (X & -> & HX) Hp. pose proof (peekz_some _ _ _ Hp) as Hr.
  rewrite peekz_app_pre by lia. apply (Forall2_peekz _ _ HX). exact Hp.
Qed.

Lemma Forall2_firstn {A B} {R : A -> B -> Prop} l l0 : Forall2 R l l0 -> forall n, Forall2 R (firstn n l) (firstn n l0).
Proof.
  intros H. induction H; intros n; destruct n; cbn [firstn]; constructor; auto.
Qed.

Lemma firstz_app_pre {A} (pre X : list A) i : 0 <= i -> firstz (i + len pre) (pre ++ X) = pre ++ firstz i X.
Proof.
  intros Hi. unfold firstz, len. replace (Z.to_nat (i + Z.of_nat (length pre))) with (length pre + Z.to_nat i)%nat by lia.
  apply firstn_app_2.
Qed.

Lemma reslice_rel pre B X0 i R0 : brel pre B X0 -> reslice X0 i = Ok R0 ->
  exists R, reslice B (i + len pre) = Ok (pre ++ R) /\ Forall2 mrel R R0.
Proof.
  intros (X & -> & HX) Hr. unfold reslice in *. pose proof (Forall2_len _ _ HX) as Hl.
  destruct ((0 <=? i) && (i <=? len X0)) eqn:E; [|discriminate]. inversion Hr; subst R0.
  rewrite len_app. pose proof (len_nonneg pre).
  replace ((0 <=? i + len pre) && (i + len pre <=? len pre + len X)) with true by lia.
  exists (firstz i X). split; [rewrite firstz_app_pre by lia; reflexivity|]. apply Forall2_firstn. exact HX.
Qed.

(* ---- the conversion loop in lockstep ------------------------------------------------------------------------------ *)

Definition srel (pre : list Z) (s s0 : afst) : Prop :=
  brel pre (af_b s) (af_b s0) /\ af_i s = af_i s0 + len pre /\ af_j s = af_j s0 + len pre /\
  af_last s = af_last s0 + len pre /\ af_dot s = af_dot s0 + len pre /\ af_exp s = af_exp s0 /\
  af_zero s = af_zero s0.

(* two mantissas with the same number of digits and the same number of trailing zeros *)
Fixpoint sim (fuel : nat) (zero : bool) (m m0 : Z) : Prop :=
  (0 <? m) = (0 <? m0) /\
  match fuel with
  | O => True
  | S f =>
      0 < m ->
      let d := m - 10 * Z.quot m 10 in
      let d0 := m0 - 10 * Z.quot m0 10 in
      0 <= d <= 9 /\ 0 <= d0 <= 9 /\ (zero = true -> (0 <? d) = (0 <? d0)) /\
      sim f (if zero && (0 <? d) then false else zero) (Z.quot m 10) (Z.quot m0 10)
  end.

Lemma af_mid_rel pre s1 s10 d d0 : srel pre s1 s10 -> (af_zero s10 = true -> (0 <? d) = (0 <? d0)) ->
  srel pre (af_mid s1 d) (af_mid s10 d0) /\
  af_zero (af_mid s10 d0) = (if af_zero s10 && (0 <? d) then false else af_zero s10).
Proof.
  intros (Hb & Hi & Hj & Hl & Hd & He & Hz) Hdig. unfold af_mid. rewrite Hz.
  destruct (af_zero s10) eqn:Ez; cbn [andb].
  - rewrite <- (Hdig eq_refl). destruct (0 <? d); [|split; [repeat split; try assumption; congruence|cbn [andb af_zero]; congruence]].
    replace (af_dot s1 <? af_j s1) with (af_dot s10 <? af_j s10) by lia. rewrite He.
    replace (af_j s1 - af_dot s1) with (af_j s10 - af_dot s10) by lia.
    destruct (af_dot s10 <? af_j s10).
    + destruct (af_exp s10 <? 0).
      * destruct (len_int (af_exp s10 - (af_j s10 - af_dot s10)) =? len_int (af_exp s10));
          (split; [repeat split; cbn [af_b af_i af_j af_last af_dot af_exp af_zero]; try assumption; try congruence; lia|cbn [andb af_zero]; congruence]).
      * split; [repeat split; cbn [af_b af_i af_j af_last af_dot af_exp af_zero]; try assumption; try congruence; lia|cbn [andb af_zero]; congruence].
    + split; [repeat split; cbn [af_b af_i af_j af_last af_dot af_exp af_zero]; try assumption; try congruence; lia|cbn [andb af_zero]; congruence].
  - split; [repeat split; try assumption; congruence|cbn [andb af_zero]; congruence].
Qed.

Lemma digit_char d : 0 <= d <= 9 -> byte (48 + byte d) = 48 + d /\ is_digit (48 + d) = true.
Proof.
  intros H. unfold byte. rewrite (Z.mod_small d) by lia. rewrite Z.mod_small by lia. split; [reflexivity|].
  unfold is_digit. lia.
Qed.

Lemma af_loop_rel pre fuel : forall s s0 m m0 s0', srel pre s s0 -> sim fuel (af_zero s0) m m0 ->
  Z.of_nat fuel <= 20 -> 0 <= M -> m = M / 10 ^ (20 - Z.of_nat fuel) ->
  af_loop_g tag_enc fuel s0 m0 = Ok s0' -> exists s', af_loop_g std_enc fuel s m = Ok s' /\ srel pre s' s0'.
Proof.
  induction fuel as [|fu IH]; intros s s0 m m0 s0' Hs Hsim Hfu HM Hm Hr.
  - cbn [af_loop_g sim] in *. destruct Hsim as [Hpos _]. rewrite Hpos.
    destruct (0 <? m0); [discriminate|]. inversion Hr; subst. eauto.
  - rewrite af_loop_g_S in *. destruct Hsim as [Hpos Hstep]. rewrite Hpos.
    destruct (0 <? m0) eqn:Em0; [|inversion Hr; subst; eauto].
    cbv zeta in Hstep. destruct (Hstep ltac:(lia)) as (Hd & Hd0 & Hdz & Hnext). clear Hstep.
    pose proof Hs as (Hb & Hi & Hj & Hl & Hdot & He & Hz).
    (* the dot *)
    replace (af_j s =? af_dot s) with (af_j s0 =? af_dot s0) by lia.
    assert (Hs1 : forall s10, (if af_j s0 =? af_dot s0 then
                    b' <-- store (af_b s0) (af_j s0) 46 ;; Ok (mkAf b' (af_i s0) (af_j s0 - 1) (af_last s0) (af_dot s0) (af_exp s0) (af_zero s0))
                  else Ok s0) = Ok s10 ->
               exists s1, (if af_j s0 =? af_dot s0 then
                    b' <-- store (af_b s) (af_j s) 46 ;; Ok (mkAf b' (af_i s) (af_j s - 1) (af_last s) (af_dot s) (af_exp s) (af_zero s))
                  else Ok s) = Ok s1 /\ srel pre s1 s10 /\ af_zero s10 = af_zero s0).
    { intros s10 H1. destruct (af_j s0 =? af_dot s0).
      - destruct (store (af_b s0) (af_j s0) 46) as [b0'| |] eqn:Est; try discriminate. cbn [rbind] in H1. inversion H1; subst s10.
        destruct (store_rel pre _ _ _ 46 46 _ Hb (trel_const 46 ltac:(lia)) Est) as (B' & HB' & Hrel).
        rewrite Hj, HB'. cbn [rbind]. eexists. split; [reflexivity|]. split; [|reflexivity].
        repeat split; cbn [af_b af_i af_j af_last af_dot af_exp af_zero]; try assumption; lia.
      - inversion H1; subst. eexists. split; [reflexivity|]. split; [exact Hs|reflexivity]. }
    destruct (if af_j s0 =? af_dot s0 then _ else _) as [s10| |] eqn:E1 in Hr; try discriminate.
    destruct (Hs1 s10 E1) as (s1 & -> & Hs1rel & Hz10). cbn [rbind] in *. cbv zeta in *.
    set (d := m - 10 * Z.quot m 10) in *. set (d0 := m0 - 10 * Z.quot m0 10) in *.
    destruct (af_mid_rel pre s1 s10 d d0 Hs1rel ltac:(rewrite Hz10; exact Hdz)) as (Hmid & Hzmid).
    set (s2 := af_mid s1 d) in *. set (s20 := af_mid s10 d0) in *.
    destruct (store (af_b s20) (af_j s20) (tag_enc fu d0)) as [b0'| |] eqn:Est; try discriminate. cbn [rbind] in Hr.
    destruct (digit_char d Hd) as [Hc1 Hc2].
    destruct Hmid as (Hb2 & Hi2 & Hj2 & Hl2 & Hdot2 & He2 & Hz2).
    assert (Hm0 : 0 <= m) by (rewrite Hm; apply Z.div_pos; [exact HM|apply Z.pow_pos_nonneg; lia]).
    destruct (quot_div_nonneg m Hm0) as [Hq Hdm].
    assert (Hvr : trel (std_enc fu d) (tag_enc fu d0)).
    { unfold trel, std_enc, tag_enc, subst. split; [lia|]. replace (2000 <=? 2000 + (19 - Z.of_nat fu)) with true by lia.
      rewrite Hc1. f_equal. unfold d, dig. rewrite Hdm, Hm. f_equal. f_equal. f_equal. lia. }
    destruct (store_rel pre _ _ _ _ _ _ Hb2 Hvr Est) as (B' & HB' & Hrel).
    rewrite Hj2, HB'. cbn [rbind].
    eapply IH; [| | |exact HM| |exact Hr].
    + repeat split; cbn [af_b af_i af_j af_last af_dot af_exp af_zero]; try assumption; lia.
    + cbn [af_zero]. rewrite Hzmid, Hz10. exact Hnext.
    + lia.
    + rewrite Hq, Hm. rewrite Z.div_div by (try lia; apply Z.pow_nonzero; lia).
      f_equal. replace (20 - Z.of_nat fu) with (Z.succ (20 - Z.of_nat (S fu))) by lia. rewrite Z.pow_succ_r by lia. ring.
Qed.

(* ---- the other writers ---------------------------------------------------------------------------------------------- *)

Lemma af_zeros_rel pre k : forall B X0 j r0, brel pre B X0 -> af_zeros k X0 j = Ok r0 ->
  exists B', af_zeros k B (j + len pre) = Ok (B', snd r0 + len pre) /\ brel pre B' (fst r0).
Proof.
  induction k as [|k IH]; intros B X0 j r0 Hb Hr; cbn [af_zeros] in *.
  - inversion Hr; subst. cbn [fst snd]. eauto.
  - destruct (store X0 j 48) as [X1| |] eqn:Est; try discriminate. cbn [rbind] in Hr.
    destruct (store_rel pre B X0 j 48 48 X1 Hb (trel_const 48 ltac:(lia)) Est) as (B1 & HB1 & Hb1). rewrite HB1. cbn [rbind].
    replace (j + len pre - 1) with (j - 1 + len pre) by lia. eapply IH; eassumption.
Qed.

Lemma af_expdigits_rel pre fuel : forall B X0 j e X0', brel pre B X0 -> af_expdigits fuel X0 j e = Ok X0' ->
  exists B', af_expdigits fuel B (j + len pre) e = Ok B' /\ brel pre B' X0'.
Proof.
  induction fuel as [|fu IH]; intros B X0 j e X0' Hb Hr; cbn [af_expdigits] in *.
  - destruct (0 <? e); [discriminate|]. inversion Hr; subst. eauto.
  - destruct (0 <? e); [|inversion Hr; subst; eauto]. cbv zeta in *.
    destruct (store X0 (j - 1) (byte (48 + byte (e - 10 * Z.quot e 10)))) as [X1| |] eqn:Est; try discriminate. cbn [rbind] in Hr.
    destruct (store_rel pre B X0 (j - 1) _ _ X1 Hb (trel_const _ (proj2 (byte_lt _))) Est) as (B1 & HB1 & Hb1).
    replace (j + len pre - 1) with (j - 1 + len pre) by lia. rewrite HB1. cbn [rbind]. eapply IH; eassumption.
Qed.

Lemma grow_spec_local b spare n : 0 <= n -> exists fill, grow b spare n = Ok (b ++ fill) /\ len fill = n.
Proof. apply grow_spec. Qed.

Lemma In_firstn_repeat (y : Z) k n v : In y (firstn k (repeat v n)) -> y = v.
Proof.
  revert k. induction n as [|n IH]; intros k H; destruct k; cbn [repeat firstn] in H; try contradiction.
  destruct H as [H|H]; [congruence|]. eapply IH. exact H.
Qed.

Lemma markers_len : len markers = 64. Proof. reflexivity. Qed.

Lemma Forall2_marker (X X0 : list Z) : len X = len X0 -> Forall (fun y => 1000 <= y < 2000) X0 -> Forall2 mrel X X0.
Proof.
  revert X0. induction X as [|x X IH]; intros X0 Hl Hm.
  - destruct X0; [constructor|]. rewrite len_cons in Hl. pose proof (len_nonneg X0). change (len (@nil Z)) with 0 in Hl. lia.
  - destruct X0 as [|y X0]; [rewrite len_cons in Hl; pose proof (len_nonneg X); change (len (@nil Z)) with 0 in Hl; lia|].
    rewrite !len_cons in Hl. inversion Hm; subst. constructor; [right; assumption|apply IH; [lia|assumption]].
Qed.

Lemma grow_rel pre spare n : 0 <= n <= 64 ->
  exists X, grow pre spare n = Ok (pre ++ X) /\ grow [] markers n = Ok (firstz n markers) /\ Forall2 mrel X (firstz n markers).
Proof.
  intros Hn. destruct (grow_spec_local pre spare n) as (X & HX & Hl); [lia|].
  exists X. split; [exact HX|]. split.
  - unfold grow. rewrite markers_len. replace (64 <? n) with false by lia. replace (0 <=? n) with true by lia. reflexivity.
  - apply Forall2_marker.
    + rewrite Hl. symmetry. apply len_firstz. rewrite markers_len. lia.
    + unfold firstz, markers. apply Forall_forall. intros y Hy. apply In_firstn_repeat in Hy. lia.
Qed.

(* ---- af_print in pieces ------------------------------------------------------------------------------------------------ *)

Definition af_post (s : afst) : res afst :=
  if af_dot s <? af_j s then
    r <-- af_zeros (Z.to_nat (af_j s - af_dot s)) (af_b s) (af_j s) ;;
    b' <-- store (fst r) (snd r) 46 ;;
    Ok (mkAf b' (af_i s) (snd r) (af_last s) (af_dot s) (af_exp s) (af_zero s))
  else if af_last s + 3 <? af_dot s then
    Ok (mkAf (af_b s) (af_last s + 1) (af_j s) (af_last s) (af_dot s) (af_dot s - af_last s - 1) (af_zero s))
  else if af_j s =? af_dot s then
    b' <-- store (af_b s) (af_j s) 46 ;;
    Ok (mkAf b' (af_i s) (af_j s) (af_last s) (af_dot s) (af_exp s) (af_zero s))
  else Ok s.

Definition af_tail (s3 : afst) (first : Z) : res (list Z) :=
  let exp := af_exp s3 in
  let i := af_i s3 in
  let b3 := af_b s3 in
  if negb (exp =? 0) then
    if exp =? 1 then
      b4 <-- store b3 i 48 ;; reslice b4 (i + 1)
    else if exp =? 2 then
      twodigits <-- (if first + 3 <=? i then
                       match peekz b3 (i - 2) with Some c => Ok (c =? 46) | None => Panic end
                     else Ok false) ;;
      if twodigits then
        match peekz b3 (i - 1) with
        | Some c => b4 <-- store b3 (i - 2) c ;; b5 <-- store b4 (i - 1) 48 ;; reslice b5 i
        | None => Panic
        end
      else
        b4 <-- store b3 i 48 ;; b5 <-- store b4 (i + 1) 48 ;; reslice b5 (i + 2)
    else
      b4 <-- store b3 i 101 ;;
      let i := i + 1 in
      be <-- (if exp <? 0 then b5 <-- store b4 i 45 ;; Ok (b5, i + 1, - exp) else Ok (b4, i, exp)) ;;
      let i := snd (fst be) + len_int (snd be) in
      b6 <-- af_expdigits 20 (fst (fst be)) i (snd be) ;;
      reslice b6 i
  else reslice b3 i.

Definition af_body (b1 : list Z) (i0 : Z) (neg : bool) (mant prec mantLen exp : Z) : res (list Z) :=
  bi <-- (if neg then b2 <-- store b1 i0 45 ;; Ok (b2, i0 + 1) else Ok (b1, i0)) ;;
  let i := snd bi in
  let last := i + mantLen in
  let dot := last - prec - exp in
  s <-- af_loop 20 (mkAf (fst bi) i last last dot exp true) mant ;;
  s3 <-- af_post s ;;
  af_tail s3 i.

Definition af_body_g (enc : nat -> Z -> Z) (b1 : list Z) (i0 : Z) (neg : bool) (mant prec mantLen exp : Z) : res (list Z) :=
  bi <-- (if neg then b2 <-- store b1 i0 45 ;; Ok (b2, i0 + 1) else Ok (b1, i0)) ;;
  let i := snd bi in
  let last := i + mantLen in
  let dot := last - prec - exp in
  s <-- af_loop_g enc 20 (mkAf (fst bi) i last last dot exp true) mant ;;
  s3 <-- af_post s ;;
  af_tail s3 i.

Definition af_exp0 (mantLen0 prec : Z) : Z :=
  let mantExp := mantLen0 - prec - 1 in
  if 0 <? mantExp then (if prec <? 0 then mantExp else 0) else if mantExp <? -3 then mantExp else 0.
Definition af_mantlen (mantLen0 prec : Z) : Z :=
  let mantExp := mantLen0 - prec - 1 in
  if (0 <? mantExp) || (mantExp <? -3) then mantLen0
  else if mantExp <? -1 then mantLen0 + (- mantExp - 1) else mantLen0.
Definition af_maxlen (neg : bool) (mantLen0 prec : Z) : Z :=
  let mantExp := mantLen0 - prec - 1 in
  let expLen := if 0 <? mantExp then 1 + len_int (af_exp0 mantLen0 prec)
                else if mantExp <? -3 then 1 + len_int (af_exp0 mantLen0 prec) else 0 in
  let maxLen := 1 + af_mantlen mantLen0 prec + expLen in
  if neg then maxLen + 1 else maxLen.

Lemma af_print_unfold b spare neg mant prec :
  af_print b spare neg mant prec =
  if mant =? 0 then Ok (b ++ [48])
  else b1 <-- grow b spare (af_maxlen neg (len_int mant) prec) ;;
       af_body b1 (len b) neg mant prec (af_mantlen (len_int mant) prec) (af_exp0 (len_int mant) prec).
Proof. reflexivity. Qed.

(* af_print with the encoding of the digit cells as a parameter; the code's is std_enc *)
Definition af_print_g (enc : nat -> Z -> Z) (b spare : list Z) (neg : bool) (mant prec : Z) : res (list Z) :=
  if mant =? 0 then Ok (b ++ [48])
  else b1 <-- grow b spare (af_maxlen neg (len_int mant) prec) ;;
       af_body_g enc b1 (len b) neg mant prec (af_mantlen (len_int mant) prec) (af_exp0 (len_int mant) prec).

Lemma af_print_std b spare neg mant prec : af_print b spare neg mant prec = af_print_g std_enc b spare neg mant prec.
Proof.
  rewrite af_print_unfold. unfold af_print_g. destruct (mant =? 0); [reflexivity|].
  destruct (grow _ _ _) as [b1| |]; cbn [rbind]; try reflexivity.
Qed.

Ltac srel_solve := repeat split; cbn [af_b af_i af_j af_last af_dot af_exp af_zero]; try assumption; try congruence; lia.

Lemma af_post_rel pre s s0 s30 : srel pre s s0 -> af_post s0 = Ok s30 ->
  exists s3, af_post s = Ok s3 /\ srel pre s3 s30.
Proof.
  intros Hs Hr. pose proof Hs as (Hb & Hi & Hj & Hl & Hd & He & Hz). unfold af_post in *.
  replace (af_dot s <? af_j s) with (af_dot s0 <? af_j s0) by lia.
  replace (af_last s + 3 <? af_dot s) with (af_last s0 + 3 <? af_dot s0) by lia.
  replace (af_j s =? af_dot s) with (af_j s0 =? af_dot s0) by lia.
  replace (af_j s - af_dot s) with (af_j s0 - af_dot s0) by lia.
  destruct (af_dot s0 <? af_j s0).
  - destruct (af_zeros (Z.to_nat (af_j s0 - af_dot s0)) (af_b s0) (af_j s0)) as [r0| |] eqn:Ez; try discriminate. cbn [rbind] in Hr.
    destruct (af_zeros_rel pre _ _ _ _ _ Hb Ez) as (B' & HB' & Hb').
    rewrite Hj, HB'. cbn [rbind fst snd].
    destruct (store (fst r0) (snd r0) 46) as [X1| |] eqn:Est; try discriminate. cbn [rbind] in Hr. inversion Hr; subst s30.
    destruct (store_rel pre B' (fst r0) (snd r0) 46 46 X1 Hb' (trel_const 46 ltac:(lia)) Est) as (B1 & HB1 & Hb1).
    rewrite HB1. cbn [rbind]. eexists. split; [reflexivity|]. srel_solve.
  - destruct (af_last s0 + 3 <? af_dot s0).
    + inversion Hr; subst s30. eexists. split; [reflexivity|]. srel_solve.
    + destruct (af_j s0 =? af_dot s0).
      * destruct (store (af_b s0) (af_j s0) 46) as [X1| |] eqn:Est; try discriminate. cbn [rbind] in Hr. inversion Hr; subst s30.
        destruct (store_rel pre _ _ _ 46 46 X1 Hb (trel_const 46 ltac:(lia)) Est) as (B1 & HB1 & Hb1).
        rewrite Hj, HB1. cbn [rbind]. eexists. split; [reflexivity|]. srel_solve.
      * inversion Hr; subst s30. eexists. split; [reflexivity|exact Hs].
Qed.

Lemma no_marker_firstz_cell X0 k idx c0 : peekz X0 idx = Some c0 -> idx < k -> 1000 <= c0 < 2000 ->
  no_marker (firstz k X0) = false.
Proof.
  intros Hp Hk Hc. pose proof (peekz_some _ _ _ Hp) as Hr.
  destruct (no_marker (firstz k X0)) eqn:E; [exfalso|reflexivity].
  unfold no_marker in E. rewrite forallb_forall in E.
  assert (Hin : In c0 (firstz k X0)).
  { unfold peekz in Hp. replace ((0 <=? idx) && (idx <? len X0)) with true in Hp by lia.
    unfold firstz. rewrite <- (firstn_skipn (Z.to_nat k) X0) in Hp.
    rewrite nth_error_app1 in Hp by (rewrite firstn_length; unfold len in Hr; lia).
    apply nth_error_In in Hp. exact Hp. }
  specialize (E c0 Hin). lia.
Qed.

Lemma peekz_setz_other l : forall i v k, k <> i -> peekz (setz l i v) k = peekz l k.
Proof.
  induction l as [|x t IH]; intros i v k Hk.
  - unfold setz. change (len (@nil Z)) with 0. replace ((0 <=? i) && (i <? 0)) with false by lia. reflexivity.
  - destruct (Z.ltb_spec i 0) as [Hneg|Hi].
    + unfold setz. replace (0 <=? i) with false by lia. reflexivity.
    + rewrite setz_cons by lia.
      destruct (Z.ltb_spec k 0) as [Hkneg|Hk0]; [rewrite !peekz_neg by lia; reflexivity|].
      destruct (i =? 0) eqn:E0.
      * rewrite !peekz_cons by lia. replace (k =? 0) with false by lia. reflexivity.
      * rewrite !peekz_cons by lia. destruct (k =? 0) eqn:Ek; [reflexivity|]. apply IH. lia.
Qed.

Lemma peekz_setz_same l : forall i v, 0 <= i < len l -> peekz (setz l i v) i = Some v.
Proof.
  induction l as [|x t IH]; intros i v Hi.
  - change (len (@nil Z)) with 0 in Hi. lia.
  - rewrite len_cons in Hi. rewrite setz_cons by lia.
    destruct (i =? 0) eqn:E0; rewrite peekz_cons by lia; rewrite E0; [reflexivity|]. apply IH. lia.
Qed.

Lemma store_peek_other b i v b' k : store b i v = Ok b' -> k <> i -> peekz b' k = peekz b k.
Proof.
  unfold store. destruct ((0 <=? i) && (i <? len b)); [|discriminate]. intros H Hk. inversion H; subst b'.
  apply peekz_setz_other. exact Hk.
Qed.

Lemma store_peek_same b i v b' : store b i v = Ok b' -> peekz b' i = Some v.
Proof.
  unfold store. destruct ((0 <=? i) && (i <? len b)) eqn:E; [|discriminate]. intros H. inversion H; subst b'.
  apply peekz_setz_same. lia.
Qed.

Lemma af_tail_rel pre s3 s30 first0 out0 : srel pre s3 s30 -> af_tail s30 first0 = Ok out0 -> no_marker out0 = true ->
  exists out, af_tail s3 (first0 + len pre) = Ok (pre ++ out) /\ Forall2 mrel out out0.
Proof.
  intros Hs Hr Hnm. pose proof Hs as (Hb & Hi & Hj & Hl & Hd & He & Hz). unfold af_tail in *. cbv zeta in *.
  rewrite He, Hi. set (e := af_exp s30) in *. set (i := af_i s30) in *.
  destruct (negb (e =? 0)).
  2:{ apply (reslice_rel pre _ _ _ _ Hb Hr). }
  destruct (e =? 1).
  { destruct (store (af_b s30) i 48) as [X1| |] eqn:Est; try discriminate. cbn [rbind] in Hr.
    destruct (store_rel pre _ _ _ 48 48 X1 Hb (trel_const 48 ltac:(lia)) Est) as (B1 & HB1 & Hb1). rewrite HB1. cbn [rbind].
    replace (i + len pre + 1) with (i + 1 + len pre) by lia. apply (reslice_rel pre _ _ _ _ Hb1 Hr). }
  destruct (e =? 2).
  { replace (first0 + len pre + 3 <=? i + len pre) with (first0 + 3 <=? i) by lia.
    replace (i + len pre - 2) with (i - 2 + len pre) by lia. replace (i + len pre - 1) with (i - 1 + len pre) by lia.
    (* the "00" branch, shared *)
    assert (Hzz : forall out0', (b4 <-- store (af_b s30) i 48 ;; b5 <-- store b4 (i + 1) 48 ;; reslice b5 (i + 2)) = Ok out0' ->
                  exists out, (b4 <-- store (af_b s3) (i + len pre) 48 ;; b5 <-- store b4 (i + len pre + 1) 48 ;; reslice b5 (i + len pre + 2)) = Ok (pre ++ out)
                              /\ Forall2 mrel out out0').
    { intros out0' H. destruct (store (af_b s30) i 48) as [X1| |] eqn:Est; try discriminate. cbn [rbind] in H.
      destruct (store X1 (i + 1) 48) as [X2| |] eqn:Est2; try discriminate. cbn [rbind] in H.
      destruct (store_rel pre _ _ _ 48 48 X1 Hb (trel_const 48 ltac:(lia)) Est) as (B1 & HB1 & Hb1). rewrite HB1. cbn [rbind].
      replace (i + len pre + 1) with (i + 1 + len pre) by lia.
      destruct (store_rel pre _ _ _ 48 48 X2 Hb1 (trel_const 48 ltac:(lia)) Est2) as (B2 & HB2 & Hb2). rewrite HB2. cbn [rbind].
      replace (i + len pre + 2) with (i + 2 + len pre) by lia. apply (reslice_rel pre _ _ _ _ Hb2 H). }
    destruct (first0 + 3 <=? i) eqn:Ef; [|cbn [rbind] in *; apply Hzz; exact Hr].
    destruct (peekz (af_b s30) (i - 2)) as [c0|] eqn:Ep; [|discriminate]. cbn [rbind] in Hr.
    destruct (peek_rel pre _ _ _ _ Hb Ep) as (c & Hc & Hcrel). rewrite Hc. cbn [rbind].
    destruct Hcrel as [Hv|Hmark].
    - (* a written cell: the same test on both sides *)
      assert (Hsame : (c =? 46) = (c0 =? 46)).
      { destruct Hv as [Hr0 ->]. unfold subst. destruct (2000 <=? c0) eqn:E2; [|reflexivity].
        pose proof (dig_range M (c0 - 2000)). lia. }
      rewrite Hsame. destruct (c0 =? 46); [|apply Hzz; exact Hr].
      destruct (peekz (af_b s30) (i - 1)) as [c1|] eqn:Ep1; [|discriminate].
      destruct (peek_rel pre _ _ _ _ Hb Ep1) as (c1' & Hc1 & Hc1rel). rewrite Hc1.
      destruct (store (af_b s30) (i - 2) c1) as [X1| |] eqn:Est; try discriminate. cbn [rbind] in Hr.
      destruct (store X1 (i - 1) 48) as [X2| |] eqn:Est2; try discriminate. cbn [rbind] in Hr.
      destruct Hc1rel as [Hv1|Hmark1].
      + destruct (store_rel pre _ _ _ c1' c1 X1 Hb Hv1 Est) as (B1 & HB1 & Hb1). rewrite HB1. cbn [rbind].
        destruct (store_rel pre _ _ _ 48 48 X2 Hb1 (trel_const 48 ltac:(lia)) Est2) as (B2 & HB2 & Hb2). rewrite HB2. cbn [rbind].
        apply (reslice_rel pre _ _ _ _ Hb2 Hr).
      + (* the marker would be copied into the result *)
        exfalso. assert (Hp2 : peekz X2 (i - 2) = Some c1).
        { rewrite (store_peek_other _ _ _ _ (i - 2) Est2) by lia. apply (store_peek_same _ _ _ _ Est). }
        unfold reslice in Hr. destruct ((0 <=? i) && (i <=? len X2)); [|discriminate]. inversion Hr; subst out0.
        rewrite (no_marker_firstz_cell X2 i (i - 2) c1 Hp2 ltac:(lia) Hmark1) in Hnm. discriminate.
    - (* an unwritten cell would stay in the result of the "00" branch *)
      exfalso. replace (c0 =? 46) with false in Hr by lia.
      destruct (store (af_b s30) i 48) as [X1| |] eqn:Est; try discriminate. cbn [rbind] in Hr.
      destruct (store X1 (i + 1) 48) as [X2| |] eqn:Est2; try discriminate. cbn [rbind] in Hr.
      assert (Hp2 : peekz X2 (i - 2) = Some c0).
      { rewrite (store_peek_other _ _ _ _ (i - 2) Est2) by lia. rewrite (store_peek_other _ _ _ _ (i - 2) Est) by lia. exact Ep. }
      unfold reslice in Hr. destruct ((0 <=? i + 2) && (i + 2 <=? len X2)); [|discriminate]. inversion Hr; subst out0.
      rewrite (no_marker_firstz_cell X2 (i + 2) (i - 2) c0 Hp2 ltac:(lia) Hmark) in Hnm. discriminate. }
  (* e<digits> *)
  destruct (store (af_b s30) i 101) as [X1| |] eqn:Est; try discriminate. cbn [rbind] in Hr.
  destruct (store_rel pre _ _ _ 101 101 X1 Hb (trel_const 101 ltac:(lia)) Est) as (B1 & HB1 & Hb1). rewrite HB1. cbn [rbind].
  destruct (e <? 0).
  - destruct (store X1 (i + 1) 45) as [X2| |] eqn:Est2; try discriminate. cbn [rbind fst snd] in Hr.
    replace (i + len pre + 1) with (i + 1 + len pre) by lia.
    destruct (store_rel pre _ _ _ 45 45 X2 Hb1 (trel_const 45 ltac:(lia)) Est2) as (B2 & HB2 & Hb2). rewrite HB2. cbn [rbind fst snd].
    destruct (af_expdigits 20 X2 (i + 1 + 1 + len_int (- e)) (- e)) as [X3| |] eqn:Ee; try discriminate. cbn [rbind] in Hr.
    replace (i + 1 + len pre + 1 + len_int (- e)) with (i + 1 + 1 + len_int (- e) + len pre) by lia.
    destruct (af_expdigits_rel pre 20 _ _ _ _ _ Hb2 Ee) as (B3 & HB3 & Hb3). rewrite HB3. cbn [rbind].
    apply (reslice_rel pre _ _ _ _ Hb3 Hr).
  - cbn [rbind fst snd] in *.
    destruct (af_expdigits 20 X1 (i + 1 + len_int e) e) as [X3| |] eqn:Ee; try discriminate. cbn [rbind] in Hr.
    replace (i + len pre + 1 + len_int e) with (i + 1 + len_int e + len pre) by lia.
    destruct (af_expdigits_rel pre 20 _ _ _ _ _ Hb1 Ee) as (B3 & HB3 & Hb3). rewrite HB3. cbn [rbind].
    apply (reslice_rel pre _ _ _ _ Hb3 Hr).
Qed.

Lemma af_body_rel pre B1 X1 neg m0 prec mantLen exp out0 :
  brel pre B1 X1 -> sim 20 true M m0 -> 0 <= M ->
  af_body_g tag_enc X1 0 neg m0 prec mantLen exp = Ok out0 -> no_marker out0 = true ->
  exists out, af_body_g std_enc B1 (len pre) neg M prec mantLen exp = Ok (pre ++ out) /\ Forall2 mrel out out0.
Proof.
  intros Hb Hsim HM Hr Hnm. unfold af_body_g in *.
  assert (Hbi : forall bi0, (if neg then b2 <-- store X1 0 45 ;; Ok (b2, 0 + 1) else Ok (X1, 0)) = Ok bi0 ->
            exists bi, (if neg then b2 <-- store B1 (len pre) 45 ;; Ok (b2, len pre + 1) else Ok (B1, len pre)) = Ok bi /\
                       brel pre (fst bi) (fst bi0) /\ snd bi = snd bi0 + len pre).
  { intros bi0 H. destruct neg.
    - destruct (store X1 0 45) as [X2| |] eqn:Est; try discriminate. cbn [rbind] in H. inversion H; subst bi0.
      destruct (store_rel pre _ _ _ 45 45 X2 Hb (trel_const 45 ltac:(lia)) Est) as (B2 & HB2 & Hb2). cbn [Z.add] in HB2. rewrite HB2. cbn [rbind].
      eexists. split; [reflexivity|]. cbn [fst snd]. split; [exact Hb2|lia].
    - inversion H; subst bi0. eexists. split; [reflexivity|]. cbn [fst snd]. split; [exact Hb|lia]. }
  destruct (if neg then _ else _) as [bi0| |] eqn:Ebi in Hr; try discriminate.
  destruct (Hbi bi0 Ebi) as (bi & -> & Hbrel & Hsnd). cbn [rbind] in *. cbv zeta in *.
  destruct (af_loop_g tag_enc 20 _ m0) as [s0| |] eqn:El in Hr; try discriminate. cbn [rbind] in Hr.
  destruct (af_loop_rel pre 20 (mkAf (fst bi) (snd bi) (snd bi + mantLen) (snd bi + mantLen) (snd bi + mantLen - prec - exp) exp true)
              (mkAf (fst bi0) (snd bi0) (snd bi0 + mantLen) (snd bi0 + mantLen) (snd bi0 + mantLen - prec - exp) exp true) M m0 s0)
    as (s & Hs & Hsrel); [|exact Hsim|cbn; lia|exact HM| |exact El|].
  { repeat split; cbn [af_b af_i af_j af_last af_dot af_exp af_zero]; try assumption; lia. }
  { change (20 - Z.of_nat 20) with 0. rewrite Z.pow_0_r, Z.div_1_r. reflexivity. }
  rewrite Hs. cbn [rbind].
  destruct (af_post s0) as [s30| |] eqn:Ep; try discriminate. cbn [rbind] in Hr.
  destruct (af_post_rel pre s s0 s30 Hsrel Ep) as (s3 & -> & Hs3). cbn [rbind].
  rewrite Hsnd. apply (af_tail_rel pre s3 s30 (snd bi0) out0 Hs3 Hr Hnm).
Qed.

Lemma len_uint_range x : 1 <= len_uint x <= 20.
Proof. unfold len_uint. repeat match goal with |- context [if ?c then _ else _] => destruct c end; lia. Qed.

Lemma len_int_range x : 1 <= len_int x <= 21.
Proof.
  unfold len_int. destruct (x <? 0); [destruct (x =? min_i64); [lia|]|]; pose proof (len_uint_range (u64 (- x))); pose proof (len_uint_range (u64 x)); lia.
Qed.

Lemma af_maxlen_range neg L prec : 1 <= L <= 21 -> 0 <= af_maxlen neg L prec <= 64.
Proof.
  intros HL. unfold af_maxlen, af_mantlen. cbv zeta.
  pose proof (len_int_range (af_exp0 L prec)) as He.
  repeat match goal with |- context [if ?c then _ else _] => destruct c eqn:? end; lia.
Qed.

Lemma mrel_no_marker out out0 : Forall2 mrel out out0 -> no_marker out0 = true -> out = map (subst M) out0.
Proof.
  intros H. induction H as [|x y t t0 Hxy Ht IH]; intros Hn; [reflexivity|].
  unfold no_marker in Hn. cbn [forallb] in Hn. apply andb_true_iff in Hn. destruct Hn as [Hy Hn].
  cbn [map]. f_equal; [destruct Hxy as [[_ Hv]|Hm]; [exact Hv|lia]|apply IH; exact Hn].
Qed.

(* the layout of a mantissa M is that of the tagged run on any mantissa m0 with the same length and the same number
   of trailing zeros, every tag 2000 + t replaced by the digit of weight 10^t of M; the destination prefix is
   preserved, whatever the spare capacity holds *)
Lemma af_print_rel pre spare neg m0 prec out0 :
  len_int M = len_int m0 -> 0 < M -> m0 <> 0 -> sim 20 true M m0 ->
  af_print_g tag_enc [] markers neg m0 prec = Ok out0 -> no_marker out0 = true ->
  af_print pre spare neg M prec = Ok (pre ++ map (subst M) out0).
Proof.
  intros HL Hm Hm0 Hsim Hr Hnm. rewrite af_print_std. unfold af_print_g in *. rewrite HL.
  replace (M =? 0) with false by lia. replace (m0 =? 0) with false in Hr by lia.
  destruct (grow_rel pre spare (af_maxlen neg (len_int m0) prec) (af_maxlen_range neg _ prec (len_int_range m0))) as (X & HX & HX0 & HXrel).
  rewrite HX. rewrite HX0 in Hr. cbn [rbind] in *. change (len (@nil Z)) with 0 in Hr.
  destruct (af_body_rel pre (pre ++ X) _ neg m0 prec _ _ out0 ltac:(exists X; split; [reflexivity|exact HXrel]) Hsim ltac:(lia) Hr Hnm) as (out & Hout & Hrel).
  rewrite Hout. f_equal. f_equal. apply mrel_no_marker; assumption.
Qed.

End Lockstep.

(* ---- every mantissa is similar to a canonical one ---------------------------------------------------------------- *)

Fixpoint repunit (k : nat) : Z := match k with O => 0 | S k' => 10 * repunit k' + 1 end.

Lemma repunit_spec k : 10 ^ Z.of_nat k - 1 = 9 * repunit k.
Proof.
  induction k as [|k IH]; [reflexivity|]. rewrite Nat2Z.inj_succ, Z.pow_succ_r by lia. cbn [repunit]. lia.
Qed.

Lemma canon_mant_repunit L z : 0 <= z <= L -> canon_mant L z = repunit (Z.to_nat (L - z)) * 10 ^ z.
Proof.
  intros H. unfold canon_mant. f_equal.
  replace (L - z) with (Z.of_nat (Z.to_nat (L - z))) at 1 by lia. rewrite repunit_spec.
  rewrite Z.mul_comm. apply Z.div_mul. lia.
Qed.

(* k decimal digits (k = 0 for 0) *)
Definition ndig (k m : Z) : Prop := (k = 0 /\ m = 0) \/ (1 <= k /\ 10 ^ (k - 1) <= m < 10 ^ k).

Lemma ndig_div k m : 1 <= k -> ndig k m -> ndig (k - 1) (m / 10) /\ 0 < m /\ m = 10 * (m / 10) + m mod 10 /\ 0 <= m mod 10 <= 9.
Proof.
  intros Hk [[H _]|[_ Hm]]; [lia|].
  assert (Hp : 0 < 10 ^ (k - 1)) by (apply Z.pow_pos_nonneg; lia).
  pose proof (Z.div_mod m 10 ltac:(lia)) as E. pose proof (Z.mod_pos_bound m 10 ltac:(lia)) as B.
  split; [|lia]. destruct (Z.eq_dec k 1) as [->|Hk1].
  - left. change (10 ^ (1 - 1)) with 1 in *. change (10 ^ 1) with 10 in Hm. split; [lia|]. apply Z.div_small. lia.
  - right. split; [lia|]. replace (k - 1) with (Z.succ (k - 1 - 1)) in Hm at 1 by lia.
    replace k with (Z.succ (k - 1)) in Hm at 2 by lia. rewrite !Z.pow_succ_r in Hm by lia.
    split; [apply Z.div_le_lower_bound; lia|apply Z.div_lt_upper_bound; lia].
Qed.


Lemma ndig_nonneg k m : ndig k m -> 0 <= m /\ 0 <= k.
Proof. intros [[-> ->]|[Hk Hm]]; [lia|]. assert (0 < 10 ^ (k - 1)) by (apply Z.pow_pos_nonneg; lia). lia. Qed.

Lemma ndig_pos_iff k m m0 : ndig k m -> ndig k m0 -> (0 <? m) = (0 <? m0).
Proof.
  intros [[-> ->]|[Hk Hm]] [[H0 H1]|[Hk0 Hm0]]; try lia.
  all: assert (0 < 10 ^ (k - 1)) by (apply Z.pow_pos_nonneg; lia); lia.
Qed.

(* once a non-zero digit has been seen only the number of digits matters *)
Lemma sim_false f : forall k m m0, ndig k m -> ndig k m0 -> sim f false m m0.
Proof.
  induction f as [|f IH]; intros k m m0 H H0; cbn [sim]; (split; [apply (ndig_pos_iff k); assumption|]); [exact I|].
  intros Hpos. destruct (ndig_nonneg k m H) as [Hm Hk]. destruct (ndig_nonneg k m0 H0) as [Hm0 _].
  assert (Hk1 : 1 <= k) by (destruct H as [[_ ->]|[? _]]; lia).
  destruct (ndig_div k m Hk1 H) as (Hd & _ & _ & Hb). destruct (ndig_div k m0 Hk1 H0) as (Hd0 & _ & _ & Hb0).
  destruct (quot_div_nonneg m Hm) as [-> ->]. destruct (quot_div_nonneg m0 Hm0) as [-> ->].
  split; [exact Hb|]. split; [exact Hb0|]. split; [discriminate|]. cbn [andb]. apply (IH (k - 1)); assumption.
Qed.

Lemma repunit_ndig k : ndig (Z.of_nat k) (repunit k).
Proof.
  induction k as [|k IH]; [left; split; reflexivity|]. right. split; [lia|].
  rewrite Nat2Z.inj_succ. replace (Z.succ (Z.of_nat k) - 1) with (Z.of_nat k) by lia. cbn [repunit].
  pose proof (repunit_spec k) as E. pose proof (repunit_spec (S k)) as E'. rewrite Nat2Z.inj_succ in E'. cbn [repunit] in E'.
  rewrite Z.pow_succ_r in * by lia. lia.
Qed.

(* m has L digits of which exactly the last z are zeros *)
Definition shape_of (L z m : Z) : Prop :=
  ndig L m /\ 0 <= z < L /\ m mod 10 ^ z = 0 /\ (m / 10 ^ z) mod 10 <> 0.

Lemma sim_canon f : forall L z m, shape_of L z m -> sim f true m (repunit (Z.to_nat (L - z)) * 10 ^ z).
Proof.
  induction f as [|f IH]; intros L z m (Hn & Hz & Hmod & Hnz).
  - cbn [sim]. split; [|exact I].
    destruct (ndig_nonneg L m Hn) as [Hm _]. assert (HL1 : 1 <= L) by lia.
    destruct (ndig_div L m HL1 Hn) as (_ & Hpos & _).
    pose proof (repunit_ndig (Z.to_nat (L - z))) as Hr. destruct Hr as [[Hk _]|[Hk Hr]]; [lia|].
    assert (0 < 10 ^ (Z.of_nat (Z.to_nat (L - z)) - 1)) by (apply Z.pow_pos_nonneg; lia).
    assert (0 < 10 ^ z) by (apply Z.pow_pos_nonneg; lia). nia.
  - assert (HL1 : 1 <= L) by lia. destruct (ndig_nonneg L m Hn) as [Hm _].
    destruct (ndig_div L m HL1 Hn) as (Hd & Hpos & Hdm & Hb).
    pose proof (repunit_ndig (Z.to_nat (L - z))) as Hr.
    assert (Hpz : 0 < 10 ^ z) by (apply Z.pow_pos_nonneg; lia).
    set (m0 := repunit (Z.to_nat (L - z)) * 10 ^ z).
    assert (Hm0pos : 0 < m0).
    { destruct Hr as [[Hk _]|[Hk Hr]]; [lia|]. assert (0 < 10 ^ (Z.of_nat (Z.to_nat (L - z)) - 1)) by (apply Z.pow_pos_nonneg; lia). unfold m0. nia. }
    cbn [sim]. split; [lia|]. intros _.
    destruct (quot_div_nonneg m Hm) as [-> ->]. destruct (quot_div_nonneg m0 ltac:(lia)) as [-> ->].
    destruct (Z.eq_dec z 0) as [->|Hz0].
    + (* the last digit is not zero: both flags drop *)
      rewrite Z.pow_0_r, Z.div_1_r in Hnz. unfold m0. rewrite Z.pow_0_r, Z.mul_1_r, Z.sub_0_r.
      replace (Z.to_nat L) with (S (Z.to_nat (L - 1))) by lia. cbn [repunit].
      replace ((10 * repunit (Z.to_nat (L - 1)) + 1) mod 10) with 1 by (rewrite Z.add_comm, Z.mul_comm, Z.mod_add by lia; reflexivity).
      replace ((10 * repunit (Z.to_nat (L - 1)) + 1) / 10) with (repunit (Z.to_nat (L - 1))).
      2:{ apply Z.div_unique with 1; lia. }
      split; [exact Hb|]. split; [lia|]. split; [intros _; lia|].
      replace (0 <? m mod 10) with true by lia. cbn [andb].
      apply (sim_false f (L - 1)); [exact Hd|]. replace (L - 1) with (Z.of_nat (Z.to_nat (L - 1))) at 1 by lia. apply repunit_ndig.
    + (* a trailing zero on both sides *)
      assert (Hm10 : m mod 10 = 0).
      { replace z with (Z.succ (z - 1)) in Hmod by lia. rewrite Z.pow_succ_r in Hmod by lia.
        rewrite Z.rem_mul_r in Hmod by (try lia; apply Z.pow_nonzero; lia).
        assert (0 <= 10 * ((m / 10) mod 10 ^ (z - 1))) by (pose proof (Z.mod_pos_bound (m / 10) (10 ^ (z - 1)) ltac:(apply Z.pow_pos_nonneg; lia)); lia). lia. }
      assert (Hm0 : m0 = 10 * (repunit (Z.to_nat (L - z)) * 10 ^ (z - 1))).
      { unfold m0. replace (10 ^ z) with (10 * 10 ^ (z - 1)) by (rewrite <- Z.pow_succ_r by lia; f_equal; lia). ring. }
      rewrite Hm0. rewrite (Z.mul_comm 10), Z.mod_mul, Z.div_mul by lia. rewrite Hm10.
      split; [lia|]. split; [lia|]. split; [reflexivity|]. change (0 <? 0) with false. cbn [andb].
      replace (L - z) with (L - 1 - (z - 1)) by lia. apply IH.
      split; [exact Hd|]. split; [lia|].
      assert (Hpz1 : 0 < 10 ^ (z - 1)) by (apply Z.pow_pos_nonneg; lia).
      replace z with (Z.succ (z - 1)) in Hmod, Hnz by lia. rewrite Z.pow_succ_r in Hmod, Hnz by lia.
      rewrite <- Z.div_div in Hnz by lia. split; [|exact Hnz].
      rewrite Z.rem_mul_r in Hmod by lia. lia.
Qed.

(* ---- every int64 mantissa has a shape ---------------------------------------------------------------------------- *)
From Verif Require Import Strconv.NumProofs.

Lemma ndig_len_uint L n : 1 <= L <= 19 -> ndig L n -> len_uint n = L /\ len_int n = L.
Proof.
  intros HL [[H _]|[_ Hn]]; [lia|].
  assert (Hp : 0 < 10 ^ (L - 1)) by (apply Z.pow_pos_nonneg; lia).
  assert (H19 : 10 ^ L <= 10 ^ 19) by (apply Z.pow_le_mono_r; lia). change (10 ^ 19) with 10000000000000000000 in H19.
  assert (Hlu : len_uint n = L).
  { rewrite len_uint_spec by (unfold two64; lia).
    rewrite (rdigits_len 20 (Z.to_nat L) n) by (rewrite ?Z2Nat.id by lia; try lia; exact Hn). lia. }
  split; [exact Hlu|]. unfold len_int. replace (n <? 0) with false by lia. rewrite u64_small by (unfold two64; lia). exact Hlu.
Qed.

Lemma tz_exists k : forall m, 0 < m < 10 ^ Z.of_nat k ->
  exists z, 0 <= z /\ m mod 10 ^ z = 0 /\ (m / 10 ^ z) mod 10 <> 0.
Proof.
  induction k as [|k IH]; intros m Hm; [cbn in Hm; lia|].
  destruct (Z.eq_dec (m mod 10) 0) as [H0|H0].
  - pose proof (Z.div_mod m 10 ltac:(lia)) as E. rewrite Nat2Z.inj_succ, Z.pow_succ_r in Hm by lia.
    destruct (IH (m / 10) ltac:(split; [lia|apply Z.div_lt_upper_bound; lia])) as (z & Hz & H1 & H2).
    assert (Hp : 0 < 10 ^ z) by (apply Z.pow_pos_nonneg; lia).
    exists (z + 1). split; [lia|]. rewrite Z.pow_add_r, Z.pow_1_r by lia. rewrite (Z.mul_comm (10 ^ z) 10). split.
    + rewrite Z.rem_mul_r by lia. lia.
    + rewrite <- Z.div_div by lia. exact H2.
  - exists 0. rewrite Z.pow_0_r, Z.mod_1_r, Z.div_1_r. split; [lia|]. split; [reflexivity|exact H0].
Qed.

Lemma shape_exists m : 1 <= m < 10 ^ 19 -> exists L z, 1 <= L <= 19 /\ shape_of L z m.
Proof.
  intros Hm. assert (Hm20 : 0 < m < 10 ^ Z.of_nat 20) by (change (10 ^ Z.of_nat 20) with (10 * 10 ^ 19); lia).
  destruct (rdigits_bounds 20 m Hm20) as (HL1 & HLlo & HLhi). set (L := len (rdigits 20 m)) in *.
  assert (HL19 : L <= 19).
  { destruct (Z.le_gt_cases L 19) as [H|H]; [exact H|]. assert (10 ^ 19 <= 10 ^ (L - 1)) by (apply Z.pow_le_mono_r; lia). lia. }
  destruct (tz_exists 20 m Hm20) as (z & Hz & Hmod & Hnz).
  assert (HzL : z < L).
  { destruct (Z.lt_ge_cases z L) as [H|H]; [exact H|]. exfalso.
    assert (Hp : 0 < 10 ^ z) by (apply Z.pow_pos_nonneg; lia).
    assert (10 ^ L <= 10 ^ z) by (apply Z.pow_le_mono_r; lia).
    pose proof (Z.div_mod m (10 ^ z) ltac:(lia)) as E. rewrite Hmod in E.
    assert (0 < m / 10 ^ z) by (destruct (Z.eq_dec (m / 10 ^ z) 0) as [E0|E0]; [rewrite E0 in E; lia|pose proof (Z.div_pos m (10 ^ z) ltac:(lia) Hp); lia]).
    nia. }
  exists L, z. split; [lia|]. split; [right; split; [lia|split; assumption]|]. split; [lia|split; assumption].
Qed.

Lemma canon_ndig L z : 0 <= z < L -> ndig L (repunit (Z.to_nat (L - z)) * 10 ^ z).
Proof.
  intros H. pose proof (repunit_ndig (Z.to_nat (L - z))) as [[Hk _]|[Hk Hr]]; [lia|]. right. split; [lia|].
  rewrite Z2Nat.id in Hr by lia.
  assert (E1 : 10 ^ (L - 1) = 10 ^ (L - z - 1) * 10 ^ z) by (rewrite <- Z.pow_add_r by lia; f_equal; lia).
  assert (E2 : 10 ^ L = 10 ^ (L - z) * 10 ^ z) by (rewrite <- Z.pow_add_r by lia; f_equal; lia).
  rewrite E1, E2. assert (0 < 10 ^ z) by (apply Z.pow_pos_nonneg; lia). nia.
Qed.

(* ---- the recogniser is sound; the syntax does not depend on which digits are written ------------------------ *)

Lemma lit_exp_sound ex : lit_exp_b ex = true ->
  ex = [] \/ exists ds, all_digits ds /\ ds <> [] /\ (ex = 101 :: ds \/ ex = 101 :: 45 :: ds).
Proof.
  unfold lit_exp_b. destruct ex as [|c t]; [left; reflexivity|]. intros H. right.
  apply andb_true_iff in H. destruct H as [Hc H]. assert (c = 101) by lia. subst c.
  set (t' := match t with m :: t2 => if m =? 45 then t2 else t | [] => t end) in *.
  apply andb_true_iff in H. destruct H as [Hlen Hrest].
  exists (take_digits t'). split; [apply take_digits_all|]. split.
  - intros E. rewrite E in Hlen. cbn in Hlen. discriminate.
  - assert (Ht' : t' = take_digits t') by (rewrite (take_drop_digits t') at 1; destruct (drop_digits t'); [apply app_nil_r|discriminate]).
    unfold t' in *. destruct t as [|m t2]; [left; f_equal; exact Ht'|].
    destruct (m =? 45) eqn:Em; [right; assert (m = 45) by lia; subst m; f_equal; f_equal; exact Ht'|left; f_equal; exact Ht'].
Qed.

Lemma lit_body_sound l : lit_body_b l = true ->
  exists ip fp ex, l = ip ++ (match fp with [] => [] | _ => 46 :: fp end) ++ ex /\
    all_digits ip /\ all_digits fp /\ (ip <> [] \/ fp <> []) /\
    (ex = [] \/ exists ds, all_digits ds /\ ds <> [] /\ (ex = 101 :: ds \/ ex = 101 :: 45 :: ds)).
Proof.
  unfold lit_body_b. intros H. pose proof (take_drop_digits l) as E. pose proof (take_digits_all l) as Ha.
  assert (Hne : forall x, negb (len (take_digits x) =? 0) = true -> take_digits x <> []) by (intros x Hx Ex; rewrite Ex in Hx; cbn in Hx; discriminate).
  destruct (drop_digits l) as [|c t] eqn:Ed.
  - exists (take_digits l), [], []. rewrite app_nil_r in E. split; [cbn [app]; rewrite app_nil_r; exact E|].
    split; [exact Ha|]. split; [constructor|]. split; [left; apply Hne; exact H|left; reflexivity].
  - destruct (c =? 46) eqn:Ec.
    + assert (c = 46) by lia. subst c. apply andb_true_iff in H. destruct H as [Hf Hex].
      exists (take_digits l), (take_digits t), (drop_digits t).
      split.
      * rewrite E at 1. f_equal. pose proof (Hne t Hf) as Hnt. destruct (take_digits t) eqn:Et; [exfalso; apply Hnt; reflexivity|].
        rewrite <- Et. cbn [app]. f_equal. apply take_drop_digits.
      * split; [exact Ha|]. split; [apply take_digits_all|]. split; [right; apply Hne; exact Hf|apply lit_exp_sound; exact Hex].
    + apply andb_true_iff in H. destruct H as [Hi Hex].
      exists (take_digits l), [], (c :: t). split; [cbn [app]; exact E|]. split; [exact Ha|]. split; [constructor|].
      split; [left; apply Hne; exact Hi|apply lit_exp_sound; exact Hex].
Qed.

Lemma float_lit_sound neg out : float_lit_b neg out = true -> float_literal neg out.
Proof.
  unfold float_lit_b, float_literal. destruct out as [|c t]; [discriminate|].
  destruct (c =? 45) eqn:Ec; intros H; apply andb_true_iff in H; destruct H as [Hn Hb].
  - assert (c = 45) by lia. subst c. destruct neg; [|discriminate].
    destruct (lit_body_sound t Hb) as (ip & fp & ex & -> & H1 & H2 & H3 & H4). exists ip, fp, ex. split; [reflexivity|]. tauto.
  - destruct neg; [discriminate|].
    destruct (lit_body_sound (c :: t) Hb) as (ip & fp & ex & -> & H1 & H2 & H3 & H4). exists ip, fp, ex. split; [reflexivity|]. tauto.
Qed.

(* ---- the value a literal denotes, and the finite check on the tagged runs ---------------------------------------- *)

(* e<digits> | e-<digits> | nothing *)
Definition exp_value (ex : list Z) : Z :=
  match ex with
  | 101 :: 45 :: ds => - dec_value ds
  | 101 :: ds => dec_value ds
  | _ => 0
  end.

(* the unsigned body  digits[.digits][exp]  denotes  fst * 10 ^ snd *)
Definition lit_mant_exp (l : list Z) : Z * Z :=
  let ip := take_digits l in
  match drop_digits l with
  | c :: t => if c =? 46 then (dec_value (ip ++ take_digits t), exp_value (drop_digits t) - len (take_digits t))
              else (dec_value ip, exp_value (c :: t))
  | [] => (dec_value ip, 0)
  end.
Definition lit_neg (out : list Z) : bool := match out with c :: _ => c =? 45 | [] => false end.
Definition lit_body (out : list Z) : list Z := if lit_neg out then tl out else out.

(* the expected form of a tagged result: [-] cells with a dot after the first p of them, then the exponent, where
   the cells are a zeros, the tags of the digits L-1 .. L-k in this order, b zeros *)
Fixpoint tagseq (hi : Z) (k : nat) : list Z :=
  match k with O => [] | S k' => (2000 + hi) :: tagseq (hi - 1) k' end.
Definition tag_cells (L : Z) (a k b : nat) : list Z := repeat 48 a ++ tagseq (L - 1) k ++ repeat 48 b.
Definition rebuild (neg : bool) (L : Z) (a k b p : nat) (hasdot : bool) (ex : list Z) : list Z :=
  let cs := tag_cells L a k b in
  (if neg then [45] else []) ++ firstn p cs ++ (if hasdot then 46 :: skipn p cs else []) ++ ex.

(* the conditions under which every instance of that form denotes mant * 10^-prec: the dropped digits L-k-1 .. 0
   are zeros of the mantissa, and the weight of the last tag is right *)
Definition tag_side (L z prec : Z) (a k b p : nat) (hasdot : bool) (ex : list Z) : bool :=
  let n := Z.of_nat (a + k + b) in
  lit_exp_b ex && forallb (fun c => c <? 1000) ex &&
  (1 <=? Z.of_nat k) && (0 <=? L - Z.of_nat k) && (L - Z.of_nat k <=? z) &&
  (if hasdot then Z.of_nat p <? n else Z.of_nat p =? n) &&
  (exp_value ex - (n - Z.of_nat p) + Z.of_nat b =? L - Z.of_nat k - prec).

Fixpoint take_p (p : Z -> bool) (l : list Z) : list Z :=
  match l with c :: t => if p c then c :: take_p p t else [] | [] => [] end.
Fixpoint drop_p (p : Z -> bool) (l : list Z) : list Z :=
  match l with c :: t => if p c then drop_p p t else l | [] => [] end.
Fixpoint zlist_eqb (a b : list Z) : bool :=
  match a, b with
  | [], [] => true
  | x :: a', y :: b' => (x =? y) && zlist_eqb a' b'
  | _, _ => false
  end.

(* read the parameters off the tagged result (no property of this reading is used), rebuild, compare *)
Definition tag_check (neg : bool) (L z prec : Z) (out0 : list Z) : bool :=
  let isd := fun c => is_digit c || (2000 <=? c) in
  let body := match out0 with c :: t => if c =? 45 then t else out0 | [] => out0 end in
  let ipc := take_p isd body in
  let r1 := drop_p isd body in
  let hasdot := match r1 with c :: _ => c =? 46 | [] => false end in
  let fpc := if hasdot then take_p isd (tl r1) else [] in
  let ex := if hasdot then drop_p isd (tl r1) else r1 in
  let cs := ipc ++ fpc in
  let a := length (take_p (Z.eqb 48) cs) in
  let r2 := drop_p (Z.eqb 48) cs in
  let k := length (take_p (Z.leb 2000) r2) in
  let b := length (drop_p (Z.leb 2000) r2) in
  let p := length ipc in
  zlist_eqb out0 (rebuild neg L a k b p hasdot ex) && tag_side L z prec a k b p hasdot ex.

Definition af_check_one (neg : bool) (L z prec : Z) : bool :=
  match af_print_g tag_enc [] markers neg (canon_mant L z) prec with
  | Ok out0 => no_marker out0 && tag_check neg L z prec out0
  | _ => false
  end.

(* the finite check, per range of mantissa lengths (split over AFCheck1..4.v so that they compile in parallel) *)
Definition af_check_range (Llo Lhi : Z) : bool :=
  forallb (fun L => forallb (fun z => forallb (fun prec =>
     af_check_one false L z prec && af_check_one true L z prec) (zrange (-350) 350)) (zrange 0 (L - 1))) (zrange Llo Lhi).
