(* Depth/Proofs.v — every call stack is bounded when every cycle passes through a guarded function. *)
From Coq Require Import List Arith Lia Bool.
Import ListNotations.
From Verif Require Import Depth.Model.

Lemma nth_le_max (l : list nat) n : nth n l 0 <= max_rank l.
Proof.
  unfold max_rank. revert n. induction l as [|r t IH]; intros n; [destruct n; cbn; lia|].
  destruct n; cbn [nth fold_right]; [lia|]. specialize (IH n). lia.
Qed.

Section Depth.
Variable es : graph.
Variable g : list (option nat).
Variable limits rank : list nat.
Hypothesis Hrank : rank_ok es g rank = true.
Hypothesis Hrange : guards_in_range g limits = true.

Definition rk (n : nat) : nat := nth n rank 0.

Lemma rk_le_max n : rk n <= max_rank rank.
Proof. apply nth_le_max. Qed.

(* length of the leading run of unguarded frames *)
Fixpoint lead (st : list nat) : nat :=
  match st with
  | [] => 0
  | n :: t => if is_guarded g n then 0 else S (lead t)
  end.

Definition gcount (st : list nat) : nat := length (filter (is_guarded g) st).

Lemma edge_rank u v : In (u, v) es -> is_guarded g u = false -> is_guarded g v = false -> rk v < rk u.
Proof.
  intros Hin Hu Hv. unfold rank_ok in Hrank. rewrite forallb_forall in Hrank.
  specialize (Hrank (u, v) Hin). cbn [fst snd] in Hrank. rewrite Hu, Hv in Hrank. cbn in Hrank.
  apply Nat.ltb_lt in Hrank. exact Hrank.
Qed.

Lemma lead_rank st : chain es st -> forall u t, st = u :: t -> is_guarded g u = false -> lead st <= rk u + 1.
Proof.
  induction 1 as [|n|u v rest Hin Hch IH]; intros u0 t E Hu.
  - discriminate.
  - inversion E; subst. cbn [lead]. rewrite Hu. cbn. lia.
  - inversion E; subst. cbn [lead]. rewrite Hu.
    destruct (is_guarded g v) eqn:Hv.
    + lia.
    + specialize (IH v rest eq_refl Hv). pose proof (edge_rank _ _ Hin Hu Hv). cbn [lead] in IH. rewrite Hv in IH. lia.
Qed.

Lemma lead_le_max st : chain es st -> lead st <= max_rank rank + 1.
Proof.
  intros Hch. destruct st as [|u t]; [cbn; lia|].
  destruct (is_guarded g u) eqn:Hu; [cbn [lead]; rewrite Hu; lia|].
  pose proof (lead_rank _ Hch u t eq_refl Hu). pose proof (rk_le_max u). lia.
Qed.

Lemma chain_tail u t : chain es (u :: t) -> chain es t.
Proof. intros H. inversion H; subst; [constructor|assumption]. Qed.

Lemma length_by_gcount st : chain es st -> length st <= gcount st * (max_rank rank + 2) + lead st.
Proof.
  induction st as [|u t IH]; intros Hch; [cbn; lia|].
  pose proof (chain_tail _ _ Hch) as Ht. specialize (IH Ht).
  pose proof (lead_le_max _ Ht) as Hl.
  unfold gcount in *. cbn [filter lead length].
  destruct (is_guarded g u); cbn [length]; lia.
Qed.

(* the number of guarded frames is the sum over the counters *)
Lemma gcount_split st : forall ls (off : nat),
  (forall n, In n st -> match guard_of g n with Some c => off <= c < off + length ls | None => True end) ->
  (forall c, c < length ls -> count_guard g (off + c) st <= nth c ls 0 + 1) ->
  gcount st <= sum_limits ls.
Proof.
  intros ls. revert st. induction ls as [|l ls IH]; intros st off Hin Hresp.
  - unfold gcount. cbn [sum_limits fold_right].
    assert (filter (is_guarded g) st = []) as ->; [|cbn; lia].
    clear Hresp. induction st as [|n t IHt]; [reflexivity|]. cbn [filter].
    assert (Hn := Hin n (or_introl eq_refl)). unfold is_guarded.
    destruct (guard_of g n) eqn:G; [cbn in Hn; lia|]. apply IHt. intros m Hm. apply Hin. right. exact Hm.
  - (* split off counter [off] *)
    set (st' := filter (fun n => match guard_of g n with Some c => negb (Nat.eqb c off) | None => true end) st).
    assert (Hcount : gcount st = count_guard g off st + gcount st').
    { unfold gcount, count_guard, st'. clear.
      set (P := is_guarded g).
      set (Q := fun n => match guard_of g n with Some c' => Nat.eqb c' off | None => false end).
      set (R := fun n => match guard_of g n with Some c => negb (Nat.eqb c off) | None => true end).
      induction st as [|n t IHt]; [reflexivity|].
      assert (Cases : (P n = true /\ Q n = true /\ R n = false) \/ (P n = true /\ Q n = false /\ R n = true) \/ (P n = false /\ Q n = false /\ R n = true)).
      { unfold P, Q, R, is_guarded. destruct (guard_of g n) as [c|]; [destruct (Nat.eqb c off)|]; cbn; tauto. }
      cbn [filter]. destruct Cases as [(p1 & q1 & r1)|[(p1 & q1 & r1)|(p1 & q1 & r1)]]; rewrite p1, q1, r1; cbn [filter length]; rewrite ?p1; cbn [length]; lia. }
    assert (H0 : count_guard g off st <= l + 1).
    { specialize (Hresp 0 ltac:(cbn; lia)). rewrite Nat.add_0_r in Hresp. exact Hresp. }
    assert (IH' : gcount st' <= sum_limits ls).
    { apply (IH st' (S off)).
      - intros n Hn. unfold st' in Hn. apply filter_In in Hn. destruct Hn as [Hn Hf].
        specialize (Hin n Hn). destruct (guard_of g n) as [c|]; [|exact I].
        apply negb_true_iff in Hf. apply Nat.eqb_neq in Hf. cbn [length] in Hin. lia.
      - intros c Hc. specialize (Hresp (S c) ltac:(cbn; lia)). cbn [nth] in Hresp.
        replace (off + S c) with (S off + c) in Hresp by lia.
        assert (count_guard g (S off + c) st' <= count_guard g (S off + c) st).
        { unfold count_guard, st'. clear.
          set (Q := fun n => match guard_of g n with Some c' => Nat.eqb c' (S off + c) | None => false end).
          set (R := fun n => match guard_of g n with Some c => negb (Nat.eqb c off) | None => true end).
          induction st as [|n t IHt]; [reflexivity|].
          cbn [filter]. destruct (R n); cbn [filter]; destruct (Q n); cbn [length]; lia. }
        lia. }
    cbn [sum_limits fold_right]. fold (sum_limits ls). lia.
Qed.

Theorem depth_bounded_proof st :
  chain es st -> respected g limits st -> length st <= depth_bound limits rank.
Proof.
  intros Hch Hresp. unfold depth_bound.
  pose proof (length_by_gcount st Hch) as H1. pose proof (lead_le_max st Hch) as H2.
  assert (H3 : gcount st <= sum_limits limits).
  { apply (gcount_split st limits 0).
    - intros n _. destruct (guard_of g n) as [c|] eqn:G; [|exact I].
      unfold guards_in_range in Hrange. rewrite forallb_forall in Hrange.
      unfold guard_of in G.
      destruct (Nat.lt_ge_cases n (length g)) as [L|Ge].
      + specialize (Hrange (nth n g None) (nth_In _ _ L)). rewrite G in Hrange. apply Nat.ltb_lt in Hrange. lia.
      + rewrite nth_overflow in G by exact Ge. discriminate.
    - intros c Hc. cbn. apply Hresp. exact Hc. }
  nia.
Qed.
End Depth.
