(* Depth/Instance.v — the generic depth theorem instantiated on the call graph of /repo/js/parse.go
   as extracted by translator T4 (Gen/CallGraph.v) on this run. *)
From Coq Require Import List Arith Lia Bool.
Import ListNotations.
From Verif Require Import Depth.Model Depth.Proofs Gen.CallGraph.

(* the two facts about the generated graph, checked by computation *)
Lemma js_rank_ok : rank_ok cg_edges cg_guard cg_rank = true.
Proof. vm_compute. reflexivity. Qed.

Lemma js_guards_in_range : guards_in_range cg_guard cg_limits = true.
Proof. vm_compute. reflexivity. Qed.

(* the generated tables are consistent: one guard entry and one rank per node *)
Lemma js_tables_shape : length cg_guard = cg_nodes /\ length cg_rank = cg_nodes /\
  forallb (fun e => Nat.ltb (fst e) cg_nodes && Nat.ltb (snd e) cg_nodes) cg_edges = true.
Proof. vm_compute. auto. Qed.

Definition js_bound : nat := depth_bound cg_limits cg_rank.

Theorem js_parser_depth_bounded_proof :
  forall st, chain cg_edges st -> respected cg_guard cg_limits st -> length st <= js_bound.
Proof.
  intros st Hch Hr. apply (depth_bounded_proof cg_edges cg_guard cg_limits cg_rank js_rank_ok js_guards_in_range st Hch Hr).
Qed.

(* non-vacuity: the first call edge of the generated graph is a stack that meets the hypotheses *)
Lemma count_guard_le g c st : count_guard g c st <= length st.
Proof.
  unfold count_guard. induction st as [|n t IH]; [cbn; lia|]. cbn [filter length].
  destruct (match guard_of g n with Some c' => Nat.eqb c' c | None => false end); cbn [length]; lia.
Qed.

Example js_stack_example : exists st, length st = 2 /\ chain cg_edges st /\ respected cg_guard cg_limits st.
Proof.
  assert (Hl : forallb (fun l => Nat.leb 1 l) cg_limits = true) by (vm_compute; reflexivity).
  destruct cg_edges as [|[u v] rest] eqn:E; [vm_compute in E; discriminate|].
  exists [u; v]. split; [reflexivity|]. split.
  - constructor; [left; reflexivity|constructor].
  - intros c Hc. pose proof (count_guard_le cg_guard c [u; v]) as H. cbn [length] in H.
    rewrite forallb_forall in Hl. specialize (Hl (nth c cg_limits 0) (nth_In _ _ Hc)). apply Nat.leb_le in Hl. lia.
Qed.
