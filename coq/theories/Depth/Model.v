(* Depth/Model.v — call stacks of a program whose recursion passes through guarded functions. *)
From Coq Require Import List Arith Lia Bool.
Import ListNotations.

Definition graph := list (nat * nat).

(* guard n = Some c : function n starts with  counter_c++ ; if limit_c < counter_c { fail; return }
   and decrements counter_c on exit *)
Definition guard_of (g : list (option nat)) (n : nat) : option nat := nth n g None.
Definition is_guarded (g : list (option nat)) (n : nat) : bool :=
  match guard_of g n with Some _ => true | None => false end.

(* a call stack, outermost frame first: consecutive frames are call edges *)
Inductive chain (es : graph) : list nat -> Prop :=
| chain_nil : chain es []
| chain_one n : chain es [n]
| chain_cons u v rest : In (u, v) es -> chain es (v :: rest) -> chain es (u :: v :: rest).

Definition count_guard (g : list (option nat)) (c : nat) (st : list nat) : nat :=
  length (filter (fun n => match guard_of g n with Some c' => Nat.eqb c' c | None => false end) st).

(* what the guards establish: at most limit_c + 1 frames guarded by counter c are active
   (the frame that finds the counter above the limit is still on the stack while it fails) *)
Definition respected (g : list (option nat)) (limits : list nat) (st : list nat) : Prop :=
  forall c, c < length limits -> count_guard g c st <= nth c limits 0 + 1.

Definition guards_in_range (g : list (option nat)) (limits : list nat) : bool :=
  forallb (fun o => match o with Some c => Nat.ltb c (length limits) | None => true end) g.

(* certificate of acyclicity of the unguarded part: along every edge between two unguarded
   functions the rank strictly decreases *)
Definition rank_ok (es : graph) (g : list (option nat)) (rank : list nat) : bool :=
  forallb (fun e => is_guarded g (fst e) || is_guarded g (snd e) || Nat.ltb (nth (snd e) rank 0) (nth (fst e) rank 0)) es.

Definition max_rank (rank : list nat) : nat := fold_right Nat.max 0 rank.

Definition sum_limits (limits : list nat) : nat := fold_right (fun l acc => l + 1 + acc) 0 limits.

Definition depth_bound (limits rank : list nat) : nat :=
  sum_limits limits * (max_rank rank + 2) + (max_rank rank + 1).
