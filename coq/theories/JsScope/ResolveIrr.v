(* JsScope/ResolveIrr.v — the declarative resolver does not look at names that do not occur: adding names X to
   one scope of the environment does not change the resolution of a program none of whose names is in X
   (unless the scope has it already).  Used for parameter default values, which the resolver resolves in
   the scope of the parameters only and the label machine in the complete function scope. *)
From Verif Require Import Common.Base JsScope.Model JsScope.Spec JsScope.Resolve1.

Lemma mem_app x a b : mem x (a ++ b) = mem x a || mem x b.
Proof. unfold mem. apply existsb_app. Qed.

Lemma lookup_irrelevant x : forall e1 s a names X e2,
  (In x X -> In x names) ->
  lookup (e1 ++ (s, a, names ++ X) :: e2) x = lookup (e1 ++ (s, a, names) :: e2) x.
Proof.
  induction e1 as [|[[s0 a0] n0] t IH]; intros s a names X e2 H; cbn [app lookup].
  - rewrite mem_app. destruct (mem x names) eqn:E1; [reflexivity|]. cbn [orb].
    destruct (mem x X) eqn:E2; [|reflexivity]. apply mem_in in E2. apply H in E2. apply mem_in in E2. congruence.
  - destruct (mem x n0); [reflexivity|]. apply IH. exact H.
Qed.

Ltac irr_sub H := intros z Hz; apply H; repeat (apply in_app_iff; first [left; exact Hz|right]); try exact Hz.

Lemma resolve_irrelevant p : forall e1 s a names X e2 fs cur ca n,
  (forall x, In x (allnames p) -> In x X -> In x names) ->
  resolve (e1 ++ (s, a, names ++ X) :: e2) fs cur ca n p = resolve (e1 ++ (s, a, names) :: e2) fs cur ca n p.
Proof.
  induction p; intros e1 s a names X e2 fs cur ca n H; cbn [resolve allnames] in *.
  - reflexivity.
  - rewrite IHp by (intros z Hz; apply H; right; exact Hz).
    rewrite lookup_irrelevant by (apply H; left; reflexivity). reflexivity.
  - rewrite IHp by (intros z Hz; apply H; right; exact Hz).
    rewrite lookup_irrelevant by (apply H; left; reflexivity). reflexivity.
  - rewrite IHp by (intros z Hz; apply H; right; exact Hz). reflexivity.
  - pose proof (fun en fs cur ca m => IHp1 (en :: e1) s a names X e2 fs cur ca m
                  (fun z Hz => H z (proj2 (in_app_iff _ _ _) (or_introl Hz)))) as E1. cbn [app] in E1. rewrite E1.
    destruct (resolve ((n, false, lexdecls p1) :: e1 ++ (s, a, names) :: e2) fs n false (S n) p1) as [rb n1].
    rewrite IHp2 by (intros z Hz; apply H; apply in_app_iff; right; exact Hz). reflexivity.
  - (* Func *)
    assert (H1 : forall z, In z (allnames p1) -> In z X -> In z names).
    { intros z Hz. apply H. apply in_app_iff. right. apply in_app_iff. left. exact Hz. }
    assert (H2 : forall z, In z (allnames p2) -> In z X -> In z names).
    { intros z Hz. apply H. apply in_app_iff. right. apply in_app_iff. right. apply in_app_iff. left. exact Hz. }
    assert (H3 : forall z, In z (allnames p3) -> In z X -> In z names).
    { intros z Hz. apply H. apply in_app_iff. right. apply in_app_iff. right. apply in_app_iff. right. exact Hz. }
    destruct nm as [f|].
    + pose proof (fun en en2 fs cur ca m => IHp1 (en :: en2 :: e1) s a names X e2 fs cur ca m H1) as E1. cbn [app] in E1.
      pose proof (fun en en2 fs cur ca m => IHp2 (en :: en2 :: e1) s a names X e2 fs cur ca m H2) as E2. cbn [app] in E2.
      rewrite E1.
      destruct (resolve ((n, false, headdecls p1) :: (n, true, [f]) :: e1 ++ (s, a, names) :: e2) n n false (S n) p1) as [rp n1].
      rewrite E2.
      destruct (resolve ((n, false, headdecls p1 ++ vardecls p2 ++ lexdecls p2) :: (n, true, [f]) :: e1 ++ (s, a, names) :: e2) n n false n1 p2) as [rb n2].
      rewrite IHp3 by exact H3. reflexivity.
    + pose proof (fun en fs cur ca m => IHp1 (en :: e1) s a names X e2 fs cur ca m H1) as E1. cbn [app] in E1.
      pose proof (fun en fs cur ca m => IHp2 (en :: e1) s a names X e2 fs cur ca m H2) as E2. cbn [app] in E2.
      rewrite E1.
      destruct (resolve ((n, false, headdecls p1) :: e1 ++ (s, a, names) :: e2) n n false (S n) p1) as [rp n1].
      rewrite E2.
      destruct (resolve ((n, false, headdecls p1 ++ vardecls p2 ++ lexdecls p2) :: e1 ++ (s, a, names) :: e2) n n false n1 p2) as [rb n2].
      rewrite IHp3 by exact H3. reflexivity.
  - (* Arrow *)
    assert (H1 : forall z, In z (allnames p1) -> In z X -> In z names).
    { intros z Hz. apply H. apply in_app_iff. left. exact Hz. }
    assert (H2 : forall z, In z (allnames p2) -> In z X -> In z names).
    { intros z Hz. apply H. apply in_app_iff. right. apply in_app_iff. left. exact Hz. }
    assert (H3 : forall z, In z (allnames p3) -> In z X -> In z names).
    { intros z Hz. apply H. apply in_app_iff. right. apply in_app_iff. right. exact Hz. }
    pose proof (fun en fs cur ca m => IHp1 (en :: e1) s a names X e2 fs cur ca m H1) as E1. cbn [app] in E1.
    pose proof (fun en fs cur ca m => IHp2 (en :: e1) s a names X e2 fs cur ca m H2) as E2. cbn [app] in E2.
    rewrite E1.
    destruct (resolve ((n, false, headdecls p1) :: e1 ++ (s, a, names) :: e2) n n false (S n) p1) as [rp n1].
    rewrite E2.
    destruct (resolve ((n, false, headdecls p1 ++ vardecls p2 ++ lexdecls p2) :: e1 ++ (s, a, names) :: e2) n n false n1 p2) as [rb n2].
    rewrite IHp3 by exact H3. reflexivity.
  - (* ArrowId *)
    pose proof (fun en fs cur ca m => IHp1 (en :: e1) s a names X e2 fs cur ca m
                  (fun z Hz => H z (or_intror (proj2 (in_app_iff _ _ _) (or_introl Hz))))) as E1. cbn [app] in E1.
    rewrite E1.
    destruct (resolve ((n, false, [x] ++ vardecls p1 ++ lexdecls p1) :: e1 ++ (s, a, names) :: e2) n n false (S n) p1) as [rb n1].
    rewrite IHp2 by (intros z Hz; apply H; right; apply in_app_iff; right; exact Hz). reflexivity.
  - (* Paren *)
    rewrite IHp1 by (intros z Hz; apply H; apply in_app_iff; left; exact Hz).
    destruct (resolve (e1 ++ (s, a, names) :: e2) fs cur ca (S n) p1) as [rh n1].
    rewrite IHp2 by (intros z Hz; apply H; apply in_app_iff; right; exact Hz). reflexivity.
  - (* For *)
    assert (H1 : forall z, In z (allnames p1) -> In z X -> In z names).
    { intros z Hz. apply H. apply in_app_iff. left. exact Hz. }
    assert (H2 : forall z, In z (allnames p2) -> In z X -> In z names).
    { intros z Hz. apply H. apply in_app_iff. right. apply in_app_iff. left. exact Hz. }
    assert (H3 : forall z, In z (allnames p3) -> In z X -> In z names).
    { intros z Hz. apply H. apply in_app_iff. right. apply in_app_iff. right. exact Hz. }
    pose proof (fun en fs cur ca m => IHp1 (en :: e1) s a names X e2 fs cur ca m H1) as E1. cbn [app] in E1.
    pose proof (fun en en2 fs cur ca m => IHp2 (en :: en2 :: e1) s a names X e2 fs cur ca m H2) as E2. cbn [app] in E2.
    rewrite E1.
    destruct (resolve ((n, true, lexdecls p1) :: e1 ++ (s, a, names) :: e2) fs n true (S n) p1) as [rh n1].
    rewrite E2.
    destruct (resolve ((n, false, lexdecls p2) :: (n, true, lexdecls p1) :: e1 ++ (s, a, names) :: e2) fs n false n1 p2) as [rb n2].
    rewrite IHp3 by exact H3. reflexivity.
  - (* Catch *)
    assert (H1 : forall z, In z (allnames p1) -> In z X -> In z names).
    { intros z Hz. apply H. apply in_app_iff. left. exact Hz. }
    assert (H2 : forall z, In z (allnames p2) -> In z X -> In z names).
    { intros z Hz. apply H. apply in_app_iff. right. apply in_app_iff. left. exact Hz. }
    assert (H3 : forall z, In z (allnames p3) -> In z X -> In z names).
    { intros z Hz. apply H. apply in_app_iff. right. apply in_app_iff. right. exact Hz. }
    pose proof (fun en fs cur ca m => IHp1 (en :: e1) s a names X e2 fs cur ca m H1) as E1. cbn [app] in E1.
    pose proof (fun en fs cur ca m => IHp2 (en :: e1) s a names X e2 fs cur ca m H2) as E2. cbn [app] in E2.
    rewrite E1.
    destruct (resolve ((n, false, headdecls p1) :: e1 ++ (s, a, names) :: e2) fs n false (S n) p1) as [rh n1].
    rewrite E2.
    destruct (resolve ((n, false, headdecls p1 ++ lexdecls p2) :: e1 ++ (s, a, names) :: e2) fs n false n1 p2) as [rb n2].
    rewrite IHp3 by exact H3. reflexivity.
  - (* Class *)
    assert (H1 : forall z, In z (allnames p1) -> In z X -> In z names).
    { intros z Hz. apply H. apply in_app_iff. right. apply in_app_iff. left. exact Hz. }
    assert (H2 : forall z, In z (allnames p2) -> In z X -> In z names).
    { intros z Hz. apply H. apply in_app_iff. right. apply in_app_iff. right. exact Hz. }
    destruct nm as [c|].
    + pose proof (fun en fs cur ca m => IHp1 (en :: e1) s a names X e2 fs cur ca m H1) as E1. cbn [app] in E1.
      rewrite E1.
      destruct (resolve ((n, true, [c]) :: e1 ++ (s, a, names) :: e2) fs n false (S n) p1) as [rm n1].
      rewrite IHp2 by exact H2. reflexivity.
    + rewrite IHp1 by exact H1.
      destruct (resolve (e1 ++ (s, a, names) :: e2) fs n false (S n) p1) as [rm n1].
      rewrite IHp2 by exact H2. reflexivity.
Qed.

(* a scope without names is invisible (class bodies) *)
Lemma lookup_drop_nil x : forall e1 s a e2, lookup (e1 ++ (s, a, []) :: e2) x = lookup (e1 ++ e2) x.
Proof.
  induction e1 as [|[[s0 a0] n0] t IH]; intros s a e2; cbn [app lookup]; [reflexivity|].
  destruct (mem x n0); [reflexivity|]. apply IH.
Qed.

Ltac dn1 IH e1 := let E := fresh in
  pose proof (fun en s a e2 fs cur ca m => IH (en :: e1) s a e2 fs cur ca m) as E; cbn [app] in E; rewrite E; clear E.
Ltac dn2 IH e1 := let E := fresh in
  pose proof (fun en en' s a e2 fs cur ca m => IH (en :: en' :: e1) s a e2 fs cur ca m) as E; cbn [app] in E; rewrite E; clear E.

Lemma resolve_drop_nil p : forall e1 s a e2 fs cur ca n,
  resolve (e1 ++ (s, a, []) :: e2) fs cur ca n p = resolve (e1 ++ e2) fs cur ca n p.
Proof.
  induction p; intros e1 s a e2 fs cur ca n; cbn [resolve].
  - reflexivity.
  - rewrite IHp, lookup_drop_nil. reflexivity.
  - rewrite IHp, lookup_drop_nil. reflexivity.
  - rewrite IHp. reflexivity.
  - dn1 IHp1 e1. destruct (resolve _ _ _ _ _ p1). rewrite IHp2. reflexivity.
  - destruct nm as [f|].
    + dn2 IHp1 e1. destruct (resolve _ _ _ _ _ p1). dn2 IHp2 e1. destruct (resolve _ _ _ _ _ p2). rewrite IHp3. reflexivity.
    + dn1 IHp1 e1. destruct (resolve _ _ _ _ _ p1). dn1 IHp2 e1. destruct (resolve _ _ _ _ _ p2). rewrite IHp3. reflexivity.
  - dn1 IHp1 e1. destruct (resolve _ _ _ _ _ p1). dn1 IHp2 e1. destruct (resolve _ _ _ _ _ p2). rewrite IHp3. reflexivity.
  - dn1 IHp1 e1. destruct (resolve _ _ _ _ _ p1). rewrite IHp2. reflexivity.
  - rewrite IHp1. destruct (resolve _ _ _ _ _ p1). rewrite IHp2. reflexivity.
  - dn1 IHp1 e1. destruct (resolve _ _ _ _ _ p1). dn2 IHp2 e1. destruct (resolve _ _ _ _ _ p2). rewrite IHp3. reflexivity.
  - dn1 IHp1 e1. destruct (resolve _ _ _ _ _ p1). dn1 IHp2 e1. destruct (resolve _ _ _ _ _ p2). rewrite IHp3. reflexivity.
  - destruct nm as [c|].
    + dn1 IHp1 e1. destruct (resolve _ _ _ _ _ p1). rewrite IHp2. reflexivity.
    + rewrite IHp1. destruct (resolve _ _ _ _ _ p1). rewrite IHp2. reflexivity.
Qed.
