(* JsScope/ResolveIrr.v — the resolver (Spec.resolve_m) looks at the names of a scope only through membership, and
   only for the names that occur: changing the name list of one scope of the environment, without changing the
   membership of the names of p, does not change the resolution of p.  Used for parameter default values and
   loop heads, which the resolver resolves in the scope of the parameters / head declarations only and the
   label machine in the complete scope; and for class bodies, which declare nothing. *)
From Verif Require Import Common.Base JsScope.Model JsScope.Spec JsScope.Resolve1.

Lemma mem_app x a b : mem x (a ++ b) = mem x a || mem x b.
Proof. unfold mem. apply existsb_app. Qed.

Lemma lookup_ext x : forall e1 s a L1 L2 e2,
  mem x L1 = mem x L2 -> lookup (e1 ++ (s, a, L1) :: e2) x = lookup (e1 ++ (s, a, L2) :: e2) x.
Proof.
  induction e1 as [|[[s0 a0] n0] t IH]; intros s a L1 L2 e2 H; cbn [app lookup].
  - rewrite H. reflexivity.
  - destruct (mem x n0); [reflexivity|]. apply IH. exact H.
Qed.

Ltac ext1 IH e1 HH := let E := fresh in
  pose proof (fun en s a L1 L2 e2 fs cur ca m => IH (en :: e1) s a L1 L2 e2 fs cur ca m) as E; cbn [app] in E; rewrite (E _ _ _ _ _ _ _ _ _ _ HH); clear E.

Lemma resolve_m_ext p : forall e1 s a L1 L2 e2 fs cur ca n,
  (forall x, In x (allnames p) -> mem x L1 = mem x L2) ->
  resolve_m (e1 ++ (s, a, L1) :: e2) fs cur ca n p = resolve_m (e1 ++ (s, a, L2) :: e2) fs cur ca n p.
Proof.
  induction p; intros e1 s a L1 L2 e2 fs cur ca n H; cbn [resolve_m allnames] in *.
  - reflexivity.
  - rewrite (IHp e1 s a L1 L2) by (intros z Hz; apply H; right; exact Hz).
    rewrite (lookup_ext x e1 s a L1 L2) by (apply H; left; reflexivity). reflexivity.
  - rewrite (IHp e1 s a L1 L2) by (intros z Hz; apply H; right; exact Hz).
    rewrite (lookup_ext x e1 s a L1 L2) by (apply H; left; reflexivity). reflexivity.
  - rewrite (IHp e1 s a L1 L2) by (intros z Hz; apply H; right; exact Hz). reflexivity.
  - assert (H1 : forall z, In z (allnames p1) -> mem z L1 = mem z L2) by (intros z Hz; apply H; apply in_app_iff; left; exact Hz).
    assert (H2 : forall z, In z (allnames p2) -> mem z L1 = mem z L2) by (intros z Hz; apply H; apply in_app_iff; right; exact Hz).
    ext1 IHp1 e1 H1. destruct (resolve_m _ _ _ _ _ p1). rewrite (IHp2 e1 s a L1 L2) by exact H2. reflexivity.
  - (* Func *)
    assert (H1 : forall z, In z (allnames p1) -> mem z L1 = mem z L2).
    { intros z Hz. apply H. apply in_app_iff. right. apply in_app_iff. left. exact Hz. }
    assert (H2 : forall z, In z (allnames p2) -> mem z L1 = mem z L2).
    { intros z Hz. apply H. apply in_app_iff. right. apply in_app_iff. right. apply in_app_iff. left. exact Hz. }
    assert (H3 : forall z, In z (allnames p3) -> mem z L1 = mem z L2).
    { intros z Hz. apply H. apply in_app_iff. right. apply in_app_iff. right. apply in_app_iff. right. exact Hz. }
    destruct nm as [g|].
    + ext1 IHp1 e1 H1. destruct (resolve_m _ _ _ _ _ p1). ext1 IHp2 e1 H2. destruct (resolve_m _ _ _ _ _ p2).
      rewrite (IHp3 e1 s a L1 L2) by exact H3. reflexivity.
    + ext1 IHp1 e1 H1. destruct (resolve_m _ _ _ _ _ p1). ext1 IHp2 e1 H2. destruct (resolve_m _ _ _ _ _ p2).
      rewrite (IHp3 e1 s a L1 L2) by exact H3. reflexivity.
  - (* Arrow *)
    assert (H1 : forall z, In z (allnames p1) -> mem z L1 = mem z L2).
    { intros z Hz. apply H. apply in_app_iff. left. exact Hz. }
    assert (H2 : forall z, In z (allnames p2) -> mem z L1 = mem z L2).
    { intros z Hz. apply H. apply in_app_iff. right. apply in_app_iff. left. exact Hz. }
    assert (H3 : forall z, In z (allnames p3) -> mem z L1 = mem z L2).
    { intros z Hz. apply H. apply in_app_iff. right. apply in_app_iff. right. exact Hz. }
    ext1 IHp1 e1 H1. destruct (resolve_m _ _ _ _ _ p1). ext1 IHp2 e1 H2. destruct (resolve_m _ _ _ _ _ p2).
    rewrite (IHp3 e1 s a L1 L2) by exact H3. reflexivity.
  - (* ArrowId *)
    assert (H1 : forall z, In z (allnames p1) -> mem z L1 = mem z L2).
    { intros z Hz. apply H. right. apply in_app_iff. left. exact Hz. }
    assert (H2 : forall z, In z (allnames p2) -> mem z L1 = mem z L2).
    { intros z Hz. apply H. right. apply in_app_iff. right. exact Hz. }
    ext1 IHp1 e1 H1. destruct (resolve_m _ _ _ _ _ p1). rewrite (IHp2 e1 s a L1 L2) by exact H2. reflexivity.
  - (* Paren *)
    assert (H1 : forall z, In z (allnames p1) -> mem z L1 = mem z L2) by (intros z Hz; apply H; apply in_app_iff; left; exact Hz).
    assert (H2 : forall z, In z (allnames p2) -> mem z L1 = mem z L2) by (intros z Hz; apply H; apply in_app_iff; right; exact Hz).
    rewrite (IHp1 e1 s a L1 L2) by exact H1. destruct (resolve_m _ _ _ _ _ p1). rewrite (IHp2 e1 s a L1 L2) by exact H2. reflexivity.
  - (* For *)
    assert (H1 : forall z, In z (allnames p1) -> mem z L1 = mem z L2).
    { intros z Hz. apply H. apply in_app_iff. left. exact Hz. }
    assert (H2 : forall z, In z (allnames p2) -> mem z L1 = mem z L2).
    { intros z Hz. apply H. apply in_app_iff. right. apply in_app_iff. left. exact Hz. }
    assert (H3 : forall z, In z (allnames p3) -> mem z L1 = mem z L2).
    { intros z Hz. apply H. apply in_app_iff. right. apply in_app_iff. right. exact Hz. }
    ext1 IHp1 e1 H1. destruct (resolve_m _ _ _ _ _ p1). ext1 IHp2 e1 H2. destruct (resolve_m _ _ _ _ _ p2).
    rewrite (IHp3 e1 s a L1 L2) by exact H3. reflexivity.
  - (* Catch *)
    assert (H1 : forall z, In z (allnames p1) -> mem z L1 = mem z L2).
    { intros z Hz. apply H. apply in_app_iff. left. exact Hz. }
    assert (H2 : forall z, In z (allnames p2) -> mem z L1 = mem z L2).
    { intros z Hz. apply H. apply in_app_iff. right. apply in_app_iff. left. exact Hz. }
    assert (H3 : forall z, In z (allnames p3) -> mem z L1 = mem z L2).
    { intros z Hz. apply H. apply in_app_iff. right. apply in_app_iff. right. exact Hz. }
    ext1 IHp1 e1 H1. destruct (resolve_m _ _ _ _ _ p1). ext1 IHp2 e1 H2. destruct (resolve_m _ _ _ _ _ p2).
    rewrite (IHp3 e1 s a L1 L2) by exact H3. reflexivity.
  - (* Class *)
    assert (H1 : forall z, In z (allnames p1) -> mem z L1 = mem z L2).
    { intros z Hz. apply H. apply in_app_iff. right. apply in_app_iff. left. exact Hz. }
    assert (H2 : forall z, In z (allnames p2) -> mem z L1 = mem z L2).
    { intros z Hz. apply H. apply in_app_iff. right. apply in_app_iff. right. exact Hz. }
    destruct nm as [c|].
    + ext1 IHp1 e1 H1. destruct (resolve_m _ _ _ _ _ p1). rewrite (IHp2 e1 s a L1 L2) by exact H2. reflexivity.
    + rewrite (IHp1 e1 s a L1 L2) by exact H1. destruct (resolve_m _ _ _ _ _ p1). rewrite (IHp2 e1 s a L1 L2) by exact H2. reflexivity.
Qed.

(* adding names that do not occur (unless the scope has them already) *)
Lemma resolve_irrelevant p : forall e1 s a names X e2 fs cur ca n,
  (forall x, In x (allnames p) -> In x X -> In x names) ->
  resolve_m (e1 ++ (s, a, names ++ X) :: e2) fs cur ca n p = resolve_m (e1 ++ (s, a, names) :: e2) fs cur ca n p.
Proof.
  intros e1 s a names X e2 fs cur ca n H. apply resolve_m_ext. intros x Hx. rewrite mem_app.
  destruct (mem x names) eqn:E1; [reflexivity|]. cbn [orb]. destruct (mem x X) eqn:E2; [|reflexivity].
  apply mem_in in E2. apply (H x Hx) in E2. apply mem_in in E2. congruence.
Qed.

(* a scope without names is invisible (class bodies) *)
Lemma lookup_drop_nil x : forall e1 s a e2, lookup (e1 ++ (s, a, []) :: e2) x = lookup (e1 ++ e2) x.
Proof.
  induction e1 as [|[[s0 a0] n0] t IH]; intros s a e2; cbn [app lookup]; [reflexivity|].
  destruct (mem x n0); [reflexivity|]. apply IH.
Qed.

Ltac dn1 IH e1 := let E := fresh in
  pose proof (fun en s a e2 fs cur ca m => IH (en :: e1) s a e2 fs cur ca m) as E; cbn [app] in E; rewrite E; clear E.

Lemma resolve_drop_nil p : forall e1 s a e2 fs cur ca n,
  resolve_m (e1 ++ (s, a, []) :: e2) fs cur ca n p = resolve_m (e1 ++ e2) fs cur ca n p.
Proof.
  induction p; intros e1 s a e2 fs cur ca n; cbn [resolve_m].
  - reflexivity.
  - rewrite IHp, lookup_drop_nil. reflexivity.
  - rewrite IHp, lookup_drop_nil. reflexivity.
  - rewrite IHp. reflexivity.
  - dn1 IHp1 e1. destruct (resolve_m _ _ _ _ _ p1). rewrite IHp2. reflexivity.
  - destruct nm as [f|].
    + dn1 IHp1 e1. destruct (resolve_m _ _ _ _ _ p1). dn1 IHp2 e1. destruct (resolve_m _ _ _ _ _ p2). rewrite IHp3. reflexivity.
    + dn1 IHp1 e1. destruct (resolve_m _ _ _ _ _ p1). dn1 IHp2 e1. destruct (resolve_m _ _ _ _ _ p2). rewrite IHp3. reflexivity.
  - dn1 IHp1 e1. destruct (resolve_m _ _ _ _ _ p1). dn1 IHp2 e1. destruct (resolve_m _ _ _ _ _ p2). rewrite IHp3. reflexivity.
  - dn1 IHp1 e1. destruct (resolve_m _ _ _ _ _ p1). rewrite IHp2. reflexivity.
  - rewrite IHp1. destruct (resolve_m _ _ _ _ _ p1). rewrite IHp2. reflexivity.
  - dn1 IHp1 e1. destruct (resolve_m _ _ _ _ _ p1). dn1 IHp2 e1. destruct (resolve_m _ _ _ _ _ p2). rewrite IHp3. reflexivity.
  - dn1 IHp1 e1. destruct (resolve_m _ _ _ _ _ p1). dn1 IHp2 e1. destruct (resolve_m _ _ _ _ _ p2). rewrite IHp3. reflexivity.
  - destruct nm as [c|].
    + dn1 IHp1 e1. destruct (resolve_m _ _ _ _ _ p1). rewrite IHp2. reflexivity.
    + rewrite IHp1. destruct (resolve_m _ _ _ _ _ p1). rewrite IHp2. reflexivity.
Qed.
