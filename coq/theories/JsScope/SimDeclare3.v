(* JsScope/SimDeclare3.v — Declare adopting an earlier unresolved use of the name (a; var a). *)
From Coq Require Import ZifyBool.
From Verif Require Import Common.Base Common.Tactics JsScope.Model JsScope.Abs JsScope.HeapLemmas
  JsScope.SimDefs JsScope.SimUse JsScope.SimDeclare.

Lemma label_eqb_eq a b : label_eqb a b = true <-> a = b.
Proof.
  destruct a as [s x|s x|s x], b as [t y|t y|t y]; cbn; split; intros H; try discriminate.
  - apply andb_true_iff in H. destruct H as [H1 H2]. apply Nat.eqb_eq in H1. apply Z.eqb_eq in H2. subst. reflexivity.
  - inversion H; subst. rewrite Nat.eqb_refl, Z.eqb_refl. reflexivity.
  - apply andb_true_iff in H. destruct H as [H1 H2]. apply Nat.eqb_eq in H1. apply Z.eqb_eq in H2. subst. reflexivity.
  - inversion H; subst. rewrite Nat.eqb_refl, Z.eqb_refl. reflexivity.
  - apply andb_true_iff in H. destruct H as [H1 H2]. apply Nat.eqb_eq in H1. apply Z.eqb_eq in H2. subst. reflexivity.
  - inversion H; subst. rewrite Nat.eqb_refl, Z.eqb_refl. reflexivity.
Qed.

Lemma label_eqb_refl a : label_eqb a a = true.
Proof. apply label_eqb_eq. reflexivity. Qed.

Lemma label_eqb_neq a b : a <> b -> label_eqb a b = false.
Proof. intros H. apply not_true_iff_false. intros E. apply H. apply label_eqb_eq. exact E. Qed.

Lemma chase_same_vlinks st st' :
  (forall v, vlink (vget st' v) = vlink (vget st v)) -> forall fuel v, chase fuel st' v = chase fuel st v.
Proof.
  intros H fuel. induction fuel as [|f IH]; intros v; [reflexivity|]. cbn. rewrite H.
  destruct (vlink (vget st v)); [apply IH|reflexivity].
Qed.

Lemma root_of_same_vlinks st st' v :
  (forall v, vlink (vget st' v) = vlink (vget st v)) -> nvars st' = nvars st -> nscopes st' = nscopes st ->
  root_of st' v = root_of st v.
Proof.
  intros H Hn Hs. unfold root_of. unfold nvars, nscopes in *. rewrite Hn, Hs. apply chase_same_vlinks. exact H.
Qed.

Section Adopt.
  Variables (st : state) (log stk : list nat) (t : nat) (home : nat -> nat) (x decl : Z) (k r : nat).
  Hypothesis I : InvS st log stk home no_extra.
  Hypothesis U : InvU st log.
  Hypothesis Ht : In t stk.
  Hypothesis Hk : nth_error (sundeclared (sc_of st t)) k = Some r.
  Hypothesis Hdr : vd st r = 0.
  Hypothesis Hnr : vn st r = x.
  Hypothesis Hfresh : forall v, In v (sdeclared (sc_of st t)) -> vn st v <> x.
  Hypothesis Hdecl : decl <> 0.
  Hypothesis Hnarg : (Z.to_nat (narguses (sc_of st t)) <= k)%nat.

  Let sc := sc_of st t.
  Let st1 := vset st r (set_decl (vget st r) decl).
  Let sc1 := set_declared (set_undeclared sc (remove_at (sundeclared sc) k)) (sdeclared sc ++ [r]).
  Let st2 := sset st1 t sc1.

  Lemma ad_t : (t < nscopes st)%nat.
  Proof. eapply stack_ok_in; [apply I|exact Ht]. Qed.

  Lemma ad_rin : In r (sundeclared sc).
  Proof. eapply nth_error_In. exact Hk. Qed.

  Lemma ad_rv : (r < nvars st)%nat.
  Proof. apply (I_valid _ _ _ _ _ I t r ad_t). right. exact ad_rin. Qed.

  Lemma ad_rroot : is_root st r.
  Proof. apply (I_und _ _ _ _ _ I t r Ht ad_rin). Qed.

  Lemma ad_rhome : home r = t.
  Proof. apply (I_und _ _ _ _ _ I t r Ht ad_rin). exact Hdr. Qed.

  Lemma ad_vget w : vget st2 w = if Nat.eqb r w then set_decl (vget st r) decl else vget st w.
  Proof. unfold st2. rewrite vget_sset. unfold st1. apply vget_vset. exact ad_rv. Qed.

  Lemma ad_vn w : vn st2 w = vn st w.
  Proof. unfold vn. rewrite ad_vget. destruct (Nat.eqb_spec r w) as [->|]; reflexivity. Qed.

  Lemma ad_link w : vlink (vget st2 w) = vlink (vget st w).
  Proof. rewrite ad_vget. destruct (Nat.eqb_spec r w) as [->|]; reflexivity. Qed.

  Lemma ad_uses w : vuses (vget st2 w) = vuses (vget st w).
  Proof. rewrite ad_vget. destruct (Nat.eqb_spec r w) as [->|]; reflexivity. Qed.

  Lemma ad_vd_r : vd st2 r = decl.
  Proof. unfold vd. rewrite ad_vget, Nat.eqb_refl. reflexivity. Qed.

  Lemma ad_vd_other w : w <> r -> vd st2 w = vd st w.
  Proof. intros H. unfold vd. rewrite ad_vget. destruct (Nat.eqb_spec r w) as [E|]; [congruence|reflexivity]. Qed.

  Lemma ad_root w : is_root st2 w <-> is_root st w.
  Proof. unfold is_root. rewrite ad_link. tauto. Qed.

  Lemma ad_nvars : nvars st2 = nvars st.
  Proof. unfold st2. rewrite nvars_sset. unfold st1. apply nvars_vset. Qed.

  Lemma ad_nscopes : nscopes st2 = nscopes st.
  Proof. unfold st2. rewrite nscopes_sset. reflexivity. Qed.

  Lemma ad_sc q : sc_of st2 q = if Nat.eqb q t then sc1 else sc_of st q.
  Proof.
    unfold st2. destruct (Nat.eqb_spec q t) as [->|Hne].
    - apply sc_of_sset_same. unfold st1. rewrite nscopes_vset. apply ad_t.
    - rewrite sc_of_sset_other by congruence. reflexivity.
  Qed.

  Lemma ad_fields q :
    sparent (sc_of st2 q) = sparent (sc_of st q) /\ sfunc (sc_of st2 q) = sfunc (sc_of st q) /\
    nfordecls (sc_of st2 q) = nfordecls (sc_of st q) /\ narguses (sc_of st2 q) = narguses (sc_of st q) /\
    sdeclared (sc_of st2 q) = (if Nat.eqb q t then sdeclared sc ++ [r] else sdeclared (sc_of st q)) /\
    sundeclared (sc_of st2 q) = (if Nat.eqb q t then remove_at (sundeclared sc) k else sundeclared (sc_of st q)).
  Proof. rewrite ad_sc. destruct (Nat.eqb_spec q t) as [->|]; repeat split; reflexivity. Qed.

  Lemma ad_r_not_decl q : (q < nscopes st)%nat -> ~ In r (sdeclared (sc_of st q)).
  Proof. intros Hq H. destruct (I_decl _ _ _ _ _ I q r Hq H) as (_ & D & _). contradiction. Qed.

  Lemma ad_r_not_und q : In q stk -> q <> t -> ~ In r (sundeclared (sc_of st q)).
  Proof.
    intros Hq Hne H. destruct (I_und _ _ _ _ _ I q r Hq H) as (_ & Hh & _). specialize (Hh Hdr).
    rewrite ad_rhome in Hh. congruence.
  Qed.

  Lemma ad_r_not_rest : ~ In r (remove_at (sundeclared sc) k).
  Proof. apply remove_at_not_in; [apply (I_und_nodup _ _ _ _ _ I t Ht)|exact Hk]. Qed.

  Lemma ad_k_lt : (k < length (sundeclared sc))%nat.
  Proof. apply nth_error_Some. unfold sc. rewrite Hk. discriminate. Qed.

  Lemma ad_args q : und_args (sc_of st2 q) = und_args (sc_of st q).
  Proof.
    rewrite ad_sc. destruct (Nat.eqb_spec q t) as [->|]; [|reflexivity].
    unfold und_args, sc1. cbn [narguses sundeclared set_declared set_undeclared]. fold sc. apply firstn_remove_at_le. exact Hnarg.
  Qed.

  Lemma ad_argp w : argp st2 home w = argp st home w.
  Proof. apply argp_ext; [reflexivity|apply ad_args]. Qed.

  Lemma ad_argp_r : argp st home r = false.
  Proof.
    apply (notin_und_args_argp st home t r ad_rhome). unfold und_args.
    apply (nth_error_firstn_in _ _ k r Hk Hnarg). apply (I_und_nodup _ _ _ _ _ I t Ht).
  Qed.

  Lemma InvS_adopt : InvS st2 log stk home no_extra.
  Proof.
    pose proof ad_t as Htn. pose proof I as I'. dI I'.
    constructor.
    - eapply stack_ok_ext; [exact Istack|rewrite ad_nscopes; lia|]. intros q _. apply ad_fields.
    - intros q g. rewrite ad_nscopes. destruct (ad_fields q) as (_ & -> & _). apply Ifunc.
    - intros q v. rewrite ad_nscopes, ad_nvars. destruct (ad_fields q) as (_ & _ & _ & _ & -> & ->). intros Hq [H|H].
      + destruct (Nat.eqb_spec q t) as [->|]; [|apply (Ivalid q v Hq); left; exact H].
        apply in_app_last in H. destruct H as [H| ->]; [apply (Ivalid t v Hq); left; exact H|exact ad_rv].
      + destruct (Nat.eqb_spec q t) as [->|]; [|apply (Ivalid q v Hq); right; exact H].
        apply (Ivalid t v Hq). right. eapply remove_at_in. exact H.
    - intros v w. rewrite ad_nvars, ad_link. apply Ilinks.
    - intros v. rewrite ad_nvars, ad_nscopes. apply Ihomes.
    - intros v. rewrite ad_nvars. apply Ilog.
    - rewrite ad_nvars. exact Invars.
    - intros q v. rewrite ad_nscopes, ad_root. destruct (ad_fields q) as (_ & _ & _ & _ & -> & _). intros Hq H.
      assert (Hcase : In v (sdeclared (sc_of st q)) \/ (q = t /\ v = r)).
      { destruct (Nat.eqb_spec q t) as [->|]; [|left; exact H]. apply in_app_last in H. destruct H as [H| ->]; [left; exact H|right; split; reflexivity]. }
      destruct Hcase as [Hin|[-> ->]].
      + assert (v <> r) by (intros ->; apply (ad_r_not_decl q Hq Hin)). rewrite ad_vd_other by assumption. apply Idecl; assumption.
      + rewrite ad_vd_r. split; [exact ad_rroot|]. split; [exact Hdecl|exact ad_rhome].
    - intros q. rewrite ad_nscopes. destruct (ad_fields q) as (_ & _ & _ & _ & -> & _). intros Hq.
      rewrite (map_ext _ _ ad_vn). destruct (Nat.eqb_spec q t) as [->|]; [|apply Idnodup; exact Hq].
      rewrite map_app. cbn [map]. rewrite Hnr. apply nodup_app_last; [apply Idnodup; exact Hq|].
      intros Hin. apply in_map_iff in Hin. destruct Hin as (v & E & Hv). apply (Hfresh v Hv). exact E.
    - intros r' Hr'. rewrite ad_nvars in Hr'. rewrite ad_root. intros R D.
      destruct (ad_fields (home r')) as (_ & _ & _ & _ & -> & _).
      destruct (Nat.eq_dec r' r) as [->|Hne].
      + rewrite ad_rhome, Nat.eqb_refl. apply in_app_last. right. reflexivity.
      + rewrite ad_vd_other in D by exact Hne. pose proof (Idcomp r' Hr' R D) as Hin.
        destruct (Nat.eqb_spec (home r') t) as [E|]; [|exact Hin]. apply in_app_last. left. rewrite E in Hin. exact Hin.
    - intros q v Hq. rewrite ad_root. destruct (ad_fields q) as (_ & _ & _ & _ & _ & ->). intros H.
      assert (Hin : In v (sundeclared (sc_of st q)) /\ v <> r).
      { destruct (Nat.eqb_spec q t) as [->|Hne].
        - split; [eapply remove_at_in; exact H|]. intros ->. apply ad_r_not_rest. exact H.
        - split; [exact H|]. intros ->. apply (ad_r_not_und q Hq Hne H). }
      destruct Hin as [Hin Hne]. rewrite ad_vd_other by exact Hne. apply Iund; assumption.
    - intros q Hq. destruct (ad_fields q) as (_ & _ & _ & _ & _ & ->).
      destruct (Nat.eqb_spec q t) as [->|]; [|apply Iunodup; exact Hq]. apply remove_at_nodup. apply Iunodup. exact Hq.
    - intros q v1 v2 Hq. destruct (ad_fields q) as (_ & _ & _ & _ & _ & ->). intros H1 H2.
      assert (Hin : forall v, In v (if Nat.eqb q t then remove_at (sundeclared sc) k else sundeclared (sc_of st q)) ->
                              In v (sundeclared (sc_of st q)) /\ v <> r).
      { intros v H. destruct (Nat.eqb_spec q t) as [->|Hne].
        - split; [eapply remove_at_in; exact H|]. intros ->. apply ad_r_not_rest. exact H.
        - split; [exact H|]. intros ->. apply (ad_r_not_und q Hq Hne H). }
      destruct (Hin v1 H1) as [I1 N1]. destruct (Hin v2 H2) as [I2 N2].
      rewrite !ad_vd_other, !ad_vn, !ad_argp by assumption. apply (Ipuniq q); assumption.
    - intros r' Hr'. rewrite ad_nvars in Hr'. rewrite ad_root. intros R D.
      assert (Hne : r' <> r). { intros ->. rewrite ad_vd_r in D. contradiction. }
      rewrite ad_vd_other in D by exact Hne. destruct (Ipcomp r' Hr' R D) as [[H1 H2]|[]]. left. split; [exact H1|].
      destruct (ad_fields (home r')) as (_ & _ & _ & _ & _ & ->).
      destruct (Nat.eqb_spec (home r') t) as [E|]; [|exact H2]. rewrite E in H2. apply in_remove_at; [|exact H2].
      unfold sc. rewrite Hk. congruence.
    - intros q Hq. destruct (ad_fields q) as (_ & _ & -> & -> & -> & ->). destruct (Imarks q Hq) as [H1 H2]. split.
      { destruct (Nat.eqb_spec q t) as [->|]; [|exact H1]. rewrite len_app_last. unfold sc. lia. }
      destruct (Nat.eqb_spec q t) as [->|]; [|exact H2].
      pose proof ad_k_lt as Hlt. pose proof (length_remove_at (sundeclared sc) k Hlt) as Hlen.
      unfold len in *. unfold sc in *. lia.
  Qed.

  Lemma ad_root_of w : root_of st2 w = root_of st w.
  Proof. apply root_of_same_vlinks; [exact ad_link|exact ad_nvars|exact ad_nscopes]. Qed.

  Lemma InvU_adopt : InvU st2 log.
  Proof.
    destruct U as [Hu Hc]. constructor.
    - intros w. rewrite ad_nvars, ad_uses. apply Hu.
    - intros w. rewrite ad_nvars, ad_root, ad_uses. intros Hw Rw. rewrite (Hc w Hw Rw). f_equal.
      unfold count_root. f_equal. apply filter_ext. intros u. rewrite ad_root_of. reflexivity.
  Qed.

  Lemma ad_lab_r : lab_root st home r = LPend t x.
  Proof. unfold lab_root. unfold vd in Hdr. rewrite Hdr, ad_argp_r. cbn. unfold vn in Hnr. rewrite Hnr, ad_rhome. reflexivity. Qed.

  Lemma ad_lab_r2 : lab_root st2 home r = LDecl t x.
  Proof.
    unfold lab_root. pose proof ad_vd_r as E. unfold vd in E. rewrite E.
    replace (decl =? 0) with false by (symmetry; apply Z.eqb_neq; exact Hdecl).
    pose proof (ad_vn r) as En. unfold vn in En. rewrite En. unfold vn in Hnr. rewrite Hnr, ad_rhome. reflexivity.
  Qed.

  Lemma ad_lab_other w : w <> r -> lab_root st2 home w = lab_root st home w.
  Proof.
    intros H. unfold lab_root. pose proof (ad_vd_other w H) as E. unfold vd in E. rewrite E, ad_argp.
    pose proof (ad_vn w) as En. unfold vn in En. rewrite En. reflexivity.
  Qed.

  Lemma ad_relabel :
    map (lab_of st2 home) log = relabel (LPend t x) (LDecl t x) (map (lab_of st home) log).
  Proof.
    unfold relabel. rewrite map_map. apply map_ext_in. intros w Hw.
    assert (Hwv : (w < nvars st)%nat) by (apply (I_log _ _ _ _ _ I); exact Hw).
    unfold lab_of. rewrite ad_root_of.
    destruct (root_of_spec st home w (I_links _ _ _ _ _ I) (I_homes _ _ _ _ _ I) Hwv) as (n & Hre & _ & Hrv & _).
    pose proof (reach_root _ _ _ _ Hre) as Hrr.
    destruct (Nat.eq_dec (root_of st w) r) as [E|E].
    - rewrite E, ad_lab_r, ad_lab_r2, label_eqb_refl. reflexivity.
    - rewrite ad_lab_other by exact E. rewrite label_eqb_neq; [reflexivity|].
      intros Hlab. apply E. unfold lab_root in Hlab.
      destruct (Z.eqb_spec (vdecl (vget st (root_of st w))) 0) as [D|D]; [|discriminate].
      destruct (argp st home (root_of st w)) eqn:Ea; [discriminate|].
      inversion Hlab as [[Hh Hn]].
      apply (pend_label_inj st log stk home no_extra (root_of st w) r I Hrv ad_rv Hrr ad_rroot).
      + exact D.
      + exact Hdr.
      + rewrite ad_rhome. exact Hh.
      + unfold vn in *. rewrite Hnr. exact Hn.
      + rewrite Ea, ad_argp_r. reflexivity.
      + intros [].
      + intros [].
  Qed.

  Lemma ad_frame_other s : In s stk -> s <> t -> frame_of st2 home s = frame_of st home s.
  Proof.
    intros Hs Hne. pose proof (stack_ok_in _ _ _ (I_stack _ _ _ _ _ I) Hs) as Hsn.
    unfold frame_of. rewrite ad_sc. destruct (Nat.eqb_spec s t) as [|_]; [contradiction|]. f_equal.
    - apply map_ext_in. intros v Hv. assert (v <> r) by (intros ->; apply (ad_r_not_decl s Hsn Hv)).
      unfold nk. pose proof (ad_vn v) as En. pose proof (ad_vd_other v H) as Ed. unfold vn, vd in *. rewrite En, Ed. reflexivity.
    - apply map_ext_in. intros v Hv. assert (v <> r) by (intros ->; apply (ad_r_not_und s Hs Hne Hv)).
      unfold uent_of. pose proof (ad_vn v) as En. pose proof (ad_vd_other v H) as Ed. unfold vn, vd in *. rewrite En, Ed, ad_argp. reflexivity.
  Qed.

  Lemma ad_frame_t :
    frame_of st2 home t
    = set_fdecl (set_fund (frame_of st home t) (remove_at (fund (frame_of st home t)) k))
                (fdecl (frame_of st home t) ++ [(x, decl)]).
  Proof.
    pose proof ad_t as Htn. unfold frame_of, set_fdecl, set_fund. cbn [fid fisfunc fdecl fund fnarg fnfor].
    rewrite ad_sc, Nat.eqb_refl. unfold sc1. cbn [sfunc sdeclared sundeclared narguses nfordecls set_declared set_undeclared]. fold sc. f_equal.
    - rewrite map_app. f_equal.
      + apply map_ext_in. intros v Hv. assert (v <> r) by (intros ->; apply (ad_r_not_decl t Htn Hv)).
        unfold nk. pose proof (ad_vn v) as En. pose proof (ad_vd_other v H) as Ed. unfold vn, vd in *. rewrite En, Ed. reflexivity.
      + cbn. unfold nk. pose proof (ad_vn r) as En. pose proof ad_vd_r as Ed. unfold vn, vd in *. rewrite En, Ed, Hnr. reflexivity.
    - rewrite <- map_remove_at. apply map_ext_in. intros v Hv.
      assert (v <> r) by (intros ->; apply ad_r_not_rest; exact Hv).
      unfold uent_of. pose proof (ad_vn v) as En. pose proof (ad_vd_other v H) as Ed. unfold vn, vd in *. rewrite En, Ed, ad_argp. reflexivity.
  Qed.

  Lemma adopt_all :
    InvS st2 log stk home no_extra /\ InvU st2 log /\
    nvars st2 = nvars st /\ nscopes st2 = nscopes st /\
    is_root st2 r /\ (r < nvars st2)%nat /\ lab_of st2 home r = LDecl t x /\
    map (lab_of st2 home) log = relabel (LPend t x) (LDecl t x) (map (lab_of st home) log) /\
    frame_of st2 home t
      = set_fdecl (set_fund (frame_of st home t) (remove_at (fund (frame_of st home t)) k))
                  (fdecl (frame_of st home t) ++ [(x, decl)]) /\
    (forall s, In s stk -> s <> t -> frame_of st2 home s = frame_of st home s).
  Proof.
    split; [exact InvS_adopt|]. split; [exact InvU_adopt|]. split; [exact ad_nvars|]. split; [exact ad_nscopes|].
    split; [apply ad_root; exact ad_rroot|]. split; [rewrite ad_nvars; exact ad_rv|].
    split; [rewrite lab_of_root by (apply ad_root; exact ad_rroot); exact ad_lab_r2|].
    split; [exact ad_relabel|]. split; [exact ad_frame_t|exact ad_frame_other].
  Qed.
End Adopt.
