(* JsScope/SimExit.v — HoistUndeclared: one step of the loop that merges an unresolved variable of the
   closing scope into a variable of the parent (Merge) or moves it to the parent's list (Move). *)
From Coq Require Import ZifyBool.
From Verif Require Import Common.Base Common.Tactics JsScope.Model JsScope.Abs JsScope.HeapLemmas
  JsScope.SimDefs JsScope.SimUse JsScope.SimDeclare JsScope.SimDeclare3.

(* while scope F is being hoisted, its not yet processed unresolved variables live in the rest l of
   its undeclared list *)
Definition extraF (home : nat -> nat) (F : nat) (l : list nat) : nat -> Prop := fun r => home r = F /\ In r l.

Lemma InvS_extra_weaken st log stk home (extra extra' : nat -> Prop) :
  (forall r, (r < nvars st)%nat -> is_root st r -> vd st r = 0 -> extra r -> extra' r) ->
  InvS st log stk home extra -> InvS st log stk home extra'.
Proof.
  intros H I. dI I. constructor; try assumption.
  intros r Hr Rr Dr. destruct (Ipcomp r Hr Rr Dr) as [Hl|He]; [left; exact Hl|right; apply H; assumption].
Qed.

Lemma in_list_set {A} (l : list A) i a x : In x (list_set l i a) -> In x l \/ x = a.
Proof.
  revert i. induction l as [|h t IH]; intros i H; [destruct i; destruct H|].
  destruct i as [|i]; cbn in H.
  - destruct H as [<-|H]; [right; reflexivity|left; right; exact H].
  - destruct H as [<-|H]; [left; left; reflexivity|]. destruct (IH i H) as [H1|H1]; [left; right; exact H1|right; exact H1].
Qed.

Lemma count_two_le st a b log : a <> b -> (count_root st a log + count_root st b log <= length log)%nat.
Proof.
  intros Hne. unfold count_root. induction log as [|u t IH]; cbn; [lia|].
  destruct (Nat.eqb_spec (root_of st u) a) as [Ea|Ea]; destruct (Nat.eqb_spec (root_of st u) b) as [Eb|Eb]; cbn; try lia.
Qed.

(* ---- Merge -------------------------------------------------------------------------------------------- *)
Section Merge.
  Variables (st : state) (log stk' : list nat) (home : nat -> nat) (F i v w : nat) (l' : list nat).
  Hypothesis I : InvS st log stk' home (extraF home F (v :: l')).
  Hypothesis U : InvU st log.
  Hypothesis Hlen : len log < 65536.
  Hypothesis HF : ~ In F stk'.
  Hypothesis HFn : (F < nscopes st)%nat.
  Hypothesis Hv : (v < nvars st)%nat.
  Hypothesis Hvroot : is_root st v.
  Hypothesis Hvd : vd st v = 0.
  Hypothesis Hvhome : home v = F.
  Hypothesis Hw : (w < nvars st)%nat.
  Hypothesis Hwroot : is_root st w.
  Hypothesis Hwv : w <> v.
  Hypothesis Hwhome : (home w < F)%nat.
  Hypothesis Hnd : ~ In v l'.
  Hypothesis Hpu : forall u, In u l' -> vd st u = 0 -> vn st u = vn st v -> argp st home u = argp st home v -> u = v.
  Hypothesis Hi : nth_error (sundeclared (sc_of st F)) i = Some v.

  Let st1 := merge_into st v w.
  Let st2 := sset st1 F (set_undeclared (sc_of st1 F) (list_set (sundeclared (sc_of st1 F)) i w)).

  Lemma mg_vget u :
    vget st2 u = if Nat.eqb v u then set_link (vget st v) (Some w)
                 else if Nat.eqb w u then set_uses (vget st w) (u16 (vuses (vget st w) + vuses (vget st v)))
                 else vget st u.
  Proof.
    unfold st2. rewrite vget_sset. unfold st1, merge_into.
    rewrite vget_vset by (rewrite nvars_vset; exact Hv).
    destruct (Nat.eqb_spec v u) as [->|Hne].
    - rewrite vget_vset_other by exact Hwv. reflexivity.
    - rewrite vget_vset by exact Hw. reflexivity.
  Qed.

  Lemma mg_vn u : vn st2 u = vn st u.
  Proof. unfold vn. rewrite mg_vget. destruct (Nat.eqb_spec v u) as [->|]; [reflexivity|]. destruct (Nat.eqb_spec w u) as [->|]; reflexivity. Qed.

  Lemma mg_vd u : vd st2 u = vd st u.
  Proof. unfold vd. rewrite mg_vget. destruct (Nat.eqb_spec v u) as [->|]; [reflexivity|]. destruct (Nat.eqb_spec w u) as [->|]; reflexivity. Qed.

  Lemma mg_link_v : vlink (vget st2 v) = Some w.
  Proof. rewrite mg_vget, Nat.eqb_refl. reflexivity. Qed.

  Lemma mg_link_other u : u <> v -> vlink (vget st2 u) = vlink (vget st u).
  Proof.
    intros H. rewrite mg_vget. destruct (Nat.eqb_spec v u) as [E|]; [congruence|]. destruct (Nat.eqb_spec w u) as [->|]; reflexivity.
  Qed.

  Lemma mg_root_other u : u <> v -> (is_root st2 u <-> is_root st u).
  Proof. intros H. unfold is_root. rewrite mg_link_other by exact H. tauto. Qed.

  Lemma mg_not_root_v : ~ is_root st2 v.
  Proof. unfold is_root. rewrite mg_link_v. discriminate. Qed.

  Lemma mg_nvars : nvars st2 = nvars st.
  Proof. unfold st2. rewrite nvars_sset. unfold st1, merge_into. rewrite !nvars_vset. reflexivity. Qed.

  Lemma mg_nscopes : nscopes st2 = nscopes st.
  Proof. unfold st2. rewrite nscopes_sset. reflexivity. Qed.

  Lemma mg_sc q : q <> F -> sc_of st2 q = sc_of st q.
  Proof. intros H. unfold st2. rewrite sc_of_sset_other by congruence. reflexivity. Qed.

  Lemma mg_sc_F :
    sc_of st2 F = set_undeclared (sc_of st F) (list_set (sundeclared (sc_of st F)) i w).
  Proof. unfold st2. rewrite sc_of_sset_same; [reflexivity|]. exact HFn. Qed.

  Lemma mg_fields q :
    sparent (sc_of st2 q) = sparent (sc_of st q) /\ sfunc (sc_of st2 q) = sfunc (sc_of st q) /\
    sdeclared (sc_of st2 q) = sdeclared (sc_of st q).
  Proof.
    destruct (Nat.eq_dec q F) as [->|Hne]; [rewrite mg_sc_F|rewrite mg_sc by exact Hne]; repeat split; reflexivity.
  Qed.

  Lemma mg_in_stk q : In q stk' -> q <> F.
  Proof. intros H ->. contradiction. Qed.

  Lemma mg_v_not_und q : In q stk' -> ~ In v (sundeclared (sc_of st q)).
  Proof.
    intros Hq H. destruct (I_und _ _ _ _ _ I q v Hq H) as (_ & Hh & _). specialize (Hh Hvd).
    rewrite Hvhome in Hh. subst q. contradiction.
  Qed.

  Lemma mg_v_not_decl q : (q < nscopes st)%nat -> ~ In v (sdeclared (sc_of st q)).
  Proof. intros Hq H. destruct (I_decl _ _ _ _ _ I q v Hq H) as (_ & D & _). contradiction. Qed.

  Lemma mg_argp u : u <> v -> argp st2 home u = argp st home u.
  Proof.
    intros Hu. unfold argp. destruct (Nat.eq_dec (home u) F) as [E|E]; [|rewrite mg_sc by exact E; reflexivity].
    rewrite E, mg_sc_F. unfold und_args. cbn [narguses sundeclared set_undeclared]. apply existsb_eqb_iff.
    apply (in_firstn_list_set _ i _ w v u Hi); [|exact Hu]. intros ->. lia.
  Qed.

  Lemma InvS_merge : InvS st2 log stk' home (extraF home F l').
  Proof.
    pose proof I as I'. dI I'.
    constructor.
    - eapply stack_ok_ext; [exact Istack|rewrite mg_nscopes; lia|]. intros q _. apply mg_fields.
    - intros q g. rewrite mg_nscopes. destruct (mg_fields q) as (_ & -> & _). apply Ifunc.
    - intros q u. rewrite mg_nscopes, mg_nvars. destruct (mg_fields q) as (_ & _ & ->). intros Hq [H|H].
      + apply (Ivalid q u Hq). left. exact H.
      + destruct (Nat.eq_dec q F) as [->|Hne].
        * rewrite mg_sc_F in H. cbn [sundeclared set_undeclared] in H. apply in_list_set in H.
          destruct H as [H| ->]; [apply (Ivalid F u Hq); right; exact H|exact Hw].
        * rewrite mg_sc in H by exact Hne. apply (Ivalid q u Hq). right. exact H.
    - intros u z. rewrite mg_nvars. intros Hu Hl. destruct (Nat.eq_dec u v) as [->|Hne].
      + rewrite mg_link_v in Hl. injection Hl as Ez. rewrite <- Ez. split; [exact Hw|]. rewrite Hvhome. exact Hwhome.
      + rewrite mg_link_other in Hl by exact Hne. apply Ilinks; assumption.
    - intros u. rewrite mg_nvars, mg_nscopes. apply Ihomes.
    - intros u. rewrite mg_nvars. apply Ilog.
    - rewrite mg_nvars. exact Invars.
    - intros q u. rewrite mg_nscopes. destruct (mg_fields q) as (_ & _ & ->). intros Hq H.
      assert (u <> v) by (intros ->; apply (mg_v_not_decl q Hq H)).
      rewrite mg_root_other, mg_vd by assumption. apply Idecl; assumption.
    - intros q. rewrite mg_nscopes. destruct (mg_fields q) as (_ & _ & ->). rewrite (map_ext _ _ mg_vn). apply Idnodup.
    - intros r. rewrite mg_nvars, mg_vd. intros Hr Rr Dr.
      assert (r <> v) by (intros ->; apply mg_not_root_v; exact Rr).
      apply mg_root_other in Rr; [|assumption]. destruct (mg_fields (home r)) as (_ & _ & ->). apply Idcomp; assumption.
    - intros q u Hq. rewrite mg_sc by (apply mg_in_stk; exact Hq). intros H.
      assert (u <> v) by (intros ->; apply (mg_v_not_und q Hq H)).
      rewrite mg_root_other, mg_vd by assumption. apply Iund; assumption.
    - intros q Hq. rewrite mg_sc by (apply mg_in_stk; exact Hq). apply Iunodup. exact Hq.
    - intros q v1 v2 Hq. rewrite mg_sc by (apply mg_in_stk; exact Hq). rewrite !mg_vd, !mg_vn. intros H1 H2.
      rewrite (mg_argp v1), (mg_argp v2) by (intros ->; eapply mg_v_not_und; eassumption). apply (Ipuniq q); assumption.
    - intros r. rewrite mg_nvars, mg_vd. intros Hr Rr Dr.
      assert (Hne : r <> v) by (intros ->; apply mg_not_root_v; exact Rr).
      apply mg_root_other in Rr; [|assumption].
      destruct (Ipcomp r Hr Rr Dr) as [[H1 H2]|[H1 H2]].
      + left. split; [exact H1|]. rewrite mg_sc by (apply mg_in_stk; exact H1). exact H2.
      + right. split; [exact H1|]. destruct H2 as [E|H2]; [congruence|exact H2].
    - intros q Hq. rewrite mg_sc by (apply mg_in_stk; exact Hq). apply Imarks. exact Hq.
  Qed.

  Lemma mg_link_update : link_update st st2 v w.
  Proof. split; [exact mg_nvars|]. split; [exact mg_link_v|]. intros u Hu. apply mg_link_other. exact Hu. Qed.

  Lemma mg_root_of u : (u < nvars st)%nat ->
    root_of st2 u = if Nat.eqb (root_of st u) v then w else root_of st u.
  Proof.
    intros Hu. apply (root_of_link_update st st2 home v w); try assumption.
    - apply I.
    - apply I.
    - exact mg_link_update.
    - exact mg_nscopes.
  Qed.

  Lemma mg_lab_root u : u <> v -> lab_root st2 home u = lab_root st home u.
  Proof.
    intros Hu. unfold lab_root. pose proof (mg_vd u) as Ed. pose proof (mg_vn u) as En. unfold vd, vn in *. rewrite Ed, En, (mg_argp u Hu). reflexivity.
  Qed.

  (* a root with the label of v is v *)
  Lemma same_label_v r :
    (r < nvars st)%nat -> is_root st r -> lab_root st home r = lab_root st home v -> r = v.
  Proof.
    intros Hrv Hrr Hlab. unfold lab_root in Hlab. unfold vd in Hvd. rewrite Hvd in Hlab. cbn in Hlab.
    destruct (Z.eqb_spec (vdecl (vget st r)) 0) as [D|D]; [|destruct (argp st home v); discriminate].
    assert (Hargs : argp st home r = argp st home v /\ home r = home v /\ vname (vget st r) = vname (vget st v)).
    { destruct (argp st home r), (argp st home v); inversion Hlab; repeat split; reflexivity. }
    destruct Hargs as (Ea & Hh & Hn).
    destruct (I_pend_complete _ _ _ _ _ I r Hrv Hrr D) as [[H1 _]|[_ H2]].
    - rewrite Hh, Hvhome in H1. contradiction.
    - destruct H2 as [H2|H2]; [symmetry; exact H2|]. apply Hpu; [exact H2|exact D|exact Hn|exact Ea].
  Qed.

  Lemma mg_count_gen r (lg : list nat) : r <> v -> (forall u, In u lg -> (u < nvars st)%nat) ->
    count_root st2 r lg = if Nat.eqb r w then (count_root st w lg + count_root st v lg)%nat else count_root st r lg.
  Proof.
    intros Hrv. unfold count_root.
    induction lg as [|u t IH]; intros Hlog; [destruct (Nat.eqb r w); reflexivity|].
    cbn [filter]. rewrite mg_root_of by (apply Hlog; left; reflexivity).
    specialize (IH (fun u' Hu' => Hlog u' (or_intror Hu'))).
    destruct (Nat.eqb_spec (root_of st u) v) as [Ev|Ev].
    - destruct (Nat.eqb_spec w r) as [->|Hwr].
      + rewrite Nat.eqb_refl in *. destruct (Nat.eqb_spec (root_of st u) r) as [E|E]; [congruence|].
        cbn [length]. rewrite IH. lia.
      + replace (Nat.eqb r w) with false in * by (symmetry; apply Nat.eqb_neq; congruence).
        destruct (Nat.eqb_spec (root_of st u) r) as [E|E]; [congruence|]. exact IH.
    - destruct (Nat.eqb_spec (root_of st u) r) as [E|E].
      + cbn [length]. rewrite IH. destruct (Nat.eqb_spec r w) as [->|]; [|reflexivity].
        rewrite E, Nat.eqb_refl. cbn [length]. lia.
      + rewrite IH. destruct (Nat.eqb_spec r w) as [->|]; [|reflexivity].
        replace (Nat.eqb (root_of st u) w) with false by (symmetry; apply Nat.eqb_neq; exact E). reflexivity.
  Qed.

  Lemma mg_count r : r <> v ->
    count_root st2 r log = if Nat.eqb r w then (count_root st w log + count_root st v log)%nat else count_root st r log.
  Proof. intros H. apply mg_count_gen; [exact H|apply I]. Qed.

  Lemma InvU_merge : InvU st2 log.
  Proof.
    destruct U as [Hu Hc].
    pose proof (count_two_le st w v log Hwv) as Hsum.
    pose proof (Hc w Hw Hwroot) as Ew. pose proof (Hc v Hv Hvroot) as Ev.
    pose proof (Hu w Hw) as Hw1. pose proof (Hu v Hv) as Hv1. unfold len in Hlen.
    assert (E16 : u16 (vuses (vget st w) + vuses (vget st v)) = vuses (vget st w) + vuses (vget st v)) by (apply u16_small; lia).
    constructor.
    - intros u. rewrite mg_nvars. intros Hu'. rewrite mg_vget.
      destruct (Nat.eqb_spec v u) as [->|]; [cbn; apply Hu; exact Hu'|].
      destruct (Nat.eqb_spec w u) as [->|]; [cbn [vuses set_uses]; rewrite E16; lia|apply Hu; exact Hu'].
    - intros r. rewrite mg_nvars. intros Hr Rr.
      assert (Hrv : r <> v) by (intros ->; apply mg_not_root_v; exact Rr).
      apply mg_root_other in Rr; [|exact Hrv]. rewrite mg_count by exact Hrv. rewrite mg_vget.
      destruct (Nat.eqb_spec v r) as [E|_]; [congruence|].
      destruct (Nat.eqb_spec w r) as [->|Hwr].
      + rewrite Nat.eqb_refl. cbn [vuses set_uses]. rewrite E16, Ew, Ev. lia.
      + replace (Nat.eqb r w) with false by (symmetry; apply Nat.eqb_neq; congruence). apply Hc; assumption.
  Qed.

  Lemma mg_relabel :
    map (lab_of st2 home) log = relabel (lab_root st home v) (lab_root st home w) (map (lab_of st home) log).
  Proof.
    unfold relabel. rewrite map_map. apply map_ext_in. intros u Hu.
    assert (Huv : (u < nvars st)%nat) by (apply (I_log _ _ _ _ _ I); exact Hu).
    unfold lab_of. rewrite mg_root_of by exact Huv.
    destruct (root_of_spec st home u (I_links _ _ _ _ _ I) (I_homes _ _ _ _ _ I) Huv) as (n & Hre & _ & Hrv & _).
    pose proof (reach_root _ _ _ _ Hre) as Hrr.
    destruct (Nat.eqb_spec (root_of st u) v) as [E|E].
    - rewrite mg_lab_root by exact Hwv. rewrite E, label_eqb_refl. reflexivity.
    - rewrite mg_lab_root by exact E. rewrite label_eqb_neq; [reflexivity|].
      intros Hlab. apply E. apply same_label_v; assumption.
  Qed.

  Lemma mg_frame q : In q stk' -> frame_of st2 home q = frame_of st home q.
  Proof.
    intros Hq. unfold frame_of. rewrite mg_sc by (apply mg_in_stk; exact Hq). f_equal.
    - apply map_ext. intros u. unfold nk. pose proof (mg_vd u) as Ed. pose proof (mg_vn u) as En. unfold vd, vn in *. rewrite Ed, En. reflexivity.
    - apply map_ext_in. intros u Hu. unfold uent_of. pose proof (mg_vd u) as Ed. pose proof (mg_vn u) as En. unfold vd, vn in *. rewrite Ed, En.
      rewrite mg_argp; [reflexivity|]. intros ->. apply (mg_v_not_und q Hq Hu).
  Qed.

  Lemma merge_all :
    InvS st2 log stk' home (extraF home F l') /\ InvU st2 log /\
    nvars st2 = nvars st /\ nscopes st2 = nscopes st /\
    (forall u, vn st2 u = vn st u) /\ (forall u, vd st2 u = vd st u) /\
    (forall u, u <> v -> (is_root st2 u <-> is_root st u)) /\
    map (lab_of st2 home) log = relabel (lab_root st home v) (lab_root st home w) (map (lab_of st home) log) /\
    (forall q, In q stk' -> frame_of st2 home q = frame_of st home q) /\
    sparent (sc_of st2 F) = sparent (sc_of st F) /\
    (forall u, u <> v -> argp st2 home u = argp st home u) /\
    narguses (sc_of st2 F) = narguses (sc_of st F) /\
    sundeclared (sc_of st2 F) = list_set (sundeclared (sc_of st F)) i w.
  Proof.
    split; [exact InvS_merge|]. split; [exact InvU_merge|]. split; [exact mg_nvars|]. split; [exact mg_nscopes|].
    split; [exact mg_vn|]. split; [exact mg_vd|]. split; [exact mg_root_other|]. split; [exact mg_relabel|].
    split; [exact mg_frame|]. split; [apply mg_fields|]. split; [exact mg_argp|]. rewrite mg_sc_F. split; reflexivity.
  Qed.
End Merge.

(* ---- Move --------------------------------------------------------------------------------------------- *)
Section Move.
  Variables (st : state) (log stk' : list nat) (home : nat -> nat) (F P v : nat) (l' : list nat).
  Hypothesis I : InvS st log stk' home (extraF home F (v :: l')).
  Hypothesis U : InvU st log.
  Hypothesis HP : In P stk'.
  Hypothesis HF : ~ In F stk'.
  Hypothesis HPF : (P < F)%nat.
  Hypothesis Hv : (v < nvars st)%nat.
  Hypothesis Hvroot : is_root st v.
  Hypothesis Hvd : vd st v = 0.
  Hypothesis Hvhome : home v = F.
  Hypothesis Hnone : find (und_pred st home (vn st v)) (sundeclared (sc_of st P)) = None.
  Hypothesis Hnd : ~ In v l'.
  Hypothesis Hpu : forall u, In u l' -> vd st u = 0 -> vn st u = vn st v -> argp st home u = argp st home v -> u = v.

  Let psc := sc_of st P.
  Let st1 := sset st P (set_undeclared psc (sundeclared psc ++ [v])).
  Let home' := fun u => if Nat.eqb u v then P else home u.

  Lemma mv_P : (P < nscopes st)%nat.
  Proof. eapply stack_ok_in; [apply I|exact HP]. Qed.

  Lemma mv_sc q : sc_of st1 q = if Nat.eqb q P then set_undeclared psc (sundeclared psc ++ [v]) else sc_of st q.
  Proof.
    unfold st1. destruct (Nat.eqb_spec q P) as [->|Hne].
    - apply sc_of_sset_same. apply mv_P.
    - apply sc_of_sset_other. congruence.
  Qed.

  Lemma mv_fields q :
    sparent (sc_of st1 q) = sparent (sc_of st q) /\ sfunc (sc_of st1 q) = sfunc (sc_of st q) /\
    sdeclared (sc_of st1 q) = sdeclared (sc_of st q) /\ nfordecls (sc_of st1 q) = nfordecls (sc_of st q) /\
    narguses (sc_of st1 q) = narguses (sc_of st q) /\
    sundeclared (sc_of st1 q) = if Nat.eqb q P then sundeclared psc ++ [v] else sundeclared (sc_of st q).
  Proof. rewrite mv_sc. destruct (Nat.eqb_spec q P) as [->|]; repeat split; reflexivity. Qed.

  Lemma mv_home_other u : u <> v -> home' u = home u.
  Proof. intros H. unfold home'. destruct (Nat.eqb_spec u v); [contradiction|reflexivity]. Qed.

  Lemma mv_home_v : home' v = P.
  Proof. unfold home'. rewrite Nat.eqb_refl. reflexivity. Qed.

  Lemma mv_v_not_und q : In q stk' -> ~ In v (sundeclared (sc_of st q)).
  Proof.
    intros Hq H. destruct (I_und _ _ _ _ _ I q v Hq H) as (_ & Hh & _). specialize (Hh Hvd).
    rewrite Hvhome in Hh. subst q. contradiction.
  Qed.

  Lemma mv_v_not_decl q : (q < nscopes st)%nat -> ~ In v (sdeclared (sc_of st q)).
  Proof. intros Hq H. destruct (I_decl _ _ _ _ _ I q v Hq H) as (_ & D & _). contradiction. Qed.

  Lemma mv_args q : und_args (sc_of st1 q) = und_args (sc_of st q).
  Proof.
    rewrite mv_sc. destruct (Nat.eqb_spec q P) as [->|]; [|reflexivity].
    unfold und_args at 1. cbn [narguses sundeclared set_undeclared]. apply und_args_app. apply (I_marks _ _ _ _ _ I P HP).
  Qed.

  Lemma mv_argp_other u : u <> v -> argp st1 home' u = argp st home u.
  Proof. intros H. apply argp_ext; [apply mv_home_other; exact H|apply mv_args]. Qed.

  Lemma mv_argp_v : argp st1 home' v = false.
  Proof.
    apply (notin_und_args_argp st1 home' P v mv_home_v). rewrite mv_args. intros H. apply in_und_args in H.
    apply (mv_v_not_und P HP H).
  Qed.

  Lemma InvS_move : InvS st1 log stk' home' (extraF home' F l').
  Proof.
    pose proof mv_P as HPn. pose proof I as I'. dI I'.
    assert (Ens : nscopes st1 = nscopes st) by apply nscopes_sset.
    constructor.
    - eapply stack_ok_ext; [exact Istack|rewrite Ens; lia|]. intros q _. apply mv_fields.
    - intros q g. rewrite Ens. destruct (mv_fields q) as (_ & -> & _). apply Ifunc.
    - intros q u. rewrite Ens. destruct (mv_fields q) as (_ & _ & -> & _ & _ & ->). intros Hq [H|H].
      + apply (Ivalid q u Hq). left. exact H.
      + destruct (Nat.eqb_spec q P) as [->|]; [|apply (Ivalid q u Hq); right; exact H].
        apply in_app_last in H. destruct H as [H| ->]; [apply (Ivalid P u Hq); right; exact H|exact Hv].
    - intros u z Hu Hl. change (vget st1 u) with (vget st u) in Hl. destruct (Ilinks u z Hu Hl) as [Hz Hh].
      split; [exact Hz|]. assert (u <> v). { intros ->. unfold is_root in Hvroot. congruence. }
      rewrite (mv_home_other u) by assumption. destruct (Nat.eq_dec z v) as [->|Hzv].
      + rewrite mv_home_v. rewrite Hvhome in Hh. lia.
      + rewrite mv_home_other by exact Hzv. exact Hh.
    - intros u Hu. rewrite Ens. destruct (Nat.eq_dec u v) as [->|Hne]; [rewrite mv_home_v; exact HPn|].
      rewrite mv_home_other by exact Hne. apply Ihomes. exact Hu.
    - exact Ilog.
    - exact Invars.
    - intros q u. rewrite Ens. destruct (mv_fields q) as (_ & _ & -> & _). intros Hq H.
      assert (u <> v) by (intros ->; apply (mv_v_not_decl q Hq H)). rewrite mv_home_other by assumption. apply Idecl; assumption.
    - intros q. rewrite Ens. destruct (mv_fields q) as (_ & _ & -> & _). apply Idnodup.
    - intros r Hr Rr Dr. assert (r <> v). { intros ->. apply Dr. exact Hvd. }
      rewrite mv_home_other by assumption. destruct (mv_fields (home r)) as (_ & _ & -> & _). apply Idcomp; assumption.
    - intros q u Hq. destruct (mv_fields q) as (_ & _ & _ & _ & _ & ->).
      destruct (Nat.eqb_spec q P) as [->|Hne].
      + intros H. apply in_app_last in H. destruct H as [H| ->].
        * assert (u <> v) by (intros ->; apply (mv_v_not_und P Hq H)). rewrite mv_home_other by assumption. apply Iund; assumption.
        * rewrite mv_home_v. split; [exact Hvroot|]. split; [intros _; reflexivity|lia].
      + intros H. assert (u <> v) by (intros ->; apply (mv_v_not_und q Hq H)). rewrite mv_home_other by assumption. apply Iund; assumption.
    - intros q Hq. destruct (mv_fields q) as (_ & _ & _ & _ & _ & ->).
      destruct (Nat.eqb_spec q P) as [->|]; [|apply Iunodup; exact Hq].
      apply nodup_app_last; [apply Iunodup; exact Hq|apply mv_v_not_und; exact Hq].
    - intros q v1 v2 Hq. destruct (mv_fields q) as (_ & _ & _ & _ & _ & ->).
      destruct (Nat.eqb_spec q P) as [->|Hne].
      2:{ intros H1 H2. rewrite (mv_argp_other v1), (mv_argp_other v2) by (intros ->; eapply mv_v_not_und; eassumption).
          apply (Ipuniq q); assumption. }
      intros H1 H2. apply in_app_last in H1. apply in_app_last in H2.
      destruct H1 as [H1| ->], H2 as [H2| ->].
      + rewrite (mv_argp_other v1), (mv_argp_other v2) by (intros ->; eapply mv_v_not_und; eassumption). apply (Ipuniq P); assumption.
      + rewrite (mv_argp_other v1) by (intros ->; eapply mv_v_not_und; eassumption). rewrite mv_argp_v.
        intros _ _ E Ea. exfalso. destruct (find_none_und st home _ _ Hnone v1 H1 E) as [_ Ht]. congruence.
      + rewrite (mv_argp_other v2) by (intros ->; eapply mv_v_not_und; eassumption). rewrite mv_argp_v.
        intros _ _ E Ea. exfalso. destruct (find_none_und st home _ _ Hnone v2 H2 (eq_sym E)) as [_ Ht]. congruence.
      + reflexivity.
    - intros r Hr Rr Dr. destruct (Nat.eq_dec r v) as [->|Hne].
      + left. rewrite mv_home_v. split; [exact HP|]. destruct (mv_fields P) as (_ & _ & _ & _ & _ & ->).
        rewrite Nat.eqb_refl. apply in_app_last. right. reflexivity.
      + rewrite mv_home_other by exact Hne. destruct (Ipcomp r Hr Rr Dr) as [[H1 H2]|[H1 H2]].
        * left. split; [exact H1|]. destruct (mv_fields (home r)) as (_ & _ & _ & _ & _ & ->).
          destruct (Nat.eqb_spec (home r) P) as [E|]; [|exact H2]. apply in_app_last. left. rewrite E in H2. exact H2.
        * right. split; [rewrite mv_home_other by exact Hne; exact H1|]. destruct H2 as [E|H2]; [congruence|exact H2].
    - intros q Hq. destruct (mv_fields q) as (_ & _ & -> & -> & -> & ->). destruct (Imarks q Hq) as [H1 H2]. split; [exact H1|].
      destruct (Nat.eqb_spec q P) as [->|]; [|exact H2]. rewrite len_app_last. unfold psc. lia.
  Qed.

  Lemma mv_same_label_v r :
    (r < nvars st)%nat -> is_root st r -> lab_root st home r = lab_root st home v -> r = v.
  Proof.
    intros Hrv Hrr Hlab. unfold lab_root in Hlab. unfold vd in Hvd. rewrite Hvd in Hlab. cbn in Hlab.
    destruct (Z.eqb_spec (vdecl (vget st r)) 0) as [D|D]; [|destruct (argp st home v); discriminate].
    assert (Hargs : argp st home r = argp st home v /\ home r = home v /\ vname (vget st r) = vname (vget st v)).
    { destruct (argp st home r), (argp st home v); inversion Hlab; repeat split; reflexivity. }
    destruct Hargs as (Ea & Hh & Hn).
    destruct (I_pend_complete _ _ _ _ _ I r Hrv Hrr D) as [[H1 _]|[_ H2]].
    - rewrite Hh, Hvhome in H1. contradiction.
    - destruct H2 as [H2|H2]; [symmetry; exact H2|]. apply Hpu; [exact H2|exact D|exact Hn|exact Ea].
  Qed.

  Lemma mv_relabel :
    map (lab_of st1 home') log = relabel (lab_root st home v) (LPend P (vn st v)) (map (lab_of st home) log).
  Proof.
    unfold relabel. rewrite map_map. apply map_ext_in. intros u Hu.
    assert (Huv : (u < nvars st)%nat) by (apply (I_log _ _ _ _ _ I); exact Hu).
    unfold lab_of. unfold st1. rewrite root_of_sset. fold st1.
    destruct (root_of_spec st home u (I_links _ _ _ _ _ I) (I_homes _ _ _ _ _ I) Huv) as (n & Hre & _ & Hrv & _).
    pose proof (reach_root _ _ _ _ Hre) as Hrr.
    destruct (Nat.eq_dec (root_of st u) v) as [E|E].
    - rewrite E, label_eqb_refl. unfold lab_root. change (vget st1 v) with (vget st v).
      replace (vdecl (vget st v) =? 0) with true by (symmetry; apply Z.eqb_eq; exact Hvd).
      rewrite mv_argp_v, mv_home_v. reflexivity.
    - rewrite label_eqb_neq; [|intros Hlab; apply E; apply mv_same_label_v; assumption].
      apply lab_root_ext; [reflexivity|reflexivity|apply mv_home_other; exact E|apply mv_args].
  Qed.

  Lemma mv_frame_other q : In q stk' -> q <> P -> frame_of st1 home' q = frame_of st home q.
  Proof.
    intros Hq Hne. unfold frame_of. rewrite mv_sc. destruct (Nat.eqb_spec q P) as [|_]; [contradiction|]. f_equal.
    apply map_ext_in. intros u Hu. assert (u <> v) by (intros ->; apply (mv_v_not_und q Hq Hu)).
    apply uent_of_ext; [reflexivity|reflexivity|apply mv_home_other; assumption|apply mv_args].
  Qed.

  Lemma mv_frame_P :
    frame_of st1 home' P = set_fund (frame_of st home P) (fund (frame_of st home P) ++ [UPend (vn st v)]).
  Proof.
    unfold frame_of, set_fund. cbn [fid fisfunc fdecl fund fnarg fnfor]. rewrite mv_sc, Nat.eqb_refl.
    cbn [sfunc sdeclared sundeclared narguses nfordecls set_undeclared]. fold psc. f_equal.
    rewrite map_app. f_equal.
    - apply map_ext_in. intros u Hu. assert (u <> v) by (intros ->; apply (mv_v_not_und P HP Hu)).
      apply uent_of_ext; [reflexivity|reflexivity|apply mv_home_other; assumption|apply mv_args].
    - cbn. unfold uent_of. change (vget st1 v) with (vget st v). unfold vd in Hvd. rewrite Hvd. cbn. rewrite mv_argp_v. reflexivity.
  Qed.

  Lemma move_all :
    InvS st1 log stk' home' (extraF home' F l') /\ InvU st1 log /\
    nvars st1 = nvars st /\ nscopes st1 = nscopes st /\
    (forall u, vget st1 u = vget st u) /\
    (forall u, u <> v -> home' u = home u) /\
    map (lab_of st1 home') log = relabel (lab_root st home v) (LPend P (vn st v)) (map (lab_of st home) log) /\
    frame_of st1 home' P = set_fund (frame_of st home P) (fund (frame_of st home P) ++ [UPend (vn st v)]) /\
    (forall q, In q stk' -> q <> P -> frame_of st1 home' q = frame_of st home q) /\
    (forall q, q <> P -> sc_of st1 q = sc_of st q) /\
    (forall u, u <> v -> argp st1 home' u = argp st home u).
  Proof.
    split; [exact InvS_move|]. split; [apply InvU_sset; exact U|]. split; [reflexivity|]. split; [apply nscopes_sset|].
    split; [reflexivity|]. split; [exact mv_home_other|]. split; [exact mv_relabel|]. split; [exact mv_frame_P|].
    split; [exact mv_frame_other|]. split; [|exact mv_argp_other].
    intros q Hq. rewrite mv_sc. destruct (Nat.eqb_spec q P); [contradiction|reflexivity].
  Qed.
End Move.
