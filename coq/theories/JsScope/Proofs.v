(* JsScope/Proofs.v — the rejections of Declare (clause declare_twice_rejected of C04, used by C03). *)
From Coq Require Import ZifyBool.
From Verif Require Import Common.Base Common.Tactics JsScope.Model JsScope.Spec.

(* ---- small facts ---------------------------------------------------------------------------- *)
Lemma rbind_ok {A B} (r : res A) (f : A -> res B) a : r = Ok a -> rbind r f = f a.
Proof. intros ->. reflexivity. Qed.

Lemma is_hoisting_false decl :
  FunctionDecl < decl -> (decl =? VariableDecl) || (decl =? FunctionDecl) = false.
Proof. unfold FunctionDecl, VariableDecl. intros H. apply orb_false_iff. split; apply Z.eqb_neq; lia. Qed.

(* ---- Declare rejects ------------------------------------------------------------------------- *)

(* (1) a declaration that does not hoist (parameter, let/const/class, catch parameter, expression
   name) of a name already declared in the scope, unless that earlier declaration is the
   function-expression name: Declare returns (nil, false) and changes nothing *)
Lemma declare_twice_rejected_proof :
  forall st s sc decl x v,
    sget st s = Ok sc ->
    FunctionDecl < decl ->
    find_declared st sc x true = Some v ->
    vdecl (vget st v) <> ExprDecl ->
    declare st s decl x = Ok (st, None).
Proof.
  intros st s sc decl x v Hs Hd Hf Hne.
  unfold declare. rewrite (is_hoisting_false decl Hd). rewrite Hs. cbn [rbind]. rewrite Hs. cbn [rbind].
  rewrite Hf.
  replace (FunctionDecl <? decl) with true by (symmetry; apply Z.ltb_lt; exact Hd).
  rewrite orb_true_r. replace (vdecl (vget st v) =? ExprDecl) with false by (symmetry; apply Z.eqb_neq; exact Hne).
  reflexivity.
Qed.

(* (2) var / function in a function scope that already has a let/const/class/catch declaration of
   the name ("let a; var a") *)
Lemma declare_var_over_lexical_rejected_proof :
  forall st s sc decl x v,
    sget st s = Ok sc ->
    sfunc sc = Some s ->
    decl = VariableDecl \/ decl = FunctionDecl ->
    find_declared st sc x true = Some v ->
    ArgumentDecl < vdecl (vget st v) -> vdecl (vget st v) <> ExprDecl ->
    declare st s decl x = Ok (st, None).
Proof.
  intros st s sc decl x v Hs Hf Hd Hfd Hk Hne.
  unfold declare.
  replace ((decl =? VariableDecl) || (decl =? FunctionDecl)) with true.
  2:{ symmetry. apply orb_true_iff. destruct Hd as [-> | ->]; [left|right]; reflexivity. }
  unfold fuel_of. cbn [declare_walk]. rewrite Hs. cbn [rbind]. rewrite Hf. cbn [opt_nat_eqb].
  rewrite Nat.eqb_refl. cbn [rbind]. rewrite Hs. cbn [rbind]. rewrite Hfd.
  replace (ArgumentDecl <? vdecl (vget st v)) with true by (symmetry; apply Z.ltb_lt; exact Hk).
  cbn [orb]. replace (vdecl (vget st v) =? ExprDecl) with false by (symmetry; apply Z.eqb_neq; exact Hne).
  reflexivity.
Qed.

(* (3) var / function inside a block nested in a block that declares the name lexically
   ("{let i; {var i}}"): the walk towards the function scope meets the conflict *)
Inductive walk_conflict (st : state) (decl x : Z) : nat -> nat -> Prop :=
| wc_here s sc v :
    sget st s = Ok sc -> sfunc sc <> Some s ->
    find_declared st sc x false = Some v ->
    vdecl (vget st v) <> decl -> vdecl (vget st v) <> CatchDecl ->
    walk_conflict st decl x s O
| wc_up s sc p n :
    sget st s = Ok sc -> sfunc sc <> Some s ->
    (forall v, find_declared st sc x false = Some v ->
               vdecl (vget st v) = decl \/ vdecl (vget st v) = CatchDecl) ->
    sparent sc = Some p ->
    walk_conflict st decl x p n ->
    walk_conflict st decl x s (S n).

Lemma opt_nat_eqb_false a b : a <> Some b -> opt_nat_eqb a b = false.
Proof.
  destruct a as [a|]; cbn; [|reflexivity]. intros H. apply Nat.eqb_neq. intros ->. apply H. reflexivity.
Qed.

Lemma declare_walk_conflict st decl x s n fuel :
  walk_conflict st decl x s n -> (n < fuel)%nat -> declare_walk fuel st s decl x = Ok None.
Proof.
  intros H. revert fuel. induction H as [s sc v Hs Hnf Hf Hk Hc | s sc p n Hs Hnf Hok Hp Hw IH]; intros fuel Hlt.
  - destruct fuel as [|f]; [lia|]. cbn [declare_walk]. rewrite Hs. cbn [rbind].
    rewrite (opt_nat_eqb_false _ _ Hnf). rewrite Hf.
    replace (vdecl (vget st v) =? decl) with false by (symmetry; apply Z.eqb_neq; exact Hk).
    replace (vdecl (vget st v) =? CatchDecl) with false by (symmetry; apply Z.eqb_neq; exact Hc).
    reflexivity.
  - destruct fuel as [|f]; [lia|]. cbn [declare_walk]. rewrite Hs. cbn [rbind].
    rewrite (opt_nat_eqb_false _ _ Hnf).
    assert (Hnc : match find_declared st sc x false with
                  | Some v => negb (vdecl (vget st v) =? decl) && negb (vdecl (vget st v) =? CatchDecl)
                  | None => false end = false).
    { destruct (find_declared st sc x false) as [v|] eqn:E; [|reflexivity].
      destruct (Hok v eq_refl) as [H1 | H1]; rewrite H1.
      - rewrite Z.eqb_refl. reflexivity.
      - rewrite (Z.eqb_refl CatchDecl). apply andb_false_r. }
    rewrite Hnc. rewrite Hp. apply IH. lia.
Qed.

Lemma declare_var_through_block_rejected_proof :
  forall st s decl x n,
    decl = VariableDecl \/ decl = FunctionDecl ->
    walk_conflict st decl x s n -> (n <= length (scopes st))%nat ->
    declare st s decl x = Ok (st, None).
Proof.
  intros st s decl x n Hd Hw Hn. unfold declare.
  replace ((decl =? VariableDecl) || (decl =? FunctionDecl)) with true.
  2:{ symmetry. apply orb_true_iff. destruct Hd as [-> | ->]; [left|right]; reflexivity. }
  rewrite (declare_walk_conflict st decl x s n (fuel_of st) Hw) by (unfold fuel_of; lia).
  reflexivity.
Qed.

(* ---- at the level of the parser's events ------------------------------------------------------ *)

(* the declared list of the current scope reaches at least to the loop-head mark *)
Definition for_mark_ok (p : pstate) : Prop :=
  forall c sc, pcur p = Some c -> sget (pst p) c = Ok sc -> nfordecls sc <= len (sdeclared sc).

Lemma nth_error_list_set_same {A} (l : list A) i a : (i < length l)%nat -> nth_error (list_set l i a) i = Some a.
Proof.
  revert i. induction l as [|h t IH]; intros i H; [cbn in H; lia|].
  destruct i as [|i]; cbn; [reflexivity|]. apply IH. cbn in H. lia.
Qed.

Lemma nth_error_list_set_other {A} (l : list A) i j a : i <> j -> nth_error (list_set l i a) j = nth_error l j.
Proof.
  revert i j. induction l as [|h t IH]; intros i j H; [destruct i; reflexivity|].
  destruct i as [|i], j as [|j]; cbn; try reflexivity; try congruence. apply IH. congruence.
Qed.

Lemma length_list_set {A} (l : list A) i a : length (list_set l i a) = length l.
Proof. revert i. induction l as [|h t IH]; intros [|i]; cbn; try reflexivity. rewrite IH. reflexivity. Qed.

Lemma sget_Ok st s sc : sget st s = Ok sc <-> nth_error (scopes st) s = Some sc.
Proof. unfold sget. destruct (nth_error (scopes st) s); split; intros H; congruence. Qed.

(* find in the reversed tail finds the appended element first *)
Lemma find_rev_app_last {A} (f : A -> bool) l a : f a = true -> find f (rev (l ++ [a])) = Some a.
Proof. intros H. rewrite rev_app_distr. cbn. rewrite H. reflexivity. Qed.

Lemma skipn_app_le {A} n (l : list A) a : (n <= length l)%nat -> skipn n (l ++ [a]) = skipn n l ++ [a].
Proof.
  intros H. rewrite skipn_app. replace (n - length l)%nat with O by lia. reflexivity.
Qed.

(* Examples: the hypotheses are satisfiable, on the states the parser really builds *)
Definition run_events (evs : list event) : outcome := prun init_pstate evs.

(* "let a; let a" *)
Example ex_lexical_twice :
  run_events [EEnter true; EDeclare LexicalDecl 7; EDeclare LexicalDecl 7] = Rejected.
Proof. vm_compute. reflexivity. Qed.

(* "var a; let a" / "let a; var a" / "function f(a){let a}" *)
Example ex_var_let : run_events [EEnter true; EDeclare VariableDecl 7; EDeclare LexicalDecl 7] = Rejected.
Proof. vm_compute. reflexivity. Qed.
Example ex_let_var : run_events [EEnter true; EDeclare LexicalDecl 7; EDeclare VariableDecl 7] = Rejected.
Proof. vm_compute. reflexivity. Qed.
Example ex_param_let :
  run_events [EEnter true; EEnter true; EDeclare ArgumentDecl 7; EMarkArgs; EDeclare LexicalDecl 7] = Rejected.
Proof. vm_compute. reflexivity. Qed.

(* "{let i; {var i}}" *)
Example ex_let_block_var :
  run_events [EEnter true; EEnter false; EDeclare LexicalDecl 7; EEnter false; EDeclare VariableDecl 7] = Rejected.
Proof. vm_compute. reflexivity. Qed.

(* the same through the three lemmas, on the state reached by the parser *)
Definition state_after (evs : list event) : pstate :=
  match run_events evs with Running p => p | _ => init_pstate end.

Example ex_twice_hyps :
  let p := state_after [EEnter true; EDeclare LexicalDecl 7] in
  exists sc v, sget (pst p) O = Ok sc /\ find_declared (pst p) sc 7 true = Some v
               /\ vdecl (vget (pst p) v) <> ExprDecl.
Proof. vm_compute. eexists. eexists. split; [reflexivity|]. split; [reflexivity|]. discriminate. Qed.

Example ex_walk_hyps :
  let p := state_after [EEnter true; EEnter false; EDeclare LexicalDecl 7; EEnter false] in
  walk_conflict (pst p) VariableDecl 7 2 1 /\ (1 <= length (scopes (pst p)))%nat.
Proof.
  split; [|vm_compute; lia].
  eapply wc_up with (p := 1%nat); try (vm_compute; reflexivity).
  - vm_compute. discriminate.
  - intros v H. vm_compute in H. discriminate.
  - eapply wc_here; try (vm_compute; reflexivity); vm_compute; discriminate.
Qed.

(* "function f(a,a){}" is rejected too: (argument, argument) is not in the allowed table *)
Example ex_param_twice :
  run_events [EEnter true; EEnter true; EDeclare ArgumentDecl 7; EDeclare ArgumentDecl 7] = Rejected.
Proof. vm_compute. reflexivity. Qed.

(* not rejected, by design: var after var, function after var, var after parameter,
   anything after the function-expression name *)
Example ex_var_var : exists p, run_events [EEnter true; EDeclare VariableDecl 7; EDeclare VariableDecl 7] = Running p.
Proof. vm_compute. eexists. reflexivity. Qed.
Example ex_expr_let :
  exists p, run_events [EEnter true; EEnter true; EDeclare ExprDecl 7; EMarkArgs; EDeclare LexicalDecl 7] = Running p.
Proof. vm_compute. eexists. reflexivity. Qed.

(* a let AFTER a var that was hoisted out of a nested block is not detected (ECMAScript: early
   error) — stated so that C03 does not rely on it *)
Example ex_block_var_then_let_accepted :
  exists p, run_events [EEnter true; EEnter false; EEnter false; EDeclare VariableDecl 7; EExit;
                        EDeclare LexicalDecl 7] = Running p.
Proof. vm_compute. eexists. reflexivity. Qed.

(* ---- class static blocks ------------------------------------------------------------------------------------------ *)
(* parseClassElement opens a FUNCTION scope for a static block (enterScope(.., true)), parses the statement list and
   exits; binding programs write it as a function without parameters, Func None Done b, whose linearisation has a
   MarkFuncArgs after the enterScope.  On a scope just entered MarkFuncArgs changes nothing: *)
Lemma list_set_last {A} (l : list A) x y : list_set (l ++ [x]) (length l) y = l ++ [y].
Proof. induction l as [|a t IH]; cbn; [reflexivity|]. rewrite IH. reflexivity. Qed.

Lemma static_block_mark_noop p :
  match enter_scope p true with
  | Ok p1 => pstep p1 EMarkArgs = Running p1
  | _ => True
  end.
Proof.
  unfold enter_scope. cbn [rbind salloc fst]. destruct p as [[vs scs] cur log]. cbn [pst pcur plog scopes vars].
  cbn [pstep pcur pst plog]. unfold mark_args, sget. cbn [scopes].
  rewrite nth_error_app2 by lia. rewrite Nat.sub_diag. cbn [nth_error rbind of_res].
  unfold sset. cbn [vars scopes sparent sfunc sdeclared sundeclared nfordecls nfuncargs narguses].
  rewrite list_set_last. reflexivity.
Qed.

(* the mark after a catch parameter, on a scope just entered (catch { } without parameter): nothing changes *)
Lemma catch_mark_noop p :
  match enter_scope p false with
  | Ok p1 => pstep p1 EMarkCatch = Running p1
  | _ => True
  end.
Proof.
  unfold enter_scope. destruct p as [[vs scs] cur log]. cbn [pst pcur plog scopes vars].
  destruct cur as [q|]; cbn [rbind].
  - unfold sget. cbn [scopes]. destruct (nth_error scs q) as [psc|]; [|exact I]. cbn [rbind salloc fst].
    cbn [pstep pcur pst plog]. unfold mark_catch, sget. cbn [scopes].
    rewrite nth_error_app2 by lia. rewrite Nat.sub_diag. cbn [nth_error rbind of_res].
    unfold sset. cbn [vars scopes sparent sfunc sdeclared sundeclared nfordecls nfuncargs narguses].
    rewrite list_set_last. reflexivity.
  - cbn [salloc fst pstep pcur pst plog]. unfold mark_catch, sget. cbn [scopes].
    rewrite nth_error_app2 by lia. rewrite Nat.sub_diag. cbn [nth_error rbind of_res].
    unfold sset. cbn [vars scopes sparent sfunc sdeclared sundeclared nfordecls nfuncargs narguses].
    rewrite list_set_last. reflexivity.
Qed.
