(* JsScope/AuxFree.v — programs without function-expression names, loops and class-expression names have no
   auxiliary scopes: every target of the declarative resolver is in a main scope, and [aux_distinct] holds. *)
From Verif Require Import Common.Base JsScope.Model JsScope.Spec JsScope.Bridge.

Fixpoint plain (p : prog) : bool :=
  match p with
  | Done => true
  | Ref _ k | PRef _ k | Decl _ _ k => plain k
  | Block b k => plain b && plain k
  | Func None ps b k => plain ps && plain b && plain k
  | Func (Some _) _ _ _ => false
  | Arrow ps b k => plain ps && plain b && plain k
  | ArrowId _ b k => plain b && plain k
  | Paren h k => plain h && plain k
  | For _ _ _ => false
  | Catch h b k => plain h && plain b && plain k
  | Class None ms k => plain ms && plain k
  | Class (Some _) _ _ => false
  end.

Definition noaux (t : target) : Prop := erase t = t.
Definition env_noaux (e : env) : Prop := forall s a L, In (s, a, L) e -> a = false.

Lemma lookup_noaux e x : env_noaux e -> noaux (lookup e x).
Proof.
  induction e as [|[[s a] L] t IH]; intros H; [reflexivity|]. cbn [lookup]. destruct (mem x L).
  - rewrite (H s a L (or_introl eq_refl)). reflexivity.
  - apply IH. intros s' a' L' Hin. apply (H s' a' L'). right. exact Hin.
Qed.

Lemma env_noaux_push e s L : env_noaux e -> env_noaux ((s, false, L) :: e).
Proof. intros H s' a' L' [E|Hin]; [inversion E; reflexivity|apply (H s' a' L' Hin)]. Qed.

Ltac andbs := repeat match goal with H : _ && _ = true |- _ => apply andb_true_iff in H; destruct H end.

Lemma resolve_noaux p : plain p = true -> forall e fs cur n, env_noaux e -> Forall noaux (fst (resolve e fs cur false n p)).
Proof.
  induction p; cbn [plain]; intros Hp e fs cur n He; try discriminate; cbn [resolve].
  - constructor.
  - specialize (IHp Hp e fs cur n He). destruct (resolve e fs cur false n p). constructor; [apply lookup_noaux; exact He|exact IHp].
  - specialize (IHp Hp e fs cur n He). destruct (resolve e fs cur false n p). constructor; [apply lookup_noaux; exact He|exact IHp].
  - specialize (IHp Hp e fs cur n He). destruct (resolve e fs cur false n p). constructor; [|exact IHp]. destruct (is_var d); reflexivity.
  - andbs. specialize (IHp1 ltac:(assumption) ((n, false, lexdecls p1) :: e) fs n (S n) (env_noaux_push e n _ He)).
    destruct (resolve ((n, false, lexdecls p1) :: e) fs n false (S n) p1) as [rb n1].
    specialize (IHp2 ltac:(assumption) e fs cur n1 He). destruct (resolve e fs cur false n1 p2). cbn [fst] in *.
    apply Forall_app. split; assumption.
  - destruct nm; [discriminate|]. andbs.
    specialize (IHp1 ltac:(assumption) ((n, false, headdecls p1) :: e) n n (S n) (env_noaux_push e n _ He)).
    destruct (resolve ((n, false, headdecls p1) :: e) n n false (S n) p1) as [rp n1].
    specialize (IHp2 ltac:(assumption) ((n, false, headdecls p1 ++ vardecls p2 ++ lexdecls p2) :: e) n n n1 (env_noaux_push e n _ He)).
    destruct (resolve ((n, false, headdecls p1 ++ vardecls p2 ++ lexdecls p2) :: e) n n false n1 p2) as [rb n2].
    specialize (IHp3 ltac:(assumption) e fs cur n2 He). destruct (resolve e fs cur false n2 p3). cbn [fst app] in *.
    apply Forall_app. split; [assumption|]. apply Forall_app. split; assumption.
  - andbs.
    specialize (IHp1 ltac:(assumption) ((n, false, headdecls p1) :: e) n n (S n) (env_noaux_push e n _ He)).
    destruct (resolve ((n, false, headdecls p1) :: e) n n false (S n) p1) as [rp n1].
    specialize (IHp2 ltac:(assumption) ((n, false, headdecls p1 ++ vardecls p2 ++ lexdecls p2) :: e) n n n1 (env_noaux_push e n _ He)).
    destruct (resolve ((n, false, headdecls p1 ++ vardecls p2 ++ lexdecls p2) :: e) n n false n1 p2) as [rb n2].
    specialize (IHp3 ltac:(assumption) e fs cur n2 He). destruct (resolve e fs cur false n2 p3). cbn [fst] in *.
    apply Forall_app. split; [assumption|]. apply Forall_app. split; assumption.
  - andbs.
    specialize (IHp1 ltac:(assumption) ((n, false, [x] ++ vardecls p1 ++ lexdecls p1) :: e) n n (S n) (env_noaux_push e n _ He)).
    destruct (resolve ((n, false, [x] ++ vardecls p1 ++ lexdecls p1) :: e) n n false (S n) p1) as [rb n1].
    specialize (IHp2 ltac:(assumption) e fs cur n1 He). destruct (resolve e fs cur false n1 p2). cbn [fst] in *.
    constructor; [reflexivity|]. apply Forall_app. split; assumption.
  - andbs. specialize (IHp1 ltac:(assumption) e fs cur (S n) He). destruct (resolve e fs cur false (S n) p1) as [rh n1].
    specialize (IHp2 ltac:(assumption) e fs cur n1 He). destruct (resolve e fs cur false n1 p2). cbn [fst] in *.
    apply Forall_app. split; assumption.
  - andbs.
    specialize (IHp1 ltac:(assumption) ((n, false, headdecls p1) :: e) fs n (S n) (env_noaux_push e n _ He)).
    destruct (resolve ((n, false, headdecls p1) :: e) fs n false (S n) p1) as [rh n1].
    specialize (IHp2 ltac:(assumption) ((n, false, headdecls p1 ++ lexdecls p2) :: e) fs n n1 (env_noaux_push e n _ He)).
    destruct (resolve ((n, false, headdecls p1 ++ lexdecls p2) :: e) fs n false n1 p2) as [rb n2].
    specialize (IHp3 ltac:(assumption) e fs cur n2 He). destruct (resolve e fs cur false n2 p3). cbn [fst] in *.
    apply Forall_app. split; [assumption|]. apply Forall_app. split; assumption.
  - destruct nm; [discriminate|]. andbs.
    specialize (IHp1 ltac:(assumption) e fs n (S n) He). destruct (resolve e fs n false (S n) p1) as [rm n1].
    specialize (IHp2 ltac:(assumption) e fs cur n1 He). destruct (resolve e fs cur false n1 p2). cbn [fst app] in *.
    apply Forall_app. split; assumption.
Qed.

Lemma noaux_distinct ts : Forall noaux ts -> aux_distinct ts = true.
Proof.
  intros H. unfold aux_distinct. apply forallb_forall. intros t Ht. rewrite Forall_forall in H. specialize (H t Ht).
  destruct t as [x|s [|] x]; [reflexivity| |reflexivity]. unfold noaux in H. cbn in H. discriminate.
Qed.

Lemma noaux_erase ts : Forall noaux ts -> map erase ts = ts.
Proof. induction 1 as [|t l Ht _ IH]; [reflexivity|]. cbn. rewrite Ht, IH. reflexivity. Qed.

Lemma params_only_plain p : params_only p = true -> plain p = true.
Proof. induction p; cbn; intros H; try discriminate; [reflexivity|]. destruct d; try discriminate. apply IHp. exact H. Qed.

Lemma catch_params_only_plain p : catch_params_only p = true -> plain p = true.
Proof. induction p; cbn; intros H; try discriminate; [reflexivity|]. destruct d; try discriminate. apply IHp. exact H. Qed.

Lemma core_d_plain p : (core_d p = true -> plain p = true) /\ (pcore_d p = true -> plain p = true).
Proof.
  induction p; (split; [cbn [core_d]|cbn [pcore_d]]); cbn [plain]; intros H; try discriminate; try reflexivity.
  - apply (proj1 IHp). exact H.
  - andbs. apply (proj2 IHp). assumption.
  - andbs. apply (proj1 IHp). assumption.
  - destruct d; try discriminate. apply (proj2 IHp). exact H.
  - andbs. rewrite (proj1 IHp1), (proj1 IHp2) by assumption. reflexivity.
  - destruct nm; [discriminate|]. andbs. rewrite (proj2 IHp1), (proj1 IHp2), (proj1 IHp3) by assumption. reflexivity.
  - destruct nm; [discriminate|]. andbs. rewrite (proj2 IHp1), (proj1 IHp2), (proj2 IHp3) by assumption. reflexivity.
  - andbs. rewrite (proj2 IHp1), (proj1 IHp2), (proj1 IHp3) by assumption. reflexivity.
  - andbs. rewrite (proj2 IHp1), (proj1 IHp2), (proj2 IHp3) by assumption. reflexivity.
  - andbs. rewrite (catch_params_only_plain p1), (proj1 IHp2), (proj1 IHp3) by assumption. reflexivity.
  - destruct nm; [discriminate|]. andbs. rewrite (proj1 IHp1), (proj1 IHp2) by assumption. reflexivity.
  - destruct nm; [discriminate|]. andbs. rewrite (proj1 IHp1), (proj2 IHp2) by assumption. reflexivity.
Qed.

Theorem core_d_aux_distinct p : core_d p = true -> aux_distinct (spec_resolve p) = true /\ map erase (spec_resolve p) = spec_resolve p.
Proof.
  intros H. assert (F : Forall noaux (spec_resolve p)).
  { apply resolve_noaux; [apply (proj1 (core_d_plain p)); exact H|]. intros s a L [E|[]]. inversion E. reflexivity. }
  split; [apply noaux_distinct; exact F|apply noaux_erase; exact F].
Qed.

Lemma catch_params_only_hcore p : catch_params_only p = true -> hcore_x true p = true.
Proof. induction p; cbn; intros H; try discriminate; [reflexivity|]. destruct d; try discriminate. apply IHp. exact H. Qed.

(* the smaller fragment is part of the larger one *)
Lemma core_d_core_x p : (core_d p = true -> core_x p = true) /\ (pcore_d p = true -> pcore_x p = true).
Proof.
  induction p; (split; [cbn [core_d core_x]|cbn [pcore_d hcore_x]]); intros H; try discriminate; try reflexivity.
  - apply (proj1 IHp). exact H.
  - andbs. rewrite (proj2 IHp) by assumption. rewrite andb_true_r. assumption.
  - andbs. rewrite (proj1 IHp) by assumption. rewrite andb_true_r. assumption.
  - destruct d; try discriminate. apply (proj2 IHp). exact H.
  - andbs. rewrite (proj1 IHp1), (proj1 IHp2) by assumption. reflexivity.
  - destruct nm; [discriminate|]. andbs. rewrite (proj2 IHp1), (proj1 IHp2), (proj1 IHp3) by assumption.
    reflexivity.
  - destruct nm; [discriminate|]. andbs. rewrite (proj2 IHp1), (proj1 IHp2), (proj2 IHp3) by assumption.
    repeat match goal with H : ?b = true |- context [?b] => rewrite H end. reflexivity.
  - andbs. rewrite (proj2 IHp1), (proj1 IHp2), (proj1 IHp3) by assumption. reflexivity.
  - andbs. rewrite (proj2 IHp1), (proj1 IHp2), (proj2 IHp3) by assumption.
    repeat match goal with H : ?b = true |- context [?b] => rewrite H end. reflexivity.
  - andbs. rewrite (catch_params_only_hcore p1), (proj1 IHp2), (proj1 IHp3) by assumption.
    repeat match goal with H : ?b = true |- context [?b] => rewrite H end. reflexivity.
  - destruct nm; [discriminate|]. andbs. rewrite (proj1 IHp1), (proj1 IHp2) by assumption.
    repeat match goal with H : ?b = true |- context [?b] => rewrite H end. reflexivity.
  - destruct nm; [discriminate|]. andbs. rewrite (proj1 IHp1), (proj2 IHp2) by assumption.
    repeat match goal with H : ?b = true |- context [?b] => rewrite H end. reflexivity.
Qed.
