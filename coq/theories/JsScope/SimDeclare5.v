(* JsScope/SimDeclare5.v — Scope.Declare is simulated by a_declare. *)
From Coq Require Import ZifyBool.
From Verif Require Import Common.Base Common.Tactics JsScope.Model JsScope.Abs JsScope.HeapLemmas
  JsScope.SimDefs JsScope.SimUse JsScope.SimDeclare JsScope.SimDeclare2 JsScope.SimDeclare3 JsScope.SimDeclare4.

Lemma skipn_map' {A B} (f : A -> B) n (l : list A) : skipn n (map f l) = map f (skipn n l).
Proof. revert l. induction n as [|n IH]; intros l; [reflexivity|]. destruct l; [reflexivity|]. apply IH. Qed.

Lemma adopt_state_eq st t k uv decl :
  (uv < nvars st)%nat -> (t < nscopes st)%nat ->
  let sc := sc_of st t in
  let sc1 := set_undeclared sc (remove_at (sundeclared sc) k) in
  let st_a := sset st t sc1 in
  let st_b := vset st_a uv (set_decl (vget st_a uv) decl) in
  let st_c := vset st_b uv (set_uses (vget st_b uv) (u16 (vuses (vget st_b uv) + 1))) in
  let st2 := sset (vset st uv (set_decl (vget st uv) decl)) t
                  (set_declared (set_undeclared sc (remove_at (sundeclared sc) k)) (sdeclared sc ++ [uv])) in
  sget st_c t = Ok sc1 /\
  sset st_c t (set_declared sc1 (sdeclared sc1 ++ [uv]))
  = vset st2 uv (set_uses (vget st2 uv) (u16 (vuses (vget st2 uv) + 1))).
Proof.
  intros Huv Ht sc sc1 st_a st_b st_c st2.
  assert (Ea : vget st_a uv = vget st uv) by reflexivity.
  assert (Eb : vget st_b uv = set_decl (vget st uv) decl).
  { unfold st_b. rewrite vget_vset_same; [rewrite Ea; reflexivity|]. unfold st_a. rewrite nvars_sset. exact Huv. }
  assert (E2 : vget st2 uv = set_decl (vget st uv) decl).
  { unfold st2. rewrite vget_sset. apply vget_vset_same. exact Huv. }
  split.
  - assert (Hn : (t < nscopes st_c)%nat).
    { unfold st_c, st_b. rewrite !nscopes_vset. unfold st_a. rewrite nscopes_sset. exact Ht. }
    rewrite (sget_valid st_c t Hn). f_equal. unfold st_c, st_b. rewrite !sc_of_vset. unfold st_a.
    apply sc_of_sset_same. exact Ht.
  - rewrite E2. unfold st_c. rewrite Eb. unfold st_b. rewrite Ea. rewrite vset_vset.
    unfold st_a. rewrite vset_sset_comm. rewrite sset_sset. unfold st2.
    rewrite vset_sset_comm. rewrite vset_vset. reflexivity.
Qed.

Lemma sim_declare_at st log stk home c decl x spre t spost :
  InvS st log stk home no_extra -> InvU st log -> len log < 65535 -> decl <> 0 ->
  stk = spre ++ t :: spost -> hd_error stk = Some c ->
  match a_declare_at (abs st log stk home) (map (frame_of st home) spre) (frame_of st home t)
                     (map (frame_of st home) spost) decl x with
  | AStuck => True
  | ARej => declare_at st c t decl x = Ok (st, None)
  | ARun a' =>
      exists st' v home', declare_at st c t decl x = Ok (st', Some v) /\
        InvS st' (v :: log) stk home' no_extra /\ InvU st' (v :: log) /\ a' = abs st' (v :: log) stk home'
  end.
Proof.
  intros I U Hlen Hdecl Hsplit Hhd.
  assert (Ht : In t stk) by (rewrite Hsplit; apply in_app_iff; right; left; reflexivity).
  assert (Htn : (t < nscopes st)%nat) by (eapply stack_ok_in; [apply I|exact Ht]).
  destruct (I_marks _ _ _ _ _ I t Ht) as [Hfor Hnarg].
  unfold a_declare_at, declare_at. rewrite (sget_valid st t Htn). cbn [rbind].
  assert (Efor : existsb (fun e => fst e =? x) (firstn (fnfor (frame_of st home t)) (fdecl (frame_of st home t)))
                 = existsb (fun v => vname (vget st v) =? x) (firstn (Z.to_nat (nfordecls (sc_of st t))) (sdeclared (sc_of st t)))).
  { unfold frame_of. cbn [fnfor fdecl]. rewrite firstn_map.
    generalize (firstn (Z.to_nat (nfordecls (sc_of st t))) (sdeclared (sc_of st t))). intros l0.
    induction l0 as [|v0 l0 IHl]; [reflexivity|]. cbn [map existsb nk fst]. rewrite IHl. reflexivity. }
  rewrite Efor. clear Efor.
  destruct (existsb (fun v => vname (vget st v) =? x) (firstn (Z.to_nat (nfordecls (sc_of st t))) (sdeclared (sc_of st t)))) eqn:Efor;
    [exact Logic.I|].
  rewrite a_find_decl_frame. rewrite (find_declared_skip st (sc_of st t) x Efor).
  destruct (find (fun v => vname (vget st v) =? x) (rev (sdeclared (sc_of st t)))) as [v|] eqn:Efind.
  - (* already declared in the target scope *)
    apply find_some_name in Efind. destruct Efind as [Hin Hname]. apply in_rev in Hin.
    destruct (I_decl _ _ _ _ _ I t v Htn Hin) as (Hroot & Hd & Hh).
    assert (Hv : (v < nvars st)%nat) by (apply (I_valid _ _ _ _ _ I t v Htn); left; exact Hin).
    cbn [option_map nk].
    destruct (vdecl (vget st v) =? ExprDecl) eqn:Eexpr; [exact Logic.I|].
    destruct ((ArgumentDecl <? vdecl (vget st v)) || (FunctionDecl <? decl)) eqn:Erej; cbn [andb negb]; [reflexivity|].
    set (st1 := vset st v (set_uses (vget st v) (u16 (vuses (vget st v) + 1)))).
    assert (Hsh : same_shape st st1) by apply same_shape_set_uses.
    assert (I1 : InvS st1 (v :: log) stk home no_extra).
    { apply InvS_log_cons; [apply (InvS_same_shape _ _ _ _ _ _ Hsh I)|]. unfold st1. rewrite nvars_vset. exact Hv. }
    assert (U1 : InvU st1 (v :: log)) by (apply InvU_incr; assumption).
    assert (F6 : (v < nvars st1)%nat) by (unfold st1; rewrite nvars_vset; exact Hv).
    assert (F7 : is_root st1 v) by (apply (is_root_same_shape _ _ _ Hsh); exact Hroot).
    assert (F8 : vd st1 v <> 0).
    { unfold vd. destruct Hsh as (_ & _ & Hs). destruct (Hs v) as (_ & -> & _). exact Hd. }
    assert (F10 : vn st1 v = x).
    { unfold vn. destruct Hsh as (_ & _ & Hs). destruct (Hs v) as (-> & _). exact Hname. }
    assert (F11 : nscopes st1 = nscopes st) by (apply nscopes_same_shape; exact Hsh).
    assert (F12 : forall q, In q stk -> q <> t -> frame_of st1 home q = frame_of st home q)
      by (intros q _ _; apply frame_of_same_shape; exact Hsh).
    assert (F13 : frame_of st1 home t = frame_of st home t) by (apply frame_of_same_shape; exact Hsh).
    assert (F14 : map (lab_of st1 home) (v :: log) = LDecl t x :: map (lab_of st home) log).
    { cbn [map]. f_equal.
      - rewrite (lab_of_same_shape _ _ _ _ Hsh). rewrite lab_of_root by exact Hroot. unfold lab_root. unfold vd in Hd.
        replace (vdecl (vget st v) =? 0) with false by (symmetry; apply Z.eqb_neq; exact Hd). rewrite Hh, Hname. reflexivity.
      - apply map_ext. intros w. apply lab_of_same_shape. exact Hsh. }
    destruct (finish_declare st home stk c x spre t spost st1 (v :: log) home v (frame_of st home t)
                (LDecl t x :: map (lab_of st home) log) I1 U1 (I_stack _ _ _ _ _ I) Hsplit Hhd F6 F7 F8 Hh F10 F11 F12 F13 F14)
      as (st' & Hrun & I' & U' & Habs).
    exists st', v, home. fold st1. rewrite Hrun. cbn [rbind]. split; [reflexivity|]. split; [exact I'|]. split; [exact U'|].
    rewrite Habs. reflexivity.
  - (* not declared yet *)
    cbn [option_map].
    assert (Hfresh : forall v, In v (sdeclared (sc_of st t)) -> vn st v <> x).
    { intros v Hv. apply (find_none_name st _ x Efind v). apply -> in_rev. exact Hv. }
    replace (len (sundeclared (sc_of st t)) <? narguses (sc_of st t)) with false by (symmetry; apply Z.ltb_ge; lia).
    change (fnarg (frame_of st home t)) with (Z.to_nat (narguses (sc_of st t))).
    change (fund (frame_of st home t)) with (map (uent_of st home) (sundeclared (sc_of st t))).
    change (fid (frame_of st home t)) with t.
    rewrite skipn_map'.
    pose proof (find_reuse_sim st home x (skipn (Z.to_nat (narguses (sc_of st t))) (sundeclared (sc_of st t))) O) as Hreuse.
    assert (Hreuse' : decl =? ArgumentDecl = false ->
      match find_reuse st x (skipn (Z.to_nat (narguses (sc_of st t))) (sundeclared (sc_of st t))) 0 with
      | Some (j, uv) =>
          a_find_reuse x (map (uent_of st home) (skipn (Z.to_nat (narguses (sc_of st t))) (sundeclared (sc_of st t)))) 0 = Some j /\
          nth_error (sundeclared (sc_of st t)) (Z.to_nat (narguses (sc_of st t)) + j) = Some uv /\ vd st uv = 0 /\ vn st uv = x
      | None => a_find_reuse x (map (uent_of st home) (skipn (Z.to_nat (narguses (sc_of st t))) (sundeclared (sc_of st t)))) 0 = None
      end).
    { intros _. assert (Hu : forall v, In v (skipn (Z.to_nat (narguses (sc_of st t))) (sundeclared (sc_of st t))) -> 1 <= vuses (vget st v)).
      { intros v Hv. apply (I_uses _ _ U). apply (I_valid _ _ _ _ _ I t v Htn). right.
        rewrite <- (firstn_skipn (Z.to_nat (narguses (sc_of st t)))). apply in_app_iff. right. exact Hv. }
      assert (Hna : forall v, In v (skipn (Z.to_nat (narguses (sc_of st t))) (sundeclared (sc_of st t))) -> vd st v = 0 -> argp st home v = false).
      { intros v Hv Hd0.
        assert (Hin : In v (sundeclared (sc_of st t))).
        { rewrite <- (firstn_skipn (Z.to_nat (narguses (sc_of st t)))). apply in_app_iff. right. exact Hv. }
        destruct (I_und _ _ _ _ _ I t v Ht Hin) as (_ & Hh & _). apply (notin_und_args_argp st home t v (Hh Hd0)).
        intros Hfa. pose proof (I_und_nodup _ _ _ _ _ I t Ht) as Hnd. rewrite (und_split (sc_of st t)) in Hnd.
        apply (NoDup_app_disj _ _ Hnd v Hfa Hv). }
      specialize (Hreuse Hu Hna). destruct (find_reuse st x _ 0) as [[j uv]|]; [|exact Hreuse].
      destruct Hreuse as (H1 & _ & H3 & H4 & H5). split; [exact H1|]. split; [|split; assumption].
      rewrite <- nth_error_skipn. replace j with (j - 0)%nat at 1 by lia. exact H3. }
    clear Hreuse.
    assert (Hcase :
      (exists j uv, (if decl =? ArgumentDecl then None
                     else a_find_reuse x (map (uent_of st home) (skipn (Z.to_nat (narguses (sc_of st t))) (sundeclared (sc_of st t)))) 0) = Some j /\
                    (if decl =? ArgumentDecl then Ok None
                     else Ok (find_reuse st x (skipn (Z.to_nat (narguses (sc_of st t))) (sundeclared (sc_of st t))) 0)) = Ok (Some (j, uv)) /\
                    nth_error (sundeclared (sc_of st t)) (Z.to_nat (narguses (sc_of st t)) + j) = Some uv /\ vd st uv = 0 /\ vn st uv = x)
      \/ ((if decl =? ArgumentDecl then None
           else a_find_reuse x (map (uent_of st home) (skipn (Z.to_nat (narguses (sc_of st t))) (sundeclared (sc_of st t)))) 0) = None /\
          (if decl =? ArgumentDecl then Ok None
           else Ok (find_reuse st x (skipn (Z.to_nat (narguses (sc_of st t))) (sundeclared (sc_of st t))) 0)) = @Ok (option (nat * nat)) None)).
    { destruct (decl =? ArgumentDecl) eqn:Earg; [right; split; reflexivity|].
      specialize (Hreuse' eq_refl). destruct (find_reuse st x _ 0) as [[j uv]|].
      - left. exists j, uv. destruct Hreuse' as (H1 & H2 & H3 & H4). repeat split; assumption.
      - right. split; [exact Hreuse'|reflexivity]. }
    destruct Hcase as [(j & uv & Ea & Em & Hk & Hdr & Hnr)|[Ea Em]]; rewrite Ea, Em; cbn [rbind].
    + (* adoption of an unresolved use *)
      set (k := (Z.to_nat (narguses (sc_of st t)) + j)%nat) in *.
      assert (Hnk : (Z.to_nat (narguses (sc_of st t)) <= k)%nat) by (unfold k; lia).
      destruct (adopt_all st log stk t home x decl k uv I U Ht Hk Hdr Hnr Hfresh Hdecl Hnk)
        as (I2 & U2 & Env & Ens & Hroot2 & Hv2 & Hlab2 & Hrel & Hft & Hfo).
      assert (Huv : (uv < nvars st)%nat) by (rewrite <- Env; exact Hv2).
      destruct (adopt_state_eq st t k uv decl Huv Htn) as [Esg Est].
      cbn zeta in Esg, Est. rewrite Esg. cbn [rbind]. rewrite Est.
      set (st2 := sset (vset st uv (set_decl (vget st uv) decl)) t
                       (set_declared (set_undeclared (sc_of st t) (remove_at (sundeclared (sc_of st t)) k))
                                     (sdeclared (sc_of st t) ++ [uv]))) in *.
      set (st3 := vset st2 uv (set_uses (vget st2 uv) (u16 (vuses (vget st2 uv) + 1)))).
      assert (Hsh : same_shape st2 st3) by apply same_shape_set_uses.
      assert (I3 : InvS st3 (uv :: log) stk home no_extra).
      { apply InvS_log_cons; [apply (InvS_same_shape _ _ _ _ _ _ Hsh I2)|]. unfold st3. rewrite nvars_vset. exact Hv2. }
      assert (U3 : InvU st3 (uv :: log)) by (apply InvU_incr; assumption).
      assert (Hlabroot : lab_root st2 home uv = LDecl t x) by (rewrite <- lab_of_root by exact Hroot2; exact Hlab2).
      assert (F6 : (uv < nvars st3)%nat) by (unfold st3; rewrite nvars_vset; exact Hv2).
      assert (F7 : is_root st3 uv) by (apply (is_root_same_shape _ _ _ Hsh); exact Hroot2).
      assert (F8 : vd st3 uv <> 0).
      { unfold vd. destruct Hsh as (_ & _ & Hs). destruct (Hs uv) as (_ & -> & _).
        unfold lab_root in Hlabroot. destruct (vdecl (vget st2 uv) =? 0) eqn:E0; [destruct (argp st2 home uv); discriminate|]. apply Z.eqb_neq. exact E0. }
      assert (F9 : home uv = t).
      { destruct (I_decl _ _ _ _ _ I2 t uv) as (_ & _ & Hh2); [rewrite Ens; exact Htn| |exact Hh2].
        unfold st2. rewrite sc_of_sset_same by (rewrite nscopes_vset; exact Htn). cbn [sdeclared set_declared].
        apply in_app_last. right. reflexivity. }
      assert (F10 : vn st3 uv = x).
      { unfold vn. destruct Hsh as (_ & _ & Hs). destruct (Hs uv) as (-> & _).
        unfold lab_root in Hlabroot. destruct (vdecl (vget st2 uv) =? 0); [destruct (argp st2 home uv); discriminate|]. inversion Hlabroot. reflexivity. }
      assert (F11 : nscopes st3 = nscopes st) by (rewrite (nscopes_same_shape _ _ Hsh); exact Ens).
      assert (F12 : forall q, In q stk -> q <> t -> frame_of st3 home q = frame_of st home q).
      { intros q Hq Hne. rewrite (frame_of_same_shape _ _ _ _ Hsh). apply Hfo; assumption. }
      assert (F13 : frame_of st3 home t
                    = set_fdecl (set_fund (frame_of st home t) (remove_at (fund (frame_of st home t)) k))
                                (fdecl (frame_of st home t) ++ [(x, decl)])).
      { rewrite (frame_of_same_shape _ _ _ _ Hsh). exact Hft. }
      assert (F14 : map (lab_of st3 home) (uv :: log)
                    = LDecl t x :: relabel (LPend t x) (LDecl t x) (map (lab_of st home) log)).
      { cbn [map]. f_equal.
        - rewrite (lab_of_same_shape _ _ _ _ Hsh). exact Hlab2.
        - rewrite <- Hrel. apply map_ext. intros w. apply lab_of_same_shape. exact Hsh. }
      destruct (finish_declare st home stk c x spre t spost st3 (uv :: log) home uv _ _
                  I3 U3 (I_stack _ _ _ _ _ I) Hsplit Hhd F6 F7 F8 F9 F10 F11 F12 F13 F14)
        as (st' & Hrun & I' & U' & Habs).
      exists st', uv, home. fold st3. rewrite Hrun. cbn [rbind]. split; [reflexivity|]. split; [exact I'|]. split; [exact U'|].
      rewrite Habs. unfold abs. cbn [anext alog]. reflexivity.
    + (* a new variable *)
      destruct (new_declared_all st log stk t home x decl I Ht Hfresh Hdecl)
        as (I2 & Env & Ens & Hold & Hnew & Hrt & Hlabo & Hlabn & Hft & Hfo).
      set (id := nvars st) in *.
      set (st2 := sset (fst (valloc st (mkVar x None 0 decl))) t
                       (set_declared (sc_of st t) (sdeclared (sc_of st t) ++ [id]))) in *.
      set (home' := fun w => if Nat.eqb w id then t else home w) in *.
      set (st3 := vset st2 id (set_uses (vget st2 id) (u16 (vuses (vget st2 id) + 1)))).
      assert (Hsh : same_shape st2 st3) by apply same_shape_set_uses.
      assert (Hid : (id < nvars st2)%nat) by (rewrite Env; unfold id; lia).
      assert (Hrootid : is_root st2 id) by (unfold is_root; rewrite Hnew; reflexivity).
      assert (I3 : InvS st3 (id :: log) stk home' no_extra) by (apply (InvS_same_shape _ _ _ _ _ _ Hsh I2)).
      assert (U3 : InvU st3 (id :: log)).
      { apply (InvU_fresh st st2 log home U (I_links _ _ _ _ _ I) (I_homes _ _ _ _ _ I) (I_log _ _ _ _ _ I) Env Hold).
        - fold id. rewrite Hnew. reflexivity.
        - fold id. rewrite Hnew. reflexivity.
        - exact Hrt. }
      assert (F6 : (id < nvars st3)%nat) by (unfold st3; rewrite nvars_vset; exact Hid).
      assert (F7 : is_root st3 id) by (apply (is_root_same_shape _ _ _ Hsh); exact Hrootid).
      assert (F8 : vd st3 id <> 0).
      { unfold vd. destruct Hsh as (_ & _ & Hs). destruct (Hs id) as (_ & -> & _). rewrite Hnew. exact Hdecl. }
      assert (F9 : home' id = t) by (unfold home'; rewrite Nat.eqb_refl; reflexivity).
      assert (F10 : vn st3 id = x).
      { unfold vn. destruct Hsh as (_ & _ & Hs). destruct (Hs id) as (-> & _). rewrite Hnew. reflexivity. }
      assert (F11 : nscopes st3 = nscopes st) by (rewrite (nscopes_same_shape _ _ Hsh); exact Ens).
      assert (F12 : forall q, In q stk -> q <> t -> frame_of st3 home' q = frame_of st home q).
      { intros q Hq Hne. rewrite (frame_of_same_shape _ _ _ _ Hsh). apply Hfo; assumption. }
      assert (F13 : frame_of st3 home' t = set_fdecl (frame_of st home t) (fdecl (frame_of st home t) ++ [(x, decl)])).
      { rewrite (frame_of_same_shape _ _ _ _ Hsh). exact Hft. }
      assert (F14 : map (lab_of st3 home') (id :: log) = LDecl t x :: map (lab_of st home) log).
      { cbn [map]. f_equal.
        - rewrite (lab_of_same_shape _ _ _ _ Hsh). exact Hlabn.
        - apply map_ext_in. intros w Hw. rewrite (lab_of_same_shape _ _ _ _ Hsh). apply Hlabo. apply (I_log _ _ _ _ _ I). exact Hw. }
      destruct (finish_declare st home stk c x spre t spost st3 (id :: log) home' id _ _
                  I3 U3 (I_stack _ _ _ _ _ I) Hsplit Hhd F6 F7 F8 F9 F10 F11 F12 F13 F14)
        as (st' & Hrun & I' & U' & Habs).
      exists st', id, home'.
      assert (G : forall (r : res state), r = Ok st' ->
                  (st4' <~ r ;; Ok (st4', Some id)) = Ok (st', Some id)) by (intros r ->; reflexivity).
      split.
      { unfold valloc. cbn [fst snd].
        assert (Hn : (t < nscopes (vset (mkState (vars st ++ [mkVar x None 0 decl]) (scopes st)) (length (vars st))
                             (set_uses (vget (mkState (vars st ++ [mkVar x None 0 decl]) (scopes st)) (length (vars st)))
                                (u16 (vuses (vget (mkState (vars st ++ [mkVar x None 0 decl]) (scopes st)) (length (vars st))) + 1)))))%nat)
          by exact Htn.
        rewrite (sget_valid _ t Hn). cbn [rbind]. apply G. exact Hrun. }
      split; [exact I'|]. split; [exact U'|].
      rewrite Habs. unfold abs. cbn [anext alog]. reflexivity.
Qed.

Lemma sim_declare st log stk c rest home decl x :
  stk = c :: rest -> InvS st log stk home no_extra -> InvU st log -> len log < 65535 -> decl <> 0 ->
  match a_declare (abs st log stk home) decl x with
  | AStuck => True
  | ARej => exists st', declare st c decl x = Ok (st', None)
  | ARun a' =>
      exists st' v home', declare st c decl x = Ok (st', Some v) /\
        InvS st' (v :: log) stk home' no_extra /\ InvU st' (v :: log) /\ a' = abs st' (v :: log) stk home'
  end.
Proof.
  intros Hstk I U Hlen Hdecl.
  assert (Hhd : hd_error stk = Some c) by (rewrite Hstk; reflexivity).
  assert (Hcn : (c < nscopes st)%nat) by (eapply stack_ok_in; [apply I|rewrite Hstk; left; reflexivity]).
  rewrite a_declare_unfold, declare_unfold. change (astack (abs st log stk home)) with (map (frame_of st home) stk).
  destruct ((decl =? VariableDecl) || (decl =? FunctionDecl)) eqn:Ehoist.
  - assert (Hfuel : (length stk <= fuel_of st)%nat).
    { pose proof (stack_ok_length _ _ (I_stack _ _ _ _ _ I)). unfold fuel_of, nscopes in *. lia. }
    pose proof (walk_sim st home decl x stk (fuel_of st) (I_stack _ _ _ _ _ I) Hfuel) as Hw.
    replace (hd O stk) with c in Hw by (rewrite Hstk; reflexivity).
    destruct (a_walk (map (frame_of st home) stk) decl x) as [[[[pre tgt] post]|]|].
    + destruct Hw as (spre & t & spost & E1 & E2 & E3 & E4 & E5). rewrite E5. cbn [rbind]. subst pre tgt post.
      pose proof (sim_declare_at st log stk home c decl x spre t spost I U Hlen Hdecl E1 Hhd) as H.
      destruct (a_declare_at (abs st log stk home) (map (frame_of st home) spre) (frame_of st home t)
                             (map (frame_of st home) spost) decl x); [exact H| |exact Logic.I].
      exists st. exact H.
    + rewrite Hw. cbn [rbind]. exists st. reflexivity.
    + exact Logic.I.
  - rewrite Hstk. cbn [map]. rewrite (sget_valid st c Hcn). cbn [rbind].
    pose proof (sim_declare_at st log stk home c decl x [] c rest I U Hlen Hdecl Hstk Hhd) as H.
    cbn [map] in H. rewrite <- Hstk.
    destruct (a_declare_at (abs st log stk home) [] (frame_of st home c) (map (frame_of st home) rest) decl x);
      [exact H| |exact Logic.I].
    exists st. exact H.
Qed.
