(* JsScope/Resolve5.v — layer 2, part 5: bookkeeping for the induction over binding programs: how the
   declared names of the open scopes grow, and what pushing a scope does to the meaning of labels. *)
From Coq Require Import ZifyBool.
From Verif Require Import Common.Base Common.Tactics JsScope.Model JsScope.Spec JsScope.Abs JsScope.HeapLemmas
  JsScope.SimUse JsScope.SimDeclare JsScope.SimDeclare3 JsScope.Resolve1 JsScope.Resolve2 JsScope.Resolve3 JsScope.Resolve4.

Definition dn (g : zframe) : list Z := dnames (fst g).

Fixpoint func_dnames (z : list zframe) : list Z :=
  match z with
  | [] => []
  | (fr, _) :: rest => if fisfunc fr then dnames fr else func_dnames rest
  end.

(* a frame below the top only gains var-like names V *)
Definition grow_one (V : list Z) (g g' : zframe) : Prop :=
  incl (dn g) (dn g') /\ (forall y, In y (dn g') -> In y (dn g) \/ In y V) /\
  (forall y, In (UPend y) (fund (fst g')) -> In (UPend y) (fund (fst g))) /\
  (forall y, In (UArg y) (fund (fst g')) -> In (UArg y) (fund (fst g))).

(* var-like names stop at the first function frame *)
Definition below (V : list Z) (g : zframe) : list Z := if fisfunc (fst g) then [] else V.

Fixpoint grow_rest (V : list Z) (r r' : list zframe) : Prop :=
  match r, r' with
  | [], [] => True
  | g :: t, g' :: t' => grow_one V g g' /\ grow_rest (below V g) t t'
  | _, _ => False
  end.

(* the top frame gains lexical names L and var-like names V *)
Definition grow (L V : list Z) (z z' : list zframe) : Prop :=
  shape z' = shape z /\
  match z, z' with
  | g :: r, g' :: r' =>
      incl (dn g) (dn g') /\ (forall y, In y (dn g') -> In y (dn g) \/ In y L \/ In y V) /\
      grow_rest (below V g) r r'
  | [], [] => True
  | _, _ => False
  end.

Lemma grow_one_refl V g : grow_one V g g.
Proof. split; [apply incl_refl|]. split; [intros y H; left; exact H|split; intros y H; exact H]. Qed.

Lemma grow_rest_refl V r : grow_rest V r r.
Proof. revert V. induction r as [|g t IH]; intros V; cbn; [exact I|]. split; [apply grow_one_refl|apply IH]. Qed.

Lemma grow_one_trans V1 V2 g1 g2 g3 : grow_one V1 g1 g2 -> grow_one V2 g2 g3 -> grow_one (V1 ++ V2) g1 g3.
Proof.
  intros (A1 & B1 & C1 & D1) (A2 & B2 & C2 & D2). split; [eapply incl_tran; eassumption|]. split; [|split].
  - intros y Hy. destruct (B2 y Hy) as [H|H]; [|right; apply in_app_iff; right; exact H].
    destruct (B1 y H) as [H'|H']; [left; exact H'|right; apply in_app_iff; left; exact H'].
  - intros y Hy. apply C1. apply C2. exact Hy.
  - intros y Hy. apply D1. apply D2. exact Hy.
Qed.

Lemma grow_one_weaken V V' g g' : incl V V' -> grow_one V g g' -> grow_one V' g g'.
Proof.
  intros Hi (A & B & C). split; [exact A|]. split; [|exact C].
  intros y Hy. destruct (B y Hy) as [H|H]; [left; exact H|right; apply Hi; exact H].
Qed.

Lemma below_incl V V' g : incl V V' -> incl (below V g) (below V' g).
Proof. intros H. unfold below. destruct (fisfunc (fst g)); [apply incl_refl|exact H]. Qed.

Lemma grow_rest_weaken r : forall V V' r', incl V V' -> grow_rest V r r' -> grow_rest V' r r'.
Proof.
  induction r as [|g t IH]; intros V V' [|g' t'] Hi H; cbn in *; try tauto.
  destruct H as [H1 H2]. split; [eapply grow_one_weaken; eassumption|]. eapply IH; [|exact H2]. apply below_incl. exact Hi.
Qed.

Lemma below_app V1 V2 g g2 : fisfunc (fst g2) = fisfunc (fst g) -> below V1 g ++ below V2 g2 = below (V1 ++ V2) g.
Proof. intros H. unfold below. rewrite H. destruct (fisfunc (fst g)); reflexivity. Qed.

Lemma grow_rest_trans r1 : forall V1 V2 r2 r3,
  shape r2 = shape r1 -> grow_rest V1 r1 r2 -> grow_rest V2 r2 r3 -> grow_rest (V1 ++ V2) r1 r3.
Proof.
  induction r1 as [|g1 t1 IH]; intros V1 V2 [|g2 t2] [|g3 t3] Hs H1 H2; cbn in *; try tauto; try discriminate.
  destruct H1 as [A1 B1]. destruct H2 as [A2 B2]. injection Hs as _ Hf _ Hs'.
  split; [eapply grow_one_trans; eassumption|].
  rewrite <- (below_app V1 V2 g1 g2 Hf). eapply IH; eassumption.
Qed.

Lemma grow_trans L1 V1 L2 V2 z1 z2 z3 :
  grow L1 V1 z1 z2 -> grow L2 V2 z2 z3 -> grow (L1 ++ L2) (V1 ++ V2) z1 z3.
Proof.
  intros [S1 G1] [S2 G2]. split; [congruence|].
  destruct z1 as [|g1 r1], z2 as [|g2 r2], z3 as [|g3 r3]; try tauto.
  destruct G1 as (A1 & B1 & F1). destruct G2 as (A2 & B2 & F2). cbn in S1. injection S1 as _ Hf _ Hs'.
  split; [eapply incl_tran; eassumption|]. split.
  - intros y Hy. destruct (B2 y Hy) as [H|[H|H]].
    + destruct (B1 y H) as [H'|[H'|H']]; [left; exact H'|right; left; apply in_app_iff; left; exact H'|right; right; apply in_app_iff; left; exact H'].
    + right. left. apply in_app_iff. right. exact H.
    + right. right. apply in_app_iff. right. exact H.
  - rewrite <- (below_app V1 V2 g1 g2 Hf). eapply grow_rest_trans; eassumption.
Qed.

Lemma grow_weaken L V L' V' z z' : incl L L' -> incl V V' -> grow L V z z' -> grow L' V' z z'.
Proof.
  intros HL HV [S G]. split; [exact S|]. destruct z as [|g r], z' as [|g' r']; try tauto.
  destruct G as (A & B & F). split; [exact A|]. split.
  - intros y Hy. destruct (B y Hy) as [H|[H|H]]; [left; exact H|right; left; apply HL; exact H|right; right; apply HV; exact H].
  - eapply grow_rest_weaken; [|exact F]. apply below_incl. exact HV.
Qed.

Lemma grow_top_same fr fr' pr rest :
  fid fr' = fid fr -> fisfunc fr' = fisfunc fr -> dnames fr' = dnames fr ->
  grow [] [] ((fr, pr) :: rest) ((fr', pr) :: rest).
Proof.
  intros H1 H2 H3. split; [cbn; rewrite H1, H2; reflexivity|]. unfold dn. cbn [fst]. rewrite H3.
  split; [apply incl_refl|]. split; [intros y H; left; exact H|apply grow_rest_refl].
Qed.

Lemma shape_cons_inv z1 fr pr rest :
  shape z1 = shape ((fr, pr) :: rest) ->
  exists fr1 rest1, z1 = (fr1, pr) :: rest1 /\ fid fr1 = fid fr /\ fisfunc fr1 = fisfunc fr /\ shape rest1 = shape rest.
Proof.
  destruct z1 as [|[fr1 pr1] rest1]; cbn; intros H; [discriminate|]. injection H as H1 H2 H3 H4. subst pr1.
  exists fr1, rest1. repeat split; assumption.
Qed.

Lemma func_dnames_rest_mono r : forall V r',
  shape r' = shape r -> grow_rest V r r' -> incl (func_dnames r) (func_dnames r').
Proof.
  induction r as [|[g pg] t IH]; intros V [|[g' pg'] t'] Hs H; cbn in *; try tauto; try discriminate; [apply incl_refl|].
  injection Hs as H1 H2 H3 H4. destruct H as [Hg Ht]. rewrite H2.
  destruct (fisfunc g); [apply Hg|eapply IH; eassumption].
Qed.

Lemma func_dnames_mono L V z z' : grow L V z z' -> incl (func_dnames z) (func_dnames z').
Proof.
  intros [Hs G]. destruct z as [|[g pg] r], z' as [|[g' pg'] r']; try tauto; [apply incl_refl|].
  destruct G as (A & B & F). cbn in Hs. injection Hs as H1 H2 H3 H4. cbn [func_dnames]. rewrite H2.
  destruct (fisfunc g); [exact A|]. eapply func_dnames_rest_mono; eassumption.
Qed.

(* a lexical name of a scope cannot be a var-like name that reaches the scope *)
Lemma lex_var_contra fr pr rest x :
  frame_ok fr pr rest -> In x (plex pr) -> var_ok x ((fr, pr) :: rest) -> False.
Proof.
  intros K Hl Hv. cbn [var_ok] in Hv. destruct (fisfunc fr).
  - apply (K_disj _ _ _ K x Hl Hv).
  - destruct Hv as [Hn _]. apply (pall_pnames _ _ Hn). unfold pnames. apply in_app_iff. right. exact Hl.
Qed.

(* pushing a fresh scope does not change what the older labels mean *)
Lemma final_push a z n names :
  AInv a z -> (anext a <= n)%nat ->
  map (final ((n, false, names) :: env_of z)) (alog a) = map (final (env_of z)) (alog a).
Proof.
  intros A Hn. apply map_ext_in. intros [s y|s y|s y] Hl; [reflexivity| |].
  - destruct (A_log _ _ A s y Hl) as (fp & Hfp & Hs & _). pose proof (A_next _ _ A fp Hfp) as Hlt.
    cbn [final]. rewrite drop_to_skip by lia. reflexivity.
  - destruct (A_logarg _ _ A s y Hl) as (fp & Hfp & Hs & _). pose proof (A_next _ _ A fp Hfp) as Hlt.
    cbn [final]. rewrite drop_to_skip by lia. reflexivity.
Qed.

(* ---- booleans of spec_ok ----------------------------------------------------------------------------------- *)
Lemma nodupb_NoDup l : nodupb l = true -> NoDup l.
Proof.
  induction l as [|x t IH]; intros H; [constructor|]. cbn in H. apply andb_true_iff in H. destruct H as [H1 H2].
  constructor; [|apply IH; exact H2]. apply negb_true_iff in H1. apply mem_not_in. exact H1.
Qed.

Lemma disjointb_spec a b : disjointb a b = true -> forall x, In x a -> ~ In x b.
Proof.
  unfold disjointb. intros H x Hx. rewrite forallb_forall in H. specialize (H x Hx). apply negb_true_iff in H.
  apply mem_not_in. exact H.
Qed.

Lemma scope_ok_spec head b :
  scope_ok head b = true ->
  NoDup (lexdecls b) /\ (forall x, In x (lexdecls b) -> ~ In x (vardecls b)) /\ (forall x, In x (lexdecls b) -> ~ In x head).
Proof.
  unfold scope_ok. intros H. apply andb_true_iff in H. destruct H as [H H3]. apply andb_true_iff in H. destruct H as [H1 H2].
  split; [apply nodupb_NoDup; exact H1|]. split; [apply disjointb_spec; exact H2|apply disjointb_spec; exact H3].
Qed.

(* ---- parameter lists ------------------------------------------------------------------------------------------- *)
Lemma resolve_params e fs cur n ps :
  params_only ps = true ->
  resolve_m e fs cur false n ps = (map (TBind cur false) (headdecls ps), n).
Proof.
  induction ps; cbn; intros H; try discriminate; [reflexivity|].
  destruct d; try discriminate. rewrite (IHps H). reflexivity.
Qed.

Lemma params_only_lin ps : params_only ps = true -> linearise ps = map (EDeclare ArgumentDecl) (headdecls ps).
Proof.
  induction ps; cbn; intros H; try discriminate; [reflexivity|].
  destruct d; try discriminate. cbn. rewrite (IHps H). reflexivity.
Qed.

Lemma run_params : forall names a fr pr rest,
  AInv a ((fr, pr) :: rest) -> NoDup names ->
  (forall x, In x names -> In x (pvar pr) /\ ~ In x (dnames fr)) -> fund fr = [] ->
  exists a' fr',
    arun a (map (EDeclare ArgumentDecl) names) = ARun a' /\ AInv a' ((fr', pr) :: rest) /\
    fid fr' = fid fr /\ fisfunc fr' = fisfunc fr /\ dnames fr' = dnames fr ++ names /\ fund fr' = [] /\
    anext a' = anext a /\
    map (final (env_of ((fr, pr) :: rest))) (alog a')
    = rev (map (TBind (fid fr) false) names) ++ map (final (env_of ((fr, pr) :: rest))) (alog a).
Proof.
  induction names as [|x names IH]; intros a fr pr rest A Hnd Hin Hfund.
  - exists a, fr. cbn. rewrite app_nil_r. split; [reflexivity|]. split; [exact A|]. split; [reflexivity|]. split; [reflexivity|].
    split; [reflexivity|]. split; [exact Hfund|]. split; reflexivity.
  - inversion Hnd as [|? ? Hx Hnd']; subst. destruct (Hin x (or_introl eq_refl)) as [Hp Hn].
    destruct (L_decl_top a fr pr rest ArgumentDecl x A (or_intror (or_introl eq_refl)) Hn) as (a1 & fr1 & H1 & A1 & E1 & E2 & E3 & E4 & E5 & E6).
    { unfold pnames. apply in_app_iff. left. exact Hp. } { intros H. exfalso. apply H. reflexivity. } { intros _. rewrite Hfund. intros []. }
    assert (Hfund1 : fund fr1 = []).
    { destruct (fund fr1) as [|e t] eqn:Ef; [reflexivity|]. exfalso. specialize (E4 e (or_introl eq_refl)). rewrite Hfund in E4. exact E4. }
    destruct (IH a1 fr1 pr rest A1 Hnd') as (a' & fr' & H2 & A' & F1 & F2 & F3 & F4 & F5 & F6).
    { intros y Hy. destruct (Hin y (or_intror Hy)) as [Hyp Hyn]. split; [exact Hyp|]. rewrite E3. intros Hi. apply in_app_last in Hi.
      destruct Hi as [Hi| ->]; contradiction. }
    { exact Hfund1. }
    exists a', fr'. cbn [map arun astep]. unfold NoDecl, ArgumentDecl in *. cbn [Z.eqb]. rewrite H1. split; [exact H2|]. split; [exact A'|].
    split; [congruence|]. split; [congruence|]. split; [rewrite F3, E3, <- app_assoc; reflexivity|]. split; [exact F4|]. split; [congruence|].
    assert (Eenv : env_of ((fr1, pr) :: rest) = env_of ((fr, pr) :: rest)) by (cbn; rewrite E1; reflexivity).
    rewrite Eenv in F6. rewrite F6, E6. rewrite E1. cbn [map rev]. rewrite <- app_assoc. reflexivity.
Qed.
