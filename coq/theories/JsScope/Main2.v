(* JsScope/Main2.v — rename_alpha: giving every declared Var a fresh name yields an alpha-equivalent binding
   program (corollary of resolution_correct and of Rename.resolve_rename, on the same fragment). *)
From Coq Require Import ZifyBool.
From Verif Require Import Common.Base Common.Tactics JsScope.Model JsScope.Spec JsScope.HeapLemmas
  JsScope.Resolve1 JsScope.Main JsScope.Rename JsScope.AuxX.

(* resolution_correct for the fragment: the hypothesis on auxiliary scopes follows from the side conditions *)
Theorem resolution_correct_x p :
  core_x p = true -> program_ok p = true -> Z.of_nat (occurrences p) < 65536 ->
  exists ps,
    run_program p = Running ps /\
    let st := pst ps in
    let vs := map (root_of st) (rev (plog ps)) in
    let ts := spec_resolve p in
    length vs = length ts /\
    (forall i j, (i < length vs)%nat -> (j < length vs)%nat ->
       (nth i vs O = nth j vs O <-> nth i ts (TGlobal 0) = nth j ts (TGlobal 0))) /\
    (forall i x, (i < length vs)%nat -> nth i ts (TGlobal 0) = TGlobal x ->
       In (nth i vs O) (sundeclared (sc_of st O)) /\ vdecl (vget st (nth i vs O)) = NoDecl
       /\ vname (vget st (nth i vs O)) = x) /\
    (forall i s a x, (i < length vs)%nat -> nth i ts (TGlobal 0) = TBind s a x ->
       vdecl (vget st (nth i vs O)) <> NoDecl /\ vname (vget st (nth i vs O)) = x) /\
    (forall i, (i < length vs)%nat ->
       vuses (vget st (nth i vs O)) = Z.of_nat (count_occ Nat.eq_dec vs (nth i vs O))).
Proof. intros Hc Hok Hocc. exact (resolution_correct_core p Hc Hok (core_x_aux_distinct p Hc) Hocc). Qed.

Lemma target_eqb_eq a b : target_eqb a b = true <-> a = b.
Proof.
  destruct a as [x|s a x], b as [y|t b y]; cbn; split; intros H; try discriminate.
  - apply Z.eqb_eq in H. subst. reflexivity.
  - inversion H. apply Z.eqb_refl.
  - apply andb_true_iff in H. destruct H as [H H3]. apply andb_true_iff in H. destruct H as [H1 H2].
    apply Nat.eqb_eq in H1. apply Bool.eqb_prop in H2. apply Z.eqb_eq in H3. subst. reflexivity.
  - inversion H; subst. rewrite Nat.eqb_refl, Bool.eqb_reflx, Z.eqb_refl. reflexivity.
Qed.

(* the Var of the first occurrence that denotes t *)
Fixpoint var_at (t : target) (ts : list target) (vs : list nat) : nat :=
  match ts, vs with
  | t0 :: ts', v :: vs' => if target_eqb t0 t then v else var_at t ts' vs'
  | _, _ => O
  end.

Lemma var_at_spec t : forall ts vs, length vs = length ts -> In t ts ->
  exists i, (i < length vs)%nat /\ nth i ts (TGlobal 0) = t /\ var_at t ts vs = nth i vs O.
Proof.
  induction ts as [|t0 ts IH]; intros [|v vs] Hl Hin; cbn in Hl; try discriminate; [destruct Hin|].
  cbn [var_at]. destruct (target_eqb t0 t) eqn:E.
  - apply target_eqb_eq in E. exists O. cbn. split; [lia|]. split; [exact E|reflexivity].
  - destruct Hin as [->|Hin]; [rewrite (proj2 (target_eqb_eq t t) eq_refl) in E; discriminate|].
    destruct (IH vs ltac:(lia) Hin) as (i & Hi & H1 & H2). exists (S i). cbn. split; [lia|]. split; assumption.
Qed.

(* the declarative resolver itself is invariant under renaming by declaration, for ALL binding programs:
   f gives every declaration (a target TBind s a x of the program) a new name, injectively and outside the
   names of the program; the program whose occurrences are renamed after their targets resolves to the same
   targets, under the new names *)
Theorem spec_rename_all (p : prog) (f : nat -> bool -> Z -> Z) :
  let ts := spec_resolve p in
  (forall s a x t b y, In (TBind s a x) ts -> In (TBind t b y) ts -> f s a x = f t b y -> s = t /\ a = b /\ x = y) ->
  (forall s a x, In (TBind s a x) ts -> ~ In (f s a x) (allnames p)) ->
  spec_resolve (rename_prog (map (newname f) ts) p) = map (retarget f) ts.
Proof.
  cbn zeta. intros f_inj f_fresh.
  set (ts := spec_resolve p) in *.
  set (D := fun (s : nat) (a : bool) (x : Z) => In (TBind s a x) ts).
  pose proof (resolve_rename f (allnames p) D f_inj f_fresh p
                [(O, false, vardecls p ++ lexdecls p)] O O false 1%nat []) as Hren.
  fold (spec_resolve p) in Hren. fold ts in Hren.
  assert (Hok0 : env_ok [(O, false, vardecls p ++ lexdecls p)] 1).
  { split; [cbn; constructor; [intros []|constructor]|]. intros s a [E|[]]. inversion E. lia. }
  assert (HD0 : env_D D [(O, false, vardecls p ++ lexdecls p)]).
  { intros s a names x [E|[]] Hx. inversion E; subst. unfold D, ts, spec_resolve. apply in_app_iff in Hx. destruct Hx as [Hx|Hx].
    - apply (vardecls_targets p). exact Hx.
    - apply (lexdecls_targets p). exact Hx. }
  assert (HDt : Forall (Dt D) ts).
  { apply Forall_forall. intros [x|s a x] Hin; [exact I|exact Hin]. }
  specialize (Hren Hok0 HD0 (incl_refl _) HDt). rewrite app_nil_r in Hren.
  unfold rename_prog. destruct (rename_with (map (newname f) ts) p) as [p' l'] eqn:Ep. cbn [fst].
  destruct Hren as (_ & Hres & Hlex & Hvard & _).
  unfold spec_resolve at 1. rewrite Hlex, Hvard, <- map_app.
  change [(O, false, map (f O false) (vardecls p ++ lexdecls p))] with (ren_env f [(O, false, vardecls p ++ lexdecls p)]).
  rewrite Hres. reflexivity.
Qed.

(* satisfiable, on a program with every construct: loop head, catch, class and function expression names,
   x => ..., a parenthesised non-arrow *)
Definition example_prog_all : prog :=
  Decl DLex 1 (For (Decl DLex 2 (Ref 1 Done)) (Ref 2 (Decl DLex 3 Done))
  (Catch (Decl DCatch 4 Done) (Ref 4 (Decl DVar 5 Done))
  (Func (Some 6) (Decl DParam 7 (Ref 1 Done)) (Ref 6 (Ref 7 Done))
  (Class (Some 8) (Func None Done (Ref 8 (Ref 9 Done)) Done)
  (ArrowId 10 (Ref 10 (Ref 5 Done))
  (Paren (Ref 1 (PRef 11 Done)) (Ref 11 Done))))))).

Example spec_rename_all_example :
  let p := example_prog_all in
  let f := fun (s : nat) (a : bool) (x : Z) => 100 + 40 * Z.of_nat s + (if a then 20 else 0) + x in
  let ts := spec_resolve p in
  forallb (fun t => match t with TGlobal _ => true | TBind s a x => negb (mem (f s a x) (allnames p)) end) ts = true
  /\ spec_resolve (rename_prog (map (newname f) ts) p) = map (retarget f) ts
  /\ program_ok p = true.
Proof. vm_compute. repeat split; reflexivity. Qed.

Theorem rename_alpha_core (p : prog) (rho : nat -> Z) :
  core_x p = true -> program_ok p = true -> Z.of_nat (occurrences p) < 65536 ->
  exists ps,
    run_program p = Running ps /\
    let st := pst ps in
    let vs := map (root_of st) (rev (plog ps)) in
    let ts := spec_resolve p in
    (* rho gives distinct fresh names to the declared Vars and leaves the undeclared ones alone *)
    (forall i j, (i < length vs)%nat -> (j < length vs)%nat ->
       vdecl (vget st (nth i vs O)) <> NoDecl -> vdecl (vget st (nth j vs O)) <> NoDecl ->
       rho (nth i vs O) = rho (nth j vs O) -> nth i vs O = nth j vs O) ->
    (forall i, (i < length vs)%nat -> vdecl (vget st (nth i vs O)) <> NoDecl -> ~ In (rho (nth i vs O)) (allnames p)) ->
    (forall i, (i < length vs)%nat -> vdecl (vget st (nth i vs O)) = NoDecl -> rho (nth i vs O) = vname (vget st (nth i vs O))) ->
    (* the program with every occurrence renamed after its Var has the same binding structure *)
    let p' := rename_prog (map rho vs) p in
    core_x p' = true /\ (core_d p = true -> core_d p' = true) /\ (core p = true -> core p' = true) /\
    spec_resolve p' =
      map (fun vt => match snd vt with TGlobal x => TGlobal x | TBind s a _ => TBind s a (rho (fst vt)) end) (combine vs ts).
Proof.
  intros Hc Hok Hocc.
  destruct (resolution_correct_x p Hc Hok Hocc) as (ps & Hrun & R).
  exists ps. split; [exact Hrun|]. cbn zeta in *.
  set (st := pst ps) in *. set (vs := map (root_of st) (rev (plog ps))) in *. set (ts := spec_resolve p) in *.
  destruct R as (Rlen & Riff & Rglob & Rbound & _).
  intros Hinj Hfresh Hkeep.
  set (D := fun (s : nat) (a : bool) (x : Z) => In (TBind s a x) ts).
  set (f := fun (s : nat) (a : bool) (x : Z) => rho (var_at (TBind s a x) ts vs)).
  (* the Var of a declaration is the Var of each of its occurrences *)
  assert (Hvar : forall i s a x, (i < length vs)%nat -> nth i ts (TGlobal 0) = TBind s a x ->
                   var_at (TBind s a x) ts vs = nth i vs O).
  { intros i s a x Hi Hti.
    assert (Hin : In (TBind s a x) ts) by (rewrite <- Hti; apply nth_In; rewrite <- Rlen; exact Hi).
    destruct (var_at_spec (TBind s a x) ts vs Rlen Hin) as (j & Hj & Htj & ->).
    apply Riff; [exact Hj|exact Hi|congruence]. }
  assert (f_inj : forall s a x t b y, D s a x -> D t b y -> f s a x = f t b y -> s = t /\ a = b /\ x = y).
  { intros s a x t b y Dx Dy E. unfold D in Dx, Dy. unfold f in E.
    destruct (var_at_spec _ ts vs Rlen Dx) as (i & Hi & Hti & Ei). destruct (var_at_spec _ ts vs Rlen Dy) as (j & Hj & Htj & Ej).
    rewrite Ei, Ej in E.
    assert (Evs : nth i vs O = nth j vs O).
    { apply Hinj; try assumption; [apply (Rbound i s a x Hi Hti)|apply (Rbound j t b y Hj Htj)]. }
    apply (Riff i j Hi Hj) in Evs. rewrite Hti, Htj in Evs. injection Evs as -> -> ->. repeat split; reflexivity. }
  assert (f_fresh : forall s a x, D s a x -> ~ In (f s a x) (allnames p)).
  { intros s a x Dx. unfold D in Dx. unfold f. destruct (var_at_spec _ ts vs Rlen Dx) as (i & Hi & Hti & ->).
    apply Hfresh; [exact Hi|]. apply (Rbound i s a x Hi Hti). }
  (* renaming by declaration = renaming by Var *)
  assert (Enames : map (newname f) ts = map rho vs).
  { apply (nth_ext _ _ 0 0); [rewrite !map_length; symmetry; exact Rlen|].
    intros i Hi. rewrite map_length in Hi.
    rewrite (nth_indep (map (newname f) ts) 0 (newname f (TGlobal 0))) by (rewrite map_length; exact Hi).
    rewrite (nth_indep (map rho vs) 0 (rho O)) by (rewrite map_length, Rlen; exact Hi).
    rewrite (map_nth (newname f)), (map_nth rho).
    assert (Hiv : (i < length vs)%nat) by (rewrite Rlen; exact Hi).
    destruct (nth i ts (TGlobal 0)) as [x|s a x] eqn:Hti; cbn [newname].
    - destruct (Rglob i x Hiv Hti) as (_ & Hd & Hn). rewrite (Hkeep i Hiv Hd). symmetry. exact Hn.
    - unfold f. rewrite (Hvar i s a x Hiv Hti). reflexivity. }
  pose proof (resolve_rename f (allnames p) D f_inj f_fresh p
                [(O, false, vardecls p ++ lexdecls p)] O O false 1%nat []) as Hren.
  fold (spec_resolve p) in Hren. fold ts in Hren.
  assert (Hok0 : env_ok [(O, false, vardecls p ++ lexdecls p)] 1).
  { split; [cbn; constructor; [intros []|constructor]|]. intros s a [E|[]]. inversion E. lia. }
  assert (HD0 : env_D D [(O, false, vardecls p ++ lexdecls p)]).
  { intros s a names x [E|[]] Hx. inversion E; subst. unfold D, ts, spec_resolve. apply in_app_iff in Hx. destruct Hx as [Hx|Hx].
    - apply (vardecls_targets p). exact Hx.
    - apply (lexdecls_targets p). exact Hx. }
  specialize (Hren Hok0 HD0 (incl_refl _)).
  assert (HDt : Forall (Dt D) ts).
  { apply Forall_forall. intros [x|s a x] Hin; [exact I|exact Hin]. }
  specialize (Hren HDt). rewrite app_nil_r, Enames in Hren.
  unfold rename_prog. destruct (rename_with (map rho vs) p) as [p' l'] eqn:Ep. cbn [fst].
  destruct Hren as (_ & Hres & Hlex & Hvard & _ & _ & _ & _ & _ & Hcored & _ & Hcore & Hcorex & _).
  split; [exact (Hcorex Hc)|]. split; [exact Hcored|]. split; [exact Hcore|].
  unfold spec_resolve at 1. rewrite Hlex, Hvard, <- map_app.
  change [(O, false, map (f O false) (vardecls p ++ lexdecls p))] with (ren_env f [(O, false, vardecls p ++ lexdecls p)]).
  rewrite Hres. cbn [fst].
  (* retarget, written with the Vars *)
  apply (nth_ext _ _ (TGlobal 0) (TGlobal 0)).
  { rewrite !map_length, combine_length, Rlen. lia. }
  intros i Hi. rewrite map_length in Hi.
  assert (Hiv : (i < length vs)%nat) by (rewrite Rlen; exact Hi).
  rewrite (nth_indep (map (retarget f) ts) (TGlobal 0) (retarget f (TGlobal 0))) by (rewrite map_length; exact Hi).
  rewrite (map_nth (retarget f)).
  set (g := fun vt : nat * target => match snd vt with TGlobal x => TGlobal x | TBind s a _ => TBind s a (rho (fst vt)) end).
  rewrite (nth_indep (map g (combine vs ts)) (TGlobal 0) (g (O, TGlobal 0))) by (rewrite map_length, combine_length, Rlen; lia).
  rewrite (map_nth g), combine_nth by exact Rlen. unfold g. cbn [fst snd].
  destruct (nth i ts (TGlobal 0)) as [x|s a x] eqn:Hti; cbn [retarget]; [reflexivity|].
  unfold f. rewrite (Hvar i s a x Hiv Hti). reflexivity.
Qed.

(* the hypotheses are satisfiable: on the example programs of Main.v, number the Vars 100, 101, ... *)
Example rename_example_d :
  let p := example_prog_d in
  match occurrence_vars p with
  | Some vs =>
      let st := match run_program p with Running ps => pst ps | _ => empty_state end in
      let rho := fun v => if vdecl (vget st v) =? NoDecl then vname (vget st v) else 100 + Z.of_nat v in
      canon target_eqb (spec_resolve (rename_prog (map rho vs) p)) = canon target_eqb (spec_resolve p)
      /\ program_ok (rename_prog (map rho vs) p) = true /\ core_d (rename_prog (map rho vs) p) = true
  | None => False
  end.
Proof. vm_compute. repeat split; reflexivity. Qed.

Example rename_example_x :
  let p := example_prog_x in
  match occurrence_vars p with
  | Some vs =>
      let st := match run_program p with Running ps => pst ps | _ => empty_state end in
      let rho := fun v => if vdecl (vget st v) =? NoDecl then vname (vget st v) else 100 + Z.of_nat v in
      canon target_eqb (spec_resolve (rename_prog (map rho vs) p)) = canon target_eqb (spec_resolve p)
      /\ program_ok (rename_prog (map rho vs) p) = true /\ core_x (rename_prog (map rho vs) p) = true
  | None => False
  end.
Proof. vm_compute. repeat split; reflexivity. Qed.

Example rename_example :
  let p := example_prog in
  match occurrence_vars p with
  | Some vs =>
      let st := match run_program p with Running ps => pst ps | _ => empty_state end in
      let rho := fun v => if vdecl (vget st v) =? NoDecl then vname (vget st v) else 100 + Z.of_nat v in
      canon target_eqb (spec_resolve (rename_prog (map rho vs) p)) = canon target_eqb (spec_resolve p)
      /\ program_ok (rename_prog (map rho vs) p) = true
  | None => False
  end.
Proof. vm_compute. split; reflexivity. Qed.
