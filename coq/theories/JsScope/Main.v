(* JsScope/Main.v — C04 for the fragment: the scope algorithm, run on the parser's events for a binding
   program, puts two identifier occurrences into one Var (after Link) iff the declarative resolver gives them
   the same declaration; unbound names end as undeclared variables of the module scope; Uses counts the
   occurrences. *)
From Coq Require Import ZifyBool.
From Verif Require Import Common.Base Common.Tactics JsScope.Model JsScope.Spec JsScope.Abs JsScope.HeapLemmas
  JsScope.SimDefs JsScope.SimUse JsScope.SimDeclare3 JsScope.SimRun
  JsScope.Resolve1 JsScope.Resolve2 JsScope.Resolve3 JsScope.Resolve4 JsScope.Resolve5 JsScope.Resolve6 JsScope.Resolve7
  JsScope.Bridge JsScope.AuxFree.

(* ---- counting occurrences ---------------------------------------------------------------------------------- *)
Lemma nocc_app l1 l2 : nocc (l1 ++ l2) = nocc l1 + nocc l2.
Proof. induction l1 as [|e t IH]; cbn [app nocc]; [lia|]. rewrite IH. lia. Qed.

Lemma nocc_linearise p : nocc (linearise p) = Z.of_nat (occurrences p).
Proof.
  induction p; cbn [linearise occurrences nocc nocc1]; rewrite ?nocc_app; cbn [nocc nocc1]; rewrite ?nocc_app; cbn [nocc nocc1];
    try destruct nm; cbn [nocc nocc1 app]; rewrite ?nocc_app; cbn [nocc nocc1]; lia.
Qed.

(* ---- the label machine on a whole program ------------------------------------------------------------------- *)
Definition pr0 (p : prog) : promise := mkPr (lexdecls p) (vardecls p) false [].
Definition e0 (p : prog) : env := [(O, false, vardecls p ++ lexdecls p)].

(* the fragment without default values is part of the fragment with them *)
Lemma params_only_pcore_d ps : params_only ps = true -> pcore_d ps = true /\ default_names ps = [].
Proof.
  induction ps; cbn; intros H; try discriminate; [split; reflexivity|].
  destruct d; try discriminate. apply IHps. exact H.
Qed.

Lemma core_core_d p : core p = true -> core_d p = true.
Proof.
  induction p; cbn [core core_d]; intros H; try discriminate; try reflexivity.
  - apply IHp. exact H.
  - apply andb_true_iff in H. destruct H as [H1 H2]. rewrite H1, (IHp H2). reflexivity.
  - apply andb_true_iff in H. destruct H as [H1 H2]. rewrite (IHp1 H1), (IHp2 H2). reflexivity.
  - destruct nm; [discriminate|]. apply andb_true_iff in H. destruct H as [H H3]. apply andb_true_iff in H. destruct H as [H1 H2].
    destruct (params_only_pcore_d _ H1) as [Q1 Q2]. rewrite Q1, (IHp2 H2), (IHp3 H3). reflexivity.
  - apply andb_true_iff in H. destruct H as [H H3]. apply andb_true_iff in H. destruct H as [H1 H2].
    destruct (params_only_pcore_d _ H1) as [Q1 Q2]. rewrite Q1, (IHp2 H2), (IHp3 H3). reflexivity.
  - apply andb_true_iff in H. destruct H as [H H4]. apply andb_true_iff in H. destruct H as [H H3]. apply andb_true_iff in H. destruct H as [H1 H2].
    rewrite H1, H2, (IHp2 H3), (IHp3 H4). reflexivity.
Qed.

Lemma am_program p :
  core_x p = true -> program_ok p = true ->
  exists a' fr',
    arun init_astate (program_events p) = ARun a' /\ AInv a' [(fr', pr0 p)] /\ fid fr' = O /\
    (forall y, In y (pnames (pr0 p)) -> In y (dnames fr')) /\
    map (final (e0 p)) (alog a') = rev (spec_resolve_m p).
Proof.
  intros Hc Hok. unfold program_ok in Hok. apply andb_true_iff in Hok. destruct Hok as [Hsc Hok].
  destruct (scope_ok_spec [] p Hsc) as (Hnd & Hlv & _).
  set (F0 := mkF O true [] [] O O). set (a0 := mkA [F0] 1 []).
  assert (A0 : AInv a0 [(F0, pr0 p)]).
  { constructor.
    - reflexivity.
    - cbn. split; [|exact I]. constructor; cbn.
      + intros y k [].
      + exact Hlv.
      + intros y [].
      + intros y fs [].
      + constructor.
      + constructor.
      + split; [lia|intros y []].
      + intros y [].
      + constructor.
      + intros g [].
      + intros _. reflexivity.
      + intros _. reflexivity.
    - intros fp [<-|[]]. cbn. lia.
    - intros s x [].
    - intros s x []. }
  destruct (run_core p Hc a0 F0 (pr0 p) [] A0 Hnd) as (a' & fr' & rest' & R & A' & G & P1 & P2 & _ & _ & _ & F & N).
  { intros x Hx. split; [exact Hx|intros []]. }
  { intros x Hx. cbn. exact Hx. }
  { rewrite (core_x_headdecls p Hc). constructor. }
  { rewrite (core_x_headdecls p Hc). intros x []. }
  { exact Hok. }
  pose proof (grow_shape _ _ _ _ G) as Hs. cbn in Hs. destruct rest' as [|g r]; [|discriminate].
  injection Hs as Hfid Hfunc.
  exists a', fr'. split; [exact R|]. split; [exact A'|]. split; [exact Hfid|]. split.
  - intros y Hy. unfold pnames in Hy. cbn [pvar plex pr0] in Hy. apply in_app_iff in Hy. destruct Hy as [Hy|Hy].
    + specialize (P2 y Hy). cbn [func_dnames] in P2. rewrite Hfunc in P2. exact P2.
    + apply P1. exact Hy.
  - cbn [alog a0 map] in F. rewrite app_nil_r in F. exact F.
Qed.

(* at the end of a program every label is a declaration or an unresolved name of the module scope *)
Lemma end_labels p a' fr' :
  AInv a' [(fr', pr0 p)] -> fid fr' = O -> (forall y, In y (pnames (pr0 p)) -> In y (dnames fr')) ->
  forall l, In l (alog a') ->
    match l with
    | LDecl s x => final (e0 p) l = TBind s false x
    | LPend s x => s = O /\ final (e0 p) l = TGlobal x
    | LArg _ _ => False
    end.
Proof.
  intros A Hfid Hfull [s x|s x|s x] Hl; [reflexivity| |].
  2:{ destruct (A_logarg _ _ A s x Hl) as (fp & [<-|[]] & Hs & Hu). cbn [fst] in *. destruct (A_frames _ _ A) as [K _].
      exact (no_uarg_unmarked _ _ _ x K eq_refl Hu). }
  destruct (A_log _ _ A s x Hl) as (fp & [<-|[]] & Hs & Hu). cbn [fst] in *.
  split; [congruence|]. cbn [final e0 drop_to]. rewrite <- Hs, Hfid. cbn [Nat.eqb lookup].
  destruct (A_frames _ _ A) as [K _].
  assert (Hn : ~ In x (vardecls p ++ lexdecls p)).
  { intros Hi. apply (K_pend _ _ _ K x Hu). apply Hfull. exact Hi. }
  apply mem_not_in in Hn. rewrite Hn. reflexivity.
Qed.

(* ---- the theorem --------------------------------------------------------------------------------------------- *)
Lemma count_root_count_occ st r log :
  count_root st r log = count_occ Nat.eq_dec (map (root_of st) (rev log)) r.
Proof.
  unfold count_root. rewrite map_rev. rewrite <- (rev_involutive (map (root_of st) log)) at 1.
  assert (H : forall l : list nat, count_occ Nat.eq_dec (rev l) r = count_occ Nat.eq_dec l r).
  { induction l as [|h t IH]; [reflexivity|]. cbn [rev]. rewrite count_occ_app. cbn [count_occ].
    destruct (Nat.eq_dec h r); rewrite IH; lia. }
  rewrite H. rewrite rev_involutive.
  induction log as [|u t IH]; [reflexivity|]. cbn [filter map count_occ].
  destruct (Nat.eqb_spec (root_of st u) r) as [E|E]; destruct (Nat.eq_dec (root_of st u) r) as [E'|E']; try contradiction; cbn [length]; rewrite IH; reflexivity.
Qed.

Theorem resolution_correct_m p :
  core_x p = true -> program_ok p = true -> Z.of_nat (occurrences p) < 65536 ->
  exists ps,
    run_program p = Running ps /\
    let st := pst ps in
    let vs := map (root_of st) (rev (plog ps)) in
    let ts := spec_resolve_m p in
    length vs = length ts /\
    (forall i j, (i < length vs)%nat -> (j < length vs)%nat ->
       (nth i vs O = nth j vs O <-> nth i ts (TGlobal 0) = nth j ts (TGlobal 0))) /\
    (forall i x, (i < length vs)%nat -> nth i ts (TGlobal 0) = TGlobal x ->
       In (nth i vs O) (sundeclared (sc_of st O)) /\ vdecl (vget st (nth i vs O)) = NoDecl
       /\ vname (vget st (nth i vs O)) = x) /\
    (forall i s a x, (i < length vs)%nat -> nth i ts (TGlobal 0) = TBind s a x ->
       vdecl (vget st (nth i vs O)) <> NoDecl /\ vname (vget st (nth i vs O)) = x) /\
    (forall i, (i < length vs)%nat ->
       vuses (vget st (nth i vs O)) = Z.of_nat (count_occ Nat.eq_dec vs (nth i vs O))).
Proof.
  intros Hc Hok Hocc.
  destruct (am_program p Hc Hok) as (a' & fr' & Hrun & A' & Hfid & Hfull & Hfin).
  assert (Hn : nocc (linearise p) < 65536) by (rewrite nocc_linearise; lia).
  pose proof (sim_program (linearise p) Hn) as Hsim. unfold program_events in Hrun. rewrite Hrun in Hsim.
  destruct Hsim as (ps & stk & home & Hprun & [Rc RS RU] & Eabs).
  exists ps. split; [exact Hprun|]. cbn zeta.
  set (st := pst ps) in *. set (log := plog ps) in *.
  (* the open stack is the module scope *)
  assert (Estk : stk = [O]).
  { pose proof (f_equal astack Eabs) as Es. rewrite (A_stack _ _ A') in Es. unfold absp, abs in Es. cbn [astack map fst] in Es.
    destruct stk as [|s [|s2 r]]; cbn in Es; try discriminate. injection Es as Es. f_equal.
    rewrite Es in Hfid. exact Hfid. }
  subst stk.
  assert (Elog : alog a' = map (lab_of st home) log) by (rewrite Eabs; reflexivity).
  (* targets, read off the labels *)
  assert (Ets : spec_resolve_m p = map (fun w => final (e0 p) (lab_of st home w)) (rev log)).
  { rewrite <- (rev_involutive (spec_resolve_m p)), <- Hfin, Elog. rewrite map_map, map_rev. reflexivity. }
  assert (Hval : forall w, In w (rev log) -> (w < nvars st)%nat) by (intros w Hw; apply (I_log _ _ _ _ _ RS); apply in_rev; exact Hw).
  assert (Hlab : forall w, In w (rev log) ->
            match lab_of st home w with
            | LDecl s x => final (e0 p) (lab_of st home w) = TBind s false x
            | LPend s x => s = O /\ final (e0 p) (lab_of st home w) = TGlobal x
            | LArg _ _ => False
            end).
  { intros w Hw. apply (end_labels p a' fr' A' Hfid Hfull). rewrite Elog. apply in_map. apply in_rev. exact Hw. }
  assert (Hroot : forall w, (w < nvars st)%nat ->
            (root_of st w < nvars st)%nat /\ is_root st (root_of st w)).
  { intros w Hw. destruct (root_of_spec st home w (I_links _ _ _ _ _ RS) (I_homes _ _ _ _ _ RS) Hw) as (n & Hre & _ & Hr & _).
    split; [exact Hr|eapply reach_root; exact Hre]. }
  split; [rewrite Ets, !map_length; reflexivity|].
  rewrite map_length.
  assert (Hnth_v : forall i, (i < length (rev log))%nat -> nth i (map (root_of st) (rev log)) O = root_of st (nth i (rev log) O)).
  { intros i Hi. rewrite (nth_indep _ O (root_of st O)) by (rewrite map_length; exact Hi). apply map_nth. }
  assert (Hnth_t : forall i, (i < length (rev log))%nat ->
            nth i (spec_resolve_m p) (TGlobal 0) = final (e0 p) (lab_of st home (nth i (rev log) O))).
  { intros i Hi. rewrite Ets.
    rewrite (nth_indep _ (TGlobal 0) (final (e0 p) (lab_of st home O))) by (rewrite map_length; exact Hi).
    apply (map_nth (fun w => final (e0 p) (lab_of st home w))). }
  split; [|split; [|split]].
  - (* same Var iff same declaration *)
    intros i j Hi Hj. rewrite !Hnth_v, !Hnth_t by assumption.
    set (wi := nth i (rev log) O). set (wj := nth j (rev log) O).
    assert (Hwi : In wi (rev log)) by (apply nth_In; exact Hi).
    assert (Hwj : In wj (rev log)) by (apply nth_In; exact Hj).
    split.
    + intros E. unfold lab_of. rewrite E. reflexivity.
    + intros E. pose proof (Hlab wi Hwi) as Li. pose proof (Hlab wj Hwj) as Lj.
      destruct (Hroot wi (Hval wi Hwi)) as [Vi Ri]. destruct (Hroot wj (Hval wj Hwj)) as [Vj Rj].
      unfold lab_of in *. unfold lab_root in *.
      destruct (Z.eqb_spec (vdecl (vget st (root_of st wi))) 0) as [Di|Di];
        destruct (Z.eqb_spec (vdecl (vget st (root_of st wj))) 0) as [Dj|Dj].
      * destruct (argp st home (root_of st wi)) eqn:Ai; [destruct Li|]. destruct (argp st home (root_of st wj)) eqn:Aj; [destruct Lj|].
        destruct Li as [Hi0 Li]. destruct Lj as [Hj0 Lj]. rewrite Li, Lj in E. injection E as E.
        apply (pend_label_inj st log [O] home no_extra _ _ RS Vi Vj Ri Rj Di Dj); [congruence|exact E|congruence|intros []|intros []].
      * destruct (argp st home (root_of st wi)) eqn:Ai; [destruct Li|].
        destruct Li as [_ Li]. rewrite Li, Lj in E. discriminate.
      * destruct (argp st home (root_of st wj)) eqn:Aj; [destruct Lj|].
        destruct Lj as [_ Lj]. rewrite Li, Lj in E. discriminate.
      * rewrite Li, Lj in E. injection E as E1 E2.
        apply (decl_label_inj st log [O] home no_extra _ _ RS Vi Vj Ri Rj Di Dj); assumption.
  - (* unbound names are undeclared variables of the module scope *)
    intros i x Hi Ex. rewrite Hnth_v, Hnth_t in * by assumption.
    set (wi := nth i (rev log) O) in *.
    assert (Hwi : In wi (rev log)) by (apply nth_In; exact Hi).
    pose proof (Hlab wi Hwi) as Li. destruct (Hroot wi (Hval wi Hwi)) as [Vi Ri].
    unfold lab_of in *. unfold lab_root in *.
    destruct (Z.eqb_spec (vdecl (vget st (root_of st wi))) 0) as [Di|Di].
    + destruct (argp st home (root_of st wi)) eqn:Ai; [destruct Li|].
      destruct Li as [Hi0 Li]. rewrite Li in Ex. injection Ex as Ex.
      destruct (I_pend_complete _ _ _ _ _ RS _ Vi Ri Di) as [[_ Hin]|[]].
      rewrite Hi0 in Hin. split; [exact Hin|]. split; [exact Di|exact Ex].
    + rewrite Li in Ex. discriminate.
  - (* bound names are declared variables *)
    intros i s a x Hi Ex. rewrite Hnth_v, Hnth_t in * by assumption.
    set (wi := nth i (rev log) O) in *.
    assert (Hwi : In wi (rev log)) by (apply nth_In; exact Hi).
    pose proof (Hlab wi Hwi) as Li.
    unfold lab_of in *. unfold lab_root in *.
    destruct (Z.eqb_spec (vdecl (vget st (root_of st wi))) 0) as [Di|Di].
    + destruct (argp st home (root_of st wi)) eqn:Ai; [destruct Li|].
      destruct Li as [_ Li]. rewrite Li in Ex. discriminate.
    + rewrite Li in Ex. injection Ex as _ _ Ex. split; [exact Di|exact Ex].
  - (* Uses *)
    intros i Hi. rewrite Hnth_v by exact Hi.
    set (wi := nth i (rev log) O).
    assert (Hwi : In wi (rev log)) by (apply nth_In; exact Hi).
    destruct (Hroot wi (Hval wi Hwi)) as [Vi Ri].
    rewrite (I_count _ _ RU _ Vi Ri). f_equal. apply count_root_count_occ.
Qed.

(* the same for the declarative resolver itself, where auxiliary and main scopes share no name *)
Theorem resolution_correct_core p :
  core_x p = true -> program_ok p = true -> aux_distinct (spec_resolve p) = true -> Z.of_nat (occurrences p) < 65536 ->
  exists ps,
    run_program p = Running ps /\
    let st := pst ps in
    let vs := map (root_of st) (rev (plog ps)) in
    let ts := spec_resolve p in
    length vs = length ts /\
    (forall i j, (i < length vs)%nat -> (j < length vs)%nat ->
       (nth i vs O = nth j vs O <-> nth i ts (TGlobal 0) = nth j ts (TGlobal 0))) /\
    (forall i x, (i < length vs)%nat -> nth i ts (TGlobal 0) = TGlobal x ->
       In (nth i vs O) (sundeclared (sc_of st O)) /\ vdecl (vget st (nth i vs O)) = NoDecl
       /\ vname (vget st (nth i vs O)) = x) /\
    (forall i s a x, (i < length vs)%nat -> nth i ts (TGlobal 0) = TBind s a x ->
       vdecl (vget st (nth i vs O)) <> NoDecl /\ vname (vget st (nth i vs O)) = x) /\
    (forall i, (i < length vs)%nat ->
       vuses (vget st (nth i vs O)) = Z.of_nat (count_occ Nat.eq_dec vs (nth i vs O))).
Proof.
  intros Hc Hok Haux Hocc.
  destruct (resolution_correct_m p Hc Hok Hocc) as (ps & Hrun & R). exists ps. split; [exact Hrun|]. cbn zeta in *.
  set (st := pst ps) in *. set (vs := map (root_of st) (rev (plog ps))) in *. set (ts := spec_resolve p) in *.
  rewrite <- (spec_resolve_erase p) in R. fold ts in R. rewrite map_length in R.
  destruct R as (Rlen & Riff & Rglob & Rbound & Ruses).
  assert (Hnth : forall i, (i < length ts)%nat -> nth i (map erase ts) (TGlobal 0) = erase (nth i ts (TGlobal 0))).
  { intros i Hi. rewrite (nth_indep _ (TGlobal 0) (erase (TGlobal 0))) by (rewrite map_length; exact Hi). apply map_nth. }
  split; [exact Rlen|]. split; [|split; [|split; [|exact Ruses]]].
  - intros i j Hi Hj. rewrite (Riff i j Hi Hj). rewrite !Hnth by (rewrite <- Rlen; assumption). split.
    + apply (erase_inj ts _ _ Haux); apply nth_In; rewrite <- Rlen; assumption.
    + intros ->. reflexivity.
  - intros i x Hi Ex. apply (Rglob i x Hi). rewrite Hnth by (rewrite <- Rlen; exact Hi). rewrite Ex. reflexivity.
  - intros i s a x Hi Ex. apply (Rbound i s false x Hi). rewrite Hnth by (rewrite <- Rlen; exact Hi). rewrite Ex. reflexivity.
Qed.

(* the fragment without function-expression names and loops has no auxiliary scopes *)
Corollary resolution_correct_core_d p :
  core_d p = true -> program_ok p = true -> Z.of_nat (occurrences p) < 65536 ->
  exists ps,
    run_program p = Running ps /\
    let st := pst ps in
    let vs := map (root_of st) (rev (plog ps)) in
    let ts := spec_resolve p in
    length vs = length ts /\
    (forall i j, (i < length vs)%nat -> (j < length vs)%nat ->
       (nth i vs O = nth j vs O <-> nth i ts (TGlobal 0) = nth j ts (TGlobal 0))) /\
    (forall i x, (i < length vs)%nat -> nth i ts (TGlobal 0) = TGlobal x ->
       In (nth i vs O) (sundeclared (sc_of st O)) /\ vdecl (vget st (nth i vs O)) = NoDecl
       /\ vname (vget st (nth i vs O)) = x) /\
    (forall i s a x, (i < length vs)%nat -> nth i ts (TGlobal 0) = TBind s a x ->
       vdecl (vget st (nth i vs O)) <> NoDecl /\ vname (vget st (nth i vs O)) = x) /\
    (forall i, (i < length vs)%nat ->
       vuses (vget st (nth i vs O)) = Z.of_nat (count_occ Nat.eq_dec vs (nth i vs O))).
Proof.
  intros Hc Hok Hocc. apply resolution_correct_core; [apply (proj1 (core_d_core_x p)); exact Hc|exact Hok| |exact Hocc].
  apply core_d_aux_distinct. exact Hc.
Qed.

(* ---- the hypotheses are satisfiable: shadowing, use before declaration, hoisting through nested and
   sibling blocks, a closure that uses a variable declared later, a free name -------------------------------- *)
(*   a; { b; { var a } a; let b; { b } } function f(a, c) { a; d; { var d } let e; c } (function(){ e; g }); let e; f   *)
Definition example_prog : prog :=
  Ref 1 (Block (Ref 2 (Block (Decl DVar 1 Done) (Ref 1 (Decl DLex 2 (Block (Ref 2 Done) Done)))))
  (Decl DFun 6 (Func None (Decl DParam 1 (Decl DParam 3 Done))
                  (Ref 1 (Ref 4 (Block (Decl DVar 4 Done) (Decl DLex 5 (Ref 3 Done)))))
  (Func None Done (Ref 5 (Ref 7 Done))
  (Decl DLex 5 (Ref 6 Done)))))).

Example example_hyps :
  core example_prog = true /\ program_ok example_prog = true /\ Z.of_nat (occurrences example_prog) < 65536.
Proof. vm_compute. repeat split; reflexivity. Qed.

Example example_partition :
  option_map (canon Nat.eqb) (occurrence_vars example_prog) = Some (canon target_eqb (spec_resolve example_prog))
  /\ canon target_eqb (spec_resolve example_prog) = [0; 1; 0; 0; 1; 1; 2; 3; 4; 3; 5; 5; 6; 4; 7; 8; 7; 2]%nat.
Proof. vm_compute. split; reflexivity. Qed.

(* default values: an earlier parameter, an outer binding, a free name, a closure in a default value with its
   own parameters and defaults, shadowing of a default's name by an inner function                            *)
(*   let a; function f(b, c = b, d = a, e = g, h = function(i, j = i){ i; j; b; k }, l = (m = b) => { m; a }) { b; c; let n; { var o } n; o }
     var k; a; f                                                                                               *)
Definition example_prog_d : prog :=
  Decl DLex 1 (Decl DFun 6
    (Func None
       (Decl DParam 2 (Decl DParam 3 (Ref 2 (Decl DParam 4 (Ref 1 (Decl DParam 5 (Ref 7 (Decl DParam 8
         (Func None (Decl DParam 9 (Decl DParam 10 (Ref 9 Done))) (Ref 9 (Ref 10 (Ref 2 (Ref 11 Done))))
         (Decl DParam 12
         (Arrow (Decl DParam 13 (Ref 2 Done)) (Ref 13 (Ref 1 Done))
         Done)))))))))))
       (Ref 2 (Ref 3 (Decl DLex 14 (Block (Decl DVar 15 Done) (Ref 14 (Ref 15 Done))))))
    (Decl DVar 11 (Ref 1 (Ref 6 Done))))).

Example example_d_hyps :
  core_d example_prog_d = true /\ core example_prog_d = false /\ program_ok example_prog_d = true
  /\ Z.of_nat (occurrences example_prog_d) < 65536.
Proof. vm_compute. repeat split; reflexivity. Qed.

Example example_d_partition :
  option_map (canon Nat.eqb) (occurrence_vars example_prog_d) = Some (canon target_eqb (spec_resolve example_prog_d)).
Proof. vm_compute. reflexivity. Qed.

(* class bodies: methods with parameters and defaults, field values, a static block with let, a class in a
   default value, references from methods to names declared later                                            *)
(*   class A { m(a, b = a){ a; b; c; A } f = d; static { let e; e; c } }  function g(h = class { n(){ h; i } }){ var i }  let c; g   *)
Definition example_prog_c : prog :=
  Decl DLex 1 (Class None
     (Func None (Decl DParam 2 (Decl DParam 3 (Ref 2 Done))) (Ref 2 (Ref 3 (Ref 4 (Ref 1 Done))))
     (Ref 5
     (Block (Decl DLex 6 (Ref 6 (Ref 4 Done))) Done)))
  (Decl DFun 7 (Func None (Decl DParam 8 (Class None (Func None Done (Ref 8 (Ref 10 Done)) Done) Done)) (Decl DVar 9 Done)
  (Decl DLex 4 (Ref 7 Done))))).

Example example_c_hyps :
  core_d example_prog_c = true /\ program_ok example_prog_c = true /\ Z.of_nat (occurrences example_prog_c) < 65536.
Proof. vm_compute. repeat split; reflexivity. Qed.

Example example_c_partition :
  option_map (canon Nat.eqb) (occurrence_vars example_prog_c) = Some (canon target_eqb (spec_resolve example_prog_c)).
Proof. vm_compute. reflexivity. Qed.

(* loops and function-expression names: a for(let ...) with an initialiser and a closure in the body, var in
   a loop head, a nested loop, a named function expression that calls itself, one in a default value      *)
(*   let a; for (let i = a, j = i; ; ) { i; j; (function(){ i; k }); let c; var k }
     for (var v of a) { v; for (let w of v) { w; v } }
     (function f(n, h = function g(){ g; n }) { f; n; h; var q });  k; v                                   *)
Definition example_prog_x : prog :=
  Decl DLex 1
  (For (Decl DLex 2 (Ref 1 (Decl DLex 3 (Ref 2 Done))))
       (Ref 2 (Ref 3 (Func None Done (Ref 2 (Ref 4 Done)) (Decl DLex 5 (Decl DVar 4 Done)))))
  (For (Decl DVar 6 (Ref 1 Done))
       (Ref 6 (For (Decl DLex 7 (Ref 6 Done)) (Ref 7 (Ref 6 Done)) Done))
  (Func (Some 8) (Decl DParam 9 (Decl DParam 10 (Func (Some 11) Done (Ref 11 (Ref 9 Done)) Done)))
        (Ref 8 (Ref 9 (Ref 10 (Decl DVar 12 Done))))
  (Ref 4 (Ref 6 Done))))).

Example example_x_hyps :
  core_x example_prog_x = true /\ core_d example_prog_x = false /\ program_ok example_prog_x = true
  /\ aux_distinct (spec_resolve example_prog_x) = true /\ Z.of_nat (occurrences example_prog_x) < 65536.
Proof. vm_compute. repeat split; reflexivity. Qed.

Example example_x_partition :
  option_map (canon Nat.eqb) (occurrence_vars example_prog_x) = Some (canon target_eqb (spec_resolve example_prog_x)).
Proof. vm_compute. reflexivity. Qed.

(* uses frozen by a mark and declarations made after it: a loop head that mentions a name the loop body declares, a
   catch parameter pattern with default values (a forward reference inside the pattern, a name the catch block
   declares), a default value that mentions a name the function body declares                                   *)
(*   var c; for (let b of c) { c; let c }  try {} catch ([d = e, e = c]) { let c; d }  (function(g = c){ c; var c })   *)
Definition example_prog_y : prog :=
  Decl DVar 3
  (For (Decl DLex 2 (Ref 3 Done)) (Ref 3 (Decl DLex 3 Done))
  (Block Done
  (Catch (Decl DCatch 4 (Ref 5 (Decl DCatch 5 (Ref 3 Done)))) (Decl DLex 3 (Ref 4 Done))
  (Func None (Decl DParam 6 (Ref 3 Done)) (Ref 3 (Decl DVar 3 Done)) Done)))).

Example example_y_hyps :
  core_x example_prog_y = true /\ core_d example_prog_y = false /\ program_ok example_prog_y = true
  /\ Z.of_nat (occurrences example_prog_y) < 65536.
Proof. vm_compute. repeat split; reflexivity. Qed.

Example example_y_partition :
  option_map (canon Nat.eqb) (occurrence_vars example_prog_y) = Some (canon target_eqb (spec_resolve example_prog_y))
  /\ canon target_eqb (spec_resolve example_prog_y) = [0; 1; 0; 2; 2; 3; 4; 4; 0; 5; 3; 6; 0; 7; 7]%nat.
Proof. vm_compute. split; reflexivity. Qed.
