(* JsScope/Resolve6.v — layer 2, part 6: on the binding programs of the fragment the label machine runs to
   completion and its labels mean exactly what the declarative resolver computes: references and
   declarations. *)
From Coq Require Import ZifyBool.
From Verif Require Import Common.Base Common.Tactics JsScope.Model JsScope.Spec JsScope.Abs JsScope.HeapLemmas
  JsScope.SimUse JsScope.SimDeclare JsScope.SimDeclare3 JsScope.Resolve1 JsScope.Resolve2 JsScope.Resolve3 JsScope.Resolve4
  JsScope.Resolve5.

Lemma arun_app l1 l2 a : arun a (l1 ++ l2) = match arun a l1 with ARun a1 => arun a1 l2 | o => o end.
Proof.
  revert a. induction l1 as [|e t IH]; intros a; [reflexivity|]. cbn [app arun].
  destruct (astep a e); try reflexivity. apply IH.
Qed.

Lemma grow_rest_of_all V z z' : shape z' = shape z -> grow_rest V z z' -> grow [] V z z'.
Proof.
  intros Hs H. split; [exact Hs|]. destruct z as [|g r], z' as [|g' r']; cbn in H; try tauto.
  destruct H as [(A & B & _) Hr]. split; [exact A|]. split; [|exact Hr].
  intros y Hy. destruct (B y Hy) as [H|H]; [left; exact H|right; right; exact H].
Qed.

(* the blocks zpre keep their declared names and unresolved uses, the function frame T gains V and loses
   at most unresolved uses, nothing below changes *)
Lemma grow_rest_split V zpre : forall zpre' T T' p zpost,
  map dn zpre' = map dn zpre -> (forall g, In g zpre -> fisfunc (fst g) = false) ->
  (forall g g', In (g, g') (combine zpre zpre') -> forall y, In (UPend y) (fund (fst g')) -> In (UPend y) (fund (fst g))) ->
  (forall g g', In (g, g') (combine zpre zpre') -> forall y, In (UArg y) (fund (fst g')) -> In (UArg y) (fund (fst g))) ->
  grow_one V (T, p) (T', p) ->
  grow_rest V (zpre ++ (T, p) :: zpost) (zpre' ++ (T', p) :: zpost).
Proof.
  induction zpre as [|g t IH]; intros [|g' t'] T T' p zpost Hdn Hpre Hpend Harg HT; cbn in Hdn; try discriminate.
  - cbn. split; [exact HT|apply grow_rest_refl].
  - injection Hdn as H1 H2. cbn [app grow_rest]. split.
    + split; [rewrite H1; apply incl_refl|]. split; [intros y Hy; left; rewrite <- H1; exact Hy|]. split.
      * intros y Hy. apply (Hpend g g'); [left; reflexivity|exact Hy].
      * intros y Hy. apply (Harg g g'); [left; reflexivity|exact Hy].
    + unfold below. rewrite (Hpre g (or_introl eq_refl)). apply IH; [exact H2| | | |exact HT].
      * intros g0 Hg0. apply Hpre. right. exact Hg0.
      * intros g0 g0' Hin. apply Hpend. right. exact Hin.
      * intros g0 g0' Hin. apply Harg. right. exact Hin.
Qed.

Lemma func_dnames_app zpre T p r :
  (forall g, In g zpre -> fisfunc (fst g) = false) -> fisfunc T = true -> func_dnames (zpre ++ (T, p) :: r) = dnames T.
Proof.
  intros Hpre Hf. induction zpre as [|[g pg] rest IH]; cbn [app func_dnames]; [rewrite Hf; reflexivity|].
  pose proof (Hpre (g, pg) (or_introl eq_refl)) as Hg. cbn in Hg. rewrite Hg. apply IH. intros g' Hg'. apply Hpre. right. exact Hg'.
Qed.

Lemma L_decl_var' a fr pr rest decl x :
  AInv a ((fr, pr) :: rest) -> decl = VariableDecl \/ decl = FunctionDecl -> var_ok x ((fr, pr) :: rest) ->
  exists a' fr' rest',
    a_declare a decl x = ARun a' /\ AInv a' ((fr', pr) :: rest') /\
    grow [] [x] ((fr, pr) :: rest) ((fr', pr) :: rest') /\ In x (func_dnames ((fr', pr) :: rest')) /\
    ((forall y, In (UPend y) (fund fr') -> In (UPend y) (fund fr)) /\
     (forall y, In (UArg y) (fund fr') -> In (UArg y) (fund fr))) /\
    anext a' = anext a /\
    map (final (env_of ((fr, pr) :: rest))) (alog a')
    = TBind (func_of ((fr, pr) :: rest)) false x :: map (final (env_of ((fr, pr) :: rest))) (alog a).
Proof.
  intros A Hd Hv.
  destruct (L_decl_var a ((fr, pr) :: rest) decl x A Hd Hv) as (a' & z' & H1 & A' & Hs & Hn & Hfin & Hstruct).
  destruct (walk_ok decl x ((fr, pr) :: rest) (A_frames _ _ A) Hv) as (zpre & T & prT & zpost & Ez & _ & HfT & _ & Hpre & _).
  destruct (Hstruct zpre T prT zpost Ez HfT (fun g Hg => proj1 (Hpre g Hg)))
    as (zpre' & T' & Ez' & Hdn & _ & Hpre' & HfT' & Hx & Hmono & Hbound & Hfund & Hpend & Harg).
  assert (G : grow [] [x] ((fr, pr) :: rest) z').
  { apply grow_rest_of_all; [exact Hs|]. rewrite Ez, Ez'. apply grow_rest_split.
    - exact Hdn.
    - intros g Hg. apply Hpre. exact Hg.
    - intros g g' Hin y Hy. apply (Hpend g g' Hin y). exact Hy.
    - exact Harg.
    - split; [exact Hmono|]. split; [|split].
      + intros y Hy. destruct (Hbound y Hy) as [H| ->]; [left; exact H|right; left; reflexivity].
      + intros y Hy. apply Hfund. exact Hy.
      + intros y Hy. apply Hfund. exact Hy. }
  destruct (shape_cons_inv z' fr pr rest Hs) as (fr' & rest' & -> & _).
  exists a', fr', rest'. split; [exact H1|]. split; [exact A'|]. split; [exact G|]. split.
  { rewrite Ez'. rewrite func_dnames_app by assumption. exact Hx. }
  split; [|split; [exact Hn|exact Hfin]].
  (* the unresolved uses of the top frame do not grow *)
  destruct zpre as [|g0 zpre0].
  - cbn [app] in Ez. injection Ez as E1 E2 E3. subst T prT zpost.
    destruct zpre' as [|g0' zpre0']; [|cbn in Hdn; discriminate]. cbn [app] in Ez'. injection Ez' as E1' E2'. subst fr' rest'.
    split; intros y Hy; apply Hfund; exact Hy.
  - cbn [app] in Ez. injection Ez as E1 E2. subst g0.
    destruct zpre' as [|g0' zpre0']; [cbn in Hdn; discriminate|]. cbn [app] in Ez'. injection Ez' as E1' E2'. subst g0'.
    split; intros y Hy; [apply (Hpend (fr, pr) (fr', pr)); [left; reflexivity|exact Hy]|apply (Harg (fr, pr) (fr', pr)); [left; reflexivity|exact Hy]].
Qed.

(* what the induction over binding programs establishes *)
(* c: the head declarations of p are catch parameters (lexical names of the scope, which adopt the earlier uses of
   the pattern) rather than function parameters (var-like names that no default value has mentioned yet) *)
Definition hk (c : bool) (pr : promise) (x : Z) : Prop := if c then In x (plex pr) else In x (pvar pr).

Definition run_ok_gen (c : bool) (p : prog) : Prop :=
  forall a fr pr rest,
    AInv a ((fr, pr) :: rest) -> NoDup (lexdecls p) ->
    (forall x, In x (lexdecls p) -> In x (plex pr) /\ ~ In x (dnames fr)) ->
    (forall x, In x (vardecls p) -> var_ok x ((fr, pr) :: rest)) ->
    NoDup (headdecls p) ->
    (forall x, In x (headdecls p) -> hk c pr x /\ ~ In x (dnames fr) /\ (c = false -> ~ In (UPend x) (fund fr))) ->
    spec_ok p = true ->
    exists a' fr' rest',
      arun a (linearise p) = ARun a' /\ AInv a' ((fr', pr) :: rest') /\
      grow (lexdecls p ++ headdecls p) (vardecls p) ((fr, pr) :: rest) ((fr', pr) :: rest') /\
      (forall x, In x (lexdecls p) -> In x (dnames fr')) /\
      (forall x, In x (vardecls p) -> In x (func_dnames ((fr', pr) :: rest'))) /\
      (forall x, In x (headdecls p) -> In x (dnames fr')) /\
      (forall y, In (UPend y) (fund fr') -> In (UPend y) (fund fr) \/ In y (allnames p)) /\
      (forall y, In (UArg y) (fund fr') -> In (UArg y) (fund fr)) /\
      map (final (env_of ((fr, pr) :: rest))) (alog a')
        = rev (fst (resolve_m (env_of ((fr, pr) :: rest)) (func_of ((fr, pr) :: rest)) (fid fr) false (anext a) p))
          ++ map (final (env_of ((fr, pr) :: rest))) (alog a) /\
      anext a' = snd (resolve_m (env_of ((fr, pr) :: rest)) (func_of ((fr, pr) :: rest)) (fid fr) false (anext a) p).

Notation run_ok := (run_ok_gen false).

Lemma run_ok_gen_nil c c' p : headdecls p = [] -> run_ok_gen c p -> run_ok_gen c' p.
Proof.
  intros H0 H a fr pr rest A Hnd Hlex Hvar Hndh Hhead Hok. apply (H a fr pr rest A Hnd Hlex Hvar Hndh); [|exact Hok].
  rewrite H0. intros x [].
Qed.

Lemma grow_shape L V z z' : grow L V z z' -> shape z' = shape z.
Proof. intros [H _]. exact H. Qed.

Lemma grow_top L V fr pr rest fr' rest' :
  grow L V ((fr, pr) :: rest) ((fr', pr) :: rest') ->
  incl (dnames fr) (dnames fr') /\ (forall y, In y (dnames fr') -> In y (dnames fr) \/ In y L \/ In y V) /\
  grow_rest (if fisfunc fr then [] else V) rest rest'.
Proof. intros [_ H]. exact H. Qed.

(* ---- Ref ------------------------------------------------------------------------------------------------------- *)
Lemma run_ok_ref c x k : (c = false -> ~ In x (headdecls k)) -> run_ok_gen c k -> run_ok_gen c (Ref x k).
Proof.
  intros Hxk IH a fr pr rest A Hnd Hlex Hvar Hndh Hhead Hok.
  destruct (L_use a fr pr rest x A) as (a1 & fr1 & L & H1 & A1 & E1 & E2 & E3 & _ & E4 & E5 & E6 & E7).
  assert (Hs1 : shape ((fr1, pr) :: rest) = shape ((fr, pr) :: rest)) by (cbn; rewrite E1, E2; reflexivity).
  assert (Edn : dnames fr1 = dnames fr) by (unfold dnames; rewrite E3; reflexivity).
  destruct (IH a1 fr1 pr rest A1 Hnd) as (a' & fr' & rest' & R1 & A' & G & P1 & P2 & P3 & P4 & P5 & F & N).
  { intros y Hy. rewrite Edn. apply Hlex. exact Hy. }
  { intros y Hy. apply (var_ok_shape y ((fr, pr) :: rest)); [symmetry; exact Hs1|apply Hvar; exact Hy]. }
  { exact Hndh. }
  { intros y Hy. destruct (Hhead y Hy) as (Q1 & Q2 & Q3). split; [exact Q1|]. split; [rewrite Edn; exact Q2|].
    intros Hc Hi. destruct (E7 _ Hi) as [Hi'|Hi']; [exact (Q3 Hc Hi')|]. injection Hi' as ->. exact (Hxk Hc Hy). }
  { exact Hok. }
  rewrite (env_of_shape _ _ Hs1), (func_of_shape _ _ Hs1), E1, E5 in F, N.
  exists a', fr', rest'. split.
  { cbn [linearise arun astep]. rewrite H1. exact R1. }
  split; [exact A'|]. split.
  { apply (grow_weaken ([] ++ lexdecls k ++ headdecls k) ([] ++ vardecls k)); [apply incl_refl|apply incl_refl|].
    eapply grow_trans; [|exact G]. apply grow_top_same; assumption. }
  split; [exact P1|]. split; [exact P2|]. split; [exact P3|]. split.
  { intros y Hy. cbn [allnames]. destruct (P4 y Hy) as [H|H]; [|right; right; exact H].
    destruct (E7 _ H) as [H'|H']; [left; exact H'|]. injection H' as ->. right. left. reflexivity. }
  split.
  { intros y Hy. destruct (E7 _ (P5 y Hy)) as [H'|H']; [exact H'|discriminate]. }
  cbn [resolve_m]. destruct (resolve_m (env_of ((fr, pr) :: rest)) (func_of ((fr, pr) :: rest)) (fid fr) false (anext a) k) as [r n1].
  cbn [fst snd] in *. split; [|exact N].
  rewrite F, E4. cbn [map rev]. rewrite E6, <- app_assoc. reflexivity.
Qed.

(* ---- Decl ------------------------------------------------------------------------------------------------------ *)
Lemma run_ok_lex x k : headdecls k = [] -> run_ok k -> run_ok (Decl DLex x k).
Proof.
  intros Hk0 IH a fr pr rest A Hnd Hlex Hvar _ _ Hok.
  cbn [lexdecls is_lex app] in Hnd, Hlex. inversion Hnd as [|? ? Hxk Hndk]; subst.
  destruct (Hlex x (or_introl eq_refl)) as [Hxp Hxn].
  destruct (L_decl_top a fr pr rest LexicalDecl x A (or_introl eq_refl) Hxn) as (a1 & fr1 & H1 & A1 & E1 & E2 & E3 & E4 & E5 & E6).
  { unfold pnames. apply in_app_iff. right. exact Hxp. } { intros _. exact Hxp. } { discriminate. }
  assert (Hs1 : shape ((fr1, pr) :: rest) = shape ((fr, pr) :: rest)) by (cbn; rewrite E1, E2; reflexivity).
  destruct (IH a1 fr1 pr rest A1 Hndk) as (a' & fr' & rest' & R1 & A' & G & P1 & P2 & P3 & P4 & P5 & F & N).
  { intros y Hy. destruct (Hlex y (or_intror Hy)) as [Hyp Hyn]. split; [exact Hyp|]. rewrite E3. intros Hi. apply in_app_last in Hi.
    destruct Hi as [Hi| ->]; contradiction. }
  { intros y Hy. apply (var_ok_shape y ((fr, pr) :: rest)); [symmetry; exact Hs1|apply Hvar; exact Hy]. }
  { rewrite Hk0. constructor. }
  { rewrite Hk0. intros y []. }
  { exact Hok. }
  rewrite (env_of_shape _ _ Hs1), (func_of_shape _ _ Hs1), E1, E5 in F, N.
  destruct (grow_top _ _ _ _ _ _ _ G) as (Gi & _ & _).
  exists a', fr', rest'. split.
  { cbn [linearise arun astep decl_code]. unfold LexicalDecl, NoDecl. cbn [Z.eqb]. fold LexicalDecl. rewrite H1. exact R1. }
  split; [exact A'|]. split.
  { cbn [lexdecls vardecls headdecls is_lex is_var app].
    apply (grow_weaken ([x] ++ lexdecls k ++ headdecls k) ([] ++ vardecls k)); [apply incl_refl|apply incl_refl|].
    eapply grow_trans; [|exact G]. split; [exact Hs1|]. unfold dn. cbn [fst]. rewrite E3.
    split; [intros y Hy; apply in_app_iff; left; exact Hy|]. split; [|apply grow_rest_refl].
    intros y Hy. apply in_app_last in Hy. destruct Hy as [Hy| ->]; [left; exact Hy|right; left; left; reflexivity]. }
  split.
  { cbn [lexdecls is_lex app]. intros y [<-|Hy]; [apply Gi; rewrite E3; apply in_app_last; right; reflexivity|apply P1; exact Hy]. }
  split; [exact P2|]. split; [cbn [headdecls app]; exact P3|]. split.
  { intros y Hy. cbn [allnames]. destruct (P4 y Hy) as [H|H]; [left; apply E4; exact H|right; right; exact H]. }
  split.
  { intros y Hy. apply E4. apply P5. exact Hy. }
  cbn [resolve_m is_var]. destruct (resolve_m (env_of ((fr, pr) :: rest)) (func_of ((fr, pr) :: rest)) (fid fr) false (anext a) k) as [r n1].
  cbn [fst snd] in *. split; [|exact N].
  rewrite F, E6. cbn [map rev]. rewrite <- app_assoc. reflexivity.
Qed.

Lemma run_ok_param x k : run_ok k -> run_ok (Decl DParam x k).
Proof.
  intros IH a fr pr rest A Hnd Hlex Hvar Hndh Hhead Hok.
  cbn [lexdecls is_lex app] in Hnd, Hlex. cbn [vardecls is_var app] in Hvar. cbn [headdecls app] in Hndh, Hhead.
  inversion Hndh as [|? ? Hxk Hndk]; subst.
  destruct (Hhead x (or_introl eq_refl)) as (Hxp & Hxn & Hxu). cbn [hk] in Hxp. specialize (Hxu eq_refl).
  destruct (L_decl_top a fr pr rest ArgumentDecl x A (or_intror (or_introl eq_refl)) Hxn) as (a1 & fr1 & H1 & A1 & E1 & E2 & E3 & E4 & E5 & E6).
  { unfold pnames. apply in_app_iff. left. exact Hxp. } { intros H. exfalso. apply H. reflexivity. } { intros _. exact Hxu. }
  assert (Hs1 : shape ((fr1, pr) :: rest) = shape ((fr, pr) :: rest)) by (cbn; rewrite E1, E2; reflexivity).
  pose proof (A_frames _ _ A) as [Kfr _].
  destruct (IH a1 fr1 pr rest A1 Hnd) as (a' & fr' & rest' & R1 & A' & G & P1 & P2 & P3 & P4 & P5 & F & N).
  { intros y Hy. destruct (Hlex y Hy) as [Hyp Hyn]. split; [exact Hyp|]. rewrite E3. intros Hi. apply in_app_last in Hi.
    destruct Hi as [Hi| ->]; [contradiction|]. apply (K_disj _ _ _ Kfr x Hyp Hxp). }
  { intros y Hy. apply (var_ok_shape y ((fr, pr) :: rest)); [symmetry; exact Hs1|apply Hvar; exact Hy]. }
  { exact Hndk. }
  { intros y Hy. destruct (Hhead y (or_intror Hy)) as (Q1 & Q2 & Q3). split; [exact Q1|]. split.
    - rewrite E3. intros Hi. apply in_app_last in Hi. destruct Hi as [Hi| ->]; contradiction.
    - intros Hc Hi. apply (Q3 Hc). apply E4. exact Hi. }
  { exact Hok. }
  rewrite (env_of_shape _ _ Hs1), (func_of_shape _ _ Hs1), E1, E5 in F, N.
  destruct (grow_top _ _ _ _ _ _ _ G) as (Gi & _ & _).
  exists a', fr', rest'. split.
  { cbn [linearise arun astep decl_code]. unfold ArgumentDecl, NoDecl. cbn [Z.eqb]. fold ArgumentDecl. rewrite H1. exact R1. }
  split; [exact A'|]. split.
  { cbn [lexdecls vardecls headdecls is_lex is_var app].
    apply (grow_weaken ([x] ++ lexdecls k ++ headdecls k) ([] ++ vardecls k)); [|apply incl_refl|].
    { intros y Hy. cbn [app] in Hy. destruct Hy as [<-|Hy]; [apply in_app_iff; right; left; reflexivity|].
      apply in_app_iff in Hy. apply in_app_iff. destruct Hy as [Hy|Hy]; [left; exact Hy|right; right; exact Hy]. }
    eapply grow_trans; [|exact G]. split; [exact Hs1|]. unfold dn. cbn [fst]. rewrite E3.
    split; [intros y Hy; apply in_app_iff; left; exact Hy|]. split; [|apply grow_rest_refl].
    intros y Hy. apply in_app_last in Hy. destruct Hy as [Hy| ->]; [left; exact Hy|right; left; left; reflexivity]. }
  split; [exact P1|]. split; [exact P2|]. split.
  { intros y [<-|Hy]; [apply Gi; rewrite E3; apply in_app_last; right; reflexivity|apply P3; exact Hy]. }
  split.
  { intros y Hy. cbn [allnames]. destruct (P4 y Hy) as [H|H]; [left; apply E4; exact H|right; right; exact H]. }
  split.
  { intros y Hy. apply E4. apply P5. exact Hy. }
  cbn [resolve_m is_var]. destruct (resolve_m (env_of ((fr, pr) :: rest)) (func_of ((fr, pr) :: rest)) (fid fr) false (anext a) k) as [r n1].
  cbn [fst snd] in *. split; [|exact N].
  rewrite F, E6. cbn [map rev]. rewrite <- app_assoc. reflexivity.
Qed.

(* a catch parameter: a lexical name of the catch scope; Declare adopts the uses the pattern has made of it *)
Lemma run_ok_catchparam x k : ~ In x (lexdecls k) -> run_ok_gen true k -> run_ok_gen true (Decl DCatch x k).
Proof.
  intros Hxl IH a fr pr rest A Hnd Hlex Hvar Hndh Hhead Hok.
  cbn [lexdecls is_lex app] in Hnd, Hlex. cbn [vardecls is_var app] in Hvar. cbn [headdecls app] in Hndh, Hhead.
  inversion Hndh as [|? ? Hxk Hndk]; subst.
  destruct (Hhead x (or_introl eq_refl)) as (Hxp & Hxn & _). cbn [hk] in Hxp.
  destruct (L_decl_top a fr pr rest CatchDecl x A (or_intror (or_intror (or_introl eq_refl))) Hxn) as (a1 & fr1 & H1 & A1 & E1 & E2 & E3 & E4 & E5 & E6).
  { unfold pnames. apply in_app_iff. right. exact Hxp. } { intros _. exact Hxp. } { discriminate. }
  assert (Hs1 : shape ((fr1, pr) :: rest) = shape ((fr, pr) :: rest)) by (cbn; rewrite E1, E2; reflexivity).
  pose proof (A_frames _ _ A) as [Kfr _].
  destruct (IH a1 fr1 pr rest A1 Hnd) as (a' & fr' & rest' & R1 & A' & G & P1 & P2 & P3 & P4 & P5 & F & N).
  { intros y Hy. destruct (Hlex y Hy) as [Hyp Hyn]. split; [exact Hyp|]. rewrite E3. intros Hi. apply in_app_last in Hi.
    destruct Hi as [Hi| ->]; [contradiction|]. exact (Hxl Hy). }
  { intros y Hy. apply (var_ok_shape y ((fr, pr) :: rest)); [symmetry; exact Hs1|apply Hvar; exact Hy]. }
  { exact Hndk. }
  { intros y Hy. destruct (Hhead y (or_intror Hy)) as (Q1 & Q2 & Q3). split; [exact Q1|]. split.
    - rewrite E3. intros Hi. apply in_app_last in Hi. destruct Hi as [Hi| ->]; contradiction.
    - discriminate. }
  { exact Hok. }
  rewrite (env_of_shape _ _ Hs1), (func_of_shape _ _ Hs1), E1, E5 in F, N.
  destruct (grow_top _ _ _ _ _ _ _ G) as (Gi & _ & _).
  exists a', fr', rest'. split.
  { cbn [linearise arun astep decl_code]. unfold CatchDecl, NoDecl in *. cbn [Z.eqb]. rewrite H1. exact R1. }
  split; [exact A'|]. split.
  { cbn [lexdecls vardecls headdecls is_lex is_var app].
    apply (grow_weaken ([x] ++ lexdecls k ++ headdecls k) ([] ++ vardecls k)); [|apply incl_refl|].
    { intros y Hy. cbn [app] in Hy. destruct Hy as [<-|Hy]; [apply in_app_iff; right; left; reflexivity|].
      apply in_app_iff in Hy. apply in_app_iff. destruct Hy as [Hy|Hy]; [left; exact Hy|right; right; exact Hy]. }
    eapply grow_trans; [|exact G]. split; [exact Hs1|]. unfold dn. cbn [fst]. rewrite E3.
    split; [intros y Hy; apply in_app_iff; left; exact Hy|]. split; [|apply grow_rest_refl].
    intros y Hy. apply in_app_last in Hy. destruct Hy as [Hy| ->]; [left; exact Hy|right; left; left; reflexivity]. }
  split; [exact P1|]. split; [exact P2|]. split.
  { intros y [<-|Hy]; [apply Gi; rewrite E3; apply in_app_last; right; reflexivity|apply P3; exact Hy]. }
  split.
  { intros y Hy. cbn [allnames]. destruct (P4 y Hy) as [H|H]; [left; apply E4; exact H|right; right; exact H]. }
  split.
  { intros y Hy. apply E4. apply P5. exact Hy. }
  cbn [resolve_m is_var]. destruct (resolve_m (env_of ((fr, pr) :: rest)) (func_of ((fr, pr) :: rest)) (fid fr) false (anext a) k) as [r n1].
  cbn [fst snd] in *. split; [|exact N].
  rewrite F, E6. cbn [map rev]. rewrite <- app_assoc. reflexivity.
Qed.

Lemma run_ok_var d x k : d = DVar \/ d = DFun -> headdecls k = [] -> run_ok k -> run_ok (Decl d x k).
Proof.
  intros Hd Hk0 IH a fr pr rest A Hnd Hlex Hvar _ _ Hok.
  assert (Elex : lexdecls (Decl d x k) = lexdecls k) by (destruct Hd as [-> | ->]; reflexivity).
  assert (Evar : vardecls (Decl d x k) = x :: vardecls k) by (destruct Hd as [-> | ->]; reflexivity).
  assert (Ehead : headdecls (Decl d x k) = []) by (destruct Hd as [-> | ->]; exact Hk0).
  rewrite Elex in Hnd, Hlex. rewrite Evar in Hvar.
  assert (Hdc : decl_code d = VariableDecl \/ decl_code d = FunctionDecl) by (destruct Hd as [-> | ->]; [left|right]; reflexivity).
  destruct (L_decl_var' a fr pr rest (decl_code d) x A Hdc (Hvar x (or_introl eq_refl)))
    as (a1 & fr1 & rest1 & H1 & A1 & G1 & Px & [Pu Pa] & N1 & F1).
  pose proof (grow_shape _ _ _ _ G1) as Hs1.
  destruct (grow_top _ _ _ _ _ _ _ G1) as (G1i & G1b & _).
  pose proof (A_frames _ _ A) as [Kfr _].
  assert (E1 : fid fr1 = fid fr) by (cbn in Hs1; injection Hs1 as H _; exact H).
  destruct (IH a1 fr1 pr rest1 A1 Hnd) as (a' & fr' & rest' & R1 & A' & G & P1 & P2 & P3 & P4 & P5 & F & N).
  { intros y Hy. destruct (Hlex y Hy) as [Hyp Hyn]. split; [exact Hyp|]. intros Hi.
    destruct (G1b y Hi) as [H|[[]|[<-|[]]]]; [contradiction|].
    apply (lex_var_contra fr pr rest x Kfr Hyp). apply Hvar. left. reflexivity. }
  { intros y Hy. apply (var_ok_shape y ((fr, pr) :: rest)); [symmetry; exact Hs1|apply Hvar; right; exact Hy]. }
  { rewrite Hk0. constructor. }
  { rewrite Hk0. intros y []. }
  { exact Hok. }
  rewrite (env_of_shape _ _ Hs1), (func_of_shape _ _ Hs1), E1, N1 in F, N.
  exists a', fr', rest'. split.
  { cbn [linearise arun astep].
    replace (decl_code d =? NoDecl) with false by (destruct Hd as [-> | ->]; reflexivity). rewrite H1. exact R1. }
  split; [exact A'|]. split.
  { rewrite Elex, Evar, Ehead, app_nil_r.
    apply (grow_weaken ([] ++ lexdecls k ++ headdecls k) ([x] ++ vardecls k)); [rewrite Hk0, app_nil_r; apply incl_refl|apply incl_refl|].
    eapply grow_trans; eassumption. }
  split; [rewrite Elex; exact P1|]. split.
  { rewrite Evar. intros y [<-|Hy]; [apply (func_dnames_mono _ _ _ _ G); exact Px|apply P2; exact Hy]. }
  split; [rewrite Ehead; intros y []|]. split.
  { intros y Hy. cbn [allnames]. destruct (P4 y Hy) as [H|H]; [left; apply Pu; exact H|right; right; exact H]. }
  split.
  { intros y Hy. apply Pa. apply P5. exact Hy. }
  cbn [resolve_m]. replace (is_var d) with true by (destruct Hd as [-> | ->]; reflexivity).
  destruct (resolve_m (env_of ((fr, pr) :: rest)) (func_of ((fr, pr) :: rest)) (fid fr) false (anext a) k) as [r n1].
  cbn [fst snd] in *. split; [|exact N].
  rewrite F, F1. cbn [map rev]. rewrite <- app_assoc. reflexivity.
Qed.
