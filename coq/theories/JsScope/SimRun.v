(* JsScope/SimRun.v — the parser's event runs are simulated by the label machine (layer 1 of C04). *)
From Coq Require Import ZifyBool.
From Verif Require Import Common.Base Common.Tactics JsScope.Model JsScope.Abs JsScope.HeapLemmas
  JsScope.SimDefs JsScope.SimUse JsScope.SimEnter JsScope.SimDeclare5 JsScope.SimExit2.

Record Rel (p : pstate) (stk : list nat) (home : nat -> nat) : Prop := {
  R_cur : pcur p = hd_error stk ;
  R_S : InvS (pst p) (plog p) stk home no_extra ;
  R_U : InvU (pst p) (plog p)
}.

Definition absp (p : pstate) (stk : list nat) (home : nat -> nat) : astate := abs (pst p) (plog p) stk home.

(* events that put an identifier occurrence into the tree *)
Definition nocc1 (e : event) : Z :=
  match e with
  | EDeclare _ _ | EUse _ | EParamOrUse _ | EClassExprName _ => 1
  | _ => 0
  end.

Fixpoint nocc (evs : list event) : Z :=
  match evs with [] => 0 | e :: t => nocc1 e + nocc t end.

Lemma nocc_nonneg evs : 0 <= nocc evs.
Proof. induction evs as [|e t IH]; cbn [nocc]; [lia|]. destruct e; cbn [nocc1]; lia. Qed.

Lemma sim_step p stk home e :
  Rel p stk home -> len (plog p) + nocc1 e < 65536 ->
  match astep (absp p stk home) e with
  | ARun a' => exists p' stk' home', pstep p e = Running p' /\ Rel p' stk' home' /\ a' = absp p' stk' home'
                                     /\ len (plog p') <= len (plog p) + nocc1 e
  | ARej => pstep p e = Rejected
  | AStuck => True
  end.
Proof.
  intros [Rc RS RU] Hlen. destruct p as [st cur log]. cbn [pst plog pcur] in *. unfold absp. cbn [pst plog].
  pose proof (len_nonneg log) as Hlog0.
  destruct stk as [|c rest]; [destruct (I_stack _ _ _ _ _ RS)|]. cbn [hd_error] in Rc. subst cur.
  destruct e; cbn [astep nocc1] in *; try exact I.
  - (* EEnter *)
    destruct (enter_all st log (c :: rest) c rest home is_func eq_refl RS RU) as (H1 & H2 & H3 & H4).
    rewrite H4. eexists (mkP _ _ _), (nscopes st :: c :: rest), home. cbn [pstep of_res]. rewrite H1. cbn [of_res].
    split; [reflexivity|]. split; [constructor; [reflexivity|assumption|assumption]|]. split; [reflexivity|]. cbn [plog]. lia.
  - (* EExit *)
    destruct rest as [|P rest']; [exact I|].
    destruct (sim_exit st log (c :: P :: rest') c P rest' home eq_refl RS RU ltac:(lia)) as (st' & home' & H1 & H2 & H3 & H4).
    rewrite H4. exists (mkP st' (Some P) log), (P :: rest'), home'. cbn [pstep]. rewrite H1. cbn [of_res].
    split; [reflexivity|]. split; [constructor; [reflexivity|assumption|assumption]|]. split; [reflexivity|]. cbn [plog]. lia.
  - (* EDeclare *)
    destruct (Z.eqb_spec decl NoDecl) as [|Hd]; [exact I|].
    pose proof (sim_declare st log (c :: rest) c rest home decl name eq_refl RS RU ltac:(lia) Hd) as H.
    destruct (a_declare (abs st log (c :: rest) home) decl name) as [a'| |]; [| |exact I].
    + destruct H as (st' & v & home' & H1 & H2 & H3 & H4).
      exists (mkP st' (Some c) (v :: log)), (c :: rest), home'. cbn [pstep pcur pst plog]. rewrite H1.
      split; [reflexivity|]. split; [constructor; [reflexivity|assumption|assumption]|]. split; [exact H4|]. cbn [plog]. rewrite len_cons. lia.
    + destruct H as (st' & H1). cbn [pstep pcur pst]. rewrite H1. reflexivity.
  - (* EUse *)
    destruct (sim_use st log (c :: rest) c rest home name eq_refl RS RU ltac:(lia)) as (st' & v & home' & H1 & H2 & H3 & H4).
    rewrite H4. exists (mkP st' (Some c) (v :: log)), (c :: rest), home'. cbn [pstep pcur pst plog]. rewrite H1.
    split; [reflexivity|]. split; [constructor; [reflexivity|assumption|assumption]|]. split; [reflexivity|]. cbn [plog]. rewrite len_cons. lia.
  - (* EMarkFor *)
    pose proof (sim_mark_for st log (c :: rest) c rest home eq_refl RS RU ltac:(lia)) as H.
    destruct (a_mark_for (abs st log (c :: rest) home)) as [a'| |]; [|destruct H|exact I].
    destruct H as (st' & H1 & H2 & H3 & H4).
    exists (mkP st' (Some c) log), (c :: rest), home. cbn [pstep pcur pst plog]. rewrite H1. cbn [rbind of_res].
    split; [reflexivity|]. split; [constructor; [reflexivity|assumption|assumption]|]. split; [exact H4|]. cbn [plog]. lia.
  - (* EMarkArgs *)
    pose proof (sim_mark_args st log (c :: rest) c rest home eq_refl RS RU ltac:(lia)) as H.
    destruct (a_mark_args (abs st log (c :: rest) home)) as [a'| |]; [|destruct H|exact I].
    destruct H as (st' & H1 & H2 & H3 & H4).
    exists (mkP st' (Some c) log), (c :: rest), home. cbn [pstep pcur pst plog]. rewrite H1. cbn [rbind of_res].
    split; [reflexivity|]. split; [constructor; [reflexivity|assumption|assumption]|]. split; [exact H4|]. cbn [plog]. lia.
  - (* EMarkCatch *)
    pose proof (sim_mark_catch st log (c :: rest) c rest home eq_refl RS RU ltac:(lia)) as H.
    destruct (a_mark_catch (abs st log (c :: rest) home)) as [a'| |]; [|destruct H|exact I].
    destruct H as (st' & H1 & H2 & H3 & H4).
    exists (mkP st' (Some c) log), (c :: rest), home. cbn [pstep pcur pst plog]. rewrite H1. cbn [rbind of_res].
    split; [reflexivity|]. split; [constructor; [reflexivity|assumption|assumption]|]. split; [exact H4|]. cbn [plog]. lia.
Qed.

Lemma sim_run : forall evs p stk home,
  Rel p stk home -> len (plog p) + nocc evs < 65536 ->
  match arun (absp p stk home) evs with
  | ARun a' => exists p' stk' home', prun p evs = Running p' /\ Rel p' stk' home' /\ a' = absp p' stk' home'
  | ARej => prun p evs = Rejected
  | AStuck => True
  end.
Proof.
  induction evs as [|e evs IH]; intros p stk home R Hlen.
  - cbn. exists p, stk, home. split; [reflexivity|]. split; [exact R|reflexivity].
  - cbn [nocc] in Hlen. pose proof (nocc_nonneg evs) as Hnn.
    cbn [arun prun]. pose proof (sim_step p stk home e R ltac:(lia)) as Hs.
    destruct (astep (absp p stk home) e) as [a1| |]; [| |exact I].
    + destruct Hs as (p1 & stk1 & home1 & H1 & R1 & -> & Hl). rewrite H1. apply IH; [exact R1|lia].
    + rewrite Hs. reflexivity.
Qed.

(* the state after the module scope has been entered *)
Definition st0 : state := mkState [] [mkScope None (Some O) [] [] 0 0 0].
Definition p0 : pstate := mkP st0 (Some O) [].

Lemma pstep_init : pstep init_pstate (EEnter true) = Running p0.
Proof. reflexivity. Qed.

Lemma astep_init : astep init_astate (EEnter true) = ARun (absp p0 [O] (fun _ => O)).
Proof. reflexivity. Qed.

Lemma Rel_init : Rel p0 [O] (fun _ => O).
Proof.
  constructor; [reflexivity| |].
  - constructor; cbn.
    + split; [unfold nscopes; cbn; lia|reflexivity].
    + intros s g Hs. unfold nscopes in Hs. cbn in Hs. assert (s = O) by lia. subst. cbn. intros E. inversion E. lia.
    + intros s v Hs. unfold nscopes in Hs. cbn in Hs. assert (s = O) by lia. subst. cbn. tauto.
    + intros v w Hv. unfold nvars in Hv. cbn in Hv. lia.
    + intros v Hv. unfold nvars in Hv. cbn in Hv. lia.
    + intros v [].
    + unfold nvars. cbn. lia.
    + intros s v Hs. unfold nscopes in Hs. cbn in Hs. assert (s = O) by lia. subst. cbn. tauto.
    + intros s Hs. unfold nscopes in Hs. cbn in Hs. assert (s = O) by lia. subst. cbn. constructor.
    + intros r Hr. unfold nvars in Hr. cbn in Hr. lia.
    + intros s v [<-|[]]. cbn. tauto.
    + intros s [<-|[]]. cbn. constructor.
    + intros s v1 v2 [<-|[]]. cbn. tauto.
    + intros r Hr. unfold nvars in Hr. cbn in Hr. lia.
    + intros s [<-|[]]. cbn. unfold len. cbn. lia.
  - constructor.
    + intros v Hv. unfold nvars in Hv. cbn in Hv. lia.
    + intros r Hr. unfold nvars in Hr. cbn in Hr. lia.
Qed.

(* the whole program: module scope entered, then the events *)
Theorem sim_program evs :
  nocc evs < 65536 ->
  match arun init_astate (EEnter true :: evs) with
  | ARun a' => exists p' stk' home', prun init_pstate (EEnter true :: evs) = Running p' /\ Rel p' stk' home'
                                     /\ a' = absp p' stk' home'
  | ARej => prun init_pstate (EEnter true :: evs) = Rejected
  | AStuck => True
  end.
Proof.
  intros Hlen. cbn [arun prun]. rewrite astep_init, pstep_init.
  apply sim_run; [exact Rel_init|]. cbn [plog p0]. unfold len. cbn. lia.
Qed.
