(* JsScope/Resolve3.v — layer 2, part 3: a declaration on the label machine keeps the invariant and means
   what the declarative resolver says. *)
From Coq Require Import ZifyBool.
From Verif Require Import Common.Base Common.Tactics JsScope.Model JsScope.Spec JsScope.Abs JsScope.HeapLemmas
  JsScope.SimUse JsScope.SimDeclare JsScope.SimDeclare3 JsScope.SimDeclare4 JsScope.Resolve1 JsScope.Resolve2.

Definition pass_frame (x : Z) (fs : nat) (g : zframe) : zframe := (add_pass x fs (fst g), snd g).

Lemma add_pass_shape x fs fr : fid (add_pass x fs fr) = fid fr /\ fisfunc (add_pass x fs fr) = fisfunc fr
                               /\ fdecl (add_pass x fs fr) = fdecl fr /\ fnarg (add_pass x fs fr) = fnarg fr.
Proof. unfold add_pass. destruct (existsb _ _); repeat split; reflexivity. Qed.

Lemma add_pass_fnfor x fs fr : fnfor (add_pass x fs fr) = fnfor fr.
Proof. unfold add_pass. destruct (existsb _ _); reflexivity. Qed.

Lemma add_pass_fund x fs fr e : In e (fund fr) -> In e (fund (add_pass x fs fr)).
Proof. unfold add_pass. destruct (existsb _ _); [tauto|]. cbn. intros H. apply in_app_iff. left. exact H. Qed.

Lemma add_pass_fund_inv x fs fr e : In e (fund (add_pass x fs fr)) -> In e (fund fr) \/ e = UPass x fs.
Proof.
  unfold add_pass. destruct (existsb _ _); [left; assumption|]. cbn. intros H. apply in_app_last in H. exact H.
Qed.

Lemma add_pass_pend x fs fr : pend_names (fund (add_pass x fs fr)) = pend_names (fund fr).
Proof. unfold add_pass. destruct (existsb _ _); [reflexivity|]. cbn. rewrite pend_names_app. cbn. apply app_nil_r. Qed.

Lemma add_pass_args x fs fr : arg_names (fund (add_pass x fs fr)) = arg_names (fund fr).
Proof. unfold add_pass. destruct (existsb _ _); [reflexivity|]. cbn. rewrite arg_names_app. cbn. apply app_nil_r. Qed.

Lemma add_pass_narg x fs fr n :
  (n <= length (fund fr))%nat ->
  (n <= length (fund (add_pass x fs fr)))%nat /\ firstn n (fund (add_pass x fs fr)) = firstn n (fund fr).
Proof.
  intros H. unfold add_pass. destruct (existsb _ _); [split; [exact H|reflexivity]|]. cbn [fund set_fund]. split.
  - rewrite app_length. lia.
  - rewrite firstn_app. replace (n - length (fund fr))%nat with O by lia. cbn [firstn]. apply app_nil_r.
Qed.

Lemma shape_declare x decl zpre T prT zpost :
  shape (map (pass_frame x (fid T)) zpre ++ (decl_frame T decl x, prT) :: zpost) = shape (zpre ++ (T, prT) :: zpost).
Proof.
  unfold shape. rewrite !map_app. cbn [map fst snd]. f_equal.
  - rewrite map_map. apply map_ext. intros [g pg]. cbn. destruct (add_pass_shape x (fid T) g) as (-> & -> & _). reflexivity.
  - destruct (decl_frame_shape T decl x) as [-> ->]. reflexivity.
Qed.

(* x passed through the blocks zpre down to the function scope T *)
Lemma pass_ok_pre x zpre T prT zpost :
  (forall g, In g zpre -> fisfunc (fst g) = false /\ ~ In x (pall (snd g))) ->
  fisfunc T = true -> In x (pnames prT) ->
  pass_ok x (fid T) (zpre ++ (T, prT) :: zpost).
Proof.
  intros Hpre Hf Hp. induction zpre as [|[g pg] rest IH]; cbn [app pass_ok].
  - rewrite Hf. split; [reflexivity|exact Hp].
  - destruct (Hpre (g, pg) (or_introl eq_refl)) as [H1 H2]. cbn in H1, H2. rewrite H1. split; [exact H2|].
    apply IH. intros g' Hg'. apply Hpre. right. exact Hg'.
Qed.

Lemma frames_ok_declare x decl zpre T prT zpost :
  frames_ok (zpre ++ (T, prT) :: zpost) ->
  (forall g, In g zpre -> fisfunc (fst g) = false /\ ~ In x (pall (snd g))) ->
  (zpre <> [] -> fisfunc T = true) ->
  In x (pnames prT) -> (ArgumentDecl < decl -> In x (plex prT)) ->
  (decl = ArgumentDecl -> ~ In (UPend x) (fund T)) ->
  frames_ok (map (pass_frame x (fid T)) zpre ++ (decl_frame T decl x, prT) :: zpost).
Proof.
  intros Hok Hpre Hfunc Hp Hk Harg. induction zpre as [|[g pg] rest IH].
  - cbn in *. destruct Hok as [K Krest]. split; [|exact Krest]. apply decl_frame_ok; assumption.
  - cbn [app map frames_ok pass_frame fst snd] in *. destruct Hok as [K Krest].
    assert (HfT : fisfunc T = true) by (apply Hfunc; discriminate).
    destruct (Hpre (g, pg) (or_introl eq_refl)) as [Hg1 Hg2]. cbn in Hg1, Hg2.
    assert (Hpre' : forall g', In g' rest -> fisfunc (fst g') = false /\ ~ In x (pall (snd g'))) by (intros g' Hg'; apply Hpre; right; exact Hg').
    split; [|apply IH; [exact Krest|exact Hpre'|intros _; exact HfT]].
    assert (Hshape : shape (rest ++ (T, prT) :: zpost) = shape (map (pass_frame x (fid T)) rest ++ (decl_frame T decl x, prT) :: zpost))
      by (symmetry; apply shape_declare).
    apply (frame_ok_shape _ _ _ _ Hshape).
    destruct K as [K1 K2 K3 K4 K5 K6 K7 K8 K9 K10 K11 K12].
    destruct (add_pass_shape x (fid T) g) as (E1 & E2 & E3 & E4).
    constructor.
    + rewrite E3. exact K1.
    + exact K2.
    + intros y Hy. unfold dnames. rewrite E3. apply K3. apply add_pass_fund_inv in Hy. destruct Hy as [Hy|Hy]; [exact Hy|discriminate].
    + intros y fs Hy. rewrite E2. apply add_pass_fund_inv in Hy. destruct Hy as [Hy|Hy].
      * destruct (K4 y fs Hy) as [H1 H2]. split; [exact H1|].
        apply (pass_ok_shape y fs ((g, pg) :: rest ++ (T, prT) :: zpost)); [|exact H2].
        cbn [shape map fst snd]. rewrite E1, E2. reflexivity.
      * inversion Hy; subst y fs. split; [exact Hg1|].
        cbn [pass_ok]. rewrite E2, Hg1. split; [exact Hg2|]. apply pass_ok_pre; assumption.
    + unfold dnames. rewrite E3. exact K5.
    + rewrite add_pass_pend. exact K6.
    + rewrite E4. destruct K7 as [K7a K7b]. destruct (add_pass_narg x (fid T) g (fnarg g) K7a) as [N1 N2].
      split; [exact N1|rewrite N2; exact K7b].
    + intros y Hy. rewrite E4. destruct K7 as [K7a K7b]. destruct (add_pass_narg x (fid T) g (fnarg g) K7a) as [N1 N2]. rewrite N2.
      apply K8. apply add_pass_fund_inv in Hy. destruct Hy as [Hy|Hy]; [exact Hy|discriminate].
    + rewrite add_pass_args. exact K9.
    + rewrite E1. exact K10.
    + rewrite E2, add_pass_fnfor. exact K11.
    + rewrite E4. exact K12.
Qed.

Lemma drop_to_pre zpre T prT zpost :
  frames_ok (zpre ++ (T, prT) :: zpost) ->
  drop_to (fid T) (env_of (zpre ++ (T, prT) :: zpost)) = (fid T, false, pnames prT) :: env_of zpost.
Proof.
  induction zpre as [|[g pg] rest IH]; intros Hok.
  - cbn [app env_of map fst snd]. apply drop_to_head.
  - cbn [app frames_ok] in Hok. destruct Hok as [K Krest].
    cbn [app env_of map fst snd]. rewrite drop_to_skip; [apply IH; exact Krest|].
    assert (fid T < fid g)%nat; [|lia]. apply (K_fid _ _ _ K (T, prT)). apply in_app_iff. right. left. reflexivity.
Qed.

Lemma L_declare a zpre T prT zpost decl x :
  AInv a (zpre ++ (T, prT) :: zpost) ->
  (forall g, In g zpre -> fisfunc (fst g) = false /\ ~ In x (pall (snd g))) ->
  (zpre <> [] -> fisfunc T = true) ->
  In x (pnames prT) -> (ArgumentDecl < decl -> In x (plex prT)) ->
  (decl = ArgumentDecl -> ~ In (UPend x) (fund T)) ->
  let z := zpre ++ (T, prT) :: zpost in
  let z' := map (pass_frame x (fid T)) zpre ++ (decl_frame T decl x, prT) :: zpost in
  let a' := mkA (map fst z') (anext a) (LDecl (fid T) x :: decl_log T decl x (alog a)) in
  AInv a' z' /\ shape z' = shape z /\
  map (final (env_of z)) (alog a') = TBind (fid T) false x :: map (final (env_of z)) (alog a).
Proof.
  intros [As Af An Al Aa] Hpre Hfunc Hp Hk Harg z z' a'.
  assert (Hshape : shape z' = shape z) by apply shape_declare.
  assert (KT : frame_ok T prT zpost).
  { clear -Af. induction zpre as [|[gg pgg] rst IHz]; cbn in Af; [apply Af|apply IHz; apply Af]. }
  split; [|split; [exact Hshape|]].
  - constructor.
    + reflexivity.
    + apply frames_ok_declare; assumption.
    + intros fp Hfp. cbn [anext a'].
      assert (Hin : In (fid (fst fp)) (map (fun fp => fid (fst fp)) z)).
      { rewrite <- (shape_fids _ _ Hshape). apply in_map_iff. exists fp. split; [reflexivity|exact Hfp]. }
      apply in_map_iff in Hin. destruct Hin as (fp0 & E & Hfp0). rewrite <- E. apply An. exact Hfp0.
    + intros s y Hin. cbn [alog a'] in Hin. destruct Hin as [E|Hin]; [discriminate|].
      destruct (decl_log_pend T prT zpost decl x (alog a) s y KT Hin) as [Hold Hkeep].
      destruct (Al s y Hold) as (fp & Hfp & Hs & Hu). unfold z in Hfp. apply in_app_iff in Hfp.
      destruct Hfp as [Hfp|[Efp|Hfp]].
      * exists (pass_frame x (fid T) fp). split; [apply in_app_iff; left; apply in_map; exact Hfp|].
        unfold pass_frame. cbn [fst]. destruct (add_pass_shape x (fid T) (fst fp)) as (-> & _). split; [exact Hs|].
        apply add_pass_fund. exact Hu.
      * subst fp. cbn [fst] in *. exists (decl_frame T decl x, prT). split; [apply in_app_iff; right; left; reflexivity|].
        cbn [fst]. destruct (decl_frame_shape T decl x) as [-> _]. split; [exact Hs|]. apply Hkeep; [symmetry; exact Hs|exact Hu].
      * exists fp. split; [apply in_app_iff; right; right; exact Hfp|]. split; assumption.
    + intros s y Hin. cbn [alog a'] in Hin. destruct Hin as [E|Hin]; [discriminate|].
      destruct (decl_log_arg T decl x (alog a) s y Hin) as [Hold Hkeep].
      destruct (Aa s y Hold) as (fp & Hfp & Hs & Hu). unfold z in Hfp. apply in_app_iff in Hfp.
      destruct Hfp as [Hfp|[Efp|Hfp]].
      * exists (pass_frame x (fid T) fp). split; [apply in_app_iff; left; apply in_map; exact Hfp|].
        unfold pass_frame. cbn [fst]. destruct (add_pass_shape x (fid T) (fst fp)) as (-> & _). split; [exact Hs|].
        apply add_pass_fund. exact Hu.
      * subst fp. cbn [fst] in *. exists (decl_frame T decl x, prT). split; [apply in_app_iff; right; left; reflexivity|].
        cbn [fst]. destruct (decl_frame_shape T decl x) as [-> _]. split; [exact Hs|]. apply Hkeep. exact Hu.
      * exists fp. split; [apply in_app_iff; right; right; exact Hfp|]. split; assumption.
  - cbn [alog a' map final]. f_equal. apply (decl_log_final T prT zpost decl x); [exact KT|exact Hp|].
    apply drop_to_pre. exact Af.
Qed.

(* ---- the walk to the function scope --------------------------------------------------------------------- *)
Lemma walk_ok decl x :
  forall z, frames_ok z -> var_ok x z ->
  exists zpre T prT zpost,
    z = zpre ++ (T, prT) :: zpost /\
    a_walk (map fst z) decl x = Some (Some (map fst zpre, T, map fst zpost)) /\
    fisfunc T = true /\ In x (pvar prT) /\
    (forall g, In g zpre -> fisfunc (fst g) = false /\ ~ In x (pall (snd g))) /\
    fid T = func_of z.
Proof.
  induction z as [|[fr pr] rest IH]; intros Hok Hv; [destruct Hv|].
  cbn [frames_ok] in Hok. destruct Hok as [K Krest]. cbn [var_ok] in Hv. cbn [map fst a_walk func_of].
  destruct (fisfunc fr) eqn:Ef.
  - exists [], fr, pr, rest. split; [reflexivity|]. split; [reflexivity|]. split; [exact Ef|]. split; [exact Hv|].
    split; [intros g0 []|reflexivity].
  - destruct Hv as [Hn Hv].
    assert (Ed : a_find_decl fr x = None).
    { destruct (a_find_decl fr x) as [[y kk]|] eqn:E; [|reflexivity].
      destruct (a_find_decl_some _ _ _ _ E) as [-> Hin]. destruct (K_decl _ _ _ K x kk Hin) as [Hp _]. destruct (pall_pnames _ _ Hn Hp). }
    rewrite Ed. destruct (IH Krest Hv) as (zpre & T & prT & zpost & E1 & E2 & E3 & E4 & E5 & E6).
    exists ((fr, pr) :: zpre), T, prT, zpost. rewrite E2.
    split; [cbn; rewrite E1; reflexivity|]. split; [reflexivity|]. split; [exact E3|]. split; [exact E4|].
    split; [|exact E6].
    intros g0 [<-|Hg]; [cbn; split; assumption|apply E5; exact Hg].
Qed.

(* ---- declarations as the events of the fragment use them ---------------------------------------------------- *)
Definition same_dnames_below (z z' : list zframe) : Prop :=
  map (fun g => dnames (fst g)) z = map (fun g => dnames (fst g)) z'.

(* let / const / class / parameter on the top frame *)
Lemma L_decl_top a fr pr rest decl x :
  AInv a ((fr, pr) :: rest) ->
  decl = LexicalDecl \/ decl = ArgumentDecl \/ decl = CatchDecl \/ decl = ExprDecl ->
  ~ In x (dnames fr) -> In x (pnames pr) -> (decl <> ArgumentDecl -> In x (plex pr)) ->
  (decl = ArgumentDecl -> ~ In (UPend x) (fund fr)) ->
  let z := (fr, pr) :: rest in
  exists a' fr',
    a_declare a decl x = ARun a' /\ AInv a' ((fr', pr) :: rest) /\
    fid fr' = fid fr /\ fisfunc fr' = fisfunc fr /\ dnames fr' = dnames fr ++ [x] /\
    (forall e, In e (fund fr') -> In e (fund fr)) /\
    anext a' = anext a /\
    map (final (env_of z)) (alog a') = TBind (fid fr) false x :: map (final (env_of z)) (alog a).
Proof.
  intros A Hd Hnot Hp Hlex Harg z.
  assert (Hnh : (decl =? VariableDecl) || (decl =? FunctionDecl) = false) by (destruct Hd as [-> | [-> | [-> | ->]]]; reflexivity).
  rewrite a_declare_unfold, Hnh. rewrite (A_stack _ _ A). cbn [map fst].
  rewrite a_declare_at_ok.
  2:{ apply for_check_notin. exact Hnot. }
  2:{ intros kk Hin. exfalso. apply Hnot. unfold dnames. apply in_map_iff. exists (x, kk). split; [reflexivity|exact Hin]. }
  destruct (L_declare a [] fr pr rest decl x A) as (A' & Hs & Hfin); try assumption.
  { intros g []. } { intros H. exfalso. apply H. reflexivity. }
  { intros Hlt. apply Hlex. intros ->. unfold ArgumentDecl in Hlt. lia. }
  cbn [map app] in A', Hfin.
  eexists. exists (decl_frame fr decl x). split; [reflexivity|]. split; [exact A'|].
  destruct (decl_frame_shape fr decl x) as [E1 E2]. split; [exact E1|]. split; [exact E2|].
  split.
  { rewrite decl_frame_dnames. apply mem_not_in in Hnot. unfold mem in Hnot. rewrite Hnot. reflexivity. }
  split; [intros e; apply decl_frame_fund_in|]. split; [reflexivity|exact Hfin].
Qed.

Lemma split_unique (z1 z2 : list zframe) T1 p1 r1 T2 p2 r2 :
  z1 ++ (T1, p1) :: r1 = z2 ++ (T2, p2) :: r2 -> fisfunc T1 = true -> fisfunc T2 = true ->
  (forall g, In g z1 -> fisfunc (fst g) = false) -> (forall g, In g z2 -> fisfunc (fst g) = false) ->
  z1 = z2 /\ T1 = T2 /\ p1 = p2 /\ r1 = r2.
Proof.
  revert z2. induction z1 as [|[g pg] rest IH]; intros [|[g0 pg0] rest0] E H1 H2 Hz1 Hz2; cbn in E.
  - injection E as -> -> ->. repeat split; reflexivity.
  - injection E as E1 E2 E3. subst g0. specialize (Hz2 _ (or_introl eq_refl)). cbn in Hz2. congruence.
  - injection E as E1 E2 E3. subst g. specialize (Hz1 _ (or_introl eq_refl)). cbn in Hz1. congruence.
  - injection E as E1 E2 E3. subst g0 pg0.
    destruct (IH rest0 E3 H1 H2 (fun g' Hg' => Hz1 g' (or_intror Hg')) (fun g' Hg' => Hz2 g' (or_intror Hg'))) as (-> & -> & -> & ->).
    repeat split; reflexivity.
Qed.

(* var / function from anywhere below the function scope *)
Lemma L_decl_var a z decl x :
  AInv a z -> decl = VariableDecl \/ decl = FunctionDecl -> var_ok x z ->
  exists a' z',
    a_declare a decl x = ARun a' /\ AInv a' z' /\ shape z' = shape z /\ anext a' = anext a /\
    map (final (env_of z)) (alog a') = TBind (func_of z) false x :: map (final (env_of z)) (alog a) /\
    (forall zpre T prT zpost, z = zpre ++ (T, prT) :: zpost -> fisfunc T = true ->
       (forall g, In g zpre -> fisfunc (fst g) = false) ->
       exists zpre' T', z' = zpre' ++ (T', prT) :: zpost /\
         map (fun g => dnames (fst g)) zpre' = map (fun g => dnames (fst g)) zpre /\
         map snd zpre' = map snd zpre /\
         (forall g, In g zpre' -> fisfunc (fst g) = false) /\ fisfunc T' = true /\
         In x (dnames T') /\ (forall y, In y (dnames T) -> In y (dnames T')) /\
         (forall y, In y (dnames T') -> In y (dnames T) \/ y = x) /\
         (forall e, In e (fund T') -> In e (fund T)) /\
         (forall g g', In (g, g') (combine zpre zpre') -> forall y, In (UPend y) (fund (fst g')) <-> In (UPend y) (fund (fst g))) /\
         (forall g g', In (g, g') (combine zpre zpre') -> forall y, In (UArg y) (fund (fst g')) -> In (UArg y) (fund (fst g)))).
Proof.
  intros A Hd Hv.
  destruct (walk_ok decl x z (A_frames _ _ A) Hv) as (zpre & T & prT & zpost & Ez & Ew & HfT & HpT & Hpre & Hfid).
  assert (Hh : (decl =? VariableDecl) || (decl =? FunctionDecl) = true) by (destruct Hd as [-> | ->]; reflexivity).
  rewrite a_declare_unfold, Hh. rewrite (A_stack _ _ A), Ew.
  assert (KT : frame_ok T prT zpost).
  { pose proof (A_frames _ _ A) as Af. rewrite Ez in Af. clear -Af. induction zpre as [|[gg pgg] rst IHz]; cbn in Af; [apply Af|apply IHz; apply Af]. }
  assert (HpnT : In x (pnames prT)) by (unfold pnames; apply in_app_iff; left; exact HpT).
  rewrite a_declare_at_ok.
  2:{ apply for_check_nofor. apply (K_for _ _ _ KT). exact HfT. }
  2:{ intros kk Hin. destruct (K_decl _ _ _ KT x kk Hin) as [_ Hl]. split; [|destruct Hd as [-> | ->]; unfold VariableDecl, FunctionDecl; lia].
      destruct (Z.le_gt_cases kk ArgumentDecl) as [|Hgt]; [assumption|]. exfalso.
      apply (K_disj _ _ _ KT x); [apply Hl; lia|exact HpT]. }
  subst z.
  destruct (L_declare a zpre T prT zpost decl x A Hpre (fun _ => HfT) HpnT) as (A' & Hs & Hfin).
  { intros Hlt. destruct Hd as [-> | ->]; unfold ArgumentDecl, VariableDecl, FunctionDecl in Hlt; lia. }
  { intros E. destruct Hd as [-> | ->]; discriminate. }
  exists (mkA (map fst (map (pass_frame x (fid T)) zpre ++ (decl_frame T decl x, prT) :: zpost)) (anext a)
              (LDecl (fid T) x :: decl_log T decl x (alog a))).
  exists (map (pass_frame x (fid T)) zpre ++ (decl_frame T decl x, prT) :: zpost).
  split.
  { f_equal. f_equal. rewrite map_app. cbn [map fst]. f_equal. rewrite !map_map. apply map_ext. intros g. reflexivity. }
  split; [exact A'|]. split; [exact Hs|]. split; [reflexivity|]. split; [rewrite <- Hfid; exact Hfin|].
  intros zpre0 T0 prT0 zpost0 Esplit HfT0 Hpre0.
  (* the split at the first function frame is unique *)
  assert (Huniq : zpre0 = zpre /\ T0 = T /\ prT0 = prT /\ zpost0 = zpost).
  { symmetry in Esplit. apply (split_unique _ _ _ _ _ _ _ _ Esplit HfT0 HfT Hpre0). intros g Hg. apply Hpre. exact Hg. }
  destruct Huniq as (-> & -> & -> & ->).
  exists (map (pass_frame x (fid T)) zpre), (decl_frame T decl x). split; [reflexivity|].
  split.
  { rewrite map_map. apply map_ext. intros [g pg]. unfold pass_frame, dnames. cbn [fst].
    destruct (add_pass_shape x (fid T) g) as (_ & _ & -> & _). reflexivity. }
  split; [rewrite map_map; apply map_ext; intros [g pg]; reflexivity|].
  split.
  { intros g Hg. apply in_map_iff in Hg. destruct Hg as (g0 & <- & Hg0). unfold pass_frame. cbn [fst].
    destruct (add_pass_shape x (fid T) (fst g0)) as (_ & -> & _). apply Hpre. exact Hg0. }
  split; [destruct (decl_frame_shape T decl x) as [_ ->]; exact HfT|].
  split; [apply decl_frame_in|]. split; [intros y; apply decl_frame_mono|]. split; [intros y; apply decl_frame_new|].
  split; [intros e; apply decl_frame_fund_in|]. split.
  - intros g g' Hin y. clear -Hin. revert Hin. induction zpre as [|[h ph] rest IH]; cbn; [tauto|].
    intros [E|Hin]; [|apply IH; exact Hin]. inversion E; subst. cbn [fst pass_frame]. split.
    + intros H. apply add_pass_fund_inv in H. destruct H as [H|H]; [exact H|discriminate].
    + apply add_pass_fund.
  - intros g g' Hin y. clear -Hin. revert Hin. induction zpre as [|[h ph] rest IH]; cbn; [tauto|].
    intros [E|Hin]; [|apply IH; exact Hin]. inversion E; subst. cbn [fst pass_frame].
    intros H. apply add_pass_fund_inv in H. destruct H as [H|H]; [exact H|discriminate].
Qed.
