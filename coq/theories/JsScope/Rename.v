(* JsScope/Rename.v — renaming the identifier occurrences of a binding program by declaration, with fresh
   names: the declarative resolver gives the renamed program the same binding structure (alpha-equivalence).
   Purely about Spec.v; Main2.v combines it with resolution_correct to rename by Var. *)
From Coq Require Import ZifyBool.
From Verif Require Import Common.Base Common.Tactics JsScope.Model JsScope.Spec JsScope.Resolve1 JsScope.Resolve5 JsScope.Resolve7.

(* replace the names of the occurrences of p, in source order, by the names of l *)
Fixpoint rename_with (l : list Z) (p : prog) : prog * list Z :=
  match p with
  | Done => (Done, l)
  | Ref x k => let '(k', r) := rename_with (tl l) k in (Ref (hd x l) k', r)
  | PRef x k => let '(k', r) := rename_with (tl l) k in (PRef (hd x l) k', r)
  | Decl d x k => let '(k', r) := rename_with (tl l) k in (Decl d (hd x l) k', r)
  | Block b k =>
      let '(b', l1) := rename_with l b in
      let '(k', l2) := rename_with l1 k in (Block b' k', l2)
  | Func nm ps b k =>
      let '(nm', l0) := match nm with Some f => (Some (hd f l), tl l) | None => (None, l) end in
      let '(ps', l1) := rename_with l0 ps in
      let '(b', l2) := rename_with l1 b in
      let '(k', l3) := rename_with l2 k in (Func nm' ps' b' k', l3)
  | Arrow ps b k =>
      let '(ps', l1) := rename_with l ps in
      let '(b', l2) := rename_with l1 b in
      let '(k', l3) := rename_with l2 k in (Arrow ps' b' k', l3)
  | ArrowId x b k =>
      let '(b', l1) := rename_with (tl l) b in
      let '(k', l2) := rename_with l1 k in (ArrowId (hd x l) b' k', l2)
  | Paren h k =>
      let '(h', l1) := rename_with l h in
      let '(k', l2) := rename_with l1 k in (Paren h' k', l2)
  | For h b k =>
      let '(h', l1) := rename_with l h in
      let '(b', l2) := rename_with l1 b in
      let '(k', l3) := rename_with l2 k in (For h' b' k', l3)
  | Catch h b k =>
      let '(h', l1) := rename_with l h in
      let '(b', l2) := rename_with l1 b in
      let '(k', l3) := rename_with l2 k in (Catch h' b' k', l3)
  | Class nm ms k =>
      let '(nm', l0) := match nm with Some c => (Some (hd c l), tl l) | None => (None, l) end in
      let '(ms', l1) := rename_with l0 ms in
      let '(k', l2) := rename_with l1 k in (Class nm' ms' k', l2)
  end.

Definition rename_prog (l : list Z) (p : prog) : prog := fst (rename_with l p).

Section Renaming.
  (* the new name of each declaration *)
  Variable f : nat -> bool -> Z -> Z.
  Variable universe : list Z.      (* the names of the original program *)
  Variable D : nat -> bool -> Z -> Prop.   (* the declarations of the program *)
  Hypothesis f_inj : forall s a x t b y, D s a x -> D t b y -> f s a x = f t b y -> s = t /\ a = b /\ x = y.
  Hypothesis f_fresh : forall s a x, D s a x -> ~ In (f s a x) universe.

  Definition Dt (t : target) : Prop := match t with TGlobal _ => True | TBind s a x => D s a x end.
  Definition env_D (e : env) : Prop := forall s a names x, In (s, a, names) e -> In x names -> D s a x.

  Lemma env_D_push e s a names : env_D e -> (forall x, In x names -> D s a x) -> env_D ((s, a, names) :: e).
  Proof.
    intros He Hn s' a' names' x [E|Hin] Hx; [inversion E; subst; apply Hn; exact Hx|eapply He; eassumption].
  Qed.

  Definition newname (t : target) : Z := match t with TGlobal x => x | TBind s a x => f s a x end.
  Definition retarget (t : target) : target := match t with TGlobal x => TGlobal x | TBind s a x => TBind s a (f s a x) end.

  (* the environment of the renamed program *)
  Definition ren_entry (en : nat * bool * list Z) : nat * bool * list Z :=
    let '(s, a, names) := en in (s, a, map (f s a) names).
  Definition ren_env (e : env) : env := map ren_entry e.

  Definition env_sids (e : env) : list (nat * bool) := map (fun en => fst en) e.

  Lemma lookup_in e x s a : lookup e x = TBind s a x -> exists names, In (s, a, names) e /\ In x names.
  Proof.
    induction e as [|[[s0 a0] n0] t IH]; cbn; [discriminate|]. destruct (mem x n0) eqn:Em.
    - intros E. inversion E; subst. exists n0. split; [left; reflexivity|apply mem_in; exact Em].
    - intros E. destruct (IH E) as (names & H1 & H2). exists names. split; [right; exact H1|exact H2].
  Qed.

  Lemma lookup_name e x : match lookup e x with TGlobal z => z = x | TBind _ _ z => z = x end.
  Proof. induction e as [|[[s0 a0] n0] t IH]; cbn; [reflexivity|]. destruct (mem x n0); [reflexivity|exact IH]. Qed.

  Lemma lookup_ren e x :
    NoDup (env_sids e) -> env_D e -> In x universe ->
    lookup (ren_env e) (newname (lookup e x)) = retarget (lookup e x).
  Proof.
    intros Hnd HD Hx. induction e as [|[[s a] names] t IH]; [reflexivity|].
    assert (HDt : env_D t) by (intros s' a' n' x' Hin Hx'; apply (HD s' a' n' x'); [right; exact Hin|exact Hx']).
    cbn [env_sids map fst] in Hnd. inversion Hnd as [|? ? Hnot Hnd']; subst.
    cbn [lookup ren_env map ren_entry]. destruct (mem x names) eqn:Em.
    - cbn [newname retarget lookup]. replace (mem (f s a x) (map (f s a) names)) with true; [reflexivity|].
      symmetry. apply mem_in. apply in_map. apply mem_in. exact Em.
    - fold (ren_env t). specialize (IH Hnd' HDt).
      assert (Hm : mem (newname (lookup t x)) (map (f s a) names) = false).
      { apply mem_not_in. intros Hin. apply in_map_iff in Hin. destruct Hin as (y & Ey & Hy).
        assert (Dy : D s a y) by (apply (HD s a names y); [left; reflexivity|exact Hy]).
        pose proof (lookup_name t x) as Hnm.
        destruct (lookup t x) as [z|s' a' z] eqn:El; cbn [newname] in Ey.
        - (* a free name: the new names are fresh *)
          apply (f_fresh s a y Dy). rewrite Ey, Hnm. exact Hx.
        - subst z. destruct (lookup_in t x s' a' El) as (names' & Hin' & Hx').
          assert (Dx : D s' a' x) by (apply (HDt s' a' names' x); assumption).
          destruct (f_inj _ _ _ _ _ _ Dy Dx Ey) as (-> & -> & _). apply Hnot.
          unfold env_sids. apply in_map_iff. exists (s', a', names'). split; [reflexivity|exact Hin']. }
      rewrite Hm. exact IH.
  Qed.

  (* the invariant of the induction: scope ids of the environment are distinct and below the counter *)
  Definition env_ok (e : env) (n : nat) : Prop :=
    NoDup (env_sids e) /\ forall s a, In (s, a) (env_sids e) -> (s < n)%nat.

  Lemma env_ok_push e n names : env_ok e n -> env_ok ((n, false, names) :: e) (S n).
  Proof.
    intros [Hnd Hlt]. split.
    - cbn. constructor; [|exact Hnd]. intros Hin. specialize (Hlt n false Hin). lia.
    - intros s a [E|Hin]; [inversion E; lia|]. specialize (Hlt s a Hin). lia.
  Qed.

  Lemma env_ok_mono e n m : env_ok e n -> (n <= m)%nat -> env_ok e m.
  Proof. intros [Hnd Hlt] Hle. split; [exact Hnd|]. intros s a Hin. specialize (Hlt s a Hin). lia. Qed.

  Lemma resolve_counter_mono p : forall e fs cur ca n, (n <= snd (resolve e fs cur ca n p))%nat.
  Proof.
    induction p; intros e fs cur ca n; cbn [resolve];
      repeat match goal with
      | |- context [resolve ?e ?fs ?cur ?ca ?n ?p] =>
          let r := fresh "r" in let m := fresh "m" in let E := fresh "E" in
          destruct (resolve e fs cur ca n p) as [r m] eqn:E;
          match goal with
          | IH : forall e fs cur ca n, (n <= snd (resolve e fs cur ca n p))%nat |- _ =>
              let H := fresh "H" in pose proof (IH e fs cur ca n) as H; rewrite E in H; cbn [snd] in H
          end
      end; cbn [snd]; lia.
  Qed.

  (* the renamed list of parameters / catch parameters *)
  Lemma rename_params_only ps : params_only ps = true -> forall e fs cur n rest,
    let ts := map (TBind cur false) (headdecls ps) in
    let '(ps', l') := rename_with (map newname ts ++ rest) ps in
    l' = rest /\ params_only ps' = true /\ headdecls ps' = map (f cur false) (headdecls ps) /\
    resolve e fs cur false n ps' = (map retarget ts, n).
  Proof.
    induction ps; cbn [params_only]; intros H e fs cur n rest; try discriminate.
    - cbn. repeat split; reflexivity.
    - destruct d; try discriminate. cbn [headdecls map app rename_with hd tl newname].
      specialize (IHps H e fs cur n rest). cbn zeta in IHps.
      destruct (rename_with (map newname (map (TBind cur false) (headdecls ps)) ++ rest) ps) as [ps' l'].
      destruct IHps as (E1 & E2 & E3 & E4). cbn [params_only headdecls resolve is_var app]. rewrite E4, E3.
      repeat split; try assumption; reflexivity.
  Qed.

  Lemma rename_catch_params_only ps : catch_params_only ps = true -> forall e fs cur n rest,
    let ts := map (TBind cur false) (headdecls ps) in
    let '(ps', l') := rename_with (map newname ts ++ rest) ps in
    l' = rest /\ catch_params_only ps' = true /\ headdecls ps' = map (f cur false) (headdecls ps) /\
    vardecls ps' = [] /\ lexdecls ps' = [] /\
    resolve e fs cur false n ps' = (map retarget ts, n).
  Proof.
    induction ps; cbn [catch_params_only]; intros H e fs cur n rest; try discriminate.
    - cbn. repeat split; reflexivity.
    - destruct d; try discriminate. cbn [headdecls map app rename_with hd tl newname].
      specialize (IHps H e fs cur n rest). cbn zeta in IHps.
      destruct (rename_with (map newname (map (TBind cur false) (headdecls ps)) ++ rest) ps) as [ps' l'].
      destruct IHps as (E1 & E2 & E3 & E4 & E5 & E6). cbn [catch_params_only headdecls vardecls lexdecls resolve is_var is_lex app]. rewrite E6, E3.
      repeat split; try assumption; reflexivity.
  Qed.

  Lemma disjointb_fresh_sids s t a b (l1 l2 : list Z) :
    s <> t -> (forall x, In x l1 -> D s a x) -> (forall x, In x l2 -> D t b x) ->
    disjointb (map (f s a) l1) (map (f t b) l2) = true.
  Proof.
    intros Hne H1 H2. unfold disjointb. apply forallb_forall. intros y Hy. apply negb_true_iff. apply mem_not_in.
    intros Hin. apply in_map_iff in Hy. destruct Hy as (x1 & E1 & Hx1). apply in_map_iff in Hin. destruct Hin as (x2 & E2 & Hx2).
    rewrite <- E1 in E2. destruct (f_inj _ _ _ _ _ _ (H2 x2 Hx2) (H1 x1 Hx1) E2) as (E & _). congruence.
  Qed.

  (* the declarations of a program are among its targets *)
  Lemma lexdecls_targets p : core p = true -> forall e fs cur ca n x,
    In x (lexdecls p) -> In (TBind cur ca x) (fst (resolve e fs cur ca n p)).
  Proof.
    induction p; intros Hc e fs cur ca n y Hy; cbn [core] in Hc; try discriminate; cbn [lexdecls] in Hy; cbn [resolve].
    - destruct Hy.
    - specialize (IHp Hc e fs cur ca n y Hy). destruct (resolve e fs cur ca n p). right. exact IHp.
    - apply andb_true_iff in Hc. destruct Hc as [Hd Hc]. specialize (IHp Hc e fs cur ca n y).
      destruct (resolve e fs cur ca n p) as [r n1]. cbn [fst] in *. apply in_app_iff in Hy. destruct Hy as [Hy|Hy].
      + destruct d; cbn in Hy; try tauto. destruct Hy as [<-|[]]. left. reflexivity.
      + right. apply IHp. exact Hy.
    - apply andb_true_iff in Hc. destruct Hc as [H1 H2].
      destruct (resolve ((n, false, lexdecls p1) :: e) fs n false (S n) p1) as [rb n1].
      specialize (IHp2 H2 e fs cur ca n1 y Hy). destruct (resolve e fs cur ca n1 p2) as [rk n2]. cbn [fst] in *.
      apply in_app_iff. right. exact IHp2.
    - destruct nm; [discriminate|]. apply andb_true_iff in Hc. destruct Hc as [Hc H3].
      destruct (resolve ((n, false, headdecls p1) :: e) n n false (S n) p1) as [rp n1].
      destruct (resolve ((n, false, headdecls p1 ++ vardecls p2 ++ lexdecls p2) :: e) n n false n1 p2) as [rb n2].
      specialize (IHp3 H3 e fs cur ca n2 y Hy). destruct (resolve e fs cur ca n2 p3) as [rk n3]. cbn [fst app] in *.
      apply in_app_iff. right. apply in_app_iff. right. exact IHp3.
    - apply andb_true_iff in Hc. destruct Hc as [Hc H3].
      destruct (resolve ((n, false, headdecls p1) :: e) n n false (S n) p1) as [rp n1].
      destruct (resolve ((n, false, headdecls p1 ++ vardecls p2 ++ lexdecls p2) :: e) n n false n1 p2) as [rb n2].
      specialize (IHp3 H3 e fs cur ca n2 y Hy). destruct (resolve e fs cur ca n2 p3) as [rk n3]. cbn [fst] in *.
      apply in_app_iff. right. apply in_app_iff. right. exact IHp3.
    - apply andb_true_iff in Hc. destruct Hc as [Hc H4].
      destruct (resolve ((n, false, headdecls p1) :: e) fs n false (S n) p1) as [rh n1].
      destruct (resolve ((n, false, headdecls p1 ++ lexdecls p2) :: e) fs n false n1 p2) as [rb n2].
      specialize (IHp3 H4 e fs cur ca n2 y Hy). destruct (resolve e fs cur ca n2 p3) as [rk n3]. cbn [fst] in *.
      apply in_app_iff. right. apply in_app_iff. right. exact IHp3.
  Qed.

  Lemma vardecls_targets p : core p = true -> forall e fs cur ca n x,
    In x (vardecls p) -> In (TBind fs false x) (fst (resolve e fs cur ca n p)).
  Proof.
    induction p; intros Hc e fs cur ca n y Hy; cbn [core] in Hc; try discriminate; cbn [vardecls] in Hy; cbn [resolve].
    - destruct Hy.
    - specialize (IHp Hc e fs cur ca n y Hy). destruct (resolve e fs cur ca n p). right. exact IHp.
    - apply andb_true_iff in Hc. destruct Hc as [Hd Hc]. specialize (IHp Hc e fs cur ca n y).
      destruct (resolve e fs cur ca n p) as [r n1]. cbn [fst] in *. apply in_app_iff in Hy. destruct Hy as [Hy|Hy].
      + destruct d; cbn in Hy; try tauto; destruct Hy as [<-|[]]; left; reflexivity.
      + right. apply IHp. exact Hy.
    - apply andb_true_iff in Hc. destruct Hc as [H1 H2].
      specialize (IHp1 H1 ((n, false, lexdecls p1) :: e) fs n false (S n) y).
      destruct (resolve ((n, false, lexdecls p1) :: e) fs n false (S n) p1) as [rb n1].
      specialize (IHp2 H2 e fs cur ca n1 y). destruct (resolve e fs cur ca n1 p2) as [rk n2]. cbn [fst] in *.
      apply in_app_iff in Hy. apply in_app_iff. destruct Hy as [Hy|Hy]; [left; apply IHp1; exact Hy|right; apply IHp2; exact Hy].
    - destruct nm; [discriminate|]. apply andb_true_iff in Hc. destruct Hc as [Hc H3].
      destruct (resolve ((n, false, headdecls p1) :: e) n n false (S n) p1) as [rp n1].
      destruct (resolve ((n, false, headdecls p1 ++ vardecls p2 ++ lexdecls p2) :: e) n n false n1 p2) as [rb n2].
      specialize (IHp3 H3 e fs cur ca n2 y Hy). destruct (resolve e fs cur ca n2 p3) as [rk n3]. cbn [fst app] in *.
      apply in_app_iff. right. apply in_app_iff. right. exact IHp3.
    - apply andb_true_iff in Hc. destruct Hc as [Hc H3].
      destruct (resolve ((n, false, headdecls p1) :: e) n n false (S n) p1) as [rp n1].
      destruct (resolve ((n, false, headdecls p1 ++ vardecls p2 ++ lexdecls p2) :: e) n n false n1 p2) as [rb n2].
      specialize (IHp3 H3 e fs cur ca n2 y Hy). destruct (resolve e fs cur ca n2 p3) as [rk n3]. cbn [fst] in *.
      apply in_app_iff. right. apply in_app_iff. right. exact IHp3.
    - apply andb_true_iff in Hc. destruct Hc as [Hc H4]. apply andb_true_iff in Hc. destruct Hc as [Hc H3].
      apply andb_true_iff in Hc. destruct Hc as [H1 _].
      destruct (catch_params_lexvar p1 H1) as [_ Ev]. rewrite Ev in Hy. cbn [app] in Hy.
      destruct (resolve ((n, false, headdecls p1) :: e) fs n false (S n) p1) as [rh n1].
      specialize (IHp2 H3 ((n, false, headdecls p1 ++ lexdecls p2) :: e) fs n false n1 y).
      destruct (resolve ((n, false, headdecls p1 ++ lexdecls p2) :: e) fs n false n1 p2) as [rb n2].
      specialize (IHp3 H4 e fs cur ca n2 y). destruct (resolve e fs cur ca n2 p3) as [rk n3]. cbn [fst] in *.
      apply in_app_iff in Hy. apply in_app_iff. right. apply in_app_iff.
      destruct Hy as [Hy|Hy]; [left; apply IHp2; exact Hy|right; apply IHp3; exact Hy].
  Qed.

  Definition rr_stmt (p : prog) : Prop :=
    forall e fs cur ca n rest,
      env_ok e n -> env_D e -> (fs < n)%nat -> incl (allnames p) universe ->
      Forall Dt (fst (resolve e fs cur ca n p)) ->
      let '(p', l') := rename_with (map newname (fst (resolve e fs cur ca n p)) ++ rest) p in
      l' = rest /\ core p' = true /\
      resolve (ren_env e) fs cur ca n p' = (map retarget (fst (resolve e fs cur ca n p)), snd (resolve e fs cur ca n p)) /\
      lexdecls p' = map (f cur ca) (lexdecls p) /\
      vardecls p' = map (f fs false) (vardecls p).

  Lemma incl_app_l {A} (a b c : list A) : incl (a ++ b) c -> incl a c.
  Proof. intros H x Hx. apply H. apply in_app_iff. left. exact Hx. Qed.
  Lemma incl_app_r {A} (a b c : list A) : incl (a ++ b) c -> incl b c.
  Proof. intros H x Hx. apply H. apply in_app_iff. right. exact Hx. Qed.

  Lemma Forall_app_l {A} (P : A -> Prop) a b : Forall P (a ++ b) -> Forall P a.
  Proof. intros H. apply Forall_forall. intros x Hx. rewrite Forall_forall in H. apply H. apply in_app_iff. left. exact Hx. Qed.
  Lemma Forall_app_r {A} (P : A -> Prop) a b : Forall P (a ++ b) -> Forall P b.
  Proof. intros H. apply Forall_forall. intros x Hx. rewrite Forall_forall in H. apply H. apply in_app_iff. right. exact Hx. Qed.

  Lemma Dt_in ts s a x : Forall Dt ts -> In (TBind s a x) ts -> D s a x.
  Proof. intros H Hin. rewrite Forall_forall in H. apply (H _ Hin). Qed.

  Lemma rr_ref x k : rr_stmt k -> rr_stmt (Ref x k).
  Proof.
    intros IH e fs cur ca n rest Hok HD Hfs Hinc. cbn [resolve].
    specialize (IH e fs cur ca n rest Hok HD Hfs (fun y Hy => Hinc y (or_intror Hy))).
    destruct (resolve e fs cur ca n k) as [r n1]. cbn [fst snd map app rename_with hd tl] in *.
    intros HDt. inversion HDt as [|? ? _ HDr]; subst. specialize (IH HDr).
    destruct (rename_with (map newname r ++ rest) k) as [k' l']. destruct IH as (E1 & E2 & E3 & E4 & E5).
    split; [exact E1|]. split; [exact E2|]. cbn [resolve lexdecls vardecls]. rewrite E3.
    rewrite (lookup_ren e x (proj1 Hok) HD (Hinc x (or_introl eq_refl))). split; [reflexivity|]. split; assumption.
  Qed.

  Lemma rr_decl d x k : (d = DVar \/ d = DFun \/ d = DLex) -> rr_stmt k -> rr_stmt (Decl d x k).
  Proof.
    intros Hd IH e fs cur ca n rest Hok HD Hfs Hinc. cbn [resolve].
    specialize (IH e fs cur ca n rest Hok HD Hfs (fun y Hy => Hinc y (or_intror Hy))).
    destruct (resolve e fs cur ca n k) as [r n1]. cbn [fst snd map app rename_with hd tl] in *.
    intros HDt. inversion HDt as [|? ? _ HDr]; subst. specialize (IH HDr).
    destruct (rename_with (map newname r ++ rest) k) as [k' l']. destruct IH as (E1 & E2 & E3 & E4 & E5).
    split; [exact E1|]. cbn [core resolve lexdecls vardecls]. rewrite E3, E2, E4, E5.
    destruct Hd as [-> | [-> | ->]]; cbn; repeat split; reflexivity.
  Qed.

  Lemma rr_block b k : core b = true -> rr_stmt b -> rr_stmt k -> rr_stmt (Block b k).
  Proof.
    intros Hcb IHb IHk e fs cur ca n rest Hok HD Hfs Hinc. cbn [resolve allnames] in *.
    pose proof (resolve_counter_mono b ((n, false, lexdecls b) :: e) fs n false (S n)) as Hmono.
    pose proof (lexdecls_targets b Hcb ((n, false, lexdecls b) :: e) fs n false (S n)) as Hlt.
    assert (IHb' := IHb ((n, false, lexdecls b) :: e) fs n false (S n)).
    destruct (resolve ((n, false, lexdecls b) :: e) fs n false (S n) b) as [rb n1] eqn:Eb. cbn [snd fst] in *.
    assert (IHk' := IHk e fs cur ca n1).
    destruct (resolve e fs cur ca n1 k) as [rk n2] eqn:Ek. cbn [snd fst] in *.
    intros HDt. pose proof (Forall_app_l _ _ _ HDt) as HDb. pose proof (Forall_app_r _ _ _ HDt) as HDk.
    rewrite map_app, <- app_assoc. cbn [rename_with].
    specialize (IHb' (map newname rk ++ rest) (env_ok_push e n (lexdecls b) Hok)).
    destruct (rename_with (map newname rb ++ map newname rk ++ rest) b) as [b' l1].
    destruct IHb' as (B1 & B2 & B3 & B4 & B5).
    { apply env_D_push; [exact HD|]. intros x Hx. apply (Dt_in rb); [exact HDb|apply Hlt; exact Hx]. }
    { lia. } { exact (incl_app_l _ _ _ Hinc). } { exact HDb. }
    subst l1.
    specialize (IHk' rest (env_ok_mono e n n1 Hok ltac:(lia)) HD ltac:(lia) (incl_app_r _ _ _ Hinc) HDk).
    destruct (rename_with (map newname rk ++ rest) k) as [k' l2].
    destruct IHk' as (K1 & K2 & K3 & K4 & K5).
    split; [exact K1|]. cbn [core resolve lexdecls vardecls]. rewrite B2, K2.
    cbn [ren_env map ren_entry] in B3. rewrite <- B4 in B3. fold (ren_env e) in B3. rewrite B3, K3, K4, B5, K5.
    rewrite !map_app. repeat split; reflexivity.
  Qed.

  (* anonymous functions and parenthesised arrows *)
  Lemma rr_func_like ps b k :
    params_only ps = true -> core b = true -> rr_stmt b -> rr_stmt k -> rr_stmt (Func None ps b k) /\ rr_stmt (Arrow ps b k).
  Proof.
    intros Hps Hcb IHb IHk.
    assert (G : forall e fs cur ca n rest rb n1 rk n2,
      env_ok e n -> env_D e -> (fs < n)%nat -> incl (allnames ps ++ allnames b ++ allnames k) universe ->
      resolve ((n, false, headdecls ps ++ vardecls b ++ lexdecls b) :: e) n n false (S n) b = (rb, n1) ->
      resolve e fs cur ca n1 k = (rk, n2) ->
      let rp := map (TBind n false) (headdecls ps) in
      Forall Dt (rp ++ rb ++ rk) ->
      let '(ps', l1) := rename_with (map newname (rp ++ rb ++ rk) ++ rest) ps in
      let '(b', l2) := rename_with l1 b in
      let '(k', l3) := rename_with l2 k in
      l3 = rest /\ params_only ps' = true /\ core b' = true /\ core k' = true /\
      (forall e0 fs0 n0, resolve e0 fs0 n false n0 ps' = (map retarget rp, n0)) /\
      resolve ((n, false, headdecls ps' ++ vardecls b' ++ lexdecls b') :: ren_env e) n n false (S n) b' = (map retarget rb, n1) /\
      resolve (ren_env e) fs cur ca n1 k' = (map retarget rk, n2) /\
      lexdecls k' = map (f cur ca) (lexdecls k) /\ vardecls k' = map (f fs false) (vardecls k)).
    { intros e fs cur ca n rest rb n1 rk n2 Hok HD Hfs Hinc Eb Ek. cbn zeta. intros HDt.
      pose proof (resolve_counter_mono b ((n, false, headdecls ps ++ vardecls b ++ lexdecls b) :: e) n n false (S n)) as Hmono.
      pose proof (lexdecls_targets b Hcb ((n, false, headdecls ps ++ vardecls b ++ lexdecls b) :: e) n n false (S n)) as Hlt.
      pose proof (vardecls_targets b Hcb ((n, false, headdecls ps ++ vardecls b ++ lexdecls b) :: e) n n false (S n)) as Hvt.
      assert (IHb' := IHb ((n, false, headdecls ps ++ vardecls b ++ lexdecls b) :: e) n n false (S n)).
      assert (IHk' := IHk e fs cur ca n1).
      rewrite Eb in Hmono, Hlt, Hvt, IHb'. rewrite Ek in IHk'. cbn [snd fst] in *.
      pose proof (Forall_app_l _ _ _ HDt) as HDp. pose proof (Forall_app_r _ _ _ HDt) as HDbk.
      pose proof (Forall_app_l _ _ _ HDbk) as HDb. pose proof (Forall_app_r _ _ _ HDbk) as HDk.
      rewrite !map_app, <- !app_assoc.
      pose proof (rename_params_only ps Hps) as Hp.
      destruct (rename_with (map newname (map (TBind n false) (headdecls ps)) ++ map newname rb ++ map newname rk ++ rest) ps) as [ps' l1] eqn:Eps.
      assert (Hp' : l1 = map newname rb ++ map newname rk ++ rest /\ params_only ps' = true /\
                    headdecls ps' = map (f n false) (headdecls ps) /\
                    forall e0 fs0 n0, resolve e0 fs0 n false n0 ps' = (map retarget (map (TBind n false) (headdecls ps)), n0)).
      { pose proof (Hp [] O n O (map newname rb ++ map newname rk ++ rest)) as H0. cbn zeta in H0. rewrite Eps in H0.
        destruct H0 as (H1 & H2 & H3 & _). split; [exact H1|]. split; [exact H2|]. split; [exact H3|].
        intros e0 fs0 n0. pose proof (Hp e0 fs0 n n0 (map newname rb ++ map newname rk ++ rest)) as H4. cbn zeta in H4.
        rewrite Eps in H4. apply H4. }
      destruct Hp' as (-> & P2 & P3 & P4).
      specialize (IHb' (map newname rk ++ rest) (env_ok_push e n _ Hok)).
      destruct (rename_with (map newname rb ++ map newname rk ++ rest) b) as [b' l2].
      destruct IHb' as (B1 & B2 & B3 & B4 & B5).
      { apply env_D_push; [exact HD|]. intros x Hx. apply in_app_iff in Hx. destruct Hx as [Hx|Hx].
        - apply (Dt_in (map (TBind n false) (headdecls ps))); [exact HDp|apply in_map; exact Hx].
        - apply in_app_iff in Hx. destruct Hx as [Hx|Hx]; apply (Dt_in rb); try exact HDb; [apply Hvt|apply Hlt]; exact Hx. }
      { lia. } { exact (incl_app_l _ _ _ (incl_app_r _ _ _ Hinc)). } { exact HDb. }
      subst l2.
      specialize (IHk' rest (env_ok_mono e n n1 Hok ltac:(lia)) HD ltac:(lia) (incl_app_r _ _ _ (incl_app_r _ _ _ Hinc)) HDk).
      destruct (rename_with (map newname rk ++ rest) k) as [k' l3].
      destruct IHk' as (K1 & K2 & K3 & K4 & K5).
      split; [exact K1|]. split; [exact P2|]. split; [exact B2|]. split; [exact K2|]. split; [exact P4|].
      split; [|split; [exact K3|split; assumption]].
      cbn [ren_env map ren_entry] in B3. fold (ren_env e) in B3. rewrite !map_app in B3. rewrite <- P3, <- B4, <- B5 in B3. exact B3. }
    split.
    - intros e fs cur ca n rest Hok HD Hfs Hinc. cbn [allnames app] in Hinc. cbn [resolve]. rewrite (resolve_params _ _ _ _ _ Hps).
      destruct (resolve ((n, false, headdecls ps ++ vardecls b ++ lexdecls b) :: e) n n false (S n) b) as [rb n1] eqn:Eb.
      destruct (resolve e fs cur ca n1 k) as [rk n2] eqn:Ek. cbn [fst snd app]. intros HDt.
      specialize (G e fs cur ca n rest rb n1 rk n2 Hok HD Hfs Hinc Eb Ek HDt). cbn zeta in G. cbn [rename_with].
      destruct (rename_with (map newname (map (TBind n false) (headdecls ps) ++ rb ++ rk) ++ rest) ps) as [ps' l1].
      destruct (rename_with l1 b) as [b' l2]. destruct (rename_with l2 k) as [k' l3].
      destruct G as (G1 & G2 & G3 & G4 & G5 & G6 & G7 & G8 & G9).
      split; [exact G1|]. cbn [core resolve lexdecls vardecls]. rewrite G2, G3, G4, G5, G6, G7, G8, G9.
      rewrite !map_app. repeat split; reflexivity.
    - intros e fs cur ca n rest Hok HD Hfs Hinc. cbn [allnames] in Hinc. cbn [resolve]. rewrite (resolve_params _ _ _ _ _ Hps).
      destruct (resolve ((n, false, headdecls ps ++ vardecls b ++ lexdecls b) :: e) n n false (S n) b) as [rb n1] eqn:Eb.
      destruct (resolve e fs cur ca n1 k) as [rk n2] eqn:Ek. cbn [fst snd]. intros HDt.
      specialize (G e fs cur ca n rest rb n1 rk n2 Hok HD Hfs Hinc Eb Ek HDt). cbn zeta in G. cbn [rename_with].
      destruct (rename_with (map newname (map (TBind n false) (headdecls ps) ++ rb ++ rk) ++ rest) ps) as [ps' l1].
      destruct (rename_with l1 b) as [b' l2]. destruct (rename_with l2 k) as [k' l3].
      destruct G as (G1 & G2 & G3 & G4 & G5 & G6 & G7 & G8 & G9).
      split; [exact G1|]. cbn [core resolve lexdecls vardecls]. rewrite G2, G3, G4, G5, G6, G7, G8, G9.
      rewrite !map_app. repeat split; reflexivity.
  Qed.

  Lemma rr_catch hd b k :
    catch_params_only hd = true -> core b = true -> rr_stmt b -> rr_stmt k -> rr_stmt (Catch hd b k).
  Proof.
    intros Hhd Hcb IHb IHk e fs cur ca n rest Hok HD Hfs Hinc. cbn [allnames] in Hinc. cbn [resolve].
    rewrite (resolve_catch_params _ _ _ _ _ Hhd).
    pose proof (resolve_counter_mono b ((n, false, headdecls hd ++ lexdecls b) :: e) fs n false (S n)) as Hmono.
    pose proof (lexdecls_targets b Hcb ((n, false, headdecls hd ++ lexdecls b) :: e) fs n false (S n)) as Hlt.
    pose proof (vardecls_targets b Hcb ((n, false, headdecls hd ++ lexdecls b) :: e) fs n false (S n)) as Hvt.
    assert (IHb' := IHb ((n, false, headdecls hd ++ lexdecls b) :: e) fs n false (S n)).
    destruct (resolve ((n, false, headdecls hd ++ lexdecls b) :: e) fs n false (S n) b) as [rb n1] eqn:Eb. cbn [snd fst] in *.
    assert (IHk' := IHk e fs cur ca n1).
    destruct (resolve e fs cur ca n1 k) as [rk n2] eqn:Ek. cbn [snd fst] in *.
    intros HDt. pose proof (Forall_app_l _ _ _ HDt) as HDp. pose proof (Forall_app_r _ _ _ HDt) as HDbk.
    pose proof (Forall_app_l _ _ _ HDbk) as HDb. pose proof (Forall_app_r _ _ _ HDbk) as HDk.
    rewrite !map_app, <- !app_assoc. cbn [rename_with].
    pose proof (rename_catch_params_only hd Hhd) as Hp.
    destruct (rename_with (map newname (map (TBind n false) (headdecls hd)) ++ map newname rb ++ map newname rk ++ rest) hd) as [hd' l1] eqn:Ehd.
    assert (Hp' : l1 = map newname rb ++ map newname rk ++ rest /\ catch_params_only hd' = true /\
                  headdecls hd' = map (f n false) (headdecls hd) /\ vardecls hd' = [] /\ lexdecls hd' = [] /\
                  forall e0 fs0 n0, resolve e0 fs0 n false n0 hd' = (map retarget (map (TBind n false) (headdecls hd)), n0)).
    { pose proof (Hp [] O n O (map newname rb ++ map newname rk ++ rest)) as H0. cbn zeta in H0. rewrite Ehd in H0.
      destruct H0 as (H1 & H2 & H3 & H4 & H5 & _). repeat (split; [assumption|]).
      intros e0 fs0 n0. pose proof (Hp e0 fs0 n n0 (map newname rb ++ map newname rk ++ rest)) as H6. cbn zeta in H6.
      rewrite Ehd in H6. apply H6. }
    destruct Hp' as (-> & P2 & P3 & P4 & P5 & P6).
    specialize (IHb' (map newname rk ++ rest) (env_ok_push e n _ Hok)).
    destruct (rename_with (map newname rb ++ map newname rk ++ rest) b) as [b' l2].
    destruct IHb' as (B1 & B2 & B3 & B4 & B5).
    { apply env_D_push; [exact HD|]. intros x Hx. apply in_app_iff in Hx. destruct Hx as [Hx|Hx].
      - apply (Dt_in (map (TBind n false) (headdecls hd))); [exact HDp|apply in_map; exact Hx].
      - apply (Dt_in rb); [exact HDb|apply Hlt; exact Hx]. }
    { lia. } { exact (incl_app_l _ _ _ (incl_app_r _ _ _ Hinc)). } { exact HDb. }
    subst l2.
    specialize (IHk' rest (env_ok_mono e n n1 Hok ltac:(lia)) HD ltac:(lia) (incl_app_r _ _ _ (incl_app_r _ _ _ Hinc)) HDk).
    destruct (rename_with (map newname rk ++ rest) k) as [k' l3].
    destruct IHk' as (K1 & K2 & K3 & K4 & K5).
    split; [exact K1|]. cbn [core resolve lexdecls vardecls]. rewrite P2, B2, K2, P6.
    cbn [ren_env map ren_entry] in B3. fold (ren_env e) in B3. rewrite !map_app in B3. rewrite <- P3, <- B4 in B3. rewrite B3, K3, K4, K5, P4, B5.
    rewrite P3. rewrite disjointb_fresh_sids.
    2:{ lia. }
    2:{ intros x Hx. apply (Dt_in (map (TBind n false) (headdecls hd))); [exact HDp|apply in_map; exact Hx]. }
    2:{ intros x Hx. apply (Dt_in rb); [exact HDb|apply Hvt; exact Hx]. }
    destruct (catch_params_lexvar hd Hhd) as [_ Ehv]. rewrite Ehv.
    rewrite !map_app. repeat split; reflexivity.
  Qed.

  Theorem resolve_rename p : core p = true -> rr_stmt p.
  Proof.
    induction p; intros Hc; cbn [core] in Hc; try discriminate.
    - intros e fs cur ca n rest _ _ _ _ _. cbn. repeat split; reflexivity.
    - apply rr_ref. apply IHp. exact Hc.
    - apply andb_true_iff in Hc. destruct Hc as [Hd Hc].
      apply rr_decl; [destruct d; try discriminate; tauto|apply IHp; exact Hc].
    - apply andb_true_iff in Hc. destruct Hc as [H1 H2]. apply rr_block; [exact H1|apply IHp1; exact H1|apply IHp2; exact H2].
    - destruct nm; [discriminate|]. apply andb_true_iff in Hc. destruct Hc as [Hc H3]. apply andb_true_iff in Hc. destruct Hc as [H1 H2].
      apply (rr_func_like p1 p2 p3 H1 H2 (IHp2 H2) (IHp3 H3)).
    - apply andb_true_iff in Hc. destruct Hc as [Hc H3]. apply andb_true_iff in Hc. destruct Hc as [H1 H2].
      apply (rr_func_like p1 p2 p3 H1 H2 (IHp2 H2) (IHp3 H3)).
    - apply andb_true_iff in Hc. destruct Hc as [Hc H4]. apply andb_true_iff in Hc. destruct Hc as [Hc H3].
      apply andb_true_iff in Hc. destruct Hc as [H1 H2].
      apply rr_catch; [exact H1|exact H3|apply IHp2; exact H3|apply IHp3; exact H4].
  Qed.
End Renaming.
