(* JsScope/Rename.v — renaming the identifier occurrences of a binding program by declaration, with fresh
   names: the declarative resolver gives the renamed program the same binding structure (alpha-equivalence).
   Purely about Spec.v; Main2.v combines it with resolution_correct to rename by Var. *)
From Coq Require Import ZifyBool.
From Verif Require Import Common.Base Common.Tactics JsScope.Model JsScope.Spec JsScope.Resolve1 JsScope.Resolve5 JsScope.Resolve7.

(* replace the names of the occurrences of p, in source order, by the names of l *)
Fixpoint rename_with (l : list Z) (p : prog) : prog * list Z :=
  match p with
  | Done => (Done, l)
  | Ref x k => let '(k', r) := rename_with (tl l) k in (Ref (hd x l) k', r)
  | PRef x k => let '(k', r) := rename_with (tl l) k in (PRef (hd x l) k', r)
  | Decl d x k => let '(k', r) := rename_with (tl l) k in (Decl d (hd x l) k', r)
  | Block b k =>
      let '(b', l1) := rename_with l b in
      let '(k', l2) := rename_with l1 k in (Block b' k', l2)
  | Func nm ps b k =>
      let '(nm', l0) := match nm with Some f => (Some (hd f l), tl l) | None => (None, l) end in
      let '(ps', l1) := rename_with l0 ps in
      let '(b', l2) := rename_with l1 b in
      let '(k', l3) := rename_with l2 k in (Func nm' ps' b' k', l3)
  | Arrow ps b k =>
      let '(ps', l1) := rename_with l ps in
      let '(b', l2) := rename_with l1 b in
      let '(k', l3) := rename_with l2 k in (Arrow ps' b' k', l3)
  | ArrowId x b k =>
      let '(b', l1) := rename_with (tl l) b in
      let '(k', l2) := rename_with l1 k in (ArrowId (hd x l) b' k', l2)
  | Paren h k =>
      let '(h', l1) := rename_with l h in
      let '(k', l2) := rename_with l1 k in (Paren h' k', l2)
  | For h b k =>
      let '(h', l1) := rename_with l h in
      let '(b', l2) := rename_with l1 b in
      let '(k', l3) := rename_with l2 k in (For h' b' k', l3)
  | Catch h b k =>
      let '(h', l1) := rename_with l h in
      let '(b', l2) := rename_with l1 b in
      let '(k', l3) := rename_with l2 k in (Catch h' b' k', l3)
  | Class nm ms k =>
      let '(nm', l0) := match nm with Some c => (Some (hd c l), tl l) | None => (None, l) end in
      let '(ms', l1) := rename_with l0 ms in
      let '(k', l2) := rename_with l1 k in (Class nm' ms' k', l2)
  end.

Definition rename_prog (l : list Z) (p : prog) : prog := fst (rename_with l p).

Section Renaming.
  (* the new name of each declaration *)
  Variable f : nat -> bool -> Z -> Z.
  Variable universe : list Z.      (* the names of the original program *)
  Variable D : nat -> bool -> Z -> Prop.   (* the declarations of the program *)
  Hypothesis f_inj : forall s a x t b y, D s a x -> D t b y -> f s a x = f t b y -> s = t /\ a = b /\ x = y.
  Hypothesis f_fresh : forall s a x, D s a x -> ~ In (f s a x) universe.

  Definition Dt (t : target) : Prop := match t with TGlobal _ => True | TBind s a x => D s a x end.
  Definition env_D (e : env) : Prop := forall s a names x, In (s, a, names) e -> In x names -> D s a x.

  Lemma env_D_push e s a names : env_D e -> (forall x, In x names -> D s a x) -> env_D ((s, a, names) :: e).
  Proof.
    intros He Hn s' a' names' x [E|Hin] Hx; [inversion E; subst; apply Hn; exact Hx|eapply He; eassumption].
  Qed.

  Definition newname (t : target) : Z := match t with TGlobal x => x | TBind s a x => f s a x end.
  Definition retarget (t : target) : target := match t with TGlobal x => TGlobal x | TBind s a x => TBind s a (f s a x) end.

  (* the environment of the renamed program *)
  Definition ren_entry (en : nat * bool * list Z) : nat * bool * list Z :=
    let '(s, a, names) := en in (s, a, map (f s a) names).
  Definition ren_env (e : env) : env := map ren_entry e.

  Definition env_sids (e : env) : list (nat * bool) := map (fun en => fst en) e.

  Lemma lookup_in e x s a : lookup e x = TBind s a x -> exists names, In (s, a, names) e /\ In x names.
  Proof.
    induction e as [|[[s0 a0] n0] t IH]; cbn; [discriminate|]. destruct (mem x n0) eqn:Em.
    - intros E. inversion E; subst. exists n0. split; [left; reflexivity|apply mem_in; exact Em].
    - intros E. destruct (IH E) as (names & H1 & H2). exists names. split; [right; exact H1|exact H2].
  Qed.

  Lemma lookup_name e x : match lookup e x with TGlobal z => z = x | TBind _ _ z => z = x end.
  Proof. induction e as [|[[s0 a0] n0] t IH]; cbn; [reflexivity|]. destruct (mem x n0); [reflexivity|exact IH]. Qed.

  Lemma lookup_ren e x :
    NoDup (env_sids e) -> env_D e -> In x universe ->
    lookup (ren_env e) (newname (lookup e x)) = retarget (lookup e x).
  Proof.
    intros Hnd HD Hx. induction e as [|[[s a] names] t IH]; [reflexivity|].
    assert (HDt : env_D t) by (intros s' a' n' x' Hin Hx'; apply (HD s' a' n' x'); [right; exact Hin|exact Hx']).
    cbn [env_sids map fst] in Hnd. inversion Hnd as [|? ? Hnot Hnd']; subst.
    cbn [lookup ren_env map ren_entry]. destruct (mem x names) eqn:Em.
    - cbn [newname retarget lookup]. replace (mem (f s a x) (map (f s a) names)) with true; [reflexivity|].
      symmetry. apply mem_in. apply in_map. apply mem_in. exact Em.
    - fold (ren_env t). specialize (IH Hnd' HDt).
      assert (Hm : mem (newname (lookup t x)) (map (f s a) names) = false).
      { apply mem_not_in. intros Hin. apply in_map_iff in Hin. destruct Hin as (y & Ey & Hy).
        assert (Dy : D s a y) by (apply (HD s a names y); [left; reflexivity|exact Hy]).
        pose proof (lookup_name t x) as Hnm.
        destruct (lookup t x) as [z|s' a' z] eqn:El; cbn [newname] in Ey.
        - (* a free name: the new names are fresh *)
          apply (f_fresh s a y Dy). rewrite Ey, Hnm. exact Hx.
        - subst z. destruct (lookup_in t x s' a' El) as (names' & Hin' & Hx').
          assert (Dx : D s' a' x) by (apply (HDt s' a' names' x); assumption).
          destruct (f_inj _ _ _ _ _ _ Dy Dx Ey) as (-> & -> & _). apply Hnot.
          unfold env_sids. apply in_map_iff. exists (s', a', names'). split; [reflexivity|exact Hin']. }
      rewrite Hm. exact IH.
  Qed.

  (* the invariant of the induction: scope ids of the environment are distinct and below the counter *)
  Definition env_ok (e : env) (n : nat) : Prop :=
    NoDup (env_sids e) /\ forall s a, In (s, a) (env_sids e) -> (s < n)%nat.

  Lemma env_ok_push e n a0 names : env_ok e n -> env_ok ((n, a0, names) :: e) (S n).
  Proof.
    intros [Hnd Hlt]. split.
    - cbn. constructor; [|exact Hnd]. intros Hin. specialize (Hlt n a0 Hin). lia.
    - intros s a [E|Hin]; [inversion E; lia|]. specialize (Hlt s a Hin). lia.
  Qed.

  (* a main scope on top of its auxiliary scope (same parser scope) *)
  Lemma env_ok_push2 e n l1 l2 : env_ok e n -> env_ok ((n, false, l1) :: (n, true, l2) :: e) (S n).
  Proof.
    intros [Hnd Hlt]. split.
    - cbn. constructor; [|constructor; [|exact Hnd]].
      + intros [E|Hin]; [discriminate|]. specialize (Hlt n false Hin). lia.
      + intros Hin. specialize (Hlt n true Hin). lia.
    - intros s a [E|[E|Hin]]; [inversion E; lia|inversion E; lia|]. specialize (Hlt s a Hin). lia.
  Qed.

  Lemma env_ok_mono e n m : env_ok e n -> (n <= m)%nat -> env_ok e m.
  Proof. intros [Hnd Hlt] Hle. split; [exact Hnd|]. intros s a Hin. specialize (Hlt s a Hin). lia. Qed.

  Lemma resolve_counter_mono p : forall e fs cur ca n, (n <= snd (resolve e fs cur ca n p))%nat.
  Proof.
    induction p; intros e fs cur ca n; cbn [resolve];
      repeat match goal with
      | |- context [resolve ?e ?fs ?cur ?ca ?n ?p] =>
          let r := fresh "r" in let m := fresh "m" in let E := fresh "E" in
          destruct (resolve e fs cur ca n p) as [r m] eqn:E;
          match goal with
          | IH : forall e fs cur ca n, (n <= snd (resolve e fs cur ca n p))%nat |- _ =>
              let H := fresh "H" in pose proof (IH e fs cur ca n) as H; rewrite E in H; cbn [snd] in H
          end
      end; cbn [snd]; lia.
  Qed.

  Definition tname (t : target) : Z := match t with TGlobal x => x | TBind _ _ x => x end.

  Lemma tname_lookup e x : tname (lookup e x) = x.
  Proof. pose proof (lookup_name e x) as H. destruct (lookup e x); exact H. Qed.

  (* destruct the calls of the resolver in the goal, instantiating the induction hypotheses on the way *)
  Ltac dres :=
    repeat match goal with
    | |- context [resolve ?e ?fs ?cur ?ca ?n ?p] =>
        let r := fresh "r" in let m := fresh "m" in let E := fresh "E" in
        destruct (resolve e fs cur ca n p) as [r m] eqn:E;
        try match goal with
        | IH : forall (e' : env), _ |- _ =>
            let H := fresh "H" in pose proof (IH e fs cur ca n) as H; rewrite E in H; cbn [fst snd] in H; clear IH
        end
    end.

  (* the targets of a program carry the names of its occurrences, in source order *)
  Lemma resolve_names p : forall e fs cur ca n, map tname (fst (resolve e fs cur ca n p)) = allnames p.
  Proof.
    induction p; intros e fs cur ca n; cbn [resolve allnames]; try destruct nm; dres; cbn [fst map tname app];
      rewrite ?map_app; rewrite ?tname_lookup;
      repeat match goal with H : map tname _ = _ |- _ => rewrite H; clear H end;
      try match goal with |- context [is_var ?d] => destruct (is_var d) end; reflexivity.
  Qed.

  (* the declarations of a program are among its targets *)
  Ltac intail H := first [exact H | right; intail H | apply in_or_app; right; intail H].

  Lemma lexdecls_targets p : forall e fs cur ca n x,
    In x (lexdecls p) -> In (TBind cur ca x) (fst (resolve e fs cur ca n p)).
  Proof.
    induction p; intros e fs cur ca n y Hy; cbn [lexdecls] in Hy; cbn [resolve]; try destruct nm; dres; cbn [fst app];
      try (destruct Hy; fail);
      try (match goal with
           | H : forall x, In x (lexdecls ?k) -> _, Hy : In ?z (lexdecls ?k) |- _ =>
               let G := fresh in pose proof (H z Hy) as G; intail G
           end).
    (* Decl *)
    apply in_app_iff in Hy. destruct Hy as [Hy|Hy]; [|right; auto].
    destruct d; cbn in Hy; try tauto. destruct Hy as [<-|[]]. left. reflexivity.
  Qed.

  Lemma headdecls_targets p : forall e fs cur ca n x,
    In x (headdecls p) -> In (TBind cur ca x) (fst (resolve e fs cur ca n p)).
  Proof.
    induction p; intros e fs cur ca n y Hy; cbn [headdecls] in Hy; cbn [resolve]; try destruct nm; dres; cbn [fst app];
      try (destruct Hy; fail);
      try (match goal with
           | H : forall x, In x (headdecls ?k) -> _, Hy : In ?z (headdecls ?k) |- _ =>
               let G := fresh in pose proof (H z Hy) as G; intail G
           end).
    apply in_app_iff in Hy. destruct Hy as [Hy|Hy]; [|right; auto].
    destruct d; cbn in Hy; try tauto; destruct Hy as [<-|[]]; left; reflexivity.
  Qed.

  Ltac split_in Hy := repeat match type of Hy with In _ (_ ++ _) => apply in_app_iff in Hy; destruct Hy as [Hy|Hy] end.
  Ltac inlist G := first [exact G | apply in_or_app; left; exact G | apply in_or_app; right; inlist G | right; inlist G].

  Lemma vardecls_targets p : forall e fs cur ca n x,
    In x (vardecls p) -> In (TBind fs false x) (fst (resolve e fs cur ca n p)).
  Proof.
    induction p; intros e fs cur ca n y Hy; cbn [vardecls] in Hy; cbn [resolve]; try destruct nm; dres; cbn [fst app];
      try (destruct Hy; fail); split_in Hy;
      try (match goal with
           | H : forall x, In x (vardecls ?k) -> _, Hy : In ?z (vardecls ?k) |- _ =>
               let G := fresh in pose proof (H z Hy) as G; inlist G
           end).
    destruct d; cbn in Hy; try tauto; destruct Hy as [<-|[]]; left; reflexivity.
  Qed.

  Lemma incl_app_l {A} (a b c : list A) : incl (a ++ b) c -> incl a c.
  Proof. intros H x Hx. apply H. apply in_app_iff. left. exact Hx. Qed.
  Lemma incl_app_r {A} (a b c : list A) : incl (a ++ b) c -> incl b c.
  Proof. intros H x Hx. apply H. apply in_app_iff. right. exact Hx. Qed.
  Lemma incl_cons_r {A} (a : A) b c : incl (a :: b) c -> incl b c.
  Proof. intros H x Hx. apply H. right. exact Hx. Qed.

  Lemma Forall_app_l {A} (P : A -> Prop) a b : Forall P (a ++ b) -> Forall P a.
  Proof. intros H. apply Forall_forall. intros x Hx. rewrite Forall_forall in H. apply H. apply in_app_iff. left. exact Hx. Qed.
  Lemma Forall_app_r {A} (P : A -> Prop) a b : Forall P (a ++ b) -> Forall P b.
  Proof. intros H. apply Forall_forall. intros x Hx. rewrite Forall_forall in H. apply H. apply in_app_iff. right. exact Hx. Qed.

  Lemma Dt_in ts s a x : Forall Dt ts -> In (TBind s a x) ts -> D s a x.
  Proof. intros H Hin. rewrite Forall_forall in H. apply (H _ Hin). Qed.

  (* new names collide with renamed declarations only where the old names do *)
  Lemma disj_newname ts L s a :
    Forall Dt ts -> incl (map tname ts) universe -> (forall x, In x L -> D s a x) ->
    (forall z, In z (map tname ts) -> ~ In z L) ->
    disjointb (map newname ts) (map (f s a) L) = true.
  Proof.
    intros HD Hu HL Hdis. unfold disjointb. apply forallb_forall. intros y Hy. apply negb_true_iff. apply mem_not_in.
    intros Hin. apply in_map_iff in Hy. destruct Hy as (t & Et & Ht). apply in_map_iff in Hin. destruct Hin as (z & Ez & Hz).
    rewrite Forall_forall in HD. specialize (HD t Ht). destruct t as [x|s' a' x]; cbn [newname] in Et.
    - apply (f_fresh s a z (HL z Hz)). rewrite Ez, <- Et. apply Hu. apply in_map_iff. exists (TGlobal x). split; [reflexivity|exact Ht].
    - cbn [Dt] in HD. rewrite <- Et in Ez. destruct (f_inj _ _ _ _ _ _ (HL z Hz) HD Ez) as (_ & _ & ->).
      apply (Hdis x); [apply in_map_iff; exists (TBind s' a' x); split; [reflexivity|exact Ht]|exact Hz].
  Qed.

  Lemma in_newname_names ts y :
    In y (map newname ts) -> exists t, In t ts /\ y = newname t /\ In (tname t) (map tname ts).
  Proof.
    intros H. apply in_map_iff in H. destruct H as (t & E & Ht). exists t. split; [exact Ht|]. split; [symmetry; exact E|].
    apply in_map. exact Ht.
  Qed.

  (* what the renamed program p' of p satisfies; ts, n': the result of the resolver on p *)
  Definition RR (e : env) (fs cur : nat) (ca : bool) (n : nat) (p p' : prog) (ts : list target) (n' : nat) : Prop :=
    resolve (ren_env e) fs cur ca n p' = (map retarget ts, n') /\
    lexdecls p' = map (f cur ca) (lexdecls p) /\
    vardecls p' = map (f fs false) (vardecls p) /\
    headdecls p' = map (f cur ca) (headdecls p) /\
    allnames p' = map newname ts /\
    (forall y, In y (default_names p') -> exists t, In t ts /\ y = newname t /\ In (tname t) (default_names p)) /\
    (params_only p = true -> params_only p' = true) /\
    (catch_params_only p = true -> catch_params_only p' = true) /\
    (core_d p = true -> core_d p' = true) /\ (pcore_d p = true -> pcore_d p' = true) /\ (core p = true -> core p' = true) /\
    (core_x p = true -> core_x p' = true) /\ (forall c, hcore_x c p = true -> hcore_x c p' = true).

  Definition rr_stmt (p : prog) : Prop :=
    forall e fs cur ca n rest,
      env_ok e n -> env_D e -> incl (allnames p) universe ->
      Forall Dt (fst (resolve e fs cur ca n p)) ->
      let '(p', l') := rename_with (map newname (fst (resolve e fs cur ca n p)) ++ rest) p in
      l' = rest /\ RR e fs cur ca n p p' (fst (resolve e fs cur ca n p)) (snd (resolve e fs cur ca n p)).

  Lemma rr_done : rr_stmt Done.
  Proof.
    intros e fs cur ca n rest _ _ _ _. cbn. split; [reflexivity|]. unfold RR. cbn.
    repeat apply conj; try reflexivity; try (intros; assumption). intros y [].
  Qed.

  Lemma rr_ref x k : rr_stmt k -> rr_stmt (Ref x k) /\ rr_stmt (PRef x k).
  Proof.
    intros IH.
    assert (G : forall e fs cur ca n rest, env_ok e n -> env_D e -> incl (x :: allnames k) universe ->
              Forall Dt (lookup e x :: fst (resolve e fs cur ca n k)) ->
              let '(k', l') := rename_with (map newname (fst (resolve e fs cur ca n k)) ++ rest) k in
              l' = rest /\ RR e fs cur ca n k k' (fst (resolve e fs cur ca n k)) (snd (resolve e fs cur ca n k)) /\
              lookup (ren_env e) (newname (lookup e x)) = retarget (lookup e x) /\
              (negb (mem x (headdecls k)) = true -> negb (mem (newname (lookup e x)) (headdecls k')) = true)).
    { intros e fs cur ca n rest Hok HD Hinc HDt. inversion HDt as [|? ? Hd0 HDr]; subst.
      specialize (IH e fs cur ca n rest Hok HD (incl_cons_r _ _ _ Hinc) HDr).
      pose proof (headdecls_targets k e fs cur ca n) as Hht.
      destruct (rename_with (map newname (fst (resolve e fs cur ca n k)) ++ rest) k) as [k' l'].
      destruct IH as (E0 & R). split; [exact E0|]. split; [exact R|]. split.
      - apply (lookup_ren e x (proj1 Hok) HD (Hinc x (or_introl eq_refl))).
      - intros Hm. destruct R as (_ & _ & _ & R4 & _). rewrite R4.
        pose proof (disj_newname [lookup e x] (headdecls k) cur ca) as Hd. cbn [map] in Hd.
        unfold disjointb in Hd. cbn [forallb] in Hd. rewrite andb_true_r in Hd. apply Hd.
        + constructor; [exact Hd0|constructor].
        + intros z [<-|[]]. rewrite tname_lookup. apply Hinc. left. reflexivity.
        + intros z Hz. apply (Dt_in _ _ _ _ HDr). apply Hht. exact Hz.
        + intros z [<-|[]]. rewrite tname_lookup. apply negb_true_iff in Hm. apply mem_not_in. exact Hm. }
    split.
    - intros e fs cur ca n rest Hok HD Hinc. cbn [resolve allnames] in *.
      specialize (G e fs cur ca n rest Hok HD Hinc).
      destruct (resolve e fs cur ca n k) as [r n1]. cbn [fst snd map app rename_with hd tl] in *.
      intros HDt. specialize (G HDt).
      destruct (rename_with (map newname r ++ rest) k) as [k' l']. destruct G as (E0 & R & Hl & Hm).
      split; [exact E0|]. destruct R as (R1 & R2 & R3 & R4 & R5 & R6 & R7 & R8 & R9 & R10 & R11 & R12 & R13).
      unfold RR. cbn [resolve lexdecls vardecls headdecls allnames default_names params_only catch_params_only core_d pcore_d core core_x hcore_x map].
      rewrite R1, Hl, R5. repeat apply conj; try reflexivity; try assumption; try discriminate.
      + intros y [<-|Hy].
        * exists (lookup e x). split; [left; reflexivity|]. split; [reflexivity|]. left. symmetry. apply tname_lookup.
        * destruct (R6 y Hy) as (t & T1 & T2 & T3). exists t. split; [right; exact T1|]. split; [exact T2|right; exact T3].
      + intros H. apply andb_true_iff in H. destruct H as [H1 H2]. rewrite (Hm H1), (R10 H2). reflexivity.
      + intros c0 H. apply andb_true_iff in H. destruct H as [H1 H2]. rewrite (R13 c0 H2). destruct c0; [reflexivity|]. rewrite (Hm H1). reflexivity.
    - intros e fs cur ca n rest Hok HD Hinc. cbn [resolve allnames] in *.
      specialize (G e fs cur ca n rest Hok HD Hinc).
      destruct (resolve e fs cur ca n k) as [r n1]. cbn [fst snd map app rename_with hd tl] in *.
      intros HDt. specialize (G HDt).
      destruct (rename_with (map newname r ++ rest) k) as [k' l']. destruct G as (E0 & R & Hl & Hm).
      split; [exact E0|]. destruct R as (R1 & R2 & R3 & R4 & R5 & R6 & R7 & R8 & R9 & R10 & R11 & R12 & R13).
      unfold RR. cbn [resolve lexdecls vardecls headdecls allnames default_names params_only catch_params_only core_d pcore_d core core_x hcore_x map].
      rewrite R1, Hl, R5. repeat apply conj; try reflexivity; try assumption; try discriminate.
      intros y [<-|Hy].
      * exists (lookup e x). split; [left; reflexivity|]. split; [reflexivity|]. left. symmetry. apply tname_lookup.
      * destruct (R6 y Hy) as (t & T1 & T2 & T3). exists t. split; [right; exact T1|]. split; [exact T2|right; exact T3].
  Qed.

  Lemma rr_decl d x k : rr_stmt k -> rr_stmt (Decl d x k).
  Proof.
    intros IH e fs cur ca n rest Hok HD Hinc. cbn [resolve allnames] in *.
    specialize (IH e fs cur ca n rest Hok HD (incl_cons_r _ _ _ Hinc)).
    destruct (resolve e fs cur ca n k) as [r n1]. cbn [fst snd map app rename_with hd tl] in *.
    intros HDt. inversion HDt as [|? ? _ HDr]; subst. specialize (IH HDr).
    destruct (rename_with (map newname r ++ rest) k) as [k' l']. destruct IH as (E0 & R).
    split; [exact E0|]. destruct R as (R1 & R2 & R3 & R4 & R5 & R6 & R7 & R8 & R9 & R10 & R11 & R12 & R13).
    unfold RR. cbn [resolve lexdecls vardecls headdecls allnames default_names params_only catch_params_only core_d pcore_d core core_x hcore_x map].
    rewrite R1, R2, R3, R4, R5.
    destruct d; cbn [is_var is_lex newname retarget app map];
      (repeat apply conj; try reflexivity; try assumption; try discriminate;
       try (intros y Hy; destruct (R6 y Hy) as (t & T1 & T2 & T3); exists t; (split; [right; exact T1|]); split; [exact T2|exact T3]);
       try (intros c0; destruct c0; solve [discriminate|apply R13])).
  Qed.

  Lemma rr_block b k : rr_stmt b -> rr_stmt k -> rr_stmt (Block b k).
  Proof.
    intros IHb IHk e fs cur ca n rest Hok HD Hinc. cbn [resolve allnames] in *.
    pose proof (resolve_counter_mono b ((n, false, lexdecls b) :: e) fs n false (S n)) as Hmono.
    pose proof (lexdecls_targets b ((n, false, lexdecls b) :: e) fs n false (S n)) as Hlt.
    pose proof (resolve_names b ((n, false, lexdecls b) :: e) fs n false (S n)) as Hnb.
    assert (IHb' := IHb ((n, false, lexdecls b) :: e) fs n false (S n)).
    destruct (resolve ((n, false, lexdecls b) :: e) fs n false (S n) b) as [rb n1] eqn:Eb. cbn [snd fst] in *.
    assert (IHk' := IHk e fs cur ca n1).
    destruct (resolve e fs cur ca n1 k) as [rk n2] eqn:Ek. cbn [snd fst] in *.
    intros HDt. pose proof (Forall_app_l _ _ _ HDt) as HDb. pose proof (Forall_app_r _ _ _ HDt) as HDk.
    rewrite map_app, <- app_assoc. cbn [rename_with].
    specialize (IHb' (map newname rk ++ rest) (env_ok_push e n false (lexdecls b) Hok)).
    destruct (rename_with (map newname rb ++ map newname rk ++ rest) b) as [b' l1].
    destruct IHb' as (B0 & B).
    { apply env_D_push; [exact HD|]. intros x Hx. apply (Dt_in rb); [exact HDb|apply Hlt; exact Hx]. }
    { exact (incl_app_l _ _ _ Hinc). } { exact HDb. }
    subst l1.
    specialize (IHk' rest (env_ok_mono e n n1 Hok ltac:(lia)) HD (incl_app_r _ _ _ Hinc) HDk).
    destruct (rename_with (map newname rk ++ rest) k) as [k' l2].
    destruct IHk' as (K0 & K).
    split; [exact K0|].
    destruct B as (B1 & B2 & B3 & B4 & B5 & B6 & B7 & B8 & B9 & B10 & B11 & B12 & B13).
    destruct K as (K1 & K2 & K3 & K4 & K5 & K6 & K7 & K8 & K9 & K10 & K11 & K12 & K13).
    cbn [ren_env map ren_entry] in B1. rewrite <- B2 in B1. fold (ren_env e) in B1.
    unfold RR. cbn [resolve lexdecls vardecls headdecls allnames default_names params_only catch_params_only core_d pcore_d core core_x hcore_x].
    rewrite B1, K1, K2, B3, K3, K4, B5, K5, <- !map_app.
    repeat apply conj; try reflexivity; try discriminate.
    - intros y Hy. apply in_app_iff in Hy. destruct Hy as [Hy|Hy].
      + destruct (in_newname_names rb y Hy) as (t & T1 & T2 & T3). rewrite Hnb in T3.
        exists t. split; [apply in_app_iff; left; exact T1|]. split; [exact T2|apply in_app_iff; left; exact T3].
      + destruct (K6 y Hy) as (t & T1 & T2 & T3).
        exists t. split; [apply in_app_iff; right; exact T1|]. split; [exact T2|apply in_app_iff; right; exact T3].
    - intros H. apply andb_true_iff in H. destruct H as [H1 H2]. rewrite (B9 H1), (K9 H2). reflexivity.
    - intros H. apply andb_true_iff in H. destruct H as [H1 H2]. rewrite (B11 H1), (K11 H2). reflexivity.
    - intros H. apply andb_true_iff in H. destruct H as [H1 H2]. rewrite (B12 H1), (K12 H2). reflexivity.
  Qed.

  Lemma newname_notin t L s a :
    Dt t -> In (tname t) universe -> (forall x, In x L -> D s a x) -> ~ In (tname t) L -> ~ In (newname t) (map (f s a) L).
  Proof.
    intros HD Hu HL Hn Hin. apply in_map_iff in Hin. destruct Hin as (z & Ez & Hz). destruct t as [x|s' a' x]; cbn in *.
    - apply (f_fresh s a z (HL z Hz)). rewrite Ez. exact Hu.
    - destruct (f_inj _ _ _ _ _ _ (HL z Hz) HD Ez) as (_ & _ & ->). apply Hn. exact Hz.
  Qed.

  (* parameter list, body and continuation of a function-like construct; e1: the environment under the
     function scope (e itself or e with the scope of the expression name) *)
  Lemma rr_func_core ps b k e1 e fs cur ca n rest rp n1 rb n2 rk n3 :
    rr_stmt ps -> rr_stmt b -> rr_stmt k ->
    (forall names, env_ok ((n, false, names) :: e1) (S n)) -> env_D e1 -> env_ok e n -> env_D e ->
    incl (allnames ps ++ allnames b ++ allnames k) universe ->
    resolve ((n, false, headdecls ps) :: e1) n n false (S n) ps = (rp, n1) ->
    resolve ((n, false, headdecls ps ++ vardecls b ++ lexdecls b) :: e1) n n false n1 b = (rb, n2) ->
    resolve e fs cur ca n2 k = (rk, n3) ->
    Forall Dt (rp ++ rb ++ rk) ->
    let '(ps', l1) := rename_with (map newname (rp ++ rb ++ rk) ++ rest) ps in
    let '(b', l2) := rename_with l1 b in
    let '(k', l3) := rename_with l2 k in
    l3 = rest /\
    RR ((n, false, headdecls ps) :: e1) n n false (S n) ps ps' rp n1 /\
    RR ((n, false, headdecls ps ++ vardecls b ++ lexdecls b) :: e1) n n false n1 b b' rb n2 /\
    RR e fs cur ca n2 k k' rk n3 /\
    resolve ((n, false, headdecls ps') :: ren_env e1) n n false (S n) ps' = (map retarget rp, n1) /\
    resolve ((n, false, headdecls ps' ++ vardecls b' ++ lexdecls b') :: ren_env e1) n n false n1 b' = (map retarget rb, n2) /\
    (disjointb (default_names ps) (vardecls b ++ lexdecls b) = true ->
     disjointb (default_names ps') (vardecls b' ++ lexdecls b') = true) /\
    (disjointb (allnames ps ++ allnames b) (headdecls k) = true ->
     disjointb (allnames ps' ++ allnames b') (headdecls k') = true) /\
    (forall x, In x (headdecls ps ++ vardecls b ++ lexdecls b) -> D n false x) /\
    (forall x, In x (headdecls k) -> D cur ca x).
  Proof.
    intros IHps IHb IHk Hok1 HD1 Hok HD Hinc Ep Eb Ek HDt.
    pose proof (resolve_counter_mono ps ((n, false, headdecls ps) :: e1) n n false (S n)) as Hm1. rewrite Ep in Hm1. cbn [snd] in Hm1.
    pose proof (resolve_counter_mono b ((n, false, headdecls ps ++ vardecls b ++ lexdecls b) :: e1) n n false n1) as Hm2. rewrite Eb in Hm2. cbn [snd] in Hm2.
    pose proof (headdecls_targets ps ((n, false, headdecls ps) :: e1) n n false (S n)) as Hht. rewrite Ep in Hht. cbn [fst] in Hht.
    pose proof (resolve_names ps ((n, false, headdecls ps) :: e1) n n false (S n)) as Hnp. rewrite Ep in Hnp. cbn [fst] in Hnp.
    pose proof (lexdecls_targets b ((n, false, headdecls ps ++ vardecls b ++ lexdecls b) :: e1) n n false n1) as Hlt. rewrite Eb in Hlt. cbn [fst] in Hlt.
    pose proof (vardecls_targets b ((n, false, headdecls ps ++ vardecls b ++ lexdecls b) :: e1) n n false n1) as Hvt. rewrite Eb in Hvt. cbn [fst] in Hvt.
    pose proof (resolve_names b ((n, false, headdecls ps ++ vardecls b ++ lexdecls b) :: e1) n n false n1) as Hnb. rewrite Eb in Hnb. cbn [fst] in Hnb.
    pose proof (headdecls_targets k e fs cur ca n2) as Hhk. rewrite Ek in Hhk. cbn [fst] in Hhk.
    pose proof (Forall_app_l _ _ _ HDt) as HDp. pose proof (Forall_app_r _ _ _ HDt) as HDbk.
    pose proof (Forall_app_l _ _ _ HDbk) as HDb. pose proof (Forall_app_r _ _ _ HDbk) as HDk.
    assert (Dhead : forall x, In x (headdecls ps) -> D n false x).
    { intros x Hx. apply (Dt_in rp); [exact HDp|apply Hht; exact Hx]. }
    assert (Dbody : forall x, In x (vardecls b ++ lexdecls b) -> D n false x).
    { intros x Hx. apply (Dt_in rb); [exact HDb|]. apply in_app_iff in Hx. destruct Hx as [Hx|Hx]; [apply Hvt|apply Hlt]; exact Hx. }
    rewrite !map_app, <- !app_assoc.
    assert (IHp' := IHps ((n, false, headdecls ps) :: e1) n n false (S n) (map newname rb ++ map newname rk ++ rest)).
    rewrite Ep in IHp'. cbn [fst snd] in IHp'.
    destruct (rename_with (map newname rp ++ map newname rb ++ map newname rk ++ rest) ps) as [ps' l1].
    destruct IHp' as (P0 & P).
    { apply Hok1. } { apply env_D_push; [exact HD1|exact Dhead]. } { exact (incl_app_l _ _ _ Hinc). } { exact HDp. }
    subst l1.
    assert (IHb' := IHb ((n, false, headdecls ps ++ vardecls b ++ lexdecls b) :: e1) n n false n1 (map newname rk ++ rest)).
    rewrite Eb in IHb'. cbn [fst snd] in IHb'.
    destruct (rename_with (map newname rb ++ map newname rk ++ rest) b) as [b' l2].
    destruct IHb' as (B0 & B).
    { apply (env_ok_mono _ (S n)); [apply Hok1|lia]. }
    { apply env_D_push; [exact HD1|]. intros x Hx. apply in_app_iff in Hx. destruct Hx as [Hx|Hx]; [apply Dhead|apply Dbody]; exact Hx. }
    { exact (incl_app_l _ _ _ (incl_app_r _ _ _ Hinc)). } { exact HDb. }
    subst l2.
    assert (IHk' := IHk e fs cur ca n2 rest). rewrite Ek in IHk'. cbn [fst snd] in IHk'.
    destruct (rename_with (map newname rk ++ rest) k) as [k' l3].
    destruct IHk' as (K0 & K).
    { apply (env_ok_mono e n); [exact Hok|lia]. } { exact HD. } { exact (incl_app_r _ _ _ (incl_app_r _ _ _ Hinc)). } { exact HDk. }
    split; [exact K0|]. split; [exact P|]. split; [exact B|]. split; [exact K|].
    destruct P as (P1 & P2 & P3 & P4 & P5 & P6 & _). destruct B as (B1 & B2 & B3 & B4 & B5 & _). destruct K as (_ & _ & _ & K4 & _).
    cbn [ren_env map ren_entry] in P1, B1. fold (ren_env e1) in P1, B1. rewrite !map_app in B1. rewrite <- P4 in P1. rewrite <- P4, <- B2, <- B3 in B1.
    split; [exact P1|]. split; [exact B1|].
    assert (Hlast : (forall x, In x (headdecls ps ++ vardecls b ++ lexdecls b) -> D n false x) /\ (forall x, In x (headdecls k) -> D cur ca x)).
    { split.
      - intros x Hx. apply in_app_iff in Hx. destruct Hx as [Hx|Hx]; [apply Dhead|apply Dbody]; exact Hx.
      - intros x Hx. apply (Dt_in rk); [exact HDk|apply Hhk; exact Hx]. }
    split; [|split; [|exact Hlast]].
    - intros Hdis. pose proof (disjointb_spec _ _ Hdis) as Hdis'.
      rewrite B3, B2, <- map_app. unfold disjointb. apply forallb_forall. intros y Hy. apply negb_true_iff. apply mem_not_in.
      destruct (P6 y Hy) as (t & T1 & -> & T3).
      apply newname_notin; [apply (proj1 (Forall_forall _ _) HDp); exact T1| |exact Dbody|apply Hdis'; exact T3].
      apply Hinc. apply in_app_iff. left. rewrite <- Hnp. apply in_map. exact T1.
    - intros Hdis. pose proof (disjointb_spec _ _ Hdis) as Hdis'.
      rewrite P5, B5, K4, <- map_app. apply disj_newname.
      + apply Forall_app; split; assumption.
      + rewrite map_app, Hnp, Hnb. intros z Hz. apply Hinc. apply in_app_iff in Hz. apply in_app_iff.
        destruct Hz as [Hz|Hz]; [left; exact Hz|right; apply in_app_iff; left; exact Hz].
      + intros x Hx. apply (Dt_in rk); [exact HDk|apply Hhk; exact Hx].
      + rewrite map_app, Hnp, Hnb. exact Hdis'.
  Qed.

  Definition DN (ts : list target) (N L' : list Z) : Prop :=
    forall y, In y L' -> exists t, In t ts /\ y = newname t /\ In (tname t) N.

  Lemma DN_names ts : DN ts (map tname ts) (map newname ts).
  Proof. intros y Hy. apply in_newname_names. exact Hy. Qed.

  Lemma DN_app ts1 ts2 N1 N2 L1 L2 : DN ts1 N1 L1 -> DN ts2 N2 L2 -> DN (ts1 ++ ts2) (N1 ++ N2) (L1 ++ L2).
  Proof.
    intros H1 H2 y Hy. apply in_app_iff in Hy. destruct Hy as [Hy|Hy].
    - destruct (H1 y Hy) as (t & T1 & T2 & T3). exists t. split; [apply in_app_iff; left; exact T1|]. split; [exact T2|apply in_app_iff; left; exact T3].
    - destruct (H2 y Hy) as (t & T1 & T2 & T3). exists t. split; [apply in_app_iff; right; exact T1|]. split; [exact T2|apply in_app_iff; right; exact T3].
  Qed.

  Lemma rr_func_none ps b k : rr_stmt ps -> rr_stmt b -> rr_stmt k -> rr_stmt (Func None ps b k) /\ rr_stmt (Arrow ps b k).
  Proof.
    intros IHps IHb IHk.
    assert (G : forall e fs cur ca n rest, env_ok e n -> env_D e -> incl (allnames ps ++ allnames b ++ allnames k) universe ->
      forall rp n1 rb n2 rk n3,
      resolve ((n, false, headdecls ps) :: e) n n false (S n) ps = (rp, n1) ->
      resolve ((n, false, headdecls ps ++ vardecls b ++ lexdecls b) :: e) n n false n1 b = (rb, n2) ->
      resolve e fs cur ca n2 k = (rk, n3) ->
      Forall Dt (rp ++ rb ++ rk) ->
      let '(ps', l1) := rename_with (map newname (rp ++ rb ++ rk) ++ rest) ps in
      let '(b', l2) := rename_with l1 b in
      let '(k', l3) := rename_with l2 k in
      l3 = rest /\ RR e fs cur ca n (Func None ps b k) (Func None ps' b' k') (rp ++ rb ++ rk) n3
                /\ RR e fs cur ca n (Arrow ps b k) (Arrow ps' b' k') (rp ++ rb ++ rk) n3).
    { intros e fs cur ca n rest Hok HD Hinc rp n1 rb n2 rk n3 Ep Eb Ek HDt.
      pose proof (rr_func_core ps b k e e fs cur ca n rest rp n1 rb n2 rk n3 IHps IHb IHk
                    (fun names => env_ok_push e n false names Hok) HD Hok HD Hinc Ep Eb Ek HDt) as C.
      pose proof (resolve_names ps ((n, false, headdecls ps) :: e) n n false (S n)) as Hnp. rewrite Ep in Hnp. cbn [fst] in Hnp.
      pose proof (resolve_names b ((n, false, headdecls ps ++ vardecls b ++ lexdecls b) :: e) n n false n1) as Hnb. rewrite Eb in Hnb. cbn [fst] in Hnb.
      destruct (rename_with (map newname (rp ++ rb ++ rk) ++ rest) ps) as [ps' l1].
      destruct (rename_with l1 b) as [b' l2]. destruct (rename_with l2 k) as [k' l3].
      destruct C as (C0 & P & B & K & C1 & C2 & C3 & C4 & C5 & C6). split; [exact C0|].
      destruct P as (P1 & P2 & P3 & P4 & P5 & P6 & P7 & P8 & P9 & P10 & P11 & P12 & P13).
      destruct B as (B1 & B2 & B3 & B4 & B5 & B6 & B7 & B8 & B9 & B10 & B11 & B12 & B13).
      destruct K as (K1 & K2 & K3 & K4 & K5 & K6 & K7 & K8 & K9 & K10 & K11 & K12 & K13).
      assert (Hdn : DN (rp ++ rb ++ rk) (allnames ps ++ allnames b ++ default_names k) (allnames ps' ++ allnames b' ++ default_names k')).
      { rewrite P5, B5, <- Hnp, <- Hnb. apply DN_app; [apply DN_names|]. apply DN_app; [apply DN_names|exact K6]. }
      split.
      - unfold RR. cbn [resolve lexdecls vardecls headdecls allnames default_names params_only catch_params_only core_d pcore_d core core_x hcore_x app].
        repeat apply conj; try discriminate.
        + rewrite C1, C2, K1, !map_app. reflexivity.
        + exact K2.
        + exact K3.
        + exact K4.
        + rewrite P5, B5, K5, !map_app. reflexivity.
        + exact Hdn.
        + intros H. apply andb_true_iff in H. destruct H as [H H4]. apply andb_true_iff in H. destruct H as [H1 H3].
          rewrite (P10 H1), (B9 H3), (K9 H4). reflexivity.
        + intros H. apply andb_true_iff in H. destruct H as [H H5]. apply andb_true_iff in H. destruct H as [H H4].
          apply andb_true_iff in H. destruct H as [H1 H3].
          rewrite (P10 H1), (B9 H3), (C4 H4), (K10 H5). reflexivity.
        + intros H. apply andb_true_iff in H. destruct H as [H H3]. apply andb_true_iff in H. destruct H as [H1 H2].
          rewrite (P7 H1), (B11 H2), (K11 H3). reflexivity.
        + intros H. apply andb_true_iff in H. destruct H as [H _]. apply andb_true_iff in H. destruct H as [H H4].
          apply andb_true_iff in H. destruct H as [H1 H3].
          rewrite (P13 false H1), (B12 H3), (K12 H4). reflexivity.
        + intros c0 H. apply andb_true_iff in H. destruct H as [H _]. apply andb_true_iff in H. destruct H as [H H5].
          apply andb_true_iff in H. destruct H as [H H4]. apply andb_true_iff in H. destruct H as [H1 H3].
          rewrite (P13 false H1), (B12 H3), (K13 c0 H5). destruct c0; [reflexivity|]. rewrite (C4 H4). reflexivity.
      - unfold RR. cbn [resolve lexdecls vardecls headdecls allnames default_names params_only catch_params_only core_d pcore_d core core_x hcore_x app].
        repeat apply conj; try discriminate.
        + rewrite C1, C2, K1, !map_app. reflexivity.
        + exact K2.
        + exact K3.
        + exact K4.
        + rewrite P5, B5, K5, !map_app. reflexivity.
        + exact Hdn.
        + intros H. apply andb_true_iff in H. destruct H as [H H4]. apply andb_true_iff in H. destruct H as [H1 H3].
          rewrite (P10 H1), (B9 H3), (K9 H4). reflexivity.
        + intros H. apply andb_true_iff in H. destruct H as [H H5]. apply andb_true_iff in H. destruct H as [H H4].
          apply andb_true_iff in H. destruct H as [H1 H3].
          rewrite (P10 H1), (B9 H3), (C4 H4), (K10 H5). reflexivity.
        + intros H. apply andb_true_iff in H. destruct H as [H H3]. apply andb_true_iff in H. destruct H as [H1 H2].
          rewrite (P7 H1), (B11 H2), (K11 H3). reflexivity.
        + intros H. apply andb_true_iff in H. destruct H as [H H4].
          apply andb_true_iff in H. destruct H as [H1 H3].
          rewrite (P13 false H1), (B12 H3), (K12 H4). reflexivity.
        + intros c0 H. apply andb_true_iff in H. destruct H as [H H5].
          apply andb_true_iff in H. destruct H as [H H4]. apply andb_true_iff in H. destruct H as [H1' H3].
          rewrite (P13 false H1'), (B12 H3), (K13 c0 H5). destruct c0; [reflexivity|]. rewrite (C4 H4). reflexivity.
    }
    split.
    - intros e fs cur ca n rest Hok HD Hinc. cbn [allnames app] in Hinc. cbn [resolve].
      destruct (resolve ((n, false, headdecls ps) :: e) n n false (S n) ps) as [rp n1] eqn:Ep.
      destruct (resolve ((n, false, headdecls ps ++ vardecls b ++ lexdecls b) :: e) n n false n1 b) as [rb n2] eqn:Eb.
      destruct (resolve e fs cur ca n2 k) as [rk n3] eqn:Ek. cbn [fst snd app]. intros HDt.
      specialize (G e fs cur ca n rest Hok HD Hinc rp n1 rb n2 rk n3 Ep Eb Ek HDt). cbn [rename_with].
      destruct (rename_with (map newname (rp ++ rb ++ rk) ++ rest) ps) as [ps' l1].
      destruct (rename_with l1 b) as [b' l2]. destruct (rename_with l2 k) as [k' l3].
      destruct G as (G0 & G1 & _). split; [exact G0|exact G1].
    - intros e fs cur ca n rest Hok HD Hinc. cbn [allnames] in Hinc. cbn [resolve].
      destruct (resolve ((n, false, headdecls ps) :: e) n n false (S n) ps) as [rp n1] eqn:Ep.
      destruct (resolve ((n, false, headdecls ps ++ vardecls b ++ lexdecls b) :: e) n n false n1 b) as [rb n2] eqn:Eb.
      destruct (resolve e fs cur ca n2 k) as [rk n3] eqn:Ek. cbn [fst snd]. intros HDt.
      specialize (G e fs cur ca n rest Hok HD Hinc rp n1 rb n2 rk n3 Ep Eb Ek HDt). cbn [rename_with].
      destruct (rename_with (map newname (rp ++ rb ++ rk) ++ rest) ps) as [ps' l1].
      destruct (rename_with l1 b) as [b' l2]. destruct (rename_with l2 k) as [k' l3].
      destruct G as (G0 & _ & G2). split; [exact G0|exact G2].
  Qed.

  Lemma rr_func_some g ps b k : rr_stmt ps -> rr_stmt b -> rr_stmt k -> rr_stmt (Func (Some g) ps b k).
  Proof.
    intros IHps IHb IHk e fs cur ca n rest Hok HD Hinc. cbn [allnames app] in Hinc. cbn [resolve].
    destruct (resolve ((n, false, headdecls ps) :: (n, true, [g]) :: e) n n false (S n) ps) as [rp n1] eqn:Ep.
    destruct (resolve ((n, false, headdecls ps ++ vardecls b ++ lexdecls b) :: (n, true, [g]) :: e) n n false n1 b) as [rb n2] eqn:Eb.
    destruct (resolve e fs cur ca n2 k) as [rk n3] eqn:Ek. cbn [fst snd app map newname hd tl]. intros HDt.
    inversion HDt as [|? ? Dg HDr]; subst. cbn [Dt] in Dg.
    assert (HD1 : env_D ((n, true, [g]) :: e)).
    { apply env_D_push; [exact HD|]. intros x [<-|[]]. exact Dg. }
    pose proof (rr_func_core ps b k ((n, true, [g]) :: e) e fs cur ca n rest rp n1 rb n2 rk n3 IHps IHb IHk
                  (fun names => env_ok_push2 e n names [g] Hok) HD1 Hok HD (incl_cons_r _ _ _ Hinc) Ep Eb Ek HDr) as C.
    pose proof (resolve_names ps ((n, false, headdecls ps) :: (n, true, [g]) :: e) n n false (S n)) as Hnp. rewrite Ep in Hnp. cbn [fst] in Hnp.
    pose proof (resolve_names b ((n, false, headdecls ps ++ vardecls b ++ lexdecls b) :: (n, true, [g]) :: e) n n false n1) as Hnb. rewrite Eb in Hnb. cbn [fst] in Hnb.
    cbn [rename_with hd tl].
    destruct (rename_with (map newname (rp ++ rb ++ rk) ++ rest) ps) as [ps' l1].
    destruct (rename_with l1 b) as [b' l2]. destruct (rename_with l2 k) as [k' l3].
    destruct C as (C0 & P & B & K & C1 & C2 & C3 & C4 & C5 & C6). split; [exact C0|].
    destruct P as (P1 & P2 & P3 & P4 & P5 & P6 & P7 & P8 & P9 & P10 & P11 & P12 & P13).
    destruct B as (B1 & B2 & B3 & B4 & B5 & B6 & B7 & B8 & B9 & B10 & B11 & B12 & B13).
    destruct K as (K1 & K2 & K3 & K4 & K5 & K6 & K7 & K8 & K9 & K10 & K11 & K12 & K13).
    cbn [ren_env map ren_entry] in C1, C2. fold (ren_env e) in C1, C2.
    unfold RR. cbn [resolve lexdecls vardecls headdecls allnames default_names params_only catch_params_only core_d pcore_d core core_x hcore_x app].
    repeat apply conj; try discriminate.
    - rewrite C1, C2, K1. cbn [map retarget app]. rewrite !map_app. reflexivity.
    - exact K2.
    - exact K3.
    - exact K4.
    - rewrite P5, B5, K5. cbn [map newname]. rewrite !map_app. reflexivity.
    - change (DN ([TBind n true g] ++ rp ++ rb ++ rk) ([g] ++ allnames ps ++ allnames b ++ default_names k)
                 ([f n true g] ++ allnames ps' ++ allnames b' ++ default_names k')).
      apply DN_app; [exact (DN_names [TBind n true g])|].
      rewrite P5, B5, <- Hnp, <- Hnb. apply DN_app; [apply DN_names|]. apply DN_app; [apply DN_names|exact K6].
    - intros H. apply andb_true_iff in H. destruct H as [H H5]. apply andb_true_iff in H. destruct H as [H H4].
      apply andb_true_iff in H. destruct H as [H1' H3].
      rewrite (P13 false H1'), (B12 H3), (K12 H4). cbn [andb]. apply negb_true_iff. apply mem_not_in.
      rewrite P4, B3, B2, <- !map_app.
      apply (newname_notin (TBind n true g)); [exact Dg|apply Hinc; left; reflexivity|exact C5|].
      apply negb_true_iff in H5. apply mem_not_in. exact H5.
    - intros c0 H. apply andb_true_iff in H. destruct H as [H H6]. apply andb_true_iff in H. destruct H as [H H5].
      apply andb_true_iff in H. destruct H as [H H4]. apply andb_true_iff in H. destruct H as [H1' H3].
      apply andb_true_iff in H6. destruct H6 as [H6 H7].
      assert (E6 : negb (mem (f n true g) (headdecls ps' ++ vardecls b' ++ lexdecls b')) = true).
      { apply negb_true_iff. apply mem_not_in. rewrite P4, B3, B2, <- !map_app.
        apply (newname_notin (TBind n true g)); [exact Dg|apply Hinc; left; reflexivity|exact C5|].
        apply negb_true_iff in H6. apply mem_not_in. exact H6. }
      rewrite (P13 false H1'), (B12 H3), (K13 c0 H5), E6. destruct c0; [reflexivity|]. rewrite (C4 H4). cbn [andb].
      apply negb_true_iff. apply mem_not_in.
      rewrite K4. apply (newname_notin (TBind n true g)); [exact Dg|apply Hinc; left; reflexivity|exact C6|].
      apply negb_true_iff in H7. apply mem_not_in. exact H7.
  Qed.

  Lemma is_nil_map (g : Z -> Z) l : is_nil (map g l) = is_nil l.
  Proof. destruct l; reflexivity. Qed.

  Lemma rr_class nm ms k : rr_stmt ms -> rr_stmt k -> rr_stmt (Class nm ms k).
  Proof.
    intros IHm IHk e fs cur ca n rest Hok HD Hinc. cbn [allnames] in Hinc. cbn [resolve].
    destruct nm as [c|].
    - destruct (resolve ((n, true, [c]) :: e) fs n false (S n) ms) as [rm n1] eqn:Em.
      destruct (resolve e fs cur ca n1 k) as [rk n2] eqn:Ek. cbn [fst snd app map newname hd tl]. intros HDt.
      inversion HDt as [|? ? Dc HDr]; subst. cbn [Dt] in Dc.
      pose proof (Forall_app_l _ _ _ HDr) as HDm. pose proof (Forall_app_r _ _ _ HDr) as HDk.
      pose proof (resolve_counter_mono ms ((n, true, [c]) :: e) fs n false (S n)) as Hm1. rewrite Em in Hm1. cbn [snd] in Hm1.
      pose proof (resolve_names ms ((n, true, [c]) :: e) fs n false (S n)) as Hnm. rewrite Em in Hnm. cbn [fst] in Hnm.
      cbn [rename_with hd tl]. rewrite map_app, <- app_assoc.
      assert (IHm' := IHm ((n, true, [c]) :: e) fs n false (S n) (map newname rk ++ rest)). rewrite Em in IHm'. cbn [fst snd] in IHm'.
      destruct (rename_with (map newname rm ++ map newname rk ++ rest) ms) as [ms' l1].
      destruct IHm' as (M0 & M).
      { apply env_ok_push. exact Hok. } { apply env_D_push; [exact HD|]. intros x [<-|[]]. exact Dc. }
      { exact (incl_app_l _ _ _ (incl_cons_r _ _ _ Hinc)). } { exact HDm. }
      subst l1.
      assert (IHk' := IHk e fs cur ca n1 rest). rewrite Ek in IHk'. cbn [fst snd] in IHk'.
      destruct (rename_with (map newname rk ++ rest) k) as [k' l2].
      destruct IHk' as (K0 & K).
      { apply (env_ok_mono e n); [exact Hok|lia]. } { exact HD. } { exact (incl_app_r _ _ _ (incl_cons_r _ _ _ Hinc)). } { exact HDk. }
      split; [exact K0|].
      destruct M as (M1 & M2 & M3 & M4 & M5 & M6 & M7 & M8 & M9 & M10 & M11 & M12 & M13).
      destruct K as (K1 & K2 & K3 & K4 & K5 & K6 & K7 & K8 & K9 & K10 & K11 & K12 & K13).
      cbn [ren_env map ren_entry] in M1. fold (ren_env e) in M1.
      unfold RR. cbn [resolve lexdecls vardecls headdecls allnames default_names params_only catch_params_only core_d pcore_d core core_x hcore_x app].
      repeat apply conj; try discriminate.
      + rewrite M1, K1. cbn [map retarget app]. rewrite !map_app. reflexivity.
      + exact K2.
      + exact K3.
      + exact K4.
      + rewrite M5, K5. cbn [map newname]. rewrite !map_app. reflexivity.
      + change (DN ([TBind n true c] ++ rm ++ rk) ([c] ++ allnames ms ++ default_names k) ([f n true c] ++ allnames ms' ++ default_names k')).
        apply DN_app; [exact (DN_names [TBind n true c])|]. rewrite M5, <- Hnm. apply DN_app; [apply DN_names|exact K6].
    - cbn [app] in Hinc. destruct (resolve e fs n false (S n) ms) as [rm n1] eqn:Em.
      destruct (resolve e fs cur ca n1 k) as [rk n2] eqn:Ek. cbn [fst snd app]. intros HDr.
      pose proof (Forall_app_l _ _ _ HDr) as HDm. pose proof (Forall_app_r _ _ _ HDr) as HDk.
      pose proof (resolve_counter_mono ms e fs n false (S n)) as Hm1. rewrite Em in Hm1. cbn [snd] in Hm1.
      pose proof (resolve_names ms e fs n false (S n)) as Hnm. rewrite Em in Hnm. cbn [fst] in Hnm.
      pose proof (resolve_names k e fs cur ca n1) as Hnk. rewrite Ek in Hnk. cbn [fst] in Hnk.
      pose proof (headdecls_targets k e fs cur ca n1) as Hhk. rewrite Ek in Hhk. cbn [fst] in Hhk.
      cbn [rename_with]. rewrite map_app, <- app_assoc.
      assert (IHm' := IHm e fs n false (S n) (map newname rk ++ rest)). rewrite Em in IHm'. cbn [fst snd] in IHm'.
      destruct (rename_with (map newname rm ++ map newname rk ++ rest) ms) as [ms' l1].
      destruct IHm' as (M0 & M).
      { apply (env_ok_mono e n); [exact Hok|lia]. } { exact HD. } { exact (incl_app_l _ _ _ Hinc). } { exact HDm. }
      subst l1.
      assert (IHk' := IHk e fs cur ca n1 rest). rewrite Ek in IHk'. cbn [fst snd] in IHk'.
      destruct (rename_with (map newname rk ++ rest) k) as [k' l2].
      destruct IHk' as (K0 & K).
      { apply (env_ok_mono e n); [exact Hok|lia]. } { exact HD. } { exact (incl_app_r _ _ _ Hinc). } { exact HDk. }
      split; [exact K0|].
      destruct M as (M1 & M2 & M3 & M4 & M5 & M6 & M7 & M8 & M9 & M10 & M11 & M12 & M13).
      destruct K as (K1 & K2 & K3 & K4 & K5 & K6 & K7 & K8 & K9 & K10 & K11 & K12 & K13).
      unfold RR. cbn [resolve lexdecls vardecls headdecls allnames default_names params_only catch_params_only core_d pcore_d core core_x hcore_x app].
      repeat apply conj; try discriminate.
      + rewrite M1, K1, !map_app. reflexivity.
      + exact K2.
      + exact K3.
      + exact K4.
      + rewrite M5, K5, !map_app. reflexivity.
      + change (DN (rm ++ rk) (allnames ms ++ default_names k) (allnames ms' ++ default_names k')).
        rewrite M5, <- Hnm. apply DN_app; [apply DN_names|exact K6].
      + intros H. apply andb_true_iff in H. destruct H as [H H4]. apply andb_true_iff in H. destruct H as [H H3].
        apply andb_true_iff in H. destruct H as [H1 H2]. rewrite M2, M3, !is_nil_map. rewrite (M9 H1), H2, H3, (K9 H4). reflexivity.
      + intros H. apply andb_true_iff in H. destruct H as [H H5]. apply andb_true_iff in H. destruct H as [H H4].
        apply andb_true_iff in H. destruct H as [H H3]. apply andb_true_iff in H. destruct H as [H1 H2].
        rewrite M2, M3, !is_nil_map. rewrite (M9 H1), H2, H3, (K10 H5). rewrite M5, K4.
        rewrite disj_newname; [reflexivity|exact HDm| | |].
        * rewrite Hnm. exact (incl_app_l _ _ _ Hinc).
        * intros x Hx. apply (Dt_in rk); [exact HDk|apply Hhk; exact Hx].
        * rewrite Hnm. exact (disjointb_spec _ _ H4).
      + intros H. apply andb_true_iff in H. destruct H as [H H4]. apply andb_true_iff in H. destruct H as [H H3].
        apply andb_true_iff in H. destruct H as [H1 H2]. rewrite M2, M3, !is_nil_map. rewrite (M12 H1), H2, H3, (K12 H4). reflexivity.
      + intros c0 H. apply andb_true_iff in H. destruct H as [H H5]. apply andb_true_iff in H. destruct H as [H H4].
        apply andb_true_iff in H. destruct H as [H H3]. apply andb_true_iff in H. destruct H as [H1 H2].
        rewrite M2, M3, !is_nil_map. rewrite (M12 H1), H2, H3, (K13 c0 H5). destruct c0; [reflexivity|]. rewrite M5, K4.
        rewrite disj_newname; [reflexivity|exact HDm| | |].
        * rewrite Hnm. exact (incl_app_l _ _ _ Hinc).
        * intros x Hx. apply (Dt_in rk); [exact HDk|apply Hhk; exact Hx].
        * rewrite Hnm. exact (disjointb_spec _ _ H4).
  Qed.

  Lemma rr_arrowid x b k : rr_stmt b -> rr_stmt k -> rr_stmt (ArrowId x b k).
  Proof.
    intros IHb IHk e fs cur ca n rest Hok HD Hinc. cbn [allnames] in Hinc. cbn [resolve].
    destruct (resolve ((n, false, [x] ++ vardecls b ++ lexdecls b) :: e) n n false (S n) b) as [rb n1] eqn:Eb.
    destruct (resolve e fs cur ca n1 k) as [rk n2] eqn:Ek. cbn [fst snd app map newname hd tl]. intros HDt.
    inversion HDt as [|? ? Dx HDr]; subst. cbn [Dt] in Dx.
    pose proof (Forall_app_l _ _ _ HDr) as HDb. pose proof (Forall_app_r _ _ _ HDr) as HDk.
    pose proof (resolve_counter_mono b ((n, false, [x] ++ vardecls b ++ lexdecls b) :: e) n n false (S n)) as Hm1. rewrite Eb in Hm1. cbn [snd] in Hm1.
    pose proof (resolve_names b ((n, false, [x] ++ vardecls b ++ lexdecls b) :: e) n n false (S n)) as Hnb. rewrite Eb in Hnb. cbn [fst] in Hnb.
    pose proof (lexdecls_targets b ((n, false, [x] ++ vardecls b ++ lexdecls b) :: e) n n false (S n)) as Hlt. rewrite Eb in Hlt. cbn [fst] in Hlt.
    pose proof (vardecls_targets b ((n, false, [x] ++ vardecls b ++ lexdecls b) :: e) n n false (S n)) as Hvt. rewrite Eb in Hvt. cbn [fst] in Hvt.
    cbn [rename_with hd tl]. rewrite map_app, <- app_assoc.
    assert (IHb' := IHb ((n, false, [x] ++ vardecls b ++ lexdecls b) :: e) n n false (S n) (map newname rk ++ rest)). rewrite Eb in IHb'. cbn [fst snd] in IHb'.
    destruct (rename_with (map newname rb ++ map newname rk ++ rest) b) as [b' l1].
    destruct IHb' as (B0 & B).
    { apply env_ok_push. exact Hok. }
    { apply env_D_push; [exact HD|]. intros y Hy. cbn [app] in Hy. destruct Hy as [<-|Hy]; [exact Dx|]. apply (Dt_in rb); [exact HDb|].
      apply in_app_iff in Hy. destruct Hy as [Hy|Hy]; [apply Hvt|apply Hlt]; exact Hy. }
    { exact (incl_app_l _ _ _ (incl_cons_r _ _ _ Hinc)). } { exact HDb. }
    subst l1.
    assert (IHk' := IHk e fs cur ca n1 rest). rewrite Ek in IHk'. cbn [fst snd] in IHk'.
    destruct (rename_with (map newname rk ++ rest) k) as [k' l2].
    destruct IHk' as (K0 & K).
    { apply (env_ok_mono e n); [exact Hok|lia]. } { exact HD. } { exact (incl_app_r _ _ _ (incl_cons_r _ _ _ Hinc)). } { exact HDk. }
    split; [exact K0|].
    destruct B as (B1 & B2 & B3 & B4 & B5 & B6 & B7 & B8 & B9 & B10 & B11 & B12 & B13).
    destruct K as (K1 & K2 & K3 & K4 & K5 & K6 & K7 & K8 & K9 & K10 & K11 & K12 & K13).
    cbn [ren_env map ren_entry app] in B1. fold (ren_env e) in B1. rewrite map_app in B1. rewrite <- B2, <- B3 in B1.
    unfold RR. cbn [resolve lexdecls vardecls headdecls allnames default_names params_only catch_params_only core_d pcore_d core core_x hcore_x app].
    repeat apply conj; try discriminate.
    - rewrite B1, K1. cbn [map retarget app]. rewrite !map_app. reflexivity.
    - exact K2.
    - exact K3.
    - exact K4.
    - rewrite B5, K5. cbn [map newname]. rewrite !map_app. reflexivity.
    - change (DN ([TBind n false x] ++ rb ++ rk) ([x] ++ allnames b ++ default_names k) ([f n false x] ++ allnames b' ++ default_names k')).
      apply DN_app; [exact (DN_names [TBind n false x])|]. rewrite B5, <- Hnb. apply DN_app; [apply DN_names|exact K6].
  Qed.

  Lemma rr_paren h k : rr_stmt h -> rr_stmt k -> rr_stmt (Paren h k).
  Proof.
    intros IHh IHk e fs cur ca n rest Hok HD Hinc. cbn [allnames] in Hinc. cbn [resolve].
    destruct (resolve e fs cur ca (S n) h) as [rh n1] eqn:Eh.
    destruct (resolve e fs cur ca n1 k) as [rk n2] eqn:Ek. cbn [fst snd]. intros HDt.
    pose proof (Forall_app_l _ _ _ HDt) as HDh. pose proof (Forall_app_r _ _ _ HDt) as HDk.
    pose proof (resolve_counter_mono h e fs cur ca (S n)) as Hm1. rewrite Eh in Hm1. cbn [snd] in Hm1.
    pose proof (resolve_names h e fs cur ca (S n)) as Hnh. rewrite Eh in Hnh. cbn [fst] in Hnh.
    cbn [rename_with]. rewrite map_app, <- app_assoc.
    assert (IHh' := IHh e fs cur ca (S n) (map newname rk ++ rest)). rewrite Eh in IHh'. cbn [fst snd] in IHh'.
    destruct (rename_with (map newname rh ++ map newname rk ++ rest) h) as [h' l1].
    destruct IHh' as (H0 & H).
    { apply (env_ok_mono e n); [exact Hok|lia]. } { exact HD. } { exact (incl_app_l _ _ _ Hinc). } { exact HDh. }
    subst l1.
    assert (IHk' := IHk e fs cur ca n1 rest). rewrite Ek in IHk'. cbn [fst snd] in IHk'.
    destruct (rename_with (map newname rk ++ rest) k) as [k' l2].
    destruct IHk' as (K0 & K).
    { apply (env_ok_mono e n); [exact Hok|lia]. } { exact HD. } { exact (incl_app_r _ _ _ Hinc). } { exact HDk. }
    split; [exact K0|].
    destruct H as (H1 & H2 & H3 & H4 & H5 & H6 & H7 & H8 & H9 & H10 & H11 & H12 & H13).
    destruct K as (K1 & K2 & K3 & K4 & K5 & K6 & K7 & K8 & K9 & K10 & K11 & K12 & K13).
    unfold RR. cbn [resolve lexdecls vardecls headdecls allnames default_names params_only catch_params_only core_d pcore_d core core_x hcore_x app].
    repeat apply conj; try discriminate.
    - rewrite H1, K1, !map_app. reflexivity.
    - exact K2.
    - exact K3.
    - exact K4.
    - rewrite H5, K5, !map_app. reflexivity.
    - change (DN (rh ++ rk) (allnames h ++ default_names k) (allnames h' ++ default_names k')).
      rewrite H5, <- Hnh. apply DN_app; [apply DN_names|exact K6].
  Qed.

  Lemma disj_map_f_early L1 L2 s a t b :
    (forall x, In x L1 -> D s a x) -> (forall y, In y L2 -> D t b y) -> (forall x, In x L1 -> ~ In x L2) ->
    disjointb (map (f s a) L1) (map (f t b) L2) = true.
  Proof.
    intros H1 H2 Hd. unfold disjointb. apply forallb_forall. intros y Hy. apply negb_true_iff. apply mem_not_in.
    intros Hin. apply in_map_iff in Hy. destruct Hy as (x1 & E1 & Hx1). apply in_map_iff in Hin. destruct Hin as (x2 & E2 & Hx2).
    rewrite <- E1 in E2. destruct (f_inj _ _ _ _ _ _ (H2 x2 Hx2) (H1 x1 Hx1) E2) as (_ & _ & ->). apply (Hd x1 Hx1 Hx2).
  Qed.

  Lemma disjointb_app_r (a b c : list Z) : disjointb a (b ++ c) = disjointb a b && disjointb a c.
  Proof.
    unfold disjointb. induction a as [|x t IH]; [reflexivity|]. cbn [forallb]. rewrite IH.
    assert (E : mem x (b ++ c) = mem x b || mem x c) by (unfold mem; apply existsb_app). rewrite E.
    destruct (mem x b), (mem x c), (forallb (fun x0 => negb (mem x0 b)) t), (forallb (fun x0 => negb (mem x0 c)) t); reflexivity.
  Qed.

  Lemma rr_for h b k : rr_stmt h -> rr_stmt b -> rr_stmt k -> rr_stmt (For h b k).
  Proof.
    intros IHh IHb IHk e fs cur ca n rest Hok HD Hinc. cbn [allnames] in Hinc. cbn [resolve].
    destruct (resolve ((n, true, lexdecls h) :: e) fs n true (S n) h) as [rh n1] eqn:Eh.
    destruct (resolve ((n, false, lexdecls b) :: (n, true, lexdecls h) :: e) fs n false n1 b) as [rb n2] eqn:Eb.
    destruct (resolve e fs cur ca n2 k) as [rk n3] eqn:Ek. cbn [fst snd]. intros HDt.
    pose proof (Forall_app_l _ _ _ HDt) as HDh. pose proof (Forall_app_r _ _ _ HDt) as HDbk.
    pose proof (Forall_app_l _ _ _ HDbk) as HDb. pose proof (Forall_app_r _ _ _ HDbk) as HDk.
    pose proof (resolve_counter_mono h ((n, true, lexdecls h) :: e) fs n true (S n)) as Hm1. rewrite Eh in Hm1. cbn [snd] in Hm1.
    pose proof (resolve_counter_mono b ((n, false, lexdecls b) :: (n, true, lexdecls h) :: e) fs n false n1) as Hm2. rewrite Eb in Hm2. cbn [snd] in Hm2.
    pose proof (resolve_names h ((n, true, lexdecls h) :: e) fs n true (S n)) as Hnh. rewrite Eh in Hnh. cbn [fst] in Hnh.
    pose proof (resolve_names b ((n, false, lexdecls b) :: (n, true, lexdecls h) :: e) fs n false n1) as Hnb. rewrite Eb in Hnb. cbn [fst] in Hnb.
    pose proof (lexdecls_targets h ((n, true, lexdecls h) :: e) fs n true (S n)) as Hlh. rewrite Eh in Hlh. cbn [fst] in Hlh.
    pose proof (lexdecls_targets b ((n, false, lexdecls b) :: (n, true, lexdecls h) :: e) fs n false n1) as Hlb. rewrite Eb in Hlb. cbn [fst] in Hlb.
    assert (HD1 : env_D ((n, true, lexdecls h) :: e)).
    { apply env_D_push; [exact HD|]. intros y Hy. apply (Dt_in rh); [exact HDh|apply Hlh; exact Hy]. }
    cbn [rename_with]. rewrite !map_app, <- !app_assoc.
    assert (IHh' := IHh ((n, true, lexdecls h) :: e) fs n true (S n) (map newname rb ++ map newname rk ++ rest)). rewrite Eh in IHh'. cbn [fst snd] in IHh'.
    destruct (rename_with (map newname rh ++ map newname rb ++ map newname rk ++ rest) h) as [h' l1].
    destruct IHh' as (H0 & H).
    { apply env_ok_push. exact Hok. } { exact HD1. } { exact (incl_app_l _ _ _ Hinc). } { exact HDh. }
    subst l1.
    assert (IHb' := IHb ((n, false, lexdecls b) :: (n, true, lexdecls h) :: e) fs n false n1 (map newname rk ++ rest)). rewrite Eb in IHb'. cbn [fst snd] in IHb'.
    destruct (rename_with (map newname rb ++ map newname rk ++ rest) b) as [b' l2].
    destruct IHb' as (B0 & B).
    { apply (env_ok_mono _ (S n)); [apply env_ok_push2; exact Hok|lia]. }
    { apply env_D_push; [exact HD1|]. intros y Hy. apply (Dt_in rb); [exact HDb|apply Hlb; exact Hy]. }
    { exact (incl_app_l _ _ _ (incl_app_r _ _ _ Hinc)). } { exact HDb. }
    subst l2.
    assert (IHk' := IHk e fs cur ca n2 rest). rewrite Ek in IHk'. cbn [fst snd] in IHk'.
    destruct (rename_with (map newname rk ++ rest) k) as [k' l3].
    destruct IHk' as (K0 & K).
    { apply (env_ok_mono e n); [exact Hok|lia]. } { exact HD. } { exact (incl_app_r _ _ _ (incl_app_r _ _ _ Hinc)). } { exact HDk. }
    split; [exact K0|].
    destruct H as (H1 & H2 & H3 & H4 & H5 & H6 & H7 & H8 & H9 & H10 & H11 & H12 & H13).
    destruct B as (B1 & B2 & B3 & B4 & B5 & B6 & B7 & B8 & B9 & B10 & B11 & B12 & B13).
    destruct K as (K1 & K2 & K3 & K4 & K5 & K6 & K7 & K8 & K9 & K10 & K11 & K12 & K13).
    cbn [ren_env map ren_entry] in H1, B1. fold (ren_env e) in H1, B1. rewrite <- H2 in H1. rewrite <- H2, <- B2 in B1.
    unfold RR. cbn [resolve lexdecls vardecls headdecls allnames default_names params_only catch_params_only core_d pcore_d core core_x hcore_x app].
    repeat apply conj; try discriminate.
    - rewrite H1, B1, K1, !map_app. reflexivity.
    - exact K2.
    - rewrite H3, B3, K3, !map_app. reflexivity.
    - exact K4.
    - rewrite H5, B5, K5, !map_app. reflexivity.
    - change (DN (rh ++ rb ++ rk) (allnames h ++ allnames b ++ default_names k) (allnames h' ++ allnames b' ++ default_names k')).
      rewrite H5, B5, <- Hnh, <- Hnb. apply DN_app; [apply DN_names|]. apply DN_app; [apply DN_names|exact K6].
    - intros Hc. apply andb_true_iff in Hc. destruct Hc as [Hc C5]. apply andb_true_iff in Hc. destruct Hc as [Hc C4].
      apply andb_true_iff in Hc. destruct Hc as [Hc C3]. apply andb_true_iff in Hc. destruct Hc as [C1 C2].
      pose proof (vardecls_targets h ((n, true, lexdecls h) :: e) fs n true (S n)) as Hvh. rewrite Eh in Hvh. cbn [fst] in Hvh.
      rewrite (H12 C1), (B12 C2), (K12 C3). cbn [andb]. apply andb_true_iff. split.
      + rewrite H2, B2. apply disj_map_f_early.
        * intros x Hx. apply (Dt_in rh); [exact HDh|apply Hlh; exact Hx].
        * intros x Hx. apply (Dt_in rb); [exact HDb|apply Hlb; exact Hx].
        * exact (disjointb_spec _ _ C4).
      + rewrite H3, H2, B2, disjointb_app_r. pose proof (disjointb_spec _ _ C5) as C5'.
        apply andb_true_iff. split; apply disj_map_f_early.
        * intros x Hx. apply (Dt_in rh); [exact HDh|apply Hvh; exact Hx].
        * intros x Hx. apply (Dt_in rh); [exact HDh|apply Hlh; exact Hx].
        * intros x Hx Hi. apply (C5' x Hx). apply in_app_iff. left. exact Hi.
        * intros x Hx. apply (Dt_in rh); [exact HDh|apply Hvh; exact Hx].
        * intros x Hx. apply (Dt_in rb); [exact HDb|apply Hlb; exact Hx].
        * intros x Hx Hi. apply (C5' x Hx). apply in_app_iff. right. exact Hi.
  Qed.

  Lemma disj_map_f L1 L2 s a t b :
    (forall x, In x L1 -> D s a x) -> (forall y, In y L2 -> D t b y) -> (forall x, In x L1 -> ~ In x L2) ->
    disjointb (map (f s a) L1) (map (f t b) L2) = true.
  Proof.
    intros H1 H2 Hd. unfold disjointb. apply forallb_forall. intros y Hy. apply negb_true_iff. apply mem_not_in.
    intros Hin. apply in_map_iff in Hy. destruct Hy as (x1 & E1 & Hx1). apply in_map_iff in Hin. destruct Hin as (x2 & E2 & Hx2).
    rewrite <- E1 in E2. destruct (f_inj _ _ _ _ _ _ (H2 x2 Hx2) (H1 x1 Hx1) E2) as (_ & _ & ->). apply (Hd x1 Hx1 Hx2).
  Qed.

  Lemma rr_catch h b k : rr_stmt h -> rr_stmt b -> rr_stmt k -> rr_stmt (Catch h b k).
  Proof.
    intros IHh IHb IHk e fs cur ca n rest Hok HD Hinc. cbn [allnames] in Hinc. cbn [resolve].
    destruct (resolve ((n, false, headdecls h) :: e) fs n false (S n) h) as [rh n1] eqn:Eh.
    destruct (resolve ((n, false, headdecls h ++ lexdecls b) :: e) fs n false n1 b) as [rb n2] eqn:Eb.
    destruct (resolve e fs cur ca n2 k) as [rk n3] eqn:Ek. cbn [fst snd]. intros HDt.
    pose proof (Forall_app_l _ _ _ HDt) as HDh. pose proof (Forall_app_r _ _ _ HDt) as HDbk.
    pose proof (Forall_app_l _ _ _ HDbk) as HDb. pose proof (Forall_app_r _ _ _ HDbk) as HDk.
    pose proof (resolve_counter_mono h ((n, false, headdecls h) :: e) fs n false (S n)) as Hm1. rewrite Eh in Hm1. cbn [snd] in Hm1.
    pose proof (resolve_counter_mono b ((n, false, headdecls h ++ lexdecls b) :: e) fs n false n1) as Hm2. rewrite Eb in Hm2. cbn [snd] in Hm2.
    pose proof (resolve_names h ((n, false, headdecls h) :: e) fs n false (S n)) as Hnh. rewrite Eh in Hnh. cbn [fst] in Hnh.
    pose proof (resolve_names b ((n, false, headdecls h ++ lexdecls b) :: e) fs n false n1) as Hnb. rewrite Eb in Hnb. cbn [fst] in Hnb.
    pose proof (headdecls_targets h ((n, false, headdecls h) :: e) fs n false (S n)) as Hhh. rewrite Eh in Hhh. cbn [fst] in Hhh.
    pose proof (lexdecls_targets b ((n, false, headdecls h ++ lexdecls b) :: e) fs n false n1) as Hlb. rewrite Eb in Hlb. cbn [fst] in Hlb.
    pose proof (vardecls_targets b ((n, false, headdecls h ++ lexdecls b) :: e) fs n false n1) as Hvb. rewrite Eb in Hvb. cbn [fst] in Hvb.
    assert (Dhead : forall x, In x (headdecls h) -> D n false x).
    { intros y Hy. apply (Dt_in rh); [exact HDh|apply Hhh; exact Hy]. }
    cbn [rename_with]. rewrite !map_app, <- !app_assoc.
    assert (IHh' := IHh ((n, false, headdecls h) :: e) fs n false (S n) (map newname rb ++ map newname rk ++ rest)). rewrite Eh in IHh'. cbn [fst snd] in IHh'.
    destruct (rename_with (map newname rh ++ map newname rb ++ map newname rk ++ rest) h) as [h' l1].
    destruct IHh' as (H0 & H).
    { apply env_ok_push. exact Hok. } { apply env_D_push; [exact HD|exact Dhead]. } { exact (incl_app_l _ _ _ Hinc). } { exact HDh. }
    subst l1.
    assert (IHb' := IHb ((n, false, headdecls h ++ lexdecls b) :: e) fs n false n1 (map newname rk ++ rest)). rewrite Eb in IHb'. cbn [fst snd] in IHb'.
    destruct (rename_with (map newname rb ++ map newname rk ++ rest) b) as [b' l2].
    destruct IHb' as (B0 & B).
    { apply (env_ok_mono _ (S n)); [apply env_ok_push; exact Hok|lia]. }
    { apply env_D_push; [exact HD|]. intros y Hy. apply in_app_iff in Hy. destruct Hy as [Hy|Hy]; [apply Dhead; exact Hy|].
      apply (Dt_in rb); [exact HDb|apply Hlb; exact Hy]. }
    { exact (incl_app_l _ _ _ (incl_app_r _ _ _ Hinc)). } { exact HDb. }
    subst l2.
    assert (IHk' := IHk e fs cur ca n2 rest). rewrite Ek in IHk'. cbn [fst snd] in IHk'.
    destruct (rename_with (map newname rk ++ rest) k) as [k' l3].
    destruct IHk' as (K0 & K).
    { apply (env_ok_mono e n); [exact Hok|lia]. } { exact HD. } { exact (incl_app_r _ _ _ (incl_app_r _ _ _ Hinc)). } { exact HDk. }
    split; [exact K0|].
    destruct H as (H1 & H2 & H3 & H4 & H5 & H6 & H7 & H8 & H9 & H10 & H11 & H12 & H13).
    destruct B as (B1 & B2 & B3 & B4 & B5 & B6 & B7 & B8 & B9 & B10 & B11 & B12 & B13).
    destruct K as (K1 & K2 & K3 & K4 & K5 & K6 & K7 & K8 & K9 & K10 & K11 & K12 & K13).
    cbn [ren_env map ren_entry] in H1, B1. fold (ren_env e) in H1, B1. rewrite map_app in B1. rewrite <- H4 in H1. rewrite <- H4, <- B2 in B1.
    assert (Hdisj : disjointb (headdecls h) (vardecls b) = true -> disjointb (headdecls h') (vardecls b') = true).
    { intros Hd. rewrite H4, B3. apply disj_map_f; [exact Dhead| |exact (disjointb_spec _ _ Hd)].
      intros y Hy. apply (Dt_in rb); [exact HDb|apply Hvb; exact Hy]. }
    unfold RR. cbn [resolve lexdecls vardecls headdecls allnames default_names params_only catch_params_only core_d pcore_d core core_x hcore_x app].
    repeat apply conj; try discriminate.
    - rewrite H1, B1, K1, !map_app. reflexivity.
    - exact K2.
    - rewrite H3, B3, K3, !map_app. reflexivity.
    - exact K4.
    - rewrite H5, B5, K5, !map_app. reflexivity.
    - change (DN (rh ++ rb ++ rk) (allnames h ++ allnames b ++ default_names k) (allnames h' ++ allnames b' ++ default_names k')).
      rewrite H5, B5, <- Hnh, <- Hnb. apply DN_app; [apply DN_names|]. apply DN_app; [apply DN_names|exact K6].
    - intros Hc. apply andb_true_iff in Hc. destruct Hc as [Hc C4]. apply andb_true_iff in Hc. destruct Hc as [Hc C3].
      apply andb_true_iff in Hc. destruct Hc as [C1 C2]. rewrite (H8 C1), (Hdisj C2), (B9 C3), (K9 C4). reflexivity.
    - intros Hc. apply andb_true_iff in Hc. destruct Hc as [Hc C4]. apply andb_true_iff in Hc. destruct Hc as [Hc C3].
      apply andb_true_iff in Hc. destruct Hc as [C1 C2]. rewrite (H8 C1), (Hdisj C2), (B11 C3), (K11 C4). reflexivity.
    - intros Hc. apply andb_true_iff in Hc. destruct Hc as [Hc C4]. apply andb_true_iff in Hc. destruct Hc as [Hc C3].
      apply andb_true_iff in Hc. destruct Hc as [C1 C2]. rewrite (H13 true C1), (Hdisj C2), (B12 C3), (K12 C4). reflexivity.
  Qed.

  (* renaming every occurrence after its declaration, with fresh and distinct names, commutes with the declarative
     resolver: for ALL binding programs *)
  Theorem resolve_rename p : rr_stmt p.
  Proof.
    induction p.
    - exact rr_done.
    - apply (rr_ref x p IHp).
    - apply (rr_ref x p IHp).
    - apply rr_decl. exact IHp.
    - apply rr_block; assumption.
    - destruct nm as [g|]; [apply rr_func_some; assumption|apply (rr_func_none p1 p2 p3); assumption].
    - apply (rr_func_none p1 p2 p3); assumption.
    - apply rr_arrowid; assumption.
    - apply rr_paren; assumption.
    - apply rr_for; assumption.
    - apply rr_catch; assumption.
    - apply rr_class; assumption.
  Qed.
End Renaming.
