(* JsScope/SimDefs.v — the abstraction from model states to label-machine states and the
   representation invariant of the simulation (Model -> Abs), with their basic lemmas. *)
From Coq Require Import ZifyBool.
From Verif Require Import Common.Base Common.Tactics JsScope.Model JsScope.Abs JsScope.HeapLemmas.

(* ---- abstraction ------------------------------------------------------------------------------ *)
Definition nk (st : state) (v : nat) : Z * Z := (vname (vget st v), vdecl (vget st v)).

(* an unresolved variable is one of the first NumArgUses entries of the undeclared list of its scope *)
Definition argp (st : state) (home : nat -> nat) (v : nat) : bool :=
  existsb (Nat.eqb v) (und_args (sc_of st (home v))).

Definition uent_of (st : state) (home : nat -> nat) (v : nat) : uent :=
  if vdecl (vget st v) =? 0 then (if argp st home v then UArg (vname (vget st v)) else UPend (vname (vget st v)))
  else UPass (vname (vget st v)) (home v).

Definition frame_of (st : state) (home : nat -> nat) (s : nat) : frame :=
  let sc := sc_of st s in
  mkF s (opt_nat_eqb (sfunc sc) s) (map (nk st) (sdeclared sc)) (map (uent_of st home) (sundeclared sc))
      (Z.to_nat (narguses sc)) (Z.to_nat (nfordecls sc)).

Definition lab_root (st : state) (home : nat -> nat) (r : nat) : label :=
  if vdecl (vget st r) =? 0 then
    (if argp st home r then LArg (home r) (vname (vget st r)) else LPend (home r) (vname (vget st r)))
  else LDecl (home r) (vname (vget st r)).

Definition lab_of (st : state) (home : nat -> nat) (v : nat) : label := lab_root st home (root_of st v).

Definition abs (st : state) (log stk : list nat) (home : nat -> nat) : astate :=
  mkA (map (frame_of st home) stk) (nscopes st) (map (lab_of st home) log).

(* ---- the open scopes --------------------------------------------------------------------------- *)
Fixpoint stack_ok (st : state) (stk : list nat) : Prop :=
  match stk with
  | [] => False
  | s :: rest =>
      (s < nscopes st)%nat /\
      match rest with
      | [] => sparent (sc_of st s) = None
      | q :: _ => sparent (sc_of st s) = Some q /\ (q < s)%nat /\ stack_ok st rest
      end
  end.

Definition count_root (st : state) (r : nat) (log : list nat) : nat :=
  length (filter (fun u => Nat.eqb (root_of st u) r) log).

Definition vn (st : state) (v : nat) : Z := vname (vget st v).
Definition vd (st : state) (v : nat) : Z := vdecl (vget st v).

(* ---- the invariant ----------------------------------------------------------------------------- *)
(* shape part: everything but the use counters.  [extra] is where unresolved roots may live besides
   the undeclared lists of the open scopes (used while a scope is being hoisted) *)
Record InvS (st : state) (log stk : list nat) (home : nat -> nat) (extra : nat -> Prop) : Prop := {
  I_stack : stack_ok st stk ;
  I_func : forall s g, (s < nscopes st)%nat -> sfunc (sc_of st s) = Some g -> (g <= s)%nat ;
  I_valid : forall s v, (s < nscopes st)%nat ->
            In v (sdeclared (sc_of st s)) \/ In v (sundeclared (sc_of st s)) -> (v < nvars st)%nat ;
  I_links : links_ok st home ;
  I_homes : homes_ok st home ;
  I_log : forall v, In v log -> (v < nvars st)%nat ;
  I_nvars : (nvars st <= length log)%nat ;
  I_decl : forall s v, (s < nscopes st)%nat -> In v (sdeclared (sc_of st s)) ->
           is_root st v /\ vd st v <> 0 /\ home v = s ;
  I_decl_nodup : forall s, (s < nscopes st)%nat -> NoDup (map (vn st) (sdeclared (sc_of st s))) ;
  I_decl_complete : forall r, (r < nvars st)%nat -> is_root st r -> vd st r <> 0 ->
                    In r (sdeclared (sc_of st (home r))) ;
  I_und : forall s v, In s stk -> In v (sundeclared (sc_of st s)) ->
          is_root st v /\ (vd st v = 0 -> home v = s) /\ (home v <= s)%nat ;
  I_und_nodup : forall s, In s stk -> NoDup (sundeclared (sc_of st s)) ;
  I_pend_unique : forall s v1 v2, In s stk ->
          In v1 (sundeclared (sc_of st s)) -> In v2 (sundeclared (sc_of st s)) ->
          vd st v1 = 0 -> vd st v2 = 0 -> vn st v1 = vn st v2 -> argp st home v1 = argp st home v2 -> v1 = v2 ;
  I_pend_complete : forall r, (r < nvars st)%nat -> is_root st r -> vd st r = 0 ->
          (In (home r) stk /\ In r (sundeclared (sc_of st (home r)))) \/ extra r ;
  I_marks : forall s, In s stk ->
          0 <= nfordecls (sc_of st s) <= len (sdeclared (sc_of st s))
          /\ 0 <= narguses (sc_of st s) <= len (sundeclared (sc_of st s))
}.

Record InvU (st : state) (log : list nat) : Prop := {
  I_uses : forall v, (v < nvars st)%nat -> 1 <= vuses (vget st v) ;
  I_count : forall r, (r < nvars st)%nat -> is_root st r -> vuses (vget st r) = Z.of_nat (count_root st r log)
}.

Definition no_extra : nat -> Prop := fun _ => False.

Ltac dI I :=
  destruct I as [Istack Ifunc Ivalid Ilinks Ihomes Ilog Invars Idecl Idnodup Idcomp Iund Iunodup Ipuniq Ipcomp Imarks].

(* ---- stack_ok ------------------------------------------------------------------------------------ *)
Lemma stack_ok_in st stk s : stack_ok st stk -> In s stk -> (s < nscopes st)%nat.
Proof.
  revert s. induction stk as [|a rest IH]; intros s H Hin; [destruct H|].
  destruct H as [Ha Hr]. destruct Hin as [<-|Hin]; [exact Ha|].
  destruct rest as [|q rest']; [destruct Hin|]. destruct Hr as (_ & _ & Hr). apply IH; assumption.
Qed.

Lemma stack_ok_ext st st' stk :
  stack_ok st stk -> (nscopes st <= nscopes st')%nat ->
  (forall s, In s stk -> sparent (sc_of st' s) = sparent (sc_of st s)) -> stack_ok st' stk.
Proof.
  induction stk as [|a rest IH]; intros H Hn Hp; [exact H|].
  destruct H as [Ha Hr]. split; [lia|]. rewrite (Hp a (or_introl eq_refl)).
  destruct rest as [|q rest']; [exact Hr|]. destruct Hr as (H1 & H2 & H3).
  split; [exact H1|]. split; [exact H2|].
  apply IH; [exact H3|exact Hn|]. intros s Hs. apply Hp. right. exact Hs.
Qed.

Lemma stack_ok_tail st a q rest : stack_ok st (a :: q :: rest) -> stack_ok st (q :: rest).
Proof. intros (_ & _ & _ & H). exact H. Qed.

Lemma stack_ok_head_lt st a rest s : stack_ok st (a :: rest) -> In s rest -> (s < a)%nat.
Proof.
  revert a s. induction rest as [|q rest' IH]; intros a s H Hin; [destruct Hin|].
  destruct H as (_ & _ & Hlt & Hr). destruct Hin as [<-|Hin]; [exact Hlt|].
  specialize (IH q s Hr Hin). lia.
Qed.

Lemma stack_ok_nodup st stk : stack_ok st stk -> NoDup stk.
Proof.
  induction stk as [|a rest IH]; intros H; [constructor|]. constructor.
  - intros Hin. pose proof (stack_ok_head_lt st a rest a H Hin). lia.
  - destruct rest as [|q rest']; [constructor|]. apply IH. eapply stack_ok_tail. exact H.
Qed.

Lemma stack_ok_length st stk : stack_ok st stk -> (length stk <= nscopes st)%nat.
Proof.
  assert (G : forall stk a, stack_ok st (a :: stk) -> (length (a :: stk) <= S a)%nat).
  { induction stk0 as [|q rest IH]; intros a H; [cbn; lia|].
    destruct H as (_ & _ & Hlt & Hr). specialize (IH q Hr). cbn in *. lia. }
  destruct stk as [|a rest]; intros H; [destruct H|]. pose proof (G rest a H). destruct H as [Ha _]. lia.
Qed.

(* ---- updates that only touch use counters --------------------------------------------------------- *)
Definition same_shape (st st' : state) : Prop :=
  scopes st' = scopes st /\ nvars st' = nvars st /\
  forall v, vname (vget st' v) = vname (vget st v) /\ vdecl (vget st' v) = vdecl (vget st v)
            /\ vlink (vget st' v) = vlink (vget st v).

Lemma chase_same_shape st st' : same_shape st st' -> forall fuel v, chase fuel st' v = chase fuel st v.
Proof.
  intros (_ & _ & H) fuel. induction fuel as [|f IH]; intros v; [reflexivity|]. cbn.
  destruct (H v) as (_ & _ & ->). destruct (vlink (vget st v)); [apply IH|reflexivity].
Qed.

Lemma root_of_same_shape st st' v : same_shape st st' -> root_of st' v = root_of st v.
Proof.
  intros H. unfold root_of. destruct H as (Hs & Hn & Hv). unfold nvars in Hn. rewrite Hn, Hs.
  apply chase_same_shape. repeat split; try assumption. apply Hv. apply Hv. apply Hv.
Qed.

Lemma same_shape_set_uses st v u : same_shape st (vset st v (set_uses (vget st v) u)).
Proof.
  repeat split; try reflexivity; try apply nvars_vset.
  all: destruct (Nat.eq_dec v v0) as [->|Hne];
    [destruct (Nat.lt_ge_cases v0 (nvars st)) as [Hlt|Hge];
      [rewrite vget_vset_same by exact Hlt; reflexivity
      |unfold vget, vset; cbn; rewrite !nth_overflow by (try rewrite list_set_length; exact Hge); reflexivity]
    |rewrite vget_vset_other by exact Hne; reflexivity].
Qed.

Lemma sc_of_same_shape st st' s : same_shape st st' -> sc_of st' s = sc_of st s.
Proof. intros (H & _). unfold sc_of. rewrite H. reflexivity. Qed.

Lemma nscopes_same_shape st st' : same_shape st st' -> nscopes st' = nscopes st.
Proof. intros (H & _). unfold nscopes. rewrite H. reflexivity. Qed.

Lemma argp_same_shape st st' home v : same_shape st st' -> argp st' home v = argp st home v.
Proof. intros H. unfold argp. rewrite (sc_of_same_shape _ _ _ H). reflexivity. Qed.

Lemma frame_of_same_shape st st' home s : same_shape st st' -> frame_of st' home s = frame_of st home s.
Proof.
  intros H. unfold frame_of. rewrite (sc_of_same_shape _ _ _ H). pose proof H as (_ & _ & Hv). f_equal.
  - apply map_ext. intros v. unfold nk. destruct (Hv v) as (-> & -> & _). reflexivity.
  - apply map_ext. intros v. unfold uent_of. rewrite (argp_same_shape _ _ _ _ H). destruct (Hv v) as (-> & -> & _). reflexivity.
Qed.

Lemma lab_of_same_shape st st' home v : same_shape st st' -> lab_of st' home v = lab_of st home v.
Proof.
  intros H. unfold lab_of. rewrite (root_of_same_shape _ _ _ H). unfold lab_root. rewrite (argp_same_shape _ _ _ _ H).
  destruct H as (_ & _ & Hv). destruct (Hv (root_of st v)) as (-> & -> & _). reflexivity.
Qed.

Lemma abs_same_shape st st' log stk home : same_shape st st' -> abs st' log stk home = abs st log stk home.
Proof.
  intros H. unfold abs. f_equal.
  - apply map_ext. intros s. apply frame_of_same_shape. exact H.
  - apply nscopes_same_shape. exact H.
  - apply map_ext. intros v. apply lab_of_same_shape. exact H.
Qed.

Lemma is_root_same_shape st st' v : same_shape st st' -> (is_root st' v <-> is_root st v).
Proof. intros (_ & _ & H). unfold is_root. destruct (H v) as (_ & _ & ->). tauto. Qed.

Lemma InvS_same_shape st st' log stk home extra :
  same_shape st st' -> InvS st log stk home extra -> InvS st' log stk home extra.
Proof.
  intros H I. pose proof H as (Hsc & Hnv & Hv).
  assert (Esc : forall s, sc_of st' s = sc_of st s) by (intros; apply sc_of_same_shape; exact H).
  assert (Ens : nscopes st' = nscopes st) by (apply nscopes_same_shape; exact H).
  assert (Evn : forall v, vn st' v = vn st v) by (intros v; unfold vn; apply Hv).
  assert (Evd : forall v, vd st' v = vd st v) by (intros v; unfold vd; apply Hv).
  assert (Er : forall v, is_root st' v <-> is_root st v) by (intros; apply is_root_same_shape; exact H).
  destruct I. constructor.
  - eapply stack_ok_ext; [eassumption|lia|]. intros s _. rewrite Esc. reflexivity.
  - intros s g. rewrite Ens, Esc. apply I_func0.
  - intros s v. rewrite Ens, Esc, Hnv. apply I_valid0.
  - intros v w. rewrite Hnv. destruct (Hv v) as (_ & _ & ->). apply I_links0.
  - intros v. rewrite Hnv, Ens. apply I_homes0.
  - intros v. rewrite Hnv. apply I_log0.
  - rewrite Hnv. exact I_nvars0.
  - intros s v. rewrite Ens, Esc, Er, Evd. apply I_decl0.
  - intros s. rewrite Ens, Esc. rewrite (map_ext _ _ Evn). apply I_decl_nodup0.
  - intros r. rewrite Hnv, Er, Evd, Esc. apply I_decl_complete0.
  - intros s v. rewrite Esc, Er, Evd. apply I_und0.
  - intros s. rewrite Esc. apply I_und_nodup0.
  - intros s v1 v2. rewrite Esc, !Evd, !Evn, !(argp_same_shape _ _ _ _ H). apply I_pend_unique0.
  - intros r. rewrite Hnv, Er, Evd, Esc. apply I_pend_complete0.
  - intros s. rewrite Esc. apply I_marks0.
Qed.

Lemma count_root_same_shape st st' r log : same_shape st st' -> count_root st' r log = count_root st r log.
Proof.
  intros H. unfold count_root. f_equal. apply filter_ext. intros u. rewrite (root_of_same_shape _ _ _ H). reflexivity.
Qed.

(* ---- updates of the scope heap only ------------------------------------------------------------------ *)
Lemma chase_sset st s sc fuel v : chase fuel (sset st s sc) v = chase fuel st v.
Proof.
  revert v. induction fuel as [|f IH]; intros v; [reflexivity|]. cbn [chase].
  change (vget (sset st s sc) v) with (vget st v).
  destruct (vlink (vget st v)); [apply IH|reflexivity].
Qed.

Lemma root_of_sset st s sc v : root_of (sset st s sc) v = root_of st v.
Proof.
  unfold root_of. change (length (scopes (sset st s sc))) with (nscopes (sset st s sc)).
  rewrite nscopes_sset. change (vars (sset st s sc)) with (vars st). apply chase_sset.
Qed.

Lemma count_root_sset st s sc r log : count_root (sset st s sc) r log = count_root st r log.
Proof. unfold count_root. f_equal. apply filter_ext. intros u. rewrite root_of_sset. reflexivity. Qed.

Lemma InvU_sset st s sc log : InvU st log -> InvU (sset st s sc) log.
Proof.
  intros [Hu Hc]. constructor.
  - exact Hu.
  - intros r Hr Hroot. rewrite count_root_sset. apply Hc; assumption.
Qed.

(* the frozen prefixes of the undeclared lists are the same in both states *)
Definition same_args (st st' : state) : Prop := forall q, und_args (sc_of st' q) = und_args (sc_of st q).

Lemma argp_ext st st' home home' v :
  home' v = home v -> und_args (sc_of st' (home v)) = und_args (sc_of st (home v)) -> argp st' home' v = argp st home v.
Proof. intros Hh Ha. unfold argp. rewrite Hh, Ha. reflexivity. Qed.

Lemma lab_root_ext st st' home home' r :
  vname (vget st' r) = vname (vget st r) -> vdecl (vget st' r) = vdecl (vget st r) -> home' r = home r ->
  und_args (sc_of st' (home r)) = und_args (sc_of st (home r)) -> lab_root st' home' r = lab_root st home r.
Proof. intros Hn Hd Hh Ha. unfold lab_root. rewrite Hn, Hd, Hh, (argp_ext _ _ _ _ _ Hh Ha). reflexivity. Qed.

Lemma uent_of_ext st st' home home' v :
  vname (vget st' v) = vname (vget st v) -> vdecl (vget st' v) = vdecl (vget st v) -> home' v = home v ->
  und_args (sc_of st' (home v)) = und_args (sc_of st (home v)) -> uent_of st' home' v = uent_of st home v.
Proof. intros Hn Hd Hh Ha. unfold uent_of. rewrite Hn, Hd, Hh, (argp_ext _ _ _ _ _ Hh Ha). reflexivity. Qed.

Lemma lab_of_sset st s sc home v : same_args st (sset st s sc) -> lab_of (sset st s sc) home v = lab_of st home v.
Proof. intros Ha. unfold lab_of. rewrite root_of_sset. apply lab_root_ext; try reflexivity. apply Ha. Qed.

(* the frozen prefix survives changes behind it *)
Lemma und_args_app sc (l : list nat) :
  0 <= narguses sc <= len (sundeclared sc) ->
  firstn (Z.to_nat (narguses sc)) (sundeclared sc ++ l) = und_args sc.
Proof.
  intros H. unfold und_args. rewrite firstn_app.
  replace (Z.to_nat (narguses sc) - length (sundeclared sc))%nat with O by (unfold len in H; lia).
  cbn [firstn]. apply app_nil_r.
Qed.

(* ---- finds through the abstraction ------------------------------------------------------------------ *)
Lemma a_find_decl_frame st home s x :
  a_find_decl (frame_of st home s) x
  = option_map (nk st) (find (fun v => vname (vget st v) =? x) (rev (sdeclared (sc_of st s)))).
Proof.
  unfold a_find_decl, frame_of. cbn [fdecl]. rewrite <- map_rev. rewrite find_map. reflexivity.
Qed.

Lemma find_declared_noskip st sc x :
  find_declared st sc x false = find (fun v => vname (vget st v) =? x) (rev (sdeclared sc)).
Proof. reflexivity. Qed.

(* Declare's search skips the loop-head declarations; it is the plain search unless one of them has the name *)
Lemma find_declared_skip st sc x :
  existsb (fun v => vname (vget st v) =? x) (firstn (Z.to_nat (nfordecls sc)) (sdeclared sc)) = false ->
  find_declared st sc x true = find (fun v => vname (vget st v) =? x) (rev (sdeclared sc)).
Proof.
  intros H. unfold find_declared.
  rewrite <- (firstn_skipn (Z.to_nat (nfordecls sc)) (sdeclared sc)) at 2. rewrite rev_app_distr.
  set (g := fun v => vname (vget st v) =? x) in *.
  generalize (rev (skipn (Z.to_nat (nfordecls sc)) (sdeclared sc))). intros l.
  induction l as [|a t IH]; cbn [app find].
  - assert (Hn : forall l0, existsb g l0 = false -> find g (rev l0) = None).
    { intros l0 H0. destruct (find g (rev l0)) eqn:E; [|reflexivity]. apply find_some in E. destruct E as [E1 E2].
      apply in_rev in E1. assert (existsb g l0 = true) by (apply existsb_exists; exists n; split; assumption). congruence. }
    symmetry. apply Hn. exact H.
  - destruct (g a); [reflexivity|exact IH].
Qed.

Lemma uname_uent_of st home v : uname (uent_of st home v) = vname (vget st v).
Proof. unfold uent_of. destruct (vdecl (vget st v) =? 0); [destruct (argp st home v)|]; reflexivity. Qed.

(* what findUndeclared looks for: the name, but not among the pending uses of the parameter list *)
Definition und_pred (st : state) (home : nat -> nat) (x : Z) (v : nat) : bool :=
  (vname (vget st v) =? x) && negb ((vdecl (vget st v) =? 0) && argp st home v).

Lemma a_find_und_frame st home s x :
  a_find_und (frame_of st home s) x
  = option_map (uent_of st home) (find (und_pred st home x) (sundeclared (sc_of st s))).
Proof.
  unfold a_find_und, frame_of. cbn [fund]. rewrite find_map.
  f_equal. apply find_ext_in. intros v _. unfold uent_of, und_pred.
  destruct (vdecl (vget st v) =? 0); [destruct (argp st home v)|]; cbn [uname andb negb]; rewrite ?andb_true_r, ?andb_false_r; reflexivity.
Qed.

Lemma find_app_split {A} (p : A -> bool) (a b : list A) :
  find p (a ++ b) = match find p a with Some x => Some x | None => find p b end.
Proof. induction a as [|h t IH]; [reflexivity|]. cbn. destruct (p h); [reflexivity|exact IH]. Qed.

Lemma in_und_args_argp st home s v : home v = s -> In v (und_args (sc_of st s)) -> argp st home v = true.
Proof. intros <- H. unfold argp. apply existsb_exists. exists v. split; [exact H|apply Nat.eqb_refl]. Qed.

Lemma notin_und_args_argp st home s v : home v = s -> ~ In v (und_args (sc_of st s)) -> argp st home v = false.
Proof.
  intros <- H. unfold argp. destruct (existsb (Nat.eqb v) (und_args (sc_of st (home v)))) eqn:E; [|reflexivity].
  apply existsb_exists in E. destruct E as (w & Hw & Ew). apply Nat.eqb_eq in Ew. subst w. contradiction.
Qed.

Lemma NoDup_app_disj {A} (a b : list A) : NoDup (a ++ b) -> forall x, In x a -> In x b -> False.
Proof.
  induction a as [|h t IH]; intros H x Ha Hb; [destruct Ha|]. cbn in H. inversion H as [|? ? Hn Hnd]; subst.
  destruct Ha as [->|Ha]; [apply Hn; apply in_app_iff; right; exact Hb|apply (IH Hnd x Ha Hb)].
Qed.

Lemma firstn_In' {A} (l : list A) n x : In x (firstn n l) -> In x l.
Proof. intros H. rewrite <- (firstn_skipn n l). apply in_app_iff. left. exact H. Qed.

Lemma firstn_remove_at_le {A} (l : list A) : forall n k, (n <= k)%nat -> firstn n (remove_at l k) = firstn n l.
Proof.
  induction l as [|h t IH]; intros n k H; [destruct k; reflexivity|].
  destruct k as [|k]; [assert (n = O) by lia; subst; reflexivity|].
  destruct n as [|n]; [reflexivity|]. cbn. rewrite IH by lia. reflexivity.
Qed.

Lemma nth_error_firstn_in {A} (l : list A) n k x : nth_error l k = Some x -> (n <= k)%nat -> NoDup l -> ~ In x (firstn n l).
Proof.
  revert n k. induction l as [|h t IH]; intros n k Hk Hle Hnd Hin; [destruct k; discriminate|].
  destruct n as [|n]; [destruct Hin|]. destruct k as [|k]; [lia|]. cbn in Hk, Hin. inversion Hnd as [|? ? Hnot Hnd']; subst.
  destruct Hin as [->|Hin]; [apply Hnot; eapply nth_error_In; exact Hk|]. apply (IH n k Hk ltac:(lia) Hnd' Hin).
Qed.

Lemma in_firstn_list_set {A} (l : list A) : forall i n a b u,
  nth_error l i = Some b -> u <> a -> u <> b -> (In u (firstn n (list_set l i a)) <-> In u (firstn n l)).
Proof.
  induction l as [|h t IH]; intros i n a b u Hi Ha Hb; [destruct i; discriminate|].
  destruct n as [|n]; [tauto|]. destruct i as [|i]; cbn in Hi |- *.
  - injection Hi as ->. split; intros [E|H]; try (right; exact H); congruence.
  - specialize (IH i n a b u Hi Ha Hb). tauto.
Qed.

Lemma existsb_eqb_iff (l l' : list nat) u : (In u l <-> In u l') -> existsb (Nat.eqb u) l = existsb (Nat.eqb u) l'.
Proof.
  intros H. destruct (existsb (Nat.eqb u) l) eqn:E1, (existsb (Nat.eqb u) l') eqn:E2; try reflexivity.
  - apply existsb_exists in E1. destruct E1 as (w & Hw & Ew). apply Nat.eqb_eq in Ew. subst w.
    apply H in Hw. assert (existsb (Nat.eqb u) l' = true) by (apply existsb_exists; exists u; split; [exact Hw|apply Nat.eqb_refl]). congruence.
  - apply existsb_exists in E2. destruct E2 as (w & Hw & Ew). apply Nat.eqb_eq in Ew. subst w.
    apply H in Hw. assert (existsb (Nat.eqb u) l = true) by (apply existsb_exists; exists u; split; [exact Hw|apply Nat.eqb_refl]). congruence.
Qed.

Lemma in_und_args sc v : In v (und_args sc) -> In v (sundeclared sc).
Proof. apply firstn_In'. Qed.

Lemma und_split sc : sundeclared sc = und_args sc ++ und_live sc.
Proof. unfold und_args, und_live. symmetry. apply firstn_skipn. Qed.

Lemma find_undeclared_uses st home s x :
  (forall v, In v (sundeclared (sc_of st s)) -> 1 <= vuses (vget st v)) -> NoDup (sundeclared (sc_of st s)) ->
  (forall v, In v (sundeclared (sc_of st s)) -> vd st v = 0 -> home v = s) ->
  find_undeclared st (sc_of st s) x = find (und_pred st home x) (sundeclared (sc_of st s)).
Proof.
  intros Hu Hnd Hh. unfold find_undeclared. set (sc := sc_of st s) in *.
  replace (find (und_pred st home x) (sundeclared sc)) with (find (und_pred st home x) (und_args sc ++ und_live sc))
    by (rewrite <- und_split; reflexivity).
  rewrite find_app_split.
  rewrite (und_split sc) in Hnd, Hu, Hh.
  assert (E1 : find (fun v => (0 <? vuses (vget st v)) && (vname (vget st v) =? x) && negb (vdecl (vget st v) =? NoDecl)) (und_args sc)
               = find (und_pred st home x) (und_args sc)).
  { apply find_ext_in. intros v Hv. assert (Hin : In v (und_args sc ++ und_live sc)) by (apply in_app_iff; left; exact Hv).
    specialize (Hu v Hin). replace (0 <? vuses (vget st v)) with true by (symmetry; apply Z.ltb_lt; lia).
    unfold und_pred, NoDecl. cbn [andb]. destruct (Z.eqb_spec (vdecl (vget st v)) 0) as [E|E]; cbn [negb andb].
    - rewrite (in_und_args_argp st home s v (Hh v Hin E) Hv). cbn. rewrite !andb_false_r. reflexivity.
    - rewrite andb_true_r. reflexivity. }
  assert (E2 : find (fun v => (0 <? vuses (vget st v)) && (vname (vget st v) =? x)) (und_live sc)
               = find (und_pred st home x) (und_live sc)).
  { apply find_ext_in. intros v Hv. assert (Hin : In v (und_args sc ++ und_live sc)) by (apply in_app_iff; right; exact Hv).
    specialize (Hu v Hin). replace (0 <? vuses (vget st v)) with true by (symmetry; apply Z.ltb_lt; lia).
    unfold und_pred. cbn [andb]. destruct (Z.eqb_spec (vdecl (vget st v)) 0) as [E|E]; cbn [negb andb]; [|rewrite andb_true_r; reflexivity].
    rewrite (notin_und_args_argp st home s v (Hh v Hin E)); [cbn; rewrite andb_true_r; reflexivity|].
    intros Ha. apply (NoDup_app_disj _ _ Hnd v Ha Hv). }
  rewrite E1, E2. reflexivity.
Qed.

Lemma find_some_und st home (l : list nat) x v :
  find (und_pred st home x) l = Some v -> In v l /\ vname (vget st v) = x /\ (vdecl (vget st v) = 0 -> argp st home v = false).
Proof.
  intros H. apply find_some in H. destruct H as [H1 H2]. unfold und_pred in H2. apply andb_true_iff in H2. destruct H2 as [H2 H3].
  split; [exact H1|]. split; [apply Z.eqb_eq; exact H2|]. intros E. rewrite E in H3. cbn in H3. apply negb_true_iff in H3. exact H3.
Qed.

Lemma find_none_und st home (l : list nat) x :
  find (und_pred st home x) l = None ->
  forall v, In v l -> vname (vget st v) = x -> vdecl (vget st v) = 0 /\ argp st home v = true.
Proof.
  intros H v Hv E. pose proof (find_none _ _ H v Hv) as H1. unfold und_pred in H1. rewrite E, Z.eqb_refl in H1. cbn [andb] in H1.
  apply negb_false_iff in H1. apply andb_true_iff in H1. destruct H1 as [H1 H2]. split; [apply Z.eqb_eq; exact H1|exact H2].
Qed.

Lemma find_some_name st (l : list nat) x v :
  find (fun v => vname (vget st v) =? x) l = Some v -> In v l /\ vname (vget st v) = x.
Proof. intros H. apply find_some in H. destruct H as [H1 H2]. split; [exact H1|]. apply Z.eqb_eq. exact H2. Qed.

Lemma find_none_name st (l : list nat) x :
  find (fun v => vname (vget st v) =? x) l = None -> forall v, In v l -> vname (vget st v) <> x.
Proof. intros H v Hv E. pose proof (find_none _ _ H v Hv) as H1. cbn in H1. apply Z.eqb_neq in H1. contradiction. Qed.

(* ---- labels of roots ---------------------------------------------------------------------------------- *)
Lemma lab_of_root st home v : is_root st v -> lab_of st home v = lab_root st home v.
Proof. intros H. unfold lab_of. rewrite root_of_root by exact H. reflexivity. Qed.

(* two unresolved roots with the same label coincide *)
Lemma pend_label_inj st log stk home extra r1 r2 :
  InvS st log stk home extra ->
  (r1 < nvars st)%nat -> (r2 < nvars st)%nat -> is_root st r1 -> is_root st r2 ->
  vd st r1 = 0 -> vd st r2 = 0 -> home r1 = home r2 -> vn st r1 = vn st r2 ->
  argp st home r1 = argp st home r2 ->
  ~ extra r1 -> ~ extra r2 -> r1 = r2.
Proof.
  intros I H1 H2 R1 R2 D1 D2 Hh Hn Ha E1 E2.
  destruct (I_pend_complete _ _ _ _ _ I r1 H1 R1 D1) as [[Hs1 Hi1]|]; [|contradiction].
  destruct (I_pend_complete _ _ _ _ _ I r2 H2 R2 D2) as [[Hs2 Hi2]|]; [|contradiction].
  rewrite <- Hh in Hi2. eapply (I_pend_unique _ _ _ _ _ I (home r1)); eassumption.
Qed.

(* two declared roots with the same label coincide *)
Lemma nodup_map_inj {A B} (f : A -> B) (l : list A) a b :
  NoDup (map f l) -> In a l -> In b l -> f a = f b -> a = b.
Proof.
  induction l as [|h t IH]; intros Hnd Ha Hb E; [destruct Ha|].
  cbn in Hnd. inversion Hnd as [|? ? Hnot Hnd']; subst.
  destruct Ha as [->|Ha], Hb as [->|Hb]; try reflexivity.
  - exfalso. apply Hnot. rewrite E. apply in_map. exact Hb.
  - exfalso. apply Hnot. rewrite <- E. apply in_map. exact Ha.
  - apply IH; assumption.
Qed.

Lemma decl_label_inj st log stk home extra r1 r2 :
  InvS st log stk home extra ->
  (r1 < nvars st)%nat -> (r2 < nvars st)%nat -> is_root st r1 -> is_root st r2 ->
  vd st r1 <> 0 -> vd st r2 <> 0 -> home r1 = home r2 -> vn st r1 = vn st r2 -> r1 = r2.
Proof.
  intros I H1 H2 R1 R2 D1 D2 Hh Hn.
  pose proof (I_decl_complete _ _ _ _ _ I r1 H1 R1 D1) as Hi1.
  pose proof (I_decl_complete _ _ _ _ _ I r2 H2 R2 D2) as Hi2.
  rewrite <- Hh in Hi2.
  assert (Hs : (home r1 < nscopes st)%nat) by (apply (I_homes _ _ _ _ _ I); exact H1).
  eapply nodup_map_inj; [apply (I_decl_nodup _ _ _ _ _ I (home r1) Hs)| | |]; eassumption.
Qed.
