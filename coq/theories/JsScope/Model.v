(* JsScope/Model.v — executable model of the scope algorithm of the JS parser
   (/repo/js/ast.go: Var, Scope, Declare, Use, findDeclared, findUndeclared, AddUndeclared,
   MarkForStmt, MarkFuncArgs, HoistUndeclared, UndeclareScope, Unscope; /repo/js/parse.go:
   enterScope, exitScope, parseIdentifierArrowFunc's inline edit, the class-expression name,
   the exit+UndeclareScope of a parenthesised expression), statement by statement.
   Definitions only.

   *Var and *Scope pointers are indices into two heaps (lists); nil is [None].  A Go panic
   (nil dereference, slice bounds) is [Panic]; loops that walk the Parent chain carry fuel and
   report [OutOfFuel] (never reached on heaps built by enterScope: a parent is older than its
   child).  Names are integers (the algorithm only compares names with bytes.Equal).
   uint16 fields (Uses, NumForDecls, NumFuncArgs, NumArgUses) wrap modulo 2^16. *)
From Verif Require Import Common.Base.

(* ---- results --------------------------------------------------------------------------- *)
Inductive res (A : Type) : Type :=
| Ok (a : A)
| Panic
| OutOfFuel.
Arguments Ok {A} a.
Arguments Panic {A}.
Arguments OutOfFuel {A}.

Definition rbind {A B} (r : res A) (f : A -> res B) : res B :=
  match r with Ok a => f a | Panic => Panic | OutOfFuel => OutOfFuel end.
Notation "x <~ e ;; k" := (rbind e (fun x => k)) (at level 61, e at next level, right associativity).

(* ---- DeclType (js/ast.go:91-100) --------------------------------------------------------- *)
Definition NoDecl : Z := 0.
Definition VariableDecl : Z := 1.
Definition PrivateDecl : Z := 2.
Definition FunctionDecl : Z := 3.
Definition ArgumentDecl : Z := 4.
Definition LexicalDecl : Z := 5.
Definition CatchDecl : Z := 6.
Definition ExprDecl : Z := 7.

Definition u16 (x : Z) : Z := x mod 65536.

(* ---- heaps ----------------------------------------------------------------------------- *)
Record var := mkVar { vname : Z ; vlink : option nat ; vuses : Z ; vdecl : Z }.

Record scope := mkScope {
  sparent : option nat ;
  sfunc : option nat ;
  sdeclared : list nat ;
  sundeclared : list nat ;
  nfordecls : Z ;
  nfuncargs : Z ;
  narguses : Z }.

Record state := mkState { vars : list var ; scopes : list scope }.

Definition empty_state : state := mkState [] [].

Definition dummy_var : var := mkVar 0 None 0 0.
Definition dummy_scope : scope := mkScope None None [] [] 0 0 0.

(* a *Var stored in a list is never nil and never dangling *)
Definition vget (st : state) (v : nat) : var := nth v (vars st) dummy_var.
Definition sget (st : state) (s : nat) : res scope :=
  match nth_error (scopes st) s with Some sc => Ok sc | None => Panic end.

Fixpoint list_set {A} (l : list A) (i : nat) (a : A) : list A :=
  match l, i with
  | [], _ => []
  | _ :: t, O => a :: t
  | x :: t, S k => x :: list_set t k a
  end.

Definition vset (st : state) (v : nat) (x : var) : state := mkState (list_set (vars st) v x) (scopes st).
Definition sset (st : state) (s : nat) (x : scope) : state := mkState (vars st) (list_set (scopes st) s x).

Definition valloc (st : state) (x : var) : state * nat :=
  (mkState (vars st ++ [x]) (scopes st), length (vars st)).
Definition salloc (st : state) (x : scope) : state * nat :=
  (mkState (vars st) (scopes st ++ [x]), length (scopes st)).

Definition set_uses (x : var) (u : Z) : var := mkVar (vname x) (vlink x) u (vdecl x).
Definition set_decl (x : var) (d : Z) : var := mkVar (vname x) (vlink x) (vuses x) d.
Definition set_link (x : var) (l : option nat) : var := mkVar (vname x) l (vuses x) (vdecl x).

Definition set_declared (sc : scope) (l : list nat) : scope :=
  mkScope (sparent sc) (sfunc sc) l (sundeclared sc) (nfordecls sc) (nfuncargs sc) (narguses sc).
Definition set_undeclared (sc : scope) (l : list nat) : scope :=
  mkScope (sparent sc) (sfunc sc) (sdeclared sc) l (nfordecls sc) (nfuncargs sc) (narguses sc).

Definition opt_nat_eqb (a : option nat) (b : nat) : bool :=
  match a with Some x => Nat.eqb x b | None => false end.

(* ---- findDeclared (ast.go:295-310) ------------------------------------------------------- *)
(* for i := len(s.Declared)-1; start <= i; i-- : the last entry of Declared[start:] with that name *)
Definition find_declared (st : state) (sc : scope) (name : Z) (skip_for : bool) : option nat :=
  let start := if skip_for then nfordecls sc else 0 in
  find (fun v => vname (vget st v) =? name) (rev (skipn (Z.to_nat start) (sdeclared sc))).

(* ---- findUndeclared (ast.go:313-323) ----------------------------------------------------- *)
(* for i, v := range s.Undeclared: the first entry with 0 < Uses, that name, and
   (NumArgUses <= i || v.Decl != NoDecl): among the first NumArgUses entries (the uses made in the parameter
   list / loop head / catch parameter) only var declarations passed through are found, behind them every entry *)
Definition und_args (sc : scope) : list nat := firstn (Z.to_nat (narguses sc)) (sundeclared sc).
Definition und_live (sc : scope) : list nat := skipn (Z.to_nat (narguses sc)) (sundeclared sc).

Definition find_undeclared (st : state) (sc : scope) (name : Z) : option nat :=
  match find (fun v => (0 <? vuses (vget st v)) && (vname (vget st v) =? name) && negb (vdecl (vget st v) =? NoDecl))
             (und_args sc) with
  | Some v => Some v
  | None => find (fun v => (0 <? vuses (vget st v)) && (vname (vget st v) =? name)) (und_live sc)
  end.

(* ---- AddUndeclared (ast.go:324-332) ------------------------------------------------------ *)
Definition add_undeclared (st : state) (s : nat) (v : nat) : res state :=
  sc <~ sget st s ;;
  if existsb (Nat.eqb v) (sundeclared sc) then Ok st
  else Ok (sset st s (set_undeclared sc (sundeclared sc ++ [v]))).

(* for s != curScope { curScope.AddUndeclared(v); curScope = curScope.Parent }
   (ast.go:242-245 and 270-273); cur = None is a nil receiver *)
Fixpoint add_undeclared_chain (fuel : nat) (st : state) (cur : option nat) (s : nat) (v : nat) : res state :=
  match fuel with
  | O => OutOfFuel
  | S f =>
      if opt_nat_eqb cur s then Ok st
      else match cur with
           | None => Panic
           | Some c =>
               st1 <~ add_undeclared st c v ;;
               sc <~ sget st1 c ;;
               add_undeclared_chain f st1 (sparent sc) s v
           end
  end.

(* ---- Declare (ast.go:217-275) ------------------------------------------------------------ *)
(* the loop of lines 223-229: Ok None = "return nil, false" *)
Fixpoint declare_walk (fuel : nat) (st : state) (s : nat) (decl name : Z) : res (option nat) :=
  match fuel with
  | O => OutOfFuel
  | S f =>
      sc <~ sget st s ;;
      if opt_nat_eqb (sfunc sc) s then Ok (Some s)
      else
        let conflict :=
          match find_declared st sc name false with
          | Some v => negb (vdecl (vget st v) =? decl) && negb (vdecl (vget st v) =? CatchDecl)
          | None => false
          end in
        if conflict then Ok None
        else match sparent sc with
             | None => Panic               (* s = s.Parent = nil; s.Func dereferences nil *)
             | Some p => declare_walk f st p decl name
             end
  end.

(* index (relative to l) of the first reusable undeclared variable (lines 252-260) *)
Fixpoint find_reuse (st : state) (name : Z) (l : list nat) (i : nat) : option (nat * nat) :=
  match l with
  | [] => None
  | uv :: t =>
      let x := vget st uv in
      if (0 <? vuses x) && (vdecl x =? NoDecl) && (vname x =? name) then Some (i, uv)
      else find_reuse st name t (S i)
  end.

Fixpoint remove_at {A} (l : list A) (i : nat) : list A :=
  match l, i with
  | [], _ => []
  | _ :: t, O => t
  | x :: t, S k => x :: remove_at t k
  end.

Definition fuel_of (st : state) : nat := S (length (scopes st)).

(* result: (state, Some v) = (v, true) ; (state, None) = (nil, false) *)
Definition declare (st : state) (s0 : nat) (decl name : Z) : res (state * option nat) :=
  (* curScope := s *)
  tgt <~ (if (decl =? VariableDecl) || (decl =? FunctionDecl)
          then declare_walk (fuel_of st) st s0 decl name
          else (_ <~ sget st s0 ;; Ok (Some s0))) ;;
  match tgt with
  | None => Ok (st, None)
  | Some s =>
      sc <~ sget st s ;;
      match find_declared st sc name true with
      | Some v =>
          let x := vget st v in
          if ((ArgumentDecl <? vdecl x) || (FunctionDecl <? decl)) && negb (vdecl x =? ExprDecl)
          then Ok (st, None)
          else
            let x1 := if vdecl x =? ExprDecl then set_decl x decl else x in
            let x2 := set_uses x1 (u16 (vuses x1 + 1)) in
            let st1 := vset st v x2 in
            st2 <~ add_undeclared_chain (fuel_of st) st1 (Some s0) s v ;;
            Ok (st2, Some v)
      | None =>
          (* reuse variable if previously used, as in: a;var a *)
          reuse <~ (if decl =? ArgumentDecl then Ok None
                    else if len (sundeclared sc) <? narguses sc then Panic   (* s.Undeclared[s.NumArgUses:] *)
                    else Ok (find_reuse st name (skipn (Z.to_nat (narguses sc)) (sundeclared sc)) O)) ;;
          let '(st1, v) :=
            match reuse with
            | Some (i, uv) =>
                let sc1 := set_undeclared sc (remove_at (sundeclared sc) (Z.to_nat (narguses sc) + i)) in
                let st' := sset st s sc1 in
                (vset st' uv (set_decl (vget st' uv) decl), uv)
            | None => valloc st (mkVar name None 0 decl)
            end in
          let x := vget st1 v in
          let st2 := vset st1 v (set_uses x (u16 (vuses x + 1))) in
          sc2 <~ sget st2 s ;;
          let st3 := sset st2 s (set_declared sc2 (sdeclared sc2 ++ [v])) in
          st4 <~ add_undeclared_chain (fuel_of st) st3 (Some s0) s v ;;
          Ok (st4, Some v)
      end
  end.

(* ---- Use (ast.go:278-292) ---------------------------------------------------------------- *)
Definition use (st : state) (s : nat) (name : Z) : res (state * nat) :=
  sc <~ sget st s ;;
  let '(st1, v) :=
    match find_declared st sc name false with
    | Some v => (st, v)
    | None =>
        match find_undeclared st sc name with
        | Some v => (st, v)
        | None =>
            let '(st', v) := valloc st (mkVar name None 0 NoDecl) in
            (sset st' s (set_undeclared sc (sundeclared sc ++ [v])), v)
        end
    end in
  let x := vget st1 v in
  Ok (vset st1 v (set_uses x (u16 (vuses x + 1))), v).

(* ---- MarkForStmt / MarkFuncArgs (ast.go:335-344) ------------------------------------------ *)
Definition mark_for (st : state) (s : nat) : res state :=
  sc <~ sget st s ;;
  Ok (sset st s (mkScope (sparent sc) (sfunc sc) (sdeclared sc) (sundeclared sc)
                         (u16 (len (sdeclared sc))) (nfuncargs sc) (u16 (len (sundeclared sc))))).

Definition mark_args (st : state) (s : nat) : res state :=
  sc <~ sget st s ;;
  Ok (sset st s (mkScope (sparent sc) (sfunc sc) (sdeclared sc) (sundeclared sc)
                         (nfordecls sc) (u16 (len (sdeclared sc))) (u16 (len (sundeclared sc))))).

(* parse.go (try statement): p.scope.NumArgUses = uint16(len(p.scope.Undeclared)) after the catch parameter *)
Definition mark_catch (st : state) (s : nat) : res state :=
  sc <~ sget st s ;;
  Ok (sset st s (mkScope (sparent sc) (sfunc sc) (sdeclared sc) (sundeclared sc)
                         (nfordecls sc) (nfuncargs sc) (u16 (len (sundeclared sc))))).

(* ---- HoistUndeclared (ast.go:347-367) ---------------------------------------------------- *)
(* merge vorig into v: v.Uses += vorig.Uses; vorig.Link = v  (in this order; v may be vorig) *)
Definition merge_into (st : state) (vorig v : nat) : state :=
  let st1 := vset st v (set_uses (vget st v) (u16 (vuses (vget st v) + vuses (vget st vorig)))) in
  vset st1 vorig (set_link (vget st1 vorig) (Some v)).

(* one iteration for index i; [l] is the remaining part of the slice header evaluated by range *)
Fixpoint hoist_loop (st : state) (s : nat) (i : nat) (l : list nat) : res state :=
  match l with
  | [] => Ok st
  | vorig :: t =>
      let x := vget st vorig in
      if (0 <? vuses x) && (vdecl x =? NoDecl) then
        sc <~ sget st s ;;
        match sparent sc with
        | None => Panic
        | Some p =>
            psc <~ sget st p ;;
            match find_declared st psc (vname x) false with
            | Some v =>
                let st1 := merge_into st vorig v in
                sc1 <~ sget st1 s ;;
                hoist_loop (sset st1 s (set_undeclared sc1 (list_set (sundeclared sc1) i v))) s (S i) t
            | None =>
                match find_undeclared st psc (vname x) with
                | Some v =>
                    let st1 := merge_into st vorig v in
                    sc1 <~ sget st1 s ;;
                    hoist_loop (sset st1 s (set_undeclared sc1 (list_set (sundeclared sc1) i v))) s (S i) t
                | None =>
                    hoist_loop (sset st p (set_undeclared psc (sundeclared psc ++ [vorig]))) s (S i) t
                end
            end
        end
      else hoist_loop st s (S i) t
  end.

Definition hoist_undeclared (st : state) (s : nat) : res state :=
  sc <~ sget st s ;;
  hoist_loop st s O (sundeclared sc).

(* ---- UndeclareScope (ast.go:371-392) ------------------------------------------------------ *)
Fixpoint undeclare_loop (st : state) (s : nat) (l : list nat) : res state :=
  match l with
  | [] => Ok st
  | vorig :: t =>
      let x := vget st vorig in
      sc <~ sget st s ;;
      match sparent sc with
      | None => Panic
      | Some p =>
          psc <~ sget st p ;;
          match find_declared st psc (vname x) false with
          | Some v => undeclare_loop (merge_into st vorig v) s t
          | None =>
              match find_undeclared st psc (vname x) with
              | Some v => undeclare_loop (merge_into st vorig v) s t
              | None =>
                  let st1 := vset st vorig (set_decl x NoDecl) in
                  psc1 <~ sget st1 p ;;
                  undeclare_loop (sset st1 p (set_undeclared psc1 (sundeclared psc1 ++ [vorig]))) s t
              end
          end
      end
  end.

Definition undeclare_scope (st : state) (s : nat) : res state :=
  sc <~ sget st s ;;
  st1 <~ undeclare_loop st s (sdeclared sc) ;;
  sc1 <~ sget st1 s ;;
  Ok (sset st1 s (set_undeclared (set_declared sc1 []) [])).

(* ---- Unscope (ast.go:395-403) ------------------------------------------------------------- *)
Fixpoint unscope_loop (st : state) (s : nat) (l : list nat) : res state :=
  match l with
  | [] => Ok st
  | vorig :: t =>
      sc <~ sget st s ;;
      match sparent sc with
      | None => Panic
      | Some p =>
          psc <~ sget st p ;;
          unscope_loop (sset st p (set_declared psc (sdeclared psc ++ [vorig]))) s t
      end
  end.

Definition unscope (st : state) (s : nat) : res state :=
  sc <~ sget st s ;;
  st1 <~ unscope_loop st s (sdeclared sc) ;;
  sc1 <~ sget st1 s ;;
  Ok (sset st1 s (set_undeclared (set_declared sc1 []) [])).

(* ---- Var.Name's loop: follow Link (ast.go:133-138) ---------------------------------------- *)
Fixpoint chase (fuel : nat) (st : state) (v : nat) : nat :=
  match fuel with
  | O => v
  | S f => match vlink (vget st v) with Some w => chase f st w | None => v end
  end.

Definition root_of (st : state) (v : nat) : nat := chase (length (vars st) + length (scopes st)) st v.

(* ---- the name of a class expression (parse.go parseAnyClass, before exitScope) ------------ *)
(* for i, v := range classDecl.Scope.Undeclared { if 0 < v.Uses && v.Decl == NoDecl && name equal {
     Name.Uses += v.Uses; v.Link = Name; Undeclared[i] = Name } } *)
Fixpoint class_merge_loop (st : state) (c nv : nat) (i : nat) (l : list nat) : res state :=
  match l with
  | [] => Ok st
  | v :: t =>
      let x := vget st v in
      if (0 <? vuses x) && (vdecl x =? NoDecl) && (vname x =? vname (vget st nv)) then
        let st1 := merge_into st v nv in
        sc1 <~ sget st1 c ;;
        class_merge_loop (sset st1 c (set_undeclared sc1 (list_set (sundeclared sc1) i nv))) c nv (S i) t
      else class_merge_loop st c nv (S i) t
  end.

Definition class_merge (st : state) (c nv : nat) : res state :=
  sc <~ sget st c ;;
  class_merge_loop st c nv O (sundeclared sc).

(* ---- the parser's use of the scope tables (parse.go) -------------------------------------- *)
Record pstate := mkP {
  pst : state ;
  pcur : option nat ;        (* p.scope *)
  plog : list nat            (* the *Var stored in the tree for each identifier occurrence, latest first *)
}.

Definition init_pstate : pstate := mkP empty_state None [].

(* enterScope (parse.go:171-184) *)
Definition enter_scope (p : pstate) (is_func : bool) : res pstate :=
  let parent := pcur p in
  let id := length (scopes (pst p)) in
  fn <~ (if is_func then Ok (Some id)
         else match parent with
              | Some q => (psc <~ sget (pst p) q ;; Ok (sfunc psc))
              | None => Ok None
              end) ;;
  let '(st1, _) := salloc (pst p) (mkScope parent fn [] [] 0 0 0) in
  Ok (mkP st1 (Some id) (plog p)).

(* exitScope (parse.go:186-189); parent is the value enterScope returned = scope.Parent *)
Definition exit_scope (p : pstate) : res pstate :=
  match pcur p with
  | None => Panic
  | Some c =>
      st1 <~ hoist_undeclared (pst p) c ;;
      sc <~ sget st1 c ;;
      Ok (mkP st1 (sparent sc) (plog p))
  end.

Inductive event :=
| EEnter (is_func : bool)
| EExit
| EDeclare (decl name : Z)         (* binding, ok = p.scope.Declare(decl, name); !ok => parse error *)
| EUse (name : Z)                  (* p.scope.Use(name) *)
| EParamOrUse (name : Z)           (* parseAssignExprOrParam / shorthand property under assumeArrowFunc:
                                      Declare(ArgumentDecl); if !ok then Use *)
| EMarkFor
| EMarkArgs
| EArrowIdent                      (* parseIdentifierArrowFunc's edit for the Var of the preceding Use,
                                      the scope of the arrow function being entered already *)
| EExitUndeclare                   (* parse.go:2303-2304: exitScope(parent); scope.UndeclareScope() *)
| EClassExprName (name : Z)        (* parse.go parseAnyClass: &Var{name, nil, 1, ExprDecl} *)
| EMarkCatch                       (* parse.go try statement: NumArgUses = len(Undeclared) after the catch parameter *)
| EClassExprMerge (k : nat).       (* parse.go parseAnyClass, end of a class expression with a name: the pending uses of
                                      the name in the class Scope are merged into the name's Var; that Var is the
                                      one stored k occurrences ago (k = the occurrences of the class body) *)

Inductive outcome :=
| Running (p : pstate)
| Rejected                         (* "identifier ... has already been declared" *)
| Crashed                          (* Go panic *)
| NoFuel.

Definition of_res (r : res pstate) : outcome :=
  match r with Ok p => Running p | Panic => Crashed | OutOfFuel => NoFuel end.

Definition pstep (p : pstate) (e : event) : outcome :=
  match e with
  | EEnter f => of_res (enter_scope p f)
  | EExit => of_res (exit_scope p)
  | EDeclare decl name =>
      match pcur p with
      | None => Crashed
      | Some c =>
          match declare (pst p) c decl name with
          | Ok (st1, Some v) => Running (mkP st1 (pcur p) (v :: plog p))
          | Ok (_, None) => Rejected
          | Panic => Crashed
          | OutOfFuel => NoFuel
          end
      end
  | EUse name =>
      match pcur p with
      | None => Crashed
      | Some c =>
          match use (pst p) c name with
          | Ok (st1, v) => Running (mkP st1 (pcur p) (v :: plog p))
          | Panic => Crashed
          | OutOfFuel => NoFuel
          end
      end
  | EParamOrUse name =>
      match pcur p with
      | None => Crashed
      | Some c =>
          match declare (pst p) c ArgumentDecl name with
          | Ok (st1, Some v) => Running (mkP st1 (pcur p) (v :: plog p))
          | Ok (st1, None) =>
              match use st1 c name with
              | Ok (st2, v) => Running (mkP st2 (pcur p) (v :: plog p))
              | Panic => Crashed
              | OutOfFuel => NoFuel
              end
          | Panic => Crashed
          | OutOfFuel => NoFuel
          end
      end
  | EMarkFor =>
      match pcur p with
      | None => Crashed
      | Some c => of_res (st1 <~ mark_for (pst p) c ;; Ok (mkP st1 (pcur p) (plog p)))
      end
  | EMarkArgs =>
      match pcur p with
      | None => Crashed
      | Some c => of_res (st1 <~ mark_args (pst p) c ;; Ok (mkP st1 (pcur p) (plog p)))
      end
  | EArrowIdent =>
      (* parse.go:1563-1571 *)
      match pcur p, plog p with
      | Some c, v :: log' =>
          let st := pst p in
          let x := vget st v in
          if 1 <? vuses x then
            let st1 := vset st v (set_uses x (u16 (vuses x - 1))) in
            match declare st1 c ArgumentDecl (vname x) with
            | Ok (st2, Some v') => Running (mkP st2 (pcur p) (v' :: log'))
            | Ok (st2, None) =>
                (* "cannot fail": v, ok = nil, false would store a nil *Var in the tree *)
                Crashed
            | Panic => Crashed
            | OutOfFuel => NoFuel
            end
          else
            of_res (sc <~ sget st c ;;
                    match sparent sc with
                    | None => Panic
                    | Some q =>
                        psc <~ sget st q ;;
                        if len (sundeclared psc) <? 1 then Panic
                        else
                          let st1 := sset st q (set_undeclared psc (removelast (sundeclared psc))) in
                          let st2 := vset st1 v (set_decl (vget st1 v) ArgumentDecl) in
                          sc2 <~ sget st2 c ;;
                          Ok (mkP (sset st2 c (set_declared sc2 (sdeclared sc2 ++ [v]))) (pcur p) (v :: log'))
                    end)
      | _, _ => Crashed
      end
  | EExitUndeclare =>
      match pcur p with
      | None => Crashed
      | Some c =>
          of_res (p1 <~ exit_scope p ;;
                  st2 <~ undeclare_scope (pst p1) c ;;
                  Ok (mkP st2 (pcur p1) (plog p1)))
      end
  | EClassExprName name =>
      let '(st1, v) := valloc (pst p) (mkVar name None 1 ExprDecl) in
      Running (mkP st1 (pcur p) (v :: plog p))
  | EMarkCatch =>
      match pcur p with
      | None => Crashed
      | Some c => of_res (st1 <~ mark_catch (pst p) c ;; Ok (mkP st1 (pcur p) (plog p)))
      end
  | EClassExprMerge k =>
      match pcur p, nth_error (plog p) k with
      | Some c, Some nv => of_res (st1 <~ class_merge (pst p) c nv ;; Ok (mkP st1 (pcur p) (plog p)))
      | _, _ => Crashed
      end
  end.

Fixpoint prun (p : pstate) (evs : list event) : outcome :=
  match evs with
  | [] => Running p
  | e :: t =>
      match pstep p e with
      | Running p1 => prun p1 t
      | o => o
      end
  end.
