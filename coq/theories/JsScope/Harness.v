(* JsScope/Harness.v — correspondence drivers for the scope model (C04).
   scope_api : random sequences of the exported Scope methods (plus the parser's inline edits)
               on explicit scope / variable indices; every field of every Scope and Var is dumped.
   scope_e2e_algo : a binding program; the model is run on its linearisation; the partition of
               the identifier occurrences by Var (after Link), with kind, uses and global flags.
   scope_e2e_spec : a binding program; the declarative resolver's partition. *)
From Verif Require Import Common.Base Common.Codec JsScope.Model JsScope.Spec.

(* ---- API level ---------------------------------------------------------------------------- *)
Definition zn (n : nat) : Z := Z.of_nat n.
Definition zo (o : option nat) : Z := match o with Some n => Z.of_nat n + 1 | None => 0 end.

Definition dump_var (x : var) : list Z := [vname x; zo (vlink x); vuses x; vdecl x].
Definition dump_scope (sc : scope) : list Z :=
  [zo (sparent sc); zo (sfunc sc); nfordecls sc; nfuncargs sc; narguses sc]
    ++ len (sdeclared sc) :: map zn (sdeclared sc) ++ len (sundeclared sc) :: map zn (sundeclared sc).

Definition dump_state (st : state) (cur : option nat) : list Z :=
  zo cur :: len (scopes st) :: flat_map dump_scope (scopes st) ++ len (vars st) :: flat_map dump_var (vars st).

Definition code_res {A} (r : res A) : Z := match r with Ok _ => 0 | Panic => -1 | OutOfFuel => -2 end.

(* ops: code a b c (always four integers) *)
Fixpoint run_api (st : state) (cur : option nat) (ops : list Z) (fuel : nat) : list Z :=
  match fuel with
  | O => [-3]
  | S f =>
  match ops with
  | code :: a :: b :: c :: rest =>
      let s := Z.to_nat a in
      let continue (st' : state) (cur' : option nat) (obs : list Z) := obs ++ run_api st' cur' rest f in
      if code =? 0 then
        match enter_scope (mkP st cur []) (negb (a =? 0)) with
        | Ok p => continue (pst p) (pcur p) [0]
        | r => [code_res r]
        end
      else if code =? 1 then
        match exit_scope (mkP st cur []) with
        | Ok p => continue (pst p) (pcur p) [0]
        | r => [code_res r]
        end
      else if code =? 2 then
        match declare st s b c with
        | Ok (st', Some v) => continue st' cur [0; 1; zn v]
        | Ok (st', None) => continue st' cur [0; 0; -1]
        | r => [code_res r]
        end
      else if code =? 3 then
        match use st s b with
        | Ok (st', v) => continue st' cur [0; zn v]
        | r => [code_res r]
        end
      else if code =? 4 then
        match mark_for st s with Ok st' => continue st' cur [0] | r => [code_res r] end
      else if code =? 5 then
        match mark_args st s with Ok st' => continue st' cur [0] | r => [code_res r] end
      else if code =? 6 then
        match hoist_undeclared st s with Ok st' => continue st' cur [0] | r => [code_res r] end
      else if code =? 7 then
        match undeclare_scope st s with Ok st' => continue st' cur [0] | r => [code_res r] end
      else if code =? 8 then
        match unscope st s with Ok st' => continue st' cur [0] | r => [code_res r] end
      else if code =? 9 then
        match add_undeclared st s (Z.to_nat b) with Ok st' => continue st' cur [0] | r => [code_res r] end
      else if code =? 10 then
        continue (vset st s (set_uses (vget st s) (u16 b))) cur [0]
      else if code =? 11 then
        (* the inline edit of parseIdentifierArrowFunc for variable a, in the current scope *)
        match pstep (mkP st cur [s]) EArrowIdent with
        | Running p => continue (pst p) (pcur p) [0; zn (hd O (plog p))]
        | Rejected => [-4]
        | Crashed => [-1]
        | NoFuel => [-2]
        end
      else if code =? 12 then
        match pstep (mkP st cur []) EExitUndeclare with
        | Running p => continue (pst p) (pcur p) [0]
        | Rejected => [-4]
        | Crashed => [-1]
        | NoFuel => [-2]
        end
      else [-5]
  | _ => -9 :: dump_state st cur
  end
  end.

Definition run_scope_api (l : list Z) : list Z := run_api empty_state None l (S (length l)).

(* ---- binding programs ---------------------------------------------------------------------- *)
Definition dkind_of (z : Z) : dkind :=
  if z =? 0 then DVar else if z =? 1 then DFun else if z =? 2 then DLex else if z =? 3 then DParam else DCatch.

(* prefix code:  0 Done | 1 x Ref | 2 x PRef | 3 d x Decl | 4 Block b k | 5 f nm Func ps b k
   | 6 Arrow ps b k | 7 x ArrowId b k | 8 Paren hd k | 9 For hd b k | 10 Catch hd b k
   | 11 f nm Class ms k *)
Fixpoint decode_prog (fuel : nat) (l : list Z) : prog * list Z :=
  match fuel with
  | O => (Done, [])
  | S f =>
      match l with
      | [] => (Done, [])
      | c :: t =>
          if c =? 1 then let '(k, r) := decode_prog f (tlz t) in (Ref (hdz t) k, r)
          else if c =? 2 then let '(k, r) := decode_prog f (tlz t) in (PRef (hdz t) k, r)
          else if c =? 3 then
            let '(k, r) := decode_prog f (tlz (tlz t)) in (Decl (dkind_of (hdz t)) (hdz (tlz t)) k, r)
          else if c =? 4 then
            let '(b, r1) := decode_prog f t in
            let '(k, r2) := decode_prog f r1 in (Block b k, r2)
          else if c =? 5 then
            let nm := if hdz t =? 0 then None else Some (hdz (tlz t)) in
            let '(ps, r1) := decode_prog f (tlz (tlz t)) in
            let '(b, r2) := decode_prog f r1 in
            let '(k, r3) := decode_prog f r2 in (Func nm ps b k, r3)
          else if c =? 6 then
            let '(ps, r1) := decode_prog f t in
            let '(b, r2) := decode_prog f r1 in
            let '(k, r3) := decode_prog f r2 in (Arrow ps b k, r3)
          else if c =? 7 then
            let '(b, r1) := decode_prog f (tlz t) in
            let '(k, r2) := decode_prog f r1 in (ArrowId (hdz t) b k, r2)
          else if c =? 8 then
            let '(h, r1) := decode_prog f t in
            let '(k, r2) := decode_prog f r1 in (Paren h k, r2)
          else if c =? 9 then
            let '(h, r1) := decode_prog f t in
            let '(b, r2) := decode_prog f r1 in
            let '(k, r3) := decode_prog f r2 in (For h b k, r3)
          else if c =? 10 then
            let '(h, r1) := decode_prog f t in
            let '(b, r2) := decode_prog f r1 in
            let '(k, r3) := decode_prog f r2 in (Catch h b k, r3)
          else if c =? 11 then
            let nm := if hdz t =? 0 then None else Some (hdz (tlz t)) in
            let '(ms, r1) := decode_prog f (tlz (tlz t)) in
            let '(k, r2) := decode_prog f r1 in (Class nm ms k, r2)
          else (Done, t)
      end
  end.

Definition prog_of (l : list Z) : prog := fst (decode_prog (S (length l)) l).

Definition memn (v : nat) (l : list nat) : bool := existsb (Nat.eqb v) l.

(* first element of each class, in canonical order *)
Fixpoint reps_aux {A} (eqb : A -> A -> bool) (seen : list A) (l : list A) : list A :=
  match l with
  | [] => seen
  | a :: t => match index_of eqb a seen O with Some _ => reps_aux eqb seen t | None => reps_aux eqb (seen ++ [a]) t end
  end.

(* 1, number of occurrences, canonical class of each occurrence, then per class:
   Decl, Uses, in module scope's Declared?, in module scope's Undeclared?; then whether the program is in [core_x] *)
Definition run_scope_e2e_algo (l : list Z) : list Z :=
  match run_program (prog_of l) with
  | Running ps =>
      let st := pst ps in
      let roots := map (root_of st) (rev (plog ps)) in
      let g := match nth_error (scopes st) O with Some sc => sc | None => dummy_scope end in
      1 :: len roots :: map zn (canon Nat.eqb roots)
        ++ flat_map (fun r => [vdecl (vget st r); vuses (vget st r);
                               if memn r (sdeclared g) then 1 else 0;
                               if memn r (sundeclared g) then 1 else 0])
                    (reps_aux Nat.eqb [] roots)
        ++ [if core_x (prog_of l) then 1 else 0]     (* the fragment of resolution_correct_partial, mirrored by the harness *)
  | Rejected => [0]
  | Crashed => [-1]
  | NoFuel => [-2]
  end.

(* program_ok, then (if ok) number of occurrences, canonical class of each occurrence, and per
   class whether it is a global (bound nowhere) *)
Definition run_scope_e2e_spec (l : list Z) : list Z :=
  let p := prog_of l in
  if program_ok p then
    let ts := spec_resolve p in
    1 :: len ts :: map zn (canon target_eqb ts)
      ++ map (fun t => match t with TGlobal _ => 1 | TBind _ _ _ => 0 end) (reps_aux target_eqb [] ts)
  else [0].

(* ---- the label machine of the proof, end to end (programs of the proved fragment only) ------ *)
From Verif Require Import JsScope.Abs.

Definition run_scope_e2e_am (l : list Z) : list Z :=
  match arun init_astate (program_events (prog_of l)) with
  | ARun a =>
      let ls := rev (alog a) in
      1 :: len ls :: map zn (canon label_eqb ls)
        ++ map (fun t => match t with LPend _ _ => 1 | LDecl _ _ => 0 | LArg _ _ => 2 end) (reps_aux label_eqb [] ls)
        ++ [if core_x (prog_of l) then 1 else 0]
  | ARej => [0]
  | AStuck => [-3]
  end.
