(* JsScope/SimUse.v — simulation of Scope.Use, enterScope and MarkFuncArgs by the label machine. *)
From Coq Require Import ZifyBool.
From Verif Require Import Common.Base Common.Tactics JsScope.Model JsScope.Abs JsScope.HeapLemmas JsScope.SimDefs.

(* ---- small helpers ------------------------------------------------------------------------------ *)
Lemma InvS_log_cons st log stk home extra v :
  InvS st log stk home extra -> (v < nvars st)%nat -> InvS st (v :: log) stk home extra.
Proof.
  intros I Hv. dI I. constructor; try assumption.
  - intros w [<-|Hw]; [exact Hv|apply Ilog; exact Hw].
  - cbn. lia.
Qed.

Lemma count_root_le st r log : (count_root st r log <= length log)%nat.
Proof. unfold count_root. apply filter_len_le. Qed.

Lemma count_root_cons st r v log :
  count_root st r (v :: log) = ((if Nat.eqb (root_of st v) r then 1 else 0) + count_root st r log)%nat.
Proof. unfold count_root. cbn. destruct (Nat.eqb (root_of st v) r); reflexivity. Qed.

(* Uses++ on a root that is logged once more *)
Lemma InvU_incr st log v :
  InvU st log -> (v < nvars st)%nat -> is_root st v -> len log < 65535 ->
  let st' := vset st v (set_uses (vget st v) (u16 (vuses (vget st v) + 1))) in
  InvU st' (v :: log).
Proof.
  intros [Hu Hc] Hv Hr Hlen st'.
  assert (Hsh : same_shape st st') by apply same_shape_set_uses.
  assert (Huv : vuses (vget st v) = Z.of_nat (count_root st v log)) by (apply Hc; assumption).
  pose proof (count_root_le st v log) as Hle. unfold len in Hlen.
  assert (Hu16 : u16 (vuses (vget st v) + 1) = vuses (vget st v) + 1) by (apply u16_small; lia).
  constructor.
  - intros w Hw. unfold st' in *. rewrite nvars_vset in Hw. rewrite vget_vset by exact Hv.
    destruct (Nat.eqb v w); [cbn; rewrite Hu16; specialize (Hu v Hv); lia|apply Hu; exact Hw].
  - intros r Hrv Hrr. unfold st' in Hrv. rewrite nvars_vset in Hrv.
    rewrite (count_root_same_shape _ _ _ _ Hsh). rewrite count_root_cons. rewrite (root_of_root st v Hr).
    apply (is_root_same_shape _ _ _ Hsh) in Hrr.
    unfold st'. rewrite vget_vset by exact Hv. destruct (Nat.eqb_spec v r) as [->|Hne].
    + cbn [vuses set_uses]. rewrite Hu16, Huv. lia.
    + rewrite Hc by assumption. lia.
Qed.

(* ---- facts about one update: the new state agrees with the old one except ... --------------------- *)
Lemma in_app_last {A} (x a : A) l : In x (l ++ [a]) <-> In x l \/ x = a.
Proof. rewrite in_app_iff. cbn. intuition. Qed.

Lemma nodup_app_last {A} (l : list A) a : NoDup l -> ~ In a l -> NoDup (l ++ [a]).
Proof.
  intros Hn Hi. induction l as [|h t IH]; cbn; [constructor; [intros []|constructor]|].
  inversion Hn; subst. constructor.
  - rewrite in_app_last. intros [H|H]; [contradiction|]. subst. apply Hi. left. reflexivity.
  - apply IH; [assumption|]. intros H. apply Hi. right. exact H.
Qed.

Lemma len_app_last {A} (l : list A) a : len (l ++ [a]) = len l + 1.
Proof. rewrite len_app. reflexivity. Qed.

(* a new unresolved variable at the end of the undeclared list of the innermost open scope *)
Section NewPending.
  Variables (st : state) (log stk : list nat) (c : nat) (rest : list nat) (home : nat -> nat) (x : Z).
  Hypothesis Hstk : stk = c :: rest.
  Hypothesis I : InvS st log stk home no_extra.
  Hypothesis Hnone : find (und_pred st home x) (sundeclared (sc_of st c)) = None.

  Let id := nvars st.
  Let sc := sc_of st c.
  Let st1 := fst (valloc st (mkVar x None 0 NoDecl)).
  Let st2 := sset st1 c (set_undeclared sc (sundeclared sc ++ [id])).
  Let home' := fun w => if Nat.eqb w id then c else home w.

  Lemma np_c : (c < nscopes st)%nat.
  Proof. apply (stack_ok_in st stk); [apply I|]. rewrite Hstk. left. reflexivity. Qed.

  Lemma np_nvars : nvars st2 = S (nvars st).
  Proof. unfold st2. rewrite nvars_sset. apply nvars_valloc. Qed.

  Lemma np_nscopes : nscopes st2 = nscopes st.
  Proof. unfold st2. rewrite nscopes_sset. reflexivity. Qed.

  Lemma np_vget_old w : (w < nvars st)%nat -> vget st2 w = vget st w.
  Proof. intros H. unfold st2. rewrite vget_sset. apply vget_valloc_old. exact H. Qed.

  Lemma np_vget_new : vget st2 id = mkVar x None 0 NoDecl.
  Proof. unfold st2. rewrite vget_sset. apply vget_valloc_new. Qed.

  Lemma np_sc s : sc_of st2 s = if Nat.eqb s c then set_undeclared sc (sundeclared sc ++ [id]) else sc_of st s.
  Proof.
    unfold st2. destruct (Nat.eqb_spec s c) as [->|Hne].
    - apply sc_of_sset_same. unfold st1. rewrite nscopes_valloc. apply np_c.
    - rewrite sc_of_sset_other by congruence. reflexivity.
  Qed.

  Lemma np_decl s : sdeclared (sc_of st2 s) = sdeclared (sc_of st s).
  Proof. rewrite np_sc. destruct (Nat.eqb_spec s c) as [->|]; reflexivity. Qed.

  Lemma np_und s : sundeclared (sc_of st2 s) = if Nat.eqb s c then sundeclared sc ++ [id] else sundeclared (sc_of st s).
  Proof. rewrite np_sc. destruct (Nat.eqb s c); reflexivity. Qed.

  Lemma np_home_old w : (w < nvars st)%nat -> home' w = home w.
  Proof. intros H. unfold home'. destruct (Nat.eqb_spec w id) as [E|]; [unfold id in E; lia|reflexivity]. Qed.

  Lemma np_root_old w : (w < nvars st)%nat -> (is_root st2 w <-> is_root st w).
  Proof. intros H. unfold is_root. rewrite np_vget_old by exact H. tauto. Qed.

  Lemma np_old_or_new w : (w < nvars st2)%nat -> (w < nvars st)%nat \/ w = id.
  Proof. rewrite np_nvars. unfold id. lia. Qed.

  Lemma np_args q : und_args (sc_of st2 q) = und_args (sc_of st q).
  Proof.
    rewrite np_sc. destruct (Nat.eqb_spec q c) as [->|]; [|reflexivity].
    unfold und_args at 1. cbn [narguses sundeclared set_undeclared]. apply und_args_app.
    apply (I_marks _ _ _ _ _ I c). rewrite Hstk. left. reflexivity.
  Qed.

  Lemma np_argp_old w : (w < nvars st)%nat -> argp st2 home' w = argp st home w.
  Proof. intros H. apply argp_ext; [apply np_home_old; exact H|apply np_args]. Qed.

  Lemma np_argp_new : argp st2 home' id = false.
  Proof.
    apply (notin_und_args_argp st2 home' c id); [unfold home'; rewrite Nat.eqb_refl; reflexivity|].
    rewrite np_args. intros Hin. unfold und_args in Hin. apply firstn_In' in Hin.
    pose proof (I_valid _ _ _ _ _ I c id np_c (or_intror Hin)) as H. unfold id in H. lia.
  Qed.

  Lemma InvS_new_pending : InvS st2 (id :: log) stk home' no_extra.
  Proof.
    pose proof np_c as Hc. pose proof I as I'. dI I'.
    assert (Hval : forall s v, (s < nscopes st)%nat -> In v (sdeclared (sc_of st s)) -> (v < nvars st)%nat).
    { intros s v Hs Hv. apply (Ivalid s v Hs). left. exact Hv. }
    assert (Hvalu : forall s v, (s < nscopes st)%nat -> In v (sundeclared (sc_of st s)) -> (v < nvars st)%nat).
    { intros s v Hs Hv. apply (Ivalid s v Hs). right. exact Hv. }
    constructor.
    - eapply stack_ok_ext; [eassumption|rewrite np_nscopes; lia|].
      intros s _. rewrite np_sc. destruct (Nat.eqb_spec s c) as [->|]; reflexivity.
    - intros s g. rewrite np_nscopes. intros Hs. rewrite np_sc.
      destruct (Nat.eqb_spec s c) as [->|]; apply Ifunc; assumption.
    - intros s v. rewrite np_nscopes, np_nvars, np_decl, np_und. intros Hs [Hv|Hv].
      + specialize (Hval s v Hs Hv). lia.
      + destruct (Nat.eqb_spec s c) as [->|].
        * apply in_app_last in Hv. destruct Hv as [Hv| ->]; [specialize (Hvalu c v Hs Hv); lia|unfold id; lia].
        * specialize (Hvalu s v Hs Hv). lia.
    - intros v w Hv Hl. destruct (np_old_or_new v Hv) as [Ho| ->].
      + rewrite np_vget_old in Hl by exact Ho. destruct (Ilinks v w Ho Hl) as [Hw Hh].
        rewrite np_nvars, !np_home_old by assumption. split; [lia|exact Hh].
      + rewrite np_vget_new in Hl. discriminate.
    - intros v Hv. rewrite np_nscopes. destruct (np_old_or_new v Hv) as [Ho| ->].
      + rewrite np_home_old by exact Ho. apply Ihomes. exact Ho.
      + unfold home'. rewrite Nat.eqb_refl. exact Hc.
    - intros v [<-|Hv]; rewrite np_nvars; [unfold id; lia|]. specialize (Ilog v Hv). lia.
    - rewrite np_nvars. cbn. lia.
    - intros s v. rewrite np_nscopes, np_decl. intros Hs Hv. pose proof (Hval s v Hs Hv) as Ho.
      unfold vd. rewrite np_root_old, np_vget_old, np_home_old by exact Ho. apply Idecl; assumption.
    - intros s. rewrite np_nscopes, np_decl. intros Hs.
      rewrite (map_ext_in (vn st2) (vn st)); [apply Idnodup; exact Hs|].
      intros v Hv. unfold vn. rewrite np_vget_old; [reflexivity|]. apply (Hval s v Hs Hv).
    - intros r Hr. destruct (np_old_or_new r Hr) as [Ho| ->].
      + unfold vd. rewrite np_root_old, np_vget_old, np_home_old, np_decl by exact Ho. apply Idcomp. exact Ho.
      + unfold vd. rewrite np_vget_new. cbn. intros _ H. exfalso. apply H. reflexivity.
    - intros s v Hs. rewrite np_und. pose proof (stack_ok_in _ _ _ Istack Hs) as Hsn.
      destruct (Nat.eqb_spec s c) as [->|Hne]; intros Hv.
      + apply in_app_last in Hv. destruct Hv as [Hv| ->].
        * pose proof (Hvalu c v Hsn Hv) as Ho. unfold vd. rewrite np_root_old, np_vget_old, np_home_old by exact Ho.
          apply Iund; assumption.
        * split; [unfold is_root; rewrite np_vget_new; reflexivity|]. unfold home'. rewrite Nat.eqb_refl. split; [intros _; reflexivity|lia].
      + pose proof (Hvalu s v Hsn Hv) as Ho. unfold vd. rewrite np_root_old, np_vget_old, np_home_old by exact Ho.
        apply Iund; assumption.
    - intros s Hs. rewrite np_und. destruct (Nat.eqb_spec s c) as [->|Hne]; [|apply Iunodup; exact Hs].
      apply nodup_app_last; [apply Iunodup; exact Hs|]. intros Hin. specialize (Hvalu c id Hc Hin). unfold id in Hvalu. lia.
    - intros s v1 v2 Hs. rewrite np_und. pose proof (stack_ok_in _ _ _ Istack Hs) as Hsn.
      destruct (Nat.eqb_spec s c) as [->|Hne].
      + intros H1 H2. apply in_app_last in H1. apply in_app_last in H2.
        destruct H1 as [H1| ->], H2 as [H2| ->].
        * pose proof (Hvalu c v1 Hsn H1) as O1. pose proof (Hvalu c v2 Hsn H2) as O2.
          unfold vd, vn. rewrite !np_vget_old, !np_argp_old by assumption. apply (Ipuniq c); assumption.
        * pose proof (Hvalu c v1 Hsn H1) as O1. unfold vn. rewrite np_vget_old by exact O1. rewrite np_vget_new. cbn.
          rewrite (np_argp_old v1), np_argp_new by exact O1.
          intros _ _ E Ea. exfalso. destruct (find_none_und st home _ x Hnone v1 H1 E) as [_ Ht]. congruence.
        * pose proof (Hvalu c v2 Hsn H2) as O2. unfold vn. rewrite (np_vget_old v2) by exact O2. rewrite np_vget_new. cbn.
          rewrite (np_argp_old v2), np_argp_new by exact O2.
          intros _ _ E Ea. exfalso. destruct (find_none_und st home _ x Hnone v2 H2 (eq_sym E)) as [_ Ht]. congruence.
        * reflexivity.
      + intros H1 H2. pose proof (Hvalu s v1 Hsn H1) as O1. pose proof (Hvalu s v2 Hsn H2) as O2.
        unfold vd, vn. rewrite !np_vget_old, !np_argp_old by assumption. apply (Ipuniq s); assumption.
    - intros r Hr. destruct (np_old_or_new r Hr) as [Ho| ->].
      + unfold vd. rewrite np_root_old, np_vget_old, np_home_old by exact Ho. intros R D.
        destruct (Ipcomp r Ho R D) as [[H1 H2]|[]]. left. split; [exact H1|].
        rewrite np_und. destruct (Nat.eqb_spec (home r) c) as [E|]; [|exact H2].
        apply in_app_last. left. rewrite E in H2. exact H2.
      + intros _ _. left. unfold home'. rewrite Nat.eqb_refl. split; [rewrite Hstk; left; reflexivity|].
        rewrite np_und, Nat.eqb_refl. apply in_app_last. right. reflexivity.
    - intros s Hs. rewrite np_sc. destruct (Nat.eqb_spec s c) as [->|Hne]; [|apply Imarks; exact Hs].
      destruct (Imarks c Hs) as [H1 H2]. cbn. split; [exact H1|]. rewrite len_app_last. fold sc in H2. lia.
  Qed.

  (* the abstraction after the update *)
  Lemma np_root_of w : (w < nvars st)%nat -> root_of st2 w = root_of st w.
  Proof.
    intros Hw. apply (root_of_same_links st st2 home).
    - apply I.
    - apply I.
    - split; [rewrite np_nvars; lia|]. intros v Hv. rewrite np_vget_old by exact Hv. reflexivity.
    - rewrite np_nscopes. lia.
    - exact Hw.
  Qed.

  Lemma np_lab_old w : (w < nvars st)%nat -> lab_of st2 home' w = lab_of st home w.
  Proof.
    intros Hw. unfold lab_of. rewrite np_root_of by exact Hw.
    assert (Hr : (root_of st w < nvars st)%nat).
    { destruct (root_of_spec st home w (I_links _ _ _ _ _ I) (I_homes _ _ _ _ _ I) Hw) as (n & _ & _ & H & _). exact H. }
    apply lab_root_ext; [rewrite np_vget_old by exact Hr; reflexivity|rewrite np_vget_old by exact Hr; reflexivity|apply np_home_old; exact Hr|apply np_args].
  Qed.

  Lemma np_lab_new : lab_of st2 home' id = LPend c x.
  Proof.
    rewrite lab_of_root by (unfold is_root; rewrite np_vget_new; reflexivity).
    unfold lab_root. rewrite np_vget_new, np_argp_new. cbn. unfold home'. rewrite Nat.eqb_refl. reflexivity.
  Qed.

  Lemma np_frame_other s : In s stk -> s <> c -> frame_of st2 home' s = frame_of st home s.
  Proof.
    intros Hs Hne. pose proof (stack_ok_in _ _ _ (I_stack _ _ _ _ _ I) Hs) as Hsn.
    unfold frame_of. rewrite np_sc. destruct (Nat.eqb_spec s c) as [|_]; [contradiction|]. f_equal.
    - apply map_ext_in. intros v Hv. unfold nk. rewrite np_vget_old; [reflexivity|].
      apply (I_valid _ _ _ _ _ I s v Hsn). left. exact Hv.
    - apply map_ext_in. intros v Hv.
      assert (Ho : (v < nvars st)%nat) by (apply (I_valid _ _ _ _ _ I s v Hsn); right; exact Hv).
      apply uent_of_ext; [rewrite np_vget_old by exact Ho; reflexivity|rewrite np_vget_old by exact Ho; reflexivity|apply np_home_old; exact Ho|apply np_args].
  Qed.

  Lemma np_frame_c :
    frame_of st2 home' c = set_fund (frame_of st home c) (fund (frame_of st home c) ++ [UPend x]).
  Proof.
    pose proof np_c as Hc. unfold frame_of, set_fund. cbn [fid fisfunc fdecl fund fnarg fnfor].
    rewrite np_sc, Nat.eqb_refl. cbn [sfunc sdeclared sundeclared narguses nfordecls set_undeclared]. fold sc. f_equal.
    - apply map_ext_in. intros v Hv. unfold nk. rewrite np_vget_old; [reflexivity|].
      apply (I_valid _ _ _ _ _ I c v Hc). left. exact Hv.
    - rewrite map_app. f_equal.
      + apply map_ext_in. intros v Hv.
        assert (Ho : (v < nvars st)%nat) by (apply (I_valid _ _ _ _ _ I c v Hc); right; exact Hv).
        apply uent_of_ext; [rewrite np_vget_old by exact Ho; reflexivity|rewrite np_vget_old by exact Ho; reflexivity|apply np_home_old; exact Ho|apply np_args].
      + cbn. unfold uent_of. rewrite np_vget_new, np_argp_new. reflexivity.
  Qed.

  Lemma new_pending_all :
    InvS st2 (id :: log) stk home' no_extra /\
    nvars st2 = S (nvars st) /\ nscopes st2 = nscopes st /\
    (forall w, (w < nvars st)%nat -> vget st2 w = vget st w) /\
    vget st2 id = mkVar x None 0 NoDecl /\
    (forall w, (w < nvars st)%nat -> root_of st2 w = root_of st w) /\
    (forall w, (w < nvars st)%nat -> lab_of st2 home' w = lab_of st home w) /\
    lab_of st2 home' id = LPend c x /\
    map (frame_of st2 home') stk
      = set_fund (frame_of st home c) (fund (frame_of st home c) ++ [UPend x]) :: map (frame_of st home) rest.
  Proof.
    split; [exact InvS_new_pending|]. split; [exact np_nvars|]. split; [exact np_nscopes|].
    split; [exact np_vget_old|]. split; [exact np_vget_new|]. split; [exact np_root_of|].
    split; [exact np_lab_old|]. split; [exact np_lab_new|].
    rewrite Hstk. cbn [map]. f_equal; [exact np_frame_c|].
    apply map_ext_in. intros s Hs. apply np_frame_other.
    - rewrite Hstk. right. exact Hs.
    - intros ->. pose proof (stack_ok_nodup _ _ (I_stack _ _ _ _ _ I)) as Hnd. rewrite Hstk in Hnd.
      inversion Hnd; contradiction.
  Qed.
End NewPending.

(* ---- Use ------------------------------------------------------------------------------------------ *)
Lemma sim_use st log stk c rest home x :
  stk = c :: rest -> InvS st log stk home no_extra -> InvU st log -> len log < 65535 ->
  exists st' v home',
    use st c x = Ok (st', v) /\
    InvS st' (v :: log) stk home' no_extra /\ InvU st' (v :: log) /\
    a_use (abs st log stk home) x = ARun (abs st' (v :: log) stk home').
Proof.
  intros eq_refl I U Hlen. subst stk.
  assert (Hc : (c < nscopes st)%nat) by (apply (stack_ok_in st (c :: rest)); [apply I|left; reflexivity]).
  assert (Hcs : In c (c :: rest)) by (left; reflexivity).
  destruct (I_marks _ _ _ _ _ I c Hcs) as [Hfor _].
  unfold use. rewrite (sget_valid st c Hc). cbn [rbind].
  rewrite (find_declared_noskip st (sc_of st c) x).
  unfold a_use, abs at 1. cbn [astack]. cbn [map]. rewrite a_find_decl_frame.
  destruct (find (fun v => vname (vget st v) =? x) (rev (sdeclared (sc_of st c)))) as [v|] eqn:Ed.
  - (* declared in the current scope *)
    apply find_some_name in Ed. destruct Ed as [Hin Hname]. apply in_rev in Hin.
    destruct (I_decl _ _ _ _ _ I c v Hc Hin) as (Hroot & Hd & Hh).
    assert (Hv : (v < nvars st)%nat) by (apply (I_valid _ _ _ _ _ I c v Hc); left; exact Hin).
    set (st' := vset st v (set_uses (vget st v) (u16 (vuses (vget st v) + 1)))).
    assert (Hsh : same_shape st st') by apply same_shape_set_uses.
    exists st', v, home. split; [reflexivity|]. split.
    + apply InvS_log_cons; [apply (InvS_same_shape _ _ _ _ _ _ Hsh I)|]. unfold st'. rewrite nvars_vset. exact Hv.
    + split; [apply InvU_incr; assumption|].
      cbn [option_map]. rewrite (abs_same_shape _ _ _ _ _ Hsh). unfold abs. cbn [map]. f_equal. f_equal.
      rewrite lab_of_root by exact Hroot. unfold lab_root. unfold vd in Hd.
      replace (vdecl (vget st v) =? 0) with false by (symmetry; apply Z.eqb_neq; exact Hd).
      rewrite Hh, Hname. reflexivity.
  - cbn [option_map].
    rewrite (find_undeclared_uses st home c x).
    2:{ intros v Hv. apply (I_uses _ _ U). apply (I_valid _ _ _ _ _ I c v Hc). right. exact Hv. }
    2:{ apply (I_und_nodup _ _ _ _ _ I c Hcs). }
    2:{ intros v Hv Hd. apply (I_und _ _ _ _ _ I c v Hcs Hv). exact Hd. }
    rewrite a_find_und_frame.
    destruct (find (und_pred st home x) (sundeclared (sc_of st c))) as [v|] eqn:Eu.
    + (* already used in the current scope, or a declaration passed through it *)
      apply find_some_und in Eu. destruct Eu as (Hin & Hname & Hnarg).
      destruct (I_und _ _ _ _ _ I c v Hcs Hin) as (Hroot & Hh & _).
      assert (Hv : (v < nvars st)%nat) by (apply (I_valid _ _ _ _ _ I c v Hc); right; exact Hin).
      set (st' := vset st v (set_uses (vget st v) (u16 (vuses (vget st v) + 1)))).
      assert (Hsh : same_shape st st') by apply same_shape_set_uses.
      exists st', v, home. split; [reflexivity|]. split.
      * apply InvS_log_cons; [apply (InvS_same_shape _ _ _ _ _ _ Hsh I)|]. unfold st'. rewrite nvars_vset. exact Hv.
      * split; [apply InvU_incr; assumption|].
        cbn [option_map].
        assert (Elab : lab_of st home v = match uent_of st home v with UPend _ => LPend c x | UPass _ fs => LDecl fs x | UArg _ => LArg c x end).
        { rewrite lab_of_root by exact Hroot. unfold lab_root, uent_of. unfold vd in Hh.
          destruct (Z.eqb_spec (vdecl (vget st v)) 0) as [E|E]; rewrite Hname; [rewrite (Hh E); destruct (argp st home v)|]; reflexivity. }
        assert (Enoarg : forall y, uent_of st home v <> UArg y).
        { intros y. unfold uent_of. destruct (Z.eqb_spec (vdecl (vget st v)) 0) as [E|E]; [rewrite (Hnarg E)|]; discriminate. }
        destruct (uent_of st home v) eqn:Eue; [| |exfalso; eapply Enoarg; reflexivity]; rewrite (abs_same_shape _ _ _ _ _ Hsh); unfold abs; cbn [map];
          rewrite Elab; reflexivity.
    + (* a new unresolved variable *)
      cbn [option_map].
      destruct (new_pending_all st log (c :: rest) c rest home x eq_refl I Eu)
        as (I2 & Hnv & Hns & Hold & Hnew & Hrt & Hlabo & Hlabn & Hfr).
      set (id := nvars st) in *.
      set (st2 := sset (fst (valloc st (mkVar x None 0 NoDecl))) c
                       (set_undeclared (sc_of st c) (sundeclared (sc_of st c) ++ [id]))) in *.
      set (home' := fun w => if Nat.eqb w id then c else home w) in *.
      assert (Hid : (id < nvars st2)%nat) by (rewrite Hnv; unfold id; lia).
      assert (Hrootid : is_root st2 id) by (unfold is_root; rewrite Hnew; reflexivity).
      set (st3 := vset st2 id (set_uses (vget st2 id) (u16 (vuses (vget st2 id) + 1)))).
      assert (Hsh : same_shape st2 st3) by apply same_shape_set_uses.
      exists st3, id, home'. split.
      { unfold valloc. cbn [fst snd]. reflexivity. }
      split; [apply (InvS_same_shape _ _ _ _ _ _ Hsh I2)|]. split.
      * (* use counters *)
        destruct U as [Hu Hcnt]. constructor.
        -- intros w Hw. unfold st3 in *. rewrite nvars_vset in Hw. rewrite vget_vset by exact Hid.
           destruct (Nat.eqb_spec id w) as [<-|Hne].
           ++ rewrite Hnew. cbn [vuses set_uses]. rewrite u16_small by lia. lia.
           ++ rewrite Hold by (unfold id in *; lia). apply Hu. unfold id in *; lia.
        -- intros r Hr Hrr. unfold st3 in Hr. rewrite nvars_vset in Hr.
           rewrite (count_root_same_shape _ _ _ _ Hsh). apply (is_root_same_shape _ _ _ Hsh) in Hrr.
           rewrite count_root_cons. rewrite (root_of_root st2 id Hrootid).
           assert (Ecount : forall r', count_root st2 r' log = count_root st r' log).
           { intros r'. unfold count_root. f_equal. apply filter_ext_in'. intros u Hu'.
             rewrite Hrt; [reflexivity|]. apply (I_log _ _ _ _ _ I). exact Hu'. }
           unfold st3. rewrite vget_vset by exact Hid.
           destruct (Nat.eqb_spec id r) as [<-|Hne].
           ++ cbn [vuses set_uses]. rewrite Hnew. cbn [vuses].
              assert (count_root st2 id log = O) as ->.
              { rewrite Ecount. unfold count_root. rewrite filter_all_false; [reflexivity|].
                intros u Hu'. apply Nat.eqb_neq.
                assert (Huv : (u < nvars st)%nat) by (apply (I_log _ _ _ _ _ I); exact Hu').
                destruct (root_of_spec st home u (I_links _ _ _ _ _ I) (I_homes _ _ _ _ _ I) Huv) as (n & _ & _ & H & _).
                unfold id. lia. }
              rewrite u16_small by lia. lia.
           ++ assert (Ho : (r < nvars st)%nat) by (unfold id in *; lia).
              rewrite Hold by exact Ho. rewrite Ecount.
              rewrite Hcnt; [lia|exact Ho|]. unfold is_root in *. rewrite Hold in Hrr by exact Ho. exact Hrr.
      * (* the abstraction *)
        rewrite (abs_same_shape _ _ _ _ _ Hsh). unfold abs. rewrite Hfr, Hns. cbn [map]. rewrite Hlabn.
        assert (E : map (lab_of st2 home') log = map (lab_of st home) log).
        { apply map_ext_in. intros w Hw. apply Hlabo. apply (I_log _ _ _ _ _ I). exact Hw. }
        rewrite E. reflexivity.
Qed.
