(* JsScope/Resolve2.v — layer 2, part 2: Declare on the label machine. *)
From Coq Require Import ZifyBool.
From Verif Require Import Common.Base Common.Tactics JsScope.Model JsScope.Spec JsScope.Abs JsScope.HeapLemmas
  JsScope.SimUse JsScope.SimDeclare JsScope.SimDeclare3 JsScope.SimDeclare4 JsScope.Resolve1.

(* ---- a_find_reuse -------------------------------------------------------------------------------------- *)
Lemma a_find_reuse_some x l i j : a_find_reuse x l i = Some j -> (i <= j)%nat /\ nth_error l (j - i) = Some (UPend x).
Proof.
  revert i. induction l as [|[y|y fs|y] t IH]; intros i H; cbn in H; [discriminate| | |].
  - destruct (Z.eqb_spec y x) as [->|Hne].
    + inversion H; subst. split; [lia|]. replace (j - j)%nat with O by lia. reflexivity.
    + destruct (IH _ H) as [H1 H2]. split; [lia|]. replace (j - i)%nat with (S (j - S i)) by lia. exact H2.
  - destruct (IH _ H) as [H1 H2]. split; [lia|]. replace (j - i)%nat with (S (j - S i)) by lia. exact H2.
  - destruct (IH _ H) as [H1 H2]. split; [lia|]. replace (j - i)%nat with (S (j - S i)) by lia. exact H2.
Qed.

Lemma a_find_reuse_none x l i : a_find_reuse x l i = None -> ~ In (UPend x) l.
Proof.
  revert i. induction l as [|[y|y fs|y] t IH]; intros i H; cbn in H; [intros []| | |].
  - destruct (Z.eqb_spec y x) as [->|Hne]; [discriminate|]. intros [E|Hin]; [inversion E; contradiction|eapply IH; eassumption].
  - intros [E|Hin]; [discriminate|eapply IH; eassumption].
  - intros [E|Hin]; [discriminate|eapply IH; eassumption].
Qed.

Lemma pend_names_remove_at l i x :
  nth_error l i = Some (UPend x) -> NoDup (pend_names l) ->
  NoDup (pend_names (remove_at l i)) /\ ~ In x (pend_names (remove_at l i)).
Proof.
  revert i. induction l as [|[y|y fs|y] t IH]; intros i Hn Hnd; [destruct i; discriminate| | |].
  2:{ destruct i as [|i]; cbn in *; [discriminate|]. apply IH; assumption. }
  2:{ destruct i as [|i]; cbn in *; [discriminate|]. apply IH; assumption. }
  - destruct i as [|i]; cbn in *.
    + inversion Hn; subst. inversion Hnd; subst. split; assumption.
    + inversion Hnd as [|? ? Hnot Hnd']; subst. destruct (IH i Hn Hnd') as [H1 H2]. split.
      * constructor; [|exact H1]. intros Hin. apply Hnot. apply in_pend_names in Hin. apply in_pend_names.
        eapply remove_at_in. exact Hin.
      * intros [->|Hin]; [|contradiction]. apply Hnot. apply in_pend_names. eapply nth_error_In. exact Hn.
Qed.

Lemma arg_names_remove_at l i x : nth_error l i = Some (UPend x) -> arg_names (remove_at l i) = arg_names l.
Proof.
  revert i. induction l as [|[y|y fs|y] t IH]; intros i Hn; [destruct i; discriminate| | |]; destruct i as [|i]; cbn in *;
    try discriminate; try reflexivity; try (apply IH; exact Hn). f_equal. apply IH. exact Hn.
Qed.

Lemma firstn_remove_at_ge {A} (l : list A) n k : (n <= k)%nat -> firstn n (remove_at l k) = firstn n l.
Proof.
  revert n k. induction l as [|h t IH]; intros n k H; [destruct k; reflexivity|].
  destruct k as [|k]; [assert (n = O) by lia; subst; reflexivity|].
  destruct n as [|n]; [reflexivity|]. cbn. rewrite IH by lia. reflexivity.
Qed.

Lemma a_find_reuse_skipn x l n i :
  a_find_reuse x (skipn n l) O = Some i -> nth_error l (n + i) = Some (UPend x).
Proof.
  intros H. destruct (a_find_reuse_some _ _ _ _ H) as [_ H1]. replace (i - 0)%nat with i in H1 by lia. clear H.
  revert l H1. induction n as [|n IH]; intros l H1; [exact H1|]. destruct l as [|h t]; [destruct i; discriminate|]. apply IH. exact H1.
Qed.

Lemma in_firstn_skipn {A} (l : list A) n x : In x l -> In x (firstn n l) \/ In x (skipn n l).
Proof. intros H. rewrite <- (firstn_skipn n l) in H. apply in_app_iff in H. exact H. Qed.

(* ---- the target frame of a declaration ------------------------------------------------------------------ *)
Definition decl_frame (T : frame) (decl x : Z) : frame :=
  match a_find_decl T x with
  | Some _ => T
  | None =>
      let reuse := if decl =? ArgumentDecl then None else a_find_reuse x (skipn (fnarg T) (fund T)) O in
      let T1 := match reuse with Some i => set_fund T (remove_at (fund T) (fnarg T + i)) | None => T end in
      set_fdecl T1 (fdecl T1 ++ [(x, decl)])
  end.

Definition decl_log (T : frame) (decl x : Z) (log : list label) : list label :=
  match a_find_decl T x with
  | Some _ => log
  | None =>
      match (if decl =? ArgumentDecl then None else a_find_reuse x (skipn (fnarg T) (fund T)) O) with
      | Some _ => relabel (LPend (fid T) x) (LDecl (fid T) x) log
      | None => log
      end
  end.

Lemma for_check_notin T x : ~ In x (dnames T) -> existsb (fun e => fst e =? x) (firstn (fnfor T) (fdecl T)) = false.
Proof.
  intros Hn. destruct (existsb (fun e => fst e =? x) (firstn (fnfor T) (fdecl T))) eqn:E; [|reflexivity]. exfalso.
  apply existsb_exists in E. destruct E as ([y k] & Hin & Ey). cbn [fst] in Ey. apply Z.eqb_eq in Ey. subst y.
  apply Hn. unfold dnames. apply in_map_iff. exists (x, k). split; [reflexivity|].
  rewrite <- (firstn_skipn (fnfor T) (fdecl T)). apply in_app_iff. left. exact Hin.
Qed.

Lemma for_check_nofor T x : fnfor T = O -> existsb (fun e => fst e =? x) (firstn (fnfor T) (fdecl T)) = false.
Proof. intros ->. reflexivity. Qed.

Lemma a_declare_at_ok a pre T post decl x :
  existsb (fun e => fst e =? x) (firstn (fnfor T) (fdecl T)) = false ->
  (forall kk, In (x, kk) (fdecl T) -> kk <= ArgumentDecl /\ decl <= FunctionDecl) ->
  a_declare_at a pre T post decl x
  = ARun (mkA (map (add_pass x (fid T)) pre ++ decl_frame T decl x :: post) (anext a)
              (LDecl (fid T) x :: decl_log T decl x (alog a))).
Proof.
  intros Hfor Hk. unfold a_declare_at, decl_frame, decl_log. rewrite Hfor.
  destruct (a_find_decl T x) as [[y kk]|] eqn:E.
  - destruct (a_find_decl_some _ _ _ _ E) as [-> Hin]. destruct (Hk kk Hin) as [H1 H2].
    unfold ArgumentDecl, FunctionDecl, ExprDecl in *.
    replace (kk =? 7) with false by (symmetry; apply Z.eqb_neq; lia).
    replace (4 <? kk) with false by (symmetry; apply Z.ltb_ge; lia).
    replace (3 <? decl) with false by (symmetry; apply Z.ltb_ge; lia). reflexivity.
  - destruct (if decl =? ArgumentDecl then None else a_find_reuse x (skipn (fnarg T) (fund T)) 0); reflexivity.
Qed.

Lemma decl_frame_shape T decl x : fid (decl_frame T decl x) = fid T /\ fisfunc (decl_frame T decl x) = fisfunc T.
Proof.
  unfold decl_frame. destruct (a_find_decl T x); [split; reflexivity|].
  destruct (if decl =? ArgumentDecl then None else a_find_reuse x (skipn (fnarg T) (fund T)) 0); split; reflexivity.
Qed.

Lemma decl_frame_dnames T decl x :
  dnames (decl_frame T decl x) = if existsb (Z.eqb x) (dnames T) then dnames T else dnames T ++ [x].
Proof.
  unfold decl_frame. destruct (a_find_decl T x) as [[y k]|] eqn:E.
  - destruct (a_find_decl_some _ _ _ _ E) as [-> Hin].
    replace (existsb (Z.eqb x) (dnames T)) with true; [reflexivity|]. symmetry. apply mem_in.
    unfold dnames. apply in_map_iff. exists (x, k). split; [reflexivity|exact Hin].
  - pose proof (a_find_decl_none _ _ E) as Hn. apply mem_not_in in Hn. unfold mem in Hn. rewrite Hn.
    destruct (if decl =? ArgumentDecl then None else a_find_reuse x (skipn (fnarg T) (fund T)) 0);
      unfold dnames; cbn [fdecl set_fdecl set_fund]; rewrite map_app; reflexivity.
Qed.

Lemma decl_frame_in T decl x : In x (dnames (decl_frame T decl x)).
Proof.
  rewrite decl_frame_dnames. destruct (existsb (Z.eqb x) (dnames T)) eqn:E.
  - apply mem_in. exact E.
  - apply in_app_iff. right. left. reflexivity.
Qed.

Lemma decl_frame_mono T decl x y : In y (dnames T) -> In y (dnames (decl_frame T decl x)).
Proof.
  intros H. rewrite decl_frame_dnames. destruct (existsb (Z.eqb x) (dnames T)); [exact H|]. apply in_app_iff. left. exact H.
Qed.

Lemma decl_frame_new T decl x y : In y (dnames (decl_frame T decl x)) -> In y (dnames T) \/ y = x.
Proof.
  rewrite decl_frame_dnames. destruct (existsb (Z.eqb x) (dnames T)); [left; assumption|].
  intros H. apply in_app_iff in H. destruct H as [H|[<-|[]]]; [left; exact H|right; reflexivity].
Qed.

Lemma decl_frame_fund_in T decl x e : In e (fund (decl_frame T decl x)) -> In e (fund T).
Proof.
  unfold decl_frame. destruct (a_find_decl T x); [tauto|].
  destruct (if decl =? ArgumentDecl then None else a_find_reuse x (skipn (fnarg T) (fund T)) 0);
    cbn [fund set_fdecl set_fund]; [apply remove_at_in|tauto].
Qed.

(* the target frame stays well-formed *)
Lemma decl_frame_ok T prT below decl x :
  frame_ok T prT below ->
  In x (pnames prT) -> (ArgumentDecl < decl -> In x (plex prT)) ->
  (decl = ArgumentDecl -> ~ In (UPend x) (fund T)) ->
  frame_ok (decl_frame T decl x) prT below.
Proof.
  intros [K1 K2 K3 K4 K5 K6 K7 K8 K9 K10 K11 K12] Hp Hk Harg.
  unfold decl_frame. destruct (a_find_decl T x) as [[y kk]|] eqn:E; [constructor; assumption|].
  pose proof (a_find_decl_none _ _ E) as Hnot. destruct K7 as [K7a K7b].
  assert (Hcases :
    (exists i, (if decl =? ArgumentDecl then None else a_find_reuse x (skipn (fnarg T) (fund T)) 0) = Some i /\
               nth_error (fund T) (fnarg T + i) = Some (UPend x))
    \/ ((if decl =? ArgumentDecl then None else a_find_reuse x (skipn (fnarg T) (fund T)) 0) = None /\ ~ In (UPend x) (fund T))).
  { destruct (Z.eqb_spec decl ArgumentDecl) as [Ea|Ea]; [right; split; [reflexivity|apply Harg; exact Ea]|].
    destruct (a_find_reuse x (skipn (fnarg T) (fund T)) 0) as [i|] eqn:Er.
    - left. exists i. split; [reflexivity|]. apply a_find_reuse_skipn. exact Er.
    - right. split; [reflexivity|]. intros Hin. destruct (in_firstn_skipn _ (fnarg T) _ Hin) as [H|H].
      + exact (K7b x H).
      + apply (a_find_reuse_none _ _ _ Er). exact H. }
  destruct Hcases as [(i & -> & Hnth)|[-> Hnone]].
  - destruct (pend_names_remove_at _ _ _ Hnth K6) as [Hnd Hnx].
    assert (Hlt : (fnarg T + i < length (fund T))%nat) by (apply nth_error_Some; rewrite Hnth; discriminate).
    constructor; cbn [fdecl fund fnarg fnfor fid fisfunc set_fdecl set_fund].
    + intros y k Hy. apply in_app_last in Hy. destruct Hy as [Hy|Hy]; [apply K1; exact Hy|]. inversion Hy; subst. split; assumption.
    + exact K2.
    + intros y Hy. unfold dnames. cbn [fdecl set_fdecl set_fund]. rewrite map_app. cbn [map fst]. intros Hin. apply in_app_last in Hin.
      destruct Hin as [Hin| ->].
      * apply (K3 y); [eapply remove_at_in; exact Hy|exact Hin].
      * apply Hnx. apply in_pend_names. exact Hy.
    + intros y fs Hy. apply remove_at_in in Hy. destruct (K4 y fs Hy) as [H1 H2]. split; [exact H1|].
      apply (pass_ok_shape y fs ((T, prT) :: below)); [reflexivity|exact H2].
    + unfold dnames. cbn [fdecl set_fdecl set_fund]. rewrite map_app. cbn [map fst]. apply nodup_app_last; assumption.
    + exact Hnd.
    + split.
      * pose proof (length_remove_at (fund T) (fnarg T + i) Hlt). lia.
      * rewrite firstn_remove_at_ge by lia. exact K7b.
    + intros y Hy. rewrite firstn_remove_at_ge by lia. apply K8. eapply remove_at_in. exact Hy.
    + rewrite (arg_names_remove_at _ _ _ Hnth). exact K9.
    + exact K10.
    + exact K11.
    + exact K12.
  - constructor; cbn [fdecl fund fnarg fnfor fid fisfunc set_fdecl set_fund].
    + intros y k Hy. apply in_app_last in Hy. destruct Hy as [Hy|Hy]; [apply K1; exact Hy|]. inversion Hy; subst. split; assumption.
    + exact K2.
    + intros y Hy. unfold dnames. cbn [fdecl set_fdecl set_fund]. rewrite map_app. cbn [map fst]. intros Hin. apply in_app_last in Hin.
      destruct Hin as [Hin| ->]; [apply (K3 y); assumption|contradiction].
    + intros y fs Hy. destruct (K4 y fs Hy) as [H1 H2]. split; [exact H1|].
      apply (pass_ok_shape y fs ((T, prT) :: below)); [reflexivity|exact H2].
    + unfold dnames. cbn [fdecl set_fdecl set_fund]. rewrite map_app. cbn [map fst]. apply nodup_app_last; assumption.
    + exact K6.
    + split; assumption.
    + exact K8.
    + exact K9.
    + exact K10.
    + exact K11.
    + exact K12.
Qed.

(* the log after the declaration still refers to unresolved entries that exist, and means the same *)
Lemma decl_log_final T prT below decl x e log :
  frame_ok T prT below -> In x (pnames prT) ->
  drop_to (fid T) e = (fid T, false, pnames prT) :: env_of below ->
  map (final e) (decl_log T decl x log) = map (final e) log.
Proof.
  intros K Hp Hdrop. unfold decl_log. destruct (a_find_decl T x); [reflexivity|].
  destruct (if decl =? ArgumentDecl then None else a_find_reuse x (skipn (fnarg T) (fund T)) 0); [|reflexivity].
  apply final_relabel. cbn [final]. rewrite Hdrop. symmetry. apply lookup_head. exact Hp.
Qed.

(* the frozen uses of the parameter list are not touched by a declaration *)
Lemma decl_log_arg T decl x log s y :
  In (LArg s y) (decl_log T decl x log) ->
  In (LArg s y) log /\ (In (UArg y) (fund T) -> In (UArg y) (fund (decl_frame T decl x))).
Proof.
  unfold decl_log, decl_frame. destruct (a_find_decl T x) as [[z k]|] eqn:E; [tauto|].
  destruct (if decl =? ArgumentDecl then None else a_find_reuse x (skipn (fnarg T) (fund T)) 0) as [i|] eqn:Er.
  - intros Hin. unfold relabel in Hin. apply in_map_iff in Hin. destruct Hin as (l & El & Hl).
    destruct (label_eqb l (LPend (fid T) x)) eqn:Eq; [discriminate|]. subst l. split; [exact Hl|].
    intros Hu. cbn [fund set_fdecl set_fund]. apply in_remove_at; [|exact Hu].
    destruct (Z.eqb decl ArgumentDecl); [discriminate|].
    rewrite (a_find_reuse_skipn _ _ _ _ Er). discriminate.
  - intros Hin. split; [exact Hin|]. cbn [fund set_fdecl]. tauto.
Qed.

Lemma decl_log_pend T prT below decl x log s y :
  frame_ok T prT below ->
  In (LPend s y) (decl_log T decl x log) ->
  In (LPend s y) log /\ (s = fid T -> In (UPend y) (fund T) -> In (UPend y) (fund (decl_frame T decl x))).
Proof.
  intros K. unfold decl_log, decl_frame. destruct (a_find_decl T x) as [[z k]|] eqn:E; [tauto|].
  destruct (if decl =? ArgumentDecl then None else a_find_reuse x (skipn (fnarg T) (fund T)) 0) as [i|] eqn:Er.
  - intros Hin. unfold relabel in Hin. apply in_map_iff in Hin. destruct Hin as (l & El & Hl).
    destruct (label_eqb l (LPend (fid T) x)) eqn:Eq; [discriminate|]. subst l. split; [exact Hl|].
    intros -> Hu. cbn [fund set_fdecl set_fund]. apply in_remove_at; [|exact Hu].
    destruct (Z.eqb decl ArgumentDecl); [discriminate|].
    rewrite (a_find_reuse_skipn _ _ _ _ Er).
    intros Ex. inversion Ex; subst. rewrite label_eqb_refl in Eq. discriminate.
  - intros Hin. split; [exact Hin|]. intros _ Hu. exact Hu.
Qed.
