(* JsScope/SimDeclare4.v — Declare: the walk to the function scope and the assembled simulation. *)
From Coq Require Import ZifyBool.
From Verif Require Import Common.Base Common.Tactics JsScope.Model JsScope.Abs JsScope.HeapLemmas
  JsScope.SimDefs JsScope.SimUse JsScope.SimDeclare JsScope.SimDeclare2 JsScope.SimDeclare3.

(* ---- the two halves of Declare and of a_declare ------------------------------------------------------ *)
Definition declare_at (st : state) (s0 s : nat) (decl name : Z) : res (state * option nat) :=
  sc <~ sget st s ;;
  match find_declared st sc name true with
  | Some v =>
      let x := vget st v in
      if ((ArgumentDecl <? vdecl x) || (FunctionDecl <? decl)) && negb (vdecl x =? ExprDecl)
      then Ok (st, None)
      else
        let x1 := if vdecl x =? ExprDecl then set_decl x decl else x in
        let x2 := set_uses x1 (u16 (vuses x1 + 1)) in
        let st1 := vset st v x2 in
        st2 <~ add_undeclared_chain (fuel_of st) st1 (Some s0) s v ;;
        Ok (st2, Some v)
  | None =>
      reuse <~ (if decl =? ArgumentDecl then Ok None
                else if len (sundeclared sc) <? narguses sc then Panic
                else Ok (find_reuse st name (skipn (Z.to_nat (narguses sc)) (sundeclared sc)) O)) ;;
      let '(st1, v) :=
        match reuse with
        | Some (i, uv) =>
            let sc1 := set_undeclared sc (remove_at (sundeclared sc) (Z.to_nat (narguses sc) + i)) in
            let st' := sset st s sc1 in
            (vset st' uv (set_decl (vget st' uv) decl), uv)
        | None => valloc st (mkVar name None 0 decl)
        end in
      let x := vget st1 v in
      let st2 := vset st1 v (set_uses x (u16 (vuses x + 1))) in
      sc2 <~ sget st2 s ;;
      let st3 := sset st2 s (set_declared sc2 (sdeclared sc2 ++ [v])) in
      st4 <~ add_undeclared_chain (fuel_of st) st3 (Some s0) s v ;;
      Ok (st4, Some v)
  end.

Lemma declare_unfold st s0 decl name :
  declare st s0 decl name =
  (tgt <~ (if (decl =? VariableDecl) || (decl =? FunctionDecl)
           then declare_walk (fuel_of st) st s0 decl name
           else (_ <~ sget st s0 ;; Ok (Some s0))) ;;
   match tgt with
   | None => Ok (st, None)
   | Some s => declare_at st s0 s decl name
   end).
Proof. reflexivity. Qed.

Definition a_declare_at (a : astate) (pre : list frame) (tgt : frame) (post : list frame) (decl x : Z) : aout :=
  if existsb (fun e => fst e =? x) (firstn (fnfor tgt) (fdecl tgt)) then AStuck else
  match a_find_decl tgt x with
  | Some (_, kk) =>
      if kk =? ExprDecl then AStuck
      else if (ArgumentDecl <? kk) || (FunctionDecl <? decl) then ARej
      else
        ARun (mkA (map (add_pass x (fid tgt)) pre ++ tgt :: post) (anext a)
                  (LDecl (fid tgt) x :: alog a))
  | None =>
      let reuse :=
        if decl =? ArgumentDecl then None
        else a_find_reuse x (skipn (fnarg tgt) (fund tgt)) O in
      let '(tgt1, log1) :=
        match reuse with
        | Some i => (set_fund tgt (remove_at (fund tgt) (fnarg tgt + i)),
                     relabel (LPend (fid tgt) x) (LDecl (fid tgt) x) (alog a))
        | None => (tgt, alog a)
        end in
      let tgt2 := set_fdecl tgt1 (fdecl tgt1 ++ [(x, decl)]) in
      ARun (mkA (map (add_pass x (fid tgt)) pre ++ tgt2 :: post) (anext a)
                (LDecl (fid tgt) x :: log1))
  end.

Lemma a_declare_unfold a decl x :
  a_declare a decl x =
  match (if (decl =? VariableDecl) || (decl =? FunctionDecl) then a_walk (astack a) decl x
         else match astack a with [] => None | fr :: rest => Some (Some ([], fr, rest)) end) with
  | None => AStuck
  | Some None => ARej
  | Some (Some (pre, tgt, post)) => a_declare_at a pre tgt post decl x
  end.
Proof. reflexivity. Qed.

(* ---- the walk ------------------------------------------------------------------------------------------ *)
Lemma walk_sim st home decl x :
  forall stk fuel,
    stack_ok st stk -> (length stk <= fuel)%nat ->
    match a_walk (map (frame_of st home) stk) decl x with
    | None => True
    | Some None => declare_walk fuel st (hd O stk) decl x = Ok None
    | Some (Some (pre, tgt, post)) =>
        exists spre t spost, stk = spre ++ t :: spost /\ pre = map (frame_of st home) spre /\
          tgt = frame_of st home t /\ post = map (frame_of st home) spost /\
          declare_walk fuel st (hd O stk) decl x = Ok (Some t)
    end.
Proof.
  induction stk as [|s rest IH]; intros fuel Hstack Hfuel; [exact I|].
  destruct fuel as [|f]; [cbn in Hfuel; lia|].
  assert (Hsn : (s < nscopes st)%nat) by (apply Hstack).
  cbn [map a_walk hd declare_walk]. rewrite (sget_valid st s Hsn). cbn [rbind].
  change (fisfunc (frame_of st home s)) with (opt_nat_eqb (sfunc (sc_of st s)) s).
  destruct (opt_nat_eqb (sfunc (sc_of st s)) s) eqn:Ef.
  - exists [], s, rest. repeat split; reflexivity.
  - rewrite a_find_decl_frame. rewrite (find_declared_noskip st (sc_of st s) x).
    destruct (find (fun v => vname (vget st v) =? x) (rev (sdeclared (sc_of st s)))) as [v|] eqn:Efind; cbn [option_map nk].
    + destruct (negb (vdecl (vget st v) =? decl) && negb (vdecl (vget st v) =? CatchDecl)) eqn:Ec.
      * reflexivity.
      * destruct rest as [|q rest'].
        -- cbn. exact I.
        -- destruct Hstack as (_ & Hpar & _ & Hrest). rewrite Hpar.
           specialize (IH f Hrest ltac:(cbn in *; lia)).
           cbn [hd] in IH.
           destruct (a_walk (map (frame_of st home) (q :: rest')) decl x) as [[[[pre tgt] post]|]|].
           ++ destruct IH as (spre & t & spost & E1 & E2 & E3 & E4 & E5).
              exists (s :: spre), t, spost. rewrite E1, E2, E3, E4. repeat split; try reflexivity. exact E5.
           ++ exact IH.
           ++ exact I.
    + destruct rest as [|q rest'].
      * cbn. exact I.
      * destruct Hstack as (_ & Hpar & _ & Hrest). rewrite Hpar.
        specialize (IH f Hrest ltac:(cbn in *; lia)).
        cbn [hd] in IH.
        destruct (a_walk (map (frame_of st home) (q :: rest')) decl x) as [[[[pre tgt] post]|]|].
        -- destruct IH as (spre & t & spost & E1 & E2 & E3 & E4 & E5).
           exists (s :: spre), t, spost. rewrite E1, E2, E3, E4. repeat split; try reflexivity. exact E5.
        -- exact IH.
        -- exact I.
Qed.

(* ---- reuse of an unresolved use ------------------------------------------------------------------------ *)
Lemma find_reuse_sim st home x :
  forall l i, (forall v, In v l -> 1 <= vuses (vget st v)) ->
  (forall v, In v l -> vd st v = 0 -> argp st home v = false) ->
  match find_reuse st x l i with
  | Some (j, uv) =>
      a_find_reuse x (map (uent_of st home) l) i = Some j /\ (i <= j)%nat /\
      nth_error l (j - i) = Some uv /\ vd st uv = 0 /\ vn st uv = x
  | None => a_find_reuse x (map (uent_of st home) l) i = None
  end.
Proof.
  induction l as [|v t IH]; intros i Hu Ha; [reflexivity|].
  cbn [find_reuse map a_find_reuse].
  assert (Huv : 1 <= vuses (vget st v)) by (apply Hu; left; reflexivity).
  replace (0 <? vuses (vget st v)) with true by (symmetry; apply Z.ltb_lt; lia). cbn [andb].
  unfold NoDecl.
  assert (Eu : uent_of st home v
               = if vdecl (vget st v) =? 0 then UPend (vname (vget st v)) else UPass (vname (vget st v)) (home v)).
  { unfold uent_of. destruct (Z.eqb_spec (vdecl (vget st v)) 0) as [E|E]; [|reflexivity].
    rewrite (Ha v (or_introl eq_refl) E). reflexivity. }
  rewrite Eu. clear Eu.
  destruct (Z.eqb_spec (vdecl (vget st v)) 0) as [Ed|Ed]; cbn [andb].
  - destruct (Z.eqb_spec (vname (vget st v)) x) as [En|En].
    + split; [reflexivity|]. split; [lia|]. split; [replace (i - i)%nat with O by lia; reflexivity|].
      split; [exact Ed|exact En].
    + specialize (IH (S i) (fun w Hw => Hu w (or_intror Hw)) (fun w Hw => Ha w (or_intror Hw))).
      destruct (find_reuse st x t (S i)) as [[j uv]|].
      * destruct IH as (H1 & H2 & H3 & H4 & H5). split; [exact H1|]. split; [lia|].
        split; [replace (j - i)%nat with (S (j - S i)) by lia; exact H3|]. split; assumption.
      * exact IH.
  - specialize (IH (S i) (fun w Hw => Hu w (or_intror Hw)) (fun w Hw => Ha w (or_intror Hw))).
    destruct (find_reuse st x t (S i)) as [[j uv]|].
    + destruct IH as (H1 & H2 & H3 & H4 & H5). split; [exact H1|]. split; [lia|].
      split; [replace (j - i)%nat with (S (j - S i)) by lia; exact H3|]. split; assumption.
    + exact IH.
Qed.

Lemma nth_error_skipn {A} (l : list A) n i : nth_error (skipn n l) i = nth_error l (n + i).
Proof.
  revert l. induction n as [|n IH]; intros l; [reflexivity|]. destruct l as [|h t]; [destruct i; reflexivity|]. apply IH.
Qed.

Lemma hd_error_app_cons {A} (l : list A) a r : hd_error (l ++ [a]) = hd_error (l ++ a :: r).
Proof. destruct l; reflexivity. Qed.

Lemma nodup_app_cons_mid {A} (l : list A) a r :
  NoDup (l ++ a :: r) -> NoDup (l ++ [a]) /\ ~ In a l /\ (forall q, In q r -> ~ In q l /\ q <> a).
Proof.
  induction l as [|h l' IH]; intros H.
  - cbn in *. inversion H; subst. split; [constructor; [intros []|constructor]|]. split; [intros []|].
    intros q Hq. split; [intros []|]. intros ->. contradiction.
  - cbn in H. inversion H as [|? ? Hnot Hnd]; subst. destruct (IH Hnd) as (H1 & H2 & H3). split; [|split].
    + cbn. constructor; [|exact H1]. intros Hin. apply Hnot. apply in_app_iff. apply in_app_iff in Hin.
      destruct Hin as [Hin|[<-|[]]]; [left; exact Hin|right; left; reflexivity].
    + intros [->|Hin]; [apply Hnot; apply in_app_iff; right; left; reflexivity|contradiction].
    + intros q Hq. destruct (H3 q Hq) as [Hq1 Hq2]. split; [|exact Hq2].
      intros [->|Hin]; [apply Hnot; apply in_app_iff; right; right; exact Hq|contradiction].
Qed.

(* ---- finishing: the chain, then the abstraction of the result -------------------------------------------- *)
Lemma finish_declare st home stk c x spre t spost stM logM homeM v tgt' labs :
  InvS stM logM stk homeM no_extra -> InvU stM logM ->
  stack_ok st stk -> stk = spre ++ t :: spost -> hd_error stk = Some c ->
  (v < nvars stM)%nat -> is_root stM v -> vd stM v <> 0 -> homeM v = t -> vn stM v = x ->
  nscopes stM = nscopes st ->
  (forall q, In q stk -> q <> t -> frame_of stM homeM q = frame_of st home q) ->
  frame_of stM homeM t = tgt' ->
  map (lab_of stM homeM) logM = labs ->
  exists st',
    add_undeclared_chain (fuel_of st) stM (Some c) t v = Ok st' /\
    InvS st' logM stk homeM no_extra /\ InvU st' logM /\
    abs st' logM stk homeM
    = mkA (map (add_pass x t) (map (frame_of st home) spre) ++ tgt' :: map (frame_of st home) spost)
          (nscopes st) labs.
Proof.
  intros IM UM Hstack Hsplit Hhd Hv Hr Hd Hh Hn Hns Hfo Hft Hlabs.
  pose proof (stack_ok_nodup _ _ Hstack) as Hnd. rewrite Hsplit in Hnd.
  destruct (nodup_app_cons_mid _ _ _ Hnd) as (Hnd1 & Htnot & Hpost).
  assert (HstackM : stack_ok stM (spre ++ t :: spost)) by (rewrite <- Hsplit; apply IM).
  assert (Hin : forall s, In s spre -> In s stk) by (intros s Hs; rewrite Hsplit; apply in_app_iff; left; exact Hs).
  assert (Hfuel : (length spre < fuel_of st)%nat).
  { pose proof (stack_ok_length _ _ Hstack) as Hl. rewrite Hsplit, app_length in Hl. unfold fuel_of, nscopes in *. cbn in Hl. lia. }
  destruct (chain_sim logM stk homeM v x t spost spre stM (fuel_of st) IM UM HstackM Hin Hnd1 Hv Hr Hd Hh Hn Hfuel)
    as (st' & Hrun & I' & U' & En & Hfr & Hoth & Hlab & _ & _).
  exists st'. split.
  { rewrite <- Hrun. f_equal. rewrite (hd_error_app_cons spre t spost), <- Hsplit. symmetry. exact Hhd. }
  split; [exact I'|]. split; [exact U'|].
  unfold abs. f_equal.
  - rewrite Hsplit, map_app. cbn [map]. f_equal; [|f_equal].
    + rewrite Hfr. f_equal. apply map_ext_in. intros q Hq. apply Hfo.
      * apply Hin. exact Hq.
      * intros ->. contradiction.
    + rewrite (Hoth t Htnot). exact Hft.
    + apply map_ext_in. intros q Hq. destruct (Hpost q Hq) as [Hq1 Hq2]. rewrite (Hoth q Hq1). apply Hfo; [|exact Hq2].
      rewrite Hsplit. apply in_app_iff. right. right. exact Hq.
  - lia.
  - rewrite <- Hlabs. apply map_ext. intros w. apply Hlab.
Qed.
