(* JsScope/Resolve4.v — layer 2, part 4: closing a scope on the label machine. *)
From Coq Require Import ZifyBool.
From Verif Require Import Common.Base Common.Tactics JsScope.Model JsScope.Spec JsScope.Abs JsScope.HeapLemmas
  JsScope.SimUse JsScope.SimDeclare JsScope.SimDeclare3 JsScope.Resolve1 JsScope.Resolve2 JsScope.Resolve3.

Lemma in_relabel l from to lg : In l (relabel from to lg) -> (l = to /\ In from lg) \/ (In l lg /\ l <> from).
Proof.
  unfold relabel. intros H. apply in_map_iff in H. destruct H as (l0 & E & Hl0).
  destruct (label_eqb l0 from) eqn:Eq.
  - apply label_eqb_eq in Eq. subst. left. split; [reflexivity|exact Hl0].
  - subst l0. right. split; [exact Hl0|]. intros ->. rewrite label_eqb_refl in Eq. discriminate.
Qed.

Section Hoist.
  Variables (fr : frame) (pr : promise) (P : frame) (prP : promise) (rest : list zframe).
  Let e1 := env_of ((fr, pr) :: (P, prP) :: rest).
  Hypothesis HPfr : (fid P < fid fr)%nat.
  Hypothesis Hrestfr : forall g, In g rest -> (fid (fst g) < fid fr)%nat.

  Lemma hoist_ok :
    forall l Pc lg,
      frame_ok Pc prP rest -> fid Pc = fid P -> fisfunc Pc = fisfunc P -> fdecl Pc = fdecl P ->
      (forall y, In (UPend y) l -> ~ In y (pnames pr)) -> NoDup (pend_names l) ->
      (forall s y, In (LPend s y) lg ->
         (s = fid fr /\ In (UPend y) l) \/
         (exists fp, In fp ((Pc, prP) :: rest) /\ fid (fst fp) = s /\ In (UPend y) (fund (fst fp)))) ->
      frame_ok (fst (a_hoist (fid fr) l Pc lg)) prP rest /\
      fid (fst (a_hoist (fid fr) l Pc lg)) = fid P /\
      fisfunc (fst (a_hoist (fid fr) l Pc lg)) = fisfunc P /\
      fdecl (fst (a_hoist (fid fr) l Pc lg)) = fdecl P /\
      (forall e, In e (fund Pc) -> In e (fund (fst (a_hoist (fid fr) l Pc lg)))) /\
      (forall y, In (UPend y) (fund (fst (a_hoist (fid fr) l Pc lg))) -> In (UPend y) (fund Pc) \/ In (UPend y) l) /\
      (forall s y, In (LPend s y) (snd (a_hoist (fid fr) l Pc lg)) ->
         exists fp, In fp ((fst (a_hoist (fid fr) l Pc lg), prP) :: rest) /\ fid (fst fp) = s /\ In (UPend y) (fund (fst fp))) /\
      map (final e1) (snd (a_hoist (fid fr) l Pc lg)) = map (final e1) lg.
  Proof.
    induction l as [|[x|x fs] l' IH]; intros Pc lg K Hfid Hisf Hfd Hnot Hnd Hlog.
    - cbn [a_hoist fst snd]. split; [exact K|]. split; [exact Hfid|]. split; [exact Hisf|]. split; [exact Hfd|].
      split; [tauto|]. split; [intros y Hy; left; exact Hy|]. split; [|reflexivity].
      intros s y H. destruct (Hlog s y H) as [[_ []]|Hex]. exact Hex.
    - (* an unresolved use of the closing scope *)
      assert (Hx : ~ In x (pnames pr)) by (apply Hnot; left; reflexivity).
      assert (Hnot' : forall y, In (UPend y) l' -> ~ In y (pnames pr)) by (intros y Hy; apply Hnot; right; exact Hy).
      cbn [pend_names] in Hnd. inversion Hnd as [|? ? Hxl Hnd']; subst.
      assert (Hfinal_from : final e1 (LPend (fid fr) x) = lookup (env_of ((P, prP) :: rest)) x).
      { unfold e1. cbn [final env_of map fst snd]. rewrite drop_to_head. apply lookup_skip. exact Hx. }
      assert (Hfinal_P : final e1 (LPend (fid Pc) x) = lookup (env_of ((P, prP) :: rest)) x).
      { unfold e1. cbn [final env_of map fst snd]. rewrite Hfid. rewrite drop_to_skip by lia. rewrite drop_to_head. reflexivity. }
      (* what remains of the log invariant after the entries of x have been relabelled into the parent *)
      assert (Hstep : forall to Pn,
        (forall e, In e (fund Pc) -> In e (fund Pn)) -> fid Pn = fid Pc ->
        (forall s y, to = LPend s y -> s = fid Pn /\ In (UPend y) (fund Pn)) ->
        forall s y, In (LPend s y) (relabel (LPend (fid fr) x) to lg) ->
          (s = fid fr /\ In (UPend y) l') \/
          (exists fp, In fp ((Pn, prP) :: rest) /\ fid (fst fp) = s /\ In (UPend y) (fund (fst fp)))).
      { intros to Pn Hsub HfPn Hto s y Hin. apply in_relabel in Hin. destruct Hin as [[E _]|[Hin Hne]].
        - destruct (Hto s y (eq_sym E)) as [H1 H2]. right. exists (Pn, prP). split; [left; reflexivity|]. split; [symmetry; exact H1|exact H2].
        - destruct (Hlog s y Hin) as [[Hs [Hy|Hy]]|(fp & Hfp & Hs & Hu)].
          + exfalso. apply Hne. inversion Hy; subst. reflexivity.
          + left. split; assumption.
          + right. destruct Hfp as [<-|Hfp].
            * exists (Pn, prP). split; [left; reflexivity|]. cbn [fst] in *. split; [congruence|apply Hsub; exact Hu].
            * exists fp. split; [right; exact Hfp|]. split; assumption. }
      cbn [a_hoist].
      destruct (a_find_decl Pc x) as [[y k]|] eqn:Ed.
      + (* declared in the parent *)
        destruct (a_find_decl_some _ _ _ _ Ed) as [-> Hin]. destruct (K_decl _ _ _ K x k Hin) as [Hp _].
        destruct (IH Pc (relabel (LPend (fid fr) x) (LDecl (fid Pc) x) lg) K Hfid Hisf Hfd Hnot' Hnd') as (H1 & H2 & H3 & H4 & H5 & H5b & H6 & H7).
        { apply (Hstep (LDecl (fid Pc) x) Pc); [tauto|reflexivity|discriminate]. }
        split; [exact H1|]. split; [exact H2|]. split; [exact H3|]. split; [exact H4|]. split; [exact H5|].
        split; [intros y0 Hy0; destruct (H5b y0 Hy0) as [G|G]; [left; exact G|right; right; exact G]|]. split; [exact H6|].
        rewrite H7. apply final_relabel. rewrite Hfinal_from. cbn [final]. rewrite Hfid. symmetry. apply lookup_head. exact Hp.
      + destruct (a_find_und Pc x) as [[y|y fs]|] eqn:Eu.
        * (* used before in the parent *)
          destruct (a_find_und_some _ _ _ Eu) as [Hin Hn]. cbn in Hn. subst y.
          destruct (IH Pc (relabel (LPend (fid fr) x) (LPend (fid Pc) x) lg) K Hfid Hisf Hfd Hnot' Hnd') as (H1 & H2 & H3 & H4 & H5 & H5b & H6 & H7).
          { apply (Hstep (LPend (fid Pc) x) Pc); [tauto|reflexivity|]. intros s y E. inversion E; subst. split; [reflexivity|exact Hin]. }
          split; [exact H1|]. split; [exact H2|]. split; [exact H3|]. split; [exact H4|]. split; [exact H5|].
          split; [intros y0 Hy0; destruct (H5b y0 Hy0) as [G|G]; [left; exact G|right; right; exact G]|]. split; [exact H6|].
          rewrite H7. apply final_relabel. rewrite Hfinal_from, Hfinal_P. reflexivity.
        * (* a declaration passed through the parent *)
          destruct (a_find_und_some _ _ _ Eu) as [Hin Hn]. cbn in Hn. subst y.
          destruct (K_pass _ _ _ K x fs Hin) as [_ Hp].
          destruct (IH Pc (relabel (LPend (fid fr) x) (LDecl fs x) lg) K Hfid Hisf Hfd Hnot' Hnd') as (H1 & H2 & H3 & H4 & H5 & H5b & H6 & H7).
          { apply (Hstep (LDecl fs x) Pc); [tauto|reflexivity|discriminate]. }
          split; [exact H1|]. split; [exact H2|]. split; [exact H3|]. split; [exact H4|]. split; [exact H5|].
          split; [intros y0 Hy0; destruct (H5b y0 Hy0) as [G|G]; [left; exact G|right; right; exact G]|]. split; [exact H6|].
          rewrite H7. apply final_relabel. rewrite Hfinal_from. cbn [final]. symmetry.
          rewrite <- (lookup_pass x fs ((Pc, prP) :: rest) Hp). apply f_equal2; [|reflexivity].
          cbn [env_of map fst snd]. rewrite Hfid. reflexivity.
        * (* moved to the parent *)
          set (Pn := set_fund Pc (fund Pc ++ [UPend x])).
          assert (Kn : frame_ok Pn prP rest).
          { destruct K as [K1 K2 K3 K4 K5 K6 K7 K8 K9]. constructor; try assumption.
            - intros y Hy. cbn [fund Pn set_fund] in Hy. apply in_app_last in Hy. destruct Hy as [Hy|Hy]; [apply K3; exact Hy|].
              inversion Hy; subst. apply a_find_decl_none. exact Ed.
            - intros y fs Hy. cbn [fund Pn set_fund] in Hy. apply in_app_last in Hy. destruct Hy as [Hy|Hy]; [|discriminate]. exact (K4 y fs Hy).
            - cbn [fund Pn set_fund]. rewrite pend_names_app. cbn. apply nodup_app_last; [exact K6|].
              intros Hin. apply in_pend_names in Hin. apply (a_find_und_none _ _ Eu _ Hin). reflexivity.
            - cbn [fund fnarg Pn set_fund]. destruct K7 as [K7a K7b]. split; [rewrite app_length; lia|].
              rewrite firstn_app. replace (fnarg Pc - length (fund Pc))%nat with O by lia. cbn [firstn]. rewrite app_nil_r. exact K7b. }
          destruct (IH Pn (relabel (LPend (fid fr) x) (LPend (fid Pc) x) lg) Kn Hfid Hisf Hfd Hnot' Hnd') as (H1 & H2 & H3 & H4 & H5 & H5b & H6 & H7).
          { apply (Hstep (LPend (fid Pc) x) Pn).
            - intros e He. cbn. apply in_app_last. left. exact He.
            - reflexivity.
            - intros s y E. inversion E; subst. split; [reflexivity|]. cbn. apply in_app_last. right. reflexivity. }
          split; [exact H1|]. split; [exact H2|]. split; [exact H3|]. split; [exact H4|].
          split; [intros e He; apply H5; cbn; apply in_app_last; left; exact He|].
          split.
          { intros y0 Hy0. destruct (H5b y0 Hy0) as [G|G]; [|right; right; exact G].
            cbn [fund Pn set_fund] in G. apply in_app_last in G. destruct G as [G|G]; [left; exact G|right; left; symmetry; exact G]. }
          split; [exact H6|].
          rewrite H7. apply final_relabel. rewrite Hfinal_from, Hfinal_P. reflexivity.
    - (* a declaration passed through the closing scope *)
      cbn [a_hoist].
      destruct (IH Pc lg K Hfid Hisf Hfd) as (H1 & H2 & H3 & H4 & H5 & H5b & H6 & H7); try assumption.
      + intros y Hy. apply Hnot. right. exact Hy.
      + intros s y H. destruct (Hlog s y H) as [[Hs [Hy|Hy]]|Hex]; [discriminate|left; split; assumption|right; exact Hex].
      + split; [exact H1|]. split; [exact H2|]. split; [exact H3|]. split; [exact H4|]. split; [exact H5|].
        split; [intros y0 Hy0; destruct (H5b y0 Hy0) as [G|G]; [left; exact G|right; right; exact G]|]. split; assumption.
  Qed.
End Hoist.

(* exit of the top scope once everything it promised has been declared *)
Lemma L_exit a fr pr P prP rest :
  AInv a ((fr, pr) :: (P, prP) :: rest) ->
  (forall y, In y (pnames pr) -> In y (dnames fr)) ->
  exists a' P',
    a_exit a = ARun a' /\ AInv a' ((P', prP) :: rest) /\
    fid P' = fid P /\ fisfunc P' = fisfunc P /\ fdecl P' = fdecl P /\
    (forall e, In e (fund P) -> In e (fund P')) /\
    (forall y, In (UPend y) (fund P') -> In (UPend y) (fund P) \/ In (UPend y) (fund fr)) /\
    anext a' = anext a /\
    map (final (env_of ((P, prP) :: rest))) (alog a') = map (final (env_of ((fr, pr) :: (P, prP) :: rest))) (alog a).
Proof.
  intros [As Af An Al] Hfull. cbn [map fst] in As. cbn [frames_ok] in Af. destruct Af as (Kfr & KP & Krest).
  assert (HPfr : (fid P < fid fr)%nat) by (apply (K_fid _ _ _ Kfr (P, prP)); left; reflexivity).
  assert (Hrestfr : forall g, In g rest -> (fid (fst g) < fid fr)%nat) by (intros g Hg; apply (K_fid _ _ _ Kfr g); right; exact Hg).
  destruct (hoist_ok fr pr P prP rest HPfr (fund fr) P (alog a) KP eq_refl eq_refl eq_refl)
    as (H1 & H2 & H3 & H4 & H5 & H5b & H6 & H7).
  { intros y Hy Hin. apply (K_pend _ _ _ Kfr y Hy). apply Hfull. exact Hin. }
  { apply (K_pnodup _ _ _ Kfr). }
  { intros s y H. destruct (Al s y H) as (fp & Hfp & Hs & Hu). destruct Hfp as [<-|Hfp].
    - left. split; [symmetry; exact Hs|exact Hu].
    - right. exists fp. split; [exact Hfp|]. split; assumption. }
  unfold a_exit. rewrite As.
  destruct (a_hoist (fid fr) (fund fr) P (alog a)) as [P' lg'] eqn:Eh. cbn [fst snd] in *.
  exists (mkA (P' :: map fst rest) (anext a) lg'), P'. split; [reflexivity|]. split.
  { constructor.
    - reflexivity.
    - split; [exact H1|exact Krest].
    - intros fp [<-|Hfp]; cbn [fst anext].
      + rewrite H2. apply (An (P, prP)). right. left. reflexivity.
      + apply An. right. right. exact Hfp.
    - exact H6. }
  split; [exact H2|]. split; [exact H3|]. split; [exact H4|]. split; [exact H5|]. split; [exact H5b|]. split; [reflexivity|].
  cbn [alog]. rewrite <- H7.
  (* no entry of the closed scope is left: the meaning of the remaining labels does not depend on it *)
  apply map_ext_in. intros l Hl. destruct l as [s y|s y]; [reflexivity|].
  destruct (H6 s y Hl) as (fp & Hfp & Hs & _).
  assert (Hne : fid fr <> s).
  { destruct Hfp as [<-|Hfp]; cbn [fst] in Hs; [rewrite H2 in Hs; lia|]. specialize (Hrestfr fp Hfp). lia. }
  cbn [final env_of map fst snd]. rewrite (drop_to_skip s (fid fr)) by exact Hne. reflexivity.
Qed.
