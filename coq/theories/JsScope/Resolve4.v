(* JsScope/Resolve4.v — layer 2, part 4: closing a scope on the label machine. *)
From Coq Require Import ZifyBool.
From Verif Require Import Common.Base Common.Tactics JsScope.Model JsScope.Spec JsScope.Abs JsScope.HeapLemmas
  JsScope.SimUse JsScope.SimDeclare JsScope.SimDeclare3 JsScope.Resolve1 JsScope.Resolve2 JsScope.Resolve3.

Lemma in_relabel l from to lg : In l (relabel from to lg) -> (l = to /\ In from lg) \/ (In l lg /\ l <> from).
Proof.
  unfold relabel. intros H. apply in_map_iff in H. destruct H as (l0 & E & Hl0).
  destruct (label_eqb l0 from) eqn:Eq.
  - apply label_eqb_eq in Eq. subst. left. split; [reflexivity|exact Hl0].
  - subst l0. right. split; [exact Hl0|]. intros ->. rewrite label_eqb_refl in Eq. discriminate.
Qed.

Section Hoist.
  Variables (fr : frame) (pr : promise) (P : frame) (prP : promise) (rest : list zframe).
  Let e1 := env_of ((fr, pr) :: (P, prP) :: rest).
  Hypothesis HPfr : (fid P < fid fr)%nat.
  Hypothesis Hrestfr : forall g, In g rest -> (fid (fst g) < fid fr)%nat.

  (* what the log refers to while the list l of the closing scope is hoisted into the parent Pc *)
  Definition log_ok (l : list uent) (Pc : frame) (lg : list label) : Prop :=
    (forall s y, In (LPend s y) lg ->
       (s = fid fr /\ In (UPend y) l) \/
       (exists fp, In fp ((Pc, prP) :: rest) /\ fid (fst fp) = s /\ In (UPend y) (fund (fst fp)))) /\
    (forall s y, In (LArg s y) lg ->
       (s = fid fr /\ In (UArg y) l) \/
       (exists fp, In fp ((Pc, prP) :: rest) /\ fid (fst fp) = s /\ In (UArg y) (fund (fst fp)))).

  Definition hoist_post (l : list uent) (Pc : frame) (lg : list label) : Prop :=
    let r := a_hoist (fid fr) l Pc lg in
    frame_ok (fst r) prP rest /\
    fid (fst r) = fid P /\ fisfunc (fst r) = fisfunc P /\ fdecl (fst r) = fdecl P /\ fnarg (fst r) = fnarg Pc /\
    (forall e, In e (fund Pc) -> In e (fund (fst r))) /\
    (forall y, In (UPend y) (fund (fst r)) -> In (UPend y) (fund Pc) \/ In (UPend y) l \/ In (UArg y) l) /\
    (forall y, In (UArg y) (fund (fst r)) -> In (UArg y) (fund Pc)) /\
    log_ok [] (fst r) (snd r) /\
    map (final e1) (snd r) = map (final e1) lg.

  (* one unresolved entry x with label from, then the rest by k *)
  Lemma hoist_one (k : frame -> list label -> frame * list label) (from : label) (x : Z) (l' : list uent) Pc lg :
    frame_ok Pc prP rest -> fid Pc = fid P -> fisfunc Pc = fisfunc P -> fdecl Pc = fdecl P ->
    final e1 from = lookup (env_of ((P, prP) :: rest)) x ->
    (forall s y, from <> LDecl s y) ->
    (* the log after the entries of x have been relabelled *)
    (forall to Pn, (forall e, In e (fund Pc) -> In e (fund Pn)) -> fid Pn = fid Pc ->
       (forall s y, to = LPend s y -> s = fid Pn /\ In (UPend y) (fund Pn)) -> (forall s y, to <> LArg s y) ->
       log_ok l' Pn (relabel from to lg)) ->
    (forall Pn lg', frame_ok Pn prP rest -> fid Pn = fid P -> fisfunc Pn = fisfunc P -> fdecl Pn = fdecl P ->
       log_ok l' Pn lg' ->
       let r := k Pn lg' in
       frame_ok (fst r) prP rest /\ fid (fst r) = fid P /\ fisfunc (fst r) = fisfunc P /\ fdecl (fst r) = fdecl P /\
       fnarg (fst r) = fnarg Pn /\
       (forall e, In e (fund Pn) -> In e (fund (fst r))) /\
       (forall y, In (UPend y) (fund (fst r)) -> In (UPend y) (fund Pn) \/ In (UPend y) l' \/ In (UArg y) l') /\
       (forall y, In (UArg y) (fund (fst r)) -> In (UArg y) (fund Pn)) /\
       log_ok [] (fst r) (snd r) /\ map (final e1) (snd r) = map (final e1) lg') ->
    let r := a_hoist1 k from x Pc lg in
    frame_ok (fst r) prP rest /\ fid (fst r) = fid P /\ fisfunc (fst r) = fisfunc P /\ fdecl (fst r) = fdecl P /\
    fnarg (fst r) = fnarg Pc /\
    (forall e, In e (fund Pc) -> In e (fund (fst r))) /\
    (forall y, In (UPend y) (fund (fst r)) -> In (UPend y) (fund Pc) \/ y = x \/ In (UPend y) l' \/ In (UArg y) l') /\
    (forall y, In (UArg y) (fund (fst r)) -> In (UArg y) (fund Pc)) /\
    log_ok [] (fst r) (snd r) /\ map (final e1) (snd r) = map (final e1) lg.
  Proof.
    intros K Hfid Hisf Hfd Hfinal_from Hfromd Hstep Hk.
    assert (Hfinal_P : final e1 (LPend (fid Pc) x) = lookup (env_of ((P, prP) :: rest)) x).
    { unfold e1. cbn [final env_of map fst snd]. rewrite Hfid. rewrite drop_to_skip by lia. rewrite drop_to_head. reflexivity. }
    unfold a_hoist1.
    destruct (a_find_decl Pc x) as [[y k0]|] eqn:Ed.
    - (* declared in the parent *)
      destruct (a_find_decl_some _ _ _ _ Ed) as [-> Hin]. destruct (K_decl _ _ _ K x k0 Hin) as [Hp _].
      destruct (Hk Pc (relabel from (LDecl (fid Pc) x) lg) K Hfid Hisf Hfd) as (H1 & H2 & H3 & H4 & H4n & H5 & H5b & H5c & H6 & H7).
      { apply (Hstep (LDecl (fid Pc) x) Pc); [tauto|reflexivity|discriminate|discriminate]. }
      split; [exact H1|]. split; [exact H2|]. split; [exact H3|]. split; [exact H4|]. split; [exact H4n|]. split; [exact H5|].
      split; [intros y0 Hy0; destruct (H5b y0 Hy0) as [G|G]; [left; exact G|right; right; exact G]|]. split; [exact H5c|]. split; [exact H6|].
      rewrite H7. apply final_relabel. rewrite Hfinal_from. cbn [final]. rewrite Hfid. symmetry. apply lookup_head. exact Hp.
    - destruct (a_find_und Pc x) as [[y|y fs|y]|] eqn:Eu.
      + (* used before in the parent *)
        destruct (a_find_und_some _ _ _ Eu) as (Hin & Hn & _). cbn in Hn. subst y.
        destruct (Hk Pc (relabel from (LPend (fid Pc) x) lg) K Hfid Hisf Hfd) as (H1 & H2 & H3 & H4 & H4n & H5 & H5b & H5c & H6 & H7).
        { apply (Hstep (LPend (fid Pc) x) Pc); [tauto|reflexivity| |discriminate]. intros s y E. inversion E; subst. split; [reflexivity|exact Hin]. }
        split; [exact H1|]. split; [exact H2|]. split; [exact H3|]. split; [exact H4|]. split; [exact H4n|]. split; [exact H5|].
        split; [intros y0 Hy0; destruct (H5b y0 Hy0) as [G|G]; [left; exact G|right; right; exact G]|]. split; [exact H5c|]. split; [exact H6|].
        rewrite H7. apply final_relabel. rewrite Hfinal_from, Hfinal_P. reflexivity.
      + (* a declaration passed through the parent *)
        destruct (a_find_und_some _ _ _ Eu) as (Hin & Hn & _). cbn in Hn. subst y.
        destruct (K_pass _ _ _ K x fs Hin) as [_ Hp].
        destruct (Hk Pc (relabel from (LDecl fs x) lg) K Hfid Hisf Hfd) as (H1 & H2 & H3 & H4 & H4n & H5 & H5b & H5c & H6 & H7).
        { apply (Hstep (LDecl fs x) Pc); [tauto|reflexivity|discriminate|discriminate]. }
        split; [exact H1|]. split; [exact H2|]. split; [exact H3|]. split; [exact H4|]. split; [exact H4n|]. split; [exact H5|].
        split; [intros y0 Hy0; destruct (H5b y0 Hy0) as [G|G]; [left; exact G|right; right; exact G]|]. split; [exact H5c|]. split; [exact H6|].
        rewrite H7. apply final_relabel. rewrite Hfinal_from. cbn [final]. symmetry.
        rewrite <- (lookup_pass x fs ((Pc, prP) :: rest) Hp). apply f_equal2; [|reflexivity].
        cbn [env_of map fst snd]. rewrite Hfid. reflexivity.
      + destruct (a_find_und_some _ _ _ Eu) as (_ & _ & Hc). discriminate.
      + (* moved to the parent *)
        set (Pn := set_fund Pc (fund Pc ++ [UPend x])).
        assert (Kn : frame_ok Pn prP rest).
        { destruct K as [K1 K2 K3 K4 K5 K6 K7 K8 K9 K10 K11 K12]. destruct K7 as [K7a K7b]. constructor; try assumption.
          - intros y Hy. cbn [fund Pn set_fund] in Hy. apply in_app_last in Hy. destruct Hy as [Hy|Hy]; [apply K3; exact Hy|].
            inversion Hy; subst. apply a_find_decl_none. exact Ed.
          - intros y fs Hy. cbn [fund Pn set_fund] in Hy. apply in_app_last in Hy. destruct Hy as [Hy|Hy]; [|discriminate]. exact (K4 y fs Hy).
          - cbn [fund Pn set_fund]. rewrite pend_names_app. cbn. apply nodup_app_last; [exact K6|].
            intros Hin. apply in_pend_names in Hin. apply (a_find_und_none _ _ Eu _ Hin); reflexivity.
          - cbn [fund fnarg Pn set_fund]. split; [rewrite app_length; lia|].
            rewrite firstn_app. replace (fnarg Pc - length (fund Pc))%nat with O by lia. cbn [firstn]. rewrite app_nil_r. exact K7b.
          - intros y Hy. cbn [fund fnarg Pn set_fund] in *. apply in_app_last in Hy. destruct Hy as [Hy|Hy]; [|discriminate].
            apply in_firstn_app; [exact K7a|apply K8; exact Hy].
          - cbn [fund Pn set_fund]. rewrite arg_names_app. cbn. rewrite app_nil_r. exact K9. }
        destruct (Hk Pn (relabel from (LPend (fid Pc) x) lg) Kn Hfid Hisf Hfd) as (H1 & H2 & H3 & H4 & H4n & H5 & H5b & H5c & H6 & H7).
        { apply (Hstep (LPend (fid Pc) x) Pn).
          - intros e He. cbn. apply in_app_last. left. exact He.
          - reflexivity.
          - intros s y E. inversion E; subst. split; [reflexivity|]. cbn. apply in_app_last. right. reflexivity.
          - discriminate. }
        split; [exact H1|]. split; [exact H2|]. split; [exact H3|]. split; [exact H4|]. split; [exact H4n|].
        split; [intros e He; apply H5; cbn; apply in_app_last; left; exact He|].
        split.
        { intros y0 Hy0. destruct (H5b y0 Hy0) as [G|G]; [|right; right; exact G].
          cbn [fund Pn set_fund] in G. apply in_app_last in G. destruct G as [G|G]; [left; exact G|right; left; inversion G; reflexivity]. }
        split.
        { intros y0 Hy0. specialize (H5c y0 Hy0). cbn [fund Pn set_fund] in H5c. apply in_app_last in H5c. destruct H5c as [G|G]; [exact G|discriminate]. }
        split; [exact H6|].
        rewrite H7. apply final_relabel. rewrite Hfinal_from, Hfinal_P. reflexivity.
  Qed.

  Lemma hoist_ok :
    forall l Pc lg,
      frame_ok Pc prP rest -> fid Pc = fid P -> fisfunc Pc = fisfunc P -> fdecl Pc = fdecl P ->
      (forall y, In (UPend y) l -> ~ In y (pnames pr)) -> NoDup (pend_names l) -> NoDup (arg_names l) ->
      log_ok l Pc lg -> hoist_post l Pc lg.
  Proof.
    induction l as [|[x|x fs|x] l' IH]; intros Pc lg K Hfid Hisf Hfd Hnot Hnd Hnda Hlog; unfold hoist_post; cbn zeta.
    - cbn [a_hoist fst snd]. split; [exact K|]. split; [exact Hfid|]. split; [exact Hisf|]. split; [exact Hfd|]. split; [reflexivity|].
      split; [tauto|]. split; [intros y Hy; left; exact Hy|]. split; [tauto|]. split; [exact Hlog|reflexivity].
    - (* an unresolved use of the closing scope *)
      assert (Hx : ~ In x (pnames pr)) by (apply Hnot; left; reflexivity).
      assert (Hnot' : forall y, In (UPend y) l' -> ~ In y (pnames pr)) by (intros y Hy; apply Hnot; right; exact Hy).
      cbn [pend_names] in Hnd. inversion Hnd as [|? ? Hxl Hnd']; subst. cbn [arg_names] in Hnda.
      cbn [a_hoist].
      destruct (hoist_one (a_hoist (fid fr) l') (LPend (fid fr) x) x l' Pc lg K Hfid Hisf Hfd)
        as (H1 & H2 & H3 & H4 & H4n & H5 & H5b & H5c & H6 & H7).
      { unfold e1. cbn [final env_of map fst snd]. rewrite drop_to_head. apply lookup_skip. exact Hx. }
      { discriminate. }
      { intros to Pn Hsub HfPn Hto Htoa. destruct Hlog as [Hl1 Hl2]. split.
        - intros s y Hin. apply in_relabel in Hin. destruct Hin as [[E _]|[Hin Hne]].
          + destruct (Hto s y (eq_sym E)) as [G1 G2]. right. exists (Pn, prP). split; [left; reflexivity|]. split; [symmetry; exact G1|exact G2].
          + destruct (Hl1 s y Hin) as [[Hs [Hy|Hy]]|(fp & Hfp & Hs & Hu)].
            * exfalso. apply Hne. inversion Hy; subst. reflexivity.
            * left. split; assumption.
            * right. destruct Hfp as [<-|Hfp].
              -- exists (Pn, prP). split; [left; reflexivity|]. cbn [fst] in *. split; [congruence|apply Hsub; exact Hu].
              -- exists fp. split; [right; exact Hfp|]. split; assumption.
        - intros s y Hin. apply in_relabel in Hin. destruct Hin as [[E _]|[Hin Hne]]; [exfalso; apply (Htoa s y); symmetry; exact E|].
          destruct (Hl2 s y Hin) as [[Hs [Hy|Hy]]|(fp & Hfp & Hs & Hu)]; [discriminate|left; split; assumption|].
          right. destruct Hfp as [<-|Hfp].
          + exists (Pn, prP). split; [left; reflexivity|]. cbn [fst] in *. split; [congruence|apply Hsub; exact Hu].
          + exists fp. split; [right; exact Hfp|]. split; assumption. }
      { intros Pn lg' Kn HfPn HiPn HdPn Hlogn. apply (IH Pn lg' Kn HfPn HiPn HdPn Hnot' Hnd' Hnda Hlogn). }
      split; [exact H1|]. split; [exact H2|]. split; [exact H3|]. split; [exact H4|]. split; [exact H4n|]. split; [exact H5|].
      split.
      { intros y Hy. destruct (H5b y Hy) as [G|[G|[G|G]]]; [left; exact G|right; left; left; subst; reflexivity|right; left; right; exact G|right; right; right; exact G]. }
      split; [exact H5c|]. split; [exact H6|exact H7].
    - (* a declaration passed through the closing scope *)
      cbn [a_hoist].
      destruct (IH Pc lg K Hfid Hisf Hfd) as (H1 & H2 & H3 & H4 & H4n & H5 & H5b & H5c & H6 & H7); try assumption.
      + intros y Hy. apply Hnot. right. exact Hy.
      + destruct Hlog as [Hl1 Hl2]. split.
        * intros s y H. destruct (Hl1 s y H) as [[Hs [Hy|Hy]]|Hex]; [discriminate|left; split; assumption|right; exact Hex].
        * intros s y H. destruct (Hl2 s y H) as [[Hs [Hy|Hy]]|Hex]; [discriminate|left; split; assumption|right; exact Hex].
      + split; [exact H1|]. split; [exact H2|]. split; [exact H3|]. split; [exact H4|]. split; [exact H4n|]. split; [exact H5|].
        split; [intros y0 Hy0; destruct (H5b y0 Hy0) as [G|[G|G]]; [left; exact G|right; left; right; exact G|right; right; right; exact G]|].
        split; [exact H5c|]. split; assumption.
    - (* a use made in the parameter list of the closing scope: resolved outside of it *)
      assert (Hnot' : forall y, In (UPend y) l' -> ~ In y (pnames pr)) by (intros y Hy; apply Hnot; right; exact Hy).
      cbn [arg_names] in Hnda. inversion Hnda as [|? ? Hxl Hnda']; subst. cbn [pend_names] in Hnd.
      cbn [a_hoist].
      destruct (hoist_one (a_hoist (fid fr) l') (LArg (fid fr) x) x l' Pc lg K Hfid Hisf Hfd)
        as (H1 & H2 & H3 & H4 & H4n & H5 & H5b & H5c & H6 & H7).
      { unfold e1. cbn [final env_of map fst snd]. rewrite drop_to_head. reflexivity. }
      { discriminate. }
      { intros to Pn Hsub HfPn Hto Htoa. destruct Hlog as [Hl1 Hl2]. split.
        - intros s y Hin. apply in_relabel in Hin. destruct Hin as [[E _]|[Hin Hne]].
          + destruct (Hto s y (eq_sym E)) as [G1 G2]. right. exists (Pn, prP). split; [left; reflexivity|]. split; [symmetry; exact G1|exact G2].
          + destruct (Hl1 s y Hin) as [[Hs [Hy|Hy]]|(fp & Hfp & Hs & Hu)]; [discriminate|left; split; assumption|].
            right. destruct Hfp as [<-|Hfp].
            * exists (Pn, prP). split; [left; reflexivity|]. cbn [fst] in *. split; [congruence|apply Hsub; exact Hu].
            * exists fp. split; [right; exact Hfp|]. split; assumption.
        - intros s y Hin. apply in_relabel in Hin. destruct Hin as [[E _]|[Hin Hne]]; [exfalso; apply (Htoa s y); symmetry; exact E|].
          destruct (Hl2 s y Hin) as [[Hs [Hy|Hy]]|(fp & Hfp & Hs & Hu)].
          + exfalso. apply Hne. inversion Hy; subst. reflexivity.
          + left. split; assumption.
          + right. destruct Hfp as [<-|Hfp].
            * exists (Pn, prP). split; [left; reflexivity|]. cbn [fst] in *. split; [congruence|apply Hsub; exact Hu].
            * exists fp. split; [right; exact Hfp|]. split; assumption. }
      { intros Pn lg' Kn HfPn HiPn HdPn Hlogn. apply (IH Pn lg' Kn HfPn HiPn HdPn Hnot' Hnd Hnda' Hlogn). }
      split; [exact H1|]. split; [exact H2|]. split; [exact H3|]. split; [exact H4|]. split; [exact H4n|]. split; [exact H5|].
      split.
      { intros y Hy. destruct (H5b y Hy) as [G|[G|[G|G]]]; [left; exact G|right; right; left; subst; reflexivity|right; left; right; exact G|right; right; right; exact G]. }
      split; [exact H5c|]. split; [exact H6|exact H7].
  Qed.
End Hoist.

(* exit of the top scope once everything it promised has been declared *)
Lemma L_exit a fr pr P prP rest :
  AInv a ((fr, pr) :: (P, prP) :: rest) ->
  (forall y, In y (pnames pr) -> In y (dnames fr)) ->
  exists a' P',
    a_exit a = ARun a' /\ AInv a' ((P', prP) :: rest) /\
    fid P' = fid P /\ fisfunc P' = fisfunc P /\ fdecl P' = fdecl P /\ fnarg P' = fnarg P /\
    (forall e, In e (fund P) -> In e (fund P')) /\
    (forall y, In (UPend y) (fund P') -> In (UPend y) (fund P) \/ In (UPend y) (fund fr) \/ In (UArg y) (fund fr)) /\
    (forall y, In (UArg y) (fund P') -> In (UArg y) (fund P)) /\
    anext a' = anext a /\
    map (final (env_of ((P, prP) :: rest))) (alog a') = map (final (env_of ((fr, pr) :: (P, prP) :: rest))) (alog a).
Proof.
  intros [As Af An Al Aa] Hfull. cbn [map fst] in As. cbn [frames_ok] in Af. destruct Af as (Kfr & KP & Krest).
  assert (HPfr : (fid P < fid fr)%nat) by (apply (K_fid _ _ _ Kfr (P, prP)); left; reflexivity).
  assert (Hrestfr : forall g, In g rest -> (fid (fst g) < fid fr)%nat) by (intros g Hg; apply (K_fid _ _ _ Kfr g); right; exact Hg).
  destruct (hoist_ok fr pr P prP rest HPfr (fund fr) P (alog a) KP eq_refl eq_refl eq_refl)
    as (H1 & H2 & H3 & H4 & H4n & H5 & H5b & H5c & H6 & H7).
  { intros y Hy Hin. apply (K_pend _ _ _ Kfr y Hy). apply Hfull. exact Hin. }
  { apply (K_pnodup _ _ _ Kfr). }
  { apply (K_anodup _ _ _ Kfr). }
  { split.
    - intros s y H. destruct (Al s y H) as (fp & Hfp & Hs & Hu). destruct Hfp as [<-|Hfp].
      + left. split; [symmetry; exact Hs|exact Hu].
      + right. exists fp. split; [exact Hfp|]. split; assumption.
    - intros s y H. destruct (Aa s y H) as (fp & Hfp & Hs & Hu). destruct Hfp as [<-|Hfp].
      + left. split; [symmetry; exact Hs|exact Hu].
      + right. exists fp. split; [exact Hfp|]. split; assumption. }
  unfold a_exit. rewrite As.
  destruct (a_hoist (fid fr) (fund fr) P (alog a)) as [P' lg'] eqn:Eh. cbn [fst snd] in *.
  destruct H6 as [H6 H6a].
  assert (L1 : forall s y, In (LPend s y) lg' -> exists fp, In fp ((P', prP) :: rest) /\ fid (fst fp) = s /\ In (UPend y) (fund (fst fp))).
  { intros s y H. destruct (H6 s y H) as [[_ []]|Hex]. exact Hex. }
  assert (L2 : forall s y, In (LArg s y) lg' -> exists fp, In fp ((P', prP) :: rest) /\ fid (fst fp) = s /\ In (UArg y) (fund (fst fp))).
  { intros s y H. destruct (H6a s y H) as [[_ []]|Hex]. exact Hex. }
  exists (mkA (P' :: map fst rest) (anext a) lg'), P'. split; [reflexivity|]. split.
  { constructor.
    - reflexivity.
    - split; [exact H1|exact Krest].
    - intros fp [<-|Hfp]; cbn [fst anext].
      + rewrite H2. apply (An (P, prP)). right. left. reflexivity.
      + apply An. right. right. exact Hfp.
    - exact L1.
    - exact L2. }
  split; [exact H2|]. split; [exact H3|]. split; [exact H4|]. split; [exact H4n|]. split; [exact H5|].
  split; [intros y Hy; destruct (H5b y Hy) as [G|[G|G]]; tauto|]. split; [exact H5c|]. split; [reflexivity|].
  cbn [alog]. rewrite <- H7.
  (* no entry of the closed scope is left: the meaning of the remaining labels does not depend on it *)
  apply map_ext_in. intros l Hl. destruct l as [s y|s y|s y]; [reflexivity| |].
  - destruct (L1 s y Hl) as (fp & Hfp & Hs & _).
    assert (Hne : fid fr <> s).
    { destruct Hfp as [<-|Hfp]; cbn [fst] in Hs; [rewrite H2 in Hs; lia|]. specialize (Hrestfr fp Hfp). lia. }
    cbn [final env_of map fst snd]. rewrite (drop_to_skip s (fid fr)) by exact Hne. reflexivity.
  - destruct (L2 s y Hl) as (fp & Hfp & Hs & _).
    assert (Hne : fid fr <> s).
    { destruct Hfp as [<-|Hfp]; cbn [fst] in Hs; [rewrite H2 in Hs; lia|]. specialize (Hrestfr fp Hfp). lia. }
    cbn [final env_of map fst snd]. rewrite (drop_to_skip s (fid fr)) by exact Hne. reflexivity.
Qed.
