(* JsScope/Refuted.v — clauses of C04 that are false of the faithful model (and of /repo: the same programs
   are in corpus/C04.txt, where model and implementation agree, and are reported by the Go oracle as known
   findings c04-es:...).  Each witness is a binding program without redeclaration error on which the
   partition of the occurrences by Var differs from the declarative (ECMAScript) resolution. *)
From Verif Require Import Common.Base JsScope.Model JsScope.Spec.

Definition deviates (p : prog) : Prop :=
  program_ok p = true /\
  exists vs, occurrence_vars p = Some vs /\ canon Nat.eqb vs <> canon target_eqb (spec_resolve p).

(* witnesses of repaired deviations: kept as regression examples *)
Definition agrees (p : prog) : Prop :=
  program_ok p = true /\
  exists vs, occurrence_vars p = Some vs /\ canon Nat.eqb vs = canon target_eqb (spec_resolve p).
Ltac agreement := split; [vm_compute; reflexivity|eexists; split; [vm_compute; reflexivity|vm_compute; reflexivity]].

Ltac witness := split; [vm_compute; reflexivity|eexists; split; [vm_compute; reflexivity|vm_compute; discriminate]].

(* var b; function f(a = b, b){}  — the b of the default value is the later parameter under ECMAScript,
   the outer variable in the model *)
Definition w_fwd_param : prog :=
  Decl DVar 1 (Decl DFun 5 (Func None (Decl DParam 0 (Ref 1 (Decl DParam 1 Done))) Done Done)).
Lemma w_fwd_param_deviates : deviates w_fwd_param. Proof. witness. Qed.

(* var b; function f(a = b){ b; var b }  — the body's b is the local var, the b of the default value the outer
   variable.  Until /repo 6a9c7af the body's b was put with the b of the default value
   (c04-es:default-captures-body-ref, fixed); now model and ECMAScript agree, and the shape is inside core_x *)
Definition w_default_capture : prog :=
  Decl DVar 1 (Decl DFun 5 (Func None (Decl DParam 0 (Ref 1 Done)) (Ref 1 (Decl DVar 1 Done)) Done)).
Lemma w_default_capture_agrees : agrees w_default_capture. Proof. agreement. Qed.

(* a; (function a(){ var a })  — expression name and inner var are one Var in the model *)
Definition w_funcexpr_name : prog := Ref 0 (Func (Some 0) Done (Decl DVar 0 Done) Done).
Lemma w_funcexpr_name_deviates : deviates w_funcexpr_name. Proof. witness. Qed.

(* (class a { m(){ a } })  — the inner a is the class name.  Until /repo faa3812 it was not
   (c04-es:classexpr-name, fixed) *)
Definition w_classexpr_name : prog := Class (Some 0) (Func None Done (Ref 0 Done) Done) Done.
Lemma w_classexpr_name_agrees : agrees w_classexpr_name. Proof. agreement. Qed.

(* for (let b of c) { function g(){ b }  let b;  g }  — g's b is the body's b under ECMAScript, the loop
   variable in the model *)
Definition w_loop_head : prog :=
  For (Decl DLex 1 (Ref 2 Done)) (Decl DFun 6 (Func None Done (Ref 1 Done) (Decl DLex 1 (Ref 6 Done)))) Done.
Lemma w_loop_head_deviates : deviates w_loop_head. Proof. witness. Qed.

(* try {} catch (a) { { var a; a } }  — the last a is the catch parameter under ECMAScript, the hoisted var
   in the model *)
Definition w_catch_var : prog :=
  Block Done (Catch (Decl DCatch 0 Done) (Block (Decl DVar 0 (Ref 0 Done)) Done) Done).
Lemma w_catch_var_deviates : deviates w_catch_var. Proof. witness. Qed.

(* var a; try {} catch ([b = a]) { let a }  — the a of the default value is the outer a.  Until /repo 8db4a8d
   it was the block's a (c04-es:catch-head-ref-shadowed-in-body, fixed) *)
Definition w_catch_head : prog :=
  Decl DVar 0 (Block Done (Catch (Decl DCatch 1 (Ref 0 Done)) (Decl DLex 0 Done) Done)).
Lemma w_catch_head_agrees : agrees w_catch_head. Proof. agreement. Qed.

(* ECMAScript makes "{ { var a } let a }" an early error; Declare accepts it (see also Proofs.v) *)
