(* JsScope/Abs.v — the label machine: the scope algorithm with every Var replaced by the name of
   the binding class it currently stands for.  It is the bridge of the proof of C04:
     Model  --(Sim.v: per event, heap reasoning)-->  label machine
     label machine  --(Resolve.v: induction on the binding program)-->  declarative resolver.
   Definitions only (executable; also run end to end against js.Parse as scope_e2e_am). *)
From Verif Require Import Common.Base JsScope.Model.

(* the class an occurrence currently belongs to: declared in scope s, or still unresolved and
   waiting in the undeclared list of the open scope s *)
Inductive label :=
| LDecl (s : nat) (x : Z)
| LPend (s : nat) (x : Z)
| LArg (s : nat) (x : Z).      (* unresolved, made in the parameter list / loop head / catch parameter of the open scope s
                                  (one of its first NumArgUses undeclared entries): invisible to the body of s *)

Definition label_eqb (a b : label) : bool :=
  match a, b with
  | LDecl s x, LDecl t y => Nat.eqb s t && (x =? y)
  | LPend s x, LPend t y => Nat.eqb s t && (x =? y)
  | LArg s x, LArg t y => Nat.eqb s t && (x =? y)
  | _, _ => false
  end.

(* an entry of Scope.Undeclared: a pending use, or a var/function declaration of the enclosing
   function scope fs passed through this block (AddUndeclared) *)
Inductive uent :=
| UPend (x : Z)
| UPass (x : Z) (fs : nat)
| UArg (x : Z).                (* a pending use among the first NumArgUses entries *)

Definition uname (e : uent) : Z := match e with UPend x => x | UPass x _ => x | UArg x => x end.

Definition uent_eqb (a b : uent) : bool :=
  match a, b with
  | UPend x, UPend y => x =? y
  | UPass x s, UPass y t => (x =? y) && Nat.eqb s t
  | UArg x, UArg y => x =? y
  | _, _ => false
  end.

Record frame := mkF {
  fid : nat ;
  fisfunc : bool ;
  fdecl : list (Z * Z) ;      (* (name, DeclType) of Scope.Declared *)
  fund : list uent ;          (* Scope.Undeclared *)
  fnarg : nat ;               (* NumArgUses *)
  fnfor : nat                 (* NumForDecls *)
}.

Record astate := mkA {
  astack : list frame ;       (* open scopes, innermost first *)
  anext : nat ;
  alog : list label           (* latest first, like plog *)
}.

Inductive aout :=
| ARun (a : astate)
| ARej
| AStuck.                     (* outside the fragment the machine covers, or a crash of the model *)

Definition a_find_decl (fr : frame) (x : Z) : option (Z * Z) :=
  find (fun e => fst e =? x) (rev (fdecl fr)).

(* findUndeclared does not see the pending uses of the parameter list *)
Definition a_find_und (fr : frame) (x : Z) : option uent :=
  find (fun e => match e with UArg _ => false | _ => uname e =? x end) (fund fr).

Definition relabel (from to : label) (l : list label) : list label :=
  map (fun e => if label_eqb e from then to else e) l.

Definition set_fund (fr : frame) (u : list uent) : frame :=
  mkF (fid fr) (fisfunc fr) (fdecl fr) u (fnarg fr) (fnfor fr).
Definition set_fdecl (fr : frame) (d : list (Z * Z)) : frame :=
  mkF (fid fr) (fisfunc fr) d (fund fr) (fnarg fr) (fnfor fr).

(* ---- Use ------------------------------------------------------------------------------------ *)
Definition a_use (a : astate) (x : Z) : aout :=
  match astack a with
  | [] => AStuck
  | fr :: rest =>
      match a_find_decl fr x with
      | Some _ => ARun (mkA (astack a) (anext a) (LDecl (fid fr) x :: alog a))
      | None =>
          match a_find_und fr x with
          | Some (UPend _) => ARun (mkA (astack a) (anext a) (LPend (fid fr) x :: alog a))
          | Some (UPass _ fs) => ARun (mkA (astack a) (anext a) (LDecl fs x :: alog a))
          | Some (UArg _) => AStuck
          | None =>
              ARun (mkA (set_fund fr (fund fr ++ [UPend x]) :: rest) (anext a) (LPend (fid fr) x :: alog a))
          end
      end
  end.

(* ---- Declare -------------------------------------------------------------------------------- *)
(* split the stack at the scope the declaration goes to:
   Some (Some (pre, tgt, post)): pre = the blocks walked through (innermost first);
   Some None: conflict; None: ran off the stack *)
Fixpoint a_walk (stk : list frame) (decl x : Z) : option (option (list frame * frame * list frame)) :=
  match stk with
  | [] => None
  | fr :: rest =>
      if fisfunc fr then Some (Some ([], fr, rest))
      else
        let conflict :=
          match a_find_decl fr x with
          | Some (_, kk) => negb (kk =? decl) && negb (kk =? CatchDecl)
          | None => false
          end in
        if conflict then Some None
        else match a_walk rest decl x with
             | Some (Some (pre, tgt, post)) => Some (Some (fr :: pre, tgt, post))
             | r => r
             end
  end.

(* AddUndeclared of the declared variable in every block walked through *)
Definition add_pass (x : Z) (fs : nat) (fr : frame) : frame :=
  if existsb (uent_eqb (UPass x fs)) (fund fr) then fr else set_fund fr (fund fr ++ [UPass x fs]).

(* first pending use of x in l; index *)
Fixpoint a_find_reuse (x : Z) (l : list uent) (i : nat) : option nat :=
  match l with
  | [] => None
  | UPend y :: t => if y =? x then Some i else a_find_reuse x t (S i)
  | UPass _ _ :: t | UArg _ :: t => a_find_reuse x t (S i)
  end.

Definition a_declare (a : astate) (decl x : Z) : aout :=
  let split :=
    if (decl =? VariableDecl) || (decl =? FunctionDecl) then a_walk (astack a) decl x
    else match astack a with
         | [] => None
         | fr :: rest => Some (Some ([], fr, rest))
         end in
  match split with
  | None => AStuck
  | Some None => ARej
  | Some (Some (pre, tgt, post)) =>
      (* a name of the loop head declared again in the loop body (Declare skips Declared[:NumForDecls] and makes
         a second variable of that name in the same scope): outside the machine *)
      if existsb (fun e => fst e =? x) (firstn (fnfor tgt) (fdecl tgt)) then AStuck else
      match a_find_decl tgt x with
      | Some (_, kk) =>
          if kk =? ExprDecl then AStuck       (* function-expression names: outside the machine *)
          else if (ArgumentDecl <? kk) || (FunctionDecl <? decl) then ARej
          else
            ARun (mkA (map (add_pass x (fid tgt)) pre ++ tgt :: post) (anext a)
                      (LDecl (fid tgt) x :: alog a))
      | None =>
          let reuse :=
            if decl =? ArgumentDecl then None
            else a_find_reuse x (skipn (fnarg tgt) (fund tgt)) O in
          let '(tgt1, log1) :=
            match reuse with
            | Some i => (set_fund tgt (remove_at (fund tgt) (fnarg tgt + i)),
                         relabel (LPend (fid tgt) x) (LDecl (fid tgt) x) (alog a))
            | None => (tgt, alog a)
            end in
          let tgt2 := set_fdecl tgt1 (fdecl tgt1 ++ [(x, decl)]) in
          ARun (mkA (map (add_pass x (fid tgt)) pre ++ tgt2 :: post) (anext a)
                    (LDecl (fid tgt) x :: log1))
      end
  end.

(* ---- HoistUndeclared + exit ------------------------------------------------------------------- *)
(* one unresolved entry (label from) of the closing scope, then the rest (k) *)
Definition a_hoist1 (k : frame -> list label -> frame * list label) (from : label) (x : Z)
                    (pr : frame) (log : list label) : frame * list label :=
  match a_find_decl pr x with
  | Some _ => k pr (relabel from (LDecl (fid pr) x) log)
  | None =>
      match a_find_und pr x with
      | Some (UPend _) => k pr (relabel from (LPend (fid pr) x) log)
      | Some (UPass _ fs) => k pr (relabel from (LDecl fs x) log)
      | Some (UArg _) => k pr log      (* unreachable: a_find_und does not return these *)
      | None => k (set_fund pr (fund pr ++ [UPend x])) (relabel from (LPend (fid pr) x) log)
      end
  end.

Fixpoint a_hoist (s : nat) (l : list uent) (pr : frame) (log : list label) : frame * list label :=
  match l with
  | [] => (pr, log)
  | UPass _ _ :: t => a_hoist s t pr log
  | UPend x :: t => a_hoist1 (a_hoist s t) (LPend s x) x pr log
  | UArg x :: t => a_hoist1 (a_hoist s t) (LArg s x) x pr log
  end.

Definition a_exit (a : astate) : aout :=
  match astack a with
  | fr :: pr :: rest =>
      let '(pr1, log1) := a_hoist (fid fr) (fund fr) pr (alog a) in
      ARun (mkA (pr1 :: rest) (anext a) log1)
  | _ => AStuck
  end.

Definition a_enter (a : astate) (is_func : bool) : aout :=
  ARun (mkA (mkF (anext a) is_func [] [] O O :: astack a) (S (anext a)) (alog a)).

(* MarkFuncArgs / MarkForStmt / the mark after a catch parameter: every pending use made so far in the scope becomes
   invisible to the rest of the scope.  Marking a scope twice is outside the machine. *)
Definition is_uarg (e : uent) : bool := match e with UArg _ => true | _ => false end.
Definition to_args (l : list uent) : list uent := map (fun e => match e with UPend x => UArg x | _ => e end) l.
Definition args_log (s : nat) (log : list label) : list label :=
  map (fun lb => match lb with LPend t x => if Nat.eqb t s then LArg s x else lb | _ => lb end) log.

Definition a_mark (a : astate) (nfor : frame -> nat) : aout :=
  match astack a with
  | fr :: rest =>
      if existsb is_uarg (fund fr) then AStuck
      else ARun (mkA (mkF (fid fr) (fisfunc fr) (fdecl fr) (to_args (fund fr)) (length (fund fr)) (nfor fr) :: rest)
                     (anext a) (args_log (fid fr) (alog a)))
  | [] => AStuck
  end.

Definition a_mark_args (a : astate) : aout := a_mark a fnfor.
Definition a_mark_for (a : astate) : aout := a_mark a (fun fr => length (fdecl fr)).
Definition a_mark_catch (a : astate) : aout := a_mark a fnfor.

Definition astep (a : astate) (e : event) : aout :=
  match e with
  | EEnter f => a_enter a f
  | EExit => a_exit a
  | EDeclare decl x => if decl =? NoDecl then AStuck else a_declare a decl x
  | EUse x => a_use a x
  | EMarkArgs => a_mark_args a
  | EMarkFor => a_mark_for a
  | EMarkCatch => a_mark_catch a
  | _ => AStuck
  end.

Fixpoint arun (a : astate) (evs : list event) : aout :=
  match evs with
  | [] => ARun a
  | e :: t => match astep a e with ARun a1 => arun a1 t | o => o end
  end.

Definition init_astate : astate := mkA [] O [].
