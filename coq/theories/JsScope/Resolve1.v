(* JsScope/Resolve1.v — layer 2 of C04: the label machine computes the declarative resolution.
   Part 1: the invariant of the label machine relative to the *promised* declarations of the open
   scopes, the meaning of labels (final), and the steps Use / Enter / MarkFuncArgs. *)
From Coq Require Import ZifyBool.
From Verif Require Import Common.Base Common.Tactics JsScope.Model JsScope.Spec JsScope.Abs JsScope.HeapLemmas
  JsScope.SimUse JsScope.SimDeclare3.

(* what a scope will have declared when it is complete: lexical names, and var-like names
   (parameters, var, function) *)
(* pargs: the scope is past its mark (MarkFuncArgs / MarkForStmt / catch parameter): bodies of functions, loops, catch *)
(* pfut: lexical names the scope does not promise yet but will from its mark on (the body block of a loop shares the
   Scope of the loop head): var-like declarations must not pass through them either *)
Record promise := mkPr { plex : list Z ; pvar : list Z ; pargs : bool ; pfut : list Z }.
Definition pnames (pr : promise) : list Z := pvar pr ++ plex pr.
Definition pall (pr : promise) : list Z := pnames pr ++ pfut pr.
Lemma pall_pnames pr x : ~ In x (pall pr) -> ~ In x (pnames pr).
Proof. intros H Hi. apply H. unfold pall. apply in_app_iff. left. exact Hi. Qed.

Definition zframe := (frame * promise)%type.
Definition dnames (fr : frame) : list Z := map fst (fdecl fr).

Fixpoint pend_names (l : list uent) : list Z :=
  match l with
  | [] => []
  | UPend x :: t => x :: pend_names t
  | UPass _ _ :: t | UArg _ :: t => pend_names t
  end.

(* the names used in the parameter list / loop head / catch parameter and still unresolved *)
Fixpoint arg_names (l : list uent) : list Z :=
  match l with
  | [] => []
  | UArg x :: t => x :: arg_names t
  | UPend _ :: t | UPass _ _ :: t => arg_names t
  end.

(* a declaration of x in function scope fs passed through the block on top of z: no block in between
   will ever declare x *)
Fixpoint pass_ok (x : Z) (fs : nat) (z : list zframe) : Prop :=
  match z with
  | [] => False
  | (fr, pr) :: rest =>
      if fisfunc fr then fid fr = fs /\ In x (pnames pr) else ~ In x (pall pr) /\ pass_ok x fs rest
  end.

(* a var-like declaration of x made on top of z is promised by the enclosing function scope and by
   no block in between *)
Fixpoint var_ok (x : Z) (z : list zframe) : Prop :=
  match z with
  | [] => False
  | (fr, pr) :: rest => if fisfunc fr then In x (pvar pr) else ~ In x (pall pr) /\ var_ok x rest
  end.

Fixpoint func_of (z : list zframe) : nat :=
  match z with
  | [] => O
  | (fr, _) :: rest => if fisfunc fr then fid fr else func_of rest
  end.

Definition env_of (z : list zframe) : env := map (fun fp => (fid (fst fp), false, pnames (snd fp))) z.

Fixpoint drop_to (s : nat) (e : env) : env :=
  match e with
  | [] => []
  | (t, a, ns) :: rest => if Nat.eqb t s then e else drop_to s rest
  end.

(* the binding a label will end up in, given what the open scopes promise *)
Definition final (e : env) (l : label) : target :=
  match l with
  | LDecl s x => TBind s false x
  | LPend s x => lookup (drop_to s e) x
  | LArg s x => lookup (tl (drop_to s e)) x     (* resolved outside scope s *)
  end.

Record frame_ok (fr : frame) (pr : promise) (below : list zframe) : Prop := {
  K_decl : forall y k, In (y, k) (fdecl fr) -> In y (pnames pr) /\ (ArgumentDecl < k -> In y (plex pr)) ;
  K_disj : forall y, In y (plex pr) -> ~ In y (pvar pr) ;
  K_pend : forall y, In (UPend y) (fund fr) -> ~ In y (dnames fr) ;
  K_pass : forall y fs, In (UPass y fs) (fund fr) -> fisfunc fr = false /\ pass_ok y fs ((fr, pr) :: below) ;
  K_dnodup : NoDup (dnames fr) ;
  K_pnodup : NoDup (pend_names (fund fr)) ;
  (* the first NumArgUses entries hold the uses made in the parameter list, and only they *)
  K_narg : (fnarg fr <= length (fund fr))%nat /\
           forall y, ~ In (UPend y) (firstn (fnarg fr) (fund fr)) ;
  K_arg : forall y, In (UArg y) (fund fr) -> In (UArg y) (firstn (fnarg fr) (fund fr)) ;
  K_anodup : NoDup (arg_names (fund fr)) ;
  K_fid : forall g, In g below -> (fid (fst g) < fid fr)%nat ;
  (* only block scopes are loop scopes *)
  K_for : fisfunc fr = true -> fnfor fr = O ;
  (* no use is frozen before the mark *)
  K_mark : pargs pr = false -> fnarg fr = O
}.

Fixpoint frames_ok (z : list zframe) : Prop :=
  match z with
  | [] => True
  | (fr, pr) :: rest => frame_ok fr pr rest /\ frames_ok rest
  end.

Record AInv (a : astate) (z : list zframe) : Prop := {
  A_stack : astack a = map fst z ;
  A_frames : frames_ok z ;
  A_next : forall fp, In fp z -> (fid (fst fp) < anext a)%nat ;
  A_log : forall s x, In (LPend s x) (alog a) ->
          exists fp, In fp z /\ fid (fst fp) = s /\ In (UPend x) (fund (fst fp)) ;
  A_logarg : forall s x, In (LArg s x) (alog a) ->
          exists fp, In fp z /\ fid (fst fp) = s /\ In (UArg x) (fund (fst fp))
}.

(* the part of a stack the predicates above depend on *)
Definition shape (z : list zframe) : list (nat * bool * promise) :=
  map (fun fp => (fid (fst fp), fisfunc (fst fp), snd fp)) z.

Lemma pass_ok_shape x fs z z' : shape z = shape z' -> pass_ok x fs z -> pass_ok x fs z'.
Proof.
  revert z'. induction z as [|[fr pr] rest IH]; intros [|[fr' pr'] rest'] H; cbn in *; try discriminate; [tauto|].
  injection H as H1 H2 H3 H4. subst pr'. rewrite <- H2, <- H1.
  destruct (fisfunc fr); [tauto|]. intros [Ha Hb]. split; [exact Ha|]. apply IH; assumption.
Qed.

Lemma var_ok_shape x z z' : shape z = shape z' -> var_ok x z -> var_ok x z'.
Proof.
  revert z'. induction z as [|[fr pr] rest IH]; intros [|[fr' pr'] rest'] H; cbn in *; try discriminate; [tauto|].
  injection H as H1 H2 H3 H4. subst pr'. rewrite <- H2.
  destruct (fisfunc fr); [tauto|]. intros [Ha Hb]. split; [exact Ha|]. apply IH; assumption.
Qed.

Lemma env_of_shape z z' : shape z = shape z' -> env_of z = env_of z'.
Proof.
  revert z'. induction z as [|[fr pr] rest IH]; intros [|[fr' pr'] rest'] H; cbn in *; try discriminate; [reflexivity|].
  injection H as H1 H2 H3 H4. subst pr'. rewrite H1. f_equal. apply IH. exact H4.
Qed.

Lemma func_of_shape z z' : shape z = shape z' -> func_of z = func_of z'.
Proof.
  revert z'. induction z as [|[fr pr] rest IH]; intros [|[fr' pr'] rest'] H; cbn in *; try discriminate; [reflexivity|].
  injection H as H1 H2 H3 H4. rewrite H1, H2. destruct (fisfunc fr'); [reflexivity|]. apply IH. exact H4.
Qed.

Lemma shape_fids z z' : shape z = shape z' -> map (fun fp => fid (fst fp)) z = map (fun fp => fid (fst fp)) z'.
Proof.
  revert z'. induction z as [|[fr pr] rest IH]; intros [|[fr' pr'] rest'] H; cbn in *; try discriminate; [reflexivity|].
  injection H as H1 H2 H3 H4. rewrite H1. f_equal. apply IH. exact H4.
Qed.

Lemma frame_ok_shape fr pr below below' : shape below = shape below' -> frame_ok fr pr below -> frame_ok fr pr below'.
Proof.
  intros Hs [K1 K2 K3 K4 K5 K6 K7 K8 K9 K10 K11 K12]. constructor; try assumption.
  - intros y fs Hy. destruct (K4 y fs Hy) as [Hf Hp]. split; [exact Hf|].
    apply (pass_ok_shape y fs ((fr, pr) :: below)); [cbn; f_equal; exact Hs|exact Hp].
  - intros g Hg. apply shape_fids in Hs.
    assert (Hin : In (fid (fst g)) (map (fun fp => fid (fst fp)) below')) by (apply in_map_iff; exists g; split; [reflexivity|exact Hg]).
    rewrite <- Hs in Hin. apply in_map_iff in Hin. destruct Hin as (g0 & E & Hg0). rewrite <- E. apply K10. exact Hg0.
Qed.

(* ---- membership --------------------------------------------------------------------------------------- *)
Lemma mem_in x l : mem x l = true <-> In x l.
Proof.
  unfold mem. rewrite existsb_exists. split.
  - intros (y & Hy & E). apply Z.eqb_eq in E. subst. exact Hy.
  - intros H. exists x. split; [exact H|apply Z.eqb_refl].
Qed.

Lemma mem_not_in x l : mem x l = false <-> ~ In x l.
Proof. rewrite <- mem_in. destruct (mem x l); split; intros H; try reflexivity; try discriminate; try (intros E; discriminate). exfalso. apply H. reflexivity. Qed.

Lemma lookup_head s names e x : In x names -> lookup ((s, false, names) :: e) x = TBind s false x.
Proof. intros H. cbn. apply mem_in in H. rewrite H. reflexivity. Qed.

Lemma lookup_skip s a names e x : ~ In x names -> lookup ((s, a, names) :: e) x = lookup e x.
Proof. intros H. cbn. apply mem_not_in in H. rewrite H. reflexivity. Qed.

Lemma lookup_pass x fs z : pass_ok x fs z -> lookup (env_of z) x = TBind fs false x.
Proof.
  induction z as [|[fr pr] rest IH]; cbn [pass_ok env_of map fst snd]; [tauto|].
  destruct (fisfunc fr).
  - intros [<- Hin]. apply lookup_head. exact Hin.
  - intros [Hn Hp]. rewrite lookup_skip by exact (pall_pnames _ _ Hn). apply IH. exact Hp.
Qed.

Lemma lookup_var x z : var_ok x z -> lookup (env_of z) x = TBind (func_of z) false x.
Proof.
  induction z as [|[fr pr] rest IH]; cbn [var_ok env_of map fst snd func_of]; [tauto|].
  destruct (fisfunc fr).
  - intros Hin. apply lookup_head. unfold pnames. apply in_app_iff. left. exact Hin.
  - intros [Hn Hp]. rewrite lookup_skip by exact (pall_pnames _ _ Hn). apply IH. exact Hp.
Qed.

Lemma drop_to_head s a names e : drop_to s ((s, a, names) :: e) = (s, a, names) :: e.
Proof. cbn. rewrite Nat.eqb_refl. reflexivity. Qed.

Lemma drop_to_skip s t a names e : t <> s -> drop_to s ((t, a, names) :: e) = drop_to s e.
Proof. intros H. cbn. replace (Nat.eqb t s) with false by (symmetry; apply Nat.eqb_neq; exact H). reflexivity. Qed.

Lemma final_relabel e from to log :
  final e to = final e from -> map (final e) (relabel from to log) = map (final e) log.
Proof.
  intros H. unfold relabel. rewrite map_map. apply map_ext. intros l.
  destruct (label_eqb l from) eqn:E; [|reflexivity]. apply label_eqb_eq in E. subst. exact H.
Qed.

(* ---- finds ---------------------------------------------------------------------------------------------- *)
Lemma a_find_decl_some fr x y k : a_find_decl fr x = Some (y, k) -> y = x /\ In (x, k) (fdecl fr).
Proof.
  unfold a_find_decl. intros H. apply find_some in H. destruct H as [H1 H2]. cbn in H2. apply Z.eqb_eq in H2. subst y.
  split; [reflexivity|]. apply in_rev. exact H1.
Qed.

Lemma a_find_decl_none fr x : a_find_decl fr x = None -> ~ In x (dnames fr).
Proof.
  unfold a_find_decl, dnames. intros H Hin. apply in_map_iff in Hin. destruct Hin as ([y k] & E & Hy). cbn in E. subst y.
  pose proof (find_none _ _ H (x, k)) as Hn. cbn in Hn. rewrite Z.eqb_refl in Hn.
  assert (true = false) by (apply Hn; apply -> in_rev; exact Hy). discriminate.
Qed.

Lemma a_find_decl_in fr x : In x (dnames fr) -> exists k, a_find_decl fr x = Some (x, k).
Proof.
  intros H. destruct (a_find_decl fr x) as [[y k]|] eqn:E.
  - destruct (a_find_decl_some _ _ _ _ E) as [-> _]. exists k. reflexivity.
  - exfalso. apply (a_find_decl_none _ _ E). exact H.
Qed.

Lemma a_find_und_some fr x e : a_find_und fr x = Some e -> In e (fund fr) /\ uname e = x /\ is_uarg e = false.
Proof.
  unfold a_find_und. intros H. apply find_some in H. destruct H as [H1 H2]. split; [exact H1|].
  destruct e; cbn in *; try discriminate; (split; [apply Z.eqb_eq; exact H2|reflexivity]).
Qed.

Lemma a_find_und_none fr x : a_find_und fr x = None -> forall e, In e (fund fr) -> is_uarg e = false -> uname e <> x.
Proof.
  unfold a_find_und. intros H e He Ha E. pose proof (find_none _ _ H e He) as Hn.
  destruct e; cbn in *; try discriminate; apply Z.eqb_neq in Hn; contradiction.
Qed.

Lemma in_pend_names y l : In y (pend_names l) <-> In (UPend y) l.
Proof.
  induction l as [|[x|x fs|x] t IH]; cbn; [tauto| | |].
  - rewrite IH. split; intros [H|H]; [left; congruence|right; exact H|left; congruence|right; exact H].
  - rewrite IH. split; [intros H; right; exact H|intros [H|H]; [discriminate|exact H]].
  - rewrite IH. split; [intros H; right; exact H|intros [H|H]; [discriminate|exact H]].
Qed.

Lemma in_arg_names y l : In y (arg_names l) <-> In (UArg y) l.
Proof.
  induction l as [|[x|x fs|x] t IH]; cbn; [tauto| | |].
  - rewrite IH. split; [intros H; right; exact H|intros [H|H]; [discriminate|exact H]].
  - rewrite IH. split; [intros H; right; exact H|intros [H|H]; [discriminate|exact H]].
  - rewrite IH. split; intros [H|H]; [left; congruence|right; exact H|left; congruence|right; exact H].
Qed.

Lemma pend_names_app l1 l2 : pend_names (l1 ++ l2) = pend_names l1 ++ pend_names l2.
Proof. induction l1 as [|[x|x fs|x] t IH]; cbn; [reflexivity| | |]; rewrite IH; reflexivity. Qed.

Lemma arg_names_app l1 l2 : arg_names (l1 ++ l2) = arg_names l1 ++ arg_names l2.
Proof. induction l1 as [|[x|x fs|x] t IH]; cbn; [reflexivity| | |]; rewrite IH; reflexivity. Qed.

Lemma in_firstn_app {A} (l l2 : list A) n x : (n <= length l)%nat -> In x (firstn n l) -> In x (firstn n (l ++ l2)).
Proof.
  intros Hn H. rewrite firstn_app. replace (n - length l)%nat with O by lia. cbn [firstn]. rewrite app_nil_r. exact H.
Qed.

(* ---- Use ------------------------------------------------------------------------------------------------- *)
Lemma L_use a fr pr rest x :
  AInv a ((fr, pr) :: rest) ->
  exists a' fr' L,
    a_use a x = ARun a' /\ AInv a' ((fr', pr) :: rest) /\
    fid fr' = fid fr /\ fisfunc fr' = fisfunc fr /\ fdecl fr' = fdecl fr /\ fnarg fr' = fnarg fr /\
    alog a' = L :: alog a /\ anext a' = anext a /\
    final (env_of ((fr, pr) :: rest)) L = lookup (env_of ((fr, pr) :: rest)) x /\
    (forall e, In e (fund fr') -> In e (fund fr) \/ e = UPend x).
Proof.
  intros [As Af An Al Aa]. cbn [map fst] in As. destruct Af as [Kf Krest].
  unfold a_use. rewrite As.
  destruct (a_find_decl fr x) as [[y k]|] eqn:Ed.
  - (* declared here *)
    destruct (a_find_decl_some _ _ _ _ Ed) as [-> Hin]. destruct (K_decl _ _ _ Kf x k Hin) as [Hp _].
    exists (mkA (fr :: map fst rest) (anext a) (LDecl (fid fr) x :: alog a)), fr, (LDecl (fid fr) x).
    split; [reflexivity|]. split.
    { constructor; [reflexivity|split; assumption|exact An| |].
      - intros s y [E|H]; [discriminate|]. apply Al. exact H.
      - intros s y [E|H]; [discriminate|]. apply Aa. exact H. }
    split; [reflexivity|]. split; [reflexivity|]. split; [reflexivity|]. split; [reflexivity|]. split; [reflexivity|]. split; [reflexivity|].
    split; [cbn [final env_of map fst snd]; symmetry; apply lookup_head; exact Hp|intros e He; left; exact He].
  - destruct (a_find_und fr x) as [[y|y fs|y]|] eqn:Eu.
    + (* used before here *)
      destruct (a_find_und_some _ _ _ Eu) as (Hin & Hn & _). cbn in Hn. subst y.
      exists (mkA (fr :: map fst rest) (anext a) (LPend (fid fr) x :: alog a)), fr, (LPend (fid fr) x).
      split; [reflexivity|]. split.
      { constructor; [reflexivity|split; assumption|exact An| |].
        - intros s y [E|H]; [|apply Al; exact H]. inversion E; subst. exists (fr, pr). split; [left; reflexivity|]. split; [reflexivity|exact Hin].
        - intros s y [E|H]; [discriminate|]. apply Aa. exact H. }
      split; [reflexivity|]. split; [reflexivity|]. split; [reflexivity|]. split; [reflexivity|]. split; [reflexivity|]. split; [reflexivity|].
      split; [cbn [final env_of map fst snd]; rewrite drop_to_head; reflexivity|intros e He; left; exact He].
    + (* a declaration passed through this block *)
      destruct (a_find_und_some _ _ _ Eu) as (Hin & Hn & _). cbn in Hn. subst y.
      destruct (K_pass _ _ _ Kf x fs Hin) as [_ Hp].
      exists (mkA (fr :: map fst rest) (anext a) (LDecl fs x :: alog a)), fr, (LDecl fs x).
      split; [reflexivity|]. split.
      { constructor; [reflexivity|split; assumption|exact An| |].
        - intros s y [E|H]; [discriminate|]. apply Al. exact H.
        - intros s y [E|H]; [discriminate|]. apply Aa. exact H. }
      split; [reflexivity|]. split; [reflexivity|]. split; [reflexivity|]. split; [reflexivity|]. split; [reflexivity|]. split; [reflexivity|].
      split; [cbn [final]; symmetry; apply lookup_pass; exact Hp|intros e He; left; exact He].
    + (* not returned by the search *)
      destruct (a_find_und_some _ _ _ Eu) as (_ & _ & Hc). discriminate.
    + (* first use (the uses made in the parameter list do not count) *)
      set (fr' := set_fund fr (fund fr ++ [UPend x])).
      exists (mkA (fr' :: map fst rest) (anext a) (LPend (fid fr) x :: alog a)), fr', (LPend (fid fr) x).
      split; [reflexivity|]. split.
      { constructor; [reflexivity| | | |].
        - split; [|exact Krest]. destruct Kf as [K1 K2 K3 K4 K5 K6 K7 K8 K9 K10 K11 K12]. destruct K7 as [K7a K7b].
          constructor; try assumption.
          + intros y Hy. cbn [fund fr' set_fund] in Hy. apply in_app_last in Hy. destruct Hy as [Hy|Hy]; [apply K3; exact Hy|].
            inversion Hy; subst. apply a_find_decl_none. exact Ed.
          + intros y fs Hy. cbn [fund fr' set_fund] in Hy. apply in_app_last in Hy. destruct Hy as [Hy|Hy]; [|discriminate].
            exact (K4 y fs Hy).
          + cbn [fund fr' set_fund]. rewrite pend_names_app. cbn. apply nodup_app_last; [exact K6|].
            intros Hin. apply in_pend_names in Hin. apply (a_find_und_none _ _ Eu _ Hin); reflexivity.
          + cbn [fund fnarg fr' set_fund]. split; [rewrite app_length; lia|].
            rewrite firstn_app. replace (fnarg fr - length (fund fr))%nat with O by lia. cbn [firstn]. rewrite app_nil_r. exact K7b.
          + intros y Hy. cbn [fund fnarg fr' set_fund] in *. apply in_app_last in Hy. destruct Hy as [Hy|Hy]; [|discriminate].
            apply in_firstn_app; [exact K7a|apply K8; exact Hy].
          + cbn [fund fr' set_fund]. rewrite arg_names_app. cbn. rewrite app_nil_r. exact K9.
        - intros fp [<-|H]; [apply (An (fr, pr)); left; reflexivity|apply An; right; exact H].
        - intros s y [E|H].
          + inversion E; subst. exists (fr', pr). split; [left; reflexivity|]. split; [reflexivity|].
            cbn. apply in_app_last. right. reflexivity.
          + destruct (Al s y H) as ([g pg] & Hg & Hs & Hu). destruct Hg as [Eg|Hg].
            * injection Eg as E1 E2. subst g pg. exists (fr', pr). split; [left; reflexivity|]. split; [exact Hs|]. cbn. apply in_app_last. left. exact Hu.
            * exists (g, pg). split; [right; exact Hg|]. split; assumption.
        - intros s y [E|H]; [discriminate|].
          destruct (Aa s y H) as ([g pg] & Hg & Hs & Hu). destruct Hg as [Eg|Hg].
          * injection Eg as E1 E2. subst g pg. exists (fr', pr). split; [left; reflexivity|]. split; [exact Hs|]. cbn. apply in_app_last. left. exact Hu.
          * exists (g, pg). split; [right; exact Hg|]. split; assumption. }
      split; [reflexivity|]. split; [reflexivity|]. split; [reflexivity|]. split; [reflexivity|]. split; [reflexivity|]. split; [reflexivity|].
      split; [cbn [final env_of map fst snd]; rewrite drop_to_head; reflexivity|].
      intros e He. cbn [fund fr' set_fund] in He. apply in_app_last in He. exact He.
Qed.

(* ---- Enter ------------------------------------------------------------------------------------------------ *)
Lemma L_enter a z f pr :
  AInv a z -> (forall y, In y (plex pr) -> ~ In y (pvar pr)) ->
  exists a', a_enter a f = ARun a' /\
    AInv a' ((mkF (anext a) f [] [] O O, pr) :: z) /\ alog a' = alog a /\ anext a' = S (anext a).
Proof.
  intros [As Af An Al Aa] Hdisj.
  exists (mkA (mkF (anext a) f [] [] O O :: astack a) (S (anext a)) (alog a)).
  split; [reflexivity|]. split; [|split; reflexivity].
  constructor.
  - cbn. rewrite As. reflexivity.
  - split; [|exact Af]. constructor; cbn [fdecl fund fnarg fid dnames map pend_names arg_names firstn].
    + intros y k [].
    + exact Hdisj.
    + intros y [].
    + intros y fs [].
    + constructor.
    + constructor.
    + split; [lia|intros y []].
    + intros y [].
    + constructor.
    + intros g Hg. apply An. exact Hg.
    + intros _. reflexivity.
    + intros _. reflexivity.
  - intros fp [<-|H]; cbn; [lia|]. specialize (An fp H). lia.
  - intros s x H. destruct (Al s x H) as (fp & H1 & H2 & H3). exists fp. split; [right; exact H1|]. split; assumption.
  - intros s x H. destruct (Aa s x H) as (fp & H1 & H2 & H3). exists fp. split; [right; exact H1|]. split; assumption.
Qed.

(* ---- the marks: every use made so far in this scope is frozen ------------------------------------------------- *)
Lemma to_args_in e l : In e (to_args l) -> (exists y, e = UArg y /\ (In (UPend y) l \/ In (UArg y) l)) \/ (is_uarg e = false /\ In e l /\ forall y, e <> UPend y).
Proof.
  unfold to_args. intros H. apply in_map_iff in H. destruct H as (e0 & E & H0). destruct e0 as [y|y fs|y]; subst e.
  - left. exists y. split; [reflexivity|left; exact H0].
  - right. split; [reflexivity|]. split; [exact H0|discriminate].
  - left. exists y. split; [reflexivity|right; exact H0].
Qed.

Lemma to_args_pend l : pend_names (to_args l) = [].
Proof. induction l as [|[x|x fs|x] t IH]; cbn; try exact IH; reflexivity. Qed.

Lemma to_args_names l : existsb is_uarg l = false -> arg_names (to_args l) = pend_names l.
Proof.
  induction l as [|[x|x fs|x] t IH]; cbn; intros H; try discriminate; [reflexivity| |].
  - f_equal. apply IH. exact H.
  - apply IH. exact H.
Qed.

Lemma firstn_to_args l : firstn (length l) (to_args l) = to_args l.
Proof. rewrite <- (map_length (fun e => match e with UPend x => UArg x | _ => e end) l). apply firstn_all. Qed.

Lemma no_uarg_fnarg fr pr below : frame_ok fr pr below -> fnarg fr = O -> existsb is_uarg (fund fr) = false.
Proof.
  intros K H0. destruct (existsb is_uarg (fund fr)) eqn:E; [|reflexivity]. exfalso.
  apply existsb_exists in E. destruct E as ([y|y fs|y] & Hin & Hc); try discriminate.
  pose proof (K_arg _ _ _ K y Hin) as H. rewrite H0 in H. destruct H.
Qed.

Lemma args_log_in s lb log : In lb (args_log s log) ->
  (exists x, lb = LArg s x /\ (In (LPend s x) log \/ In (LArg s x) log)) \/ (In lb log /\ forall x, lb <> LPend s x).
Proof.
  unfold args_log. intros H. apply in_map_iff in H. destruct H as (l0 & E & H0). destruct l0 as [t x|t x|t x]; subst lb.
  - right. split; [exact H0|discriminate].
  - destruct (Nat.eqb_spec t s) as [->|Hne].
    + left. exists x. split; [reflexivity|left; exact H0].
    + right. split; [exact H0|]. intros y E. inversion E. contradiction.
  - destruct (Nat.eq_dec t s) as [->|Hne].
    + left. exists x. split; [reflexivity|right; exact H0].
    + right. split; [exact H0|discriminate].
Qed.

Lemma L_mark_gen a fr pr pr' rest (nfor : frame -> nat) :
  AInv a ((fr, pr) :: rest) -> pargs pr = false -> pargs pr' = true -> (fisfunc fr = true -> nfor fr = O) ->
  (forall y, In (UPend y) (fund fr) -> ~ In y (pnames pr)) ->
  (* the promise of the scope from the mark on *)
  (forall y k, In (y, k) (fdecl fr) -> In y (pnames pr') /\ (ArgumentDecl < k -> In y (plex pr'))) ->
  (forall y, In y (plex pr') -> ~ In y (pvar pr')) ->
  (forall y fs, In (UPass y fs) (fund fr) -> ~ In y (pall pr')) ->
  exists a' fr',
    a_mark a nfor = ARun a' /\ AInv a' ((fr', pr') :: rest) /\
    fid fr' = fid fr /\ fisfunc fr' = fisfunc fr /\ fdecl fr' = fdecl fr /\ fund fr' = to_args (fund fr) /\
    fnfor fr' = nfor fr /\
    map (final (env_of ((fr', pr') :: rest))) (alog a') = map (final (env_of ((fr, pr) :: rest))) (alog a) /\
    anext a' = anext a.
Proof.
  intros [As Af An Al Aa] Hpa Hpa' Hnf Hf Hd Hdisj Hpass. destruct Af as [Kf Krest]. unfold a_mark. rewrite As. cbn [map fst].
  assert (H0 : fnarg fr = O) by (apply (K_mark _ _ _ Kf Hpa)).
  rewrite (no_uarg_fnarg fr pr rest Kf H0).
  set (fr' := mkF (fid fr) (fisfunc fr) (fdecl fr) (to_args (fund fr)) (length (fund fr)) (nfor fr)).
  exists (mkA (fr' :: map fst rest) (anext a) (args_log (fid fr) (alog a))), fr'. split; [reflexivity|]. split.
  { constructor; [reflexivity| | | |].
    - split; [|exact Krest]. pose proof Kf as [K1 K2 K3 K4 K5 K6 K7 K8 K9 K10 K11 K12]. constructor; cbn [fund fnarg fnfor fisfunc fdecl fid fr']; try assumption.
      + intros y Hy. apply to_args_in in Hy. destruct Hy as [(z0 & E & _)|(_ & _ & Hn)]; [discriminate|]. exfalso. apply (Hn y). reflexivity.
      + intros y fs Hy. apply to_args_in in Hy. destruct Hy as [(z0 & E & _)|(_ & Hin & _)]; [discriminate|].
        destruct (K4 y fs Hin) as [Hb Hp]. split; [exact Hb|]. cbn [pass_ok] in Hp. rewrite Hb in Hp.
        cbn [pass_ok]. change (fisfunc fr') with (fisfunc fr). rewrite Hb. split; [apply (Hpass y fs Hin)|apply Hp].
      + rewrite to_args_pend. constructor.
      + split; [unfold to_args; rewrite map_length; lia|]. rewrite firstn_to_args. intros y Hy. apply to_args_in in Hy.
        destruct Hy as [(z0 & E & _)|(_ & _ & Hn)]; [discriminate|]. apply (Hn y). reflexivity.
      + intros y Hy. rewrite firstn_to_args. exact Hy.
      + rewrite to_args_names by (apply (no_uarg_fnarg fr pr rest Kf H0)). exact K6.
      + intros E. congruence.
    - intros fp [<-|H]; [apply (An (fr, pr)); left; reflexivity|apply An; right; exact H].
    - intros s y H. cbn [alog] in H. apply args_log_in in H. destruct H as [(x0 & E & _)|[H Hn]]; [discriminate|].
      destruct (Al s y H) as ([g pg] & Hg & Hs & Hu). destruct Hg as [Eg|Hg].
      + injection Eg as E1 E2. subst g pg. exfalso. apply (Hn y). cbn [fst] in Hs. rewrite <- Hs. reflexivity.
      + exists (g, pg). split; [right; exact Hg|]. split; assumption.
    - intros s y H. cbn [alog] in H. apply args_log_in in H. destruct H as [(x0 & E & [H|H])|[H _]].
      + inversion E; subst. destruct (Al _ _ H) as ([g pg] & Hg & Hs & Hu). destruct Hg as [Eg|Hg].
        * injection Eg as E1 E2. subst g pg. exists (fr', pr'). split; [left; reflexivity|]. split; [reflexivity|].
          cbn [fund fr' fst]. unfold to_args. apply in_map_iff. exists (UPend x0). split; [reflexivity|exact Hu].
        * exfalso. pose proof (K_fid _ _ _ Kf (g, pg) Hg) as Hlt. cbn [fst] in Hlt, Hs. lia.
      + inversion E; subst. destruct (Aa _ _ H) as ([g pg] & Hg & Hs & Hu). destruct Hg as [Eg|Hg].
        * injection Eg as E1 E2. subst g pg. exfalso. pose proof (K_arg _ _ _ Kf x0 Hu) as Hk. rewrite H0 in Hk. destruct Hk.
        * exfalso. pose proof (K_fid _ _ _ Kf (g, pg) Hg) as Hlt. cbn [fst] in Hlt, Hs. lia.
      + destruct (Aa s y H) as ([g pg] & Hg & Hs & Hu). destruct Hg as [Eg|Hg].
        * injection Eg as E1 E2. subst g pg. exfalso. pose proof (K_arg _ _ _ Kf y Hu) as Hk. rewrite H0 in Hk. destruct Hk.
        * exists (g, pg). split; [right; exact Hg|]. split; assumption. }
  split; [reflexivity|]. split; [reflexivity|]. split; [reflexivity|]. split; [reflexivity|]. split; [reflexivity|].
  split; [|reflexivity].
  cbn [alog]. unfold args_log. rewrite map_map. apply map_ext_in. intros lb Hlb.
  destruct lb as [t x|t x|t x]; [reflexivity| |].
  - destruct (Nat.eqb_spec t (fid fr)) as [->|Hne].
    + (* a pending use of this scope: the scope did not promise its name *)
      destruct (Al _ _ Hlb) as ([g pg] & Hg & Hs & Hu). destruct Hg as [Eg|Hg].
      * injection Eg as E1 E2. subst g pg. cbn [final env_of map fst snd fid fr']. rewrite !drop_to_head. cbn [tl].
        symmetry. apply lookup_skip. apply Hf. exact Hu.
      * exfalso. pose proof (K_fid _ _ _ Kf (g, pg) Hg) as Hlt. cbn [fst] in Hlt, Hs. lia.
    + cbn [final env_of map fst snd fid fr']. rewrite !drop_to_skip by congruence. reflexivity.
  - cbn [final env_of map fst snd fid fr']. destruct (Nat.eq_dec (fid fr) t) as [E|E].
    + rewrite E, !drop_to_head. reflexivity.
    + rewrite !drop_to_skip by exact E. reflexivity.
Qed.

Lemma no_uarg_unmarked fr pr below y : frame_ok fr pr below -> pargs pr = false -> ~ In (UArg y) (fund fr).
Proof. intros K Hp Hin. pose proof (K_arg _ _ _ K y Hin) as H. rewrite (K_mark _ _ _ K Hp) in H. destruct H. Qed.
