(* JsScope/AuxX.v — the side conditions of the fragment [core_x] imply [aux_distinct]: in the declarative resolution
   of a program of the fragment no name is bound both in an auxiliary scope and in the main scope of the same
   parser Scope.  Proof: every target is a binding of the environment or one of the bindings the program creates,
   and the created bindings of one scope number are distinct across main / auxiliary. *)
From Coq Require Import ZifyBool.
From Verif Require Import Common.Base Common.Tactics JsScope.Model JsScope.Spec JsScope.Resolve1 JsScope.Resolve5 JsScope.Resolve7
  JsScope.Rename JsScope.Bridge.

Definition bind := (nat * bool * Z)%type.

Definition ok_t (N : nat -> bool -> Z -> Prop) (bs : list bind) (t : target) : Prop :=
  match t with TGlobal _ => True | TBind s a x => N s a x \/ In (s, a, x) bs end.

Definition names_of (s : nat) (a : bool) (L : list Z) : list bind := map (fun x => (s, a, x)) L.

Definition distinct (bs : list bind) : Prop := forall s x, In (s, true, x) bs -> ~ In (s, false, x) bs.
Definition ranged (bs : list bind) (lo hi : nat) : Prop := forall s a x, In (s, a, x) bs -> (lo <= s < hi)%nat.

Lemma in_names_of s a L t b x : In (t, b, x) (names_of s a L) <-> t = s /\ b = a /\ In x L.
Proof.
  unfold names_of. rewrite in_map_iff. split.
  - intros (y & E & Hy). inversion E; subst. repeat split; try reflexivity. exact Hy.
  - intros (-> & -> & Hx). exists x. split; [reflexivity|exact Hx].
Qed.

Lemma ranged_names s a L : ranged (names_of s a L) s (S s).
Proof. intros t b x H. apply in_names_of in H. destruct H as (-> & _ & _). lia. Qed.

Lemma ranged_app bs1 bs2 lo hi : ranged bs1 lo hi -> ranged bs2 lo hi -> ranged (bs1 ++ bs2) lo hi.
Proof. intros H1 H2 s a x H. apply in_app_iff in H. destruct H as [H|H]; [apply (H1 s a x H)|apply (H2 s a x H)]. Qed.

Lemma ranged_weaken bs lo hi lo' hi' : ranged bs lo hi -> (lo' <= lo)%nat -> (hi <= hi')%nat -> ranged bs lo' hi'.
Proof. intros H H1 H2 s a x Hin. specialize (H s a x Hin). lia. Qed.

Lemma distinct_app bs1 bs2 lo mid hi :
  ranged bs1 lo mid -> ranged bs2 mid hi -> distinct bs1 -> distinct bs2 -> distinct (bs1 ++ bs2).
Proof.
  intros R1 R2 D1 D2 s x H Hf. apply in_app_iff in H. apply in_app_iff in Hf.
  destruct H as [H|H], Hf as [Hf|Hf].
  - apply (D1 s x H Hf).
  - specialize (R1 _ _ _ H). specialize (R2 _ _ _ Hf). lia.
  - specialize (R2 _ _ _ H). specialize (R1 _ _ _ Hf). lia.
  - apply (D2 s x H Hf).
Qed.

Lemma distinct_names s a L : distinct (names_of s a L).
Proof.
  intros t x H Hf. apply in_names_of in H. apply in_names_of in Hf. destruct H as (_ & E & _). destruct Hf as (_ & E' & _). congruence.
Qed.

(* the bindings of one scope number: auxiliary names L1 and main names L2 *)
Lemma distinct_aux_main s L1 L2 : (forall x, In x L1 -> ~ In x L2) -> distinct (names_of s true L1 ++ names_of s false L2).
Proof.
  intros Hd t x H Hf. apply in_app_iff in H. apply in_app_iff in Hf.
  destruct H as [H|H]; [|apply in_names_of in H; destruct H as (_ & E & _); discriminate].
  destruct Hf as [Hf|Hf]; [apply in_names_of in Hf; destruct Hf as (_ & E & _); discriminate|].
  apply in_names_of in H. apply in_names_of in Hf. destruct H as (_ & _ & H). destruct Hf as (_ & _ & Hf). apply (Hd x H Hf).
Qed.

Lemma ok_t_mono (N1 N2 : nat -> bool -> Z -> Prop) bs1 bs2 t :
  (forall s a x, N1 s a x -> N2 s a x \/ In (s, a, x) bs2) -> incl bs1 bs2 -> ok_t N1 bs1 t -> ok_t N2 bs2 t.
Proof. intros HN Hi. destruct t as [x|s a x]; cbn; [tauto|]. intros [H|H]; [apply HN; exact H|right; apply Hi; exact H]. Qed.

Lemma Forall_ok_mono (N1 N2 : nat -> bool -> Z -> Prop) bs1 bs2 ts :
  (forall s a x, N1 s a x -> N2 s a x \/ In (s, a, x) bs2) -> incl bs1 bs2 -> Forall (ok_t N1 bs1) ts -> Forall (ok_t N2 bs2) ts.
Proof. intros HN Hi H. eapply Forall_impl; [|exact H]. intros t. apply ok_t_mono; assumption. Qed.

Definition envN (e : env) (N : nat -> bool -> Z -> Prop) : Prop := forall s a L x, In (s, a, L) e -> In x L -> N s a x.

Lemma lookup_ok e N bs x : envN e N -> ok_t N bs (lookup e x).
Proof.
  intros He. destruct (lookup e x) as [z|s a z] eqn:E; [exact I|]. pose proof (lookup_name e x) as Hn. rewrite E in Hn. subst z.
  destruct (lookup_in e x s a E) as (L & H1 & H2). left. apply (He s a L x H1 H2).
Qed.

(* N extended by the names of a new scope *)
Definition addN (N : nat -> bool -> Z -> Prop) (s : nat) (a : bool) (L : list Z) : nat -> bool -> Z -> Prop :=
  fun t b x => N t b x \/ (t = s /\ b = a /\ In x L).

Lemma envN_push e N s a L : envN e N -> envN ((s, a, L) :: e) (addN N s a L).
Proof.
  intros He t b L' x [E|Hin] Hx; [inversion E; subst; right; repeat split; try reflexivity; exact Hx|left; apply (He t b L' x Hin Hx)].
Qed.

Lemma envN_weaken e N s a L : envN e N -> envN e (addN N s a L).
Proof. intros He t b L' x Hin Hx. left. apply (He t b L' x Hin Hx). Qed.

Definition P (p : prog) : Prop := forall e fs cur ca n N,
  envN e N ->
  (forall x, In x (lexdecls p ++ headdecls p) -> N cur ca x) ->
  (forall x, In x (vardecls p) -> N fs false x) ->
  exists bs, Forall (ok_t N bs) (fst (resolve e fs cur ca n p)) /\
             ranged bs n (snd (resolve e fs cur ca n p)) /\ distinct bs.

Lemma P_done : P Done.
Proof. intros e fs cur ca n N _ _ _. exists []. split; [constructor|]. split; intros s a x []. Qed.

Lemma P_ref x k : P k -> P (Ref x k).
Proof.
  intros IH e fs cur ca n N He Hl Hv. destruct (IH e fs cur ca n N He Hl Hv) as (bs & H1 & H2 & H3).
  exists bs. cbn [resolve]. destruct (resolve e fs cur ca n k). cbn [fst snd] in *.
  split; [constructor; [apply lookup_ok; exact He|exact H1]|]. split; assumption.
Qed.

Lemma P_decl d x k : P k -> P (Decl d x k).
Proof.
  intros IH e fs cur ca n N He Hl Hv. cbn [lexdecls headdecls vardecls] in Hl, Hv.
  destruct (IH e fs cur ca n N He) as (bs & H1 & H2 & H3).
  { intros y Hy. apply Hl. apply in_app_iff in Hy. apply in_app_iff. destruct Hy as [Hy|Hy]; [left|right]; apply in_app_iff; right; exact Hy. }
  { intros y Hy. apply Hv. apply in_app_iff. right. exact Hy. }
  exists bs. cbn [resolve]. destruct (resolve e fs cur ca n k). cbn [fst snd] in *.
  split; [|split; assumption]. constructor; [|exact H1].
  destruct d; cbn [is_var ok_t]; left.
  - apply Hv. left. reflexivity.
  - apply Hv. left. reflexivity.
  - apply Hl. left. reflexivity.
  - apply Hl. apply in_app_iff. right. left. reflexivity.
  - apply Hl. apply in_app_iff. right. left. reflexivity.
Qed.

Lemma ranged_le bs lo hi : ranged bs lo hi -> bs <> [] -> (lo < hi)%nat.
Proof. intros H Hn. destruct bs as [|[[s a] x] t]; [congruence|]. specialize (H s a x (or_introl eq_refl)). lia. Qed.

Lemma P_block b k : headdecls b = [] -> P b -> P k -> P (Block b k).
Proof.
  intros Hb0 IHb IHk e fs cur ca n N He Hl Hv. cbn [lexdecls headdecls vardecls] in Hl, Hv. cbn [resolve].
  pose proof (resolve_counter_mono b ((n, false, lexdecls b) :: e) fs n false (S n)) as Hm1.
  destruct (IHb ((n, false, lexdecls b) :: e) fs n false (S n) (addN N n false (lexdecls b))) as (bs1 & B1 & B2 & B3).
  { apply envN_push. exact He. }
  { rewrite Hb0, app_nil_r. intros y Hy. right. repeat split; try reflexivity. exact Hy. }
  { intros y Hy. left. apply Hv. apply in_app_iff. left. exact Hy. }
  destruct (resolve ((n, false, lexdecls b) :: e) fs n false (S n) b) as [rb n1]. cbn [fst snd] in *.
  pose proof (resolve_counter_mono k e fs cur ca n1) as Hm2.
  destruct (IHk e fs cur ca n1 N He Hl) as (bs2 & K1 & K2 & K3).
  { intros y Hy. apply Hv. apply in_app_iff. right. exact Hy. }
  destruct (resolve e fs cur ca n1 k) as [rk n2]. cbn [fst snd] in *.
  exists (names_of n false (lexdecls b) ++ bs1 ++ bs2). split; [|split].
  - apply Forall_app. split.
    + eapply Forall_ok_mono; [| |exact B1].
      * intros s a x [H|(-> & -> & H)]; [left; exact H|right; apply in_app_iff; left; apply in_names_of; repeat split; try reflexivity; exact H].
      * intros t Ht. apply in_app_iff. right. apply in_app_iff. left. exact Ht.
    + eapply Forall_ok_mono; [| |exact K1]; [intros s a x H; left; exact H|].
      intros t Ht. apply in_app_iff. right. apply in_app_iff. right. exact Ht.
  - apply ranged_app; [eapply ranged_weaken; [apply ranged_names|lia|lia]|].
    apply ranged_app; [eapply ranged_weaken; [exact B2|lia|lia]|eapply ranged_weaken; [exact K2|lia|lia]].
  - apply (distinct_app _ _ n (S n) n2); [apply ranged_names| |apply distinct_names|].
    + apply ranged_app; [eapply ranged_weaken; [exact B2|lia|lia]|eapply ranged_weaken; [exact K2|lia|lia]].
    + apply (distinct_app _ _ (S n) n1 n2); assumption.
Qed.

(* functions: the expression name (auxiliary scope), the parameters and the declarations of the body *)
Lemma P_func nm ps b k :
  lexdecls ps = [] -> vardecls ps = [] -> headdecls b = [] ->
  (forall g, nm = Some g -> ~ In g (headdecls ps ++ vardecls b ++ lexdecls b)) ->
  P ps -> P b -> P k -> P (Func nm ps b k) /\ (nm = None -> P (Arrow ps b k)).
Proof.
  intros Hpl Hpv Hb0 Hg IHp IHb IHk.
  set (nl := match nm with Some g => [g] | None => [] end).
  set (names := headdecls ps ++ vardecls b ++ lexdecls b).
  assert (G : forall e fs cur ca n N, envN e N ->
            (forall x, In x (lexdecls k ++ headdecls k) -> N cur ca x) -> (forall x, In x (vardecls k) -> N fs false x) ->
            let e1 := match nm with Some g => (n, true, [g]) :: e | None => e end in
            forall rp n1 rb n2 rk n3,
            resolve ((n, false, headdecls ps) :: e1) n n false (S n) ps = (rp, n1) ->
            resolve ((n, false, names) :: e1) n n false n1 b = (rb, n2) ->
            resolve e fs cur ca n2 k = (rk, n3) ->
            exists bs, Forall (ok_t N bs) (map (TBind n true) nl ++ rp ++ rb ++ rk) /\ ranged bs n n3 /\ distinct bs).
  { intros e fs cur ca n N He Hl Hv e1 rp n1 rb n2 rk n3 Ep Eb Ek.
    set (N1 := addN (addN N n true nl) n false names).
    assert (He1 : envN e1 (addN N n true nl)).
    { unfold e1, nl. destruct nm as [g|]; [apply envN_push; exact He|apply envN_weaken; exact He]. }
    pose proof (resolve_counter_mono ps ((n, false, headdecls ps) :: e1) n n false (S n)) as Hm1. rewrite Ep in Hm1. cbn [snd] in Hm1.
    pose proof (resolve_counter_mono b ((n, false, names) :: e1) n n false n1) as Hm2. rewrite Eb in Hm2. cbn [snd] in Hm2.
    pose proof (resolve_counter_mono k e fs cur ca n2) as Hm3. rewrite Ek in Hm3. cbn [snd] in Hm3.
    destruct (IHp ((n, false, headdecls ps) :: e1) n n false (S n) N1) as (bs1 & A1 & A2 & A3).
    { intros s a L x [E|Hin] Hx.
      - inversion E; subst. right. repeat split; try reflexivity. unfold names. apply in_app_iff. left. exact Hx.
      - left. apply (He1 s a L x Hin Hx). }
    { rewrite Hpl. cbn [app]. intros y Hy. right. repeat split; try reflexivity. unfold names. apply in_app_iff. left. exact Hy. }
    { rewrite Hpv. intros y []. }
    rewrite Ep in A1, A2. cbn [fst snd] in A1, A2.
    destruct (IHb ((n, false, names) :: e1) n n false n1 N1) as (bs2 & B1 & B2 & B3).
    { apply envN_push. exact He1. }
    { rewrite Hb0, app_nil_r. intros y Hy. right. repeat split; try reflexivity. unfold names. apply in_app_iff. right. apply in_app_iff. right. exact Hy. }
    { intros y Hy. right. repeat split; try reflexivity. unfold names. apply in_app_iff. right. apply in_app_iff. left. exact Hy. }
    rewrite Eb in B1, B2. cbn [fst snd] in B1, B2.
    destruct (IHk e fs cur ca n2 N He Hl Hv) as (bs3 & K1 & K2 & K3).
    rewrite Ek in K1, K2. cbn [fst snd] in K1, K2.
    set (new := names_of n true nl ++ names_of n false names).
    assert (HN1 : forall s a x, N1 s a x -> N s a x \/ In (s, a, x) (new ++ bs1 ++ bs2 ++ bs3)).
    { intros s a x [[H|(-> & -> & H)]|(-> & -> & H)]; [left; exact H|right|right]; apply in_app_iff; left; unfold new; apply in_app_iff;
        [left|right]; apply in_names_of; repeat split; try reflexivity; exact H. }
    exists (new ++ bs1 ++ bs2 ++ bs3). split; [|split].
    - apply Forall_app. split.
      { apply Forall_forall. intros t Ht. apply in_map_iff in Ht. destruct Ht as (g & <- & Hgin). cbn [ok_t]. right.
        apply in_app_iff. left. unfold new. apply in_app_iff. left. apply in_names_of. repeat split; try reflexivity. exact Hgin. }
      apply Forall_app. split.
      { eapply Forall_ok_mono; [exact HN1| |exact A1]. intros t Ht. apply in_app_iff. right. apply in_app_iff. left. exact Ht. }
      apply Forall_app. split.
      { eapply Forall_ok_mono; [exact HN1| |exact B1]. intros t Ht. apply in_app_iff. right. apply in_app_iff. right. apply in_app_iff. left. exact Ht. }
      eapply Forall_ok_mono; [| |exact K1]; [intros s a x H; left; exact H|].
      intros t Ht. apply in_app_iff. right. apply in_app_iff. right. apply in_app_iff. right. exact Ht.
    - apply ranged_app.
      { unfold new. apply ranged_app; (eapply ranged_weaken; [apply ranged_names|lia|lia]). }
      apply ranged_app; [eapply ranged_weaken; [exact A2|lia|lia]|].
      apply ranged_app; [eapply ranged_weaken; [exact B2|lia|lia]|eapply ranged_weaken; [exact K2|lia|lia]].
    - apply (distinct_app _ _ n (S n) n3).
      + unfold new. apply ranged_app; apply ranged_names.
      + apply ranged_app; [eapply ranged_weaken; [exact A2|lia|lia]|].
        apply ranged_app; [eapply ranged_weaken; [exact B2|lia|lia]|eapply ranged_weaken; [exact K2|lia|lia]].
      + unfold new. apply distinct_aux_main. unfold nl. destruct nm as [g|]; [|intros x []].
        intros x [E|[]]. subst x. apply (Hg g eq_refl).
      + apply (distinct_app _ _ (S n) n1 n3); [exact A2| |exact A3|].
        * apply ranged_app; [eapply ranged_weaken; [exact B2|lia|lia]|eapply ranged_weaken; [exact K2|lia|lia]].
        * apply (distinct_app _ _ n1 n2 n3); assumption. }
  split.
  - intros e fs cur ca n N He Hl Hv. cbn [lexdecls headdecls vardecls] in Hl, Hv. cbn [resolve].
    specialize (G e fs cur ca n N He Hl Hv). cbn zeta in G. fold names.
    destruct nm as [g|]; cbn [nl map app] in G.
    + destruct (resolve ((n, false, headdecls ps) :: (n, true, [g]) :: e) n n false (S n) ps) as [rp n1] eqn:Ep.
      destruct (resolve ((n, false, names) :: (n, true, [g]) :: e) n n false n1 b) as [rb n2] eqn:Eb.
      destruct (resolve e fs cur ca n2 k) as [rk n3] eqn:Ek. cbn [fst snd app].
      apply (G rp n1 rb n2 rk n3 eq_refl Eb Ek).
    + destruct (resolve ((n, false, headdecls ps) :: e) n n false (S n) ps) as [rp n1] eqn:Ep.
      destruct (resolve ((n, false, names) :: e) n n false n1 b) as [rb n2] eqn:Eb.
      destruct (resolve e fs cur ca n2 k) as [rk n3] eqn:Ek. cbn [fst snd app].
      apply (G rp n1 rb n2 rk n3 eq_refl Eb Ek).
  - intros -> e fs cur ca n N He Hl Hv. cbn [lexdecls headdecls vardecls] in Hl, Hv. cbn [resolve].
    specialize (G e fs cur ca n N He Hl Hv). cbn zeta in G. fold names. cbn [nl map app] in G.
    destruct (resolve ((n, false, headdecls ps) :: e) n n false (S n) ps) as [rp n1] eqn:Ep.
    destruct (resolve ((n, false, names) :: e) n n false n1 b) as [rb n2] eqn:Eb.
    destruct (resolve e fs cur ca n2 k) as [rk n3] eqn:Ek. cbn [fst snd].
    apply (G rp n1 rb n2 rk n3 eq_refl Eb Ek).
Qed.

Lemma P_for hd b k :
  headdecls hd = [] -> headdecls b = [] -> (forall x, In x (lexdecls hd) -> ~ In x (lexdecls b)) ->
  P hd -> P b -> P k -> P (For hd b k).
Proof.
  intros Hh0 Hb0 Hdis IHh IHb IHk e fs cur ca n N He Hl Hv. cbn [lexdecls headdecls vardecls] in Hl, Hv. cbn [resolve].
  set (N1 := addN N n true (lexdecls hd)). set (N2 := addN N1 n false (lexdecls b)).
  pose proof (resolve_counter_mono hd ((n, true, lexdecls hd) :: e) fs n true (S n)) as Hm1.
  destruct (IHh ((n, true, lexdecls hd) :: e) fs n true (S n) N1) as (bs1 & A1 & A2 & A3).
  { apply envN_push. exact He. }
  { rewrite Hh0, app_nil_r. intros y Hy. right. repeat split; try reflexivity. exact Hy. }
  { intros y Hy. left. apply Hv. apply in_app_iff. left. exact Hy. }
  destruct (resolve ((n, true, lexdecls hd) :: e) fs n true (S n) hd) as [rh n1]. cbn [fst snd] in *.
  pose proof (resolve_counter_mono b ((n, false, lexdecls b) :: (n, true, lexdecls hd) :: e) fs n false n1) as Hm2.
  destruct (IHb ((n, false, lexdecls b) :: (n, true, lexdecls hd) :: e) fs n false n1 N2) as (bs2 & B1 & B2 & B3).
  { apply envN_push. apply envN_push. exact He. }
  { rewrite Hb0, app_nil_r. intros y Hy. right. repeat split; try reflexivity. exact Hy. }
  { intros y Hy. left. left. apply Hv. apply in_app_iff. right. apply in_app_iff. left. exact Hy. }
  destruct (resolve ((n, false, lexdecls b) :: (n, true, lexdecls hd) :: e) fs n false n1 b) as [rb n2]. cbn [fst snd] in *.
  pose proof (resolve_counter_mono k e fs cur ca n2) as Hm3.
  destruct (IHk e fs cur ca n2 N He Hl) as (bs3 & K1 & K2 & K3).
  { intros y Hy. apply Hv. apply in_app_iff. right. apply in_app_iff. right. exact Hy. }
  destruct (resolve e fs cur ca n2 k) as [rk n3]. cbn [fst snd] in *.
  set (new := names_of n true (lexdecls hd) ++ names_of n false (lexdecls b)).
  assert (HN2 : forall s a x, N2 s a x -> N s a x \/ In (s, a, x) (new ++ bs1 ++ bs2 ++ bs3)).
  { intros s a x [[H|(-> & -> & H)]|(-> & -> & H)]; [left; exact H|right|right]; apply in_app_iff; left; unfold new; apply in_app_iff;
      [left|right]; apply in_names_of; repeat split; try reflexivity; exact H. }
  assert (HN1 : forall s a x, N1 s a x -> N s a x \/ In (s, a, x) (new ++ bs1 ++ bs2 ++ bs3)).
  { intros s a x H. apply HN2. left. exact H. }
  exists (new ++ bs1 ++ bs2 ++ bs3). split; [|split].
  - apply Forall_app. split.
    { eapply Forall_ok_mono; [exact HN1| |exact A1]. intros t Ht. apply in_app_iff. right. apply in_app_iff. left. exact Ht. }
    apply Forall_app. split.
    { eapply Forall_ok_mono; [exact HN2| |exact B1]. intros t Ht. apply in_app_iff. right. apply in_app_iff. right. apply in_app_iff. left. exact Ht. }
    eapply Forall_ok_mono; [| |exact K1]; [intros s a x H; left; exact H|].
    intros t Ht. apply in_app_iff. right. apply in_app_iff. right. apply in_app_iff. right. exact Ht.
  - apply ranged_app.
    { unfold new. apply ranged_app; (eapply ranged_weaken; [apply ranged_names|lia|lia]). }
    apply ranged_app; [eapply ranged_weaken; [exact A2|lia|lia]|].
    apply ranged_app; [eapply ranged_weaken; [exact B2|lia|lia]|eapply ranged_weaken; [exact K2|lia|lia]].
  - apply (distinct_app _ _ n (S n) n3).
    + unfold new. apply ranged_app; apply ranged_names.
    + apply ranged_app; [eapply ranged_weaken; [exact A2|lia|lia]|].
      apply ranged_app; [eapply ranged_weaken; [exact B2|lia|lia]|eapply ranged_weaken; [exact K2|lia|lia]].
    + unfold new. apply distinct_aux_main. exact Hdis.
    + apply (distinct_app _ _ (S n) n1 n3); [exact A2| |exact A3|].
      * apply ranged_app; [eapply ranged_weaken; [exact B2|lia|lia]|eapply ranged_weaken; [exact K2|lia|lia]].
      * apply (distinct_app _ _ n1 n2 n3); assumption.
Qed.

Lemma P_catch hd b k : lexdecls hd = [] -> vardecls hd = [] -> headdecls b = [] -> P hd -> P b -> P k -> P (Catch hd b k).
Proof.
  intros Ehl Ehv Hb0 IHh IHb IHk e fs cur ca n N He Hl Hv. cbn [lexdecls headdecls vardecls] in Hl, Hv. cbn [resolve].
  set (names := headdecls hd ++ lexdecls b). set (N1 := addN N n false names).
  pose proof (resolve_counter_mono hd ((n, false, headdecls hd) :: e) fs n false (S n)) as Hm0.
  destruct (IHh ((n, false, headdecls hd) :: e) fs n false (S n) N1) as (bs0 & A1 & A2 & A3).
  { intros t b0 L x [E|Hin] Hx.
    - inversion E; subst. right. repeat split; try reflexivity. unfold names. apply in_app_iff. left. exact Hx.
    - left. apply (He t b0 L x Hin Hx). }
  { rewrite Ehl. cbn [app]. intros y Hy. right. repeat split; try reflexivity. unfold names. apply in_app_iff. left. exact Hy. }
  { rewrite Ehv. intros y []. }
  destruct (resolve ((n, false, headdecls hd) :: e) fs n false (S n) hd) as [rh n0]. cbn [fst snd] in *.
  pose proof (resolve_counter_mono b ((n, false, names) :: e) fs n false n0) as Hm1.
  destruct (IHb ((n, false, names) :: e) fs n false n0 N1) as (bs1 & B1 & B2 & B3).
  { apply envN_push. exact He. }
  { rewrite Hb0, app_nil_r. intros y Hy. right. repeat split; try reflexivity. unfold names. apply in_app_iff. right. exact Hy. }
  { intros y Hy. left. apply Hv. apply in_app_iff. right. apply in_app_iff. left. exact Hy. }
  fold names. destruct (resolve ((n, false, names) :: e) fs n false n0 b) as [rb n1]. cbn [fst snd] in *.
  pose proof (resolve_counter_mono k e fs cur ca n1) as Hm2.
  destruct (IHk e fs cur ca n1 N He Hl) as (bs2 & K1 & K2 & K3).
  { intros y Hy. apply Hv. apply in_app_iff. right. apply in_app_iff. right. exact Hy. }
  destruct (resolve e fs cur ca n1 k) as [rk n2]. cbn [fst snd] in *.
  assert (HN1 : forall s a x, N1 s a x -> N s a x \/ In (s, a, x) (names_of n false names ++ bs0 ++ bs1 ++ bs2)).
  { intros s a x [H|(-> & -> & H)]; [left; exact H|right; apply in_app_iff; left; apply in_names_of; repeat split; try reflexivity; exact H]. }
  exists (names_of n false names ++ bs0 ++ bs1 ++ bs2). split; [|split].
  - apply Forall_app. split.
    { eapply Forall_ok_mono; [exact HN1| |exact A1]. intros t Ht. apply in_app_iff. right. apply in_app_iff. left. exact Ht. }
    apply Forall_app. split.
    { eapply Forall_ok_mono; [exact HN1| |exact B1]. intros t Ht. apply in_app_iff. right. apply in_app_iff. right. apply in_app_iff. left. exact Ht. }
    eapply Forall_ok_mono; [| |exact K1]; [intros s a x H; left; exact H|].
    intros t Ht. apply in_app_iff. right. apply in_app_iff. right. apply in_app_iff. right. exact Ht.
  - apply ranged_app; [eapply ranged_weaken; [apply ranged_names|lia|lia]|].
    apply ranged_app; [eapply ranged_weaken; [exact A2|lia|lia]|].
    apply ranged_app; [eapply ranged_weaken; [exact B2|lia|lia]|eapply ranged_weaken; [exact K2|lia|lia]].
  - apply (distinct_app _ _ n (S n) n2); [apply ranged_names| |apply distinct_names|].
    + apply ranged_app; [eapply ranged_weaken; [exact A2|lia|lia]|].
      apply ranged_app; [eapply ranged_weaken; [exact B2|lia|lia]|eapply ranged_weaken; [exact K2|lia|lia]].
    + apply (distinct_app _ _ (S n) n0 n2); [exact A2| |exact A3|].
      * apply ranged_app; [eapply ranged_weaken; [exact B2|lia|lia]|eapply ranged_weaken; [exact K2|lia|lia]].
      * apply (distinct_app _ _ n0 n1 n2); assumption.
Qed.

Lemma P_class ms k : lexdecls ms = [] -> headdecls ms = [] -> vardecls ms = [] -> P ms -> P k -> P (Class None ms k).
Proof.
  intros Hl0 Hh0 Hv0 IHm IHk e fs cur ca n N He Hl Hv. cbn [lexdecls headdecls vardecls] in Hl, Hv. cbn [resolve].
  pose proof (resolve_counter_mono ms e fs n false (S n)) as Hm1.
  destruct (IHm e fs n false (S n) N He) as (bs1 & B1 & B2 & B3).
  { rewrite Hl0, Hh0. intros y []. } { rewrite Hv0. intros y []. }
  destruct (resolve e fs n false (S n) ms) as [rm n1]. cbn [fst snd] in *.
  pose proof (resolve_counter_mono k e fs cur ca n1) as Hm2.
  destruct (IHk e fs cur ca n1 N He Hl Hv) as (bs2 & K1 & K2 & K3).
  destruct (resolve e fs cur ca n1 k) as [rk n2]. cbn [fst snd app] in *.
  exists (bs1 ++ bs2). split; [|split].
  - apply Forall_app. split.
    + eapply Forall_ok_mono; [| |exact B1]; [intros s a x H; left; exact H|]. intros t Ht. apply in_app_iff. left. exact Ht.
    + eapply Forall_ok_mono; [| |exact K1]; [intros s a x H; left; exact H|]. intros t Ht. apply in_app_iff. right. exact Ht.
  - apply ranged_app; [eapply ranged_weaken; [exact B2|lia|lia]|eapply ranged_weaken; [exact K2|lia|lia]].
  - apply (distinct_app _ _ (S n) n1 n2); assumption.
Qed.

Theorem core_x_P p : (core_x p = true -> P p) /\ (forall c, hcore_x c p = true -> P p).
Proof.
  induction p; (split; [intros Hc; cbn [core_x] in Hc|intros c Hc; cbn [hcore_x] in Hc]); try discriminate.
  - exact P_done.
  - exact P_done.
  - apply P_ref. apply (proj1 IHp). exact Hc.
  - andbs. apply P_ref. apply (proj2 IHp c). assumption.
  - andbs. apply P_decl. apply (proj1 IHp). assumption.
  - destruct d; try discriminate; destruct c; try discriminate; apply P_decl; eapply (proj2 IHp); exact Hc.
  - andbs. apply P_block; [apply core_x_headdecls; assumption|apply (proj1 IHp1); assumption|apply (proj1 IHp2); assumption].
  - (* Func, statement list *)
    apply andb_true_iff in Hc. destruct Hc as [Hc H5]. apply andb_true_iff in Hc. destruct Hc as [Hc H4].
    apply andb_true_iff in Hc. destruct Hc as [H1 H3].
    destruct (pcore_x_lexvar p1 H1) as [E1 E2].
    apply (P_func nm p1 p2 p3 E1 E2 (core_x_headdecls p2 H3)); [|apply (proj2 IHp1 false); exact H1|apply (proj1 IHp2); exact H3|apply (proj1 IHp3); exact H4].
    intros g ->. apply negb_true_iff in H5. apply mem_not_in. exact H5.
  - (* Func, parameter list *)
    apply andb_true_iff in Hc. destruct Hc as [Hc H6]. apply andb_true_iff in Hc. destruct Hc as [Hc H5].
    apply andb_true_iff in Hc. destruct Hc as [Hc H4]. apply andb_true_iff in Hc. destruct Hc as [H1 H3].
    destruct (pcore_x_lexvar p1 H1) as [E1 E2].
    apply (P_func nm p1 p2 p3 E1 E2 (core_x_headdecls p2 H3)); [|apply (proj2 IHp1 false); exact H1|apply (proj1 IHp2); exact H3|apply (proj2 IHp3 c); exact H5].
    intros g ->. apply andb_true_iff in H6. destruct H6 as [H6 _]. apply negb_true_iff in H6. apply mem_not_in. exact H6.
  - (* Arrow, statement list *)
    apply andb_true_iff in Hc. destruct Hc as [Hc H4]. apply andb_true_iff in Hc. destruct Hc as [H1 H3].
    destruct (pcore_x_lexvar p1 H1) as [E1 E2].
    apply (P_func None p1 p2 p3 E1 E2 (core_x_headdecls p2 H3)); [discriminate|apply (proj2 IHp1 false); exact H1|apply (proj1 IHp2); exact H3|apply (proj1 IHp3); exact H4|reflexivity].
  - (* Arrow, parameter list *)
    apply andb_true_iff in Hc. destruct Hc as [Hc H5]. apply andb_true_iff in Hc. destruct Hc as [Hc H4].
    apply andb_true_iff in Hc. destruct Hc as [H1 H3].
    destruct (pcore_x_lexvar p1 H1) as [E1 E2].
    apply (P_func None p1 p2 p3 E1 E2 (core_x_headdecls p2 H3)); [discriminate|apply (proj2 IHp1 false); exact H1|apply (proj1 IHp2); exact H3|apply (proj2 IHp3 c); exact H5|reflexivity].
  - (* For *)
    apply andb_true_iff in Hc. destruct Hc as [Hc H5]. apply andb_true_iff in Hc. destruct Hc as [Hc H4].
    apply andb_true_iff in Hc. destruct Hc as [Hc H3]. apply andb_true_iff in Hc. destruct Hc as [H1 H2].
    apply P_for; [apply core_x_headdecls; exact H1|apply core_x_headdecls; exact H2| |apply (proj1 IHp1); exact H1|apply (proj1 IHp2); exact H2|apply (proj1 IHp3); exact H3].
    intros x Hx. apply (disjointb_spec _ _ H4). exact Hx.
  - (* Catch *)
    apply andb_true_iff in Hc. destruct Hc as [Hc H4]. apply andb_true_iff in Hc. destruct Hc as [Hc H3].
    apply andb_true_iff in Hc. destruct Hc as [H1 H2]. destruct (hcore_x_lexvar true p1 H1) as [E1 E2].
    apply P_catch; [exact E1|exact E2|apply core_x_headdecls; exact H3|apply (proj2 IHp1 true); exact H1|apply (proj1 IHp2); exact H3|apply (proj1 IHp3); exact H4].
  - (* Class, statement list *)
    destruct nm; [discriminate|]. apply andb_true_iff in Hc. destruct Hc as [Hc H4]. apply andb_true_iff in Hc. destruct Hc as [Hc H3].
    apply andb_true_iff in Hc. destruct Hc as [H1 H2].
    apply P_class; [apply is_nil_eq; exact H2|apply core_x_headdecls; exact H1|apply is_nil_eq; exact H3|apply (proj1 IHp1); exact H1|apply (proj1 IHp2); exact H4].
  - (* Class, parameter list *)
    destruct nm; [discriminate|]. apply andb_true_iff in Hc. destruct Hc as [Hc H5]. apply andb_true_iff in Hc. destruct Hc as [Hc H4].
    apply andb_true_iff in Hc. destruct Hc as [Hc H3]. apply andb_true_iff in Hc. destruct Hc as [H1 H2].
    apply P_class; [apply is_nil_eq; exact H2|apply core_x_headdecls; exact H1|apply is_nil_eq; exact H3|apply (proj1 IHp1); exact H1|apply (proj2 IHp2 c); exact H5].
Qed.

(* the side conditions of the fragment imply the hypothesis of Main.resolution_correct_core *)
Theorem core_x_aux_distinct p : core_x p = true -> aux_distinct (spec_resolve p) = true.
Proof.
  intros Hc. pose proof (core_x_headdecls p Hc) as Hh0.
  set (N := fun (s : nat) (a : bool) (x : Z) => s = O /\ a = false /\ In x (vardecls p ++ lexdecls p)).
  destruct (proj1 (core_x_P p) Hc [(O, false, vardecls p ++ lexdecls p)] O O false 1%nat N) as (bs & H1 & H2 & H3).
  { intros s a L x [E|[]] Hx. inversion E; subst. repeat split; try reflexivity. exact Hx. }
  { rewrite Hh0, app_nil_r. intros x Hx. repeat split; try reflexivity. apply in_app_iff. right. exact Hx. }
  { intros x Hx. repeat split; try reflexivity. apply in_app_iff. left. exact Hx. }
  fold (spec_resolve p) in H1. unfold aux_distinct. apply forallb_forall. intros t Ht.
  destruct t as [x|s [|] x]; [reflexivity| |reflexivity].
  apply negb_true_iff. destruct (existsb (target_eqb (TBind s false x)) (spec_resolve p)) eqn:E; [|reflexivity]. exfalso.
  apply existsb_exists in E. destruct E as (t' & Ht' & Et'). apply target_eqb_true in Et'. subst t'.
  rewrite Forall_forall in H1. pose proof (H1 _ Ht) as O1. pose proof (H1 _ Ht') as O2. cbn [ok_t] in O1, O2.
  destruct O1 as [(_ & E & _)|O1]; [discriminate|]. destruct O2 as [(-> & _ & _)|O2].
  - specialize (H2 _ _ _ O1). lia.
  - apply (H3 s x O1 O2).
Qed.
