(* JsScope/SimDeclare2.v — Declare at its target scope: a new declared variable, or the adoption of
   an earlier unresolved use (a; var a). *)
From Coq Require Import ZifyBool.
From Verif Require Import Common.Base Common.Tactics JsScope.Model JsScope.Abs JsScope.HeapLemmas
  JsScope.SimDefs JsScope.SimUse JsScope.SimDeclare.

(* use counters when a fresh variable is logged for the first time *)
Lemma InvU_fresh st st2 log home :
  InvU st log -> links_ok st home -> homes_ok st home -> (forall u, In u log -> (u < nvars st)%nat) ->
  nvars st2 = S (nvars st) -> (forall w, (w < nvars st)%nat -> vget st2 w = vget st w) ->
  vlink (vget st2 (nvars st)) = None -> vuses (vget st2 (nvars st)) = 0 ->
  (forall w, (w < nvars st)%nat -> root_of st2 w = root_of st w) ->
  let id := nvars st in
  InvU (vset st2 id (set_uses (vget st2 id) (u16 (vuses (vget st2 id) + 1)))) (id :: log).
Proof.
  intros [Hu Hcnt] Hl Hh Hlog Hnv Hold Hlink Huses Hrt id.
  set (st3 := vset st2 id (set_uses (vget st2 id) (u16 (vuses (vget st2 id) + 1)))).
  assert (Hsh : same_shape st2 st3) by apply same_shape_set_uses.
  assert (Hid : (id < nvars st2)%nat) by (rewrite Hnv; unfold id; lia).
  assert (Hrootid : is_root st2 id) by exact Hlink.
  assert (Ecount : forall r', count_root st2 r' log = count_root st r' log).
  { intros r'. unfold count_root. f_equal. apply filter_ext_in'. intros u Hu'. rewrite Hrt; [reflexivity|]. apply Hlog. exact Hu'. }
  constructor.
  - intros w Hw. unfold st3 in *. rewrite nvars_vset in Hw. rewrite vget_vset by exact Hid.
    destruct (Nat.eqb_spec id w) as [<-|Hne].
    + cbn [vuses set_uses]. fold id in Huses. rewrite Huses. rewrite u16_small by lia. lia.
    + rewrite Hold by (unfold id in *; lia). apply Hu. unfold id in *; lia.
  - intros r Hr Hrr. unfold st3 in Hr. rewrite nvars_vset in Hr.
    rewrite (count_root_same_shape _ _ _ _ Hsh). apply (is_root_same_shape _ _ _ Hsh) in Hrr.
    rewrite count_root_cons. rewrite (root_of_root st2 id Hrootid).
    unfold st3. rewrite vget_vset by exact Hid.
    destruct (Nat.eqb_spec id r) as [<-|Hne].
    + cbn [vuses set_uses]. fold id in Huses. rewrite Huses.
      assert (count_root st2 id log = O) as ->.
      { rewrite Ecount. unfold count_root. rewrite filter_all_false; [reflexivity|].
        intros u Hu'. apply Nat.eqb_neq. pose proof (Hlog u Hu') as Huv.
        destruct (root_of_spec st home u Hl Hh Huv) as (n & _ & _ & H & _). unfold id. lia. }
      rewrite u16_small by lia. lia.
    + assert (Ho : (r < nvars st)%nat) by (unfold id in *; lia).
      rewrite Hold by exact Ho. rewrite Ecount.
      rewrite Hcnt; [lia|exact Ho|]. unfold is_root in *. rewrite Hold in Hrr by exact Ho. exact Hrr.
Qed.

(* ---- a new declared variable ------------------------------------------------------------------------ *)
Section NewDeclared.
  Variables (st : state) (log stk : list nat) (t : nat) (home : nat -> nat) (x decl : Z).
  Hypothesis I : InvS st log stk home no_extra.
  Hypothesis Ht : In t stk.
  Hypothesis Hfresh : forall v, In v (sdeclared (sc_of st t)) -> vn st v <> x.
  Hypothesis Hdecl : decl <> 0.

  Let id := nvars st.
  Let sc := sc_of st t.
  Let st1 := fst (valloc st (mkVar x None 0 decl)).
  Let st2 := sset st1 t (set_declared sc (sdeclared sc ++ [id])).
  Let home' := fun w => if Nat.eqb w id then t else home w.

  Lemma nd_t : (t < nscopes st)%nat.
  Proof. eapply stack_ok_in; [apply I|exact Ht]. Qed.

  Lemma nd_nvars : nvars st2 = S (nvars st).
  Proof. unfold st2. rewrite nvars_sset. apply nvars_valloc. Qed.

  Lemma nd_nscopes : nscopes st2 = nscopes st.
  Proof. unfold st2. rewrite nscopes_sset. reflexivity. Qed.

  Lemma nd_vget_old w : (w < nvars st)%nat -> vget st2 w = vget st w.
  Proof. intros H. unfold st2. rewrite vget_sset. apply vget_valloc_old. exact H. Qed.

  Lemma nd_vget_new : vget st2 id = mkVar x None 0 decl.
  Proof. unfold st2. rewrite vget_sset. apply vget_valloc_new. Qed.

  Lemma nd_sc s : sc_of st2 s = if Nat.eqb s t then set_declared sc (sdeclared sc ++ [id]) else sc_of st s.
  Proof.
    unfold st2. destruct (Nat.eqb_spec s t) as [->|Hne].
    - apply sc_of_sset_same. unfold st1. rewrite nscopes_valloc. apply nd_t.
    - rewrite sc_of_sset_other by congruence. reflexivity.
  Qed.

  Lemma nd_fields q :
    sparent (sc_of st2 q) = sparent (sc_of st q) /\ sfunc (sc_of st2 q) = sfunc (sc_of st q) /\
    sundeclared (sc_of st2 q) = sundeclared (sc_of st q) /\ nfordecls (sc_of st2 q) = nfordecls (sc_of st q) /\
    narguses (sc_of st2 q) = narguses (sc_of st q) /\
    sdeclared (sc_of st2 q) = if Nat.eqb q t then sdeclared sc ++ [id] else sdeclared (sc_of st q).
  Proof. rewrite nd_sc. destruct (Nat.eqb_spec q t) as [->|]; repeat split; reflexivity. Qed.

  Lemma nd_args q : und_args (sc_of st2 q) = und_args (sc_of st q).
  Proof. unfold und_args. destruct (nd_fields q) as (_ & _ & -> & _ & -> & _). reflexivity. Qed.

  Lemma nd_home_old w : (w < nvars st)%nat -> home' w = home w.
  Proof. intros H. unfold home'. destruct (Nat.eqb_spec w id) as [E|]; [unfold id in E; lia|reflexivity]. Qed.

  Lemma nd_old_or_new w : (w < nvars st2)%nat -> (w < nvars st)%nat \/ w = id.
  Proof. rewrite nd_nvars. unfold id. lia. Qed.

  Lemma nd_root_old w : (w < nvars st)%nat -> (is_root st2 w <-> is_root st w).
  Proof. intros H. unfold is_root. rewrite nd_vget_old by exact H. tauto. Qed.

  Lemma InvS_new_declared : InvS st2 (id :: log) stk home' no_extra.
  Proof.
    pose proof nd_t as Htn. pose proof I as I'. dI I'.
    assert (Hval : forall s v, (s < nscopes st)%nat -> In v (sdeclared (sc_of st s)) -> (v < nvars st)%nat).
    { intros s v Hs Hv. apply (Ivalid s v Hs). left. exact Hv. }
    assert (Hvalu : forall s v, (s < nscopes st)%nat -> In v (sundeclared (sc_of st s)) -> (v < nvars st)%nat).
    { intros s v Hs Hv. apply (Ivalid s v Hs). right. exact Hv. }
    constructor.
    - eapply stack_ok_ext; [exact Istack|rewrite nd_nscopes; lia|]. intros q _. apply nd_fields.
    - intros q g. rewrite nd_nscopes. destruct (nd_fields q) as (_ & -> & _). apply Ifunc.
    - intros q v. rewrite nd_nscopes, nd_nvars. destruct (nd_fields q) as (_ & _ & -> & _ & _ & ->). intros Hq [H|H].
      + destruct (Nat.eqb_spec q t) as [->|].
        * apply in_app_last in H. destruct H as [H| ->]; [specialize (Hval t v Hq H); lia|unfold id; lia].
        * specialize (Hval q v Hq H). lia.
      + specialize (Hvalu q v Hq H). lia.
    - intros v w Hv Hl. destruct (nd_old_or_new v Hv) as [Ho| ->].
      + rewrite nd_vget_old in Hl by exact Ho. destruct (Ilinks v w Ho Hl) as [Hw Hh].
        rewrite nd_nvars, !nd_home_old by assumption. split; [lia|exact Hh].
      + rewrite nd_vget_new in Hl. discriminate.
    - intros v Hv. rewrite nd_nscopes. destruct (nd_old_or_new v Hv) as [Ho| ->].
      + rewrite nd_home_old by exact Ho. apply Ihomes. exact Ho.
      + unfold home'. rewrite Nat.eqb_refl. exact Htn.
    - intros v [<-|Hv]; rewrite nd_nvars; [unfold id; lia|]. specialize (Ilog v Hv). lia.
    - rewrite nd_nvars. cbn. lia.
    - intros q v. rewrite nd_nscopes. destruct (nd_fields q) as (_ & _ & _ & _ & _ & ->). intros Hq H.
      assert (Hcase : In v (sdeclared (sc_of st q)) \/ (q = t /\ v = id)).
      { destruct (Nat.eqb_spec q t) as [->|]; [|left; exact H]. apply in_app_last in H. destruct H as [H| ->]; [left; exact H|right; split; reflexivity]. }
      destruct Hcase as [Hin|[-> ->]].
      + pose proof (Hval q v Hq Hin) as Ho. unfold vd. rewrite nd_root_old, nd_vget_old, nd_home_old by exact Ho.
        apply Idecl; assumption.
      + unfold vd, is_root. rewrite nd_vget_new. cbn. unfold home'. rewrite Nat.eqb_refl. repeat split; [exact Hdecl].
    - intros q. rewrite nd_nscopes. destruct (nd_fields q) as (_ & _ & _ & _ & _ & ->). intros Hq.
      assert (Eold : forall l, (forall v, In v l -> (v < nvars st)%nat) -> map (vn st2) l = map (vn st) l).
      { intros l Hl. apply map_ext_in. intros v Hv. unfold vn. rewrite nd_vget_old; [reflexivity|]. apply Hl. exact Hv. }
      destruct (Nat.eqb_spec q t) as [->|].
      + rewrite map_app. rewrite Eold by (intros v Hv; apply (Hval t v Hq Hv)). cbn [map]. unfold vn at 2. rewrite nd_vget_new. cbn [vname].
        apply nodup_app_last; [apply Idnodup; exact Hq|]. intros Hin. apply in_map_iff in Hin.
        destruct Hin as (v & E & Hv). apply (Hfresh v Hv). exact E.
      + rewrite Eold by (intros v Hv; apply (Hval q v Hq Hv)). apply Idnodup. exact Hq.
    - intros r Hr. destruct (nd_old_or_new r Hr) as [Ho| ->].
      + unfold vd. rewrite nd_root_old, nd_vget_old, nd_home_old by exact Ho. intros R D.
        destruct (nd_fields (home r)) as (_ & _ & _ & _ & _ & ->).
        pose proof (Idcomp r Ho R D) as Hin. destruct (Nat.eqb_spec (home r) t) as [E|]; [|exact Hin].
        apply in_app_last. left. rewrite E in Hin. exact Hin.
      + intros _ _. unfold home'. rewrite Nat.eqb_refl. destruct (nd_fields t) as (_ & _ & _ & _ & _ & ->).
        rewrite Nat.eqb_refl. apply in_app_last. right. reflexivity.
    - intros q v Hq. destruct (nd_fields q) as (_ & _ & -> & _). intros Hv.
      pose proof (stack_ok_in _ _ _ Istack Hq) as Hqn. pose proof (Hvalu q v Hqn Hv) as Ho.
      unfold vd. rewrite nd_root_old, nd_vget_old, nd_home_old by exact Ho. apply Iund; assumption.
    - intros q Hq. destruct (nd_fields q) as (_ & _ & -> & _). apply Iunodup. exact Hq.
    - intros q v1 v2 Hq. destruct (nd_fields q) as (_ & _ & -> & _). intros H1 H2.
      pose proof (stack_ok_in _ _ _ Istack Hq) as Hqn.
      pose proof (Hvalu q v1 Hqn H1) as O1. pose proof (Hvalu q v2 Hqn H2) as O2.
      unfold vd, vn. rewrite !nd_vget_old by assumption.
      rewrite (argp_ext st st2 home home' v1 (nd_home_old v1 O1) (nd_args _)), (argp_ext st st2 home home' v2 (nd_home_old v2 O2) (nd_args _)).
      apply (Ipuniq q); assumption.
    - intros r Hr. destruct (nd_old_or_new r Hr) as [Ho| ->].
      + unfold vd. rewrite nd_root_old, nd_vget_old, nd_home_old by exact Ho. intros R D.
        destruct (Ipcomp r Ho R D) as [[H1 H2]|[]]. left. split; [exact H1|].
        destruct (nd_fields (home r)) as (_ & _ & -> & _). exact H2.
      + unfold vd. rewrite nd_vget_new. cbn. intros _ E. contradiction.
    - intros q Hq. destruct (nd_fields q) as (_ & _ & -> & -> & -> & ->). destruct (Imarks q Hq) as [H1 H2]. split; [|exact H2].
      destruct (Nat.eqb_spec q t) as [->|]; [|exact H1]. rewrite len_app_last. unfold sc. lia.
  Qed.

  Lemma nd_root_of w : (w < nvars st)%nat -> root_of st2 w = root_of st w.
  Proof.
    intros Hw. apply (root_of_same_links st st2 home).
    - apply I.
    - apply I.
    - split; [rewrite nd_nvars; lia|]. intros v Hv. rewrite nd_vget_old by exact Hv. reflexivity.
    - rewrite nd_nscopes. lia.
    - exact Hw.
  Qed.

  Lemma nd_lab_old w : (w < nvars st)%nat -> lab_of st2 home' w = lab_of st home w.
  Proof.
    intros Hw. unfold lab_of. rewrite nd_root_of by exact Hw.
    assert (Hr : (root_of st w < nvars st)%nat).
    { destruct (root_of_spec st home w (I_links _ _ _ _ _ I) (I_homes _ _ _ _ _ I) Hw) as (n & _ & _ & H & _). exact H. }
    apply lab_root_ext; [rewrite nd_vget_old by exact Hr; reflexivity|rewrite nd_vget_old by exact Hr; reflexivity|apply nd_home_old; exact Hr|apply nd_args].
  Qed.

  Lemma nd_lab_new : lab_of st2 home' id = LDecl t x.
  Proof.
    rewrite lab_of_root by (unfold is_root; rewrite nd_vget_new; reflexivity).
    unfold lab_root. rewrite nd_vget_new. cbn [vdecl vname].
    replace (decl =? 0) with false by (symmetry; apply Z.eqb_neq; exact Hdecl).
    unfold home'. rewrite Nat.eqb_refl. reflexivity.
  Qed.

  Lemma nd_frame_other s : In s stk -> s <> t -> frame_of st2 home' s = frame_of st home s.
  Proof.
    intros Hs Hne. pose proof (stack_ok_in _ _ _ (I_stack _ _ _ _ _ I) Hs) as Hsn.
    unfold frame_of. rewrite nd_sc. destruct (Nat.eqb_spec s t) as [|_]; [contradiction|]. f_equal.
    - apply map_ext_in. intros v Hv. unfold nk. rewrite nd_vget_old; [reflexivity|].
      apply (I_valid _ _ _ _ _ I s v Hsn). left. exact Hv.
    - apply map_ext_in. intros v Hv.
      assert (Ho : (v < nvars st)%nat) by (apply (I_valid _ _ _ _ _ I s v Hsn); right; exact Hv).
      apply uent_of_ext; [rewrite nd_vget_old by exact Ho; reflexivity|rewrite nd_vget_old by exact Ho; reflexivity|apply nd_home_old; exact Ho|apply nd_args].
  Qed.

  Lemma nd_frame_t :
    frame_of st2 home' t = set_fdecl (frame_of st home t) (fdecl (frame_of st home t) ++ [(x, decl)]).
  Proof.
    pose proof nd_t as Htn. unfold frame_of, set_fdecl. cbn [fid fisfunc fdecl fund fnarg].
    rewrite nd_sc, Nat.eqb_refl. cbn [sfunc sdeclared sundeclared narguses set_declared]. fold sc. f_equal.
    - rewrite map_app. f_equal.
      + apply map_ext_in. intros v Hv. unfold nk. rewrite nd_vget_old; [reflexivity|].
        apply (I_valid _ _ _ _ _ I t v Htn). left. exact Hv.
      + cbn. unfold nk. rewrite nd_vget_new. reflexivity.
    - apply map_ext_in. intros v Hv.
      assert (Ho : (v < nvars st)%nat) by (apply (I_valid _ _ _ _ _ I t v Htn); right; exact Hv).
      apply uent_of_ext; [rewrite nd_vget_old by exact Ho; reflexivity|rewrite nd_vget_old by exact Ho; reflexivity|apply nd_home_old; exact Ho|apply nd_args].
  Qed.

  Lemma new_declared_all :
    InvS st2 (id :: log) stk home' no_extra /\
    nvars st2 = S (nvars st) /\ nscopes st2 = nscopes st /\
    (forall w, (w < nvars st)%nat -> vget st2 w = vget st w) /\
    vget st2 id = mkVar x None 0 decl /\
    (forall w, (w < nvars st)%nat -> root_of st2 w = root_of st w) /\
    (forall w, (w < nvars st)%nat -> lab_of st2 home' w = lab_of st home w) /\
    lab_of st2 home' id = LDecl t x /\
    frame_of st2 home' t = set_fdecl (frame_of st home t) (fdecl (frame_of st home t) ++ [(x, decl)]) /\
    (forall s, In s stk -> s <> t -> frame_of st2 home' s = frame_of st home s).
  Proof.
    split; [exact InvS_new_declared|]. split; [exact nd_nvars|]. split; [exact nd_nscopes|].
    split; [exact nd_vget_old|]. split; [exact nd_vget_new|]. split; [exact nd_root_of|].
    split; [exact nd_lab_old|]. split; [exact nd_lab_new|]. split; [exact nd_frame_t|exact nd_frame_other].
  Qed.
End NewDeclared.
