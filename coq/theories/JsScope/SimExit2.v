(* JsScope/SimExit2.v — the loop of HoistUndeclared and exitScope are simulated by a_hoist / a_exit. *)
From Coq Require Import ZifyBool.
From Verif Require Import Common.Base Common.Tactics JsScope.Model JsScope.Abs JsScope.HeapLemmas
  JsScope.SimDefs JsScope.SimUse JsScope.SimDeclare JsScope.SimDeclare3 JsScope.SimExit.

Record Closing (st : state) (log stk' : list nat) (home : nat -> nat) (F P : nat) (i : nat) (l : list nat) : Prop := {
  C_inv : InvS st log stk' home (extraF home F l) ;
  C_U : InvU st log ;
  C_hd : hd_error stk' = Some P ;
  C_F : ~ In F stk' ;
  C_Fn : (F < nscopes st)%nat ;
  C_par : sparent (sc_of st F) = Some P ;
  C_PF : (P < F)%nat ;
  C_ent : forall v, In v l -> (v < nvars st)%nat /\ is_root st v /\ (vd st v = 0 -> home v = F) ;
  C_nd : NoDup l ;
  C_pu : forall v1 v2, In v1 l -> In v2 l -> vd st v1 = 0 -> vd st v2 = 0 -> vn st v1 = vn st v2 ->
                       argp st home v1 = argp st home v2 -> v1 = v2 ;
  (* l is what is left of the undeclared list of F, from position i on *)
  C_pos : forall j u, nth_error l j = Some u -> nth_error (sundeclared (sc_of st F)) (i + j) = Some u
}.

Lemma hd_error_in {A} (l : list A) a : hd_error l = Some a -> In a l.
Proof. destruct l; cbn; intros H; [discriminate|]. inversion H. left. reflexivity. Qed.

Lemma hoist_sim log stk' F P :
  len log < 65536 ->
  forall l st home i, Closing st log stk' home F P i l ->
  exists st' home',
    hoist_loop st F i l = Ok st' /\ InvS st' log stk' home' no_extra /\ InvU st' log /\
    nscopes st' = nscopes st /\ sparent (sc_of st' F) = Some P /\
    a_hoist F (map (uent_of st home) l) (frame_of st home P) (map (lab_of st home) log)
      = (frame_of st' home' P, map (lab_of st' home') log) /\
    (forall q, In q stk' -> q <> P -> frame_of st' home' q = frame_of st home q).
Proof.
  intros Hlen. induction l as [|v l' IH]; intros st home i C.
  - exists st, home. split; [reflexivity|]. split.
    { eapply InvS_extra_weaken; [|apply C]. intros r _ _ _ [_ []]. }
    split; [apply C|]. split; [reflexivity|]. split; [apply C|]. split; [reflexivity|]. intros q _ _. reflexivity.
  - destruct C as [CI CU Chd CF CFn Cpar CPF Cent Cnd Cpu Cpos].
    assert (HP : In P stk') by (apply hd_error_in; exact Chd).
    assert (HPn : (P < nscopes st)%nat) by (eapply stack_ok_in; [apply CI|exact HP]).
    destruct (Cent v (or_introl eq_refl)) as (Hv & Hvroot & Hvh).
    assert (Hnd : ~ In v l') by (inversion Cnd; assumption).
    assert (Hnd' : NoDup l') by (inversion Cnd; assumption).
    assert (Huses : 1 <= vuses (vget st v)) by (apply (I_uses _ _ CU); exact Hv).
    assert (Hi : nth_error (sundeclared (sc_of st F)) i = Some v).
    { pose proof (Cpos O v eq_refl) as H. rewrite Nat.add_0_r in H. exact H. }
    assert (Cpos' : forall j u, nth_error l' j = Some u -> nth_error (sundeclared (sc_of st F)) (S i + j) = Some u).
    { intros j u Hj. pose proof (Cpos (S j) u Hj) as H. replace (S i + j)%nat with (i + S j)%nat by lia. exact H. }
    cbn [hoist_loop map].
    replace (0 <? vuses (vget st v)) with true by (symmetry; apply Z.ltb_lt; lia). cbn [andb]. unfold NoDecl.
    destruct (Z.eqb_spec (vdecl (vget st v)) 0) as [Hvd|Hvd].
    + (* an unresolved variable of the closing scope *)
      fold (vd st v) in Hvd. specialize (Hvh Hvd).
      assert (Ehoist : forall pr lg,
                a_hoist F (uent_of st home v :: map (uent_of st home) l') pr lg
                = a_hoist1 (a_hoist F (map (uent_of st home) l')) (lab_root st home v) (vn st v) pr lg).
      { intros pr lg. unfold uent_of, lab_root. unfold vd in Hvd. rewrite Hvd, Hvh. cbn [Z.eqb].
        destruct (argp st home v); reflexivity. }
      rewrite Ehoist. clear Ehoist. unfold a_hoist1. fold (vn st v).
      assert (Hpu : forall u, In u l' -> vd st u = 0 -> vn st u = vn st v -> argp st home u = argp st home v -> u = v).
      { intros u Hu Du Nu Au. apply Cpu; [right; exact Hu|left; reflexivity|exact Du|exact Hvd|exact Nu|exact Au]. }
      assert (Hvnotund : forall q, In q stk' -> ~ In v (sundeclared (sc_of st q))).
      { intros q Hq H. destruct (I_und _ _ _ _ _ CI q v Hq H) as (_ & Hh & _). specialize (Hh Hvd). rewrite Hvh in Hh. subst q. contradiction. }
      rewrite (sget_valid st F CFn). cbn [rbind]. rewrite Cpar. rewrite (sget_valid st P HPn). cbn [rbind].
      rewrite (find_declared_noskip st (sc_of st P) (vn st v)).
      rewrite a_find_decl_frame.
      (* the step after a merge into w, common to both ways of finding w *)
      assert (Hmerge : forall w L,
        (w < nvars st)%nat -> is_root st w -> w <> v -> (home w < F)%nat -> lab_root st home w = L ->
        exists st' home',
          (sc1 <~ sget (merge_into st v w) F ;;
           hoist_loop (sset (merge_into st v w) F (set_undeclared sc1 (list_set (sundeclared sc1) i w))) F (S i) l') = Ok st' /\
          InvS st' log stk' home' no_extra /\ InvU st' log /\ nscopes st' = nscopes st /\ sparent (sc_of st' F) = Some P /\
          a_hoist F (map (uent_of st home) l') (frame_of st home P) (relabel (lab_root st home v) L (map (lab_of st home) log))
            = (frame_of st' home' P, map (lab_of st' home') log) /\
          (forall q, In q stk' -> q <> P -> frame_of st' home' q = frame_of st home q)).
      { intros w L Hw Hwroot Hwv Hwh HL.
        destruct (merge_all st log stk' home F i v w l' CI CU Hlen CF CFn Hv Hvroot Hvd Hvh Hw Hwroot Hwv Hwh Hnd Hpu Hi)
          as (I2 & U2 & Env & Ens & Evn & Evd & Eroot & Hrel & Hfr & Hpar & Earg & Enarg & Eund).
        set (st1 := merge_into st v w) in *.
        assert (Hn1 : (F < nscopes st1)%nat) by (unfold st1, merge_into; rewrite !nscopes_vset; exact CFn).
        rewrite (sget_valid st1 F Hn1). cbn [rbind].
        set (st2 := sset st1 F (set_undeclared (sc_of st1 F) (list_set (sundeclared (sc_of st1 F)) i w))) in *.
        assert (C2 : Closing st2 log stk' home F P (S i) l').
        { constructor; try assumption.
          - rewrite Ens. exact CFn.
          - rewrite Hpar. exact Cpar.
          - intros u Hu. destruct (Cent u (or_intror Hu)) as (H1 & H2 & H3).
            assert (u <> v) by (intros ->; contradiction).
            rewrite Env, Evd. split; [exact H1|]. split; [apply Eroot; assumption|exact H3].
          - intros v1 v2 H1 H2. rewrite !Evd, !Evn.
            rewrite (Earg v1), (Earg v2) by (intros ->; contradiction). apply Cpu; right; assumption.
          - intros j u Hj. rewrite Eund. rewrite nth_error_set_other by lia. apply Cpos'. exact Hj. }
        destruct (IH st2 home (S i) C2) as (st' & home' & Hrun & I' & U' & En' & Hpar' & Hah & Hfo).
        exists st', home'. split; [exact Hrun|]. split; [exact I'|]. split; [exact U'|]. split; [lia|]. split; [exact Hpar'|].
        split.
        - rewrite <- Hah. rewrite Hrel, HL. rewrite (Hfr P HP). f_equal.
          apply map_ext_in. intros u Hu. unfold uent_of. pose proof (Evd u) as E1. pose proof (Evn u) as E2. unfold vd, vn in *.
          rewrite E1, E2, (Earg u) by (intros ->; contradiction). reflexivity.
        - intros q Hq Hne. rewrite (Hfo q Hq Hne). apply Hfr. exact Hq. }
      destruct (find (fun u => vname (vget st u) =? vn st v) (rev (sdeclared (sc_of st P)))) as [w|] eqn:Ed.
      * (* declared in the parent *)
        apply find_some_name in Ed. destruct Ed as [Hin Hname]. apply in_rev in Hin.
        destruct (I_decl _ _ _ _ _ CI P w HPn Hin) as (Hwroot & Hwd & Hwh).
        assert (Hw : (w < nvars st)%nat) by (apply (I_valid _ _ _ _ _ CI P w HPn); left; exact Hin).
        assert (Hwv : w <> v) by (intros ->; contradiction).
        cbn [option_map].
        apply (Hmerge w (LDecl P (vn st v)) Hw Hwroot Hwv); [lia|].
        unfold lab_root. unfold vd in Hwd. replace (vdecl (vget st w) =? 0) with false by (symmetry; apply Z.eqb_neq; exact Hwd).
        rewrite Hwh, Hname. reflexivity.
      * cbn [option_map].
        rewrite (find_undeclared_uses st home P (vn st v)).
        2:{ intros u Hu. apply (I_uses _ _ CU). apply (I_valid _ _ _ _ _ CI P u HPn). right. exact Hu. }
        2:{ apply (I_und_nodup _ _ _ _ _ CI P HP). }
        2:{ intros u Hu Hd0. apply (I_und _ _ _ _ _ CI P u HP Hu). exact Hd0. }
        rewrite a_find_und_frame.
        destruct (find (und_pred st home (vn st v)) (sundeclared (sc_of st P))) as [w|] eqn:Eu.
        -- (* used before in the parent, or a declaration passed through the parent *)
           apply find_some_und in Eu. destruct Eu as (Hin & Hname & Hwna).
           destruct (I_und _ _ _ _ _ CI P w HP Hin) as (Hwroot & Hwh & Hwle).
           assert (Hw : (w < nvars st)%nat) by (apply (I_valid _ _ _ _ _ CI P w HPn); right; exact Hin).
           assert (Hwv : w <> v) by (intros ->; apply (Hvnotund P HP Hin)).
           cbn [option_map].
           assert (EL : lab_root st home w
                        = match uent_of st home w with
                          | UPend _ => LPend P (vn st v)
                          | UPass _ fs => LDecl fs (vn st v)
                          | UArg _ => LArg P (vn st v)
                          end).
           { unfold lab_root, uent_of. unfold vd in Hwh.
             destruct (Z.eqb_spec (vdecl (vget st w)) 0) as [E|E]; rewrite Hname; [rewrite (Hwh E); destruct (argp st home w)|]; reflexivity. }
           assert (Enoarg : forall y, uent_of st home w <> UArg y).
           { intros y. unfold uent_of. destruct (Z.eqb_spec (vdecl (vget st w)) 0) as [E|E]; [rewrite (Hwna E)|]; discriminate. }
           destruct (Hmerge w _ Hw Hwroot Hwv ltac:(lia) EL) as (st' & home' & Hrun & Hrest).
           exists st', home'. split; [exact Hrun|].
           destruct (uent_of st home w) eqn:Euw; [exact Hrest|exact Hrest|exfalso; eapply Enoarg; reflexivity].
        -- (* moved to the parent *)
           cbn [option_map].
           destruct (move_all st log stk' home F P v l' CI CU HP CF CPF Hv Hvroot Hvd Hvh Eu Hpu)
             as (I1 & U1 & Env & Ens & Evg & Ehome & Hrel & HfP & Hfo & Hsc & Earg).
           set (st1 := sset st P (set_undeclared (sc_of st P) (sundeclared (sc_of st P) ++ [v]))) in *.
           set (home1 := fun u => if Nat.eqb u v then P else home u) in *.
           assert (C1 : Closing st1 log stk' home1 F P (S i) l').
           { constructor; try assumption.
             - rewrite Ens. exact CFn.
             - rewrite Hsc by lia. exact Cpar.
             - intros u Hu. destruct (Cent u (or_intror Hu)) as (H1 & H2 & H3).
               assert (u <> v) by (intros ->; contradiction).
               rewrite Env. unfold vd, is_root, home1. rewrite Evg, Ehome by assumption. repeat split; assumption.
             - intros v1 v2 H1 H2. unfold vd, vn. rewrite !Evg.
               rewrite (Earg v1), (Earg v2) by (intros ->; contradiction). apply Cpu; right; assumption.
             - intros j u Hj. rewrite Hsc by lia. apply Cpos'. exact Hj. }
           destruct (IH st1 home1 (S i) C1) as (st' & home' & Hrun & I' & U' & En' & Hpar' & Hah & Hfo').
           exists st', home'. split; [exact Hrun|]. split; [exact I'|]. split; [exact U'|]. split; [lia|]. split; [exact Hpar'|].
           split.
           ++ rewrite <- Hah. rewrite Hrel, HfP. f_equal.
              apply map_ext_in. intros u Hu. assert (u <> v) by (intros ->; contradiction).
              unfold uent_of, home1. rewrite Evg, Ehome by assumption. fold home1. rewrite (Earg u) by assumption. reflexivity.
           ++ intros q Hq Hne. rewrite (Hfo' q Hq Hne). apply Hfo; assumption.
    + (* a declaration passed through: skipped *)
      assert (Eu : uent_of st home v = UPass (vname (vget st v)) (home v)).
      { unfold uent_of. destruct (Z.eqb_spec (vdecl (vget st v)) 0); [contradiction|reflexivity]. }
      rewrite Eu. cbn [a_hoist].
      assert (C' : Closing st log stk' home F P (S i) l').
      { constructor; try assumption.
        - eapply InvS_extra_weaken; [|exact CI]. intros r _ _ Dr [H1 [H2|H2]]; [subst r; contradiction|split; assumption].
        - intros u Hu. apply Cent. right. exact Hu.
        - intros v1 v2 H1 H2. apply Cpu; right; assumption. }
      apply (IH st home (S i) C').
Qed.

(* ---- exitScope ------------------------------------------------------------------------------------------ *)
Lemma sim_exit st log stk F P rest home :
  stk = F :: P :: rest -> InvS st log stk home no_extra -> InvU st log -> len log < 65536 ->
  exists st' home',
    exit_scope (mkP st (Some F) log) = Ok (mkP st' (Some P) log) /\
    InvS st' log (P :: rest) home' no_extra /\ InvU st' log /\
    a_exit (abs st log stk home) = ARun (abs st' log (P :: rest) home').
Proof.
  intros Hstk I U Hlen.
  assert (HFs : In F stk) by (rewrite Hstk; left; reflexivity).
  assert (HFn : (F < nscopes st)%nat) by (eapply stack_ok_in; [apply I|exact HFs]).
  pose proof (I_stack _ _ _ _ _ I) as Hstack. rewrite Hstk in Hstack.
  destruct Hstack as (_ & Hpar & HPF & Hstack').
  pose proof (stack_ok_nodup _ _ (I_stack _ _ _ _ _ I)) as Hnd. rewrite Hstk in Hnd.
  assert (HFnot : ~ In F (P :: rest)) by (inversion Hnd; assumption).
  assert (C : Closing st log (P :: rest) home F P O (sundeclared (sc_of st F))).
  { pose proof I as I'. dI I'. constructor; try assumption; try reflexivity.
    - constructor; try assumption.
      + intros s v Hs. apply Iund. rewrite Hstk. right. exact Hs.
      + intros s Hs. apply Iunodup. rewrite Hstk. right. exact Hs.
      + intros s v1 v2 Hs. apply Ipuniq. rewrite Hstk. right. exact Hs.
      + intros r Hr Rr Dr. destruct (Ipcomp r Hr Rr Dr) as [[H1 H2]|[]]. rewrite Hstk in H1.
        destruct H1 as [E|H1]; [right; split; [symmetry; exact E|rewrite E; exact H2]|left; split; assumption].
      + intros s Hs. apply Imarks. rewrite Hstk. right. exact Hs.
    - intros v Hv. destruct (Iund F v HFs Hv) as (H1 & H2 & _). split; [|split; assumption].
      apply (Ivalid F v HFn). right. exact Hv.
    - apply Iunodup. exact HFs.
    - intros v1 v2. apply Ipuniq. exact HFs.
    - intros j u Hj. exact Hj. }
  destruct (hoist_sim log (P :: rest) F P Hlen _ st home O C) as (st' & home' & Hrun & I' & U' & En & Hpar' & Hah & Hfo).
  exists st', home'. split.
  { unfold exit_scope, hoist_undeclared. cbn [pcur pst plog]. rewrite (sget_valid st F HFn). cbn [rbind]. rewrite Hrun. cbn [rbind].
    assert (HFn' : (F < nscopes st')%nat) by (rewrite En; exact HFn).
    rewrite (sget_valid st' F HFn'). cbn [rbind]. rewrite Hpar'. reflexivity. }
  split; [exact I'|]. split; [exact U'|].
  unfold a_exit, abs at 1. cbn [astack alog anext]. rewrite Hstk. cbn [map].
  change (fid (frame_of st home F)) with F.
  change (fund (frame_of st home F)) with (map (uent_of st home) (sundeclared (sc_of st F))).
  change (alog (abs st log (F :: P :: rest) home)) with (map (lab_of st home) log).
  change (anext (abs st log (F :: P :: rest) home)) with (nscopes st).
  rewrite Hah. unfold abs. cbn [map]. rewrite En. f_equal. f_equal. f_equal.
  apply map_ext_in. intros q Hq. symmetry. apply Hfo; [right; exact Hq|].
  intros ->. inversion Hnd as [|? ? _ Hnd2]; subst. inversion Hnd2; contradiction.
Qed.
