(* JsScope/HeapLemmas.v — get/set lemmas for the two heaps of the scope model, and the Link chains. *)
From Coq Require Import ZifyBool.
From Verif Require Import Common.Base Common.Tactics JsScope.Model.

(* ---- list_set / nth -------------------------------------------------------------------------- *)
Lemma list_set_length {A} (l : list A) i a : length (list_set l i a) = length l.
Proof. revert i. induction l as [|h t IH]; intros [|i]; cbn; try reflexivity. rewrite IH. reflexivity. Qed.

Lemma nth_list_set_same {A} (l : list A) i a d : (i < length l)%nat -> nth i (list_set l i a) d = a.
Proof.
  revert i. induction l as [|h t IH]; intros i H; [cbn in H; lia|].
  destruct i as [|i]; cbn; [reflexivity|]. apply IH. cbn in H. lia.
Qed.

Lemma nth_list_set_other {A} (l : list A) i j a d : i <> j -> nth j (list_set l i a) d = nth j l d.
Proof.
  revert i j. induction l as [|h t IH]; intros i j H; [destruct i, j; reflexivity|].
  destruct i as [|i], j as [|j]; cbn; try reflexivity; try congruence. apply IH. congruence.
Qed.

Lemma nth_error_set_same {A} (l : list A) i a : (i < length l)%nat -> nth_error (list_set l i a) i = Some a.
Proof.
  revert i. induction l as [|h t IH]; intros i H; [cbn in H; lia|].
  destruct i as [|i]; cbn; [reflexivity|]. apply IH. cbn in H. lia.
Qed.

Lemma nth_error_set_other {A} (l : list A) i j a : i <> j -> nth_error (list_set l i a) j = nth_error l j.
Proof.
  revert i j. induction l as [|h t IH]; intros i j H; [destruct i; reflexivity|].
  destruct i as [|i], j as [|j]; cbn; try reflexivity; try congruence. apply IH. congruence.
Qed.

Lemma nth_app_new {A} (l : list A) a d : nth (length l) (l ++ [a]) d = a.
Proof. rewrite app_nth2 by lia. replace (length l - length l)%nat with O by lia. reflexivity. Qed.

Lemma nth_app_old {A} (l : list A) a i d : (i < length l)%nat -> nth i (l ++ [a]) d = nth i l d.
Proof. intros H. apply app_nth1. exact H. Qed.

(* ---- vars ------------------------------------------------------------------------------------- *)
Definition nvars (st : state) : nat := length (vars st).
Definition nscopes (st : state) : nat := length (scopes st).

Lemma vget_vset_same st v x : (v < nvars st)%nat -> vget (vset st v x) v = x.
Proof. intros H. unfold vget, vset. cbn. apply nth_list_set_same. exact H. Qed.

Lemma vget_vset_other st v w x : v <> w -> vget (vset st v x) w = vget st w.
Proof. intros H. unfold vget, vset. cbn. apply nth_list_set_other. exact H. Qed.

Lemma vget_vset st v w x : (v < nvars st)%nat -> vget (vset st v x) w = if Nat.eqb v w then x else vget st w.
Proof.
  intros H. destruct (Nat.eqb_spec v w) as [->|Hne]; [apply vget_vset_same; exact H|apply vget_vset_other; exact Hne].
Qed.

Lemma nvars_vset st v x : nvars (vset st v x) = nvars st.
Proof. unfold nvars, vset. cbn. apply list_set_length. Qed.

Lemma nscopes_vset st v x : nscopes (vset st v x) = nscopes st.
Proof. reflexivity. Qed.

Lemma scopes_vset st v x : scopes (vset st v x) = scopes st.
Proof. reflexivity. Qed.

Lemma vget_sset st s sc v : vget (sset st s sc) v = vget st v.
Proof. reflexivity. Qed.

Lemma vars_sset st s sc : vars (sset st s sc) = vars st.
Proof. reflexivity. Qed.

Lemma nvars_sset st s sc : nvars (sset st s sc) = nvars st.
Proof. reflexivity. Qed.

Lemma nscopes_sset st s sc : nscopes (sset st s sc) = nscopes st.
Proof. unfold nscopes, sset. cbn. apply list_set_length. Qed.

Lemma valloc_state st x : fst (valloc st x) = mkState (vars st ++ [x]) (scopes st).
Proof. reflexivity. Qed.

Lemma valloc_id st x : snd (valloc st x) = nvars st.
Proof. reflexivity. Qed.

Lemma vget_valloc_new st x : vget (fst (valloc st x)) (nvars st) = x.
Proof. unfold vget. cbn. apply nth_app_new. Qed.

Lemma vget_valloc_old st x v : (v < nvars st)%nat -> vget (fst (valloc st x)) v = vget st v.
Proof. intros H. unfold vget. cbn. apply nth_app_old. exact H. Qed.

Lemma nvars_valloc st x : nvars (fst (valloc st x)) = S (nvars st).
Proof. unfold nvars. cbn. rewrite app_length. cbn. lia. Qed.

(* ---- scopes ----------------------------------------------------------------------------------- *)
Definition sc_of (st : state) (s : nat) : scope := nth s (scopes st) dummy_scope.

Lemma sget_valid st s : (s < nscopes st)%nat -> sget st s = Ok (sc_of st s).
Proof.
  intros H. unfold sget, sc_of. destruct (nth_error (scopes st) s) eqn:E.
  - rewrite (nth_error_nth _ _ _ E). reflexivity.
  - apply nth_error_None in E. unfold nscopes in H. lia.
Qed.

Lemma sget_ok_inv st s sc : sget st s = Ok sc -> (s < nscopes st)%nat /\ sc = sc_of st s.
Proof.
  unfold sget, sc_of, nscopes. destruct (nth_error (scopes st) s) eqn:E; [|discriminate].
  intros H. inversion H; subst. split.
  - apply nth_error_Some. congruence.
  - symmetry. apply nth_error_nth. exact E.
Qed.

Lemma sc_of_sset_same st s sc : (s < nscopes st)%nat -> sc_of (sset st s sc) s = sc.
Proof. intros H. unfold sc_of, sset. cbn. apply nth_list_set_same. exact H. Qed.

Lemma sc_of_sset_other st s t sc : s <> t -> sc_of (sset st s sc) t = sc_of st t.
Proof. intros H. unfold sc_of, sset. cbn. apply nth_list_set_other. exact H. Qed.

Lemma sc_of_vset st v x s : sc_of (vset st v x) s = sc_of st s.
Proof. reflexivity. Qed.

Lemma sc_of_valloc st x s : sc_of (fst (valloc st x)) s = sc_of st s.
Proof. reflexivity. Qed.

Lemma nscopes_valloc st x : nscopes (fst (valloc st x)) = nscopes st.
Proof. reflexivity. Qed.

Lemma sc_of_salloc_new st sc : sc_of (fst (salloc st sc)) (nscopes st) = sc.
Proof. unfold sc_of. cbn. apply nth_app_new. Qed.

Lemma sc_of_salloc_old st sc s : (s < nscopes st)%nat -> sc_of (fst (salloc st sc)) s = sc_of st s.
Proof. intros H. unfold sc_of. cbn. apply nth_app_old. exact H. Qed.

Lemma nscopes_salloc st sc : nscopes (fst (salloc st sc)) = S (nscopes st).
Proof. unfold nscopes. cbn. rewrite app_length. cbn. lia. Qed.

Lemma vget_salloc st sc v : vget (fst (salloc st sc)) v = vget st v.
Proof. reflexivity. Qed.

Lemma nvars_salloc st sc : nvars (fst (salloc st sc)) = nvars st.
Proof. reflexivity. Qed.

(* ---- Link chains ------------------------------------------------------------------------------- *)
Definition is_root (st : state) (v : nat) : Prop := vlink (vget st v) = None.

Inductive reach (st : state) : nat -> nat -> nat -> Prop :=
| reach0 v : is_root st v -> reach st v v O
| reachS v w r n : vlink (vget st v) = Some w -> reach st w r n -> reach st v r (S n).

Lemma reach_root st v r n : reach st v r n -> is_root st r.
Proof. induction 1; assumption. Qed.

Lemma reach_fun st v r1 n1 : reach st v r1 n1 -> forall r2 n2, reach st v r2 n2 -> r1 = r2 /\ n1 = n2.
Proof.
  induction 1 as [v Hr | v w r n Hl Hre IH]; intros r2 n2 H2.
  - inversion H2; subst; [split; reflexivity|]. unfold is_root in Hr. congruence.
  - inversion H2; subst.
    + unfold is_root in H. congruence.
    + assert (w0 = w) by congruence. subst. destruct (IH _ _ H0) as [-> ->]. split; reflexivity.
Qed.

Lemma chase_reach st v r n fuel : reach st v r n -> (n <= fuel)%nat -> chase fuel st v = r.
Proof.
  intros H. revert fuel. induction H as [v Hr | v w r n Hl Hre IH]; intros fuel Hle.
  - destruct fuel; cbn; [reflexivity|]. unfold is_root in Hr. rewrite Hr. reflexivity.
  - destruct fuel as [|f]; [lia|]. cbn. rewrite Hl. apply IH. lia.
Qed.

Lemma root_of_reach st v r n : reach st v r n -> (n <= nvars st + nscopes st)%nat -> root_of st v = r.
Proof. intros H Hle. unfold root_of. apply chase_reach with (n := n); assumption. Qed.

(* a ranking that decreases along links bounds the chains *)
Definition links_ok (st : state) (home : nat -> nat) : Prop :=
  forall v w, (v < nvars st)%nat -> vlink (vget st v) = Some w -> (w < nvars st)%nat /\ (home w < home v)%nat.

Lemma reach_total st home :
  links_ok st home -> forall k v, (home v <= k)%nat -> (v < nvars st)%nat ->
  exists r n, reach st v r n /\ (n <= home v)%nat /\ (r < nvars st)%nat /\ (home r <= home v)%nat.
Proof.
  intros Hl. induction k as [|k IH]; intros v Hk Hv.
  - destruct (vlink (vget st v)) as [w|] eqn:E.
    + destruct (Hl v w Hv E) as [_ H]. lia.
    + exists v, O. split; [constructor; exact E|]. repeat split; lia.
  - destruct (vlink (vget st v)) as [w|] eqn:E.
    + destruct (Hl v w Hv E) as [Hw Hlt].
      destruct (IH w ltac:(lia) Hw) as (r & n & Hre & Hn & Hr & Hh).
      exists r, (S n). split; [econstructor; eassumption|]. repeat split; lia.
    + exists v, O. split; [constructor; exact E|]. repeat split; lia.
Qed.

Definition homes_ok (st : state) (home : nat -> nat) : Prop :=
  forall v, (v < nvars st)%nat -> (home v < nscopes st)%nat.

Lemma root_of_spec st home v :
  links_ok st home -> homes_ok st home -> (v < nvars st)%nat ->
  exists n, reach st v (root_of st v) n /\ (n <= home v)%nat /\ (root_of st v < nvars st)%nat
            /\ (home (root_of st v) <= home v)%nat.
Proof.
  intros Hl Hh Hv. destruct (reach_total st home Hl (home v) v (le_n _) Hv) as (r & n & Hre & Hn & Hr & Hhr).
  assert (root_of st v = r) as ->.
  { apply root_of_reach with (n := n); [exact Hre|]. specialize (Hh v Hv). lia. }
  exists n. repeat split; assumption.
Qed.

Lemma root_of_is_root st home v :
  links_ok st home -> homes_ok st home -> (v < nvars st)%nat -> is_root st (root_of st v).
Proof.
  intros Hl Hh Hv. destruct (root_of_spec st home v Hl Hh Hv) as (n & Hre & _). eapply reach_root. exact Hre.
Qed.

Lemma root_of_root st v : is_root st v -> root_of st v = v.
Proof. intros H. apply root_of_reach with (n := O); [constructor; exact H|lia]. Qed.

(* updates that keep every link of the old variables *)
Definition same_links (st st' : state) : Prop :=
  (nvars st <= nvars st')%nat /\ forall v, (v < nvars st)%nat -> vlink (vget st' v) = vlink (vget st v).

Lemma reach_same_links st st' home v r n :
  links_ok st home -> same_links st st' -> (v < nvars st)%nat -> reach st v r n -> reach st' v r n.
Proof.
  intros Hl [Hle Hs] Hv H. induction H as [v Hr | v w r n Hlk Hre IH].
  - constructor. unfold is_root in *. rewrite Hs by exact Hv. exact Hr.
  - econstructor.
    + rewrite Hs by exact Hv. exact Hlk.
    + apply IH. destruct (Hl v w Hv Hlk) as [Hw _]. exact Hw.
Qed.

Lemma root_of_same_links st st' home v :
  links_ok st home -> homes_ok st home -> same_links st st' -> (nscopes st <= nscopes st')%nat ->
  (v < nvars st)%nat -> root_of st' v = root_of st v.
Proof.
  intros Hl Hh Hs Hsc Hv.
  destruct (root_of_spec st home v Hl Hh Hv) as (n & Hre & Hn & _).
  apply root_of_reach with (n := n).
  - eapply reach_same_links; eassumption.
  - specialize (Hh v Hv). destruct Hs as [Hle _]. lia.
Qed.

(* linking a root a to another root w *)
Definition link_update (st st' : state) (a w : nat) : Prop :=
  nvars st' = nvars st /\ vlink (vget st' a) = Some w /\
  forall v, v <> a -> vlink (vget st' v) = vlink (vget st v).

Lemma reach_link_update st st' a w v r n :
  link_update st st' a w -> is_root st a -> is_root st w -> w <> a ->
  reach st v r n ->
  (r <> a -> reach st' v r n) /\ (r = a -> reach st' v w (S n)).
Proof.
  intros (Hn & Ha & Ho) Hra Hrw Hwa H. induction H as [v Hr | v u r n Hlk Hre IH].
  - split.
    + intros Hne. constructor. unfold is_root in *. rewrite Ho by exact Hne. exact Hr.
    + intros ->. econstructor; [exact Ha|]. constructor. unfold is_root in *. rewrite Ho by exact Hwa. exact Hrw.
  - assert (Hva : v <> a). { intros ->. unfold is_root in Hra. congruence. }
    destruct IH as [IH1 IH2]. split.
    + intros Hne. econstructor; [rewrite Ho by exact Hva; exact Hlk|]. apply IH1. exact Hne.
    + intros ->. econstructor; [rewrite Ho by exact Hva; exact Hlk|]. apply IH2. reflexivity.
Qed.

Lemma root_of_link_update st st' home a w v :
  links_ok st home -> homes_ok st home -> link_update st st' a w ->
  is_root st a -> is_root st w -> w <> a -> nscopes st' = nscopes st ->
  (v < nvars st)%nat ->
  root_of st' v = if Nat.eqb (root_of st v) a then w else root_of st v.
Proof.
  intros Hl Hh Hu Hra Hrw Hwa Hsc Hv.
  destruct (root_of_spec st home v Hl Hh Hv) as (n & Hre & Hn & _).
  destruct (reach_link_update st st' a w v _ n Hu Hra Hrw Hwa Hre) as [H1 H2].
  pose proof (Hh v Hv) as Hhv. destruct Hu as (Hnv & _).
  destruct (Nat.eqb_spec (root_of st v) a) as [E|E].
  - apply root_of_reach with (n := S n); [apply H2; exact E|]. rewrite Hnv, Hsc. lia.
  - apply root_of_reach with (n := n); [apply H1; exact E|]. rewrite Hnv, Hsc. lia.
Qed.

(* ---- misc list facts ---------------------------------------------------------------------------- *)
Lemma find_map {A B} (f : B -> bool) (g : A -> B) (l : list A) :
  find f (map g l) = option_map g (find (fun a => f (g a)) l).
Proof.
  induction l as [|a t IH]; [reflexivity|]. cbn. destruct (f (g a)); [reflexivity|exact IH].
Qed.

Lemma find_ext_in {A} (f g : A -> bool) (l : list A) :
  (forall a, In a l -> f a = g a) -> find f l = find g l.
Proof.
  induction l as [|a t IH]; intros H; [reflexivity|]. cbn. rewrite (H a (or_introl eq_refl)).
  destruct (g a); [reflexivity|]. apply IH. intros b Hb. apply H. right. exact Hb.
Qed.

Lemma find_none_iff {A} (f : A -> bool) (l : list A) : find f l = None <-> forall a, In a l -> f a = false.
Proof.
  split.
  - intros H a Ha. eapply find_none; eassumption.
  - induction l as [|a t IH]; intros H; [reflexivity|]. cbn. rewrite (H a (or_introl eq_refl)).
    apply IH. intros b Hb. apply H. right. exact Hb.
Qed.

Lemma existsb_nat_in v l : existsb (Nat.eqb v) l = true <-> In v l.
Proof.
  rewrite existsb_exists. split.
  - intros (x & Hx & E). apply Nat.eqb_eq in E. subst. exact Hx.
  - intros H. exists v. split; [exact H|apply Nat.eqb_refl].
Qed.

Lemma u16_small x : 0 <= x < 65536 -> u16 x = x.
Proof. intros H. unfold u16. apply Z.mod_small. exact H. Qed.

Lemma filter_len_le {A} (f : A -> bool) l : (length (filter f l) <= length l)%nat.
Proof. induction l as [|a t IH]; cbn; [lia|]. destruct (f a); cbn; lia. Qed.

Lemma filter_all_false {A} (f : A -> bool) l : (forall a, In a l -> f a = false) -> filter f l = [].
Proof.
  induction l as [|a t IH]; intros H; [reflexivity|]. cbn. rewrite (H a (or_introl eq_refl)).
  apply IH. intros b Hb. apply H. right. exact Hb.
Qed.

Lemma filter_ext_in' {A} (f g : A -> bool) l : (forall a, In a l -> f a = g a) -> filter f l = filter g l.
Proof.
  induction l as [|a t IH]; intros H; [reflexivity|]. cbn. rewrite (H a (or_introl eq_refl)).
  rewrite IH; [reflexivity|]. intros b Hb. apply H. right. exact Hb.
Qed.
