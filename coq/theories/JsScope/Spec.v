(* JsScope/Spec.v — binding programs, the declarative (ECMAScript) resolver, and the
   linearisation: the sequence of scope events the parser performs for a binding program.
   Definitions only.

   A binding program is a statement/expression list in which only the constructs that matter
   for scoping are kept; the continuation of every construct is part of the constructor, so
   that the type is a plain (non-nested) inductive:

     Ref x           an identifier reference
     PRef x          an identifier in a parenthesised list, in a position where it could still
                     be an arrow parameter (only inside [Paren] heads)
     Decl k x        a declaration of x (var, function, let/const/class, parameter, catch
                     parameter)
     Block b         { b }   (also: switch body, try / finally block)
     Func nm ps b    function expression / method / the function part of a declaration:
                     optional expression name, parameter list ps (parameter declarations
                     interleaved with the references of their default values), body b
     Arrow ps b      (ps) => { b }
     ArrowId x b     x => { b }
     Paren hd        ( hd )  a parenthesised expression that is NOT an arrow head
     For hd b        for (hd) { b }   (hd: declarations and references of the loop head)
     Catch hd b      catch (hd) { b }
     Class nm ms     class [nm] { ms } as expression (nm = Some) or the body of a class
                     declaration (nm = None, preceded by Decl DLex name); a member
                     Func None ps b is a method, and with ps = Done also a static block
                     static { b } (a function scope of its own, parse.go parseClassElement)  *)
From Verif Require Import Common.Base JsScope.Model.

Inductive dkind := DVar | DFun | DLex | DParam | DCatch.

Inductive prog :=
| Done
| Ref (x : Z) (k : prog)
| PRef (x : Z) (k : prog)
| Decl (d : dkind) (x : Z) (k : prog)
| Block (b : prog) (k : prog)
| Func (nm : option Z) (ps : prog) (b : prog) (k : prog)
| Arrow (ps : prog) (b : prog) (k : prog)
| ArrowId (x : Z) (b : prog) (k : prog)
| Paren (hd : prog) (k : prog)
| For (hd : prog) (b : prog) (k : prog)
| Catch (hd : prog) (b : prog) (k : prog)
| Class (nm : option Z) (ms : prog) (k : prog).

(* ---- linearisation: what the parser does --------------------------------------------------- *)
Definition decl_code (d : dkind) : Z :=
  match d with
  | DVar => VariableDecl | DFun => FunctionDecl | DLex => LexicalDecl
  | DParam => ArgumentDecl | DCatch => CatchDecl
  end.

(* number of identifier occurrences *)
Fixpoint occurrences (p : prog) : nat :=
  match p with
  | Done => O
  | Ref _ k | PRef _ k | Decl _ _ k => S (occurrences k)
  | Block b k => occurrences b + occurrences k
  | Func nm ps b k => (match nm with Some _ => 1 | None => 0 end) + occurrences ps + occurrences b + occurrences k
  | Arrow ps b k => occurrences ps + occurrences b + occurrences k
  | ArrowId _ b k => S (occurrences b + occurrences k)
  | Paren hd k => occurrences hd + occurrences k
  | For hd b k | Catch hd b k => occurrences hd + occurrences b + occurrences k
  | Class nm ms k => (match nm with Some _ => 1 | None => 0 end) + occurrences ms + occurrences k
  end.

Fixpoint linearise (p : prog) : list event :=
  match p with
  | Done => []
  | Ref x k => EUse x :: linearise k
  | PRef x k => EParamOrUse x :: linearise k
  | Decl d x k => EDeclare (decl_code d) x :: linearise k
  | Block b k => EEnter false :: linearise b ++ EExit :: linearise k
  | Func nm ps b k =>
      EEnter true :: (match nm with Some f => [EDeclare ExprDecl f] | None => [] end)
        ++ linearise ps ++ EMarkArgs :: linearise b ++ EExit :: linearise k
  | Arrow ps b k => EEnter true :: linearise ps ++ EMarkArgs :: linearise b ++ EExit :: linearise k
  | ArrowId x b k => EUse x :: EEnter true :: EArrowIdent :: EMarkArgs :: linearise b ++ EExit :: linearise k
  | Paren hd k => EEnter true :: linearise hd ++ EExitUndeclare :: linearise k
  | For hd b k => EEnter false :: linearise hd ++ EMarkFor :: linearise b ++ EExit :: linearise k
  | Catch hd b k =>
      (* the mark follows the catch PARAMETER; for catch { } (hd = Done, no mark in the parser) it is the
         identity on the state: Proofs.catch_mark_noop *)
      EEnter false :: linearise hd ++ EMarkCatch :: linearise b ++ EExit :: linearise k
  | Class nm ms k =>
      (match nm with Some c => [EClassExprName c] | None => [] end)
        ++ EEnter false :: linearise ms
        ++ (match nm with Some _ => [EClassExprMerge (occurrences ms)] | None => [] end) ++ EExit :: linearise k
  end.

(* the whole program is the body of the module scope, which is never exited (parseModule) *)
Definition program_events (p : prog) : list event := EEnter true :: linearise p.

Definition run_program (p : prog) : outcome := prun init_pstate (program_events p).

(* the Var of every identifier occurrence, in source order, after following Link *)
Definition occurrence_vars (p : prog) : option (list nat) :=
  match run_program p with
  | Running ps => Some (map (root_of (pst ps)) (rev (plog ps)))
  | _ => None
  end.

(* ---- the declarative resolver --------------------------------------------------------------- *)
(* Spec scopes are named (n, aux): n is the running number of the construct that opens the scope
   (the counter advances exactly when the parser calls enterScope, so that n is also the index of
   the parser's Scope), aux = true for the auxiliary scope some constructs have under ECMAScript
   in front of their main scope: the name of a function/class expression, the let/const of a loop
   head. *)
Inductive target :=
| TGlobal (x : Z)                              (* bound nowhere *)
| TBind (sid : nat) (aux : bool) (x : Z).      (* the declaration of x in the spec scope (sid, aux) *)

Definition target_eqb (a b : target) : bool :=
  match a, b with
  | TGlobal x, TGlobal y => x =? y
  | TBind s a x, TBind t b y => Nat.eqb s t && Bool.eqb a b && (x =? y)
  | _, _ => false
  end.

Definition is_lex (d : dkind) : bool := match d with DLex => true | _ => false end.
Definition is_var (d : dkind) : bool := match d with DVar | DFun => true | _ => false end.

(* names declared lexically (let, const, class) by the statements of this list itself *)
Fixpoint lexdecls (p : prog) : list Z :=
  match p with
  | Done => []
  | Ref _ k | PRef _ k => lexdecls k
  | Decl d x k => (if is_lex d then [x] else []) ++ lexdecls k
  | Block _ k | Func _ _ _ k | Arrow _ _ k | ArrowId _ _ k | Paren _ k
  | For _ _ k | Catch _ _ k | Class _ _ k => lexdecls k
  end.

(* names declared by var / function in this list or in nested blocks, loops, catch clauses:
   everything that hoists to the enclosing function *)
Fixpoint vardecls (p : prog) : list Z :=
  match p with
  | Done => []
  | Ref _ k | PRef _ k => vardecls k
  | Decl d x k => (if is_var d then [x] else []) ++ vardecls k
  | Block b k => vardecls b ++ vardecls k
  | For hd b k => vardecls hd ++ vardecls b ++ vardecls k
  | Catch hd b k => vardecls hd ++ vardecls b ++ vardecls k
  | Func _ _ _ k | Arrow _ _ k | ArrowId _ _ k | Paren _ k | Class _ _ k => vardecls k
  end.

(* parameter / catch-parameter names of a head *)
Fixpoint headdecls (p : prog) : list Z :=
  match p with
  | Done => []
  | Ref _ k | PRef _ k => headdecls k
  | Decl d x k => (match d with DParam | DCatch => [x] | _ => [] end) ++ headdecls k
  | Block _ k | Func _ _ _ k | Arrow _ _ k | ArrowId _ _ k | Paren _ k
  | For _ _ k | Catch _ _ k | Class _ _ k => headdecls k
  end.

Definition mem (x : Z) (l : list Z) : bool := existsb (Z.eqb x) l.

Definition env := list (nat * bool * list Z).

Fixpoint lookup (e : env) (x : Z) : target :=
  match e with
  | [] => TGlobal x
  | (s, a, names) :: t => if mem x names then TBind s a x else lookup t x
  end.

(* resolve e fs cur n p = (targets of the occurrences of p in source order, next scope number)
   e: visible scopes innermost first; fs: the enclosing function scope (where var/function go);
   cur: the (main) scope lexical / parameter / catch declarations of this list belong to *)
Fixpoint resolve (e : env) (fs cur : nat) (ca : bool) (n : nat) (p : prog) : list target * nat :=
  match p with
  | Done => ([], n)
  | Ref x k | PRef x k =>
      let '(r, n1) := resolve e fs cur ca n k in (lookup e x :: r, n1)
  | Decl d x k =>
      let '(r, n1) := resolve e fs cur ca n k in
      ((if is_var d then TBind fs false x else TBind cur ca x) :: r, n1)
  | Block b k =>
      let '(rb, n1) := resolve ((n, false, lexdecls b) :: e) fs n false (S n) b in
      let '(rk, n2) := resolve e fs cur ca n1 k in
      (rb ++ rk, n2)
  | Func nm ps b k =>
      (* (n, true): the expression name; (n, false): parameters, var- and lexically declared names
         of the body; default values see the parameters but not the body's declarations *)
      let e1 := match nm with Some f => (n, true, [f]) :: e | None => e end in
      let '(rp, n1) := resolve ((n, false, headdecls ps) :: e1) n n false (S n) ps in
      let '(rb, n2) := resolve ((n, false, headdecls ps ++ vardecls b ++ lexdecls b) :: e1) n n false n1 b in
      let '(rk, n3) := resolve e fs cur ca n2 k in
      ((match nm with Some x => [TBind n true x] | None => [] end) ++ rp ++ rb ++ rk, n3)
  | Arrow ps b k =>
      let '(rp, n1) := resolve ((n, false, headdecls ps) :: e) n n false (S n) ps in
      let '(rb, n2) := resolve ((n, false, headdecls ps ++ vardecls b ++ lexdecls b) :: e) n n false n1 b in
      let '(rk, n3) := resolve e fs cur ca n2 k in
      (rp ++ rb ++ rk, n3)
  | ArrowId x b k =>
      let '(rb, n1) := resolve ((n, false, [x] ++ vardecls b ++ lexdecls b) :: e) n n false (S n) b in
      let '(rk, n2) := resolve e fs cur ca n1 k in
      (TBind n false x :: rb ++ rk, n2)
  | Paren hd k =>
      (* not a scope under ECMAScript (the parser opens a provisional one: number n is consumed):
         every identifier is a reference of the surrounding scope *)
      let '(rh, n1) := resolve e fs cur ca (S n) hd in
      let '(rk, n2) := resolve e fs cur ca n1 k in
      (rh ++ rk, n2)
  | For hd b k =>
      (* (n, true): the loop head's let/const; (n, false): the body block *)
      let '(rh, n1) := resolve ((n, true, lexdecls hd) :: e) fs n true (S n) hd in
      let '(rb, n2) := resolve ((n, false, lexdecls b) :: (n, true, lexdecls hd) :: e) fs n false n1 b in
      let '(rk, n3) := resolve e fs cur ca n2 k in
      (rh ++ rb ++ rk, n3)
  | Catch hd b k =>
      let '(rh, n1) := resolve ((n, false, headdecls hd) :: e) fs n false (S n) hd in
      let '(rb, n2) := resolve ((n, false, headdecls hd ++ lexdecls b) :: e) fs n false n1 b in
      let '(rk, n3) := resolve e fs cur ca n2 k in
      (rh ++ rb ++ rk, n3)
  | Class nm ms k =>
      let e1 := match nm with Some c => (n, true, [c]) :: e | None => e end in
      let '(rm, n1) := resolve e1 fs n false (S n) ms in
      let '(rk, n2) := resolve e fs cur ca n1 k in
      ((match nm with Some c => [TBind n true c] | None => [] end) ++ rm ++ rk, n2)
  end.

(* the module scope is spec scope (0, false) *)
Definition spec_resolve (p : prog) : list target :=
  fst (resolve [(O, false, vardecls p ++ lexdecls p)] O O false 1 p).

(* ---- early errors: the programs the property quantifies over -------------------------------- *)
Fixpoint nodupb (l : list Z) : bool :=
  match l with [] => true | x :: t => negb (mem x t) && nodupb t end.

Definition disjointb (a b : list Z) : bool := forallb (fun x => negb (mem x b)) a.

(* no redeclaration error in the statement list of one scope:
   lexical names are unique and differ from the names that hoist through or out of this list
   and from the head's names (parameters / catch parameter / loop-head let) *)
Definition scope_ok (head : list Z) (b : prog) : bool :=
  nodupb (lexdecls b) && disjointb (lexdecls b) (vardecls b) && disjointb (lexdecls b) head.

Fixpoint spec_ok (p : prog) : bool :=
  match p with
  | Done => true
  | Ref _ k | PRef _ k | Decl _ _ k => spec_ok k
  | Block b k => scope_ok [] b && spec_ok b && spec_ok k
  | Func nm ps b k =>
      nodupb (headdecls ps) && scope_ok (headdecls ps) b && spec_ok ps && spec_ok b && spec_ok k
  | Arrow ps b k =>
      nodupb (headdecls ps) && scope_ok (headdecls ps) b && spec_ok ps && spec_ok b && spec_ok k
  | ArrowId x b k => scope_ok [x] b && spec_ok b && spec_ok k
  | Paren hd k => spec_ok hd && spec_ok k
  | For hd b k =>
      nodupb (lexdecls hd) && disjointb (lexdecls hd) (vardecls b)
      && scope_ok [] b && spec_ok hd && spec_ok b && spec_ok k
  | Catch hd b k =>
      nodupb (headdecls hd) && scope_ok (headdecls hd) b && spec_ok hd && spec_ok b && spec_ok k
  | Class _ ms k => spec_ok ms && spec_ok k
  end.

Definition program_ok (p : prog) : bool := scope_ok [] p && spec_ok p.

(* ---- the fragment covered by the proof of resolution_correct ---------------------------------- *)
(* parameter lists without default values *)
Fixpoint params_only (p : prog) : bool :=
  match p with
  | Done => true
  | Decl DParam _ k => params_only k
  | _ => false
  end.

(* catch heads without default values *)
Fixpoint catch_params_only (p : prog) : bool :=
  match p with
  | Done => true
  | Decl DCatch _ k => catch_params_only k
  | _ => false
  end.

(* Block, anonymous Func and parenthesised Arrow with plain parameters, Catch with plain parameters whose
   names the catch block does not redeclare with var/function (Annex B), Decl var / function /
   let-const-class, Ref; arbitrary nesting and order *)
Fixpoint core (p : prog) : bool :=
  match p with
  | Done => true
  | Ref _ k => core k
  | Decl d _ k => (match d with DVar | DFun | DLex => true | _ => false end) && core k
  | Block b k => core b && core k
  | Func None ps b k => params_only ps && core b && core k
  | Arrow ps b k => params_only ps && core b && core k
  | Catch hd b k => catch_params_only hd && disjointb (headdecls hd) (vardecls b) && core b && core k
  | _ => false
  end.

(* every name that occurs in p *)
Fixpoint allnames (p : prog) : list Z :=
  match p with
  | Done => []
  | Ref x k | PRef x k | Decl _ x k => x :: allnames k
  | Block b k => allnames b ++ allnames k
  | Func nm ps b k => (match nm with Some f => [f] | None => [] end) ++ allnames ps ++ allnames b ++ allnames k
  | Arrow ps b k => allnames ps ++ allnames b ++ allnames k
  | ArrowId x b k => x :: allnames b ++ allnames k
  | Paren h k => allnames h ++ allnames k
  | For h b k | Catch h b k => allnames h ++ allnames b ++ allnames k
  | Class nm ms k => (match nm with Some c => [c] | None => [] end) ++ allnames ms ++ allnames k
  end.


(* ---- the larger fragment of resolution_correct: parameter default values -------------------------------------- *)
(* names occurring in the default values of a parameter list (everything but the parameter names) *)
Fixpoint default_names (ps : prog) : list Z :=
  match ps with
  | Done => []
  | Decl _ _ k => default_names k
  | Ref x k | PRef x k => x :: default_names k
  | Block b k => allnames b ++ default_names k
  | Func nm a b k => (match nm with Some f => [f] | None => [] end) ++ allnames a ++ allnames b ++ default_names k
  | Arrow a b k => allnames a ++ allnames b ++ default_names k
  | ArrowId x b k => x :: allnames b ++ default_names k
  | Paren h k => allnames h ++ default_names k
  | For h b k | Catch h b k => allnames h ++ allnames b ++ default_names k
  | Class nm ms k => (match nm with Some c => [c] | None => [] end) ++ allnames ms ++ default_names k
  end.

Definition is_nil (l : list Z) : bool := match l with [] => true | _ => false end.

(* [core_d]: as [core], and the parameter lists of functions and parenthesised arrows may have default values
   ([pcore_d]): references and nested functions / arrows of the same fragment, provided that a default value
   does not mention a parameter declared later in the same list (there /repo deviates from ECMAScript:
   resolution_param_defaults_refuted); a default value may mention a name that the function body declares (the
   use is frozen by MarkFuncArgs and no longer adopted by the body's declaration: /repo 6a9c7af);
   class bodies without a class-expression name: methods, field values and computed keys, static blocks
   (a static block is a function scope without parameters, Func None Done b: Proofs.static_block_mark_noop). *)
Fixpoint core_d (p : prog) : bool :=
  match p with
  | Done => true
  | Ref _ k => core_d k
  | Decl d _ k => (match d with DVar | DFun | DLex => true | _ => false end) && core_d k
  | Block b k => core_d b && core_d k
  | Func None ps b k =>
      pcore_d ps && core_d b && core_d k
  | Arrow ps b k =>
      pcore_d ps && core_d b && core_d k
  | Catch hd b k => catch_params_only hd && disjointb (headdecls hd) (vardecls b) && core_d b && core_d k
  | Class None ms k => core_d ms && is_nil (lexdecls ms) && is_nil (vardecls ms) && core_d k
  | _ => false
  end
with pcore_d (ps : prog) : bool :=
  match ps with
  | Done => true
  | Decl DParam _ k => pcore_d k
  | Ref x k => negb (mem x (headdecls k)) && pcore_d k
  | Func None a b k =>
      pcore_d a && core_d b
      && disjointb (allnames a ++ allnames b) (headdecls k) && pcore_d k
  | Arrow a b k =>
      pcore_d a && core_d b
      && disjointb (allnames a ++ allnames b) (headdecls k) && pcore_d k
  | Class None ms k =>
      core_d ms && is_nil (lexdecls ms) && is_nil (vardecls ms) && disjointb (allnames ms) (headdecls k) && pcore_d k
  | _ => false
  end.

(* ---- the resolver with auxiliary scopes merged into their main scopes ------------------------------------------ *)
(* The parser has ONE Scope where ECMAScript has an auxiliary scope in front of a main scope (the name of a
   function / class expression, the let/const of a loop head).  [erase] forgets which of the two a binding is
   in; [resolve_m] is the resolver that never distinguishes them.  Bridge.erase_resolve:
   map erase (resolve ...) = resolve_m ...; the two induce the same partition of the occurrences exactly when
   no name is bound both in an auxiliary scope and in its main scope ([aux_distinct]). *)
Definition erase (t : target) : target :=
  match t with TGlobal x => TGlobal x | TBind s _ x => TBind s false x end.

Fixpoint resolve_m (e : env) (fs cur : nat) (ca : bool) (n : nat) (p : prog) : list target * nat :=
  match p with
  | Done => ([], n)
  | Ref x k | PRef x k =>
      let '(r, n1) := resolve_m e fs cur ca n k in (lookup e x :: r, n1)
  | Decl d x k =>
      let '(r, n1) := resolve_m e fs cur ca n k in
      ((if is_var d then TBind fs false x else TBind cur false x) :: r, n1)
  | Block b k =>
      let '(rb, n1) := resolve_m ((n, false, lexdecls b) :: e) fs n false (S n) b in
      let '(rk, n2) := resolve_m e fs cur ca n1 k in
      (rb ++ rk, n2)
  | Func None ps b k =>
      let '(rp, n1) := resolve_m ((n, false, headdecls ps) :: e) n n false (S n) ps in
      let '(rb, n2) := resolve_m ((n, false, headdecls ps ++ vardecls b ++ lexdecls b) :: e) n n false n1 b in
      let '(rk, n3) := resolve_m e fs cur ca n2 k in
      (rp ++ rb ++ rk, n3)
  | Func (Some f) ps b k =>
      let '(rp, n1) := resolve_m ((n, false, headdecls ps ++ [f]) :: e) n n false (S n) ps in
      let '(rb, n2) := resolve_m ((n, false, headdecls ps ++ vardecls b ++ lexdecls b ++ [f]) :: e) n n false n1 b in
      let '(rk, n3) := resolve_m e fs cur ca n2 k in
      (TBind n false f :: rp ++ rb ++ rk, n3)
  | Arrow ps b k =>
      let '(rp, n1) := resolve_m ((n, false, headdecls ps) :: e) n n false (S n) ps in
      let '(rb, n2) := resolve_m ((n, false, headdecls ps ++ vardecls b ++ lexdecls b) :: e) n n false n1 b in
      let '(rk, n3) := resolve_m e fs cur ca n2 k in
      (rp ++ rb ++ rk, n3)
  | ArrowId x b k =>
      let '(rb, n1) := resolve_m ((n, false, [x] ++ vardecls b ++ lexdecls b) :: e) n n false (S n) b in
      let '(rk, n2) := resolve_m e fs cur ca n1 k in
      (TBind n false x :: rb ++ rk, n2)
  | Paren hd k =>
      let '(rh, n1) := resolve_m e fs cur ca (S n) hd in
      let '(rk, n2) := resolve_m e fs cur ca n1 k in
      (rh ++ rk, n2)
  | For hd b k =>
      let '(rh, n1) := resolve_m ((n, false, lexdecls hd) :: e) fs n false (S n) hd in
      let '(rb, n2) := resolve_m ((n, false, lexdecls hd ++ lexdecls b) :: e) fs n false n1 b in
      let '(rk, n3) := resolve_m e fs cur ca n2 k in
      (rh ++ rb ++ rk, n3)
  | Catch hd b k =>
      let '(rh, n1) := resolve_m ((n, false, headdecls hd) :: e) fs n false (S n) hd in
      let '(rb, n2) := resolve_m ((n, false, headdecls hd ++ lexdecls b) :: e) fs n false n1 b in
      let '(rk, n3) := resolve_m e fs cur ca n2 k in
      (rh ++ rb ++ rk, n3)
  | Class None ms k =>
      let '(rm, n1) := resolve_m e fs n false (S n) ms in
      let '(rk, n2) := resolve_m e fs cur ca n1 k in
      (rm ++ rk, n2)
  | Class (Some c) ms k =>
      let '(rm, n1) := resolve_m ((n, false, [c]) :: e) fs n false (S n) ms in
      let '(rk, n2) := resolve_m e fs cur ca n1 k in
      (TBind n false c :: rm ++ rk, n2)
  end.

Definition spec_resolve_m (p : prog) : list target :=
  fst (resolve_m [(O, false, vardecls p ++ lexdecls p)] O O false 1 p).

(* no name is bound both in an auxiliary scope and in the main scope of the same parser Scope *)
Definition aux_distinct (ts : list target) : bool :=
  forallb (fun t => match t with
                    | TBind s true x => negb (existsb (target_eqb (TBind s false x)) ts)
                    | _ => true
                    end) ts.

(* [core_x]: [core_d] and
     - function expressions with a name that is not also a parameter or a declaration of the body
       (c04-es:funcexpr-name-redeclared),
     - loops whose body declares lexically no name that the head DECLARES (let / const / var:
       c04-es:loop-head-shadowed-in-body), and whose var names differ from the lexical names of the head; the head
       may mention (initialisers, iterated expression) names the body declares: the uses are frozen by MarkForStmt. *)
Fixpoint core_x (p : prog) : bool :=
  match p with
  | Done => true
  | Ref _ k => core_x k
  | Decl d _ k => (match d with DVar | DFun | DLex => true | _ => false end) && core_x k
  | Block b k => core_x b && core_x k
  | Func nm ps b k =>
      hcore_x false ps && core_x b && core_x k
      && (match nm with Some f => negb (mem f (headdecls ps ++ vardecls b ++ lexdecls b)) | None => true end)
  | Arrow ps b k =>
      hcore_x false ps && core_x b && core_x k
  | For hd b k =>
      core_x hd && core_x b && core_x k
      && disjointb (lexdecls hd) (lexdecls b) && disjointb (vardecls hd) (lexdecls hd ++ lexdecls b)
  | Catch hd b k => hcore_x true hd && disjointb (headdecls hd) (vardecls b) && core_x b && core_x k
  | Class None ms k => core_x ms && is_nil (lexdecls ms) && is_nil (vardecls ms) && core_x k
  | _ => false
  end
with hcore_x (c : bool) (ps : prog) : bool :=
  (* c = false: a parameter list; c = true: the parameter (pattern) of a catch clause, where a default value may
     mention a later name of the pattern (Declare(CatchDecl) adopts the earlier uses, as ECMAScript prescribes) *)
  match ps with
  | Done => true
  | Decl DParam _ k => if c then false else hcore_x c k
  | Decl DCatch _ k => if c then hcore_x c k else false
  | Ref x k => (if c then true else negb (mem x (headdecls k))) && hcore_x c k
  | Func nm a b k =>
      hcore_x false a && core_x b
      && (if c then true else disjointb (allnames a ++ allnames b) (headdecls k)) && hcore_x c k
      && (match nm with Some f => negb (mem f (headdecls a ++ vardecls b ++ lexdecls b)) && (if c then true else negb (mem f (headdecls k))) | None => true end)
  | Arrow a b k =>
      hcore_x false a && core_x b
      && (if c then true else disjointb (allnames a ++ allnames b) (headdecls k)) && hcore_x c k
  | Class None ms k =>
      core_x ms && is_nil (lexdecls ms) && is_nil (vardecls ms)
      && (if c then true else disjointb (allnames ms) (headdecls k)) && hcore_x c k
  | _ => false
  end.
Notation pcore_x := (hcore_x false).

(* ---- comparing partitions -------------------------------------------------------------------- *)
(* canonical numbering of a list by first occurrence: two lists induce the same partition of
   positions iff their canonical numberings are equal *)
Fixpoint index_of {A} (eqb : A -> A -> bool) (a : A) (l : list A) (i : nat) : option nat :=
  match l with
  | [] => None
  | x :: t => if eqb x a then Some i else index_of eqb a t (S i)
  end.

Fixpoint canon_aux {A} (eqb : A -> A -> bool) (seen : list A) (l : list A) : list nat :=
  match l with
  | [] => []
  | a :: t =>
      match index_of eqb a seen O with
      | Some i => i :: canon_aux eqb seen t
      | None => length seen :: canon_aux eqb (seen ++ [a]) t
      end
  end.

Definition canon {A} (eqb : A -> A -> bool) (l : list A) : list nat := canon_aux eqb [] l.
