(* JsScope/Resolve7.v — layer 2, part 7: blocks, functions with default values, arrows, catch clauses; the
   induction over the fragment. *)
From Coq Require Import ZifyBool.
From Verif Require Import Common.Base Common.Tactics JsScope.Model JsScope.Spec JsScope.Abs JsScope.HeapLemmas
  JsScope.SimUse JsScope.SimDeclare JsScope.SimDeclare3 JsScope.Resolve1 JsScope.Resolve2 JsScope.Resolve3 JsScope.Resolve4
  JsScope.Resolve5 JsScope.Resolve6 JsScope.ResolveIrr.

(* ---- facts about the fragment ------------------------------------------------------------------------------------ *)
Ltac andbs := repeat match goal with H : _ && _ = true |- _ => apply andb_true_iff in H; destruct H end.

Lemma core_x_headdecls p : core_x p = true -> headdecls p = [].
Proof.
  induction p; cbn [core_x headdecls]; intros H; try discriminate; try reflexivity.
  - apply IHp. exact H.
  - andbs. destruct d; try discriminate; cbn; apply IHp; assumption.
  - andbs. apply IHp2. assumption.
  - andbs. apply IHp3. assumption.
  - andbs. apply IHp3. assumption.
  - andbs. apply IHp3. assumption.
  - andbs. apply IHp3. assumption.
  - destruct nm; [discriminate|]. andbs. apply IHp2. assumption.
Qed.

Lemma is_nil_eq l : is_nil l = true -> l = [].
Proof. destruct l; [reflexivity|discriminate]. Qed.

Lemma vardecls_allnames p : forall x, In x (vardecls p) -> In x (allnames p).
Proof.
  induction p; cbn [vardecls allnames]; intros y Hy.
  - destruct Hy.
  - right. apply IHp. exact Hy.
  - right. apply IHp. exact Hy.
  - apply in_app_iff in Hy. destruct Hy as [Hy|Hy]; [|right; apply IHp; exact Hy].
    destruct (is_var d); [destruct Hy as [<-|[]]; left; reflexivity|destruct Hy].
  - apply in_app_iff in Hy. apply in_app_iff. destruct Hy as [Hy|Hy]; [left; apply IHp1|right; apply IHp2]; exact Hy.
  - apply in_app_iff. right. apply in_app_iff. right. apply in_app_iff. right. apply IHp3. exact Hy.
  - apply in_app_iff. right. apply in_app_iff. right. apply IHp3. exact Hy.
  - right. apply in_app_iff. right. apply IHp2. exact Hy.
  - apply in_app_iff. right. apply IHp2. exact Hy.
  - apply in_app_iff in Hy. apply in_app_iff. destruct Hy as [Hy|Hy]; [left; apply IHp1; exact Hy|right].
    apply in_app_iff in Hy. apply in_app_iff. destruct Hy as [Hy|Hy]; [left; apply IHp2|right; apply IHp3]; exact Hy.
  - apply in_app_iff in Hy. apply in_app_iff. destruct Hy as [Hy|Hy]; [left; apply IHp1; exact Hy|right].
    apply in_app_iff in Hy. apply in_app_iff. destruct Hy as [Hy|Hy]; [left; apply IHp2|right; apply IHp3]; exact Hy.
  - apply in_app_iff. right. apply in_app_iff. right. apply IHp2. exact Hy.
Qed.

Lemma lexdecls_allnames p : forall x, In x (lexdecls p) -> In x (allnames p).
Proof.
  induction p; cbn [lexdecls allnames]; intros y Hy.
  - destruct Hy.
  - right. apply IHp. exact Hy.
  - right. apply IHp. exact Hy.
  - apply in_app_iff in Hy. destruct Hy as [Hy|Hy]; [|right; apply IHp; exact Hy].
    destruct (is_lex d); [destruct Hy as [<-|[]]; left; reflexivity|destruct Hy].
  - apply in_app_iff. right. apply IHp2. exact Hy.
  - apply in_app_iff. right. apply in_app_iff. right. apply in_app_iff. right. apply IHp3. exact Hy.
  - apply in_app_iff. right. apply in_app_iff. right. apply IHp3. exact Hy.
  - right. apply in_app_iff. right. apply IHp2. exact Hy.
  - apply in_app_iff. right. apply IHp2. exact Hy.
  - apply in_app_iff. right. apply in_app_iff. right. apply IHp3. exact Hy.
  - apply in_app_iff. right. apply in_app_iff. right. apply IHp3. exact Hy.
  - apply in_app_iff. right. apply in_app_iff. right. apply IHp2. exact Hy.
Qed.

Lemma hcore_x_lexvar c p : hcore_x c p = true -> lexdecls p = [] /\ vardecls p = [].
Proof.
  induction p; cbn [hcore_x lexdecls vardecls]; intros H; try discriminate; try (split; reflexivity).
  - andbs. apply IHp. assumption.
  - destruct d; try discriminate; destruct c; try discriminate; cbn; apply IHp; exact H.
  - andbs. apply IHp3. assumption.
  - andbs. apply IHp3. assumption.
  - destruct nm; [discriminate|]. andbs. apply IHp2. assumption.
Qed.
Definition pcore_x_lexvar := hcore_x_lexvar false.

Lemma pcore_x_allnames p : pcore_x p = true -> forall x, In x (allnames p) -> In x (headdecls p) \/ In x (default_names p).
Proof.
  induction p; cbn [hcore_x allnames headdecls default_names]; intros H y Hy; try discriminate.
  - destruct Hy.
  - andbs. destruct Hy as [<-|Hy]; [right; left; reflexivity|].
    destruct (IHp ltac:(assumption) y Hy) as [G|G]; [left; exact G|right; right; exact G].
  - destruct d; try discriminate. cbn [app]. destruct Hy as [<-|Hy]; [left; left; reflexivity|].
    destruct (IHp H y Hy) as [G|G]; [left; right; exact G|right; exact G].
  - andbs.
    apply in_app_iff in Hy. destruct Hy as [Hy|Hy]; [right; apply in_app_iff; left; exact Hy|].
    apply in_app_iff in Hy. destruct Hy as [Hy|Hy]; [right; apply in_app_iff; right; apply in_app_iff; left; exact Hy|].
    apply in_app_iff in Hy. destruct Hy as [Hy|Hy]; [right; apply in_app_iff; right; apply in_app_iff; right; apply in_app_iff; left; exact Hy|].
    destruct (IHp3 ltac:(assumption) y Hy) as [G|G]; [left; exact G|].
    right. apply in_app_iff. right. apply in_app_iff. right. apply in_app_iff. right. exact G.
  - andbs.
    apply in_app_iff in Hy. destruct Hy as [Hy|Hy]; [right; apply in_app_iff; left; exact Hy|].
    apply in_app_iff in Hy. destruct Hy as [Hy|Hy]; [right; apply in_app_iff; right; apply in_app_iff; left; exact Hy|].
    destruct (IHp3 ltac:(assumption) y Hy) as [G|G]; [left; exact G|right; apply in_app_iff; right; apply in_app_iff; right; exact G].
  - destruct nm; [discriminate|]. andbs. cbn [app] in *.
    apply in_app_iff in Hy. destruct Hy as [Hy|Hy]; [right; apply in_app_iff; left; exact Hy|].
    destruct (IHp2 ltac:(assumption) y Hy) as [G|G]; [left; exact G|right; apply in_app_iff; right; exact G].
Qed.

Lemma to_args_uarg y l : In (UArg y) (to_args l) -> In (UPend y) l \/ In (UArg y) l.
Proof.
  intros H. destruct (to_args_in _ _ H) as [(y0 & E & H')|(E & _ & _)]; [|discriminate].
  injection E as <-. exact H'.
Qed.

Lemma to_args_no_pend y l : ~ In (UPend y) (to_args l).
Proof. intros H. apply in_pend_names in H. rewrite to_args_pend in H. destruct H. Qed.

Lemma final_push2 a z n names names' :
  AInv a z -> (anext a <= n)%nat ->
  map (final ((n, false, names) :: env_of z)) (alog a) = map (final ((n, false, names') :: env_of z)) (alog a).
Proof. intros A Hn. rewrite (final_push a z n names A Hn), (final_push a z n names' A Hn). reflexivity. Qed.

(* the common part of Block, Func, Arrow and Catch: a scope has been entered (frame B on top of z), its
   content has run (state a2), it is exited and the continuation k runs *)
Section Nested.
  Variables (k : prog) (V : list Z).      (* V: the var-like names the scope lets through to the parent *)
  Variable c : bool.
  Hypothesis IHk : run_ok_gen c k.

  Lemma after_scope a fr pr rest a2 B' prB P' rest1 names ts_b n_b Nb :
    AInv a ((fr, pr) :: rest) ->
    AInv a2 ((B', prB) :: (P', pr) :: rest1) ->
    fid B' = anext a -> pnames prB = names ->
    shape ((P', pr) :: rest1) = shape ((fr, pr) :: rest) ->
    grow_one (below V (B', prB)) (fr, pr) (P', pr) ->
    grow_rest (below (below V (B', prB)) (fr, pr)) rest rest1 ->
    (forall y, In y (pnames prB) -> In y (dnames B')) ->
    (forall y, In (UPend y) (fund B') \/ In (UArg y) (fund B') -> In y Nb) ->
    map (final ((anext a, false, names) :: env_of ((fr, pr) :: rest))) (alog a2)
      = rev ts_b ++ map (final ((anext a, false, names) :: env_of ((fr, pr) :: rest))) (alog a) ->
    anext a2 = n_b -> (anext a <= n_b)%nat ->
    NoDup (lexdecls k) ->
    (forall x, In x (lexdecls k) -> In x (plex pr) /\ ~ In x (dnames fr)) ->
    (forall x, In x (below V (B', prB)) -> var_ok x ((fr, pr) :: rest)) ->
    (forall x, In x (vardecls k) -> var_ok x ((fr, pr) :: rest)) ->
    NoDup (headdecls k) ->
    (forall x, In x (headdecls k) -> hk c pr x /\ ~ In x (dnames fr) /\ (c = false -> ~ In (UPend x) (fund fr))
                                     /\ ~ In x (below V (B', prB)) /\ (c = false -> ~ In x Nb)) ->
    spec_ok k = true ->
    exists a' fr' rest',
      arun a2 (EExit :: linearise k) = ARun a' /\ AInv a' ((fr', pr) :: rest') /\
      grow (lexdecls k ++ headdecls k) (below V (B', prB) ++ vardecls k) ((fr, pr) :: rest) ((fr', pr) :: rest') /\
      (forall x, In x (lexdecls k) -> In x (dnames fr')) /\
      (forall x, In x (vardecls k) -> In x (func_dnames ((fr', pr) :: rest'))) /\
      incl (func_dnames ((P', pr) :: rest1)) (func_dnames ((fr', pr) :: rest')) /\
      (forall x, In x (headdecls k) -> In x (dnames fr')) /\
      (forall y, In (UPend y) (fund fr') -> In (UPend y) (fund fr) \/ In y Nb \/ In y (allnames k)) /\
      (forall y, In (UArg y) (fund fr') -> In (UArg y) (fund fr)) /\
      map (final (env_of ((fr, pr) :: rest))) (alog a')
        = rev (fst (resolve_m (env_of ((fr, pr) :: rest)) (func_of ((fr, pr) :: rest)) (fid fr) false n_b k))
          ++ rev ts_b ++ map (final (env_of ((fr, pr) :: rest))) (alog a) /\
      anext a' = snd (resolve_m (env_of ((fr, pr) :: rest)) (func_of ((fr, pr) :: rest)) (fid fr) false n_b k).
  Proof.
    intros A A2 HfidB Hnames Hs1 Gp Gr Hfull HNb Fb Nb' Hle Hnd Hlex HVok Hvar Hndh Hhead Hok.
    pose proof (A_frames _ _ A) as [Kfr _].
    destruct (L_exit a2 B' prB P' pr rest1 A2 Hfull) as (a3 & P'' & H3 & A3 & E1 & E2 & E3 & _ & _ & E4 & E5a & N3 & F3).
    assert (Hs3 : shape ((P'', pr) :: rest1) = shape ((fr, pr) :: rest)).
    { rewrite <- Hs1. cbn. rewrite E1, E2. reflexivity. }
    assert (Edn : dnames P'' = dnames P') by (unfold dnames; rewrite E3; reflexivity).
    destruct Gp as (Gpi & Gpb & Gpu & Gpa). unfold dn in Gpi, Gpb. cbn [fst] in Gpi, Gpb, Gpu, Gpa.
    destruct (IHk a3 P'' pr rest1 A3 Hnd) as (a' & fr' & rest' & R & A' & G & P1 & P2 & P3 & P4 & P5 & F & N).
    { intros y Hy. destruct (Hlex y Hy) as [Hyp Hyn]. split; [exact Hyp|]. rewrite Edn. intros Hi.
      destruct (Gpb y Hi) as [H|H]; [contradiction|]. apply (lex_var_contra fr pr rest y Kfr Hyp). apply HVok. exact H. }
    { intros y Hy. apply (var_ok_shape y ((fr, pr) :: rest)); [symmetry; exact Hs3|apply Hvar; exact Hy]. }
    { exact Hndh. }
    { intros y Hy. destruct (Hhead y Hy) as (Q1 & Q2 & Q3 & Q4 & Q5). split; [exact Q1|]. split.
      - rewrite Edn. intros Hi. destruct (Gpb y Hi) as [H|H]; contradiction.
      - intros Hc Hi. destruct (E4 y Hi) as [H|[H|H]]; [apply (Q3 Hc); apply Gpu; exact H|apply (Q5 Hc); apply HNb; left; exact H|apply (Q5 Hc); apply HNb; right; exact H]. }
    { exact Hok. }
    assert (Efid : fid P'' = fid fr) by (cbn in Hs3; injection Hs3 as H _; exact H).
    rewrite (env_of_shape _ _ Hs3), (func_of_shape _ _ Hs3), Efid, N3, Nb' in F, N.
    exists a', fr', rest'. split.
    { cbn [arun astep]. rewrite H3. exact R. }
    split; [exact A'|]. split.
    { apply (grow_weaken ([] ++ lexdecls k ++ headdecls k) (below V (B', prB) ++ vardecls k)); [apply incl_refl|apply incl_refl|].
      eapply grow_trans; [|exact G]. split; [exact Hs3|]. unfold dn. cbn [fst]. rewrite Edn.
      split; [exact Gpi|]. split; [|exact Gr]. intros y Hy. destruct (Gpb y Hy) as [H|H]; [left; exact H|right; right; exact H]. }
    split; [exact P1|]. split; [exact P2|]. split.
    { eapply incl_tran; [|apply (func_dnames_mono _ _ _ _ G)]. cbn [func_dnames]. rewrite E2, Edn. apply incl_refl. }
    split; [exact P3|]. split.
    { intros y Hy. destruct (P4 y Hy) as [H|H]; [|right; right; exact H].
      destruct (E4 y H) as [H'|[H'|H']]; [left; apply Gpu; exact H'|right; left; apply HNb; left; exact H'|right; left; apply HNb; right; exact H']. }
    split; [intros y Hy; apply Gpa; apply E5a; apply P5; exact Hy|].
    split; [|exact N].
    rewrite F. f_equal. rewrite (env_of_shape _ _ Hs1) in F3. rewrite F3.
    assert (Eenv : env_of ((B', prB) :: (P', pr) :: rest1) = (anext a, false, names) :: env_of ((fr, pr) :: rest)).
    { cbn [env_of map fst snd]. rewrite HfidB, Hnames. f_equal. apply (env_of_shape _ _ Hs1). }
    rewrite Eenv, Fb. f_equal. apply (final_push a _ (anext a) names A). lia.
  Qed.
End Nested.

(* ---- Block ------------------------------------------------------------------------------------------------------ *)
Lemma run_ok_block c b k :
  headdecls b = [] -> (forall x, In x (headdecls k) -> ~ In x (vardecls b) /\ (c = false -> ~ In x (allnames b))) ->
  run_ok b -> run_ok_gen c k -> run_ok_gen c (Block b k).
Proof.
  intros Hb0 Hkfresh IHb IHk a fr pr rest A Hnd Hlex Hvar Hndh Hhead Hok.
  cbn [headdecls] in Hndh, Hhead.
  cbn [lexdecls] in Hnd, Hlex. cbn [vardecls] in Hvar. cbn [spec_ok] in Hok.
  apply andb_true_iff in Hok. destruct Hok as [Hok Hokk]. apply andb_true_iff in Hok. destruct Hok as [Hsc Hokb].
  destruct (scope_ok_spec [] b Hsc) as (Hndb & Hlv & _).
  set (prB := mkPr (lexdecls b) [] false []).
  destruct (L_enter a ((fr, pr) :: rest) false prB A) as (a1 & H1 & A1 & El & En).
  { intros y _ []. }
  set (B0 := mkF (anext a) false [] [] O O) in *.
  destruct (IHb a1 B0 prB ((fr, pr) :: rest) A1 Hndb) as (a2 & B' & z1 & R2 & A2 & G2 & P1b & P2b & P3b & P4b & P5b & F2 & N2).
  { intros y Hy. split; [exact Hy|intros []]. }
  { intros y Hy. cbn [var_ok fisfunc B0]. split.
    - unfold pall, pnames. cbn [pvar plex pfut prB app]. rewrite app_nil_r. intros Hi. apply (Hlv y Hi Hy).
    - apply Hvar. apply in_app_iff. left. exact Hy. }
  { rewrite Hb0. constructor. }
  { rewrite Hb0. intros y []. }
  { exact Hokb. }
  pose proof (grow_shape _ _ _ _ G2) as Hs2. cbn [shape map fst snd] in Hs2. injection Hs2 as HfidB HfB Hs2.
  destruct (shape_cons_inv z1 fr pr rest Hs2) as (P' & rest1 & -> & _ & _ & _).
  destruct G2 as [_ (G2i & G2b & G2r)]. cbn [grow_rest] in G2r. destruct G2r as [Gp Gr].
  assert (Ebelow : below (vardecls b) (B', prB) = vardecls b) by (unfold below; cbn [fst]; rewrite HfB; reflexivity).
  assert (Ebelow0 : below (vardecls b) (B0, prB) = vardecls b) by reflexivity.
  rewrite Ebelow0 in Gp. rewrite Ebelow0 in Gr.
  rewrite El, En in F2. rewrite En in N2.
  remember (resolve_m (env_of ((B0, prB) :: (fr, pr) :: rest)) (func_of ((B0, prB) :: (fr, pr) :: rest)) (fid B0) false (S (anext a)) b) as RB eqn:HeqRB.
  assert (Hle : (anext a <= snd RB)%nat).
  { rewrite <- N2. destruct A2 as [_ _ An _]. pose proof (An (B', prB) (or_introl eq_refl)) as H. cbn [fst] in H. lia. }
  destruct (after_scope k (vardecls b) c IHk a fr pr rest a2 B' prB P' rest1 (lexdecls b) (fst RB) (snd RB) (allnames b)
              A A2 HfidB eq_refl Hs2)
    as (a' & fr' & rest' & R & A' & G & P1 & P2 & Pf & P3 & P4 & P5 & F & N).
  { rewrite Ebelow. exact Gp. }
  { rewrite Ebelow. exact Gr. }
  { intros y Hy. apply P1b. exact Hy. }
  { intros y [Hy|Hy]; [destruct (P4b y Hy) as [[]|H]; exact H|destruct (P5b y Hy)]. }
  { exact F2. }
  { exact N2. }
  { exact Hle. }
  { exact Hnd. } { exact Hlex. }
  { rewrite Ebelow. intros y Hy. apply Hvar. apply in_app_iff. left. exact Hy. }
  { intros y Hy. apply Hvar. apply in_app_iff. right. exact Hy. }
  { exact Hndh. }
  { intros y Hy. destruct (Hhead y Hy) as (Q1 & Q2 & Q3). split; [exact Q1|]. split; [exact Q2|]. split; [exact Q3|].
    split; [|apply (proj2 (Hkfresh y Hy))]. rewrite Ebelow. exact (proj1 (Hkfresh y Hy)). }
  { exact Hokk. }
  exists a', fr', rest'. split.
  { cbn [linearise arun astep]. rewrite H1. rewrite arun_app, R2. exact R. }
  split; [exact A'|]. split; [cbn [lexdecls headdecls vardecls]; rewrite Ebelow in G; exact G|]. split; [exact P1|]. split.
  { intros y Hy. apply in_app_iff in Hy. destruct Hy as [Hy|Hy]; [|apply P2; exact Hy].
    apply Pf. specialize (P2b y Hy). cbn [func_dnames] in P2b. rewrite HfB in P2b. exact P2b. }
  split; [cbn [headdecls]; exact P3|]. split.
  { intros y Hy. cbn [allnames]. destruct (P4 y Hy) as [H|[H|H]]; [left; exact H|right; apply in_app_iff; left; exact H|right; apply in_app_iff; right; exact H]. }
  split; [exact P5|].
  cbn [resolve_m].
  change (resolve_m ((anext a, false, lexdecls b) :: env_of ((fr, pr) :: rest)) (func_of ((fr, pr) :: rest)) (anext a) false (S (anext a)) b)
    with (resolve_m (env_of ((B0, prB) :: (fr, pr) :: rest)) (func_of ((B0, prB) :: (fr, pr) :: rest)) (fid B0) false (S (anext a)) b).
  rewrite <- HeqRB. destruct RB as [rb n1]. cbn [fst snd] in *.
  destruct (resolve_m (env_of ((fr, pr) :: rest)) (func_of ((fr, pr) :: rest)) (fid fr) false n1 k) as [rk n2].
  cbn [fst snd] in *. split; [|exact N]. rewrite F, rev_app_distr, <- app_assoc. reflexivity.
Qed.

(* ---- Class without expression name: a block that declares nothing ------------------------------------------------- *)
Lemma run_ok_class c ms k :
  lexdecls ms = [] -> vardecls ms = [] -> run_ok_gen c (Block ms k) -> run_ok_gen c (Class None ms k).
Proof.
  intros Hl Hv H a fr pr rest A Hnd Hlex Hvar Hndh Hhead Hok.
  destruct (H a fr pr rest A Hnd Hlex) as (a' & fr' & rest' & R & A' & G & P1 & P2 & P3 & P4 & P5 & F & N).
  { cbn [vardecls]. rewrite Hv. exact Hvar. }
  { exact Hndh. } { exact Hhead. }
  { cbn [spec_ok] in *. unfold scope_ok. rewrite Hl. exact Hok. }
  exists a', fr', rest'. split; [exact R|]. split; [exact A'|]. split.
  { cbn [lexdecls headdecls vardecls] in *. rewrite Hv in G. exact G. }
  split; [exact P1|]. split.
  { intros y Hy. apply P2. cbn [vardecls] in *. rewrite Hv. exact Hy. }
  split; [exact P3|]. split; [exact P4|]. split; [exact P5|].
  cbn [resolve_m] in *. rewrite Hl in F, N.
  pose proof (fun e => resolve_drop_nil ms [] (anext a) false e) as D. cbn [app] in D. rewrite D in F, N.
  split; [exact F|exact N].
Qed.

(* ---- Func / Arrow, with default values ------------------------------------------------------------------------------ *)
Lemma grow_rest_trans_nil r1 r2 r3 :
  shape r2 = shape r1 -> grow_rest [] r1 r2 -> grow_rest [] r2 r3 -> grow_rest [] r1 r3.
Proof. intros Hs H1 H2. exact (grow_rest_trans r1 [] [] r2 r3 Hs H1 H2). Qed.

Lemma run_ok_func c ps b k :
  pcore_x ps = true -> headdecls b = [] ->
  (c = false -> forall x, In x (headdecls k) -> ~ In x (allnames ps ++ allnames b)) ->
  run_ok ps -> run_ok b -> run_ok_gen c k -> run_ok_gen c (Func None ps b k).
Proof.
  intros Hps Hb0 Hkfresh IHps IHb IHk a fr pr rest A Hnd Hlex Hvar Hndh Hhead Hok.
  cbn [lexdecls] in Hnd, Hlex. cbn [vardecls] in Hvar. cbn [headdecls] in Hndh, Hhead. cbn [spec_ok] in Hok.
  apply andb_true_iff in Hok. destruct Hok as [Hok Hokk]. apply andb_true_iff in Hok. destruct Hok as [Hok Hokb].
  apply andb_true_iff in Hok. destruct Hok as [Hok Hokps]. apply andb_true_iff in Hok. destruct Hok as [Hndp Hsc].
  apply nodupb_NoDup in Hndp. destruct (scope_ok_spec (headdecls ps) b Hsc) as (Hndb & Hlv & Hlh).
  destruct (pcore_x_lexvar ps Hps) as [Epl Epv].
  (* what the scope promises while the parameter list runs, and from the mark on *)
  set (prP := mkPr [] (headdecls ps) false []).
  set (prF := mkPr (lexdecls b) (headdecls ps ++ vardecls b) true []).
  assert (EpnP : pnames prP = headdecls ps) by (unfold pnames; cbn [pvar plex prP]; apply app_nil_r).
  assert (Epn : pnames prF = headdecls ps ++ vardecls b ++ lexdecls b).
  { unfold pnames. cbn [pvar plex prF]. rewrite <- app_assoc. reflexivity. }
  assert (HdisjF : forall y, In y (plex prF) -> ~ In y (pvar prF)).
  { intros y Hy Hi. cbn [pvar prF] in Hi. apply in_app_iff in Hi. destruct Hi as [Hi|Hi]; [apply (Hlh y Hy Hi)|apply (Hlv y Hy Hi)]. }
  destruct (L_enter a ((fr, pr) :: rest) true prP A) as (a1 & H1 & A1 & El1 & En1).
  { intros y []. }
  set (F0 := mkF (anext a) true [] [] O O) in *.
  (* the parameter list *)
  destruct (IHps a1 F0 prP ((fr, pr) :: rest) A1) as (a2 & F2 & z2 & R2 & A2 & G2 & _ & _ & P3p & P4p & _ & Fp & Np).
  { rewrite Epl. constructor. } { rewrite Epl. intros y []. } { rewrite Epv. intros y []. } { exact Hndp. }
  { intros y Hy. split; [exact Hy|]. split; [intros []|intros _ []]. }
  { exact Hokps. }
  pose proof (grow_shape _ _ _ _ G2) as Hs2. pose proof Hs2 as Hs2full.
  cbn [shape map fst snd] in Hs2. injection Hs2 as HfidF2 HfF2 Hs2.
  cbn [fid fisfunc F0] in HfidF2, HfF2.
  assert (Hs2z : shape z2 = shape ((fr, pr) :: rest)) by exact Hs2.
  destruct G2 as [_ (G2i & G2b & G2r)]. assert (Eb0 : below (vardecls ps) (F0, prP) = []) by reflexivity. rewrite Eb0 in G2r.
  unfold dn in G2i, G2b. cbn [fst dnames fdecl F0 map] in G2i, G2b. rewrite Epl, Epv in G2b. cbn [app] in G2b.
  (* MarkFuncArgs: the uses made by the default values are of names other than the parameters *)
  destruct (A_frames _ _ A2) as [KF2 _].
  assert (Hargs : forall y, In (UPend y) (fund F2) -> ~ In y (pnames prP)).
  { intros y Hy Hin. rewrite EpnP in Hin. apply (K_pend _ _ _ KF2 y Hy). apply P3p. exact Hin. }
  destruct (L_mark_gen a2 F2 prP prF z2 fnfor A2 eq_refl eq_refl (K_for _ _ _ KF2) Hargs)
    as (a2m & F2m & Hm & A2m & M1 & M2 & M3 & M4 & _ & M5 & M6).
  { intros y k0 Hy. destruct (K_decl _ _ _ KF2 y k0 Hy) as [Q1 Q2]. split.
    - rewrite EpnP in Q1. rewrite Epn. apply in_app_iff. left. exact Q1.
    - intros Hk. destruct (Q2 Hk). }
  { exact HdisjF. }
  { intros y fs Hy. destruct (K_pass _ _ _ KF2 y fs Hy) as [Hf _]. rewrite HfF2 in Hf. discriminate. }
  assert (EdnM : dnames F2m = dnames F2) by (unfold dnames; rewrite M3; reflexivity).
  (* the body *)
  destruct (IHb a2m F2m prF z2 A2m Hndb) as (a3 & F' & z3 & R3 & A3 & G3 & P1b & P2b & _ & P4b & P5b & F3 & N3).
  { intros y Hy. split; [exact Hy|]. rewrite EdnM. intros Hi. destruct (G2b y Hi) as [[]|[Hi'|[]]].
    apply (Hlh y Hy). exact Hi'. }
  { intros y Hy. cbn [var_ok]. rewrite M2, HfF2. cbn [pvar prF]. apply in_app_iff. right. exact Hy. }
  { rewrite Hb0. constructor. } { rewrite Hb0. intros y []. }
  { exact Hokb. }
  pose proof (grow_shape _ _ _ _ G3) as Hs3. cbn [shape map fst snd] in Hs3. injection Hs3 as HfidF' HfF' Hs3.
  assert (Hs3z : shape z3 = shape ((fr, pr) :: rest)) by exact (eq_trans Hs3 Hs2).
  destruct (shape_cons_inv z3 fr pr rest Hs3z) as (P' & rest1 & -> & _ & _ & _).
  destruct G3 as [_ (G3i & G3b & G3r)].
  assert (Eb3 : below (vardecls b) (F2m, prF) = []) by (unfold below; cbn [fst]; rewrite M2, HfF2; reflexivity). rewrite Eb3 in G3r.
  pose proof (grow_rest_trans_nil ((fr, pr) :: rest) z2 ((P', pr) :: rest1) Hs2z G2r G3r) as Grest. cbn [grow_rest] in Grest. destruct Grest as [Gp Gr].
  assert (Eb' : forall g, below [] g = []) by (intros g; unfold below; destruct (fisfunc (fst g)); reflexivity).
  assert (HfidF'a : fid F' = anext a) by congruence.
  assert (HfF'true : fisfunc F' = true) by congruence.
  (* the environments as the resolver writes them *)
  assert (Eenv0 : env_of ((F0, prP) :: (fr, pr) :: rest) = (anext a, false, headdecls ps) :: env_of ((fr, pr) :: rest)).
  { cbn [env_of map fst snd]. rewrite EpnP. reflexivity. }
  assert (EenvP2 : env_of ((F2, prP) :: z2) = (anext a, false, headdecls ps) :: env_of ((fr, pr) :: rest)).
  { rewrite (env_of_shape _ _ Hs2full). exact Eenv0. }
  assert (Eenv2 : env_of ((F2m, prF) :: z2) = (anext a, false, headdecls ps ++ vardecls b ++ lexdecls b) :: env_of ((fr, pr) :: rest)).
  { cbn [env_of map fst snd]. rewrite M1, HfidF2, Epn. f_equal. apply (env_of_shape _ _ Hs2z). }
  assert (Efun2 : func_of ((F2m, prF) :: z2) = anext a) by (cbn [func_of]; rewrite M2, HfF2, M1; exact HfidF2).
  assert (Efun0 : func_of ((F0, prP) :: (fr, pr) :: rest) = anext a) by reflexivity.
  rewrite Eenv0, Efun0, El1, En1 in Fp. rewrite Eenv0, Efun0, En1 in Np. cbn [fid F0] in Fp, Np.
  rewrite (final_push2 a ((fr, pr) :: rest) (anext a) (headdecls ps) (headdecls ps ++ vardecls b ++ lexdecls b) A (le_n _)) in Fp.
  remember (resolve_m ((anext a, false, headdecls ps) :: env_of ((fr, pr) :: rest)) (anext a) (anext a) false (S (anext a)) ps) as RP eqn:HeqRP.
  rewrite M5, EenvP2, Fp in F3.
  rewrite Eenv2, Efun2, M1, HfidF2, M6, Np in F3, N3.
  remember (resolve_m ((anext a, false, headdecls ps ++ vardecls b ++ lexdecls b) :: env_of ((fr, pr) :: rest))
                    (anext a) (anext a) false (snd RP) b) as RB eqn:HeqRB.
  assert (Hle : (anext a <= snd RB)%nat).
  { rewrite <- N3. destruct A3 as [_ _ An _]. pose proof (An (F', prF) (or_introl eq_refl)) as H. cbn [fst] in H. lia. }
  destruct (after_scope k [] c IHk a fr pr rest a3 F' prF P' rest1 (headdecls ps ++ vardecls b ++ lexdecls b)
              (fst RP ++ fst RB) (snd RB) (allnames ps ++ allnames b) A A3 HfidF'a Epn Hs3z)
    as (a' & fr' & rest' & R & A' & G & P1 & P2 & Pf & P3 & P4 & P5 & F & N).
  { rewrite Eb'. exact Gp. }
  { rewrite !Eb'. rewrite Eb' in Gr. exact Gr. }
  { intros y Hy. rewrite Epn in Hy. apply in_app_iff in Hy. destruct Hy as [Hy|Hy].
    - apply G3i. unfold dn. cbn [fst]. rewrite EdnM. apply P3p. exact Hy.
    - apply in_app_iff in Hy. destruct Hy as [Hy|Hy]; [|apply P1b; exact Hy].
      specialize (P2b y Hy). cbn [func_dnames] in P2b. rewrite HfF'true in P2b. exact P2b. }
  { intros y [Hy|Hy]; apply in_app_iff.
    - destruct (P4b y Hy) as [H|H]; [|right; exact H]. rewrite M4 in H. destruct (to_args_no_pend _ _ H).
    - left. specialize (P5b y Hy). rewrite M4 in P5b. destruct (to_args_uarg _ _ P5b) as [H|H].
      + destruct (P4p y H) as [[]|H']. exact H'.
      + destruct (no_uarg_unmarked _ _ _ y KF2 eq_refl H). }
  { rewrite F3, rev_app_distr, <- app_assoc. reflexivity. }
  { exact N3. }
  { exact Hle. }
  { exact Hnd. } { exact Hlex. }
  { rewrite Eb'. intros y []. }
  { exact Hvar. }
  { exact Hndh. }
  { intros y Hy. destruct (Hhead y Hy) as (Q1 & Q2 & Q3). split; [exact Q1|]. split; [exact Q2|]. split; [exact Q3|].
    split; [rewrite Eb'; intros []|intros Hc; apply (Hkfresh Hc); exact Hy]. }
  { exact Hokk. }
  exists a', fr', rest'. split.
  { cbn [linearise app arun astep]. rewrite H1. rewrite arun_app, R2.
    cbn [arun astep]. unfold a_mark_args. rewrite Hm. rewrite arun_app, R3. exact R. }
  split; [exact A'|]. split; [cbn [lexdecls headdecls vardecls]; rewrite Eb' in G; exact G|]. split; [exact P1|]. split; [exact P2|].
  split; [cbn [headdecls]; exact P3|]. split.
  { intros y Hy. cbn [allnames app]. destruct (P4 y Hy) as [H|[H|H]]; [left; exact H|right|right].
    - apply in_app_iff in H. destruct H as [H|H]; [apply in_app_iff; left; exact H|apply in_app_iff; right; apply in_app_iff; left; exact H].
    - apply in_app_iff. right. apply in_app_iff. right. exact H. }
  split; [exact P5|].
  cbn [resolve_m]. rewrite <- HeqRP. destruct RP as [rp n1]. cbn [fst snd] in *. rewrite <- HeqRB. destruct RB as [rb n2]. cbn [fst snd] in *.
  destruct (resolve_m (env_of ((fr, pr) :: rest)) (func_of ((fr, pr) :: rest)) (fid fr) false n2 k) as [rk n3].
  cbn [fst snd app] in *. split; [|exact N]. rewrite F. rewrite !rev_app_distr, <- !app_assoc. reflexivity.
Qed.

(* a function expression with a name: the name is declared first (ExprDecl), in the function's own Scope *)
Lemma run_ok_func_some c g ps b k :
  pcore_x ps = true -> headdecls b = [] ->
  ~ In g (headdecls ps ++ vardecls b ++ lexdecls b) ->
  (c = false -> forall x, In x (headdecls k) -> ~ In x (g :: allnames ps ++ allnames b)) ->
  run_ok ps -> run_ok b -> run_ok_gen c k -> run_ok_gen c (Func (Some g) ps b k).
Proof.
  intros Hps Hb0 Hg Hkfresh IHps IHb IHk a fr pr rest A Hnd Hlex Hvar Hndh Hhead Hok.
  cbn [lexdecls] in Hnd, Hlex. cbn [vardecls] in Hvar. cbn [headdecls] in Hndh, Hhead. cbn [spec_ok] in Hok.
  apply andb_true_iff in Hok. destruct Hok as [Hok Hokk]. apply andb_true_iff in Hok. destruct Hok as [Hok Hokb].
  apply andb_true_iff in Hok. destruct Hok as [Hok Hokps]. apply andb_true_iff in Hok. destruct Hok as [Hndp Hsc].
  apply nodupb_NoDup in Hndp. destruct (scope_ok_spec (headdecls ps) b Hsc) as (Hndb & Hlv & Hlh).
  destruct (pcore_x_lexvar ps Hps) as [Epl Epv].
  assert (Hgp : ~ In g (headdecls ps)) by (intros H; apply Hg; apply in_app_iff; left; exact H).
  assert (Hgb : ~ In g (vardecls b ++ lexdecls b)) by (intros H; apply Hg; apply in_app_iff; right; exact H).
  set (prP := mkPr [g] (headdecls ps) false []).
  set (prF := mkPr (lexdecls b ++ [g]) (headdecls ps ++ vardecls b) true []).
  assert (EpnP : pnames prP = headdecls ps ++ [g]) by reflexivity.
  assert (Epn : pnames prF = headdecls ps ++ vardecls b ++ lexdecls b ++ [g]).
  { unfold pnames. cbn [pvar plex prF]. rewrite <- app_assoc. reflexivity. }
  assert (HdisjF : forall y, In y (plex prF) -> ~ In y (pvar prF)).
  { intros y Hy Hi. cbn [pvar prF plex] in Hi, Hy. apply in_app_iff in Hy. destruct Hy as [Hy|[<-|[]]].
    - apply in_app_iff in Hi. destruct Hi as [Hi|Hi]; [apply (Hlh y Hy Hi)|apply (Hlv y Hy Hi)].
    - apply Hg. apply in_app_iff in Hi. apply in_app_iff. destruct Hi as [Hi|Hi]; [left; exact Hi|right; apply in_app_iff; left; exact Hi]. }
  destruct (L_enter a ((fr, pr) :: rest) true prP A) as (a0 & H0 & A0 & El0 & En0).
  { intros y [<-|[]]. exact Hgp. }
  set (F00 := mkF (anext a) true [] [] O O) in *.
  (* the name *)
  destruct (L_decl_top a0 F00 prP ((fr, pr) :: rest) ExprDecl g A0 (or_intror (or_intror (or_intror eq_refl))))
    as (a1 & F0 & H1 & A1 & D1 & D2 & D3 & D4 & D5 & D6).
  { intros []. }
  { rewrite EpnP. apply in_app_iff. right. left. reflexivity. }
  { intros _. left. reflexivity. }
  { discriminate. }
  cbn [fid fisfunc dnames fdecl fund F00 map app] in D1, D2, D3, D4.
  assert (En1 : anext a1 = S (anext a)) by congruence.
  (* the parameter list *)
  destruct (IHps a1 F0 prP ((fr, pr) :: rest) A1) as (a2 & F2 & z2 & R2 & A2 & G2 & _ & _ & P3p & P4p & _ & Fp & Np).
  { rewrite Epl. constructor. } { rewrite Epl. intros y []. } { rewrite Epv. intros y []. } { exact Hndp. }
  { intros y Hy. split; [exact Hy|]. split.
    - rewrite D3. intros [<-|[]]. apply Hgp. exact Hy.
    - intros _ Hi. destruct (D4 _ Hi). }
  { exact Hokps. }
  pose proof (grow_shape _ _ _ _ G2) as Hs2. pose proof Hs2 as Hs2full.
  cbn [shape map fst snd] in Hs2. injection Hs2 as HfidF2 HfF2 Hs2.
  rewrite D1 in HfidF2. rewrite D2 in HfF2.
  assert (Hs2z : shape z2 = shape ((fr, pr) :: rest)) by exact Hs2.
  destruct G2 as [_ (G2i & G2b & G2r)].
  assert (Eb0 : below (vardecls ps) (F0, prP) = []) by (unfold below; cbn [fst]; rewrite D2; reflexivity). rewrite Eb0 in G2r.
  unfold dn in G2i, G2b. cbn [fst] in G2i, G2b. rewrite D3 in G2i, G2b. rewrite Epl, Epv in G2b. cbn [app] in G2b.
  assert (HgF2 : In g (dnames F2)) by (apply G2i; left; reflexivity).
  (* MarkFuncArgs: the uses made by the default values are of names other than the parameters and the name *)
  destruct (A_frames _ _ A2) as [KF2 _].
  assert (Hargs : forall y, In (UPend y) (fund F2) -> ~ In y (pnames prP)).
  { intros y Hy Hin. rewrite EpnP in Hin. apply in_app_iff in Hin. destruct Hin as [Hin|[<-|[]]].
    - apply (K_pend _ _ _ KF2 y Hy). apply P3p. exact Hin.
    - apply (K_pend _ _ _ KF2 g Hy). exact HgF2. }
  destruct (L_mark_gen a2 F2 prP prF z2 fnfor A2 eq_refl eq_refl (K_for _ _ _ KF2) Hargs)
    as (a2m & F2m & Hm & A2m & M1 & M2 & M3 & M4 & _ & M5 & M6).
  { intros y k0 Hy. destruct (K_decl _ _ _ KF2 y k0 Hy) as [Q1 Q2]. split.
    - rewrite EpnP in Q1. rewrite Epn. apply in_app_iff in Q1. apply in_app_iff. destruct Q1 as [Q1|Q1]; [left; exact Q1|right].
      apply in_app_iff. right. apply in_app_iff. right. exact Q1.
    - intros Hk. specialize (Q2 Hk). cbn [plex prP prF] in *. apply in_app_iff. right. exact Q2. }
  { exact HdisjF. }
  { intros y fs Hy. destruct (K_pass _ _ _ KF2 y fs Hy) as [Hf _]. rewrite HfF2 in Hf. discriminate. }
  assert (EdnM : dnames F2m = dnames F2) by (unfold dnames; rewrite M3; reflexivity).
  (* the body *)
  destruct (IHb a2m F2m prF z2 A2m Hndb) as (a3 & F' & z3 & R3 & A3 & G3 & P1b & P2b & _ & P4b & P5b & F3 & N3).
  { intros y Hy. split; [cbn [plex prF]; apply in_app_iff; left; exact Hy|]. rewrite EdnM. intros Hi. destruct (G2b y Hi) as [[<-|[]]|[Hi'|[]]].
    - apply Hgb. apply in_app_iff. right. exact Hy.
    - apply (Hlh y Hy). exact Hi'. }
  { intros y Hy. cbn [var_ok]. rewrite M2, HfF2. cbn [pvar prF]. apply in_app_iff. right. exact Hy. }
  { rewrite Hb0. constructor. } { rewrite Hb0. intros y []. }
  { exact Hokb. }
  pose proof (grow_shape _ _ _ _ G3) as Hs3. cbn [shape map fst snd] in Hs3. injection Hs3 as HfidF' HfF' Hs3.
  assert (Hs3z : shape z3 = shape ((fr, pr) :: rest)) by exact (eq_trans Hs3 Hs2).
  destruct (shape_cons_inv z3 fr pr rest Hs3z) as (P' & rest1 & -> & _ & _ & _).
  destruct G3 as [_ (G3i & G3b & G3r)].
  assert (Eb3 : below (vardecls b) (F2m, prF) = []) by (unfold below; cbn [fst]; rewrite M2, HfF2; reflexivity). rewrite Eb3 in G3r.
  pose proof (grow_rest_trans_nil ((fr, pr) :: rest) z2 ((P', pr) :: rest1) Hs2z G2r G3r) as Grest. cbn [grow_rest] in Grest. destruct Grest as [Gp Gr].
  assert (Eb' : forall g0, below [] g0 = []) by (intros g0; unfold below; destruct (fisfunc (fst g0)); reflexivity).
  assert (HfidF'a : fid F' = anext a) by congruence.
  assert (HfF'true : fisfunc F' = true) by congruence.
  (* the environments as the resolver writes them *)
  assert (Eenv00 : env_of ((F00, prP) :: (fr, pr) :: rest) = (anext a, false, headdecls ps ++ [g]) :: env_of ((fr, pr) :: rest)) by reflexivity.
  assert (Eenv0 : env_of ((F0, prP) :: (fr, pr) :: rest) = (anext a, false, headdecls ps ++ [g]) :: env_of ((fr, pr) :: rest)).
  { cbn [env_of map fst snd]. rewrite D1. reflexivity. }
  assert (EenvP2 : env_of ((F2, prP) :: z2) = (anext a, false, headdecls ps ++ [g]) :: env_of ((fr, pr) :: rest)).
  { rewrite (env_of_shape _ _ Hs2full). exact Eenv0. }
  assert (Eenv2 : env_of ((F2m, prF) :: z2) = (anext a, false, headdecls ps ++ vardecls b ++ lexdecls b ++ [g]) :: env_of ((fr, pr) :: rest)).
  { cbn [env_of map fst snd]. rewrite M1, HfidF2, Epn. f_equal. apply (env_of_shape _ _ Hs2z). }
  assert (Efun2 : func_of ((F2m, prF) :: z2) = anext a) by (cbn [func_of]; rewrite M2, HfF2, M1; exact HfidF2).
  assert (Efun0 : func_of ((F0, prP) :: (fr, pr) :: rest) = anext a) by (cbn [func_of]; rewrite D2; exact D1).
  rewrite Eenv00, El0 in D6. cbn [fid F00] in D6.
  rewrite Eenv0, Efun0, D6, En1 in Fp. rewrite Eenv0, Efun0, En1 in Np. rewrite D1 in Fp, Np.
  rewrite (final_push2 a ((fr, pr) :: rest) (anext a) (headdecls ps ++ [g]) (headdecls ps ++ vardecls b ++ lexdecls b ++ [g]) A (le_n _)) in Fp.
  remember (resolve_m ((anext a, false, headdecls ps ++ [g]) :: env_of ((fr, pr) :: rest)) (anext a) (anext a) false (S (anext a)) ps) as RP eqn:HeqRP.
  rewrite M5, EenvP2, Fp in F3.
  rewrite Eenv2, Efun2, M1, HfidF2, M6, Np in F3, N3.
  remember (resolve_m ((anext a, false, headdecls ps ++ vardecls b ++ lexdecls b ++ [g]) :: env_of ((fr, pr) :: rest))
                    (anext a) (anext a) false (snd RP) b) as RB eqn:HeqRB.
  assert (Hle : (anext a <= snd RB)%nat).
  { rewrite <- N3. destruct A3 as [_ _ An _]. pose proof (An (F', prF) (or_introl eq_refl)) as H. cbn [fst] in H. lia. }
  destruct (after_scope k [] c IHk a fr pr rest a3 F' prF P' rest1 (headdecls ps ++ vardecls b ++ lexdecls b ++ [g])
              (TBind (anext a) false g :: fst RP ++ fst RB) (snd RB) (g :: allnames ps ++ allnames b) A A3 HfidF'a Epn Hs3z)
    as (a' & fr' & rest' & R & A' & G & P1 & P2 & Pf & P3 & P4 & P5 & F & N).
  { rewrite Eb'. exact Gp. }
  { rewrite !Eb'. rewrite Eb' in Gr. exact Gr. }
  { intros y Hy. rewrite Epn in Hy. apply in_app_iff in Hy. destruct Hy as [Hy|Hy].
    - apply G3i. unfold dn. cbn [fst]. rewrite EdnM. apply P3p. exact Hy.
    - apply in_app_iff in Hy. destruct Hy as [Hy|Hy].
      + specialize (P2b y Hy). cbn [func_dnames] in P2b. rewrite HfF'true in P2b. exact P2b.
      + apply in_app_iff in Hy. destruct Hy as [Hy|[<-|[]]]; [apply P1b; exact Hy|].
        apply G3i. unfold dn. cbn [fst]. rewrite EdnM. exact HgF2. }
  { intros y [Hy|Hy]; right; apply in_app_iff.
    - destruct (P4b y Hy) as [H|H]; [|right; exact H]. rewrite M4 in H. destruct (to_args_no_pend _ _ H).
    - left. specialize (P5b y Hy). rewrite M4 in P5b. destruct (to_args_uarg _ _ P5b) as [H|H].
      + destruct (P4p y H) as [H'|H']; [destruct (D4 _ H')|exact H'].
      + destruct (no_uarg_unmarked _ _ _ y KF2 eq_refl H). }
  { rewrite F3. cbn [rev]. rewrite rev_app_distr, <- !app_assoc. reflexivity. }
  { exact N3. }
  { exact Hle. }
  { exact Hnd. } { exact Hlex. }
  { rewrite Eb'. intros y []. }
  { exact Hvar. }
  { exact Hndh. }
  { intros y Hy. destruct (Hhead y Hy) as (Q1 & Q2 & Q3). split; [exact Q1|]. split; [exact Q2|]. split; [exact Q3|].
    split; [rewrite Eb'; intros []|intros Hc; apply (Hkfresh Hc); exact Hy]. }
  { exact Hokk. }
  exists a', fr', rest'. split.
  { cbn [linearise app arun astep]. rewrite H0. cbn [Z.eqb ExprDecl NoDecl]. rewrite H1. rewrite arun_app, R2.
    cbn [arun astep]. unfold a_mark_args. rewrite Hm. rewrite arun_app, R3. exact R. }
  split; [exact A'|]. split; [cbn [lexdecls headdecls vardecls]; rewrite Eb' in G; exact G|]. split; [exact P1|]. split; [exact P2|].
  split; [cbn [headdecls]; exact P3|]. split.
  { intros y Hy. cbn [allnames app]. destruct (P4 y Hy) as [H|[H|H]]; [left; exact H|right|right].
    - destruct H as [<-|H]; [left; reflexivity|right].
      apply in_app_iff in H. destruct H as [H|H]; [apply in_app_iff; left; exact H|apply in_app_iff; right; apply in_app_iff; left; exact H].
    - right. apply in_app_iff. right. apply in_app_iff. right. exact H. }
  split; [exact P5|].
  cbn [resolve_m]. rewrite <- HeqRP. destruct RP as [rp n1]. cbn [fst snd] in *. rewrite <- HeqRB. destruct RB as [rb n2]. cbn [fst snd] in *.
  destruct (resolve_m (env_of ((fr, pr) :: rest)) (func_of ((fr, pr) :: rest)) (fid fr) false n2 k) as [rk n3].
  cbn [fst snd app] in *. split; [|exact N]. rewrite F. cbn [rev]. rewrite !rev_app_distr, <- !app_assoc. reflexivity.
Qed.

Lemma run_ok_arrow c ps b k : run_ok_gen c (Func None ps b k) -> run_ok_gen c (Arrow ps b k).
Proof. intros H a fr pr rest. exact (H a fr pr rest). Qed.

(* ---- Catch: the parameter (a pattern with default values) and the block in ONE Scope, a mark between them ------- *)
Lemma run_ok_catch hd b k :
  lexdecls hd = [] -> vardecls hd = [] -> disjointb (headdecls hd) (vardecls b) = true ->
  headdecls b = [] -> headdecls k = [] ->
  run_ok_gen true hd -> run_ok b -> run_ok k -> run_ok (Catch hd b k).
Proof.
  intros Ehl Ehv Hdisj Hb0 Hk0 IHh IHb IHk a fr pr rest A Hnd Hlex Hvar _ _ Hok.
  cbn [lexdecls] in Hnd, Hlex. cbn [vardecls] in Hvar. rewrite Ehv in Hvar. cbn [app] in Hvar. cbn [spec_ok] in Hok.
  apply andb_true_iff in Hok. destruct Hok as [Hok Hokk]. apply andb_true_iff in Hok. destruct Hok as [Hok Hokb].
  apply andb_true_iff in Hok. destruct Hok as [Hok Hokh]. apply andb_true_iff in Hok. destruct Hok as [Hndp Hsc].
  apply nodupb_NoDup in Hndp. destruct (scope_ok_spec (headdecls hd) b Hsc) as (Hndb & Hlv & Hlh).
  pose proof (disjointb_spec _ _ Hdisj) as Hhv.
  set (prH := mkPr (headdecls hd) [] false (lexdecls b)).
  set (prC := mkPr (headdecls hd ++ lexdecls b) [] true []).
  assert (EpnH : pnames prH = headdecls hd) by reflexivity.
  assert (EpaH : pall prH = headdecls hd ++ lexdecls b) by reflexivity.
  assert (Epn : pnames prC = headdecls hd ++ lexdecls b) by reflexivity.
  assert (Epa : pall prC = headdecls hd ++ lexdecls b) by (unfold pall; cbn [pfut prC]; rewrite app_nil_r; reflexivity).
  destruct (L_enter a ((fr, pr) :: rest) false prH A) as (a1 & H1 & A1 & El1 & En1).
  { intros y _ []. }
  set (C0 := mkF (anext a) false [] [] O O) in *.
  (* the parameter pattern *)
  destruct (IHh a1 C0 prH ((fr, pr) :: rest) A1) as (a2 & C2 & z2 & R2 & A2 & G2 & _ & _ & P3h & P4h & _ & Fh & Nh).
  { rewrite Ehl. constructor. } { rewrite Ehl. intros y []. } { rewrite Ehv. intros y []. } { exact Hndp. }
  { intros y Hy. split; [exact Hy|]. split; [intros []|discriminate]. }
  { exact Hokh. }
  pose proof (grow_shape _ _ _ _ G2) as Hs2. pose proof Hs2 as Hs2full.
  cbn [shape map fst snd] in Hs2. injection Hs2 as HfidC2 HfC2 Hs2.
  cbn [fid fisfunc C0] in HfidC2, HfC2.
  assert (Hs2z : shape z2 = shape ((fr, pr) :: rest)) by exact Hs2.
  destruct G2 as [_ (G2i & G2b & G2r)].
  assert (Eb0 : below (vardecls hd) (C0, prH) = vardecls hd) by reflexivity. rewrite Eb0, Ehv in G2r.
  unfold dn in G2i, G2b. cbn [fst dnames fdecl C0 map] in G2i, G2b. rewrite Ehl, Ehv in G2b. cbn [app] in G2b.
  (* the mark after the parameter: the uses made by its default values are of names other than the parameters *)
  destruct (A_frames _ _ A2) as [KC2 _].
  assert (Hargs : forall y, In (UPend y) (fund C2) -> ~ In y (pnames prH)).
  { intros y Hy Hin. rewrite EpnH in Hin. apply (K_pend _ _ _ KC2 y Hy). apply P3h. exact Hin. }
  destruct (L_mark_gen a2 C2 prH prC z2 fnfor A2 eq_refl eq_refl (K_for _ _ _ KC2) Hargs)
    as (a2m & C2m & Hm & A2m & M1 & M2 & M3 & M4 & _ & M5 & M6).
  { intros y k0 Hy. destruct (K_decl _ _ _ KC2 y k0 Hy) as [Q1 Q2]. split.
    - rewrite EpnH in Q1. rewrite Epn. apply in_app_iff. left. exact Q1.
    - intros Hk. specialize (Q2 Hk). cbn [plex prH prC] in *. apply in_app_iff. left. exact Q2. }
  { intros y _ []. }
  { intros y fs Hy. destruct (K_pass _ _ _ KC2 y fs Hy) as [_ Hp]. cbn [pass_ok] in Hp. rewrite HfC2 in Hp. rewrite Epa, <- EpaH. exact (proj1 Hp). }
  assert (EdnM : dnames C2m = dnames C2) by (unfold dnames; rewrite M3; reflexivity).
  (* the block *)
  destruct (IHb a2m C2m prC z2 A2m Hndb) as (a3 & C' & z3 & R3 & A3 & G3 & P1b & P2b & _ & P4b & P5b & F3 & N3).
  { intros y Hy. split; [cbn [plex prC]; apply in_app_iff; right; exact Hy|]. rewrite EdnM. intros Hi.
    destruct (G2b y Hi) as [[]|[Hi'|[]]]. apply (Hlh y Hy Hi'). }
  { intros y Hy. cbn [var_ok]. rewrite M2, HfC2. split.
    - rewrite Epa. intros Hi. apply in_app_iff in Hi. destruct Hi as [Hi|Hi]; [apply (Hhv y Hi Hy)|apply (Hlv y Hi Hy)].
    - apply (var_ok_shape y ((fr, pr) :: rest)); [symmetry; exact Hs2z|]. apply Hvar. apply in_app_iff. left. exact Hy. }
  { rewrite Hb0. constructor. } { rewrite Hb0. intros y []. }
  { exact Hokb. }
  pose proof (grow_shape _ _ _ _ G3) as Hs3. cbn [shape map fst snd] in Hs3. injection Hs3 as HfidC' HfC' Hs3.
  assert (Hs3z : shape z3 = shape ((fr, pr) :: rest)) by exact (eq_trans Hs3 Hs2).
  destruct (shape_cons_inv z3 fr pr rest Hs3z) as (P' & rest1 & -> & _ & _ & _).
  pose proof (func_dnames_mono _ _ _ _ G3) as Hfm. cbn [func_dnames] in Hfm. rewrite M2, HfC2 in Hfm.
  destruct G3 as [_ (G3i & G3b & G3r)].
  assert (Eb3 : below (vardecls b) (C2m, prC) = vardecls b) by (unfold below; cbn [fst]; rewrite M2, HfC2; reflexivity). rewrite Eb3 in G3r.
  pose proof (grow_rest_trans ((fr, pr) :: rest) [] (vardecls b) z2 ((P', pr) :: rest1) Hs2z G2r G3r) as Grest.
  cbn [app grow_rest] in Grest. destruct Grest as [Gp Gr].
  assert (HfidC'a : fid C' = anext a) by congruence.
  assert (HfC'false : fisfunc C' = false) by congruence.
  rewrite HfC'false in Hfm.
  assert (Eb' : below (vardecls b) (C', prC) = vardecls b) by (unfold below; cbn [fst]; rewrite HfC'false; reflexivity).
  (* the environments as the resolver writes them *)
  assert (Eenv0 : env_of ((C0, prH) :: (fr, pr) :: rest) = (anext a, false, headdecls hd) :: env_of ((fr, pr) :: rest)) by reflexivity.
  assert (EenvH2 : env_of ((C2, prH) :: z2) = (anext a, false, headdecls hd) :: env_of ((fr, pr) :: rest)).
  { rewrite (env_of_shape _ _ Hs2full). exact Eenv0. }
  assert (Eenv2 : env_of ((C2m, prC) :: z2) = (anext a, false, headdecls hd ++ lexdecls b) :: env_of ((fr, pr) :: rest)).
  { cbn [env_of map fst snd]. rewrite M1, HfidC2, Epn. f_equal. apply (env_of_shape _ _ Hs2z). }
  assert (Efun2 : func_of ((C2m, prC) :: z2) = func_of ((fr, pr) :: rest)).
  { cbn [func_of]. rewrite M2, HfC2. apply (func_of_shape _ _ Hs2z). }
  assert (Efun0 : func_of ((C0, prH) :: (fr, pr) :: rest) = func_of ((fr, pr) :: rest)) by reflexivity.
  rewrite Eenv0, Efun0, El1, En1 in Fh. rewrite Eenv0, Efun0, En1 in Nh. cbn [fid C0] in Fh, Nh.
  rewrite (final_push2 a ((fr, pr) :: rest) (anext a) (headdecls hd) (headdecls hd ++ lexdecls b) A (le_n _)) in Fh.
  remember (resolve_m ((anext a, false, headdecls hd) :: env_of ((fr, pr) :: rest)) (func_of ((fr, pr) :: rest)) (anext a) false (S (anext a)) hd) as RH eqn:HeqRH.
  rewrite M5, EenvH2, Fh in F3.
  rewrite Eenv2, Efun2, M1, HfidC2, M6, Nh in F3, N3.
  remember (resolve_m ((anext a, false, headdecls hd ++ lexdecls b) :: env_of ((fr, pr) :: rest))
                    (func_of ((fr, pr) :: rest)) (anext a) false (snd RH) b) as RB eqn:HeqRB.
  assert (Hle : (anext a <= snd RB)%nat).
  { rewrite <- N3. destruct A3 as [_ _ An _]. pose proof (An (C', prC) (or_introl eq_refl)) as H. cbn [fst] in H. lia. }
  destruct (after_scope k (vardecls b) false IHk a fr pr rest a3 C' prC P' rest1 (headdecls hd ++ lexdecls b)
              (fst RH ++ fst RB) (snd RB) (allnames hd ++ allnames b) A A3 HfidC'a Epn Hs3z)
    as (a' & fr' & rest' & R & A' & G & P1 & P2 & Pf & P3 & P4 & P5 & F & N).
  { rewrite Eb'. exact Gp. }
  { rewrite Eb'. exact Gr. }
  { intros y Hy. rewrite Epn in Hy. apply in_app_iff in Hy. destruct Hy as [Hy|Hy].
    - apply G3i. unfold dn. cbn [fst]. rewrite EdnM. apply P3h. exact Hy.
    - apply P1b. exact Hy. }
  { intros y [Hy|Hy]; apply in_app_iff.
    - destruct (P4b y Hy) as [H|H]; [|right; exact H]. rewrite M4 in H. destruct (to_args_no_pend _ _ H).
    - left. specialize (P5b y Hy). rewrite M4 in P5b. destruct (to_args_uarg _ _ P5b) as [H|H].
      + destruct (P4h y H) as [[]|H']. exact H'.
      + destruct (no_uarg_unmarked _ _ _ y KC2 eq_refl H). }
  { rewrite F3, rev_app_distr, <- app_assoc. reflexivity. }
  { exact N3. }
  { exact Hle. }
  { exact Hnd. } { exact Hlex. }
  { rewrite Eb'. intros y Hy. apply Hvar. apply in_app_iff. left. exact Hy. }
  { intros y Hy. apply Hvar. apply in_app_iff. right. exact Hy. }
  { rewrite Hk0. constructor. } { rewrite Hk0. intros y []. }
  { exact Hokk. }
  exists a', fr', rest'. split.
  { cbn [linearise app arun astep]. rewrite H1. rewrite arun_app, R2.
    cbn [arun astep]. unfold a_mark_catch. rewrite Hm. rewrite arun_app, R3. exact R. }
  split; [exact A'|]. split.
  { cbn [lexdecls headdecls vardecls]. rewrite Ehv. cbn [app]. rewrite Eb' in G. exact G. }
  split; [exact P1|]. split.
  { cbn [vardecls]. rewrite Ehv. cbn [app]. intros y Hy. apply in_app_iff in Hy. destruct Hy as [Hy|Hy]; [|apply P2; exact Hy].
    apply Pf. specialize (P2b y Hy). cbn [func_dnames] in P2b. rewrite HfC'false in P2b. exact P2b. }
  split; [cbn [headdecls]; exact P3|]. split.
  { intros y Hy. cbn [allnames]. destruct (P4 y Hy) as [H|[H|H]]; [left; exact H|right|right].
    - apply in_app_iff in H. destruct H as [H|H]; [apply in_app_iff; left; exact H|apply in_app_iff; right; apply in_app_iff; left; exact H].
    - apply in_app_iff. right. apply in_app_iff. right. exact H. }
  split; [exact P5|].
  cbn [resolve_m]. rewrite <- HeqRH. destruct RH as [rh n1]. cbn [fst snd] in *. rewrite <- HeqRB. destruct RB as [rb n2]. cbn [fst snd] in *.
  destruct (resolve_m (env_of ((fr, pr) :: rest)) (func_of ((fr, pr) :: rest)) (fid fr) false n2 k) as [rk n3].
  cbn [fst snd app] in *. split; [|exact N]. rewrite F. rewrite !rev_app_distr, <- !app_assoc. reflexivity.
Qed.

(* ---- For: loop head and loop body in ONE Scope, MarkForStmt between them -------------------------------------------- *)
Lemma run_ok_for hd b k :
  headdecls hd = [] -> headdecls b = [] ->
  (forall x, In x (lexdecls hd) -> ~ In x (lexdecls b)) ->
  (forall x, In x (vardecls hd) -> ~ In x (lexdecls hd ++ lexdecls b)) ->
  (forall x, In x (headdecls k) -> ~ In x (allnames hd ++ allnames b)) ->
  run_ok hd -> run_ok b -> run_ok k -> run_ok (For hd b k).
Proof.
  intros Hh0 Hb0 Hhb Hvh Hkfresh IHh IHb IHk a fr pr rest A Hnd Hlex Hvar Hndh Hhead Hok.
  cbn [lexdecls] in Hnd, Hlex. cbn [vardecls] in Hvar. cbn [headdecls] in Hndh, Hhead. cbn [spec_ok] in Hok.
  apply andb_true_iff in Hok. destruct Hok as [Hok Hokk]. apply andb_true_iff in Hok. destruct Hok as [Hok Hokb].
  apply andb_true_iff in Hok. destruct Hok as [Hok Hokh]. apply andb_true_iff in Hok. destruct Hok as [Hok Hsc].
  apply andb_true_iff in Hok. destruct Hok as [Hndh' Hhv]. apply nodupb_NoDup in Hndh'.
  pose proof (disjointb_spec _ _ Hhv) as Hhv'.
  destruct (scope_ok_spec [] b Hsc) as (Hndb & Hlv & _).
  set (prH := mkPr (lexdecls hd) [] false (lexdecls b)).
  set (prB := mkPr (lexdecls hd ++ lexdecls b) [] true []).
  assert (EpnH : pnames prH = lexdecls hd) by reflexivity.
  assert (EpaH : pall prH = lexdecls hd ++ lexdecls b) by reflexivity.
  assert (Epa : pall prB = lexdecls hd ++ lexdecls b) by (unfold pall; cbn [pfut prB]; rewrite app_nil_r; reflexivity).
  assert (Epn : pnames prB = lexdecls hd ++ lexdecls b) by reflexivity.
  destruct (L_enter a ((fr, pr) :: rest) false prH A) as (a1 & H1 & A1 & El1 & En1).
  { intros y _ []. }
  set (B0 := mkF (anext a) false [] [] O O) in *.
  (* the head *)
  destruct (IHh a1 B0 prH ((fr, pr) :: rest) A1 Hndh') as (a2 & B2 & z2 & R2 & A2 & G2 & P1h & P2h & _ & P4h & _ & Fh & Nh).
  { intros y Hy. split; [exact Hy|intros []]. }
  { intros y Hy. cbn [var_ok fisfunc B0]. split.
    - rewrite EpaH. apply Hvh. exact Hy.
    - apply Hvar. apply in_app_iff. left. exact Hy. }
  { rewrite Hh0. constructor. } { rewrite Hh0. intros y []. }
  { exact Hokh. }
  pose proof (grow_shape _ _ _ _ G2) as Hs2. pose proof Hs2 as Hs2full.
  cbn [shape map fst snd] in Hs2. injection Hs2 as HfidB2 HfB2 Hs2.
  cbn [fid fisfunc B0] in HfidB2, HfB2.
  assert (Hs2z : shape z2 = shape ((fr, pr) :: rest)) by exact Hs2.
  destruct G2 as [_ (G2i & G2b & G2r)].
  assert (Eb0 : below (vardecls hd) (B0, prH) = vardecls hd) by reflexivity. rewrite Eb0 in G2r.
  unfold dn in G2i, G2b. cbn [fst dnames fdecl B0 map] in G2i, G2b. rewrite Hh0, app_nil_r in G2b.
  (* MarkForStmt: the uses made by the head are of names the loop scope does not declare *)
  destruct (A_frames _ _ A2) as [KB2 _].
  assert (Hargs : forall y, In (UPend y) (fund B2) -> ~ In y (pnames prH)).
  { intros y Hy Hin. rewrite EpnH in Hin. apply (K_pend _ _ _ KB2 y Hy). apply P1h. exact Hin. }
  destruct (L_mark_gen a2 B2 prH prB z2 (fun fr0 => length (fdecl fr0)) A2 eq_refl eq_refl)
    as (a2m & B2m & Hm & A2m & M1 & M2 & M3 & M4 & _ & M5 & M6).
  { intros Hf. rewrite HfB2 in Hf. discriminate. }
  { exact Hargs. }
  { intros y k0 Hy. destruct (K_decl _ _ _ KB2 y k0 Hy) as [Q1 Q2]. split.
    - rewrite EpnH in Q1. rewrite Epn. apply in_app_iff. left. exact Q1.
    - intros Hk. specialize (Q2 Hk). cbn [plex prH prB] in *. apply in_app_iff. left. exact Q2. }
  { intros y _ []. }
  { intros y fs Hy. destruct (K_pass _ _ _ KB2 y fs Hy) as [_ Hp]. cbn [pass_ok] in Hp. rewrite HfB2 in Hp. rewrite Epa, <- EpaH. exact (proj1 Hp). }
  assert (EdnM : dnames B2m = dnames B2) by (unfold dnames; rewrite M3; reflexivity).
  (* the body *)
  destruct (IHb a2m B2m prB z2 A2m Hndb) as (a3 & B' & z3 & R3 & A3 & G3 & P1b & P2b & _ & P4b & P5b & F3 & N3).
  { intros y Hy. split; [cbn [plex prB]; apply in_app_iff; right; exact Hy|]. rewrite EdnM. intros Hi.
    destruct (G2b y Hi) as [[]|[Hi'|Hi']].
    - apply (Hhb y Hi' Hy).
    - apply (Hvh y Hi'). apply in_app_iff. right. exact Hy. }
  { intros y Hy. cbn [var_ok]. rewrite M2, HfB2. split.
    - rewrite Epa. intros Hi. apply in_app_iff in Hi. destruct Hi as [Hi|Hi]; [apply (Hhv' y Hi Hy)|apply (Hlv y Hi Hy)].
    - apply (var_ok_shape y ((fr, pr) :: rest)); [symmetry; exact Hs2z|]. apply Hvar. apply in_app_iff. right. apply in_app_iff. left. exact Hy. }
  { rewrite Hb0. constructor. } { rewrite Hb0. intros y []. }
  { exact Hokb. }
  pose proof (grow_shape _ _ _ _ G3) as Hs3. cbn [shape map fst snd] in Hs3. injection Hs3 as HfidB' HfB' Hs3.
  assert (Hs3z : shape z3 = shape ((fr, pr) :: rest)) by exact (eq_trans Hs3 Hs2).
  destruct (shape_cons_inv z3 fr pr rest Hs3z) as (P' & rest1 & -> & _ & _ & _).
  pose proof (func_dnames_mono _ _ _ _ G3) as Hfm. cbn [func_dnames] in Hfm. rewrite M2, HfB2 in Hfm.
  destruct G3 as [_ (G3i & G3b & G3r)].
  assert (Eb3 : below (vardecls b) (B2m, prB) = vardecls b) by (unfold below; cbn [fst]; rewrite M2, HfB2; reflexivity). rewrite Eb3 in G3r.
  pose proof (grow_rest_trans ((fr, pr) :: rest) (vardecls hd) (vardecls b) z2 ((P', pr) :: rest1) Hs2z G2r G3r) as Grest.
  cbn [grow_rest] in Grest. destruct Grest as [Gp Gr].
  assert (HfidB'a : fid B' = anext a) by congruence.
  assert (HfB'false : fisfunc B' = false) by congruence.
  rewrite HfB'false in Hfm.
  assert (Eb' : below (vardecls hd ++ vardecls b) (B', prB) = vardecls hd ++ vardecls b) by (unfold below; cbn [fst]; rewrite HfB'false; reflexivity).
  (* the environments as the resolver writes them *)
  assert (Eenv0 : env_of ((B0, prH) :: (fr, pr) :: rest)
                  = (anext a, false, lexdecls hd) :: env_of ((fr, pr) :: rest)) by reflexivity.
  assert (EenvH2 : env_of ((B2, prH) :: z2) = (anext a, false, lexdecls hd) :: env_of ((fr, pr) :: rest)).
  { rewrite (env_of_shape _ _ Hs2full). exact Eenv0. }
  assert (Eenv2 : env_of ((B2m, prB) :: z2) = (anext a, false, lexdecls hd ++ lexdecls b) :: env_of ((fr, pr) :: rest)).
  { cbn [env_of map fst snd]. rewrite M1, HfidB2, Epn. f_equal. apply (env_of_shape _ _ Hs2z). }
  assert (Efun2 : func_of ((B2m, prB) :: z2) = func_of ((fr, pr) :: rest)).
  { cbn [func_of]. rewrite M2, HfB2. apply (func_of_shape _ _ Hs2z). }
  assert (Efun0 : func_of ((B0, prH) :: (fr, pr) :: rest) = func_of ((fr, pr) :: rest)) by reflexivity.
  rewrite Eenv0, Efun0, El1, En1 in Fh. rewrite Eenv0, Efun0, En1 in Nh. cbn [fid B0] in Fh, Nh.
  rewrite (final_push2 a ((fr, pr) :: rest) (anext a) (lexdecls hd) (lexdecls hd ++ lexdecls b) A (le_n _)) in Fh.
  remember (resolve_m ((anext a, false, lexdecls hd) :: env_of ((fr, pr) :: rest)) (func_of ((fr, pr) :: rest)) (anext a) false (S (anext a)) hd) as RH eqn:HeqRH.
  rewrite M5, EenvH2, Fh in F3.
  rewrite Eenv2, Efun2, M1, HfidB2, M6, Nh in F3, N3.
  remember (resolve_m ((anext a, false, lexdecls hd ++ lexdecls b) :: env_of ((fr, pr) :: rest))
                    (func_of ((fr, pr) :: rest)) (anext a) false (snd RH) b) as RB eqn:HeqRB.
  assert (Hle : (anext a <= snd RB)%nat).
  { rewrite <- N3. destruct A3 as [_ _ An _]. pose proof (An (B', prB) (or_introl eq_refl)) as H. cbn [fst] in H. lia. }
  destruct (after_scope k (vardecls hd ++ vardecls b) false IHk a fr pr rest a3 B' prB P' rest1 (lexdecls hd ++ lexdecls b)
              (fst RH ++ fst RB) (snd RB) (allnames hd ++ allnames b) A A3 HfidB'a Epn Hs3z)
    as (a' & fr' & rest' & R & A' & G & P1 & P2 & Pf & P3 & P4 & P5 & F & N).
  { rewrite Eb'. exact Gp. }
  { rewrite Eb'. exact Gr. }
  { intros y Hy. rewrite Epn in Hy. apply in_app_iff in Hy. destruct Hy as [Hy|Hy].
    - apply G3i. unfold dn. cbn [fst]. rewrite EdnM. apply P1h. exact Hy.
    - apply P1b. exact Hy. }
  { intros y [Hy|Hy]; apply in_app_iff.
    - destruct (P4b y Hy) as [H|H]; [|right; exact H]. rewrite M4 in H. destruct (to_args_no_pend _ _ H).
    - left. specialize (P5b y Hy). rewrite M4 in P5b. destruct (to_args_uarg _ _ P5b) as [H|H].
      + destruct (P4h y H) as [[]|H']. exact H'.
      + destruct (no_uarg_unmarked _ _ _ y KB2 eq_refl H). }
  { rewrite F3, rev_app_distr, <- app_assoc. reflexivity. }
  { exact N3. }
  { exact Hle. }
  { exact Hnd. } { exact Hlex. }
  { rewrite Eb'. intros y Hy. apply Hvar. apply in_app_iff in Hy. apply in_app_iff.
    destruct Hy as [Hy|Hy]; [left; exact Hy|right; apply in_app_iff; left; exact Hy]. }
  { intros y Hy. apply Hvar. apply in_app_iff. right. apply in_app_iff. right. exact Hy. }
  { exact Hndh. }
  { intros y Hy. destruct (Hhead y Hy) as (Q1 & Q2 & Q3). split; [exact Q1|]. split; [exact Q2|]. split; [exact Q3|].
    split; [|intros _; apply Hkfresh; exact Hy]. rewrite Eb'. intros Hi. apply (Hkfresh y Hy). apply in_app_iff in Hi. apply in_app_iff.
    destruct Hi as [Hi|Hi]; [left; apply vardecls_allnames; exact Hi|right; apply vardecls_allnames; exact Hi]. }
  { exact Hokk. }
  exists a', fr', rest'. split.
  { cbn [linearise app arun astep]. rewrite H1. rewrite arun_app, R2.
    cbn [arun astep]. unfold a_mark_for. rewrite Hm. rewrite arun_app, R3. exact R. }
  split; [exact A'|]. split.
  { cbn [lexdecls headdecls vardecls]. rewrite Eb', <- app_assoc in G. exact G. }
  split; [exact P1|]. split.
  { cbn [vardecls]. intros y Hy. apply in_app_iff in Hy. destruct Hy as [Hy|Hy].
    - apply Pf. apply Hfm. specialize (P2h y Hy). cbn [func_dnames] in P2h. rewrite HfB2 in P2h. exact P2h.
    - apply in_app_iff in Hy. destruct Hy as [Hy|Hy]; [|apply P2; exact Hy].
      apply Pf. specialize (P2b y Hy). cbn [func_dnames] in P2b. rewrite HfB'false in P2b. exact P2b. }
  split; [cbn [headdecls]; exact P3|]. split.
  { intros y Hy. cbn [allnames]. destruct (P4 y Hy) as [H|[H|H]]; [left; exact H|right|right].
    - apply in_app_iff in H. destruct H as [H|H]; [apply in_app_iff; left; exact H|apply in_app_iff; right; apply in_app_iff; left; exact H].
    - apply in_app_iff. right. apply in_app_iff. right. exact H. }
  split; [exact P5|].
  cbn [resolve_m]. rewrite <- HeqRH. destruct RH as [rh n1]. cbn [fst snd] in *. rewrite <- HeqRB. destruct RB as [rb n2]. cbn [fst snd] in *.
  destruct (resolve_m (env_of ((fr, pr) :: rest)) (func_of ((fr, pr) :: rest)) (fid fr) false n2 k) as [rk n3].
  cbn [fst snd app] in *. split; [|exact N]. rewrite F. rewrite !rev_app_distr, <- !app_assoc. reflexivity.
Qed.

(* ---- the fragment ---------------------------------------------------------------------------------------------- *)
Lemma run_ok_done : run_ok Done.
Proof.
  intros a fr pr rest A _ _ _ _ _ _. exists a, fr, rest. split; [reflexivity|]. split; [exact A|].
  split; [apply grow_top_same; reflexivity|]. split; [intros y []|]. split; [intros y []|]. split; [intros y []|].
  split; [intros y Hy; left; exact Hy|]. split; [intros y Hy; exact Hy|]. split; reflexivity.
Qed.

Theorem run_core_x p : (core_x p = true -> run_ok p) /\ (forall c, hcore_x c p = true -> run_ok_gen c p).
Proof.
  induction p; (split; [intros Hc; cbn [core_x] in Hc|intros c Hc; cbn [hcore_x] in Hc]); try discriminate.
  - exact run_ok_done.
  - apply (run_ok_gen_nil false); [reflexivity|exact run_ok_done].
  - (* Ref *)
    apply run_ok_ref; [rewrite (core_x_headdecls p Hc); intros _ []|apply (proj1 IHp); exact Hc].
  - apply andb_true_iff in Hc. destruct Hc as [Hx Hc]. apply run_ok_ref; [|apply (proj2 IHp); exact Hc].
    intros ->. apply negb_true_iff in Hx. apply mem_not_in. exact Hx.
  - (* Decl *)
    apply andb_true_iff in Hc. destruct Hc as [Hd Hc]. pose proof (core_x_headdecls p Hc) as Hk0. destruct d; try discriminate.
    + apply run_ok_var; [left; reflexivity|exact Hk0|apply (proj1 IHp); exact Hc].
    + apply run_ok_var; [right; reflexivity|exact Hk0|apply (proj1 IHp); exact Hc].
    + apply run_ok_lex; [exact Hk0|apply (proj1 IHp); exact Hc].
  - destruct d; try discriminate; destruct c; try discriminate.
    + apply run_ok_param. apply (proj2 IHp). exact Hc.
    + apply run_ok_catchparam; [rewrite (proj1 (hcore_x_lexvar true p Hc)); intros []|apply (proj2 IHp); exact Hc].
  - (* Block *)
    apply andb_true_iff in Hc. destruct Hc as [H1 H2].
    apply run_ok_block; [apply core_x_headdecls; exact H1|rewrite (core_x_headdecls p2 H2); intros y []|apply (proj1 IHp1); exact H1|apply (proj1 IHp2); exact H2].
  - (* Func in a statement list *)
    apply andb_true_iff in Hc. destruct Hc as [Hc H5]. apply andb_true_iff in Hc. destruct Hc as [Hc H4].
    apply andb_true_iff in Hc. destruct Hc as [H1 H3].
    destruct nm as [g|].
    + apply run_ok_func_some; [exact H1|apply core_x_headdecls; exact H3| | |apply (proj2 IHp1); exact H1|apply (proj1 IHp2); exact H3|apply (proj1 IHp3); exact H4].
      * apply negb_true_iff in H5. apply mem_not_in. exact H5.
      * rewrite (core_x_headdecls p3 H4). intros _ y [].
    + apply run_ok_func; [exact H1|apply core_x_headdecls; exact H3| |apply (proj2 IHp1); exact H1|apply (proj1 IHp2); exact H3|apply (proj1 IHp3); exact H4].
      rewrite (core_x_headdecls p3 H4). intros _ y [].
  - (* Func in a parameter list / catch parameter *)
    apply andb_true_iff in Hc. destruct Hc as [Hc H6]. apply andb_true_iff in Hc. destruct Hc as [Hc H5].
    apply andb_true_iff in Hc. destruct Hc as [Hc H4]. apply andb_true_iff in Hc. destruct Hc as [H1 H3].
    destruct nm as [g|].
    + apply andb_true_iff in H6. destruct H6 as [H6 H7].
      apply run_ok_func_some; [exact H1|apply core_x_headdecls; exact H3| | |apply (proj2 IHp1); exact H1|apply (proj1 IHp2); exact H3|apply (proj2 IHp3); exact H5].
      * apply negb_true_iff in H6. apply mem_not_in. exact H6.
      * intros -> y Hy [<-|Hin].
        -- apply negb_true_iff in H7. apply mem_not_in in H7. apply H7. exact Hy.
        -- apply (disjointb_spec _ _ H4 y Hin Hy).
    + apply run_ok_func; [exact H1|apply core_x_headdecls; exact H3| |apply (proj2 IHp1); exact H1|apply (proj1 IHp2); exact H3|apply (proj2 IHp3); exact H5].
      intros -> y Hy Hin. apply (disjointb_spec _ _ H4 y Hin Hy).
  - (* Arrow in a statement list *)
    apply andb_true_iff in Hc. destruct Hc as [Hc H4]. apply andb_true_iff in Hc. destruct Hc as [H1 H3]. apply run_ok_arrow.
    apply run_ok_func; [exact H1|apply core_x_headdecls; exact H3| |apply (proj2 IHp1); exact H1|apply (proj1 IHp2); exact H3|apply (proj1 IHp3); exact H4].
    rewrite (core_x_headdecls p3 H4). intros _ y [].
  - (* Arrow in a parameter list / catch parameter *)
    apply andb_true_iff in Hc. destruct Hc as [Hc H5]. apply andb_true_iff in Hc. destruct Hc as [Hc H4].
    apply andb_true_iff in Hc. destruct Hc as [H1 H3]. apply run_ok_arrow.
    apply run_ok_func; [exact H1|apply core_x_headdecls; exact H3| |apply (proj2 IHp1); exact H1|apply (proj1 IHp2); exact H3|apply (proj2 IHp3); exact H5].
    intros -> y Hy Hin. apply (disjointb_spec _ _ H4 y Hin Hy).
  - (* For *)
    apply andb_true_iff in Hc. destruct Hc as [Hc H5]. apply andb_true_iff in Hc. destruct Hc as [Hc H4].
    apply andb_true_iff in Hc. destruct Hc as [Hc H3]. apply andb_true_iff in Hc. destruct Hc as [H1 H2].
    apply run_ok_for; [apply core_x_headdecls; exact H1|apply core_x_headdecls; exact H2|exact (disjointb_spec _ _ H4)|exact (disjointb_spec _ _ H5)|
                       |apply (proj1 IHp1); exact H1|apply (proj1 IHp2); exact H2|apply (proj1 IHp3); exact H3].
    rewrite (core_x_headdecls p3 H3). intros y [].
  - (* Catch *)
    apply andb_true_iff in Hc. destruct Hc as [Hc H4]. apply andb_true_iff in Hc. destruct Hc as [Hc H3].
    apply andb_true_iff in Hc. destruct Hc as [H1 H2]. destruct (hcore_x_lexvar true p1 H1) as [E1 E2].
    apply run_ok_catch; [exact E1|exact E2|exact H2|apply core_x_headdecls; exact H3|apply core_x_headdecls; exact H4|apply (proj2 IHp1); exact H1|apply (proj1 IHp2); exact H3|apply (proj1 IHp3); exact H4].
  - (* Class in a statement list *)
    destruct nm; [discriminate|]. apply andb_true_iff in Hc. destruct Hc as [Hc H4]. apply andb_true_iff in Hc. destruct Hc as [Hc H3].
    apply andb_true_iff in Hc. destruct Hc as [H1 H2]. apply is_nil_eq in H2. apply is_nil_eq in H3.
    apply run_ok_class; [exact H2|exact H3|].
    apply run_ok_block; [apply core_x_headdecls; exact H1|rewrite (core_x_headdecls p2 H4); intros y []|apply (proj1 IHp1); exact H1|apply (proj1 IHp2); exact H4].
  - (* Class in a parameter list / catch parameter *)
    destruct nm; [discriminate|]. apply andb_true_iff in Hc. destruct Hc as [Hc H5]. apply andb_true_iff in Hc. destruct Hc as [Hc H4].
    apply andb_true_iff in Hc. destruct Hc as [Hc H3]. apply andb_true_iff in Hc. destruct Hc as [H1 H2].
    apply is_nil_eq in H2. apply is_nil_eq in H3.
    apply run_ok_class; [exact H2|exact H3|].
    apply run_ok_block; [apply core_x_headdecls; exact H1| |apply (proj1 IHp1); exact H1|apply (proj2 IHp2); exact H5].
    intros y Hy. split; [rewrite H3; intros []|]. intros -> Hin. apply (disjointb_spec _ _ H4 y Hin Hy).
Qed.

Corollary run_core p : core_x p = true -> run_ok p.
Proof. apply run_core_x. Qed.
