(* JsScope/Resolve7.v — layer 2, part 7: blocks and functions; the induction over the fragment. *)
From Coq Require Import ZifyBool.
From Verif Require Import Common.Base Common.Tactics JsScope.Model JsScope.Spec JsScope.Abs JsScope.HeapLemmas
  JsScope.SimUse JsScope.SimDeclare JsScope.SimDeclare3 JsScope.Resolve1 JsScope.Resolve2 JsScope.Resolve3 JsScope.Resolve4
  JsScope.Resolve5 JsScope.Resolve6.

(* the common part of Block and Func: a scope is entered (already done: state a1 with the new frame B1 on
   top of z), its body b has run (state a2), it is exited and the continuation k runs *)
Section Nested.
  Variables (k : prog) (V : list Z).      (* V: the var-like names the scope lets through to the parent *)
  Hypothesis IHk : run_ok k.

  Lemma after_scope a fr pr rest a2 B' prB P' rest1 names ts_b n_b :
    AInv a ((fr, pr) :: rest) ->
    (* the state after the body *)
    AInv a2 ((B', prB) :: (P', pr) :: rest1) ->
    fid B' = anext a -> pnames prB = names ->
    shape ((P', pr) :: rest1) = shape ((fr, pr) :: rest) ->
    grow_one (below V (B', prB)) (fr, pr) (P', pr) ->
    grow_rest (below (below V (B', prB)) (fr, pr)) rest rest1 ->
    (forall y, In y (pnames prB) -> In y (dnames B')) ->
    map (final ((anext a, false, names) :: env_of ((fr, pr) :: rest))) (alog a2)
      = rev ts_b ++ map (final ((anext a, false, names) :: env_of ((fr, pr) :: rest))) (alog a) ->
    anext a2 = n_b -> (anext a <= n_b)%nat ->
    (* the continuation *)
    NoDup (lexdecls k) ->
    (forall x, In x (lexdecls k) -> In x (plex pr) /\ ~ In x (dnames fr)) ->
    (forall x, In x (below V (B', prB)) -> var_ok x ((fr, pr) :: rest)) ->
    (forall x, In x (vardecls k) -> var_ok x ((fr, pr) :: rest)) ->
    spec_ok k = true ->
    exists a' fr' rest',
      arun a2 (EExit :: linearise k) = ARun a' /\ AInv a' ((fr', pr) :: rest') /\
      grow (lexdecls k) (below V (B', prB) ++ vardecls k) ((fr, pr) :: rest) ((fr', pr) :: rest') /\
      (forall x, In x (lexdecls k) -> In x (dnames fr')) /\
      (forall x, In x (vardecls k) -> In x (func_dnames ((fr', pr) :: rest'))) /\
      incl (func_dnames ((P', pr) :: rest1)) (func_dnames ((fr', pr) :: rest')) /\
      map (final (env_of ((fr, pr) :: rest))) (alog a')
        = rev (fst (resolve (env_of ((fr, pr) :: rest)) (func_of ((fr, pr) :: rest)) (fid fr) false n_b k))
          ++ rev ts_b ++ map (final (env_of ((fr, pr) :: rest))) (alog a) /\
      anext a' = snd (resolve (env_of ((fr, pr) :: rest)) (func_of ((fr, pr) :: rest)) (fid fr) false n_b k).
  Proof.
    intros A A2 HfidB Hnames Hs1 Gp Gr Hfull Fb Nb Hle Hnd Hlex HVok Hvar Hok.
    pose proof (A_frames _ _ A) as [Kfr _].
    destruct (L_exit a2 B' prB P' pr rest1 A2 Hfull) as (a3 & P'' & H3 & A3 & E1 & E2 & E3 & _ & N3 & F3).
    assert (Hs3 : shape ((P'', pr) :: rest1) = shape ((fr, pr) :: rest)).
    { rewrite <- Hs1. cbn. rewrite E1, E2. reflexivity. }
    assert (Edn : dnames P'' = dnames P') by (unfold dnames; rewrite E3; reflexivity).
    destruct Gp as [Gpi Gpb]. unfold dn in Gpi, Gpb. cbn [fst] in Gpi, Gpb.
    destruct (IHk a3 P'' pr rest1 A3 Hnd) as (a' & fr' & rest' & R & A' & G & P1 & P2 & F & N).
    { intros y Hy. destruct (Hlex y Hy) as [Hyp Hyn]. split; [exact Hyp|]. rewrite Edn. intros Hi.
      destruct (Gpb y Hi) as [H|H]; [contradiction|]. apply (lex_var_contra fr pr rest y Kfr Hyp). apply HVok. exact H. }
    { intros y Hy. apply (var_ok_shape y ((fr, pr) :: rest)); [symmetry; exact Hs3|apply Hvar; exact Hy]. }
    { exact Hok. }
    assert (Efid : fid P'' = fid fr) by (cbn in Hs3; injection Hs3 as H _; exact H).
    rewrite (env_of_shape _ _ Hs3), (func_of_shape _ _ Hs3), Efid, N3, Nb in F, N.
    exists a', fr', rest'. split.
    { cbn [arun astep]. rewrite H3. exact R. }
    split; [exact A'|]. split.
    { apply (grow_weaken ([] ++ lexdecls k) (below V (B', prB) ++ vardecls k)); [apply incl_refl|apply incl_refl|].
      eapply grow_trans; [|exact G]. split; [exact Hs3|]. unfold dn. cbn [fst]. rewrite Edn.
      split; [exact Gpi|]. split; [|exact Gr]. intros y Hy. destruct (Gpb y Hy) as [H|H]; [left; exact H|right; right; exact H]. }
    split; [exact P1|]. split; [exact P2|]. split.
    { eapply incl_tran; [|apply (func_dnames_mono _ _ _ _ G)]. cbn [func_dnames]. rewrite E2, Edn. apply incl_refl. }
    split; [|exact N].
    rewrite F. f_equal. rewrite (env_of_shape _ _ Hs1) in F3. rewrite F3.
    assert (Eenv : env_of ((B', prB) :: (P', pr) :: rest1) = (anext a, false, names) :: env_of ((fr, pr) :: rest)).
    { cbn [env_of map fst snd]. rewrite HfidB, Hnames. f_equal. apply (env_of_shape _ _ Hs1). }
    rewrite Eenv, Fb. f_equal. apply (final_push a _ (anext a) names A). lia.
  Qed.
End Nested.

(* ---- Block ------------------------------------------------------------------------------------------------------ *)
Lemma run_ok_block b k : run_ok b -> run_ok k -> run_ok (Block b k).
Proof.
  intros IHb IHk a fr pr rest A Hnd Hlex Hvar Hok.
  cbn [lexdecls] in Hnd, Hlex. cbn [vardecls] in Hvar. cbn [spec_ok] in Hok.
  apply andb_true_iff in Hok. destruct Hok as [Hok Hokk]. apply andb_true_iff in Hok. destruct Hok as [Hsc Hokb].
  destruct (scope_ok_spec [] b Hsc) as (Hndb & Hlv & _).
  set (prB := mkPr (lexdecls b) []).
  destruct (L_enter a ((fr, pr) :: rest) false prB A) as (a1 & H1 & A1 & El & En).
  { intros y _ []. }
  set (B0 := mkF (anext a) false [] [] O) in *.
  destruct (IHb a1 B0 prB ((fr, pr) :: rest) A1 Hndb) as (a2 & B' & z1 & R2 & A2 & G2 & P1b & P2b & F2 & N2).
  { intros y Hy. split; [exact Hy|intros []]. }
  { intros y Hy. cbn [var_ok fisfunc B0]. split.
    - unfold pnames. cbn [pvar plex prB app]. intros Hi. apply (Hlv y Hi Hy).
    - apply Hvar. apply in_app_iff. left. exact Hy. }
  { exact Hokb. }
  pose proof (grow_shape _ _ _ _ G2) as Hs2. cbn [shape map fst snd] in Hs2. injection Hs2 as HfidB HfB Hs2.
  destruct (shape_cons_inv z1 fr pr rest Hs2) as (P' & rest1 & -> & _ & _ & _).
  destruct G2 as [_ (G2i & G2b & G2r)]. cbn [grow_rest] in G2r. destruct G2r as [Gp Gr].
  assert (Ebelow : below (vardecls b) (B', prB) = vardecls b) by (unfold below; cbn [fst]; rewrite HfB; reflexivity).
  assert (Ebelow0 : below (vardecls b) (B0, prB) = vardecls b) by reflexivity.
  rewrite Ebelow0 in Gp, Gr.
  rewrite El, En in F2. rewrite En in N2.
  remember (resolve (env_of ((B0, prB) :: (fr, pr) :: rest)) (func_of ((B0, prB) :: (fr, pr) :: rest)) (fid B0) false (S (anext a)) b) as RB eqn:HeqRB.
  assert (Hle : (anext a <= snd RB)%nat).
  { rewrite <- N2. destruct A2 as [_ _ An _]. pose proof (An (B', prB) (or_introl eq_refl)) as H. cbn [fst] in H. lia. }
  destruct (after_scope k (vardecls b) IHk a fr pr rest a2 B' prB P' rest1 (lexdecls b) (fst RB) (snd RB)
              A A2 HfidB eq_refl Hs2)
    as (a' & fr' & rest' & R & A' & G & P1 & P2 & Pf & F & N).
  { rewrite Ebelow. exact Gp. }
  { rewrite Ebelow. exact Gr. }
  { intros y Hy. apply P1b. exact Hy. }
  { exact F2. }
  { exact N2. }
  { exact Hle. }
  { exact Hnd. } { exact Hlex. }
  { rewrite Ebelow. intros y Hy. apply Hvar. apply in_app_iff. left. exact Hy. }
  { intros y Hy. apply Hvar. apply in_app_iff. right. exact Hy. }
  { exact Hokk. }
  exists a', fr', rest'. split.
  { cbn [linearise arun astep]. rewrite H1. rewrite arun_app, R2. exact R. }
  split; [exact A'|]. split; [rewrite Ebelow in G; exact G|]. split; [exact P1|]. split.
  { intros y Hy. apply in_app_iff in Hy. destruct Hy as [Hy|Hy]; [|apply P2; exact Hy].
    apply Pf. specialize (P2b y Hy). cbn [func_dnames] in P2b. rewrite HfB in P2b. exact P2b. }
  cbn [resolve].
  change (resolve ((anext a, false, lexdecls b) :: env_of ((fr, pr) :: rest)) (func_of ((fr, pr) :: rest)) (anext a) false (S (anext a)) b)
    with (resolve (env_of ((B0, prB) :: (fr, pr) :: rest)) (func_of ((B0, prB) :: (fr, pr) :: rest)) (fid B0) false (S (anext a)) b).
  rewrite <- HeqRB. destruct RB as [rb n1]. cbn [fst snd] in *.
  destruct (resolve (env_of ((fr, pr) :: rest)) (func_of ((fr, pr) :: rest)) (fid fr) false n1 k) as [rk n2].
  cbn [fst snd] in *. split; [|exact N]. rewrite F, rev_app_distr, <- app_assoc. reflexivity.
Qed.

(* ---- Func -------------------------------------------------------------------------------------------------------- *)
Lemma run_ok_func ps b k : params_only ps = true -> run_ok b -> run_ok k -> run_ok (Func None ps b k).
Proof.
  intros Hps IHb IHk a fr pr rest A Hnd Hlex Hvar Hok.
  cbn [lexdecls] in Hnd, Hlex. cbn [vardecls] in Hvar. cbn [spec_ok] in Hok.
  apply andb_true_iff in Hok. destruct Hok as [Hok Hokk]. apply andb_true_iff in Hok. destruct Hok as [Hok Hokb].
  apply andb_true_iff in Hok. destruct Hok as [Hok _]. apply andb_true_iff in Hok. destruct Hok as [Hndp Hsc].
  apply nodupb_NoDup in Hndp. destruct (scope_ok_spec (headdecls ps) b Hsc) as (Hndb & Hlv & Hlh).
  set (prF := mkPr (lexdecls b) (headdecls ps ++ vardecls b)).
  destruct (L_enter a ((fr, pr) :: rest) true prF A) as (a1 & H1 & A1 & El1 & En1).
  { intros y Hy Hi. cbn [pvar prF] in Hi. apply in_app_iff in Hi. destruct Hi as [Hi|Hi]; [apply (Hlh y Hy Hi)|apply (Hlv y Hy Hi)]. }
  set (F0 := mkF (anext a) true [] [] O) in *.
  destruct (run_params (headdecls ps) a1 F0 prF ((fr, pr) :: rest) A1 Hndp) as (a2 & F2 & R2 & A2 & E1 & E2 & E3 & E4 & En2 & Fp).
  { intros y Hy. split; [cbn [pvar prF]; apply in_app_iff; left; exact Hy|intros []]. }
  { reflexivity. }
  cbn [fid fisfunc F0] in E1, E2. cbn [dnames fdecl F0 map app] in E3.
  assert (Hmark : a_mark_args a2 = ARun a2) by (apply (L_mark a2 F2 prF ((fr, pr) :: rest) A2 E4)).
  destruct (IHb a2 F2 prF ((fr, pr) :: rest) A2 Hndb) as (a3 & F' & z1 & R3 & A3 & G3 & P1b & P2b & F3 & N3).
  { intros y Hy. split; [exact Hy|]. rewrite E3. apply Hlh. exact Hy. }
  { intros y Hy. cbn [var_ok]. rewrite E2. cbn [pvar prF]. apply in_app_iff. right. exact Hy. }
  { exact Hokb. }
  pose proof (grow_shape _ _ _ _ G3) as Hs3. cbn [shape map fst snd] in Hs3. injection Hs3 as HfidF HfF Hs3.
  destruct (shape_cons_inv z1 fr pr rest Hs3) as (P' & rest1 & -> & _ & _ & _).
  destruct G3 as [_ (G3i & G3b & G3r)]. cbn [grow_rest] in G3r. destruct G3r as [Gp Gr].
  assert (Eb2 : below (vardecls b) (F2, prF) = []) by (unfold below; cbn [fst]; rewrite E2; reflexivity).
  rewrite Eb2 in Gp. rewrite Eb2 in Gr.
  assert (Eb' : forall g, below [] g = []) by (intros g; unfold below; destruct (fisfunc (fst g)); reflexivity).
  assert (HfidF' : fid F' = anext a) by congruence.
  (* the environment of the body as the resolver writes it *)
  assert (Epn : pnames prF = headdecls ps ++ vardecls b ++ lexdecls b).
  { unfold pnames. cbn [pvar plex prF]. rewrite <- app_assoc. reflexivity. }
  assert (Eenv2 : env_of ((F2, prF) :: (fr, pr) :: rest)
                  = (anext a, false, headdecls ps ++ vardecls b ++ lexdecls b) :: env_of ((fr, pr) :: rest)).
  { cbn [env_of map fst snd]. rewrite E1, Epn. reflexivity. }
  assert (Efun2 : func_of ((F2, prF) :: (fr, pr) :: rest) = anext a) by (cbn [func_of]; rewrite E2; exact E1).
  assert (Eenv0 : env_of ((F0, prF) :: (fr, pr) :: rest)
                  = (anext a, false, headdecls ps ++ vardecls b ++ lexdecls b) :: env_of ((fr, pr) :: rest)).
  { cbn [env_of map fst snd]. rewrite Epn. reflexivity. }
  rewrite Eenv2, Efun2, E1, En2, En1 in F3, N3. rewrite Eenv0, El1 in Fp. cbn [fid F0] in Fp. rewrite Fp in F3.
  remember (resolve ((anext a, false, headdecls ps ++ vardecls b ++ lexdecls b) :: env_of ((fr, pr) :: rest))
                    (anext a) (anext a) false (S (anext a)) b) as RB eqn:HeqRB.
  assert (Hle : (anext a <= snd RB)%nat).
  { rewrite <- N3. destruct A3 as [_ _ An _]. pose proof (An (F', prF) (or_introl eq_refl)) as H. cbn [fst] in H. lia. }
  destruct (after_scope k [] IHk a fr pr rest a3 F' prF P' rest1 (headdecls ps ++ vardecls b ++ lexdecls b)
              (map (TBind (anext a) false) (headdecls ps) ++ fst RB) (snd RB) A A3 HfidF' Epn Hs3)
    as (a' & fr' & rest' & R & A' & G & P1 & P2 & Pf & F & N).
  { rewrite Eb'. exact Gp. }
  { rewrite !Eb'. rewrite Eb' in Gr. exact Gr. }
  { intros y Hy. rewrite Epn in Hy. apply in_app_iff in Hy. destruct Hy as [Hy|Hy].
    - apply G3i. unfold dn. cbn [fst]. rewrite E3. exact Hy.
    - apply in_app_iff in Hy. destruct Hy as [Hy|Hy]; [|apply P1b; exact Hy].
      specialize (P2b y Hy). cbn [func_dnames] in P2b. rewrite HfF, E2 in P2b. exact P2b. }
  { rewrite F3, rev_app_distr, <- app_assoc. reflexivity. }
  { exact N3. }
  { exact Hle. }
  { exact Hnd. } { exact Hlex. }
  { rewrite Eb'. intros y []. }
  { exact Hvar. }
  { exact Hokk. }
  exists a', fr', rest'. split.
  { cbn [linearise app arun astep]. rewrite H1. rewrite arun_app. rewrite (params_only_lin ps Hps), R2.
    cbn [arun astep]. rewrite Hmark. rewrite arun_app, R3. exact R. }
  split; [exact A'|]. split; [rewrite Eb' in G; exact G|]. split; [exact P1|]. split; [exact P2|].
  cbn [resolve]. rewrite (resolve_params _ _ _ _ _ Hps). rewrite <- HeqRB. destruct RB as [rb n1]. cbn [fst snd] in *.
  destruct (resolve (env_of ((fr, pr) :: rest)) (func_of ((fr, pr) :: rest)) (fid fr) false n1 k) as [rk n2].
  cbn [fst snd app] in *. split; [|exact N]. rewrite F. rewrite !rev_app_distr, <- !app_assoc. reflexivity.
Qed.

(* ---- Arrow: the parser's events and the resolver's clauses are those of an anonymous function ---------------- *)
Lemma run_ok_arrow ps b k : run_ok (Func None ps b k) -> run_ok (Arrow ps b k).
Proof. intros H a fr pr rest. exact (H a fr pr rest). Qed.

(* ---- Catch ----------------------------------------------------------------------------------------------------- *)
Lemma resolve_catch_params e fs cur n hd :
  catch_params_only hd = true ->
  resolve e fs cur false n hd = (map (TBind cur false) (headdecls hd), n).
Proof.
  induction hd; cbn; intros H; try discriminate; [reflexivity|].
  destruct d; try discriminate. rewrite (IHhd H). reflexivity.
Qed.

Lemma catch_params_lin hd : catch_params_only hd = true -> linearise hd = map (EDeclare CatchDecl) (headdecls hd).
Proof.
  induction hd; cbn; intros H; try discriminate; [reflexivity|].
  destruct d; try discriminate. cbn. rewrite (IHhd H). reflexivity.
Qed.

Lemma catch_params_lexvar hd : catch_params_only hd = true -> lexdecls hd = [] /\ vardecls hd = [].
Proof.
  induction hd; cbn; intros H; try discriminate; [split; reflexivity|].
  destruct d; try discriminate. cbn. apply IHhd. exact H.
Qed.

Lemma run_catch_params : forall names a fr pr rest,
  AInv a ((fr, pr) :: rest) -> NoDup names ->
  (forall x, In x names -> In x (plex pr) /\ ~ In x (dnames fr)) ->
  exists a' fr',
    arun a (map (EDeclare CatchDecl) names) = ARun a' /\ AInv a' ((fr', pr) :: rest) /\
    fid fr' = fid fr /\ fisfunc fr' = fisfunc fr /\ dnames fr' = dnames fr ++ names /\
    anext a' = anext a /\
    map (final (env_of ((fr, pr) :: rest))) (alog a')
    = rev (map (TBind (fid fr) false) names) ++ map (final (env_of ((fr, pr) :: rest))) (alog a).
Proof.
  induction names as [|x names IH]; intros a fr pr rest A Hnd Hin.
  - exists a, fr. cbn. rewrite app_nil_r. split; [reflexivity|]. split; [exact A|]. repeat split; reflexivity.
  - inversion Hnd as [|? ? Hx Hnd']; subst. destruct (Hin x (or_introl eq_refl)) as [Hp Hn].
    destruct (L_decl_top a fr pr rest CatchDecl x A (or_intror (or_intror eq_refl)) Hn) as (a1 & fr1 & H1 & A1 & E1 & E2 & E3 & E4 & E5 & E6).
    { unfold pnames. apply in_app_iff. right. exact Hp. } { intros _. exact Hp. } { discriminate. }
    destruct (IH a1 fr1 pr rest A1 Hnd') as (a' & fr' & H2 & A' & F1 & F2 & F3 & F5 & F6).
    { intros y Hy. destruct (Hin y (or_intror Hy)) as [Hyp Hyn]. split; [exact Hyp|]. rewrite E3. intros Hi. apply in_app_last in Hi.
      destruct Hi as [Hi| ->]; contradiction. }
    exists a', fr'. cbn [map arun astep]. unfold NoDecl, CatchDecl in *. cbn [Z.eqb]. rewrite H1. split; [exact H2|]. split; [exact A'|].
    split; [congruence|]. split; [congruence|]. split; [rewrite F3, E3, <- app_assoc; reflexivity|]. split; [congruence|].
    assert (Eenv : env_of ((fr1, pr) :: rest) = env_of ((fr, pr) :: rest)) by (cbn; rewrite E1; reflexivity).
    rewrite Eenv in F6. rewrite F6, E6. rewrite E1. cbn [map rev]. rewrite <- app_assoc. reflexivity.
Qed.

Lemma run_ok_catch hd b k :
  catch_params_only hd = true -> disjointb (headdecls hd) (vardecls b) = true ->
  run_ok b -> run_ok k -> run_ok (Catch hd b k).
Proof.
  intros Hhd Hdisj IHb IHk a fr pr rest A Hnd Hlex Hvar Hok.
  destruct (catch_params_lexvar hd Hhd) as [Ehl Ehv].
  cbn [lexdecls] in Hnd, Hlex. cbn [vardecls] in Hvar. rewrite Ehv in Hvar. cbn [app] in Hvar. cbn [spec_ok] in Hok.
  apply andb_true_iff in Hok. destruct Hok as [Hok Hokk]. apply andb_true_iff in Hok. destruct Hok as [Hok Hokb].
  apply andb_true_iff in Hok. destruct Hok as [Hok _]. apply andb_true_iff in Hok. destruct Hok as [Hndp Hsc].
  apply nodupb_NoDup in Hndp. destruct (scope_ok_spec (headdecls hd) b Hsc) as (Hndb & Hlv & Hlh).
  pose proof (disjointb_spec _ _ Hdisj) as Hhv.
  set (prC := mkPr (headdecls hd ++ lexdecls b) []).
  destruct (L_enter a ((fr, pr) :: rest) false prC A) as (a1 & H1 & A1 & El1 & En1).
  { intros y _ []. }
  set (C0 := mkF (anext a) false [] [] O) in *.
  destruct (run_catch_params (headdecls hd) a1 C0 prC ((fr, pr) :: rest) A1 Hndp) as (a2 & C2 & R2 & A2 & E1 & E2 & E3 & En2 & Fp).
  { intros y Hy. split; [cbn [plex prC]; apply in_app_iff; left; exact Hy|intros []]. }
  cbn [fid fisfunc C0] in E1, E2. cbn [dnames fdecl C0 map app] in E3.
  destruct (IHb a2 C2 prC ((fr, pr) :: rest) A2 Hndb) as (a3 & C' & z1 & R3 & A3 & G3 & P1b & P2b & F3 & N3).
  { intros y Hy. split; [cbn [plex prC]; apply in_app_iff; right; exact Hy|]. rewrite E3. apply Hlh. exact Hy. }
  { intros y Hy. cbn [var_ok]. rewrite E2. split.
    - unfold pnames. cbn [pvar plex prC app]. intros Hi. apply in_app_iff in Hi. destruct Hi as [Hi|Hi]; [apply (Hhv y Hi Hy)|apply (Hlv y Hi Hy)].
    - apply Hvar. apply in_app_iff. left. exact Hy. }
  { exact Hokb. }
  pose proof (grow_shape _ _ _ _ G3) as Hs3. cbn [shape map fst snd] in Hs3. injection Hs3 as HfidC HfC Hs3.
  destruct (shape_cons_inv z1 fr pr rest Hs3) as (P' & rest1 & -> & _ & _ & _).
  destruct G3 as [_ (G3i & G3b & G3r)]. cbn [grow_rest] in G3r. destruct G3r as [Gp Gr].
  assert (Eb2 : below (vardecls b) (C2, prC) = vardecls b) by (unfold below; cbn [fst]; rewrite E2; reflexivity).
  rewrite Eb2 in Gp. rewrite Eb2 in Gr.
  assert (Eb' : below (vardecls b) (C', prC) = vardecls b) by (unfold below; cbn [fst]; rewrite HfC, E2; reflexivity).
  assert (HfidC' : fid C' = anext a) by congruence.
  assert (Epn : pnames prC = headdecls hd ++ lexdecls b) by reflexivity.
  assert (Eenv2 : env_of ((C2, prC) :: (fr, pr) :: rest)
                  = (anext a, false, headdecls hd ++ lexdecls b) :: env_of ((fr, pr) :: rest)).
  { cbn [env_of map fst snd]. rewrite E1. reflexivity. }
  assert (Efun2 : func_of ((C2, prC) :: (fr, pr) :: rest) = func_of ((fr, pr) :: rest)) by (cbn [func_of]; rewrite E2; reflexivity).
  assert (Eenv0 : env_of ((C0, prC) :: (fr, pr) :: rest)
                  = (anext a, false, headdecls hd ++ lexdecls b) :: env_of ((fr, pr) :: rest)) by reflexivity.
  rewrite Eenv2, Efun2, E1, En2, En1 in F3, N3. rewrite Eenv0, El1 in Fp. cbn [fid C0] in Fp. rewrite Fp in F3.
  remember (resolve ((anext a, false, headdecls hd ++ lexdecls b) :: env_of ((fr, pr) :: rest))
                    (func_of ((fr, pr) :: rest)) (anext a) false (S (anext a)) b) as RB eqn:HeqRB.
  assert (Hle : (anext a <= snd RB)%nat).
  { rewrite <- N3. destruct A3 as [_ _ An _]. pose proof (An (C', prC) (or_introl eq_refl)) as H. cbn [fst] in H. lia. }
  destruct (after_scope k (vardecls b) IHk a fr pr rest a3 C' prC P' rest1 (headdecls hd ++ lexdecls b)
              (map (TBind (anext a) false) (headdecls hd) ++ fst RB) (snd RB) A A3 HfidC' Epn Hs3)
    as (a' & fr' & rest' & R & A' & G & P1 & P2 & Pf & F & N).
  { rewrite Eb'. exact Gp. }
  { rewrite Eb'. exact Gr. }
  { intros y Hy. rewrite Epn in Hy. apply in_app_iff in Hy. destruct Hy as [Hy|Hy].
    - apply G3i. unfold dn. cbn [fst]. rewrite E3. exact Hy.
    - apply P1b. exact Hy. }
  { rewrite F3, rev_app_distr, <- app_assoc. reflexivity. }
  { exact N3. }
  { exact Hle. }
  { exact Hnd. } { exact Hlex. }
  { rewrite Eb'. intros y Hy. apply Hvar. apply in_app_iff. left. exact Hy. }
  { intros y Hy. apply Hvar. apply in_app_iff. right. exact Hy. }
  { exact Hokk. }
  exists a', fr', rest'. split.
  { cbn [linearise arun astep]. rewrite H1. rewrite arun_app. rewrite (catch_params_lin hd Hhd), R2.
    rewrite arun_app, R3. exact R. }
  split; [exact A'|]. split.
  { cbn [vardecls]. rewrite Ehv. cbn [app]. rewrite Eb' in G. exact G. }
  split; [exact P1|]. split.
  { cbn [vardecls]. rewrite Ehv. cbn [app]. intros y Hy. apply in_app_iff in Hy. destruct Hy as [Hy|Hy]; [|apply P2; exact Hy].
    apply Pf. specialize (P2b y Hy). cbn [func_dnames] in P2b. rewrite HfC, E2 in P2b. exact P2b. }
  cbn [resolve]. rewrite (resolve_catch_params _ _ _ _ _ Hhd). rewrite <- HeqRB. destruct RB as [rb n1]. cbn [fst snd] in *.
  destruct (resolve (env_of ((fr, pr) :: rest)) (func_of ((fr, pr) :: rest)) (fid fr) false n1 k) as [rk n2].
  cbn [fst snd app] in *. split; [|exact N]. rewrite F. rewrite !rev_app_distr, <- !app_assoc. reflexivity.
Qed.

(* ---- the fragment ---------------------------------------------------------------------------------------------- *)
Theorem run_core p : core p = true -> run_ok p.
Proof.
  induction p; intros Hc; cbn [core] in Hc; try discriminate.
  - (* Done *)
    intros a fr pr rest A _ _ _ _. exists a, fr, rest. split; [reflexivity|]. split; [exact A|].
    split; [apply grow_top_same; reflexivity|]. split; [intros y []|]. split; [intros y []|]. split; reflexivity.
  - apply run_ok_ref. apply IHp. exact Hc.
  - apply andb_true_iff in Hc. destruct Hc as [Hd Hc]. destruct d; try discriminate.
    + apply run_ok_var; [left; reflexivity|apply IHp; exact Hc].
    + apply run_ok_var; [right; reflexivity|apply IHp; exact Hc].
    + apply run_ok_lex. apply IHp. exact Hc.
  - apply andb_true_iff in Hc. destruct Hc as [H1 H2]. apply run_ok_block; [apply IHp1; exact H1|apply IHp2; exact H2].
  - destruct nm; [discriminate|]. apply andb_true_iff in Hc. destruct Hc as [Hc H3]. apply andb_true_iff in Hc. destruct Hc as [H1 H2].
    apply run_ok_func; [exact H1|apply IHp2; exact H2|apply IHp3; exact H3].
  - apply andb_true_iff in Hc. destruct Hc as [Hc H3]. apply andb_true_iff in Hc. destruct Hc as [H1 H2].
    apply run_ok_arrow. apply run_ok_func; [exact H1|apply IHp2; exact H2|apply IHp3; exact H3].
  - apply andb_true_iff in Hc. destruct Hc as [Hc H4]. apply andb_true_iff in Hc. destruct Hc as [Hc H3].
    apply andb_true_iff in Hc. destruct Hc as [H1 H2].
    apply run_ok_catch; [exact H1|exact H2|apply IHp2; exact H3|apply IHp3; exact H4].
Qed.
