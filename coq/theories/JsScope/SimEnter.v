(* JsScope/SimEnter.v — simulation of enterScope and MarkFuncArgs by the label machine. *)
From Coq Require Import ZifyBool.
From Verif Require Import Common.Base Common.Tactics JsScope.Model JsScope.Abs JsScope.HeapLemmas JsScope.SimDefs.

Lemma nodup_bounded_length (l : list nat) n : NoDup l -> (forall v, In v l -> (v < n)%nat) -> (length l <= n)%nat.
Proof.
  intros Hnd Hb. rewrite <- (seq_length n 0). apply NoDup_incl_length; [exact Hnd|].
  intros v Hv. apply in_seq. specialize (Hb v Hv). lia.
Qed.

(* ---- enterScope --------------------------------------------------------------------------------- *)
Section Enter.
  Variables (st : state) (log stk : list nat) (c : nat) (rest : list nat) (home : nat -> nat) (f : bool).
  Hypothesis Hstk : stk = c :: rest.
  Hypothesis I : InvS st log stk home no_extra.
  Hypothesis U : InvU st log.

  Let id := nscopes st.
  Let fn := if f then Some id else sfunc (sc_of st c).
  Let st' := fst (salloc st (mkScope (Some c) fn [] [] 0 0 0)).

  Lemma en_c : (c < nscopes st)%nat.
  Proof. apply (stack_ok_in st stk); [apply I|]. rewrite Hstk. left. reflexivity. Qed.

  Lemma en_sc_old s : (s < nscopes st)%nat -> sc_of st' s = sc_of st s.
  Proof. intros H. apply sc_of_salloc_old. exact H. Qed.

  Lemma en_sc_new : sc_of st' id = mkScope (Some c) fn [] [] 0 0 0.
  Proof. apply sc_of_salloc_new. Qed.

  Lemma en_nscopes : nscopes st' = S (nscopes st).
  Proof. apply nscopes_salloc. Qed.

  Lemma en_old_or_new s : (s < nscopes st')%nat -> (s < nscopes st)%nat \/ s = id.
  Proof. rewrite en_nscopes. unfold id. lia. Qed.

  Lemma en_root_of w : (w < nvars st)%nat -> root_of st' w = root_of st w.
  Proof.
    intros Hw. apply (root_of_same_links st st' home).
    - apply I.
    - apply I.
    - split; [unfold st'; rewrite nvars_salloc; lia|]. intros v _. reflexivity.
    - rewrite en_nscopes. lia.
    - exact Hw.
  Qed.

  Lemma en_fn_eqb : opt_nat_eqb fn id = f.
  Proof.
    unfold fn. destruct f; cbn; [apply Nat.eqb_refl|].
    destruct (sfunc (sc_of st c)) as [g|] eqn:E; cbn; [|reflexivity].
    apply Nat.eqb_neq. pose proof (I_func _ _ _ _ _ I c g en_c E). pose proof en_c. unfold id. lia.
  Qed.

  Lemma InvS_enter : InvS st' log (id :: stk) home no_extra.
  Proof.
    pose proof en_c as Hc. pose proof I as I'. dI I'.
    constructor.
    - rewrite Hstk.
      change (stack_ok st' (id :: c :: rest))
        with ((id < nscopes st')%nat /\ (sparent (sc_of st' id) = Some c /\ (c < id)%nat /\ stack_ok st' (c :: rest))).
      split; [rewrite en_nscopes; unfold id; lia|].
      rewrite en_sc_new. cbn [sparent]. split; [reflexivity|]. split; [unfold id; lia|].
      rewrite <- Hstk. eapply stack_ok_ext; [exact Istack|rewrite en_nscopes; lia|].
      intros s Hs. rewrite en_sc_old; [reflexivity|]. eapply stack_ok_in; eassumption.
    - intros s g Hs. destruct (en_old_or_new s Hs) as [Ho| ->].
      + rewrite en_sc_old by exact Ho. apply Ifunc. exact Ho.
      + rewrite en_sc_new. cbn [sfunc]. unfold fn. destruct f.
        * intros E. inversion E. lia.
        * intros E. pose proof (Ifunc c g Hc E). unfold id. lia.
    - intros s v Hs. destruct (en_old_or_new s Hs) as [Ho| ->].
      + rewrite en_sc_old by exact Ho. apply Ivalid. exact Ho.
      + rewrite en_sc_new. cbn. tauto.
    - exact Ilinks.
    - intros v Hv. rewrite en_nscopes. specialize (Ihomes v Hv). lia.
    - exact Ilog.
    - exact Invars.
    - intros s v Hs. destruct (en_old_or_new s Hs) as [Ho| ->].
      + rewrite en_sc_old by exact Ho. apply Idecl. exact Ho.
      + rewrite en_sc_new. cbn. tauto.
    - intros s Hs. destruct (en_old_or_new s Hs) as [Ho| ->].
      + rewrite en_sc_old by exact Ho. apply Idnodup. exact Ho.
      + rewrite en_sc_new. cbn. constructor.
    - intros r Hr Hroot Hd. rewrite en_sc_old by (apply Ihomes; exact Hr). apply Idcomp; assumption.
    - intros s v [<-|Hs].
      + rewrite en_sc_new. cbn. tauto.
      + rewrite en_sc_old by (eapply stack_ok_in; eassumption). apply Iund. exact Hs.
    - intros s [<-|Hs].
      + rewrite en_sc_new. cbn. constructor.
      + rewrite en_sc_old by (eapply stack_ok_in; eassumption). apply Iunodup. exact Hs.
    - intros s v1 v2 [<-|Hs].
      + rewrite en_sc_new. cbn. tauto.
      + assert (Hsn : (s < nscopes st)%nat) by (eapply stack_ok_in; eassumption).
        rewrite en_sc_old by exact Hsn. intros H1 H2. 
        assert (Ea : forall v, In v (sundeclared (sc_of st s)) -> argp st' home v = argp st home v).
        { intros v Hv. unfold argp. rewrite en_sc_old; [reflexivity|]. apply Ihomes. apply (Ivalid s v Hsn). right. exact Hv. }
        rewrite (Ea v1 H1), (Ea v2 H2). apply (Ipuniq s); assumption.
    - intros r Hr Hroot Hd. destruct (Ipcomp r Hr Hroot Hd) as [[H1 H2]|[]]. left.
      split; [right; exact H1|]. rewrite en_sc_old by (apply Ihomes; exact Hr). exact H2.
    - intros s [<-|Hs].
      + rewrite en_sc_new. cbn. unfold len. cbn. lia.
      + rewrite en_sc_old by (eapply stack_ok_in; eassumption). apply Imarks. exact Hs.
  Qed.

  Lemma InvU_enter : InvU st' log.
  Proof.
    destruct U as [Hu Hc]. constructor.
    - exact Hu.
    - intros r Hr Hroot. change (vuses (vget st r) = Z.of_nat (count_root st' r log)).
      rewrite (Hc r Hr Hroot). f_equal. unfold count_root. f_equal.
      apply filter_ext_in'. intros u Hu'. rewrite en_root_of; [reflexivity|]. apply (I_log _ _ _ _ _ I). exact Hu'.
  Qed.

  Lemma en_args_old v : (v < nvars st)%nat -> und_args (sc_of st' (home v)) = und_args (sc_of st (home v)).
  Proof. intros H. rewrite en_sc_old; [reflexivity|]. apply (I_homes _ _ _ _ _ I). exact H. Qed.

  Lemma en_frame_old s : (s < nscopes st)%nat -> frame_of st' home s = frame_of st home s.
  Proof.
    intros H. unfold frame_of. rewrite en_sc_old by exact H. f_equal. apply map_ext_in. intros v Hv.
    apply uent_of_ext; try reflexivity. apply en_args_old. apply (I_valid _ _ _ _ _ I s v H). right. exact Hv.
  Qed.

  Lemma en_lab w : (w < nvars st)%nat -> lab_of st' home w = lab_of st home w.
  Proof.
    intros H. unfold lab_of. rewrite en_root_of by exact H. apply lab_root_ext; try reflexivity. apply en_args_old.
    destruct (root_of_spec st home w (I_links _ _ _ _ _ I) (I_homes _ _ _ _ _ I) H) as (n & _ & _ & Hr & _). exact Hr.
  Qed.

  Lemma enter_all :
    enter_scope (mkP st (Some c) log) f = Ok (mkP st' (Some id) log) /\
    InvS st' log (id :: stk) home no_extra /\ InvU st' log /\
    a_enter (abs st log stk home) f = ARun (abs st' log (id :: stk) home).
  Proof.
    split.
    { unfold enter_scope. cbn [pcur pst plog]. destruct f; cbn [rbind].
      - reflexivity.
      - rewrite (sget_valid st c en_c). cbn [rbind]. reflexivity. }
    split; [exact InvS_enter|]. split; [exact InvU_enter|].
    unfold a_enter, abs. cbn [astack anext alog map]. rewrite en_nscopes. f_equal. f_equal.
    - f_equal.
      + unfold frame_of. rewrite en_sc_new. cbn [sfunc sdeclared sundeclared narguses map]. rewrite en_fn_eqb. reflexivity.
      + apply map_ext_in. intros s Hs. symmetry. apply en_frame_old. eapply stack_ok_in; [apply I|exact Hs].
    - apply map_ext_in. intros w Hw. symmetry. apply en_lab. apply (I_log _ _ _ _ _ I). exact Hw.
  Qed.
End Enter.

(* ---- MarkFuncArgs, MarkForStmt, the mark after a catch parameter ------------------------------------ *)
Section Mark.
  Variables (st : state) (log stk : list nat) (c : nat) (rest : list nat) (home : nat -> nat).
  Variables (nf nfa : Z).   (* NumForDecls and NumFuncArgs after the mark *)
  Hypothesis Hstk : stk = c :: rest.
  Hypothesis I : InvS st log stk home no_extra.
  Hypothesis U : InvU st log.
  Hypothesis Hlen : len log < 65536.

  Let sc := sc_of st c.
  Hypothesis Hnf : 0 <= nf <= len (sdeclared sc).
  (* the scope has not been marked before: none of its pending uses is frozen *)
  Hypothesis Hfresh : forall v, In v (sundeclared sc) -> vd st v = 0 -> argp st home v = false.

  Let sc' := mkScope (sparent sc) (sfunc sc) (sdeclared sc) (sundeclared sc) nf nfa (u16 (len (sundeclared sc))).
  Let st' := sset st c sc'.

  Lemma mk_c : (c < nscopes st)%nat.
  Proof. apply (stack_ok_in st stk); [apply I|]. rewrite Hstk. left. reflexivity. Qed.

  Lemma mk_cs : In c stk.
  Proof. rewrite Hstk. left. reflexivity. Qed.

  Lemma mk_sc s : sc_of st' s = if Nat.eqb s c then sc' else sc_of st s.
  Proof.
    unfold st'. destruct (Nat.eqb_spec s c) as [->|Hne].
    - apply sc_of_sset_same. apply mk_c.
    - apply sc_of_sset_other. congruence.
  Qed.

  Lemma mk_fields s :
    sparent (sc_of st' s) = sparent (sc_of st s) /\ sfunc (sc_of st' s) = sfunc (sc_of st s) /\
    sdeclared (sc_of st' s) = sdeclared (sc_of st s) /\ sundeclared (sc_of st' s) = sundeclared (sc_of st s).
  Proof. rewrite mk_sc. destruct (Nat.eqb_spec s c) as [->|]; repeat split; reflexivity. Qed.

  Lemma mk_und_small : len (sundeclared sc) < 65536.
  Proof.
    assert (H : (length (sundeclared sc) <= nvars st)%nat).
    { apply nodup_bounded_length.
      - apply (I_und_nodup _ _ _ _ _ I c). apply mk_cs.
      - intros v Hv. apply (I_valid _ _ _ _ _ I c v mk_c). right. exact Hv. }
    pose proof (I_nvars _ _ _ _ _ I). unfold len in *. lia.
  Qed.

  Lemma mk_narg : Z.to_nat (narguses sc') = length (sundeclared sc).
  Proof.
    cbn [narguses sc']. pose proof mk_und_small. pose proof (len_nonneg (sundeclared sc)).
    rewrite u16_small by lia. unfold len. lia.
  Qed.

  Lemma mk_args_c : und_args (sc_of st' c) = sundeclared sc.
  Proof. rewrite mk_sc, Nat.eqb_refl. unfold und_args. rewrite mk_narg. cbn [sundeclared sc']. apply firstn_all. Qed.

  Lemma mk_argp_other v : home v <> c -> argp st' home v = argp st home v.
  Proof.
    intros H. unfold argp. rewrite mk_sc. destruct (Nat.eqb_spec (home v) c); [contradiction|reflexivity].
  Qed.

  Lemma mk_argp_c v : home v = c -> In v (sundeclared sc) -> argp st' home v = true.
  Proof. intros H Hv. apply (in_und_args_argp st' home c v H). rewrite mk_args_c. exact Hv. Qed.

  Lemma InvS_mark : InvS st' log stk home no_extra.
  Proof.
    pose proof I as I'. dI I'.
    assert (Ens : nscopes st' = nscopes st) by apply nscopes_sset.
    constructor.
    - eapply stack_ok_ext; [exact Istack|rewrite Ens; lia|]. intros s _. apply mk_fields.
    - intros s g. rewrite Ens. destruct (mk_fields s) as (_ & -> & _). apply Ifunc.
    - intros s v. rewrite Ens. destruct (mk_fields s) as (_ & _ & -> & ->). apply Ivalid.
    - exact Ilinks.
    - intros v Hv. rewrite Ens. apply Ihomes. exact Hv.
    - exact Ilog.
    - exact Invars.
    - intros s v. rewrite Ens. destruct (mk_fields s) as (_ & _ & -> & _). apply Idecl.
    - intros s. rewrite Ens. destruct (mk_fields s) as (_ & _ & -> & _). apply Idnodup.
    - intros r. destruct (mk_fields (home r)) as (_ & _ & -> & _). apply Idcomp.
    - intros s v. destruct (mk_fields s) as (_ & _ & _ & ->). apply Iund.
    - intros s. destruct (mk_fields s) as (_ & _ & _ & ->). apply Iunodup.
    - intros s v1 v2 Hs. destruct (mk_fields s) as (_ & _ & _ & ->). intros H1 H2 D1 D2 En Ea.
      change (vd st v1 = 0) in D1. change (vd st v2 = 0) in D2.
      destruct (Iund s v1 Hs H1) as (_ & Hh1 & _). destruct (Iund s v2 Hs H2) as (_ & Hh2 & _).
      specialize (Hh1 D1). specialize (Hh2 D2).
      apply (Ipuniq s v1 v2 Hs H1 H2 D1 D2 En).
      destruct (Nat.eq_dec s c) as [->|Hne].
      + rewrite (Hfresh v1 H1 D1), (Hfresh v2 H2 D2). reflexivity.
      + rewrite <- (mk_argp_other v1), <- (mk_argp_other v2) by congruence. exact Ea.
    - intros r. destruct (mk_fields (home r)) as (_ & _ & _ & ->). apply Ipcomp.
    - intros s Hs. destruct (mk_fields s) as (_ & _ & Ed & Eu). rewrite Ed, Eu.
      rewrite mk_sc. destruct (Nat.eqb_spec s c) as [->|]; [|apply Imarks; exact Hs].
      cbn [narguses nfordecls sc']. pose proof mk_und_small. fold sc. pose proof (len_nonneg (sundeclared sc)).
      rewrite u16_small by lia. lia.
  Qed.

  Lemma mk_frame_c :
    frame_of st' home c
    = mkF c (fisfunc (frame_of st home c)) (fdecl (frame_of st home c)) (to_args (fund (frame_of st home c)))
          (length (fund (frame_of st home c))) (Z.to_nat nf).
  Proof.
    unfold frame_of. rewrite mk_sc, Nat.eqb_refl. cbn [fid fisfunc fdecl fund sparent sfunc sdeclared sundeclared nfordecls sc'].
    fold sc. rewrite mk_narg, map_length. f_equal. unfold to_args. rewrite map_map. apply map_ext_in. intros v Hv.
    unfold uent_of. change (vget st' v) with (vget st v).
    destruct (Z.eqb_spec (vdecl (vget st v)) 0) as [E|E]; [|reflexivity].
    destruct (I_und _ _ _ _ _ I c v mk_cs Hv) as (_ & Hh & _). specialize (Hh E).
    rewrite (mk_argp_c v Hh Hv), (Hfresh v Hv E). reflexivity.
  Qed.

  Lemma mk_frame_rest : map (frame_of st' home) rest = map (frame_of st home) rest.
  Proof.
    apply map_ext_in. intros s Hs.
    assert (Hsc : s <> c).
    { pose proof (stack_ok_nodup _ _ (I_stack _ _ _ _ _ I)) as Hnd. rewrite Hstk in Hnd. inversion Hnd; subst. congruence. }
    assert (Hss : In s stk) by (rewrite Hstk; right; exact Hs).
    unfold frame_of. rewrite mk_sc. destruct (Nat.eqb_spec s c) as [|_]; [contradiction|]. f_equal.
    apply map_ext_in. intros v Hv. unfold uent_of. change (vget st' v) with (vget st v).
    destruct (Z.eqb_spec (vdecl (vget st v)) 0) as [E|E]; [|reflexivity].
    destruct (I_und _ _ _ _ _ I s v Hss Hv) as (_ & Hh & _). specialize (Hh E).
    rewrite mk_argp_other by congruence. reflexivity.
  Qed.

  Lemma mk_labels : map (lab_of st' home) log = args_log c (map (lab_of st home) log).
  Proof.
    unfold args_log. rewrite map_map. apply map_ext_in. intros w Hw.
    assert (Hwv : (w < nvars st)%nat) by (apply (I_log _ _ _ _ _ I); exact Hw).
    destruct (root_of_spec st home w (I_links _ _ _ _ _ I) (I_homes _ _ _ _ _ I) Hwv) as (n & Hre & _ & Hr & _).
    assert (Hroot : is_root st (root_of st w)) by (eapply reach_root; exact Hre).
    unfold lab_of. unfold st'. rewrite root_of_sset. fold st'. set (r := root_of st w) in *.
    unfold lab_root. change (vget st' r) with (vget st r).
    destruct (Z.eqb_spec (vdecl (vget st r)) 0) as [E|E]; [|reflexivity].
    destruct (I_pend_complete _ _ _ _ _ I r Hr Hroot E) as [[Hs Hin]|[]].
    destruct (Nat.eq_dec (home r) c) as [Ec|Ec].
    - rewrite Ec in Hin. rewrite (mk_argp_c r Ec Hin), (Hfresh r Hin E). rewrite Ec, Nat.eqb_refl. reflexivity.
    - rewrite (mk_argp_other r Ec). destruct (argp st home r); [reflexivity|].
      destruct (Nat.eqb_spec (home r) c); [contradiction|reflexivity].
  Qed.

  Lemma mark_abs :
    InvS st' log stk home no_extra /\ InvU st' log /\
    abs st' log stk home
    = mkA (mkF c (fisfunc (frame_of st home c)) (fdecl (frame_of st home c)) (to_args (fund (frame_of st home c)))
               (length (fund (frame_of st home c))) (Z.to_nat nf) :: map (frame_of st home) rest)
          (nscopes st) (args_log c (map (lab_of st home) log)).
  Proof.
    split; [exact InvS_mark|]. split; [apply InvU_sset; exact U|].
    unfold abs. rewrite Hstk. cbn [map]. rewrite mk_frame_c, mk_frame_rest, mk_labels. unfold st'. rewrite nscopes_sset. reflexivity.
  Qed.
End Mark.

(* the abstract mark is defined exactly when no pending use of the scope is frozen yet *)
Lemma mark_fresh st log stk c rest home :
  stk = c :: rest -> InvS st log stk home no_extra ->
  existsb is_uarg (fund (frame_of st home c)) = false ->
  forall v, In v (sundeclared (sc_of st c)) -> vd st v = 0 -> argp st home v = false.
Proof.
  intros Hstk I Hex v Hv Hd. destruct (argp st home v) eqn:Ea; [|reflexivity]. exfalso.
  assert (existsb is_uarg (fund (frame_of st home c)) = true); [|congruence].
  apply existsb_exists. exists (uent_of st home v). split; [unfold frame_of; cbn [fund]; apply in_map; exact Hv|].
  unfold uent_of. unfold vd in Hd. rewrite Hd, Z.eqb_refl, Ea. reflexivity.
Qed.

Lemma u16_len_small st log stk home (l : list nat) :
  InvS st log stk home no_extra -> len log < 65536 -> NoDup l -> (forall v, In v l -> (v < nvars st)%nat) -> u16 (len l) = len l.
Proof.
  intros I Hlen Hnd Hv. pose proof (nodup_bounded_length l (nvars st) Hnd Hv). pose proof (I_nvars _ _ _ _ _ I).
  pose proof (len_nonneg l). apply u16_small. unfold len in *. lia.
Qed.

Section MarkSteps.
  Variables (st : state) (log stk : list nat) (c : nat) (rest : list nat) (home : nat -> nat).
  Hypothesis Hstk : stk = c :: rest.
  Hypothesis I : InvS st log stk home no_extra.
  Hypothesis U : InvU st log.
  Hypothesis Hlen : len log < 65536.

  Let sc := sc_of st c.
  Let Hc : (c < nscopes st)%nat := mk_c st log stk c rest home Hstk I.
  Let Hcs : In c stk := mk_cs stk c rest Hstk.

  Lemma ms_decl_small : u16 (len (sdeclared sc)) = len (sdeclared sc).
  Proof.
    apply (u16_len_small st log stk home _ I Hlen).
    - apply (NoDup_map_inv (vn st)). apply (I_decl_nodup _ _ _ _ _ I c Hc).
    - intros v Hv. apply (I_valid _ _ _ _ _ I c v Hc). left. exact Hv.
  Qed.

  Lemma sim_mark_args :
    match a_mark_args (abs st log stk home) with
    | ARun a' => exists st', mark_args st c = Ok st' /\ InvS st' log stk home no_extra /\ InvU st' log /\ a' = abs st' log stk home
    | ARej => False
    | AStuck => True
    end.
  Proof.
    assert (Eabs : abs st log stk home = mkA (frame_of st home c :: map (frame_of st home) rest) (nscopes st) (map (lab_of st home) log))
      by (unfold abs; rewrite Hstk; reflexivity).
    rewrite Eabs. unfold a_mark_args, a_mark. cbn [astack anext alog].
    destruct (existsb is_uarg (fund (frame_of st home c))) eqn:Ex; [exact Logic.I|].
    pose proof (mark_fresh st log stk c rest home Hstk I Ex) as Hfresh.
    destruct (I_marks _ _ _ _ _ I c Hcs) as [Hnf _].
    destruct (mark_abs st log stk c rest home (nfordecls sc) (u16 (len (sdeclared sc))) Hstk I U Hlen Hnf Hfresh) as (H1 & H2 & H3).
    eexists. split; [unfold mark_args; rewrite (sget_valid st c Hc); reflexivity|]. split; [exact H1|]. split; [exact H2|].
    symmetry. exact H3.
  Qed.

  Lemma sim_mark_catch :
    match a_mark_catch (abs st log stk home) with
    | ARun a' => exists st', mark_catch st c = Ok st' /\ InvS st' log stk home no_extra /\ InvU st' log /\ a' = abs st' log stk home
    | ARej => False
    | AStuck => True
    end.
  Proof.
    assert (Eabs : abs st log stk home = mkA (frame_of st home c :: map (frame_of st home) rest) (nscopes st) (map (lab_of st home) log))
      by (unfold abs; rewrite Hstk; reflexivity).
    rewrite Eabs. unfold a_mark_catch, a_mark. cbn [astack anext alog].
    destruct (existsb is_uarg (fund (frame_of st home c))) eqn:Ex; [exact Logic.I|].
    pose proof (mark_fresh st log stk c rest home Hstk I Ex) as Hfresh.
    destruct (I_marks _ _ _ _ _ I c Hcs) as [Hnf _].
    destruct (mark_abs st log stk c rest home (nfordecls sc) (nfuncargs sc) Hstk I U Hlen Hnf Hfresh) as (H1 & H2 & H3).
    eexists. split; [unfold mark_catch; rewrite (sget_valid st c Hc); reflexivity|]. split; [exact H1|]. split; [exact H2|].
    symmetry. exact H3.
  Qed.

  Lemma sim_mark_for :
    match a_mark_for (abs st log stk home) with
    | ARun a' => exists st', mark_for st c = Ok st' /\ InvS st' log stk home no_extra /\ InvU st' log /\ a' = abs st' log stk home
    | ARej => False
    | AStuck => True
    end.
  Proof.
    assert (Eabs : abs st log stk home = mkA (frame_of st home c :: map (frame_of st home) rest) (nscopes st) (map (lab_of st home) log))
      by (unfold abs; rewrite Hstk; reflexivity).
    rewrite Eabs. unfold a_mark_for, a_mark. cbn [astack anext alog].
    destruct (existsb is_uarg (fund (frame_of st home c))) eqn:Ex; [exact Logic.I|].
    pose proof (mark_fresh st log stk c rest home Hstk I Ex) as Hfresh.
    assert (Hnf : 0 <= u16 (len (sdeclared sc)) <= len (sdeclared sc)).
    { rewrite ms_decl_small. pose proof (len_nonneg (sdeclared sc)). lia. }
    destruct (mark_abs st log stk c rest home (u16 (len (sdeclared sc))) (nfuncargs sc) Hstk I U Hlen Hnf Hfresh) as (H1 & H2 & H3).
    eexists. split; [unfold mark_for; rewrite (sget_valid st c Hc); reflexivity|]. split; [exact H1|]. split; [exact H2|].
    symmetry. etransitivity; [exact H3|]. f_equal. f_equal. f_equal. rewrite ms_decl_small. unfold frame_of. cbn [fdecl]. rewrite map_length. unfold len, sc. rewrite Nat2Z.id. reflexivity.
  Qed.
End MarkSteps.
