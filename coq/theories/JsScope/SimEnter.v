(* JsScope/SimEnter.v — simulation of enterScope and MarkFuncArgs by the label machine. *)
From Coq Require Import ZifyBool.
From Verif Require Import Common.Base Common.Tactics JsScope.Model JsScope.Abs JsScope.HeapLemmas JsScope.SimDefs.

Lemma nodup_bounded_length (l : list nat) n : NoDup l -> (forall v, In v l -> (v < n)%nat) -> (length l <= n)%nat.
Proof.
  intros Hnd Hb. rewrite <- (seq_length n 0). apply NoDup_incl_length; [exact Hnd|].
  intros v Hv. apply in_seq. specialize (Hb v Hv). lia.
Qed.

(* ---- enterScope --------------------------------------------------------------------------------- *)
Section Enter.
  Variables (st : state) (log stk : list nat) (c : nat) (rest : list nat) (home : nat -> nat) (f : bool).
  Hypothesis Hstk : stk = c :: rest.
  Hypothesis I : InvS st log stk home no_extra.
  Hypothesis U : InvU st log.

  Let id := nscopes st.
  Let fn := if f then Some id else sfunc (sc_of st c).
  Let st' := fst (salloc st (mkScope (Some c) fn [] [] 0 0 0)).

  Lemma en_c : (c < nscopes st)%nat.
  Proof. apply (stack_ok_in st stk); [apply I|]. rewrite Hstk. left. reflexivity. Qed.

  Lemma en_sc_old s : (s < nscopes st)%nat -> sc_of st' s = sc_of st s.
  Proof. intros H. apply sc_of_salloc_old. exact H. Qed.

  Lemma en_sc_new : sc_of st' id = mkScope (Some c) fn [] [] 0 0 0.
  Proof. apply sc_of_salloc_new. Qed.

  Lemma en_nscopes : nscopes st' = S (nscopes st).
  Proof. apply nscopes_salloc. Qed.

  Lemma en_old_or_new s : (s < nscopes st')%nat -> (s < nscopes st)%nat \/ s = id.
  Proof. rewrite en_nscopes. unfold id. lia. Qed.

  Lemma en_root_of w : (w < nvars st)%nat -> root_of st' w = root_of st w.
  Proof.
    intros Hw. apply (root_of_same_links st st' home).
    - apply I.
    - apply I.
    - split; [unfold st'; rewrite nvars_salloc; lia|]. intros v _. reflexivity.
    - rewrite en_nscopes. lia.
    - exact Hw.
  Qed.

  Lemma en_fn_eqb : opt_nat_eqb fn id = f.
  Proof.
    unfold fn. destruct f; cbn; [apply Nat.eqb_refl|].
    destruct (sfunc (sc_of st c)) as [g|] eqn:E; cbn; [|reflexivity].
    apply Nat.eqb_neq. pose proof (I_func _ _ _ _ _ I c g en_c E). pose proof en_c. unfold id. lia.
  Qed.

  Lemma InvS_enter : InvS st' log (id :: stk) home no_extra.
  Proof.
    pose proof en_c as Hc. pose proof I as I'. dI I'.
    constructor.
    - rewrite Hstk.
      change (stack_ok st' (id :: c :: rest))
        with ((id < nscopes st')%nat /\ (sparent (sc_of st' id) = Some c /\ (c < id)%nat /\ stack_ok st' (c :: rest))).
      split; [rewrite en_nscopes; unfold id; lia|].
      rewrite en_sc_new. cbn [sparent]. split; [reflexivity|]. split; [unfold id; lia|].
      rewrite <- Hstk. eapply stack_ok_ext; [exact Istack|rewrite en_nscopes; lia|].
      intros s Hs. rewrite en_sc_old; [reflexivity|]. eapply stack_ok_in; eassumption.
    - intros s g Hs. destruct (en_old_or_new s Hs) as [Ho| ->].
      + rewrite en_sc_old by exact Ho. apply Ifunc. exact Ho.
      + rewrite en_sc_new. cbn [sfunc]. unfold fn. destruct f.
        * intros E. inversion E. lia.
        * intros E. pose proof (Ifunc c g Hc E). unfold id. lia.
    - intros s v Hs. destruct (en_old_or_new s Hs) as [Ho| ->].
      + rewrite en_sc_old by exact Ho. apply Ivalid. exact Ho.
      + rewrite en_sc_new. cbn. tauto.
    - exact Ilinks.
    - intros v Hv. rewrite en_nscopes. specialize (Ihomes v Hv). lia.
    - exact Ilog.
    - exact Invars.
    - intros s v Hs. destruct (en_old_or_new s Hs) as [Ho| ->].
      + rewrite en_sc_old by exact Ho. apply Idecl. exact Ho.
      + rewrite en_sc_new. cbn. tauto.
    - intros s Hs. destruct (en_old_or_new s Hs) as [Ho| ->].
      + rewrite en_sc_old by exact Ho. apply Idnodup. exact Ho.
      + rewrite en_sc_new. cbn. constructor.
    - intros r Hr Hroot Hd. rewrite en_sc_old by (apply Ihomes; exact Hr). apply Idcomp; assumption.
    - intros s v [<-|Hs].
      + rewrite en_sc_new. cbn. tauto.
      + rewrite en_sc_old by (eapply stack_ok_in; eassumption). apply Iund. exact Hs.
    - intros s [<-|Hs].
      + rewrite en_sc_new. cbn. constructor.
      + rewrite en_sc_old by (eapply stack_ok_in; eassumption). apply Iunodup. exact Hs.
    - intros s v1 v2 [<-|Hs].
      + rewrite en_sc_new. cbn. tauto.
      + rewrite en_sc_old by (eapply stack_ok_in; eassumption). apply Ipuniq. exact Hs.
    - intros r Hr Hroot Hd. destruct (Ipcomp r Hr Hroot Hd) as [[H1 H2]|[]]. left.
      split; [right; exact H1|]. rewrite en_sc_old by (apply Ihomes; exact Hr). exact H2.
    - intros s [<-|Hs].
      + rewrite en_sc_new. cbn. unfold len. cbn. lia.
      + rewrite en_sc_old by (eapply stack_ok_in; eassumption). apply Imarks. exact Hs.
  Qed.

  Lemma InvU_enter : InvU st' log.
  Proof.
    destruct U as [Hu Hc]. constructor.
    - exact Hu.
    - intros r Hr Hroot. change (vuses (vget st r) = Z.of_nat (count_root st' r log)).
      rewrite (Hc r Hr Hroot). f_equal. unfold count_root. f_equal.
      apply filter_ext_in'. intros u Hu'. rewrite en_root_of; [reflexivity|]. apply (I_log _ _ _ _ _ I). exact Hu'.
  Qed.

  Lemma en_frame_old s : (s < nscopes st)%nat -> frame_of st' home s = frame_of st home s.
  Proof. intros H. unfold frame_of. rewrite en_sc_old by exact H. reflexivity. Qed.

  Lemma en_lab w : (w < nvars st)%nat -> lab_of st' home w = lab_of st home w.
  Proof. intros H. unfold lab_of. rewrite en_root_of by exact H. reflexivity. Qed.

  Lemma enter_all :
    enter_scope (mkP st (Some c) log) f = Ok (mkP st' (Some id) log) /\
    InvS st' log (id :: stk) home no_extra /\ InvU st' log /\
    a_enter (abs st log stk home) f = ARun (abs st' log (id :: stk) home).
  Proof.
    split.
    { unfold enter_scope. cbn [pcur pst plog]. destruct f; cbn [rbind].
      - reflexivity.
      - rewrite (sget_valid st c en_c). cbn [rbind]. reflexivity. }
    split; [exact InvS_enter|]. split; [exact InvU_enter|].
    unfold a_enter, abs. cbn [astack anext alog map]. rewrite en_nscopes. f_equal. f_equal.
    - f_equal.
      + unfold frame_of. rewrite en_sc_new. cbn [sfunc sdeclared sundeclared narguses map]. rewrite en_fn_eqb. reflexivity.
      + apply map_ext_in. intros s Hs. symmetry. apply en_frame_old. eapply stack_ok_in; [apply I|exact Hs].
    - apply map_ext_in. intros w Hw. symmetry. apply en_lab. apply (I_log _ _ _ _ _ I). exact Hw.
  Qed.
End Enter.

(* ---- MarkFuncArgs -------------------------------------------------------------------------------- *)
Section MarkArgs.
  Variables (st : state) (log stk : list nat) (c : nat) (rest : list nat) (home : nat -> nat).
  Hypothesis Hstk : stk = c :: rest.
  Hypothesis I : InvS st log stk home no_extra.
  Hypothesis U : InvU st log.
  Hypothesis Hlen : len log < 65536.

  Let sc := sc_of st c.
  Let sc' := mkScope (sparent sc) (sfunc sc) (sdeclared sc) (sundeclared sc)
                     (nfordecls sc) (u16 (len (sdeclared sc))) (u16 (len (sundeclared sc))).
  Let st' := sset st c sc'.

  Lemma ma_c : (c < nscopes st)%nat.
  Proof. apply (stack_ok_in st stk); [apply I|]. rewrite Hstk. left. reflexivity. Qed.

  Lemma ma_sc s : sc_of st' s = if Nat.eqb s c then sc' else sc_of st s.
  Proof.
    unfold st'. destruct (Nat.eqb_spec s c) as [->|Hne].
    - apply sc_of_sset_same. apply ma_c.
    - apply sc_of_sset_other. congruence.
  Qed.

  Lemma ma_fields s :
    sparent (sc_of st' s) = sparent (sc_of st s) /\ sfunc (sc_of st' s) = sfunc (sc_of st s) /\
    sdeclared (sc_of st' s) = sdeclared (sc_of st s) /\ sundeclared (sc_of st' s) = sundeclared (sc_of st s) /\
    nfordecls (sc_of st' s) = nfordecls (sc_of st s).
  Proof. rewrite ma_sc. destruct (Nat.eqb_spec s c) as [->|]; repeat split; reflexivity. Qed.

  Lemma ma_und_small : len (sundeclared sc) < 65536.
  Proof.
    assert (H : (length (sundeclared sc) <= nvars st)%nat).
    { apply nodup_bounded_length.
      - apply (I_und_nodup _ _ _ _ _ I c). rewrite Hstk. left. reflexivity.
      - intros v Hv. apply (I_valid _ _ _ _ _ I c v ma_c). right. exact Hv. }
    pose proof (I_nvars _ _ _ _ _ I). unfold len in *. lia.
  Qed.

  Lemma InvS_mark_args : InvS st' log stk home no_extra.
  Proof.
    pose proof I as I'. dI I'.
    assert (Ens : nscopes st' = nscopes st) by apply nscopes_sset.
    constructor.
    - eapply stack_ok_ext; [exact Istack|rewrite Ens; lia|]. intros s _. apply ma_fields.
    - intros s g. rewrite Ens. destruct (ma_fields s) as (_ & -> & _). apply Ifunc.
    - intros s v. rewrite Ens. destruct (ma_fields s) as (_ & _ & -> & -> & _). apply Ivalid.
    - exact Ilinks.
    - intros v Hv. rewrite Ens. apply Ihomes. exact Hv.
    - exact Ilog.
    - exact Invars.
    - intros s v. rewrite Ens. destruct (ma_fields s) as (_ & _ & -> & _). apply Idecl.
    - intros s. rewrite Ens. destruct (ma_fields s) as (_ & _ & -> & _). apply Idnodup.
    - intros r. destruct (ma_fields (home r)) as (_ & _ & -> & _). apply Idcomp.
    - intros s v. destruct (ma_fields s) as (_ & _ & _ & -> & _). apply Iund.
    - intros s. destruct (ma_fields s) as (_ & _ & _ & -> & _). apply Iunodup.
    - intros s v1 v2. destruct (ma_fields s) as (_ & _ & _ & -> & _). apply Ipuniq.
    - intros r. destruct (ma_fields (home r)) as (_ & _ & _ & -> & _). apply Ipcomp.
    - intros s Hs. destruct (ma_fields s) as (_ & _ & Ed & Eu & Ef). rewrite Ed, Eu, Ef. split; [apply Imarks; exact Hs|].
      rewrite ma_sc. destruct (Nat.eqb_spec s c) as [->|]; [|apply Imarks; exact Hs].
      cbn [narguses sc']. pose proof ma_und_small. fold sc. pose proof (len_nonneg (sundeclared sc)).
      rewrite u16_small by lia. lia.
  Qed.

  Lemma mark_args_all :
    mark_args st c = Ok st' /\ InvS st' log stk home no_extra /\ InvU st' log /\
    a_mark_args (abs st log stk home) = ARun (abs st' log stk home).
  Proof.
    split; [unfold mark_args; rewrite (sget_valid st c ma_c); reflexivity|].
    split; [exact InvS_mark_args|]. split; [apply InvU_sset; exact U|].
    assert (E1 : frame_of st' home c
                 = mkF (fid (frame_of st home c)) (fisfunc (frame_of st home c)) (fdecl (frame_of st home c))
                       (fund (frame_of st home c)) (length (fund (frame_of st home c))) (fnfor (frame_of st home c))).
    { unfold frame_of. rewrite ma_sc, Nat.eqb_refl. cbn [fid fisfunc fdecl fund fnfor sparent sfunc sdeclared sundeclared narguses nfordecls sc'].
      fold sc. f_equal. rewrite map_length. pose proof ma_und_small. pose proof (len_nonneg (sundeclared sc)).
      rewrite u16_small by lia. unfold len. lia. }
    assert (E2 : map (frame_of st' home) rest = map (frame_of st home) rest).
    { apply map_ext_in. intros s Hs. unfold frame_of. rewrite ma_sc.
      destruct (Nat.eqb_spec s c) as [->|]; [|reflexivity].
      pose proof (stack_ok_nodup _ _ (I_stack _ _ _ _ _ I)) as Hnd. rewrite Hstk in Hnd. inversion Hnd; contradiction. }
    assert (E3 : map (lab_of st' home) log = map (lab_of st home) log).
    { apply map_ext. intros w. apply lab_of_sset. }
    unfold a_mark_args, abs. cbn [astack]. rewrite Hstk. cbn [map anext alog].
    rewrite E1, E2, E3. unfold st'. rewrite nscopes_sset. reflexivity.
  Qed.
End MarkArgs.

(* ---- MarkForStmt -------------------------------------------------------------------------------- *)
Section MarkFor.
  Variables (st : state) (log stk : list nat) (c : nat) (rest : list nat) (home : nat -> nat).
  Hypothesis Hstk : stk = c :: rest.
  Hypothesis I : InvS st log stk home no_extra.
  Hypothesis U : InvU st log.
  Hypothesis Hlen : len log < 65536.

  Let sc := sc_of st c.
  Let sc' := mkScope (sparent sc) (sfunc sc) (sdeclared sc) (sundeclared sc)
                     (u16 (len (sdeclared sc))) (nfuncargs sc) (u16 (len (sundeclared sc))).
  Let st' := sset st c sc'.

  Lemma mf_c : (c < nscopes st)%nat.
  Proof. apply (stack_ok_in st stk); [apply I|]. rewrite Hstk. left. reflexivity. Qed.

  Lemma mf_sc s : sc_of st' s = if Nat.eqb s c then sc' else sc_of st s.
  Proof.
    unfold st'. destruct (Nat.eqb_spec s c) as [->|Hne].
    - apply sc_of_sset_same. apply mf_c.
    - apply sc_of_sset_other. congruence.
  Qed.

  Lemma mf_fields s :
    sparent (sc_of st' s) = sparent (sc_of st s) /\ sfunc (sc_of st' s) = sfunc (sc_of st s) /\
    sdeclared (sc_of st' s) = sdeclared (sc_of st s) /\ sundeclared (sc_of st' s) = sundeclared (sc_of st s).
  Proof. rewrite mf_sc. destruct (Nat.eqb_spec s c) as [->|]; repeat split; reflexivity. Qed.

  Lemma mf_decl_small : len (sdeclared sc) < 65536.
  Proof.
    assert (H : (length (sdeclared sc) <= nvars st)%nat).
    { apply nodup_bounded_length.
      - apply (NoDup_map_inv (vn st)). apply (I_decl_nodup _ _ _ _ _ I c mf_c).
      - intros v Hv. apply (I_valid _ _ _ _ _ I c v mf_c). left. exact Hv. }
    pose proof (I_nvars _ _ _ _ _ I). unfold len in *. lia.
  Qed.

  Lemma mf_und_small : len (sundeclared sc) < 65536.
  Proof.
    assert (H : (length (sundeclared sc) <= nvars st)%nat).
    { apply nodup_bounded_length.
      - apply (I_und_nodup _ _ _ _ _ I c). rewrite Hstk. left. reflexivity.
      - intros v Hv. apply (I_valid _ _ _ _ _ I c v mf_c). right. exact Hv. }
    pose proof (I_nvars _ _ _ _ _ I). unfold len in *. lia.
  Qed.

  Lemma InvS_mark_for : InvS st' log stk home no_extra.
  Proof.
    pose proof I as I'. dI I'.
    assert (Ens : nscopes st' = nscopes st) by apply nscopes_sset.
    constructor.
    - eapply stack_ok_ext; [exact Istack|rewrite Ens; lia|]. intros s _. apply mf_fields.
    - intros s g. rewrite Ens. destruct (mf_fields s) as (_ & -> & _). apply Ifunc.
    - intros s v. rewrite Ens. destruct (mf_fields s) as (_ & _ & -> & ->). apply Ivalid.
    - exact Ilinks.
    - intros v Hv. rewrite Ens. apply Ihomes. exact Hv.
    - exact Ilog.
    - exact Invars.
    - intros s v. rewrite Ens. destruct (mf_fields s) as (_ & _ & -> & _). apply Idecl.
    - intros s. rewrite Ens. destruct (mf_fields s) as (_ & _ & -> & _). apply Idnodup.
    - intros r. destruct (mf_fields (home r)) as (_ & _ & -> & _). apply Idcomp.
    - intros s v. destruct (mf_fields s) as (_ & _ & _ & ->). apply Iund.
    - intros s. destruct (mf_fields s) as (_ & _ & _ & ->). apply Iunodup.
    - intros s v1 v2. destruct (mf_fields s) as (_ & _ & _ & ->). apply Ipuniq.
    - intros r. destruct (mf_fields (home r)) as (_ & _ & _ & ->). apply Ipcomp.
    - intros s Hs. destruct (mf_fields s) as (_ & _ & Ed & Eu). rewrite Ed, Eu.
      rewrite mf_sc. destruct (Nat.eqb_spec s c) as [->|]; [|apply Imarks; exact Hs].
      cbn [narguses nfordecls sc']. pose proof mf_und_small. pose proof mf_decl_small. fold sc.
      pose proof (len_nonneg (sundeclared sc)). pose proof (len_nonneg (sdeclared sc)).
      rewrite !u16_small by lia. lia.
  Qed.

  Lemma mark_for_all :
    mark_for st c = Ok st' /\ InvS st' log stk home no_extra /\ InvU st' log /\
    a_mark_for (abs st log stk home) = ARun (abs st' log stk home).
  Proof.
    split; [unfold mark_for; rewrite (sget_valid st c mf_c); reflexivity|].
    split; [exact InvS_mark_for|]. split; [apply InvU_sset; exact U|].
    assert (E1 : frame_of st' home c
                 = mkF (fid (frame_of st home c)) (fisfunc (frame_of st home c)) (fdecl (frame_of st home c))
                       (fund (frame_of st home c)) (length (fund (frame_of st home c))) (length (fdecl (frame_of st home c)))).
    { unfold frame_of. rewrite mf_sc, Nat.eqb_refl. cbn [fid fisfunc fdecl fund fnfor sparent sfunc sdeclared sundeclared narguses nfordecls sc'].
      fold sc. rewrite !map_length. pose proof mf_und_small. pose proof (len_nonneg (sundeclared sc)).
      pose proof mf_decl_small. pose proof (len_nonneg (sdeclared sc)).
      rewrite !u16_small by lia. unfold len. rewrite !Nat2Z.id. reflexivity. }
    assert (E2 : map (frame_of st' home) rest = map (frame_of st home) rest).
    { apply map_ext_in. intros s Hs. unfold frame_of. rewrite mf_sc.
      destruct (Nat.eqb_spec s c) as [->|]; [|reflexivity].
      pose proof (stack_ok_nodup _ _ (I_stack _ _ _ _ _ I)) as Hnd. rewrite Hstk in Hnd. inversion Hnd; contradiction. }
    assert (E3 : map (lab_of st' home) log = map (lab_of st home) log).
    { apply map_ext. intros w. apply lab_of_sset. }
    unfold a_mark_for, abs. cbn [astack]. rewrite Hstk. cbn [map anext alog].
    rewrite E1, E2, E3. unfold st'. rewrite nscopes_sset. reflexivity.
  Qed.
End MarkFor.
