(* JsScope/Bridge.v — the declarative resolver and the resolver with merged auxiliary scopes (Spec.resolve_m)
   agree up to [erase]; where no name is bound in an auxiliary scope and in its main scope, they induce the
   same partition of the occurrences. *)
From Verif Require Import Common.Base JsScope.Model JsScope.Spec.

Lemma mem_app' x a b : mem x (a ++ b) = mem x a || mem x b.
Proof. unfold mem. apply existsb_app. Qed.

Definition lookup_eq (E E' : env) : Prop := forall x, erase (lookup E x) = lookup E' x.

Lemma lookup_eq_push E E' s a L : lookup_eq E E' -> lookup_eq ((s, a, L) :: E) ((s, false, L) :: E').
Proof. intros H x. cbn [lookup]. destruct (mem x L); [reflexivity|apply H]. Qed.

(* a main scope on top of its auxiliary scope is one scope with the names of both *)
Lemma lookup_eq_push2 E E' s L1 L2 L :
  (forall x, mem x L = mem x L1 || mem x L2) -> lookup_eq E E' ->
  lookup_eq ((s, false, L1) :: (s, true, L2) :: E) ((s, false, L) :: E').
Proof.
  intros HL H x. cbn [lookup]. rewrite HL. destruct (mem x L1); [reflexivity|]. destruct (mem x L2); [reflexivity|apply H].
Qed.

Ltac bridge IH E1 E1' H1 :=
  let Q1 := fresh "Q" in let Q2 := fresh "Q" in
  match goal with
  | |- context [resolve E1 ?fs ?cur ?ca ?n ?q] =>
      match goal with
      | |- context [resolve_m E1' fs cur ?ca' n q] =>
          destruct (IH E1 E1' fs cur ca ca' n H1) as [Q1 Q2];
          destruct (resolve E1 fs cur ca n q) as [? ?]; destruct (resolve_m E1' fs cur ca' n q) as [? ?];
          cbn [fst snd] in Q1, Q2; subst
      end
  end.

Lemma erase_resolve p : forall E E' fs cur ca ca' n, lookup_eq E E' ->
  map erase (fst (resolve E fs cur ca n p)) = fst (resolve_m E' fs cur ca' n p) /\
  snd (resolve E fs cur ca n p) = snd (resolve_m E' fs cur ca' n p).
Proof.
  induction p; intros E E' fs cur ca ca' n H; cbn [resolve resolve_m].
  - split; reflexivity.
  - bridge IHp E E' H. cbn [fst snd map]. rewrite H. split; reflexivity.
  - bridge IHp E E' H. cbn [fst snd map]. rewrite H. split; reflexivity.
  - bridge IHp E E' H. cbn [fst snd map]. destruct (is_var d); split; reflexivity.
  - bridge IHp1 ((n, false, lexdecls p1) :: E) ((n, false, lexdecls p1) :: E') (lookup_eq_push E E' n false (lexdecls p1) H).
    bridge IHp2 E E' H. cbn [fst snd]. rewrite map_app. split; reflexivity.
  - destruct nm as [g|].
    + assert (H1 : lookup_eq ((n, false, headdecls p1) :: (n, true, [g]) :: E) ((n, false, headdecls p1 ++ [g]) :: E')).
      { apply lookup_eq_push2; [intros x; apply mem_app'|exact H]. }
      assert (H2 : lookup_eq ((n, false, headdecls p1 ++ vardecls p2 ++ lexdecls p2) :: (n, true, [g]) :: E)
                             ((n, false, headdecls p1 ++ vardecls p2 ++ lexdecls p2 ++ [g]) :: E')).
      { apply lookup_eq_push2; [|exact H]. intros x. rewrite !mem_app'. rewrite !orb_assoc. reflexivity. }
      bridge IHp1 ((n, false, headdecls p1) :: (n, true, [g]) :: E) ((n, false, headdecls p1 ++ [g]) :: E') H1.
      bridge IHp2 ((n, false, headdecls p1 ++ vardecls p2 ++ lexdecls p2) :: (n, true, [g]) :: E)
                  ((n, false, headdecls p1 ++ vardecls p2 ++ lexdecls p2 ++ [g]) :: E') H2.
      bridge IHp3 E E' H. cbn [fst snd app map erase]. rewrite !map_app. split; reflexivity.
    + bridge IHp1 ((n, false, headdecls p1) :: E) ((n, false, headdecls p1) :: E') (lookup_eq_push E E' n false (headdecls p1) H).
      bridge IHp2 ((n, false, headdecls p1 ++ vardecls p2 ++ lexdecls p2) :: E) ((n, false, headdecls p1 ++ vardecls p2 ++ lexdecls p2) :: E')
             (lookup_eq_push E E' n false (headdecls p1 ++ vardecls p2 ++ lexdecls p2) H).
      bridge IHp3 E E' H. cbn [fst snd app]. rewrite !map_app. split; reflexivity.
  - bridge IHp1 ((n, false, headdecls p1) :: E) ((n, false, headdecls p1) :: E') (lookup_eq_push E E' n false (headdecls p1) H).
    bridge IHp2 ((n, false, headdecls p1 ++ vardecls p2 ++ lexdecls p2) :: E) ((n, false, headdecls p1 ++ vardecls p2 ++ lexdecls p2) :: E')
           (lookup_eq_push E E' n false (headdecls p1 ++ vardecls p2 ++ lexdecls p2) H).
    bridge IHp3 E E' H. cbn [fst snd]. rewrite !map_app. split; reflexivity.
  - bridge IHp1 ((n, false, [x] ++ vardecls p1 ++ lexdecls p1) :: E) ((n, false, [x] ++ vardecls p1 ++ lexdecls p1) :: E')
           (lookup_eq_push E E' n false ([x] ++ vardecls p1 ++ lexdecls p1) H).
    bridge IHp2 E E' H. cbn [fst snd map erase]. rewrite !map_app. split; reflexivity.
  - bridge IHp1 E E' H. bridge IHp2 E E' H. cbn [fst snd]. rewrite !map_app. split; reflexivity.
  - assert (H1 : lookup_eq ((n, true, lexdecls p1) :: E) ((n, false, lexdecls p1) :: E')) by (apply lookup_eq_push; exact H).
    assert (H2 : lookup_eq ((n, false, lexdecls p2) :: (n, true, lexdecls p1) :: E) ((n, false, lexdecls p1 ++ lexdecls p2) :: E')).
    { apply lookup_eq_push2; [|exact H]. intros x. rewrite mem_app'. apply orb_comm. }
    bridge IHp1 ((n, true, lexdecls p1) :: E) ((n, false, lexdecls p1) :: E') H1.
    bridge IHp2 ((n, false, lexdecls p2) :: (n, true, lexdecls p1) :: E) ((n, false, lexdecls p1 ++ lexdecls p2) :: E') H2.
    bridge IHp3 E E' H. cbn [fst snd]. rewrite !map_app. split; reflexivity.
  - bridge IHp1 ((n, false, headdecls p1) :: E) ((n, false, headdecls p1) :: E') (lookup_eq_push E E' n false (headdecls p1) H).
    bridge IHp2 ((n, false, headdecls p1 ++ lexdecls p2) :: E) ((n, false, headdecls p1 ++ lexdecls p2) :: E')
           (lookup_eq_push E E' n false (headdecls p1 ++ lexdecls p2) H).
    bridge IHp3 E E' H. cbn [fst snd]. rewrite !map_app. split; reflexivity.
  - destruct nm as [c|].
    + bridge IHp1 ((n, true, [c]) :: E) ((n, false, [c]) :: E') (lookup_eq_push E E' n true [c] H).
      bridge IHp2 E E' H. cbn [fst snd app map erase]. rewrite !map_app. split; reflexivity.
    + bridge IHp1 E E' H. bridge IHp2 E E' H. cbn [fst snd app]. rewrite !map_app. split; reflexivity.
Qed.

Theorem spec_resolve_erase p : map erase (spec_resolve p) = spec_resolve_m p.
Proof.
  unfold spec_resolve, spec_resolve_m. apply erase_resolve. intros x. cbn [lookup].
  destruct (mem x (vardecls p ++ lexdecls p)); reflexivity.
Qed.

(* ---- partitions ---------------------------------------------------------------------------------------- *)
Lemma target_eqb_true a b : target_eqb a b = true <-> a = b.
Proof.
  destruct a as [x|s a x], b as [y|t b y]; cbn; split; intros H; try discriminate.
  - apply Z.eqb_eq in H. subst. reflexivity.
  - inversion H. apply Z.eqb_refl.
  - apply andb_true_iff in H. destruct H as [H H3]. apply andb_true_iff in H. destruct H as [H1 H2].
    apply Nat.eqb_eq in H1. apply Bool.eqb_prop in H2. apply Z.eqb_eq in H3. subst. reflexivity.
  - inversion H; subst. rewrite Nat.eqb_refl, Bool.eqb_reflx, Z.eqb_refl. reflexivity.
Qed.

(* where auxiliary and main scopes share no name, erase is injective on the targets *)
Lemma erase_inj ts t1 t2 : aux_distinct ts = true -> In t1 ts -> In t2 ts -> erase t1 = erase t2 -> t1 = t2.
Proof.
  intros Ha H1 H2 E. unfold aux_distinct in Ha. rewrite forallb_forall in Ha.
  destruct t1 as [x|s a x], t2 as [y|t b y]; cbn in E; try discriminate; [exact E|].
  injection E as -> ->. destruct a, b; try reflexivity.
  - specialize (Ha _ H1). cbn in Ha. apply negb_true_iff in Ha.
    assert (existsb (target_eqb (TBind t false y)) ts = true); [|congruence].
    apply existsb_exists. exists (TBind t false y). split; [exact H2|apply target_eqb_true; reflexivity].
  - specialize (Ha _ H2). cbn in Ha. apply negb_true_iff in Ha.
    assert (existsb (target_eqb (TBind t false y)) ts = true); [|congruence].
    apply existsb_exists. exists (TBind t false y). split; [exact H1|apply target_eqb_true; reflexivity].
Qed.
