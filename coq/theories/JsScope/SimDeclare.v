(* JsScope/SimDeclare.v — simulation of Scope.Declare by the label machine. *)
From Coq Require Import ZifyBool.
From Verif Require Import Common.Base Common.Tactics JsScope.Model JsScope.Abs JsScope.HeapLemmas
  JsScope.SimDefs JsScope.SimUse.

(* ---- remove_at ----------------------------------------------------------------------------------- *)
Lemma remove_at_in {A} (l : list A) k x : In x (remove_at l k) -> In x l.
Proof.
  revert k. induction l as [|h t IH]; intros k H; [destruct k; exact H|].
  destruct k as [|k]; cbn in H; [right; exact H|]. destruct H as [->|H]; [left; reflexivity|right; eapply IH; exact H].
Qed.

Lemma remove_at_nodup {A} (l : list A) k : NoDup l -> NoDup (remove_at l k).
Proof.
  revert k. induction l as [|h t IH]; intros k H; [destruct k; exact H|].
  inversion H; subst. destruct k as [|k]; cbn; [assumption|]. constructor; [|apply IH; assumption].
  intros Hin. apply remove_at_in in Hin. contradiction.
Qed.

Lemma in_remove_at {A} (l : list A) k x : nth_error l k <> Some x -> In x l -> In x (remove_at l k).
Proof.
  revert k. induction l as [|h t IH]; intros k Hn Hin; [destruct Hin|].
  destruct k as [|k]; cbn in *.
  - destruct Hin as [->|Hin]; [exfalso; apply Hn; reflexivity|exact Hin].
  - destruct Hin as [->|Hin]; [left; reflexivity|right; apply IH; assumption].
Qed.

Lemma remove_at_not_in {A} (l : list A) k x : NoDup l -> nth_error l k = Some x -> ~ In x (remove_at l k).
Proof.
  revert k. induction l as [|h t IH]; intros k Hnd Hn; [destruct k; discriminate|].
  inversion Hnd; subst. destruct k as [|k]; cbn in *.
  - inversion Hn; subst. assumption.
  - intros [->|Hin]; [apply H1; eapply nth_error_In; exact Hn|eapply IH; eassumption].
Qed.

Lemma map_remove_at {A B} (f : A -> B) (l : list A) k : map f (remove_at l k) = remove_at (map f l) k.
Proof.
  revert k. induction l as [|h t IH]; intros k; [destruct k; reflexivity|].
  destruct k as [|k]; cbn; [reflexivity|]. rewrite IH. reflexivity.
Qed.

Lemma length_remove_at {A} (l : list A) k : (k < length l)%nat -> S (length (remove_at l k)) = length l.
Proof.
  revert k. induction l as [|h t IH]; intros k H; [cbn in H; lia|].
  destruct k as [|k]; cbn in *; [reflexivity|]. rewrite IH by lia. reflexivity.
Qed.

Lemma list_set_set {A} (l : list A) i a b : list_set (list_set l i a) i b = list_set l i b.
Proof. revert i. induction l as [|h t IH]; intros [|i]; cbn; try reflexivity. rewrite IH. reflexivity. Qed.

Lemma sset_sset st s a b : sset (sset st s a) s b = sset st s b.
Proof. unfold sset. cbn. rewrite list_set_set. reflexivity. Qed.

Lemma vset_vset st v a b : vset (vset st v a) v b = vset st v b.
Proof. unfold vset. cbn. rewrite list_set_set. reflexivity. Qed.

Lemma vset_sset_comm st v a s b : vset (sset st s b) v a = sset (vset st v a) s b.
Proof. reflexivity. Qed.

(* ---- AddUndeclared of a declared variable in one open block ------------------------------------------ *)
Section AddPass.
  Variables (st : state) (log stk : list nat) (home : nat -> nat) (s v : nat).
  Hypothesis I : InvS st log stk home no_extra.
  Hypothesis U : InvU st log.
  Hypothesis Hs : In s stk.
  Hypothesis Hv : (v < nvars st)%nat.
  Hypothesis Hroot : is_root st v.
  Hypothesis Hd : vd st v <> 0.
  Hypothesis Hnot : ~ In v (sundeclared (sc_of st s)).
  Hypothesis Hhome : (home v <= s)%nat.

  Let sc := sc_of st s.
  Let st' := sset st s (set_undeclared sc (sundeclared sc ++ [v])).

  Lemma ap_s : (s < nscopes st)%nat.
  Proof. eapply stack_ok_in; [apply I|exact Hs]. Qed.

  Lemma ap_sc q : sc_of st' q = if Nat.eqb q s then set_undeclared sc (sundeclared sc ++ [v]) else sc_of st q.
  Proof.
    unfold st'. destruct (Nat.eqb_spec q s) as [->|Hne].
    - apply sc_of_sset_same. apply ap_s.
    - apply sc_of_sset_other. congruence.
  Qed.

  Lemma ap_fields q :
    sparent (sc_of st' q) = sparent (sc_of st q) /\ sfunc (sc_of st' q) = sfunc (sc_of st q) /\
    sdeclared (sc_of st' q) = sdeclared (sc_of st q) /\ nfordecls (sc_of st' q) = nfordecls (sc_of st q) /\
    narguses (sc_of st' q) = narguses (sc_of st q) /\
    sundeclared (sc_of st' q) = if Nat.eqb q s then sundeclared sc ++ [v] else sundeclared (sc_of st q).
  Proof. rewrite ap_sc. destruct (Nat.eqb_spec q s) as [->|]; repeat split; reflexivity. Qed.

  Lemma ap_args q : und_args (sc_of st' q) = und_args (sc_of st q).
  Proof.
    rewrite ap_sc. destruct (Nat.eqb_spec q s) as [->|]; [|reflexivity].
    unfold und_args at 1. cbn [narguses sundeclared set_undeclared]. apply und_args_app. apply (I_marks _ _ _ _ _ I s Hs).
  Qed.

  Lemma ap_argp w : argp st' home w = argp st home w.
  Proof. apply argp_ext; [reflexivity|apply ap_args]. Qed.

  Lemma ap_uent w : uent_of st' home w = uent_of st home w.
  Proof. apply uent_of_ext; try reflexivity. apply ap_args. Qed.

  Lemma InvS_add_pass : InvS st' log stk home no_extra.
  Proof.
    pose proof I as I'. dI I'.
    assert (Ens : nscopes st' = nscopes st) by apply nscopes_sset.
    constructor.
    - eapply stack_ok_ext; [exact Istack|rewrite Ens; lia|]. intros q _. apply ap_fields.
    - intros q g. rewrite Ens. destruct (ap_fields q) as (_ & -> & _). apply Ifunc.
    - intros q w. rewrite Ens. destruct (ap_fields q) as (_ & _ & -> & _ & _ & ->). intros Hq [H|H].
      + apply (Ivalid q w Hq). left. exact H.
      + destruct (Nat.eqb_spec q s) as [->|].
        * apply in_app_last in H. destruct H as [H| ->]; [apply (Ivalid s w Hq); right; exact H|exact Hv].
        * apply (Ivalid q w Hq). right. exact H.
    - exact Ilinks.
    - intros w Hw. rewrite Ens. apply Ihomes. exact Hw.
    - exact Ilog.
    - exact Invars.
    - intros q w. rewrite Ens. destruct (ap_fields q) as (_ & _ & -> & _). apply Idecl.
    - intros q. rewrite Ens. destruct (ap_fields q) as (_ & _ & -> & _). apply Idnodup.
    - intros r. destruct (ap_fields (home r)) as (_ & _ & -> & _). apply Idcomp.
    - intros q w Hq. destruct (ap_fields q) as (_ & _ & _ & _ & _ & ->).
      destruct (Nat.eqb_spec q s) as [->|]; [|apply Iund; exact Hq].
      intros H. apply in_app_last in H. destruct H as [H| ->]; [apply Iund; assumption|].
      split; [exact Hroot|]. split; [intros E; contradiction|exact Hhome].
    - intros q Hq. destruct (ap_fields q) as (_ & _ & _ & _ & _ & ->).
      destruct (Nat.eqb_spec q s) as [->|]; [|apply Iunodup; exact Hq].
      apply nodup_app_last; [apply Iunodup; exact Hq|exact Hnot].
    - intros q v1 v2 Hq. destruct (ap_fields q) as (_ & _ & _ & _ & _ & ->).
      rewrite !ap_argp.
      destruct (Nat.eqb_spec q s) as [->|]; [|apply Ipuniq; exact Hq].
      intros H1 H2 D1 D2. apply in_app_last in H1. apply in_app_last in H2.
      destruct H1 as [H1| ->]; [|contradiction]. destruct H2 as [H2| ->]; [|contradiction].
      apply (Ipuniq s); assumption.
    - intros r Hr Rr Dr. destruct (Ipcomp r Hr Rr Dr) as [[H1 H2]|[]]. left. split; [exact H1|].
      destruct (ap_fields (home r)) as (_ & _ & _ & _ & _ & ->).
      destruct (Nat.eqb_spec (home r) s) as [E|]; [|exact H2]. apply in_app_last. left. rewrite E in H2. exact H2.
    - intros q Hq. destruct (ap_fields q) as (_ & _ & -> & -> & -> & ->). destruct (Imarks q Hq) as [H1 H2].
      split; [exact H1|]. destruct (Nat.eqb_spec q s) as [->|]; [|exact H2]. rewrite len_app_last. unfold sc. lia.
  Qed.

  Lemma ap_frame_s :
    frame_of st' home s = set_fund (frame_of st home s) (fund (frame_of st home s) ++ [uent_of st home v]).
  Proof.
    unfold frame_of, set_fund. cbn [fid fisfunc fdecl fund fnarg fnfor]. rewrite ap_sc, Nat.eqb_refl.
    cbn [sfunc sdeclared sundeclared narguses nfordecls set_undeclared]. fold sc. rewrite map_app. cbn [map].
    rewrite ap_uent. f_equal. f_equal. apply map_ext. intros w. apply ap_uent.
  Qed.

  Lemma ap_frame_other q : q <> s -> frame_of st' home q = frame_of st home q.
  Proof.
    intros Hne. unfold frame_of. rewrite ap_sc. destruct (Nat.eqb_spec q s) as [|_]; [contradiction|]. f_equal.
    apply map_ext. intros w. apply ap_uent.
  Qed.

  Lemma add_pass_all :
    InvS st' log stk home no_extra /\ InvU st' log /\ nscopes st' = nscopes st /\
    frame_of st' home s = set_fund (frame_of st home s) (fund (frame_of st home s) ++ [uent_of st home v]) /\
    (forall q, q <> s -> frame_of st' home q = frame_of st home q) /\
    (forall w, lab_of st' home w = lab_of st home w) /\
    (forall w, vget st' w = vget st w) /\ nvars st' = nvars st.
  Proof.
    split; [exact InvS_add_pass|]. split; [apply InvU_sset; exact U|]. split; [apply nscopes_sset|].
    split; [exact ap_frame_s|]. split; [exact ap_frame_other|]. split; [intros w; apply lab_of_sset; exact ap_args|].
    split; reflexivity.
  Qed.
End AddPass.

(* membership of the declared variable in an undeclared list, through the abstraction *)
Lemma pass_member st log stk home s v x t :
  InvS st log stk home no_extra -> In s stk ->
  (v < nvars st)%nat -> is_root st v -> vd st v <> 0 -> home v = t -> vn st v = x ->
  existsb (uent_eqb (UPass x t)) (map (uent_of st home) (sundeclared (sc_of st s)))
  = existsb (Nat.eqb v) (sundeclared (sc_of st s)).
Proof.
  intros I Hs Hv Hr Hd Hh Hn.
  assert (Hsn : (s < nscopes st)%nat) by (eapply stack_ok_in; [apply I|exact Hs]).
  destruct (existsb (Nat.eqb v) (sundeclared (sc_of st s))) eqn:E.
  - apply existsb_nat_in in E. apply existsb_exists. exists (uent_of st home v). split; [apply in_map; exact E|].
    unfold uent_of. unfold vd in Hd. replace (vdecl (vget st v) =? 0) with false by (symmetry; apply Z.eqb_neq; exact Hd).
    unfold vn in Hn. rewrite Hn, Hh. cbn. rewrite Z.eqb_refl, Nat.eqb_refl. reflexivity.
  - apply not_true_iff_false. intros H. apply existsb_exists in H. destruct H as (e & He & Heq).
    apply in_map_iff in He. destruct He as (w & <- & Hw).
    assert (Hwv : (w < nvars st)%nat) by (apply (I_valid _ _ _ _ _ I s w Hsn); right; exact Hw).
    destruct (I_und _ _ _ _ _ I s w Hs Hw) as [Rw _].
    unfold uent_of in Heq. destruct (Z.eqb_spec (vdecl (vget st w)) 0) as [E0|E0]; [destruct (argp st home w); cbn in Heq; discriminate|]. cbn in Heq.
    apply andb_true_iff in Heq. destruct Heq as [H1 H2]. apply Z.eqb_eq in H1. apply Nat.eqb_eq in H2.
    assert (w = v).
    { apply (decl_label_inj st log stk home no_extra w v I Hwv Hv Rw Hr).
      - unfold vd. exact E0.
      - exact Hd.
      - rewrite Hh. symmetry. exact H2.
      - unfold vn in *. rewrite Hn. symmetry. exact H1. }
    subst w. apply not_true_iff_false in E. apply E. apply existsb_nat_in. exact Hw.
Qed.

(* the loop of Declare that passes the variable through the blocks between the current scope
   and the scope of the declaration *)
Lemma chain_sim log stk home v x t spost :
  forall spre st fuel,
    InvS st log stk home no_extra -> InvU st log ->
    stack_ok st (spre ++ t :: spost) -> (forall s, In s spre -> In s stk) -> NoDup (spre ++ [t]) ->
    (v < nvars st)%nat -> is_root st v -> vd st v <> 0 -> home v = t -> vn st v = x ->
    (length spre < fuel)%nat ->
    exists st',
      add_undeclared_chain fuel st (hd_error (spre ++ [t])) t v = Ok st' /\
      InvS st' log stk home no_extra /\ InvU st' log /\ nscopes st' = nscopes st /\
      map (frame_of st' home) spre = map (add_pass x t) (map (frame_of st home) spre) /\
      (forall q, ~ In q spre -> frame_of st' home q = frame_of st home q) /\
      (forall w, lab_of st' home w = lab_of st home w) /\
      (forall w, vget st' w = vget st w) /\ nvars st' = nvars st.
Proof.
  induction spre as [|s spre IH]; intros st fuel I U Hstack Hin Hnd Hv Hr Hd Hh Hn Hfuel.
  - destruct fuel as [|f]; [cbn in Hfuel; lia|]. cbn. rewrite Nat.eqb_refl. exists st.
    split; [reflexivity|]. split; [exact I|]. split; [exact U|]. split; [reflexivity|]. split; [reflexivity|].
    split; [reflexivity|]. split; [reflexivity|]. split; reflexivity.
  - destruct fuel as [|f]; [cbn in Hfuel; lia|]. cbn [app hd_error add_undeclared_chain opt_nat_eqb].
    assert (Hst : s <> t).
    { cbn in Hnd. inversion Hnd as [|? ? Hni _]; subst. intros ->. apply Hni. apply in_app_iff. right. left. reflexivity. }
    replace (Nat.eqb s t) with false by (symmetry; apply Nat.eqb_neq; exact Hst).
    assert (Hs : In s stk) by (apply Hin; left; reflexivity).
    assert (Hsn : (s < nscopes st)%nat) by (eapply stack_ok_in; [apply I|exact Hs]).
    unfold add_undeclared. rewrite (sget_valid st s Hsn). cbn [rbind].
    assert (Hpar : sparent (sc_of st s) = hd_error (spre ++ [t])).
    { cbn in Hstack. destruct Hstack as [_ Hst']. destruct spre as [|q spre']; cbn in *; destruct Hst' as (E & _); exact E. }
    assert (Hstack' : forall st2, nscopes st2 = nscopes st ->
                      (forall q, sparent (sc_of st2 q) = sparent (sc_of st q)) -> stack_ok st2 (spre ++ t :: spost)).
    { intros st2 En Ep. assert (Hso : stack_ok st (spre ++ t :: spost)).
      { cbn in Hstack. destruct Hstack as [_ Hst']. destruct spre as [|q spre']; cbn in *; destruct Hst' as (_ & _ & E); exact E. }
      eapply stack_ok_ext; [exact Hso|lia|]. intros q _. apply Ep. }
    assert (Hnd' : NoDup (spre ++ [t])) by (cbn in Hnd; inversion Hnd; assumption).
    assert (Hsnot : ~ In s spre).
    { cbn in Hnd. inversion Hnd as [|? ? Hni _]; subst. intros H. apply Hni. apply in_app_iff. left. exact H. }
    destruct (existsb (Nat.eqb v) (sundeclared (sc_of st s))) eqn:Emem.
    + (* already there *)
      cbn [rbind]. rewrite (sget_valid st s Hsn). cbn [rbind]. rewrite Hpar.
      assert (A1 : stack_ok st (spre ++ t :: spost)) by (apply Hstack'; reflexivity).
      assert (A2 : forall q, In q spre -> In q stk) by (intros q Hq; apply Hin; right; exact Hq).
      assert (A6 : (length spre < f)%nat) by (cbn in Hfuel; lia).
      destruct (IH st f I U A1 A2 Hnd' Hv Hr Hd Hh Hn A6) as (st' & Hrun & I' & U' & En & Hfr & Hoth & Hlab & Hvg & Hnv).
      exists st'. split; [exact Hrun|]. split; [exact I'|]. split; [exact U'|]. split; [exact En|].
      split.
      * cbn [map]. f_equal; [|exact Hfr]. rewrite (Hoth s Hsnot). unfold add_pass.
        replace (fund (frame_of st home s)) with (map (uent_of st home) (sundeclared (sc_of st s))) by reflexivity.
        rewrite (pass_member st log stk home s v x t I Hs Hv Hr Hd Hh Hn), Emem. reflexivity.
      * split; [|split; [exact Hlab|split; assumption]]. intros q Hq. apply Hoth. intros H. apply Hq. right. exact H.
    + (* appended *)
      assert (Hnotin : ~ In v (sundeclared (sc_of st s))).
      { intros H. apply existsb_nat_in in H. congruence. }
      assert (Hts : (home v <= s)%nat).
      { rewrite Hh. assert (t < s)%nat; [|lia]. apply (stack_ok_head_lt st s (spre ++ t :: spost) t Hstack).
        apply in_app_iff. right. left. reflexivity. }
      destruct (add_pass_all st log stk home s v I U Hs Hv Hr Hd Hnotin Hts)
        as (I1 & U1 & En1 & Hfs & Hfo & Hl1 & Hvg1 & Hnv1).
      set (st1 := sset st s (set_undeclared (sc_of st s) (sundeclared (sc_of st s) ++ [v]))) in *.
      cbn [rbind]. assert (Hsn1 : (s < nscopes st1)%nat) by (rewrite En1; exact Hsn).
      rewrite (sget_valid st1 s Hsn1). cbn [rbind].
      assert (Hpar1 : sparent (sc_of st1 s) = hd_error (spre ++ [t])).
      { unfold st1. rewrite sc_of_sset_same by exact Hsn. cbn [sparent set_undeclared]. exact Hpar. }
      rewrite Hpar1.
      assert (Hroot1 : is_root st1 v) by (unfold is_root; rewrite Hvg1; exact Hr).
      assert (A1 : stack_ok st1 (spre ++ t :: spost)).
      { apply Hstack'; [exact En1|]. intros q. unfold st1.
        destruct (Nat.eq_dec q s) as [->|Hne]; [rewrite sc_of_sset_same by exact Hsn; reflexivity|rewrite sc_of_sset_other by congruence; reflexivity]. }
      assert (A2 : forall q, In q spre -> In q stk) by (intros q Hq; apply Hin; right; exact Hq).
      assert (A3 : (v < nvars st1)%nat) by (rewrite Hnv1; exact Hv).
      assert (A4 : vd st1 v <> 0) by (unfold vd; rewrite Hvg1; exact Hd).
      assert (A5 : vn st1 v = x) by (unfold vn; rewrite Hvg1; exact Hn).
      assert (A6 : (length spre < f)%nat) by (cbn in Hfuel; lia).
      destruct (IH st1 f I1 U1 A1 A2 Hnd' A3 Hroot1 A4 Hh A5 A6) as (st' & Hrun & I' & U' & En & Hfr & Hoth & Hlab & Hvg & Hnv).
      exists st'. split; [exact Hrun|]. split; [exact I'|]. split; [exact U'|]. split; [lia|].
      split.
      * cbn [map]. f_equal.
        -- rewrite (Hoth s Hsnot), Hfs. unfold add_pass.
           replace (fund (frame_of st home s)) with (map (uent_of st home) (sundeclared (sc_of st s))) by reflexivity.
           rewrite (pass_member st log stk home s v x t I Hs Hv Hr Hd Hh Hn), Emem.
           f_equal. f_equal. unfold uent_of. unfold vd in Hd.
           replace (vdecl (vget st v) =? 0) with false by (symmetry; apply Z.eqb_neq; exact Hd).
           unfold vn in Hn. rewrite Hn, Hh. reflexivity.
        -- rewrite Hfr. f_equal. apply map_ext_in. intros q Hq. apply Hfo. intros ->. contradiction.
      * split.
        -- intros q Hq. rewrite Hoth by (intros H; apply Hq; right; exact H). apply Hfo. intros ->. apply Hq. left. reflexivity.
        -- split; [intros w; rewrite Hlab; apply Hl1|]. split; [intros w; rewrite Hvg; apply Hvg1|lia].
Qed.
