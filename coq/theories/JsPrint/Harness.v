(* JsPrint/Harness.v — correspondence drivers for the printer models (C05). *)
From Verif Require Import Common.Base Common.Codec Gen.PrattTable JsExpr.Syntax JsExpr.Pratt JsExpr.Harness JsPrint.Print.

From Verif Require JsPrint.LexBack.

(* every expression of the program passes the separation check of LexBack.v (the hypothesis c06_separated of
   print_lex_parse_partial): the implementation side answers 1, so a tree that fails the check shows up as a mismatch *)
Fixpoint stmt_separated (s : stmt) : bool :=
  match s with
  | SExpr e => JsPrint.LexBack.c06_separated e
  | SEmpty => true
  | SLabel _ v => stmt_separated v
  end.

(* case: mode(=0) opts ntok tokens...  ->  0 |bytes| bytes sep  (the JS() text of the parsed program and the flag
   "all expressions are c06_separated"), or the error code *)
Definition run_jsprint (l : list Z) : list Z :=
  let n := hdz (tlz (tlz l)) in
  let ts := decode_toks (Z.to_nat n) (tlz (tlz (tlz l))) in
  match parse_program ts with
  | Ok stmts => 0 :: enc_bytes (print_program stmts) ++ [if forallb stmt_separated stmts then 1 else 0]
  | Fail => [1]
  | OutFrag => [3]
  | NoFuel => [4]
  end.

(* ---- the indenter / literal model --------------------------------------------------------------------------------- *)
From Verif Require Import JsPrint.Indent.

(* trees, prefix-encoded:
   expr: 1 |d| d   2 |n| n   3 nparts (|v| v expr)* |tail| tail   4 op x y   5 f nargs args   6 x   7 nbody stmts
   stmt: 10 e   11 n stmts   12 c t hasElse [e]   13 |d| d   14 |n| n hasInit [e]   15 hasE [e]   16 *)
Fixpoint dec_expr (fuel : nat) (l : list Z) {struct fuel} : jexpr * list Z :=
  match fuel with
  | O => (JLit [], [])
  | S f =>
    match l with
    | [] => (JLit [], [])
    | tag :: r =>
      if tag =? 1 then let '(d, r') := take_list r in (JLit d, r')
      else if tag =? 2 then let '(d, r') := take_list r in (JVar d, r')
      else if tag =? 3 then
        let '(parts, r2) := dec_parts f (Z.to_nat (hdz r)) (tlz r) in
        let '(tl, r3) := take_list r2 in (JTpl parts tl, r3)
      else if tag =? 4 then
        let '(x, r1) := dec_expr f (tlz r) in let '(y, r2) := dec_expr f r1 in (JBin (hdz r) x y, r2)
      else if tag =? 5 then
        let '(g, r1) := dec_expr f r in
        let '(args, r2) := dec_exprs f (Z.to_nat (hdz r1)) (tlz r1) in (JCall g args, r2)
      else if tag =? 6 then let '(x, r1) := dec_expr f r in (JGroup x, r1)
      else
        let '(body, r1) := dec_stmts f (Z.to_nat (hdz r)) (tlz r) in (JFunc body, r1)
    end
  end
with dec_parts (fuel : nat) (n : nat) (l : list Z) {struct fuel} : list (list Z * jexpr) * list Z :=
  match fuel with
  | O => ([], [])
  | S f =>
    match n with
    | O => ([], l)
    | S m =>
        let '(v, r1) := take_list l in
        let '(e, r2) := dec_expr f r1 in
        let '(ps, r3) := dec_parts f m r2 in ((v, e) :: ps, r3)
    end
  end
with dec_exprs (fuel : nat) (n : nat) (l : list Z) {struct fuel} : list jexpr * list Z :=
  match fuel with
  | O => ([], [])
  | S f =>
    match n with
    | O => ([], l)
    | S m => let '(e, r1) := dec_expr f l in let '(es, r2) := dec_exprs f m r1 in (e :: es, r2)
    end
  end
with dec_stmt (fuel : nat) (l : list Z) {struct fuel} : jstmt * list Z :=
  match fuel with
  | O => (JEmpty, [])
  | S f =>
    match l with
    | [] => (JEmpty, [])
    | tag :: r =>
      if tag =? 10 then let '(e, r1) := dec_expr f r in (JExprS e, r1)
      else if tag =? 11 then let '(ss, r1) := dec_stmts f (Z.to_nat (hdz r)) (tlz r) in (JBlock ss, r1)
      else if tag =? 12 then
        let '(c, r1) := dec_expr f r in
        let '(t, r2) := dec_stmt f r1 in
        if hdz r2 =? 0 then (JIf c t None, tlz r2)
        else let '(e, r3) := dec_stmt f (tlz r2) in (JIf c t (Some e), r3)
      else if tag =? 13 then let '(d, r1) := take_list r in (JComment d, r1)
      else if tag =? 14 then
        let '(n, r1) := take_list r in
        if hdz r1 =? 0 then (JVarS n None, tlz r1)
        else let '(e, r2) := dec_expr f (tlz r1) in (JVarS n (Some e), r2)
      else if tag =? 15 then
        if hdz r =? 0 then (JReturn None, tlz r)
        else let '(e, r1) := dec_expr f (tlz r) in (JReturn (Some e), r1)
      else (JEmpty, r)
    end
  end
with dec_stmts (fuel : nat) (n : nat) (l : list Z) {struct fuel} : list jstmt * list Z :=
  match fuel with
  | O => ([], [])
  | S f =>
    match n with
    | O => ([], l)
    | S m => let '(s, r1) := dec_stmt f l in let '(ss, r2) := dec_stmts f m r1 in (s :: ss, r2)
    end
  end.

(* case: mode width ...
   mode 0: nstmts stmts        -> AST.JS on a plain writer
   mode 1: stmt                -> the statement printed through NewIndenter(w, width)
   mode 2: |b| b               -> Indenter(width).Write(b)
   mode 3: width2 |b| b        -> NewIndenter(NewIndenter(w, width), width2).Write(b) *)
Definition run_jsindent (l : list Z) : list Z :=
  let mode := hdz l in
  let n := hdz (tlz l) in
  let r := tlz (tlz l) in
  let fuel := S (length l) in
  if mode =? 0 then js_ast (fst (dec_stmts fuel (Z.to_nat (hdz r)) (tlz r)))
  else if mode =? 1 then jsS (Some n) (fst (dec_stmt fuel r))
  else if mode =? 2 then wr (Some n) (fst (take_list r))
  else wr (new_indenter (Some n) (hdz r)) (fst (take_list (tlz r))).
