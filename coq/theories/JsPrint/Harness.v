(* JsPrint/Harness.v — correspondence drivers for the printer models (C05). *)
From Verif Require Import Common.Base Common.Codec Gen.PrattTable JsExpr.Syntax JsExpr.Pratt JsExpr.Harness JsPrint.Print.

(* case: mode(=0) opts ntok tokens...  ->  0 |bytes| bytes  (the JS() text of the parsed program), or the error code *)
Definition run_jsprint (l : list Z) : list Z :=
  let n := hdz (tlz (tlz l)) in
  let ts := decode_toks (Z.to_nat n) (tlz (tlz (tlz l))) in
  match parse_program ts with
  | Ok stmts => 0 :: enc_bytes (print_program stmts)
  | Fail => [1]
  | OutFrag => [3]
  | NoFuel => [4]
  end.
