(* JsPrint/IndentProofs.v — literals and preserved comments reach the underlying writer byte for byte, whatever the
   width of the indenter and however deeply the node is nested in blocks (model: JsPrint/Indent.v). *)
From Coq Require Import ZifyBool.
From Verif Require Import Common.Base Gen.PrattTable JsExpr.Syntax JsPrint.Print JsPrint.Indent.

(* the byte strings that must not be touched, in the order in which they are written: literal data, the chunks of
   template literals, comments *)
Fixpoint litsE (e : jexpr) : list (list Z) :=
  match e with
  | JLit d => [d]
  | JVar _ => []
  | JTpl parts tail => concat (map (fun p => fst p :: litsE (snd p)) parts) ++ [tail]
  | JBin _ x y => litsE x ++ litsE y
  | JCall f args => litsE f ++ concat (map litsE args)
  | JGroup x => litsE x
  | JFunc body => concat (map litsS body)
  end
with litsS (s : jstmt) : list (list Z) :=
  match s with
  | JExprS e => litsE e
  | JBlock l => concat (map litsS l)
  | JIf c t e => litsE c ++ litsS t ++ match e with Some e' => litsS e' | None => [] end
  | JComment d => [d]
  | JVarS _ init => match init with Some e => litsE e | None => [] end
  | JReturn e => match e with Some e' => litsE e' | None => [] end
  | JEmpty => []
  end.

(* out contains the strings ds, in order, each as a contiguous unchanged piece *)
Fixpoint interleaved (ds : list (list Z)) (out : list Z) : Prop :=
  match ds with
  | [] => True
  | d :: r => exists pre post, out = pre ++ d ++ post /\ interleaved r post
  end.

Lemma il_pre ds c o : interleaved ds o -> interleaved ds (c ++ o).
Proof.
  destruct ds as [|d r]; [trivial|]. intros [pre [post [E H]]]. exists (c ++ pre), post. subst o.
  rewrite <- app_assoc. auto.
Qed.

Lemma il_post ds : forall o c, interleaved ds o -> interleaved ds (o ++ c).
Proof.
  induction ds as [|d r IH]; intros o c H; [trivial|]. destruct H as [pre [post [E H]]].
  exists pre, (post ++ c). subst o. rewrite <- !app_assoc. split; [reflexivity|]. apply IH. exact H.
Qed.

Lemma il_app a : forall b o1 o2, interleaved a o1 -> interleaved b o2 -> interleaved (a ++ b) (o1 ++ o2).
Proof.
  induction a as [|d r IH]; intros b o1 o2 H1 H2; cbn [app].
  - apply il_pre. exact H2.
  - destruct H1 as [pre [post [E H1]]]. exists pre, (post ++ o2). subst o1. rewrite <- !app_assoc.
    split; [reflexivity|]. apply IH; assumption.
Qed.

Lemma il_one d : interleaved [d] d.
Proof. exists [], []. cbn [app interleaved]. rewrite app_nil_r. split; [reflexivity|exact I]. Qed.

Lemma il_nil o : interleaved [] o.
Proof. exact I. Qed.

Definition opt_all {A} (P : A -> Prop) (o : option A) : Prop := match o with Some x => P x | None => True end.
Definition opt_all_intro {A} (P : A -> Prop) (f : forall a, P a) (o : option A) : opt_all P o :=
  match o with Some x => f x | None => I end.

(* mutual induction with the nested lists *)
Section jind.
  Variable P : jexpr -> Prop.
  Variable Q : jstmt -> Prop.
  Hypothesis Hlit : forall d, P (JLit d).
  Hypothesis Hvar : forall n, P (JVar n).
  Hypothesis Htpl : forall parts tail, Forall (fun p => P (snd p)) parts -> P (JTpl parts tail).
  Hypothesis Hbin : forall op x y, P x -> P y -> P (JBin op x y).
  Hypothesis Hcall : forall f args, P f -> Forall P args -> P (JCall f args).
  Hypothesis Hgroup : forall x, P x -> P (JGroup x).
  Hypothesis Hfunc : forall body, Forall Q body -> P (JFunc body).
  Hypothesis Hexpr : forall e, P e -> Q (JExprS e).
  Hypothesis Hblock : forall l, Forall Q l -> Q (JBlock l).
  Hypothesis Hif : forall c t e, P c -> Q t -> opt_all Q e -> Q (JIf c t e).
  Hypothesis Hcomment : forall d, Q (JComment d).
  Hypothesis Hvars : forall n init, opt_all P init -> Q (JVarS n init).
  Hypothesis Hret : forall e, opt_all P e -> Q (JReturn e).
  Hypothesis Hempty : Q JEmpty.

  Fixpoint jexpr_ind' (e : jexpr) : P e :=
    match e with
    | JLit d => Hlit d
    | JVar n => Hvar n
    | JTpl parts tail =>
        Htpl parts tail
          ((fix go (l : list (list Z * jexpr)) : Forall (fun p => P (snd p)) l :=
              match l with [] => Forall_nil _ | p :: r => Forall_cons p (jexpr_ind' (snd p)) (go r) end) parts)
    | JBin op x y => Hbin op x y (jexpr_ind' x) (jexpr_ind' y)
    | JCall f args =>
        Hcall f args (jexpr_ind' f)
          ((fix go (l : list jexpr) : Forall P l :=
              match l with [] => Forall_nil _ | a :: r => Forall_cons a (jexpr_ind' a) (go r) end) args)
    | JGroup x => Hgroup x (jexpr_ind' x)
    | JFunc body =>
        Hfunc body
          ((fix go (l : list jstmt) : Forall Q l :=
              match l with [] => Forall_nil _ | a :: r => Forall_cons a (jstmt_ind' a) (go r) end) body)
    end
  with jstmt_ind' (s : jstmt) : Q s :=
    match s with
    | JExprS e => Hexpr e (jexpr_ind' e)
    | JBlock l =>
        Hblock l
          ((fix go (l : list jstmt) : Forall Q l :=
              match l with [] => Forall_nil _ | a :: r => Forall_cons a (jstmt_ind' a) (go r) end) l)
    | JIf c t e =>
        Hif c t e (jexpr_ind' c) (jstmt_ind' t) (opt_all_intro Q jstmt_ind' e)
    | JComment d => Hcomment d
    | JVarS n init =>
        Hvars n init (opt_all_intro P jexpr_ind' init)
    | JReturn e =>
        Hret e (opt_all_intro P jexpr_ind' e)
    | JEmpty => Hempty
    end.
End jind.

Lemma il_block w (f : jstmt -> list Z) l :
  Forall (fun s => interleaved (litsS s) (f s)) l ->
  interleaved (concat (map litsS l)) (block_js w f l).
Proof.
  intros H. unfold block_js. destruct l as [|s0 l0]; [exact I|].
  apply il_pre. apply il_post. remember (s0 :: l0) as l eqn:El. clear El s0 l0.
  induction H as [|s r Hs Hr IH]; cbn [map concat block_items]; [exact I|].
  apply il_pre. apply il_app; [exact Hs|]. apply il_pre. exact IH.
Qed.

Lemma il_join sep (f : jexpr -> list Z) l :
  Forall (fun e => interleaved (litsE e) (f e)) l ->
  interleaved (concat (map litsE l)) (join_with sep (map f l)).
Proof.
  induction 1 as [|e r He Hr IH]; [exact I|].
  cbn [map concat]. destruct r as [|e2 r2].
  - cbn [map concat join_with]. rewrite app_nil_r. exact He.
  - change (join_with sep (f e :: map f (e2 :: r2))) with (f e ++ sep ++ join_with sep (map f (e2 :: r2))).
    apply il_app; [exact He|]. apply il_pre. exact IH.
Qed.

Theorem literals_verbatim :
  (forall e w, interleaved (litsE e) (jsE w e)) /\ (forall s w, interleaved (litsS s) (jsS w s)).
Proof.
  split.
  - apply (jexpr_ind' (fun e => forall w, interleaved (litsE e) (jsE w e)) (fun s => forall w, interleaved (litsS s) (jsS w s)));
      intros; cbn [litsE litsS jsE jsS].
    + apply il_one.
    + exact I.
    + (* template *)
      apply il_app; [|apply il_one].
      induction H as [|p r Hp Hr IH]; cbn [map concat]; [exact I|].
      apply il_app; [|exact IH]. change (fst p :: litsE (snd p)) with ([fst p] ++ litsE (snd p)).
      apply il_app; [apply il_one|apply Hp].
    + apply il_app; [apply H|]. apply il_pre. apply il_pre. apply il_pre. apply H0.
    + apply il_app; [apply H|]. apply il_pre. apply il_post. apply il_join.
      eapply Forall_impl; [|exact H0]. intros a Ha. apply Ha.
    + apply il_pre. apply il_post. apply H.
    + do 4 apply il_pre. apply il_block. eapply Forall_impl; [|exact H]. intros a Ha. apply Ha.
    + apply il_post. destruct (has_let_prefix (jsE w e)); [apply il_pre; apply il_post|]; apply H.
    + apply il_block. eapply Forall_impl; [|exact H]. intros a Ha. apply Ha.
    + apply il_pre. apply il_app; [apply H|]. apply il_pre. apply il_pre. apply il_app; [apply H0|]. apply il_pre.
      destruct e as [e'|]; [|exact I]. apply il_pre. apply il_pre. apply il_post. apply H1.
    + apply il_one.
    + do 3 apply il_pre. destruct init as [e|]; [|exact I]. apply il_pre. apply H.
    + apply il_pre. apply il_post. destruct e as [e'|]; [|exact I]. apply il_pre. apply H.
    + exact I.
  - apply (jstmt_ind' (fun e => forall w, interleaved (litsE e) (jsE w e)) (fun s => forall w, interleaved (litsS s) (jsS w s)));
      intros; cbn [litsE litsS jsE jsS].
    + apply il_one.
    + exact I.
    + apply il_app; [|apply il_one].
      induction H as [|p r Hp Hr IH]; cbn [map concat]; [exact I|].
      apply il_app; [|exact IH]. change (fst p :: litsE (snd p)) with ([fst p] ++ litsE (snd p)).
      apply il_app; [apply il_one|apply Hp].
    + apply il_app; [apply H|]. apply il_pre. apply il_pre. apply il_pre. apply H0.
    + apply il_app; [apply H|]. apply il_pre. apply il_post. apply il_join.
      eapply Forall_impl; [|exact H0]. intros a Ha. apply Ha.
    + apply il_pre. apply il_post. apply H.
    + do 4 apply il_pre. apply il_block. eapply Forall_impl; [|exact H]. intros a Ha. apply Ha.
    + apply il_post. destruct (has_let_prefix (jsE w e)); [apply il_pre; apply il_post|]; apply H.
    + apply il_block. eapply Forall_impl; [|exact H]. intros a Ha. apply Ha.
    + apply il_pre. apply il_app; [apply H|]. apply il_pre. apply il_pre. apply il_app; [apply H0|]. apply il_pre.
      destruct e as [e'|]; [|exact I]. apply il_pre. apply il_pre. apply il_post. apply H1.
    + apply il_one.
    + do 3 apply il_pre. destruct init as [e|]; [|exact I]. apply il_pre. apply H.
    + apply il_pre. apply il_post. destruct e as [e'|]; [|exact I]. apply il_pre. apply H.
    + exact I.
Qed.
