(* JsPrint/Names.v — property names that are reserved words (`a.if`).  The printer model writes every name after '.' as an
   IdentifierToken; the lexer returns the keyword type for a reserved word, and the parser accepts every identifier-name
   type there.  [pitems_g nt] is the printer's item list with the name tokens typed by nt; with nt = [name_ty] (the lexer's
   keyword table) it is what the lexer returns.  Same bytes, same separation check, and still a spelling of the
   re-parsed tree; so the round trip holds with the lexer's own token types. *)
From Coq Require Import ZifyBool.
From Verif Require Import Common.Base Common.Tactics Common.Lx Gen.Tables JsLex.Model JsLex.Proofs JsLex.SeqNext.
From Verif Require Import Gen.PrattTable JsExpr.Syntax JsExpr.Pratt JsExpr.Spec JsExpr.TableFacts JsExpr.Sound JsExpr.Complete
  JsPrint.Print JsPrint.Proofs JsPrint.Glue JsPrint.LexBack JsPrint.Separated.

(* the type the lexer gives to a word: a keyword of its table, or IdentifierToken *)
Definition name_ty (nm : list Z) : Z :=
  match lookup_kw js_keywords nm with Some k => k | None => tt_IdentifierToken end.

Section Names.
Variable nt : list Z -> Z.

Fixpoint pitems_g (e : expr) : list pitem :=
  match e with
  | EVar n => [PTok tt_IdentifierToken n false]
  | ELit t d => [PTok t d false]
  | EGroup x => ptok tt_OpenParenToken :: pitems_g x ++ [ptok tt_CloseParenToken]
  | EIndex x y => pitems_g x ++ ptok tt_OpenBracketToken :: pitems_g y ++ [ptok tt_CloseBracketToken]
  | EDot x nm =>
      (if dot_needs_group x
       then PTok tt_OpenParenToken (tok_bytes tt_OpenParenToken) true :: pitems_g x ++ [PTok tt_CloseParenToken (tok_bytes tt_CloseParenToken) true]
       else pitems_g x)
      ++ [ptok tt_DotToken; PTok (nt nm) nm false]
  | ECall x args =>
      pitems_g x ++ ptok tt_OpenParenToken :: sep_items [ptok tt_CommaToken; PSp] (map pitems_g args) ++ [ptok tt_CloseParenToken]
  | EUnary op x =>
      if is_postfix op then pitems_g x ++ [PTok (unary_tok op) (tok_bytes op) false]
      else if unary_needs_space op x then PTok (unary_tok op) (tok_bytes op) false :: PSp :: pitems_g x
      else PTok (unary_tok op) (tok_bytes op) false :: pitems_g x
  | EBinary op x y => pitems_g x ++ PSp :: ptok op :: PSp :: pitems_g y
  | ECond c x y => pitems_g c ++ PSp :: ptok tt_QuestionToken :: PSp :: pitems_g x ++ PSp :: ptok tt_ColonToken :: PSp :: pitems_g y
  | EComma l => sep_items [ptok tt_CommaToken] (map pitems_g l)
  end.

(* every name type is one the parser takes after '.', of the lexer's identifier class *)
Hypothesis Hnt : forall nm, is_identifier_name (nt nm) = true /\ nt nm <> tt_PrivateIdentifierToken /\ class_of (nt nm) = Some KIdent.

Lemma Hnt1 nm : is_identifier_name (ty (mkTok (nt nm) false nm)) = true.
Proof. apply Hnt. Qed.

Lemma respell_g :
  (forall inf ts t (s : spells inf ts t), spells inf (ptoks (pitems_g t)) (ng t)) /\
  (forall ats args (s : spells_args ats args),
     spells_args (ptoks (sep_items [ptok tt_CommaToken; PSp] (map pitems_g args)) ++ [rp_tok]) (map ng args)).
Proof.
  pose proof prec_order as PO.
  apply (spells_both_ind
           (fun inf _ t _ => spells inf (ptoks (pitems_g t)) (ng t))
           (fun _ args _ => spells_args (ptoks (sep_items [ptok tt_CommaToken; PSp] (map pitems_g args)) ++ [rp_tok]) (map ng args))).
  - (* leaf *)
    intros inf k e Hv. destruct (pview_leaf_tok _ _ Hv) as [t [b [E1 [E2 E3]]]].
    assert (Eg : pitems_g e = pitems e) by (destruct (leaf_shape _ _ Hv) as [[n0 E]|[t0 [d0 E]]]; subst e; reflexivity).
    rewrite Eg, E1, E3. cbn [ptoks].
    apply SP_leaf. exact E2.
  - (* group *)
    intros inf ko pG pS ts t kc Hv Ht IH Hl Hkc. cbn [pitems_g ng ptoks ptok]. rewrite ptoks_app. cbn [ptoks].
    pose proof (pfact_all ko) as PF. rewrite Hv in PF. cbn [pfact] in PF. b2p.
    eapply (SP_group inf _ prec_OpAssign prec_OpExpr); [apply pview_lp_tok|exact IH|rewrite lvl_ng; lia|reflexivity].
  - (* prefix operator *)
    intros inf k pG pO pS pN ts x Hv Hx IH Hl. cbn [pitems_g ng].
    pose proof (pfact_all k) as PF. rewrite Hv in PF. cbn [pfact] in PF. b2p.
    assert (Hnp : is_postfix pO = false).
    { unfold is_postfix. unfold is_postfix_op in *. destruct ((pO =? tt_PostIncrToken) || (pO =? tt_PostDecrToken)); [discriminate|reflexivity]. }
    rewrite Hnp.
    assert (G : spells inf (mkTok (unary_tok pO) false (tok_bytes pO) :: ptoks (pitems_g x)) (EUnary pO (ng x))).
    { eapply SP_prefix; [eapply pview_unary_tok; exact Hv|exact IH|rewrite lvl_ng; exact Hl]. }
    destruct (unary_needs_space pO x); cbn [ptoks]; exact G.
  - (* postfix operator *)
    intros inf k pL pR pO pN xs x Hv Hlt Hx IH Hl. cbn [pitems_g ng].
    vfacts inf k Hv.
    assert (Hp : is_postfix pO = true) by (unfold is_postfix; unfold is_postfix_op in *; assumption).
    rewrite Hp. rewrite ptoks_app. cbn [ptoks].
    pose proof (arm_token inf (ty k)) as AT. rewrite Hv in AT.
    eapply (SP_postfix inf (mkTok (unary_tok pO) false (tok_bytes pO)) pL pR pO pN); cbn [ty lt];
      [rewrite AT; exact Hv|reflexivity|exact IH|rewrite lvl_ng; exact Hl].
  - (* binary operator *)
    intros inf k pL pR pX pS pN xs x ys y Hv Hx IHx Hok Hy IHy Hl. cbn [pitems_g ng ptok]. rewrite ptoks_app. cbn [ptoks].
    eapply (SP_binary inf (mkTok (ty k) false (tok_bytes (ty k))) pL pR pX pS pN); cbn [ty];
      [exact Hv|exact IHx|rewrite lvl_ng; exact Hok|exact IHy|rewrite lvl_ng; exact Hl].
  - (* dot *)
    intros inf kd pR pC xs x n Hv Hx IH Hl Hn Hp. cbn [pitems_g ng].
    vfacts inf kd Hv.
    pose proof (arm_token inf (ty kd)) as AT. rewrite Hv in AT.
    assert (Hd : sview inf (ty (mkTok tt_DotToken false (tok_bytes tt_DotToken))) = ADot pR pC) by (cbn [ty]; rewrite <- AT; exact Hv).
    destruct (dot_needs_group x) eqn:Eg.
    + destruct x; try discriminate. cbn [ng pitems_g ptoks app ptok] in *.
      change ([mkTok tt_OpenParenToken false (tok_bytes tt_OpenParenToken); mkTok t false d; mkTok tt_CloseParenToken false (tok_bytes tt_CloseParenToken);
               mkTok tt_DotToken false (tok_bytes tt_DotToken); mkTok (nt (data n)) false (data n)])
        with ((mkTok tt_OpenParenToken false (tok_bytes tt_OpenParenToken) :: [mkTok t false d] ++ [mkTok tt_CloseParenToken false (tok_bytes tt_CloseParenToken)])
              ++ [mkTok tt_DotToken false (tok_bytes tt_DotToken); mkTok (nt (data n)) false (data n)]).
      eapply (SP_dot inf _ pR pC _ (EGroup (ELit t d)) (mkTok (nt (data n)) false (data n))); cbn [ty data];
        [exact Hd| |cbn [lvl] in *; exact Hl|apply Hnt|apply Hnt].
      eapply (SP_group inf _ prec_OpAssign prec_OpExpr); [apply pview_lp_tok| |cbn [lvl]; lia|reflexivity].
      apply SP_leaf. eapply spells_lit_inv. exact Hx.
    + rewrite ptoks_app. cbn [ptoks ptok].
      eapply (SP_dot inf _ pR pC _ (ng x) (mkTok (nt (data n)) false (data n))); cbn [ty data];
        [exact Hd|exact IH|rewrite lvl_ng; exact Hl|apply Hnt|apply Hnt].
  - (* index *)
    intros inf ko pR pC pS xs x ys y kc Hv Hx IHx Hl Hy IHy Hly Hkc. cbn [pitems_g ng ptok]. rewrite ptoks_app. cbn [ptoks]. rewrite ptoks_app. cbn [ptoks].
    pose proof (arm_token inf (ty ko)) as AT. rewrite Hv in AT.
    eapply (SP_index inf (mkTok tt_OpenBracketToken false (tok_bytes tt_OpenBracketToken)) pR pC pS); cbn [ty];
      [rewrite <- AT; exact Hv|exact IHx|rewrite lvl_ng; exact Hl|exact IHy|rewrite lvl_ng; exact Hly|reflexivity].
  - (* call *)
    intros inf ko pL pR pC xs x ats args Hv Hx IHx Hl Ha IHa. cbn [pitems_g ng ptok]. rewrite ptoks_app. cbn [ptoks]. rewrite ptoks_app. cbn [ptoks].
    pose proof (arm_token inf (ty ko)) as AT. rewrite Hv in AT.
    eapply (SP_call inf (mkTok tt_OpenParenToken false (tok_bytes tt_OpenParenToken)) pL pR pC); cbn [ty];
      [rewrite <- AT; exact Hv|exact IHx|rewrite lvl_ng; exact Hl|exact IHa].
  - (* conditional *)
    intros inf kq pL pR pS pE pN cs c xs x kc ys y Hv Hc IHc Hlc Hx IHx Hlx Hkc Hy IHy Hly. cbn [pitems_g ng ptok].
    rewrite ptoks_app. cbn [ptoks]. rewrite ptoks_app. cbn [ptoks].
    pose proof (arm_token inf (ty kq)) as AT. rewrite Hv in AT.
    eapply (SP_cond inf (mkTok tt_QuestionToken false (tok_bytes tt_QuestionToken)) pL pR pS pE pN _ _ _ _
              (mkTok tt_ColonToken false (tok_bytes tt_ColonToken))); cbn [ty];
      [rewrite <- AT; exact Hv|exact IHc|rewrite lvl_ng; exact Hlc|exact IHx|rewrite lvl_ng; exact Hlx|reflexivity|exact IHy|rewrite lvl_ng; exact Hly].
  - (* comma *)
    intros inf k pL pS pN xs x ys y Hv Hx IHx Hy IHy Hl.
    pose proof (arm_token inf (ty k)) as AT. rewrite Hv in AT.
    rewrite ng_comma_snoc.
    assert (E : ptoks (pitems_g (comma_snoc x y)) = ptoks (pitems_g x) ++ mkTok tt_CommaToken false (tok_bytes tt_CommaToken) :: ptoks (pitems_g y)).
    { destruct x; cbn [comma_snoc pitems_g map sep_items]; try (rewrite ptoks_app; reflexivity).
      destruct l as [|a l].
      - exfalso. pose proof (spells_comma_len _ _ _ Hx [] eq_refl). cbn in H. lia.
      - rewrite map_app. cbn [map]. rewrite ptoks_sep_snoc by discriminate. rewrite ptoks_app. reflexivity. }
    rewrite E.
    eapply (SP_comma inf (mkTok tt_CommaToken false (tok_bytes tt_CommaToken)) pL pS pN); cbn [ty];
      [rewrite <- AT; exact Hv|exact IHx|exact IHy|rewrite lvl_ng; exact Hl].
  - (* arguments: () *)
    intros kc Hkc. cbn [map sep_items ptoks app]. apply SA_end. reflexivity.
  - (* arguments: last *)
    intros ts a kc Ha IH Hl Hkc. cbn [map sep_items]. apply SA_last; [exact IH|rewrite lvl_ng; exact Hl|reflexivity].
  - (* arguments: one more *)
    intros ts a km rest l Ha IHa Hl Hkm Hr IHr.
    destruct l as [|b l].
    + (* a trailing comma in the source: not printed *)
      cbn [map sep_items]. apply SA_last; [exact IHa|rewrite lvl_ng; exact Hl|reflexivity].
    + cbn [map]. change (sep_items ?s (pitems_g a :: pitems_g b :: map pitems_g l)) with (pitems_g a ++ s ++ sep_items s (pitems_g b :: map pitems_g l)).
      rewrite ptoks_app. rewrite <- app_assoc. cbn [app ptoks ptok].
      eapply (SA_more _ _ (mkTok tt_CommaToken false (tok_bytes tt_CommaToken))); [exact IHa|rewrite lvl_ng; exact Hl|reflexivity|].
      exact IHr.
Qed.


(* ---- the same items up to the type of the name tokens ------------------------------------------------------------------ *)

Definition simi (i j : pitem) : Prop :=
  match i, j with
  | PSp, PSp => True
  | PTok t b _, PTok t' b' _ => b = b' /\ (t = t' \/ (class_of t = Some KIdent /\ class_of t' = Some KIdent))
  | _, _ => False
  end.

Lemma simi_refl i : simi i i.
Proof. destruct i; cbn; auto. Qed.

Lemma sim_refl l : Forall2 simi l l.
Proof. induction l; constructor; auto using simi_refl. Qed.

Lemma sim_sep sep ls ls' : Forall2 (Forall2 simi) ls ls' -> Forall2 simi (sep_items sep ls) (sep_items sep ls').
Proof.
  induction 1 as [|a b l l' Hab Hl IH]; [constructor|].
  destruct l as [|a2 l]; destruct l' as [|b2 l']; try (inversion Hl; fail).
  - cbn [sep_items]. exact Hab.
  - change (sep_items sep (a :: a2 :: l)) with (a ++ sep ++ sep_items sep (a2 :: l)).
    change (sep_items sep (b :: b2 :: l')) with (b ++ sep ++ sep_items sep (b2 :: l')).
    apply Forall2_app; [exact Hab|]. apply Forall2_app; [apply sim_refl|exact IH].
Qed.

Lemma sim_map (l : list expr) : Forall (fun e => Forall2 simi (pitems e) (pitems_g e)) l ->
  Forall2 (Forall2 simi) (map pitems l) (map pitems_g l).
Proof. induction 1; cbn [map]; constructor; auto. Qed.

Lemma sim_items : forall e, Forall2 simi (pitems e) (pitems_g e).
Proof.
  induction e using expr_ind'; cbn [pitems pitems_g]; try apply sim_refl.
  - constructor; [apply simi_refl|]. apply Forall2_app; [assumption|apply sim_refl].
  - destruct (is_postfix op); [apply Forall2_app; [assumption|apply sim_refl]|].
    destruct (unary_needs_space op e); repeat (constructor; [apply simi_refl|]); assumption.
  - apply Forall2_app; [assumption|]. repeat (constructor; [apply simi_refl|]). assumption.
  - apply Forall2_app; [assumption|]. repeat (constructor; [apply simi_refl|]).
    apply Forall2_app; [assumption|]. repeat (constructor; [apply simi_refl|]). assumption.
  - apply Forall2_app.
    + destruct (dot_needs_group e); [|assumption]. constructor; [apply simi_refl|]. apply Forall2_app; [assumption|apply sim_refl].
    + constructor; [apply simi_refl|]. constructor; [|constructor]. cbn [simi]. split; [reflexivity|]. right. split; [reflexivity|apply Hnt].
  - apply Forall2_app; [assumption|]. constructor; [apply simi_refl|]. apply Forall2_app; [assumption|apply sim_refl].
  - apply Forall2_app; [assumption|]. constructor; [apply simi_refl|]. apply Forall2_app; [|apply sim_refl].
    apply sim_sep. apply sim_map. assumption.
  - apply sim_sep. apply sim_map. assumption.
Qed.

Lemma sim_bytes l l' : Forall2 simi l l' -> items_bytes l = items_bytes l'.
Proof.
  induction 1 as [|i j l l' Hij _ IH]; [reflexivity|]. rewrite !ib_cons, IH. f_equal.
  destruct i, j; cbn [simi] in Hij; try contradiction; [|reflexivity]. destruct Hij as [E _]. subst. reflexivity.
Qed.

Lemma kident_plt t pl : class_of t = Some KIdent -> plt_after t pl = false.
Proof.
  unfold class_of, plt_after. intros H.
  destruct (t =? WhitespaceToken); [discriminate|]. destruct (t =? LineTerminatorToken); [discriminate|].
  destruct (t =? StringToken); [discriminate|].
  destruct (t =? CommentLineTerminatorToken); [rewrite orb_true_r in H; discriminate|]. reflexivity.
Qed.

Lemma simi_class t b a t' b' a' : simi (PTok t b a) (PTok t' b' a') ->
  b = b' /\ class_of t = class_of t' /\ (forall pl, plt_after t pl = plt_after t' pl).
Proof.
  cbn [simi]. intros [E [H|[H1 H2]]]; subst; [auto|]. split; [reflexivity|]. split; [congruence|].
  intros pl. rewrite (kident_plt _ _ H1), (kident_plt _ _ H2). reflexivity.
Qed.

Lemma sim_next_ident l l' : Forall2 simi l l' -> next_ident l = next_ident l'.
Proof.
  destruct 1 as [|i j l l' Hij _]; [reflexivity|]. destruct i, j; try (destruct Hij; fail); [|reflexivity].
  destruct (simi_class _ _ _ _ _ _ Hij) as [_ [Hc _]]. cbn [next_ident]. unfold is_ident_class. rewrite Hc. reflexivity.
Qed.

Lemma sim_space_ok l l' : Forall2 simi l l' -> space_ok l = space_ok l'.
Proof.
  destruct 1 as [|i j l l' Hij _]; [reflexivity|]. destruct i, j; cbn [simi] in Hij; try contradiction; [|reflexivity].
  destruct Hij as [E _]. subst. reflexivity.
Qed.

Lemma sim_flat l l' : Forall2 simi l l' -> forall pl, flat_ok pl l = flat_ok pl l'.
Proof.
  induction 1 as [|i j l l' Hij Hl IH]; intros pl; [reflexivity|].
  destruct i as [t b a|], j as [t' b' a'|]; try (destruct Hij; fail).
  - destruct (simi_class _ _ _ _ _ _ Hij) as [Eb [Hc Hp]]. subst b'. cbn [flat_ok]. rewrite <- Hc.
    destruct (class_of t); [|reflexivity]. unfold restb. rewrite (sim_bytes _ _ Hl), (sim_next_ident _ _ Hl), <- Hp, IH. reflexivity.
  - cbn [flat_ok]. rewrite (sim_space_ok _ _ Hl), IH. reflexivity.
Qed.

End Names.

(* ---- the lexer's typing of names ------------------------------------------------------------------------------------- *)

Lemma lookup_kw_in m w k : lookup_kw m w = Some k -> In k (map snd m).
Proof.
  induction m as [|[a v] m IH]; cbn [lookup_kw map snd]; [discriminate|].
  destruct (bytes_eqb a w); [intros H; inversion H; left; reflexivity|intros H; right; auto].
Qed.

Lemma name_ty_ok nm :
  is_identifier_name (name_ty nm) = true /\ name_ty nm <> tt_PrivateIdentifierToken /\ class_of (name_ty nm) = Some KIdent.
Proof.
  unfold name_ty. destruct (lookup_kw js_keywords nm) as [k|] eqn:E.
  - apply lookup_kw_in in E.
    assert (S : forallb (fun k => is_identifier_name k && negb (k =? tt_PrivateIdentifierToken) &&
                                  match class_of k with Some KIdent => true | _ => false end) (map snd js_keywords) = true)
      by (vm_compute; reflexivity).
    rewrite forallb_forall in S. specialize (S _ E).
    apply andb_true_iff in S. destruct S as [S S3]. apply andb_true_iff in S. destruct S as [S1 S2].
    split; [exact S1|]. split; [apply negb_true_iff in S2; apply Z.eqb_neq; exact S2|].
    destruct (class_of k) as [[]|]; try discriminate. reflexivity.
  - repeat split; vm_compute; discriminate.
Qed.

(* the items with the lexer's token types *)
Definition litems (t : expr) : list pitem := pitems_g name_ty t.

Lemma litems_bytes t : items_bytes (litems t) = print_js t.
Proof. unfold litems, print_js. symmetry. apply sim_bytes. apply sim_items. apply name_ty_ok. Qed.

Lemma litems_flat t pl : flat_ok pl (litems t) = flat_ok pl (pitems t).
Proof. unfold litems. symmetry. apply sim_flat. apply sim_items. apply name_ty_ok. Qed.

(* every leaf token — identifiers, literals, and the property names under the type the lexer gives them — is a token of
   the lexer *)
Definition leaf_tokens_lex (ids idc zs : Z -> bool) (t : expr) : Prop := Forall (real_item ids idc zs) (odd_items (litems t)).

Theorem print_round_trip_proof2 :
  forall (ids idc zs : Z -> bool) inf ts t,
    parse inf prec_OpExpr ts = Ok (t, []) -> leaf_tokens_lex ids idc zs t -> leaf_tokens_lead t = true ->
    exists toks s',
      jrun ids idc zs (map (fun _ => ONext) (litems t)) (js_init (print_js t)) = Model.Ok (toks, s') /\
      at_end (jcur s') = true /\
      toks = map tok_of_item (litems t) /\
      parse inf prec_OpExpr (lexed_view toks) = Ok (ng t, []) /\
      strip_groups (ng t) = strip_groups t /\
      print_js (ng t) = print_js t.
Proof.
  intros ids idc zs inf ts t Hp Hr Hl. pose proof prec_order as PO.
  assert (Hf : flat_ok true (litems t) = true).
  { rewrite litems_flat. exact (separated_parse inf ts t Hp Hl). }
  destruct (items_lex_back ids idc zs (litems t) Hr Hf) as [s' [Hrun [He [_ Hv]]]].
  rewrite litems_bytes in Hrun.
  exists (map tok_of_item (litems t)), s'. repeat split; try assumption.
  - rewrite Hv. destruct (parse_sound _ _ _ _ _ Hp) as [pre [E [Hs Hlv]]]; [lia|].
    rewrite app_nil_r in E. subst pre.
    apply parse_complete; [exact (proj1 (respell_g name_ty name_ty_ok) _ _ _ Hs)|lia|rewrite lvl_ng; exact Hlv].
  - apply strip_groups_ng.
  - apply print_idempotent_proof.
Qed.

(* `a.if + b.c`: the name `if` is lexed as the keyword *)
Definition nm_tokens : list token :=
  [ mkTok tt_IdentifierToken false [97]; mkTok tt_DotToken false [46]; mkTok tt_IfToken false [105; 102]; mkTok tt_AddToken false [43];
    mkTok tt_IdentifierToken false [98]; mkTok tt_DotToken false [46]; mkTok tt_IdentifierToken false [99] ].

Example round_trip_reserved_name (ids idc zs : Z -> bool) :
  exists t, parse true prec_OpExpr nm_tokens = Ok (t, []) /\ leaf_tokens_lex ids idc zs t /\ leaf_tokens_lead t = true /\
            map (fun i => fst (tok_of_item i)) (litems t) =
              [tt_IdentifierToken; tt_DotToken; tt_IfToken; WhitespaceToken; tt_AddToken; WhitespaceToken; tt_IdentifierToken; tt_DotToken; tt_IdentifierToken].
Proof.
  eexists. split; [vm_compute; reflexivity|]. split; [|split; vm_compute; reflexivity].
  unfold leaf_tokens_lex. vm_compute odd_items. repeat (apply Forall_cons; [cbn [real_item]; relex_compute|]). apply Forall_nil.
Qed.
