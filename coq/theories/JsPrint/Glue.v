(* JsPrint/Glue.v — wherever the printer writes two tokens without a space between them, the pair cannot be read as
   something else by a longest-match lexer: not two word-like tokens, not a decimal literal before '.', not two
   punctuators whose bytes start a longer punctuator or a comment.  This is the content of the `+ +a` / `- --a` spacing
   and of the `(1).a` parentheses of UnaryExpr.JS and DotExpr.JS, for every grammatical tree of the fragment. *)
From Coq Require Import ZifyBool.
From Verif Require Import Common.Base Common.Tactics Gen.Tables Gen.PrattTable JsExpr.Syntax JsExpr.Pratt JsExpr.Spec JsExpr.TableFacts
  JsExpr.Sound JsExpr.Complete JsPrint.Print JsPrint.Proofs.

(* consecutive tokens with no space between them *)
Fixpoint gaps (l : list pitem) : list (Z * Z) :=
  match l with
  | PTok a _ _ :: r =>
      match r with
      | PTok b _ _ :: _ => (a, b) :: gaps r
      | _ => gaps r
      end
  | PSp :: r => gaps r
  | [] => []
  end.

Definition firstT (l : list pitem) : option Z := match l with PTok a _ _ :: _ => Some a | _ => None end.
Fixpoint lastT (l : list pitem) : option Z :=
  match l with
  | [] => None
  | [PTok a _ _] => Some a
  | [PSp] => None
  | _ :: r => lastT r
  end.

Definition bridge (a b : list pitem) : list (Z * Z) :=
  match lastT a, firstT b with Some x, Some y => [(x, y)] | _, _ => [] end.

Lemma lastT_cons i l : l <> [] -> lastT (i :: l) = lastT l.
Proof. destruct l; [contradiction|]. destruct i; reflexivity. Qed.

Lemma gaps_app a : forall b, gaps (a ++ b) = gaps a ++ bridge a b ++ gaps b.
Proof.
  induction a as [|i a IH]; intros b.
  - cbn [app gaps]. unfold bridge. cbn [lastT]. reflexivity.
  - destruct a as [|j a].
    + (* singleton *)
      cbn [app]. destruct i as [x bx ax|]; unfold bridge; cbn [lastT gaps].
      * destruct b as [|[y byy ay|] b]; cbn [firstT gaps app]; reflexivity.
      * destruct (firstT b); reflexivity.
    + specialize (IH b).
      assert (Hb : bridge (i :: j :: a) b = bridge (j :: a) b).
      { unfold bridge. rewrite lastT_cons by discriminate. reflexivity. }
      rewrite Hb. change ((i :: j :: a) ++ b) with (i :: (j :: a) ++ b).
      destruct i as [x bx ax|].
      * destruct j as [y byy ay|].
        -- change (gaps (PTok x bx ax :: (PTok y byy ay :: a) ++ b)) with ((x, y) :: gaps ((PTok y byy ay :: a) ++ b)).
           change (gaps (PTok x bx ax :: PTok y byy ay :: a)) with ((x, y) :: gaps (PTok y byy ay :: a)).
           rewrite IH. reflexivity.
        -- change (gaps (PTok x bx ax :: (PSp :: a) ++ b)) with (gaps ((PSp :: a) ++ b)).
           change (gaps (PTok x bx ax :: PSp :: a)) with (gaps (PSp :: a)). exact IH.
      * change (gaps (PSp :: (j :: a) ++ b)) with (gaps ((j :: a) ++ b)).
        change (gaps (PSp :: j :: a)) with (gaps (j :: a)). exact IH.
Qed.

(* ---- what may stand next to what ------------------------------------------------------------------------------------- *)

Fixpoint prefix_of (a b : list Z) : bool :=
  match a, b with
  | [], _ => true
  | x :: a', y :: b' => (x =? y) && prefix_of a' b'
  | _ :: _, [] => false
  end.

(* the punctuator and operator tokens with their bytes (Gen/Tables.v: dumped from TokenType.Bytes()) *)
Definition punct_tokens : list (Z * list Z) :=
  filter (fun p => (512 <=? fst p) && (fst p <? 2048)) js_token_bytes.

(* keep the kernel from unfolding the token table when it compares terms *)
Strategy 1000 [punct_tokens].

Definition is_punct (t : Z) : bool := existsb (fun p => fst p =? t) punct_tokens.

(* written with identifier characters: identifiers, reserved words, numeric literals *)
Definition wordy (t : Z) : bool := is_identifier_name t || is_numeric t.

(* the bytes of a followed by the bytes of b begin a punctuator longer than a, or a comment *)
Definition punct_clash (a b : Z) : bool :=
  let ab := tok_bytes a ++ tok_bytes b in
  existsb (fun p => (len (tok_bytes a) <? len (snd p)) && prefix_of (tok_bytes a) (snd p) && prefix_of (snd p) ab) punct_tokens
  || prefix_of [47; 47] ab || prefix_of [47; 42] ab.

Definition glue_ok (a b : Z) : bool :=
  negb (wordy a && wordy b)
  && negb (((a =? tt_DecimalToken) || (a =? tt_IntegerToken)) && (b =? tt_DotToken))
  && negb (is_punct a && is_punct b && punct_clash a b).

Definition gaps_ok (l : list (Z * Z)) : bool := forallb (fun p => glue_ok (fst p) (snd p)) l.

Lemma gaps_ok_app a b : gaps_ok (a ++ b) = gaps_ok a && gaps_ok b.
Proof. unfold gaps_ok. apply forallb_app. Qed.

(* sanity of the clash test on the two famous pairs *)
Example clash_plus_plus : punct_clash tt_AddToken tt_AddToken = true /\ punct_clash tt_AddToken tt_IncrToken = true /\
                          punct_clash tt_SubToken tt_DecrToken = true /\ punct_clash tt_IncrToken tt_AddToken = false /\
                          punct_clash tt_NotToken tt_NotToken = false /\ punct_clash tt_SubToken tt_AddToken = false.
Proof. vm_compute. repeat split. Qed.

(* ---- first and last written token of a tree ----------------------------------------------------------------------------- *)

Fixpoint fT (t : expr) : Z :=
  match t with
  | EVar _ => tt_IdentifierToken
  | ELit ty _ => ty
  | EGroup _ => tt_OpenParenToken
  | EUnary op x => if is_postfix op then fT x else unary_tok op
  | EBinary _ x _ => fT x
  | ECond c _ _ => fT c
  | EDot x _ => if dot_needs_group x then tt_OpenParenToken else fT x
  | EIndex x _ => fT x
  | ECall x _ => fT x
  | EComma l => match l with a :: _ => fT a | [] => 0 end
  end.

Fixpoint lT (t : expr) : Z :=
  match t with
  | EVar _ => tt_IdentifierToken
  | ELit ty _ => ty
  | EGroup _ => tt_CloseParenToken
  | EUnary op x => if is_postfix op then unary_tok op else lT x
  | EBinary _ _ y => lT y
  | ECond _ _ y => lT y
  | EDot _ _ => tt_IdentifierToken
  | EIndex _ _ => tt_CloseBracketToken
  | ECall _ _ => tt_CloseParenToken
  | EComma l => (fix go (l : list expr) : Z := match l with [] => 0 | [a] => lT a | _ :: r => go r end) l
  end.

Definition firstset : list Z := [tt_OpenParenToken; tt_AddToken; tt_SubToken; tt_IncrToken; tt_DecrToken; tt_NotToken; tt_BitNotToken].
Definition lastset : list Z := [tt_CloseParenToken; tt_CloseBracketToken; tt_IncrToken; tt_DecrToken].

(* a token that is not a punctuator: identifier, literal, keyword *)
Definition leafy (t : Z) : Prop := is_punct t = false.

Definition fcg (t : expr) : Prop := leafy (fT t) \/ In (fT t) firstset.
Definition lcg (t : expr) : Prop := leafy (lT t) \/ In (lT t) lastset.

Lemma punct_not_wordy t : is_punct t = true -> wordy t = false.
Proof.
  intros H. unfold is_punct in H. apply existsb_exists in H. destruct H as [[a b] [Hin Hx]]. cbn [fst] in Hx. apply Z.eqb_eq in Hx. subst a.
  assert (S : forallb (fun p => negb (wordy (fst p))) punct_tokens = true) by (vm_compute; reflexivity).
  rewrite forallb_forall in S. specialize (S _ Hin). cbn [fst] in S. apply negb_true_iff in S. exact S.
Qed.

Lemma punct_not_number t : is_punct t = true -> ((t =? tt_DecimalToken) || (t =? tt_IntegerToken)) = false.
Proof.
  intros H. destruct ((t =? tt_DecimalToken) || (t =? tt_IntegerToken)) eqn:E; [|reflexivity].
  apply orb_true_iff in E. destruct E as [E|E]; apply Z.eqb_eq in E; subst t; vm_compute in H; discriminate.
Qed.

Lemma glue_punct_leaf a b : is_punct a = true -> leafy b -> glue_ok a b = true.
Proof.
  intros Ha Hb. unfold glue_ok. rewrite (punct_not_wordy _ Ha), (punct_not_number _ Ha). unfold leafy in Hb. rewrite Hb.
  cbn [andb negb]. rewrite andb_false_r. reflexivity.
Qed.

Lemma glue_leaf_punct a b : leafy a -> is_punct b = true -> b <> tt_DotToken -> glue_ok a b = true.
Proof.
  intros Ha Hb Hd. unfold glue_ok. rewrite (punct_not_wordy _ Hb). unfold leafy in Ha. rewrite Ha.
  apply Z.eqb_neq in Hd. rewrite Hd. rewrite !andb_false_r. reflexivity.
Qed.

(* after the punctuator a comes the first token of a tree *)
Lemma glue_after a t : is_punct a = true -> forallb (glue_ok a) firstset = true -> fcg t -> glue_ok a (fT t) = true.
Proof.
  intros Ha Hf [H|H]; [apply glue_punct_leaf; assumption|]. rewrite forallb_forall in Hf. apply Hf. exact H.
Qed.

(* the last token of a tree, then the punctuator b (not '.') *)
Lemma glue_before b t : is_punct b = true -> b <> tt_DotToken -> forallb (fun a => glue_ok a b) lastset = true -> lcg t ->
  glue_ok (lT t) b = true.
Proof.
  intros Hb Hd Hf [H|H]; [apply glue_leaf_punct; assumption|]. rewrite forallb_forall in Hf. apply (Hf _ H).
Qed.

Lemma firstT_app a b : a <> [] -> firstT (a ++ b) = firstT a.
Proof. destruct a; [contradiction|reflexivity]. Qed.

Lemma lastT_app a : forall b, b <> [] -> lastT (a ++ b) = lastT b.
Proof.
  induction a as [|i a IH]; intros b Hb; [reflexivity|].
  cbn [app]. rewrite lastT_cons; [apply IH; exact Hb|]. destruct a; [exact Hb|discriminate].
Qed.

Lemma bridge_sp_l a b : bridge (a ++ [PSp]) b = [].
Proof. unfold bridge. rewrite lastT_app by discriminate. reflexivity. Qed.

Lemma bridge_sp_r a b : bridge a (PSp :: b) = [].
Proof. unfold bridge. destruct (lastT a); reflexivity. Qed.

(* the leaf tokens are not punctuators *)
Lemma leaf_leafy k e : pview k = PLeaf e -> leafy (fT e) /\ leafy (lT e) /\ pitems e = [PTok (fT e) (match e with EVar n => n | ELit _ d => d | _ => [] end) false].
Proof.
  intros H. unfold pview in H.
  destruct ((ty k =? tt_DivToken) || (ty k =? tt_DivEqToken)) eqn:Ed; [discriminate|].
  destruct (is_identifier (ty k) && negb (ty k =? tt_AsyncToken)) eqn:Ei.
  { inversion H. cbn [fT lT pitems]. unfold leafy. repeat split; vm_compute; reflexivity. }
  assert (He : e = ELit (ty k) (data k) /\ (is_numeric (ty k) = true \/ exists ps, prefix_arm (ty k) = Some (2, ps))).
  { destruct (is_numeric (ty k)) eqn:En; [inversion H; auto|].
    destruct (prefix_arm (ty k)) as [[sh ps]|] eqn:Ea; [|discriminate].
    destruct (sh =? 2) eqn:E2; [inversion H; apply Z.eqb_eq in E2; subst sh; eauto|].
    destruct (sh =? 1); [destruct ps as [|a [|b [|c [|d [|g ps]]]]]; discriminate|].
    destruct (sh =? 3); [destruct ps as [|a [|b [|c ps]]]; discriminate|discriminate]. }
  destruct He as [He Hk]. subst e. cbn [fT lT pitems].
  assert (Hl : leafy (ty k)).
  { unfold leafy. destruct (is_punct (ty k)) eqn:Ep; [|reflexivity]. exfalso.
    destruct Hk as [Hn|[ps Ha]].
    - pose proof (punct_not_wordy _ Ep) as W. unfold wordy in W. rewrite Hn, orb_true_r in W. discriminate.
    - unfold is_punct in Ep. apply existsb_exists in Ep. destruct Ep as [[a b] [Hin Hx]]. cbn [fst] in Hx. apply Z.eqb_eq in Hx. subst a.
      assert (S : forallb (fun p => match prefix_arm (fst p) with Some (sh, _) => negb (sh =? 2) | None => true end) punct_tokens = true)
        by (vm_compute; reflexivity).
      rewrite forallb_forall in S. specialize (S _ Hin). cbn [fst] in S. rewrite Ha in S. discriminate. }
  auto.
Qed.

(* ---- the invariant ------------------------------------------------------------------------------------------------------ *)

Definition prefix_results : list Z :=
  [tt_NotToken; tt_BitNotToken; tt_TypeofToken; tt_VoidToken; tt_DeleteToken; tt_PosToken; tt_NegToken; tt_PreIncrToken; tt_PreDecrToken].

Definition lhs_last (t : expr) : Prop :=
  (exists ty d, t = ELit ty d /\ leafy ty) \/ In (lT t) [tt_IdentifierToken; tt_CloseParenToken; tt_CloseBracketToken].

Definition unary_first (t : expr) : Prop :=
  leafy (fT t) \/ fT t = tt_OpenParenToken \/ (exists uop x, t = EUnary uop x /\ is_postfix uop = false /\ In uop prefix_results).

Record GI (t : expr) : Prop := mkGI {
  gi_ok : gaps_ok (gaps (pitems t)) = true;
  gi_first : firstT (pitems t) = Some (fT t);
  gi_last : lastT (pitems t) = Some (lT t);
  gi_fcg : fcg t;
  gi_lcg : lcg t;
  gi_unary : prec_OpUnary <= lvl t -> unary_first t;
  gi_update : prec_OpLHS <= lvl t -> leafy (fT t) \/ fT t = tt_OpenParenToken;
  gi_lhs : prec_OpLHS <= lvl t -> lhs_last t
}.

Definition lp_item := ptok tt_OpenParenToken.
Definition rp_item := ptok tt_CloseParenToken.
Definition args_items (args : list expr) : list pitem :=
  lp_item :: sep_items [ptok tt_CommaToken; PSp] (map pitems args) ++ [rp_item].

Lemma bridge_of a b x y : lastT a = Some x -> firstT b = Some y -> bridge a b = [(x, y)].
Proof. intros H1 H2. unfold bridge. rewrite H1, H2. reflexivity. Qed.

Lemma gaps_ok_one x y : gaps_ok [(x, y)] = glue_ok x y.
Proof. unfold gaps_ok. cbn [forallb fst snd]. apply andb_true_r. Qed.

Lemma pitems_nonempty t : firstT (pitems t) = Some (fT t) -> pitems t <> [].
Proof. intros H E. rewrite E in H. discriminate. Qed.

Lemma lhs_last_lcg t : lhs_last t -> leafy (lT t) \/ In (lT t) [tt_CloseParenToken; tt_CloseBracketToken].
Proof.
  intros [[ty [d [E Hl]]]|H]; [subst t; left; exact Hl|].
  cbn [In] in H. destruct H as [H|[H|[H|[]]]]; [left; rewrite <- H; vm_compute; reflexivity|right; cbn; auto|right; cbn; auto].
Qed.

Lemma lhs_last_not_number t : lhs_last t -> dot_needs_group t = false ->
  ((lT t =? tt_DecimalToken) || (lT t =? tt_IntegerToken)) = false.
Proof.
  intros [[ty [d [E Hl]]]|H] Hg.
  - subst t. cbn [dot_needs_group lT] in *. exact Hg.
  - cbn [In] in H. destruct H as [H|[H|[H|[]]]]; rewrite <- H; vm_compute; reflexivity.
Qed.

(* finite checks on punctuator pairs *)
Lemma pp_lp_first : forallb (glue_ok tt_OpenParenToken) firstset = true. Proof. vm_compute. reflexivity. Qed.
Lemma pp_lb_first : forallb (glue_ok tt_OpenBracketToken) firstset = true. Proof. vm_compute. reflexivity. Qed.
Lemma pp_comma_first : forallb (glue_ok tt_CommaToken) firstset = true. Proof. vm_compute. reflexivity. Qed.
Lemma pp_last_rp : forallb (fun a => glue_ok a tt_CloseParenToken) lastset = true. Proof. vm_compute. reflexivity. Qed.
Lemma pp_last_rb : forallb (fun a => glue_ok a tt_CloseBracketToken) lastset = true. Proof. vm_compute. reflexivity. Qed.
Lemma pp_last_comma : forallb (fun a => glue_ok a tt_CommaToken) lastset = true. Proof. vm_compute. reflexivity. Qed.
Lemma pp_last_lp : forallb (fun a => glue_ok a tt_OpenParenToken) lastset = true. Proof. vm_compute. reflexivity. Qed.
Lemma pp_last_lb : forallb (fun a => glue_ok a tt_OpenBracketToken) lastset = true. Proof. vm_compute. reflexivity. Qed.
Lemma pp_last_incr : forallb (fun a => glue_ok a tt_IncrToken && glue_ok a tt_DecrToken) [tt_CloseParenToken; tt_CloseBracketToken] = true.
Proof. vm_compute. reflexivity. Qed.
Lemma pp_close_dot : glue_ok tt_CloseParenToken tt_DotToken = true /\ glue_ok tt_CloseBracketToken tt_DotToken = true /\
  glue_ok tt_IdentifierToken tt_DotToken = true /\ glue_ok tt_DotToken tt_IdentifierToken = true /\ glue_ok tt_OpenParenToken tt_CloseParenToken = true.
Proof. vm_compute. repeat split. Qed.

(* two prefix operators written without a space never clash *)
Lemma pp_unary_unary : forallb (fun op => forallb (fun uop =>
    implb (negb (unary_needs_space op (EUnary uop (EVar [])))) (glue_ok (unary_tok op) (unary_tok uop))) prefix_results) prefix_results = true.
Proof. vm_compute. reflexivity. Qed.
Lemma pp_unary_lp : forallb (fun op => implb (negb (is_identifier_name op)) (glue_ok (unary_tok op) tt_OpenParenToken && is_punct (unary_tok op))) prefix_results = true.
Proof. vm_compute. reflexivity. Qed.

Lemma is_punct_consts :
  is_punct tt_OpenParenToken = true /\ is_punct tt_CloseParenToken = true /\ is_punct tt_OpenBracketToken = true /\
  is_punct tt_CloseBracketToken = true /\ is_punct tt_CommaToken = true /\ is_punct tt_DotToken = true /\
  is_punct tt_IncrToken = true /\ is_punct tt_DecrToken = true /\ leafy tt_IdentifierToken.
Proof. vm_compute. repeat split. Qed.

(* ---- gaps of the shapes the printer builds ---------------------------------------------------------------------------- *)

Lemma gaps_cons_tok a ba aa l f : firstT l = Some f ->
  gaps_ok (gaps (PTok a ba aa :: l)) = glue_ok a f && gaps_ok (gaps l).
Proof.
  intros H. destruct l as [|[y byy ay|] l]; try discriminate. cbn [firstT] in H. inversion H; subst.
  change (gaps (PTok a ba aa :: PTok f byy ay :: l)) with ((a, f) :: gaps (PTok f byy ay :: l)). reflexivity.
Qed.

Lemma gaps_snoc_tok l b bb ab z : lastT l = Some z ->
  gaps_ok (gaps (l ++ [PTok b bb ab])) = gaps_ok (gaps l) && glue_ok z b.
Proof.
  intros H. rewrite gaps_app, !gaps_ok_app. rewrite (bridge_of l [PTok b bb ab] z b H eq_refl).
  rewrite gaps_ok_one. cbn [gaps gaps_ok forallb]. rewrite andb_true_r. reflexivity.
Qed.

Lemma gaps_sp l r : gaps (l ++ PSp :: r) = gaps l ++ gaps r.
Proof. rewrite gaps_app, bridge_sp_r. reflexivity. Qed.

Lemma gaps_join l r x y : lastT l = Some x -> firstT r = Some y ->
  gaps_ok (gaps (l ++ r)) = gaps_ok (gaps l) && glue_ok x y && gaps_ok (gaps r).
Proof.
  intros H1 H2. rewrite gaps_app, !gaps_ok_app, (bridge_of _ _ _ _ H1 H2), gaps_ok_one. rewrite andb_assoc. reflexivity.
Qed.

Lemma lastT_snoc l i : lastT (l ++ [i]) = match i with PTok a _ _ => Some a | PSp => None end.
Proof. rewrite lastT_app by discriminate. destruct i; reflexivity. Qed.

Lemma gaps_ok_tail i l : gaps_ok (gaps (i :: l)) = true -> gaps_ok (gaps l) = true.
Proof.
  destruct i as [a ba aa|]; [|trivial]. destruct l as [|[y byy ay|] l]; try trivial.
  change (gaps (PTok a ba aa :: PTok y byy ay :: l)) with ((a, y) :: gaps (PTok y byy ay :: l)).
  unfold gaps_ok. cbn [forallb]. intros H. apply andb_true_iff in H. tauto.
Qed.

(* comma expressions *)
Lemma pitems_comma_snoc inf ts x y : spells inf ts x ->
  pitems (comma_snoc x y) = pitems x ++ ptok tt_CommaToken :: pitems y.
Proof.
  intros Hx. destruct x; cbn [comma_snoc pitems map sep_items]; try reflexivity.
  destruct l as [|a l].
  - exfalso. pose proof (spells_comma_len _ _ _ Hx [] eq_refl) as H. cbn in H. lia.
  - rewrite map_app. cbn [map]. rewrite ptoks_sep_snoc by discriminate. reflexivity.
Qed.

Lemma fT_comma_snoc inf ts x y : spells inf ts x -> fT (comma_snoc x y) = fT x.
Proof.
  intros Hx. destruct x; cbn [comma_snoc fT]; try reflexivity.
  destruct l as [|a l]; [|reflexivity].
  exfalso. pose proof (spells_comma_len _ _ _ Hx [] eq_refl) as H. cbn in H. lia.
Qed.

Lemma lT_comma_snoc x y : lT (comma_snoc x y) = lT y.
Proof.
  destruct x; cbn [comma_snoc lT]; try reflexivity.
  induction l as [|a l IH]; [reflexivity|]. cbn [app]. destruct (l ++ [y]) eqn:E; [destruct l; discriminate|]. exact IH.
Qed.

(* ---- the main induction --------------------------------------------------------------------------------------------------- *)

Lemma leaf_shape k e : pview k = PLeaf e -> (exists n, e = EVar n) \/ (exists t d, e = ELit t d).
Proof.
  unfold pview.
  destruct ((ty k =? tt_DivToken) || (ty k =? tt_DivEqToken)); [discriminate|].
  destruct (is_identifier (ty k) && negb (ty k =? tt_AsyncToken)); [intros H; inversion H; eauto|].
  destruct (is_numeric (ty k)); [intros H; inversion H; eauto|].
  destruct (prefix_arm (ty k)) as [[sh ps]|]; [|discriminate].
  destruct (sh =? 2); [intros H; inversion H; eauto|].
  destruct (sh =? 1); [destruct ps as [|a [|b [|c [|d [|g ps]]]]]; discriminate|].
  destruct (sh =? 3); [destruct ps as [|a [|b [|c ps]]]; discriminate|discriminate].
Qed.

Lemma prefix_result_in k pG pO pS pN : pview k = PUnary pG pO pS pN ->
  In pO prefix_results /\ (leafy (unary_tok pO) \/ In (unary_tok pO) firstset).
Proof.
  intros H. pose proof (pview_bare k) as Hb. rewrite H in Hb. destruct Hb as [[Hb Hin]|Hb]; [|discriminate].
  assert (S : forallb (fun t => match pview (bare t) with
                | PUnary _ o _ _ => existsb (Z.eqb o) prefix_results && (negb (is_punct (unary_tok o)) || existsb (Z.eqb (unary_tok o)) firstset)
                | _ => true end) (tt_DivToken :: tt_DivEqToken :: prefix_tokens) = true) by (vm_compute; reflexivity).
  rewrite forallb_forall in S. specialize (S _ Hin). rewrite Hb in S. apply andb_true_iff in S. destruct S as [S1 S2].
  split; [apply existsb_eqb_in; exact S1|]. apply orb_true_iff in S2. destruct S2 as [S2|S2].
  - left. unfold leafy. apply negb_true_iff in S2. exact S2.
  - right. apply existsb_eqb_in. exact S2.
Qed.

Lemma postfix_tok pO : is_postfix pO = true -> unary_tok pO = tt_IncrToken \/ unary_tok pO = tt_DecrToken.
Proof.
  unfold is_postfix. intros H. apply orb_true_iff in H. destruct H as [H|H]; apply Z.eqb_eq in H; subst pO; [left|right]; reflexivity.
Qed.

Lemma glue_leaf_dot a : leafy a -> ((a =? tt_DecimalToken) || (a =? tt_IntegerToken)) = false -> glue_ok a tt_DotToken = true.
Proof.
  intros Hl Hn. unfold glue_ok. rewrite Hn. unfold leafy in Hl. rewrite Hl.
  replace (wordy tt_DotToken) with false by (vm_compute; reflexivity). rewrite !andb_false_r. reflexivity.
Qed.

(* lia with the boolean table facts cleared first (zify would try to digest them) *)
Ltac zlia :=
  repeat match goal with
  | H : forallb _ _ = true |- _ => clear H
  | H : gaps_ok _ = true |- _ => clear H
  | H : glue_ok _ _ = true |- _ => clear H
  | H : is_punct _ = true |- _ => clear H
  | H : firstT _ = _ |- _ => clear H
  | H : lastT _ = _ |- _ => clear H
  | H : _ /\ _ |- _ => fail
  end; lia.

Ltac vf inf k Hv :=
  let SF := fresh "SF" in
  pose proof (sfact_all inf (ty k)) as SF; rewrite Hv in SF; cbn [sfact] in SF; b2p.

Lemma glue_all :
  (forall inf ts t (s : spells inf ts t), GI t) /\
  (forall ats args (s : spells_args ats args), gaps_ok (gaps (args_items args)) = true).
Proof.
  pose proof prec_order as PO.
  destruct is_punct_consts as [PLP [PRP [PLB [PRB [PCM [PDT [PIN [PDE LID]]]]]]]].
  apply (spells_both_ind (fun _ _ t _ => GI t) (fun _ args _ => gaps_ok (gaps (args_items args)) = true)).
  - (* leaf *)
    intros inf k e Hv. destruct (leaf_leafy _ _ Hv) as [Hf [Hl Hp]].
    destruct (leaf_shape _ _ Hv) as [[n E]|[t [d E]]]; subst e; cbn [pitems fT lT] in *;
      (split; [reflexivity|reflexivity|reflexivity|left; exact Hf|left; exact Hl|intros _; left; exact Hf|intros _; left; exact Hf|]).
    + intros _. right. cbn. auto.
    + intros _. left. eauto.
  - (* group *)
    intros inf ko pG pS ts t kc Hv Ht IH Hl Hkc. destruct IH.
    assert (Hne : pitems t <> []) by (apply pitems_nonempty; assumption).
    split; unfold fcg, lcg, unary_first, lhs_last; cbn [pitems fT lT]; unfold ptok.
    + rewrite (gaps_cons_tok _ _ _ _ (fT t)) by (rewrite firstT_app by exact Hne; assumption).
      rewrite (gaps_snoc_tok _ _ _ _ (lT t)) by assumption.
      rewrite gi_ok0, (glue_after _ t PLP pp_lp_first gi_fcg0), (glue_before _ t PRP ltac:(vm_compute; discriminate) pp_last_rp gi_lcg0). reflexivity.
    + reflexivity.
    + rewrite lastT_cons by (destruct (pitems t); discriminate). apply lastT_snoc.
    + right. cbn. auto.
    + right. cbn. auto.
    + intros _. right. left. reflexivity.
    + intros _. right. reflexivity.
    + intros _. right. cbn. auto.
  - (* prefix operator *)
    intros inf k pG pO pS pN ts x Hv Hx IH Hl. destruct IH.
    pose proof (pfact_all k) as PF. rewrite Hv in PF. cbn [pfact] in PF. b2p.
    assert (Hnp : is_postfix pO = false).
    { unfold is_postfix. unfold is_postfix_op in *. destruct ((pO =? tt_PostIncrToken) || (pO =? tt_PostDecrToken)); [discriminate|reflexivity]. }
    assert (Hux : unary_first x) by (apply gi_unary0; zlia).
    destruct (prefix_result_in _ _ _ _ _ Hv) as [Hin Hft].
    assert (Hlv : lvl (EUnary pO x) <= prec_OpUpdate).
    { cbn [lvl]. destruct (is_update_op pO); zlia. }
    assert (Hne : pitems x <> []) by (apply pitems_nonempty; assumption).
    split; unfold fcg, lcg, unary_first, lhs_last; cbn [pitems fT lT]; rewrite ?Hnp.
    + destruct (unary_needs_space pO x) eqn:Ens.
      * change (gaps (PTok (unary_tok pO) (tok_bytes pO) false :: PSp :: pitems x)) with (gaps (pitems x)). assumption.
      * rewrite (gaps_cons_tok _ _ _ _ (fT x)) by assumption. rewrite gi_ok0, andb_true_r.
        assert (Hk : is_identifier_name pO = false).
        { unfold unary_needs_space in Ens. apply orb_false_iff in Ens. tauto. }
        pose proof pp_unary_lp as UL. rewrite forallb_forall in UL. specialize (UL _ Hin). rewrite Hk in UL. cbn [negb implb] in UL.
        apply andb_true_iff in UL. destruct UL as [UL1 UL2].
        destruct Hux as [Hu|[Hu|[uop [x' [Eu [Hpu Hiu]]]]]].
        -- apply glue_punct_leaf; assumption.
        -- rewrite Hu. exact UL1.
        -- subst x. cbn [fT]. rewrite Hpu.
           pose proof pp_unary_unary as UU. rewrite forallb_forall in UU. specialize (UU _ Hin). rewrite forallb_forall in UU. specialize (UU _ Hiu).
           replace (unary_needs_space pO (EUnary uop (EVar []))) with (unary_needs_space pO (EUnary uop x')) in UU by reflexivity.
           rewrite Ens in UU. exact UU.
    + destruct (unary_needs_space pO x); reflexivity.
    + destruct (unary_needs_space pO x); rewrite !lastT_cons; try assumption; try discriminate; exact Hne.
    + exact Hft.
    + exact gi_lcg0.
    + intros _. right. right. eauto.
    + intros H'. zlia.
    + intros H'. zlia.
  - (* postfix operator *)
    intros inf k pL pR pO pN xs x Hv Hlt Hx IH Hl. destruct IH.
    vf inf k Hv.
    assert (LL : lhs_last x) by (apply gi_lhs0; zlia).
    assert (UX : leafy (fT x) \/ fT x = tt_OpenParenToken) by (apply gi_update0; zlia).
    assert (Hp : is_postfix pO = true) by (unfold is_postfix; unfold is_postfix_op in *; assumption).
    assert (Hlv : lvl (EUnary pO x) = prec_OpUpdate) by (cbn [lvl]; rewrite (postfix_is_update _ H1); reflexivity).
    assert (Hne : pitems x <> []) by (apply pitems_nonempty; assumption).
    assert (Htk : is_punct (unary_tok pO) = true /\ unary_tok pO <> tt_DotToken /\ In (unary_tok pO) lastset /\
                  forallb (fun a => glue_ok a (unary_tok pO)) [tt_CloseParenToken; tt_CloseBracketToken] = true).
    { destruct (postfix_tok _ Hp) as [E|E]; rewrite E; repeat split; try assumption; try (vm_compute; discriminate); try (cbn; auto; fail); vm_compute; reflexivity. }
    destruct Htk as [T1 [T2 [T3 T4]]].
    split; unfold fcg, lcg, unary_first, lhs_last; cbn [pitems fT lT]; rewrite ?Hp.
    + rewrite (gaps_snoc_tok _ _ _ _ (lT x)) by assumption. rewrite gi_ok0. cbn [andb].
      destruct (lhs_last_lcg _ LL) as [Hle|Hin].
      * apply glue_leaf_punct; assumption.
      * rewrite forallb_forall in T4. apply (T4 _ Hin).
    + rewrite firstT_app by exact Hne. assumption.
    + apply lastT_snoc.
    + exact gi_fcg0.
    + right. exact T3.
    + intros _. destruct UX as [Hu|Hu]; [left; exact Hu|right; left; exact Hu].
    + intros H'. rewrite Hlv in H'. zlia.
    + intros H'. rewrite Hlv in H'. zlia.
  - (* binary operator *)
    intros inf k pL pR pX pS pN xs x ys y Hv Hx IHx Hok Hy IHy Hl. destruct IHx as [ox fx lx cx dx ux vx wx]. destruct IHy as [oy fy ly cy dy uy vy wy].
    vf inf k Hv.
    assert (Hlv : lvl (EBinary (ty k) x y) = pN) by (cbn [lvl]; eapply bin_level_of; exact Hv).
    assert (Hnx : pitems x <> []) by (apply pitems_nonempty; assumption).
    assert (Hny : pitems y <> []) by (apply pitems_nonempty; assumption).
    split; unfold fcg, lcg, unary_first, lhs_last; cbn [pitems fT lT]; unfold ptok.
    + rewrite gaps_sp. change (gaps (PTok (ty k) (tok_bytes (ty k)) false :: PSp :: pitems y)) with (gaps (pitems y)).
      rewrite gaps_ok_app, ox, oy. reflexivity.
    + rewrite firstT_app by exact Hnx. assumption.
    + rewrite lastT_app by discriminate. rewrite !lastT_cons; try discriminate; try exact Hny. assumption.
    + exact cx.
    + exact dy.
    + intros H'. rewrite Hlv in H'. zlia.
    + intros H'. rewrite Hlv in H'. zlia.
    + intros H'. rewrite Hlv in H'. zlia.
  - (* dot *)
    intros inf kd pR pC xs x n Hv Hx IH Hl Hn Hp. destruct IH.
    vf inf kd Hv.
    destruct pp_close_dot as [D1 [D2 [D3 [D4 D5]]]].
    assert (Hne : pitems x <> []) by (apply pitems_nonempty; assumption).
    assert (LL : lhs_last x) by (apply gi_lhs0; zlia).
    assert (UX : leafy (fT x) \/ fT x = tt_OpenParenToken) by (apply gi_update0; zlia).
    destruct (dot_needs_group x) eqn:Eg.
    + (* (num).name *)
      destruct x; try discriminate. cbn [dot_needs_group] in Eg.
      assert (Hlf : leafy t).
      { destruct LL as [[ty' [d' [E Hlf]]]|Hin]; [inversion E; subst; exact Hlf|].
        exfalso. cbn [lT In] in Hin. destruct Hin as [E|[E|[E|[]]]]; rewrite <- E in Eg; vm_compute in Eg; discriminate. }
      split; unfold fcg, lcg, unary_first, lhs_last; cbn [pitems fT lT dot_needs_group app]; unfold ptok; rewrite ?Eg.
      * cbn [app gaps gaps_ok forallb fst snd].
        rewrite (glue_punct_leaf _ _ PLP Hlf), (glue_leaf_punct _ _ Hlf PRP ltac:(vm_compute; discriminate)), D1, D4. reflexivity.
      * reflexivity.
      * reflexivity.
      * right. cbn. auto.
      * left. exact LID.
      * intros _. right. left. reflexivity.
      * intros _. right. reflexivity.
      * intros _. right. cbn. auto.
    + split; unfold fcg, lcg, unary_first, lhs_last; cbn [pitems fT lT]; unfold ptok; rewrite ?Eg.
      * change (pitems x ++ [PTok tt_DotToken (tok_bytes tt_DotToken) false; PTok tt_IdentifierToken (data n) false])
          with (pitems x ++ ([PTok tt_DotToken (tok_bytes tt_DotToken) false] ++ [PTok tt_IdentifierToken (data n) false])).
        rewrite app_assoc. rewrite (gaps_snoc_tok _ _ _ _ tt_DotToken) by apply lastT_snoc.
        rewrite (gaps_snoc_tok _ _ _ _ (lT x)) by assumption. rewrite gi_ok0, D4. cbn [andb]. rewrite andb_true_r.
        destruct LL as [[ty' [d' [E Hlf]]]|Hin].
        -- subst x. cbn [lT dot_needs_group] in *. apply glue_leaf_dot; assumption.
        -- cbn [In] in Hin. destruct Hin as [E|[E|[E|[]]]]; rewrite <- E; assumption.
      * rewrite firstT_app by exact Hne. assumption.
      * rewrite lastT_app by discriminate. reflexivity.
      * exact gi_fcg0.
      * left. exact LID.
      * intros _. destruct UX as [Hu|Hu]; [left; exact Hu|right; left; exact Hu].
      * intros _. exact UX.
      * intros _. right. cbn. auto.
  - (* index *)
    intros inf ko pR pC pS xs x ys y kc Hv Hx IHx Hl Hy IHy Hly Hkc.
    destruct IHx as [ox fx lx cx dx ux vx wx]. destruct IHy as [oy fy ly cy dy uy vy wy].
    vf inf ko Hv.
    assert (UX : leafy (fT x) \/ fT x = tt_OpenParenToken) by (apply vx; zlia).
    assert (Hnx : pitems x <> []) by (apply pitems_nonempty; assumption).
    assert (Hny : pitems y <> []) by (apply pitems_nonempty; assumption).
    split; unfold fcg, lcg, unary_first, lhs_last; cbn [pitems fT lT]; unfold ptok.
    + rewrite (gaps_join _ _ (lT x) tt_OpenBracketToken) by (try assumption; reflexivity).
      rewrite (gaps_cons_tok _ _ _ _ (fT y)) by (rewrite firstT_app by exact Hny; assumption).
      rewrite (gaps_snoc_tok _ _ _ _ (lT y)) by assumption.
      rewrite ox, oy, (glue_before _ x PLB ltac:(vm_compute; discriminate) pp_last_lb dx),
        (glue_after _ y PLB pp_lb_first cy), (glue_before _ y PRB ltac:(vm_compute; discriminate) pp_last_rb dy). reflexivity.
    + rewrite firstT_app by exact Hnx. assumption.
    + rewrite lastT_app by discriminate. rewrite lastT_cons by (destruct (pitems y); discriminate). apply lastT_snoc.
    + exact cx.
    + right. cbn. auto.
    + intros _. destruct UX as [Hu|Hu]; [left; exact Hu|right; left; exact Hu].
    + intros _. exact UX.
    + intros _. right. cbn. auto.
  - (* call *)
    intros inf ko pL pR pC xs x ats args Hv Hx IHx Hl Ha IHa.
    destruct IHx as [ox fx lx cx dx ux vx wx].
    vf inf ko Hv.
    assert (UX : leafy (fT x) \/ fT x = tt_OpenParenToken) by (apply vx; zlia).
    assert (Hnx : pitems x <> []) by (apply pitems_nonempty; assumption).
    split; unfold fcg, lcg, unary_first, lhs_last; cbn [fT lT]; change (pitems (ECall x args)) with (pitems x ++ args_items args).
    + rewrite (gaps_join _ _ (lT x) tt_OpenParenToken) by (try assumption; reflexivity).
      rewrite ox, IHa, (glue_before _ x PLP ltac:(vm_compute; discriminate) pp_last_lp dx). reflexivity.
    + rewrite firstT_app by exact Hnx. assumption.
    + rewrite lastT_app by discriminate. unfold args_items.
      rewrite lastT_cons by (destruct (sep_items [ptok tt_CommaToken; PSp] (map pitems args)); discriminate). apply lastT_snoc.
    + exact cx.
    + right. cbn. auto.
    + intros _. destruct UX as [Hu|Hu]; [left; exact Hu|right; left; exact Hu].
    + intros _. exact UX.
    + intros _. right. cbn. auto.
  - (* conditional *)
    intros inf kq pL pR pS pE pN cs c xs x kc ys y Hv Hc IHc Hlc Hx IHx Hlx Hkc Hy IHy Hly.
    destruct IHc as [oc fc lc cc dc uc vc wc]. destruct IHx as [ox fx lx cx dx ux vx wx]. destruct IHy as [oy fy ly cy dy uy vy wy].
    vf inf kq Hv.
    assert (Hnc : pitems c <> []) by (apply pitems_nonempty; assumption).
    assert (Hny : pitems y <> []) by (apply pitems_nonempty; assumption).
    split; unfold fcg, lcg, unary_first, lhs_last; cbn [pitems fT lT]; unfold ptok.
    + rewrite gaps_sp.
      change (gaps (PTok tt_QuestionToken (tok_bytes tt_QuestionToken) false :: PSp :: pitems x ++ PSp :: PTok tt_ColonToken (tok_bytes tt_ColonToken) false :: PSp :: pitems y))
        with (gaps (pitems x ++ PSp :: PTok tt_ColonToken (tok_bytes tt_ColonToken) false :: PSp :: pitems y)).
      rewrite gaps_sp. change (gaps (PTok tt_ColonToken (tok_bytes tt_ColonToken) false :: PSp :: pitems y)) with (gaps (pitems y)).
      rewrite !gaps_ok_app, oc, ox, oy. reflexivity.
    + rewrite firstT_app by exact Hnc. assumption.
    + rewrite lastT_app by discriminate. rewrite !lastT_cons; try discriminate; try (destruct (pitems x); discriminate).
      rewrite lastT_app by discriminate. rewrite !lastT_cons; try discriminate; try exact Hny. assumption.
    + exact cc.
    + exact dy.
    + intros H'. cbn [lvl] in H'. zlia.
    + intros H'. cbn [lvl] in H'. zlia.
    + intros H'. cbn [lvl] in H'. zlia.
  - (* comma *)
    intros inf k pL pS pN xs x ys y Hv Hx IHx Hy IHy Hl.
    destruct IHx as [ox fx lx cx dx ux vx wx]. destruct IHy as [oy fy ly cy dy uy vy wy].
    assert (Hnx : pitems x <> []) by (apply pitems_nonempty; assumption).
    assert (Hny : pitems y <> []) by (apply pitems_nonempty; assumption).
    assert (Hlv : lvl (comma_snoc x y) = prec_OpExpr) by (destruct x; reflexivity).
    split; rewrite ?(pitems_comma_snoc _ _ _ y Hx), ?(fT_comma_snoc _ _ _ y Hx), ?lT_comma_snoc; unfold ptok.
    + rewrite (gaps_join _ _ (lT x) tt_CommaToken) by (try assumption; reflexivity).
      rewrite (gaps_cons_tok _ _ _ _ (fT y)) by assumption.
      rewrite ox, oy, (glue_before _ x PCM ltac:(vm_compute; discriminate) pp_last_comma dx), (glue_after _ y PCM pp_comma_first cy). reflexivity.
    + rewrite firstT_app by exact Hnx. assumption.
    + rewrite lastT_app by discriminate. rewrite lastT_cons by exact Hny. assumption.
    + unfold fcg. rewrite (fT_comma_snoc _ _ _ y Hx). exact cx.
    + unfold lcg. rewrite lT_comma_snoc. exact dy.
    + intros H'. rewrite Hlv in H'. zlia.
    + intros H'. rewrite Hlv in H'. zlia.
    + intros H'. rewrite Hlv in H'. zlia.
  - (* arguments: () *)
    intros kc Hkc. unfold args_items. unfold lp_item, rp_item, ptok. cbn [map sep_items app gaps gaps_ok forallb fst snd].
    destruct pp_close_dot as [_ [_ [_ [_ D5]]]]. rewrite D5. reflexivity.
  - (* arguments: one *)
    intros ts a kc Ha IH Hl Hkc. destruct IH as [oa fa la ca da ua va wa].
    assert (Hna : pitems a <> []) by (apply pitems_nonempty; assumption).
    unfold args_items, lp_item, rp_item, ptok. cbn [map sep_items].
    rewrite (gaps_cons_tok _ _ _ _ (fT a)) by (rewrite firstT_app by exact Hna; assumption).
    rewrite (gaps_snoc_tok _ _ _ _ (lT a)) by assumption.
    rewrite oa, (glue_after _ a PLP pp_lp_first ca), (glue_before _ a PRP ltac:(vm_compute; discriminate) pp_last_rp da). reflexivity.
  - (* arguments: more *)
    intros ts a km rest l Ha IH Hl Hkm Hr IHr. destruct IH as [oa fa la ca da ua va wa].
    assert (Hna : pitems a <> []) by (apply pitems_nonempty; assumption).
    destruct l as [|b l].
    + unfold args_items, lp_item, rp_item, ptok. cbn [map sep_items].
      rewrite (gaps_cons_tok _ _ _ _ (fT a)) by (rewrite firstT_app by exact Hna; assumption).
      rewrite (gaps_snoc_tok _ _ _ _ (lT a)) by assumption.
      rewrite oa, (glue_after _ a PLP pp_lp_first ca), (glue_before _ a PRP ltac:(vm_compute; discriminate) pp_last_rp da). reflexivity.
    + unfold args_items, lp_item, rp_item in *. cbn [map] in *.
      change (sep_items [ptok tt_CommaToken; PSp] (pitems a :: pitems b :: map pitems l))
        with (pitems a ++ [ptok tt_CommaToken; PSp] ++ sep_items [ptok tt_CommaToken; PSp] (pitems b :: map pitems l)).
      rewrite <- !app_assoc. unfold ptok in *. cbn [app].
      rewrite (gaps_cons_tok _ _ _ _ (fT a)) by (rewrite firstT_app by exact Hna; assumption).
      rewrite (gaps_join _ _ (lT a) tt_CommaToken) by (try assumption; reflexivity).
      change (gaps (PTok tt_CommaToken (tok_bytes tt_CommaToken) false :: PSp :: ?r)) with (gaps r).
      apply gaps_ok_tail in IHr.
      rewrite oa, IHr, (glue_after _ a PLP pp_lp_first ca), (glue_before _ a PCM ltac:(vm_compute; discriminate) pp_last_comma da). reflexivity.
Qed.

(* Wherever the printer puts two tokens next to each other without a space, a longest-match lexer cannot read them
   differently — for every grammatical tree, hence for the tree of every accepted token list. *)
Theorem unspaced_tokens_safe_spelling inf ts t : spells inf ts t -> gaps_ok (gaps (pitems t)) = true.
Proof. intros s. exact (gi_ok _ (proj1 glue_all inf ts t s)). Qed.

Theorem unspaced_tokens_safe_proof :
  forall inf ts t, parse inf prec_OpExpr ts = Ok (t, []) -> gaps_ok (gaps (pitems t)) = true.
Proof.
  intros inf ts t H. destruct (parse_sound _ _ _ _ _ H) as [pre [E [Hs _]]]; [pose proof prec_order; lia|].
  eapply unspaced_tokens_safe_spelling. exact Hs.
Qed.

(* the two places the property text names *)
Example glue_examples :
  gaps (pitems (EUnary tt_PosToken (EUnary tt_PosToken (EVar [97])))) = [(tt_AddToken, tt_IdentifierToken)] /\
  gaps (pitems (EUnary tt_NegToken (EUnary tt_PreDecrToken (EVar [97])))) = [(tt_DecrToken, tt_IdentifierToken)] /\
  gaps (pitems (EUnary tt_NotToken (EUnary tt_NotToken (EVar [97])))) = [(tt_NotToken, tt_NotToken); (tt_NotToken, tt_IdentifierToken)] /\
  glue_ok tt_AddToken tt_AddToken = false /\ glue_ok tt_SubToken tt_DecrToken = false /\ glue_ok tt_IntegerToken tt_DotToken = false.
Proof. vm_compute. repeat split. Qed.
