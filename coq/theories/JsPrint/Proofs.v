(* JsPrint/Proofs.v — theorems of C05 about the printer model on the operator fragment. *)
From Coq Require Import ZifyBool.
From Verif Require Import Common.Base Common.Tactics Gen.PrattTable JsExpr.Syntax JsExpr.Pratt JsExpr.Spec JsExpr.TableFacts
  JsExpr.Fuel JsExpr.Sound JsExpr.Complete JsPrint.Print.

(* the tokens the printer writes (spaces dropped); the printer never writes a line break inside an expression *)
Fixpoint ptoks (l : list pitem) : list token :=
  match l with
  | [] => []
  | PTok t b _ :: r => mkTok t false b :: ptoks r
  | PSp :: r => ptoks r
  end.

Lemma ptoks_app a b : ptoks (a ++ b) = ptoks a ++ ptoks b.
Proof. induction a as [|[t bb ad|] a IH]; cbn [app ptoks]; [reflexivity| |]; rewrite ?IH; reflexivity. Qed.

(* what the re-parsed tree is: the numeric literal before a '.' has become a parenthesised literal *)
Fixpoint ng (e : expr) : expr :=
  match e with
  | EVar _ | ELit _ _ => e
  | EGroup x => EGroup (ng x)
  | EUnary op x => EUnary op (ng x)
  | EBinary op x y => EBinary op (ng x) (ng y)
  | ECond c x y => ECond (ng c) (ng x) (ng y)
  | EDot x nm => EDot (if dot_needs_group x then EGroup (ng x) else ng x) nm
  | EIndex x y => EIndex (ng x) (ng y)
  | ECall x args => ECall (ng x) (map ng args)
  | EComma l => EComma (map ng l)
  end.

(* GroupExpr nodes removed *)
Fixpoint strip_groups (e : expr) : expr :=
  match e with
  | EVar _ | ELit _ _ => e
  | EGroup x => strip_groups x
  | EUnary op x => EUnary op (strip_groups x)
  | EBinary op x y => EBinary op (strip_groups x) (strip_groups y)
  | ECond c x y => ECond (strip_groups c) (strip_groups x) (strip_groups y)
  | EDot x nm => EDot (strip_groups x) nm
  | EIndex x y => EIndex (strip_groups x) (strip_groups y)
  | ECall x args => ECall (strip_groups x) (map strip_groups args)
  | EComma l => EComma (map strip_groups l)
  end.

(* induction on expressions with the nested lists *)
Section expr_ind.
  Variable P : expr -> Prop.
  Hypothesis Hvar : forall n, P (EVar n).
  Hypothesis Hlit : forall t d, P (ELit t d).
  Hypothesis Hgroup : forall x, P x -> P (EGroup x).
  Hypothesis Hunary : forall op x, P x -> P (EUnary op x).
  Hypothesis Hbinary : forall op x y, P x -> P y -> P (EBinary op x y).
  Hypothesis Hcond : forall c x y, P c -> P x -> P y -> P (ECond c x y).
  Hypothesis Hdot : forall x n, P x -> P (EDot x n).
  Hypothesis Hindex : forall x y, P x -> P y -> P (EIndex x y).
  Hypothesis Hcall : forall x args, P x -> Forall P args -> P (ECall x args).
  Hypothesis Hcomma : forall l, Forall P l -> P (EComma l).

  Fixpoint expr_ind' (e : expr) : P e :=
    match e with
    | EVar n => Hvar n
    | ELit t d => Hlit t d
    | EGroup x => Hgroup x (expr_ind' x)
    | EUnary op x => Hunary op x (expr_ind' x)
    | EBinary op x y => Hbinary op x y (expr_ind' x) (expr_ind' y)
    | ECond c x y => Hcond c x y (expr_ind' c) (expr_ind' x) (expr_ind' y)
    | EDot x n => Hdot x n (expr_ind' x)
    | EIndex x y => Hindex x y (expr_ind' x) (expr_ind' y)
    | ECall x args =>
        Hcall x args (expr_ind' x)
          ((fix go (l : list expr) : Forall P l :=
              match l with [] => Forall_nil P | a :: r => Forall_cons a (expr_ind' a) (go r) end) args)
    | EComma l =>
        Hcomma l
          ((fix go (l : list expr) : Forall P l :=
              match l with [] => Forall_nil P | a :: r => Forall_cons a (expr_ind' a) (go r) end) l)
    end.
End expr_ind.

Lemma map_ext_Forall {A B} (f g : A -> B) l : Forall (fun a => f a = g a) l -> map f l = map g l.
Proof. induction 1; cbn [map]; congruence. Qed.

(* ---- printing the re-parsed tree gives the same bytes ------------------------------------------------------------- *)

Lemma dot_needs_group_ng x : dot_needs_group (ng x) = dot_needs_group x.
Proof. destruct x; reflexivity. Qed.

Lemma unary_needs_space_ng op x : unary_needs_space op (ng x) = unary_needs_space op x.
Proof. destruct x; reflexivity. Qed.

Lemma ib_app a b : items_bytes (a ++ b) = items_bytes a ++ items_bytes b.
Proof. unfold items_bytes. rewrite map_app, concat_app. reflexivity. Qed.

Lemma ib_cons i l : items_bytes (i :: l) = item_bytes i ++ items_bytes l.
Proof. reflexivity. Qed.

Lemma ib_sep sep l l' :
  Forall2 (fun a b => items_bytes a = items_bytes b) l l' ->
  items_bytes (sep_items sep l) = items_bytes (sep_items sep l').
Proof.
  intros H. induction H as [|a b l l' Hab Hl IH]; [reflexivity|].
  destruct l as [|a2 l]; destruct l' as [|b2 l']; try (inversion Hl; fail).
  - cbn [sep_items]. exact Hab.
  - cbn [sep_items] in *. rewrite !ib_app, Hab, IH. reflexivity.
Qed.

Lemma Forall2_map_ng (l : list expr) :
  Forall (fun e => items_bytes (pitems (ng e)) = items_bytes (pitems e)) l ->
  Forall2 (fun a b => items_bytes a = items_bytes b) (map pitems (map ng l)) (map pitems l).
Proof. induction 1; cbn [map]; constructor; auto. Qed.

Lemma pitems_ng_bytes : forall e, items_bytes (pitems (ng e)) = items_bytes (pitems e).
Proof.
  induction e using expr_ind'; cbn [ng pitems]; try reflexivity.
  - (* group *) rewrite !ib_cons, !ib_app, IHe. reflexivity.
  - (* unary *)
    rewrite unary_needs_space_ng. destruct (is_postfix op); [rewrite !ib_app, IHe; reflexivity|].
    destruct (unary_needs_space op e); rewrite !ib_cons, IHe; reflexivity.
  - (* binary *) rewrite !ib_app, !ib_cons, IHe1, IHe2. reflexivity.
  - (* cond *) rewrite !ib_app, !ib_cons, !ib_app, !ib_cons, IHe1, IHe2, IHe3. reflexivity.
  - (* dot *)
    destruct (dot_needs_group e) eqn:Eg.
    + destruct e; try discriminate. cbn [ng dot_needs_group pitems]. reflexivity.
    + rewrite dot_needs_group_ng, Eg. rewrite !ib_app, IHe. reflexivity.
  - (* index *) rewrite !ib_app, !ib_cons, !ib_app, IHe1, IHe2. reflexivity.
  - (* call *) rewrite !ib_app, !ib_cons, !ib_app, IHe. f_equal. f_equal. f_equal.
    apply ib_sep. apply Forall2_map_ng. exact H.
  - (* comma *) apply ib_sep. apply Forall2_map_ng. exact H.
Qed.

Theorem print_idempotent_proof : forall e, print_js (ng e) = print_js e.
Proof. exact pitems_ng_bytes. Qed.

(* ---- the printed tokens are a spelling of the re-parsed tree -------------------------------------------------- *)

Lemma lvl_ng : forall e, lvl (ng e) = lvl e.
Proof.
  induction e using expr_ind'; cbn [ng lvl]; try reflexivity; try congruence.
  destruct (dot_needs_group e) eqn:Eg; [|congruence].
  destruct e; try discriminate. reflexivity.
Qed.

Lemma is_comma_ng e : is_comma (ng e) = is_comma e.
Proof. destruct e; reflexivity. Qed.

Lemma ng_comma_snoc x y : ng (comma_snoc x y) = comma_snoc (ng x) (ng y).
Proof.
  destruct x; cbn [comma_snoc ng]; try reflexivity.
  rewrite map_app. reflexivity.
Qed.

(* which token an arm is attached to *)
Lemma arm_token inf t :
  match sview inf t with
  | ADot _ _ => t = tt_DotToken
  | AIndex _ _ _ => t = tt_OpenBracketToken
  | ACall _ _ _ => t = tt_OpenParenToken
  | ACond _ _ _ _ _ => t = tt_QuestionToken
  | AComma _ _ _ => t = tt_CommaToken
  | APost _ _ o _ => unary_tok o = t
  | _ => True
  end.
Proof.
  pose proof (sview_sweep_t (fun t v => match v with
     | ADot _ _ => t =? tt_DotToken
     | AIndex _ _ _ => t =? tt_OpenBracketToken
     | ACall _ _ _ => t =? tt_OpenParenToken
     | ACond _ _ _ _ _ => t =? tt_QuestionToken
     | AComma _ _ _ => t =? tt_CommaToken
     | APost _ _ o _ => unary_tok o =? t
     | _ => true end)) as S.
  specialize (S (fun _ => eq_refl) ltac:(vm_compute; reflexivity) inf t).
  destruct (sview inf t); try exact I; apply Z.eqb_eq; exact S.
Qed.

Lemma pview_unary_tok k pG pO pS pN l d :
  pview k = PUnary pG pO pS pN -> pview (mkTok (unary_tok pO) l d) = PUnary pG pO pS pN.
Proof.
  intros H. pose proof (pview_bare k) as Hb. rewrite H in Hb. destruct Hb as [[Hb Hin]|Hb]; [|discriminate].
  assert (S : forallb (fun t => match pview (bare t) with PUnary _ o _ _ => unary_tok o =? t | _ => true end)
                (tt_DivToken :: tt_DivEqToken :: prefix_tokens) = true) by (vm_compute; reflexivity).
  rewrite forallb_forall in S. specialize (S _ Hin). rewrite Hb in S. apply Z.eqb_eq in S. rewrite S.
  (* a prefix arm depends on the token type only *)
  clear S Hin H. unfold pview, bare in *. cbn [ty data] in *.
  destruct ((ty k =? tt_DivToken) || (ty k =? tt_DivEqToken)); [discriminate|].
  destruct (is_identifier (ty k) && negb (ty k =? tt_AsyncToken)); [discriminate|].
  destruct (is_numeric (ty k)); [discriminate|].
  destruct (prefix_arm (ty k)) as [[sh ps]|]; [|discriminate].
  destruct (sh =? 2); [discriminate|]. exact Hb.
Qed.

Lemma pview_lp_tok l d : pview (mkTok tt_OpenParenToken l d) = PGroup prec_OpAssign prec_OpExpr.
Proof. reflexivity. Qed.

Lemma pview_ident_tok l n : pview (mkTok tt_IdentifierToken l n) = PLeaf (EVar n).
Proof. reflexivity. Qed.

Lemma pview_leaf_tok k e : pview k = PLeaf e ->
  exists t b, pitems e = [PTok t b false] /\ pview (mkTok t false b) = PLeaf e /\ ng e = e.
Proof.
  intros H. pose proof H as H0. unfold pview in H.
  destruct ((ty k =? tt_DivToken) || (ty k =? tt_DivEqToken)) eqn:Ed; [discriminate|].
  destruct (is_identifier (ty k) && negb (ty k =? tt_AsyncToken)) eqn:Ei.
  { inversion H. exists tt_IdentifierToken, (data k). repeat split. }
  assert (Hl : e = ELit (ty k) (data k)).
  { destruct (is_numeric (ty k)); [inversion H; reflexivity|].
    destruct (prefix_arm (ty k)) as [[sh ps]|]; [|discriminate].
    destruct (sh =? 2); [inversion H; reflexivity|].
    destruct (sh =? 1); [destruct ps as [|a [|b [|c [|d [|g ps]]]]]; discriminate|].
    destruct (sh =? 3); [destruct ps as [|a [|b [|c ps]]]; discriminate|discriminate]. }
  subst e. exists (ty k), (data k). split; [reflexivity|]. split; [|reflexivity].
  destruct k as [t l d]. exact H0.
Qed.

Lemma spells_lit_inv inf ts t d : spells inf ts (ELit t d) -> pview (mkTok t false d) = PLeaf (ELit t d).
Proof.
  intros H. remember (ELit t d) as e eqn:E. destruct H; try discriminate.
  - subst e. destruct (pview_leaf_tok _ _ H) as [t' [b [E1 [E2 _]]]]. cbn [pitems] in E1. inversion E1; subst. exact E2.
  - destruct x; discriminate.
Qed.

Definition rp_tok : token := mkTok tt_CloseParenToken false (tok_bytes tt_CloseParenToken).

Lemma ptoks_sep_snoc (sep : list pitem) (l : list (list pitem)) (a : list pitem) :
  l <> [] -> sep_items sep (l ++ [a]) = sep_items sep l ++ sep ++ a.
Proof.
  induction l as [|x l IH]; intros Hne; [contradiction|].
  destruct l as [|y l]; [reflexivity|].
  change (sep_items sep ((x :: y :: l) ++ [a])) with (x ++ sep ++ sep_items sep ((y :: l) ++ [a])).
  rewrite IH by discriminate. change (sep_items sep (x :: y :: l)) with (x ++ sep ++ sep_items sep (y :: l)).
  rewrite <- !app_assoc. reflexivity.
Qed.

Ltac vfacts inf k Hv :=
  let SF := fresh "SF" in
  pose proof (sfact_all inf (ty k)) as SF; rewrite Hv in SF; cbn [sfact] in SF; b2p.

Lemma respell_all :
  (forall inf ts t (s : spells inf ts t), spells inf (ptoks (pitems t)) (ng t)) /\
  (forall ats args (s : spells_args ats args),
     spells_args (ptoks (sep_items [ptok tt_CommaToken; PSp] (map pitems args)) ++ [rp_tok]) (map ng args)).
Proof.
  pose proof prec_order as PO.
  apply (spells_both_ind
           (fun inf _ t _ => spells inf (ptoks (pitems t)) (ng t))
           (fun _ args _ => spells_args (ptoks (sep_items [ptok tt_CommaToken; PSp] (map pitems args)) ++ [rp_tok]) (map ng args))).
  - (* leaf *)
    intros inf k e Hv. destruct (pview_leaf_tok _ _ Hv) as [t [b [E1 [E2 E3]]]]. rewrite E1, E3. cbn [ptoks].
    apply SP_leaf. exact E2.
  - (* group *)
    intros inf ko pG pS ts t kc Hv Ht IH Hl Hkc. cbn [pitems ng ptoks ptok]. rewrite ptoks_app. cbn [ptoks].
    pose proof (pfact_all ko) as PF. rewrite Hv in PF. cbn [pfact] in PF. b2p.
    eapply (SP_group inf _ prec_OpAssign prec_OpExpr); [apply pview_lp_tok|exact IH|rewrite lvl_ng; lia|reflexivity].
  - (* prefix operator *)
    intros inf k pG pO pS pN ts x Hv Hx IH Hl. cbn [pitems ng].
    pose proof (pfact_all k) as PF. rewrite Hv in PF. cbn [pfact] in PF. b2p.
    assert (Hnp : is_postfix pO = false).
    { unfold is_postfix. unfold is_postfix_op in *. destruct ((pO =? tt_PostIncrToken) || (pO =? tt_PostDecrToken)); [discriminate|reflexivity]. }
    rewrite Hnp.
    assert (G : spells inf (mkTok (unary_tok pO) false (tok_bytes pO) :: ptoks (pitems x)) (EUnary pO (ng x))).
    { eapply SP_prefix; [eapply pview_unary_tok; exact Hv|exact IH|rewrite lvl_ng; exact Hl]. }
    destruct (unary_needs_space pO x); cbn [ptoks]; exact G.
  - (* postfix operator *)
    intros inf k pL pR pO pN xs x Hv Hlt Hx IH Hl. cbn [pitems ng].
    vfacts inf k Hv.
    assert (Hp : is_postfix pO = true) by (unfold is_postfix; unfold is_postfix_op in *; assumption).
    rewrite Hp. rewrite ptoks_app. cbn [ptoks].
    pose proof (arm_token inf (ty k)) as AT. rewrite Hv in AT.
    eapply (SP_postfix inf (mkTok (unary_tok pO) false (tok_bytes pO)) pL pR pO pN); cbn [ty lt];
      [rewrite AT; exact Hv|reflexivity|exact IH|rewrite lvl_ng; exact Hl].
  - (* binary operator *)
    intros inf k pL pR pX pS pN xs x ys y Hv Hx IHx Hok Hy IHy Hl. cbn [pitems ng ptok]. rewrite ptoks_app. cbn [ptoks].
    eapply (SP_binary inf (mkTok (ty k) false (tok_bytes (ty k))) pL pR pX pS pN); cbn [ty];
      [exact Hv|exact IHx|rewrite lvl_ng; exact Hok|exact IHy|rewrite lvl_ng; exact Hl].
  - (* dot *)
    intros inf kd pR pC xs x n Hv Hx IH Hl Hn Hp. cbn [pitems ng].
    vfacts inf kd Hv.
    pose proof (arm_token inf (ty kd)) as AT. rewrite Hv in AT.
    assert (Hd : sview inf (ty (mkTok tt_DotToken false (tok_bytes tt_DotToken))) = ADot pR pC) by (cbn [ty]; rewrite <- AT; exact Hv).
    destruct (dot_needs_group x) eqn:Eg.
    + destruct x; try discriminate. cbn [ng pitems ptoks app ptok] in *.
      change ([mkTok tt_OpenParenToken false (tok_bytes tt_OpenParenToken); mkTok t false d; mkTok tt_CloseParenToken false (tok_bytes tt_CloseParenToken);
               mkTok tt_DotToken false (tok_bytes tt_DotToken); mkTok tt_IdentifierToken false (data n)])
        with ((mkTok tt_OpenParenToken false (tok_bytes tt_OpenParenToken) :: [mkTok t false d] ++ [mkTok tt_CloseParenToken false (tok_bytes tt_CloseParenToken)])
              ++ [mkTok tt_DotToken false (tok_bytes tt_DotToken); mkTok tt_IdentifierToken false (data n)]).
      eapply (SP_dot inf _ pR pC _ (EGroup (ELit t d)) (mkTok tt_IdentifierToken false (data n))); cbn [ty data];
        [exact Hd| |cbn [lvl] in *; exact Hl|reflexivity|vm_compute; discriminate].
      eapply (SP_group inf _ prec_OpAssign prec_OpExpr); [apply pview_lp_tok| |cbn [lvl]; lia|reflexivity].
      apply SP_leaf. eapply spells_lit_inv. exact Hx.
    + rewrite ptoks_app. cbn [ptoks ptok].
      eapply (SP_dot inf _ pR pC _ (ng x) (mkTok tt_IdentifierToken false (data n))); cbn [ty data];
        [exact Hd|exact IH|rewrite lvl_ng; exact Hl|reflexivity|vm_compute; discriminate].
  - (* index *)
    intros inf ko pR pC pS xs x ys y kc Hv Hx IHx Hl Hy IHy Hly Hkc. cbn [pitems ng ptok]. rewrite ptoks_app. cbn [ptoks]. rewrite ptoks_app. cbn [ptoks].
    pose proof (arm_token inf (ty ko)) as AT. rewrite Hv in AT.
    eapply (SP_index inf (mkTok tt_OpenBracketToken false (tok_bytes tt_OpenBracketToken)) pR pC pS); cbn [ty];
      [rewrite <- AT; exact Hv|exact IHx|rewrite lvl_ng; exact Hl|exact IHy|rewrite lvl_ng; exact Hly|reflexivity].
  - (* call *)
    intros inf ko pL pR pC xs x ats args Hv Hx IHx Hl Ha IHa. cbn [pitems ng ptok]. rewrite ptoks_app. cbn [ptoks]. rewrite ptoks_app. cbn [ptoks].
    pose proof (arm_token inf (ty ko)) as AT. rewrite Hv in AT.
    eapply (SP_call inf (mkTok tt_OpenParenToken false (tok_bytes tt_OpenParenToken)) pL pR pC); cbn [ty];
      [rewrite <- AT; exact Hv|exact IHx|rewrite lvl_ng; exact Hl|exact IHa].
  - (* conditional *)
    intros inf kq pL pR pS pE pN cs c xs x kc ys y Hv Hc IHc Hlc Hx IHx Hlx Hkc Hy IHy Hly. cbn [pitems ng ptok].
    rewrite ptoks_app. cbn [ptoks]. rewrite ptoks_app. cbn [ptoks].
    pose proof (arm_token inf (ty kq)) as AT. rewrite Hv in AT.
    eapply (SP_cond inf (mkTok tt_QuestionToken false (tok_bytes tt_QuestionToken)) pL pR pS pE pN _ _ _ _
              (mkTok tt_ColonToken false (tok_bytes tt_ColonToken))); cbn [ty];
      [rewrite <- AT; exact Hv|exact IHc|rewrite lvl_ng; exact Hlc|exact IHx|rewrite lvl_ng; exact Hlx|reflexivity|exact IHy|rewrite lvl_ng; exact Hly].
  - (* comma *)
    intros inf k pL pS pN xs x ys y Hv Hx IHx Hy IHy Hl.
    pose proof (arm_token inf (ty k)) as AT. rewrite Hv in AT.
    rewrite ng_comma_snoc.
    assert (E : ptoks (pitems (comma_snoc x y)) = ptoks (pitems x) ++ mkTok tt_CommaToken false (tok_bytes tt_CommaToken) :: ptoks (pitems y)).
    { destruct x; cbn [comma_snoc pitems map sep_items]; try (rewrite ptoks_app; reflexivity).
      destruct l as [|a l].
      - exfalso. pose proof (spells_comma_len _ _ _ Hx [] eq_refl). cbn in H. lia.
      - rewrite map_app. cbn [map]. rewrite ptoks_sep_snoc by discriminate. rewrite ptoks_app. reflexivity. }
    rewrite E.
    eapply (SP_comma inf (mkTok tt_CommaToken false (tok_bytes tt_CommaToken)) pL pS pN); cbn [ty];
      [rewrite <- AT; exact Hv|exact IHx|exact IHy|rewrite lvl_ng; exact Hl].
  - (* arguments: () *)
    intros kc Hkc. cbn [map sep_items ptoks app]. apply SA_end. reflexivity.
  - (* arguments: last *)
    intros ts a kc Ha IH Hl Hkc. cbn [map sep_items]. apply SA_last; [exact IH|rewrite lvl_ng; exact Hl|reflexivity].
  - (* arguments: one more *)
    intros ts a km rest l Ha IHa Hl Hkm Hr IHr.
    destruct l as [|b l].
    + (* a trailing comma in the source: not printed *)
      cbn [map sep_items]. apply SA_last; [exact IHa|rewrite lvl_ng; exact Hl|reflexivity].
    + cbn [map]. change (sep_items ?s (pitems a :: pitems b :: map pitems l)) with (pitems a ++ s ++ sep_items s (pitems b :: map pitems l)).
      rewrite ptoks_app. rewrite <- app_assoc. cbn [app ptoks ptok].
      eapply (SA_more _ _ (mkTok tt_CommaToken false (tok_bytes tt_CommaToken))); [exact IHa|rewrite lvl_ng; exact Hl|reflexivity|].
      exact IHr.
Qed.

Lemma strip_groups_ng : forall e, strip_groups (ng e) = strip_groups e.
Proof.
  induction e using expr_ind'; cbn [ng strip_groups]; try reflexivity; try congruence.
  - destruct (dot_needs_group e); cbn [strip_groups]; congruence.
  - rewrite IHe. f_equal. rewrite map_map. apply map_ext_Forall. exact H.
  - f_equal. rewrite map_map. apply map_ext_Forall. exact H.
Qed.

(* Printing the tree of an accepted token list and reading the printed tokens again: accepted, the tree is the
   original one with a GroupExpr around each numeric literal that stands before '.', i.e. the same tree modulo
   GroupExpr nodes, and printing that tree gives the same bytes. *)
Theorem print_reparses_proof :
  forall inf ts t, parse inf prec_OpExpr ts = Ok (t, []) ->
    parse inf prec_OpExpr (ptoks (pitems t)) = Ok (ng t, []) /\
    strip_groups (ng t) = strip_groups t /\
    print_js (ng t) = print_js t.
Proof.
  intros inf ts t H. pose proof prec_order as PO.
  destruct (parse_sound _ _ _ _ _ H) as [pre [E [Hs Hl]]]; [lia|].
  rewrite app_nil_r in E. subst pre.
  split; [|split; [apply strip_groups_ng|apply print_idempotent_proof]].
  apply parse_complete; [exact (proj1 respell_all _ _ _ Hs)|lia|rewrite lvl_ng; exact Hl].
Qed.

(* the same for a grammatical spelling directly *)
Theorem print_reparses_spelling_proof :
  forall inf ts t, spells inf ts t ->
    parse inf prec_OpExpr (ptoks (pitems t)) = Ok (ng t, []).
Proof.
  intros inf ts t Hs. pose proof prec_order as PO.
  apply parse_complete; [exact (proj1 respell_all _ _ _ Hs)|lia|].
  rewrite lvl_ng. destruct (spells_lvl _ _ _ Hs) as [H _]. exact H.
Qed.

(* a second round changes nothing any more *)
Lemma ng_ng : forall e, ng (ng e) = ng e.
Proof.
  induction e using expr_ind'; cbn [ng]; try reflexivity; try congruence.
  - destruct (dot_needs_group e) eqn:Eg.
    + cbn [dot_needs_group ng]. rewrite IHe. reflexivity.
    + rewrite dot_needs_group_ng, Eg. rewrite IHe. reflexivity.
  - rewrite IHe. f_equal. rewrite map_map. apply map_ext_Forall. exact H.
  - f_equal. rewrite map_map. apply map_ext_Forall. exact H.
Qed.

(* statement form used by Props/C05.v *)
Lemma print_idempotent_both_proof : forall e, print_js (ng e) = print_js e /\ ng (ng e) = ng e.
Proof. intros e. split; [apply print_idempotent_proof|apply ng_ng]. Qed.


(* ---- non-vacuity ------------------------------------------------------------------------------------------------------ *)

Definition ex_c05_tokens : list token :=
  [mkTok tt_AddToken false [43]; mkTok tt_AddToken false [43]; mkTok tt_IdentifierToken false [97];
   mkTok tt_SubToken false [45]; mkTok tt_IntegerToken false [49]; mkTok tt_DotToken false [46]; mkTok tt_IdentifierToken false [98]].

(* `+ +a - 1 .b` prints as `+ +a - (1).b` *)
Example ex_c05_print :
  exists t, parse true prec_OpExpr ex_c05_tokens = Ok (t, []) /\
            print_js t = [43; 32; 43; 97; 32; 45; 32; 40; 49; 41; 46; 98] /\ ng t <> t.
Proof.
  eexists. split; [vm_compute; reflexivity|]. split; [vm_compute; reflexivity|]. vm_compute. discriminate.
Qed.

(* ---- the same from the grammar: every derivation of the standard's productions (JsExpr/Grammar.v) ---------------------- *)

From Verif Require JsExpr.Grammar JsExpr.Equiv.

Theorem print_reparses_derivation_proof :
  forall inf n ts t, JsExpr.Grammar.derives inf n ts t ->
    parse inf prec_OpExpr (ptoks (pitems t)) = Ok (ng t, []).
Proof.
  intros inf n ts t d. destruct (JsExpr.Equiv.derives_spells _ _ _ _ d) as [Hs _].
  eapply print_reparses_spelling_proof. exact Hs.
Qed.
