(* JsPrint/Indent.v — executable model of parse.Indenter (util.go) and of the JS() methods of js/ast.go that decide
   what goes through the indenting writer and what bypasses it: LiteralExpr, TemplateExpr/TemplatePart, Comment
   (bypass), Var, BinaryExpr, CallExpr/Args, GroupExpr, FuncDecl/Params, BlockStmt, ExprStmt, IfStmt, VarDecl/
   BindingElement, ReturnStmt, EmptyStmt, AST.  Definitions only.

   A writer is either the underlying writer ([None]) or a parse.Indenter around it with n spaces ([Some n]):
   NewIndenter never nests indenters, it adds the widths.  Every function returns the bytes that reach the
   underlying writer. *)
From Verif Require Import Common.Base Gen.PrattTable JsExpr.Syntax JsPrint.Print.

Definition wkind := option Z.

Fixpoint spaces (n : nat) : list Z := match n with O => [] | S k => 32 :: spaces k end.

(* Indenter.Write: the indentation is written after every '\n' *)
Fixpoint expand (n : Z) (b : list Z) : list Z :=
  match b with
  | [] => []
  | c :: r => if c =? 10 then c :: spaces (Z.to_nat n) ++ expand n r else c :: expand n r
  end.

Definition wr (w : wkind) (b : list Z) : list Z :=
  match w with None => b | Some n => expand n b end.

(* parse.NewIndenter(w, n) *)
Definition new_indenter (w : wkind) (n : Z) : wkind :=
  match w with None => Some n | Some m => Some (n + m) end.

Inductive jexpr :=
| JLit (d : list Z)                                    (* LiteralExpr: string, regexp, numeric, ... *)
| JVar (n : list Z)
| JTpl (parts : list (list Z * jexpr)) (tail : list Z) (* TemplateExpr without tag *)
| JBin (op : Z) (x y : jexpr)
| JCall (f : jexpr) (args : list jexpr)
| JGroup (x : jexpr)
| JFunc (body : list jstmt)                            (* function () { body } *)
with jstmt :=
| JExprS (e : jexpr)
| JBlock (l : list jstmt)
| JIf (c : jexpr) (t : jstmt) (e : option jstmt)
| JComment (d : list Z)
| JVarS (n : list Z) (init : option jexpr)
| JReturn (e : option jexpr)
| JEmpty.

Definition is_jempty (s : jstmt) : bool := match s with JEmpty => true | _ => false end.
Definition is_jvar (s : jstmt) : bool := match s with JVarS _ _ => true | _ => false end.

Definition s_lp := [40]. Definition s_rp := [41]. Definition s_sp := [32]. Definition s_semi := [59]. Definition s_nl := [10].

(* BlockStmt.JS, given the printer of the statements under the inner indenter *)
Section BlockItems.
  Variable nl : list Z.
  Variable f : jstmt -> list Z.
  Variable semi : list Z.
  Fixpoint block_items (l : list jstmt) : list Z :=
    match l with
    | [] => []
    | s :: r => nl ++ f s ++ (if is_jvar s then semi else []) ++ block_items r
    end.
End BlockItems.

Definition block_js (w : wkind) (f : jstmt -> list Z) (l : list jstmt) : list Z :=
  match l with
  | [] => wr w [123; 125]
  | _ => wr w [123] ++ block_items (wr (new_indenter w 4) s_nl) f (wr w s_semi) l ++ wr w [10; 125]
  end.

Fixpoint jsE (w : wkind) (e : jexpr) {struct e} : list Z :=
  match e with
  | JLit d => d                                                     (* `w = wi.Writer` : not indented *)
  | JVar n => wr w n
  | JTpl parts tail =>
      (* the template unwraps the indenter for itself and for the expressions inside ${ } *)
      concat (map (fun p => fst p ++ jsE None (snd p)) parts) ++ tail
  | JBin op x y => jsE w x ++ wr w s_sp ++ wr w (tok_bytes op) ++ wr w s_sp ++ jsE w y
  | JCall f args => jsE w f ++ wr w s_lp ++ join_with (wr w [44; 32]) (map (jsE w) args) ++ wr w s_rp
  | JGroup x => wr w s_lp ++ jsE w x ++ wr w s_rp
  | JFunc body => wr w [102; 117; 110; 99; 116; 105; 111; 110] ++ wr w s_lp ++ wr w s_rp ++ wr w s_sp ++ block_js w (fun s => jsS (new_indenter w 4) s) body
  end
with jsS (w : wkind) (s : jstmt) {struct s} : list Z :=
  match s with
  | JExprS e =>
      (* the expression is printed into a buffer through an indenter of the same width, then written unindented *)
      let b := jsE w e in
      (if has_let_prefix b then s_lp ++ b ++ s_rp else b) ++ s_semi
  | JBlock l => block_js w (fun s => jsS (new_indenter w 4) s) l
  | JIf c t e =>
      wr w [105; 102; 32; 40] ++ jsE w c ++ wr w s_rp ++ (if is_jempty t then [] else wr w s_sp) ++ jsS w t
      ++ (if is_jvar t then wr w s_semi else [])
      ++ match e with
         | None => []
         | Some e' => wr w [32; 101; 108; 115; 101] ++ (if is_jempty e' then [] else wr w s_sp) ++ jsS w e'
                      ++ (if is_jvar e' then wr w s_semi else [])
         end
  | JComment d => d                                                 (* `wi.Writer.Write(n.Value)` *)
  | JVarS n init =>
      wr w [118; 97; 114] ++ wr w s_sp ++ wr w n
      ++ match init with None => [] | Some e => wr w [32; 61; 32] ++ jsE w e end
  | JReturn e =>
      wr w [114; 101; 116; 117; 114; 110] ++ match e with None => [] | Some e' => wr w s_sp ++ jsE w e' end ++ wr w s_semi
  | JEmpty => wr w s_semi
  end.

(* AST.JS on the underlying writer *)
Fixpoint js_ast (l : list jstmt) : list Z :=
  match l with
  | [] => []
  | [s] => jsS None s ++ (if is_jvar s then s_semi else [])
  | s :: r => jsS None s ++ (if is_jvar s then s_semi else []) ++ s_nl ++ js_ast r
  end.
