(* JsPrint/Print.v — executable model of the JS() methods of js/ast.go for the operator fragment of C03
   (Var, LiteralExpr, GroupExpr, UnaryExpr, BinaryExpr, CondExpr, DotExpr, IndexExpr, CallExpr, CommaExpr,
   ExprStmt, EmptyStmt, LabelledStmt, AST) — a transcription, quirks included.  Definitions only.

   The printer is given twice: [pitems] lists what is written as items (a token, or a single space), with the
   parentheses the printer adds around a numeric literal before '.' marked as added; [print_js] is the byte
   string, the concatenation of the items. *)
From Verif Require Import Common.Base Gen.PrattTable JsExpr.Syntax.

Inductive pitem :=
| PTok (t : Z) (b : list Z) (added : bool)   (* a token of type t written as bytes b *)
| PSp.                                        (* one space *)

Definition item_bytes (i : pitem) : list Z :=
  match i with PTok _ b _ => b | PSp => [32] end.

Definition ptok (t : Z) : pitem := PTok t (tok_bytes t) false.

(* `group := ok && !n.Optional && (lit.TokenType == DecimalToken || lit.TokenType == IntegerToken)` *)
Definition dot_needs_group (x : expr) : bool :=
  match x with ELit t _ => (t =? tt_DecimalToken) || (t =? tt_IntegerToken) | _ => false end.

(* the same-sign test of UnaryExpr.JS *)
Definition unary_needs_space (op : Z) (x : expr) : bool :=
  match x with
  | EUnary uop _ =>
      ((op =? tt_PosToken) && ((uop =? tt_PreIncrToken) || (uop =? tt_PosToken))) ||
      ((op =? tt_NegToken) && ((uop =? tt_PreDecrToken) || (uop =? tt_NegToken)))
  | _ => false
  end || is_identifier_name op.

Definition is_postfix (op : Z) : bool := (op =? tt_PostIncrToken) || (op =? tt_PostDecrToken).

(* the token type under which the lexer reads back the bytes of a unary operator *)
Definition unary_tok (op : Z) : Z :=
  if (op =? tt_PosToken) then tt_AddToken else if (op =? tt_NegToken) then tt_SubToken
  else if (op =? tt_PreIncrToken) || (op =? tt_PostIncrToken) then tt_IncrToken
  else if (op =? tt_PreDecrToken) || (op =? tt_PostDecrToken) then tt_DecrToken
  else op.

Fixpoint sep_items (sep : list pitem) (l : list (list pitem)) : list pitem :=
  match l with
  | [] => []
  | [a] => a
  | a :: r => a ++ sep ++ sep_items sep r
  end.

Fixpoint pitems (e : expr) : list pitem :=
  match e with
  | EVar n => [PTok tt_IdentifierToken n false]
  | ELit t d => [PTok t d false]
  | EGroup x => ptok tt_OpenParenToken :: pitems x ++ [ptok tt_CloseParenToken]
  | EIndex x y => pitems x ++ ptok tt_OpenBracketToken :: pitems y ++ [ptok tt_CloseBracketToken]
  | EDot x nm =>
      (if dot_needs_group x
       then PTok tt_OpenParenToken (tok_bytes tt_OpenParenToken) true :: pitems x ++ [PTok tt_CloseParenToken (tok_bytes tt_CloseParenToken) true]
       else pitems x)
      ++ [ptok tt_DotToken; PTok tt_IdentifierToken nm false]
  | ECall x args =>
      pitems x ++ ptok tt_OpenParenToken :: sep_items [ptok tt_CommaToken; PSp] (map pitems args) ++ [ptok tt_CloseParenToken]
  | EUnary op x =>
      if is_postfix op then pitems x ++ [PTok (unary_tok op) (tok_bytes op) false]
      else if unary_needs_space op x then PTok (unary_tok op) (tok_bytes op) false :: PSp :: pitems x
      else PTok (unary_tok op) (tok_bytes op) false :: pitems x
  | EBinary op x y => pitems x ++ PSp :: ptok op :: PSp :: pitems y
  | ECond c x y => pitems c ++ PSp :: ptok tt_QuestionToken :: PSp :: pitems x ++ PSp :: ptok tt_ColonToken :: PSp :: pitems y
  | EComma l => sep_items [ptok tt_CommaToken] (map pitems l)
  end.

Definition items_bytes (l : list pitem) : list Z := concat (map item_bytes l).

Definition print_js (e : expr) : list Z := items_bytes (pitems e).

(* bytes.HasPrefix(expr, []byte("let ")) *)
Definition has_let_prefix (b : list Z) : bool :=
  match b with
  | 108 :: 101 :: 116 :: 32 :: _ => true
  | _ => false
  end.

Definition is_empty_stmt (s : stmt) : bool := match s with SEmpty => true | _ => false end.

Fixpoint print_stmt (s : stmt) : list Z :=
  match s with
  | SExpr e =>
      let b := print_js e in
      (if has_let_prefix b then [40] ++ b ++ [41] else b) ++ [59]
  | SEmpty => [59]
  | SLabel n v => n ++ [58] ++ (if is_empty_stmt v then [] else [32]) ++ print_stmt v
  end.

(* AST.JS: the statements separated by newlines *)
Definition print_program (l : list stmt) : list Z := join_with [10] (map print_stmt l).
