(* JsPrint/LexBack.v — the bytes the printer model writes lex back to exactly the printer's tokens.
   The printed item list (tokens and single spaces, JsPrint/Print.v) is turned into a C06 item list ([its_of]); where
   every token is followed by bytes that cannot extend it — C06's exact follower condition [stops], as the computable
   check [flat_ok] of adjacent items at byte level — the list satisfies [seq_exact], and the C06 theorem
   jslex_token_sequences (JsLex/SeqNext.v) gives: the JS lexer model, called with Next once per item, returns exactly
   these tokens and ends at the end of the input.  Composed with the parser-level theorem print_reparses (Proofs.v):
   parse (lex (print t)) = t modulo GroupExpr, and printing that tree gives the same bytes. *)
From Coq Require Import ZifyBool.
From Verif Require Import Common.Base Common.Tactics Common.Lx Gen.Tables JsLex.Model JsLex.Proofs JsLex.Relex JsLex.RelexNext JsLex.Exchange JsLex.NumExchange JsLex.Stops JsLex.SeqNext.
From Verif Require Import Gen.PrattTable JsExpr.Syntax JsExpr.Pratt JsExpr.Spec JsPrint.Print JsPrint.Proofs.

(* ---- printed items as C06 items ------------------------------------------------------------------------------------ *)

Definition it_of (i : pitem) : item :=
  match i with PTok t b _ => ITok t b | PSp => ITok WhitespaceToken [32] end.
Definition its_of (l : list pitem) : list item := map it_of l.

Definition tok_of_item (i : pitem) : tok :=
  match i with PTok t b _ => (t, Some b) | PSp => (WhitespaceToken, Some [32]) end.

Lemma texts_its l : texts (its_of l) = items_bytes l.
Proof.
  unfold texts, its_of, items_bytes. rewrite map_map. f_equal. apply map_ext. intros [t b a|]; reflexivity.
Qed.

Lemma ops_its l : ops_of (its_of l) = map (fun _ => ONext) l.
Proof. induction l as [|[t b a|] l IH]; [reflexivity| |]; unfold ops_of, its_of in *; cbn [map concat it_of item_ops app]; rewrite IH; reflexivity. Qed.

Lemma toks_its l : toks_of (its_of l) = map tok_of_item l.
Proof. induction l as [|[t b a|] l IH]; [reflexivity| |]; unfold toks_of, its_of in *; cbn [map concat it_of item_toks tok_of_item app]; rewrite IH; reflexivity. Qed.

(* what the parser sees of a lexed token list: whitespace dropped (there are no line terminators in the printer's output,
   so every prevLT flag is false) *)
Fixpoint lexed_view (l : list tok) : list token :=
  match l with
  | [] => []
  | (ty, Some b) :: r => if ty =? WhitespaceToken then lexed_view r else mkTok ty false b :: lexed_view r
  | (_, None) :: r => lexed_view r
  end.

(* ---- real tokens ------------------------------------------------------------------------------------------------------ *)

Definition usable (cls : tclass) : bool :=
  match cls with KPunct | KIdent | KNum | KString => true | _ => false end.

(* (t, b) is a token of the lexer: lexed on its own it is exactly that token; punctuator, identifier / keyword, numeric or
   string literal; no multi-byte sequence cut off at its end; it does not begin with a white space rune *)
Definition real (ids idc zs : Z -> bool) (t : Z) (b : list Z) : Prop :=
  relexes ids idc zs t b /\ no_trunc b = true /\ (exists cls, class_of t = Some cls /\ usable cls = true) /\
  b <> [] /\ forall R, rune_stop (ws_rune zs) (b ++ R).

(* the punctuators and keywords of the fragment, written with their canonical bytes *)
Definition fixed_types : list Z :=
  [ tt_OpenParenToken; tt_CloseParenToken; tt_OpenBracketToken; tt_CloseBracketToken; tt_CommaToken; tt_DotToken;
    tt_QuestionToken; tt_ColonToken;
    tt_MulToken; tt_DivToken; tt_ModToken; tt_AddToken; tt_SubToken; tt_LtLtToken; tt_GtGtToken; tt_GtGtGtToken;
    tt_LtToken; tt_LtEqToken; tt_GtToken; tt_GtEqToken; tt_InToken; tt_InstanceofToken;
    tt_EqEqToken; tt_NotEqToken; tt_EqEqEqToken; tt_NotEqEqToken; tt_BitAndToken; tt_BitXorToken; tt_BitOrToken;
    tt_AndToken; tt_OrToken; tt_NullishToken; tt_ExpToken;
    tt_EqToken; tt_MulEqToken; tt_DivEqToken; tt_ModEqToken; tt_ExpEqToken; tt_AddEqToken; tt_SubEqToken;
    tt_LtLtEqToken; tt_GtGtEqToken; tt_GtGtGtEqToken; tt_BitAndEqToken; tt_BitXorEqToken; tt_BitOrEqToken;
    tt_AndEqToken; tt_OrEqToken; tt_NullishEqToken;
    tt_NotToken; tt_BitNotToken; tt_IncrToken; tt_DecrToken; tt_TypeofToken; tt_VoidToken; tt_DeleteToken;
    tt_ThisToken; tt_NullToken; tt_TrueToken; tt_FalseToken ].

Fixpoint list_eqb (a b : list Z) : bool :=
  match a, b with
  | [], [] => true
  | x :: a', y :: b' => (x =? y) && list_eqb a' b'
  | _, _ => false
  end.

Lemma list_eqb_eq a : forall b, list_eqb a b = true -> a = b.
Proof.
  induction a as [|x a IH]; intros [|y b] H; cbn [list_eqb] in H; try discriminate; [reflexivity|].
  apply andb_true_iff in H. destruct H as [H1 H2]. apply Z.eqb_eq in H1. subst. f_equal. auto.
Qed.

Definition fixed_item (i : pitem) : bool :=
  match i with
  | PTok t b _ => existsb (Z.eqb t) fixed_types && list_eqb b (tok_bytes t)
  | PSp => true
  end.

(* the other tokens of the output: identifiers, literals, property names *)
Definition odd_items (l : list pitem) : list pitem := filter (fun i => negb (fixed_item i)) l.

Definition real_item (ids idc zs : Z -> bool) (i : pitem) : Prop :=
  match i with PTok t b _ => real ids idc zs t b | PSp => True end.

Lemma ascii_no_ws_rune (p : Z -> bool) c b R : c < 192 -> rune_stop p ((c :: b) ++ R).
Proof. intros H. unfold rune_stop. cbn [app hd]. intros; lia. Qed.

Ltac relex_compute :=
  unfold real, relexes; split; [eexists; split; [vm_compute; reflexivity|vm_compute; split; reflexivity]|];
  split; [vm_compute; reflexivity|]; split; [eexists; split; vm_compute; reflexivity|];
  split; [vm_compute; discriminate|]; intros ?R; vm_compute tok_bytes; apply ascii_no_ws_rune; lia.

Lemma fixed_real ids idc zs : Forall (fun t => real ids idc zs t (tok_bytes t)) fixed_types.
Proof. unfold fixed_types. repeat (apply Forall_cons; [relex_compute|]). apply Forall_nil. Qed.

Lemma space_relexes ids idc zs : relexes ids idc zs WhitespaceToken [32].
Proof. unfold relexes. eexists. split; [vm_compute; reflexivity|vm_compute; split; reflexivity]. Qed.

Lemma all_real ids idc zs l : Forall (real_item ids idc zs) (odd_items l) -> Forall (real_item ids idc zs) l.
Proof.
  induction l as [|i l IH]; intros H; [apply Forall_nil|].
  unfold odd_items in H. cbn [filter] in H. destruct (fixed_item i) eqn:Ef; cbn [negb] in H.
  - apply Forall_cons; [|apply IH; exact H].
    destruct i as [t b a|]; [|exact I]. cbn [fixed_item] in Ef. apply andb_true_iff in Ef. destruct Ef as [E1 E2].
    apply list_eqb_eq in E2. subst b. apply existsb_exists in E1. destruct E1 as [t' [Hin Ht]]. apply Z.eqb_eq in Ht. subst t'.
    pose proof (fixed_real ids idc zs) as F. rewrite Forall_forall in F. exact (F _ Hin).
  - inversion H; subst. apply Forall_cons; [assumption|]. apply IH. assumption.
Qed.

(* ---- the separation check (C06 stops, as a boolean on the bytes that follow) ---------------------------------------- *)

(* the bytes after an item: the items of r, then the terminator *)
Definition restb (r : list pitem) : list Z := items_bytes r ++ [0].

Lemma list_eqb_refl a : list_eqb a a = true.
Proof. induction a as [|x a IH]; [reflexivity|]. cbn [list_eqb]. rewrite Z.eqb_refl, IH. reflexivity. Qed.

Definition digitb (c : Z) : bool := (48 <=? c) && (c <=? 57).

Definition punct_stopb (pl : bool) (T R' : list Z) : bool :=
  let c := hd 0 R' in
  (negb (longer_punct T R') || (list_eqb T [63] && match R' with x :: d :: _ => (x =? 46) && digitb d | _ => false end))
  && (negb (list_eqb T [63; 46] || list_eqb T [46]) || negb (digitb c))
  && (negb (list_eqb T [47]) || (negb (c =? 47) && negb (c =? 42)))
  && (negb (list_eqb T [60]) || negb (list_eqb (firstz 3 R') [33; 45; 45]))
  && (negb (list_eqb T [45; 45]) || negb pl || negb (c =? 62)).

Lemma punct_stopb_ok pl T R' : punct_stopb pl T R' = true -> punct_stop pl T R'.
Proof.
  unfold punct_stopb, punct_stop. cbv zeta. intros H.
  apply andb_true_iff in H. destruct H as [H H5]. apply andb_true_iff in H. destruct H as [H H4].
  apply andb_true_iff in H. destruct H as [H H3]. apply andb_true_iff in H. destruct H as [H1 H2].
  repeat split.
  - apply orb_true_iff in H1. destruct H1 as [H1|H1]; [left; apply negb_true_iff in H1; exact H1|right].
    apply andb_true_iff in H1. destruct H1 as [E1 E2]. apply list_eqb_eq in E1. split; [exact E1|].
    destruct R' as [|x [|d rest]]; try discriminate. apply andb_true_iff in E2. destruct E2 as [Ex E2]. apply Z.eqb_eq in Ex. subst x.
    exists d, rest. split; [reflexivity|]. unfold digitb in E2. lia.
  - intros HT. assert (E : list_eqb T [63; 46] || list_eqb T [46] = true).
    { destruct HT as [HT|HT]; subst T; reflexivity. }
    rewrite E in H2. cbn [negb orb] in H2. apply negb_true_iff in H2. unfold digitb in H2. lia.
  - subst T. cbn [list_eqb] in H3. cbn in H3. apply andb_true_iff in H3. destruct H3 as [A _]. apply negb_true_iff in A. apply Z.eqb_neq in A. exact A.
  - subst T. cbn in H3. apply andb_true_iff in H3. destruct H3 as [_ A]. apply negb_true_iff in A. apply Z.eqb_neq in A. exact A.
  - intros HT E. subst T. rewrite list_eqb_refl in H4. cbn [negb orb] in H4. rewrite E, list_eqb_refl in H4. discriminate.
  - intros HT Hpl E. subst T pl. rewrite list_eqb_refl in H5. cbn [negb orb] in H5. rewrite E in H5. discriminate.
Qed.

Definition follow_ok (cls : tclass) (pl : bool) (b R' : list Z) : bool :=
  let c := hd 0 R' in
  match cls with
  | KPunct => punct_stopb pl b R'
  | KIdent => negb (tab_cont c) && negb (c =? 92) && (c <? 192)
  | KNum => negb (tab_cont c) && (negb (c =? 46) || negb (is_dec_int b))
  | KString => true
  | _ => false
  end.

Lemma follow_stops idc zs cls pl b R' : follow_ok cls pl b R' = true -> stops idc zs cls pl b R'.
Proof.
  unfold follow_ok, stops. cbv zeta. destruct cls; intros H; try discriminate.
  - apply punct_stopb_ok. exact H.
  - apply andb_true_iff in H. destruct H as [H H3]. apply andb_true_iff in H. destruct H as [H1 H2].
    apply negb_true_iff in H1. apply negb_true_iff in H2. apply Z.eqb_neq in H2.
    split; [exact H1|]. split; [exact H2|]. unfold rune_stop. intros; lia.
  - exact I.
  - apply andb_true_iff in H. destruct H as [H1 H2]. apply negb_true_iff in H1. split; [exact H1|].
    intros E. rewrite E in H2. cbn in H2. apply negb_true_iff in H2. exact H2.
Qed.

Definition is_ident_class (t : Z) : bool := match class_of t with Some KIdent => true | _ => false end.
Definition next_ident (r : list pitem) : bool := match r with PTok t _ _ :: _ => is_ident_class t | _ => false end.

(* a space is followed by a token that does not start with a space character (that it does not start with a white space
   rune is part of [real]) *)
Definition space_ok (r : list pitem) : bool :=
  match r with
  | PTok _ (c :: _) _ :: _ => negb (c =? 32) && negb (c =? 9) && negb (c =? 11) && negb (c =? 12)
  | _ => false
  end.

(* every item is followed by bytes that cannot extend it; no identifier directly after a numeric literal.
   pl: prevLineTerminator, true at the start of the input only (the printer writes no line terminator) *)
Fixpoint flat_ok (pl : bool) (l : list pitem) : bool :=
  match l with
  | [] => true
  | i :: r =>
      match i with
      | PSp => space_ok r && flat_ok pl r
      | PTok t b _ =>
          match class_of t with
          | Some cls => follow_ok cls pl b (restb r) && negb (is_num cls && next_ident r) && flat_ok (plt_after t pl) r
          | None => false
          end
      end
  end.

Lemma step_plain ty cls lev : class_of ty = Some cls -> usable cls = true -> exists lev', step_state ty lev [] = Some (lev', []).
Proof.
  intros Hc Hu. unfold step_state.
  destruct ((ty =? OpenParenToken) || (ty =? OpenBraceToken)); [eauto|].
  destruct (ty =? CloseParenToken); [eauto|].
  destruct (ty =? CloseBraceToken); [eauto|].
  destruct (ty =? TemplateStartToken) eqn:E1.
  { apply Z.eqb_eq in E1. subst ty. vm_compute in Hc. inversion Hc; subst. discriminate. }
  destruct (ty =? TemplateMiddleToken) eqn:E2.
  { apply Z.eqb_eq in E2. subst ty. vm_compute in Hc. discriminate. }
  destruct (ty =? TemplateEndToken) eqn:E3.
  { apply Z.eqb_eq in E3. subst ty. vm_compute in Hc. discriminate. }
  eauto.
Qed.

Lemma after_its r : after (its_of r) = restb r.
Proof. unfold after, restb. rewrite texts_its. reflexivity. Qed.

Lemma flat_seq ids idc zs l : Forall (real_item ids idc zs) l ->
  forall pn pl lev, flat_ok pl l = true -> (pn = true -> next_ident l = false) -> seq_exact ids idc zs pn pl lev [] (its_of l).
Proof.
  induction l as [|i r IH]; intros Hr pn pl lev Hf Hpn; [apply sx_nil|].
  inversion Hr as [|? ? Hi Hr']; subst. cbn [flat_ok] in Hf.
  destruct i as [t b a|].
  - destruct Hi as [Hre [Hnt [[cls [Hc Hu]] _]]]. rewrite Hc in Hf.
    apply andb_true_iff in Hf. destruct Hf as [Hf Hfr]. apply andb_true_iff in Hf. destruct Hf as [Hfo Hni].
    destruct (step_plain t cls lev Hc Hu) as [lev' Hst].
    cbn [its_of map it_of]. fold (its_of r).
    apply (sx_cons ids idc zs pn pl lev [] lev' [] t b (its_of r) cls); try assumption.
    + destruct cls; try exact I. discriminate.
    + intros Ep E. subst cls. specialize (Hpn Ep). cbn [next_ident] in Hpn. unfold is_ident_class in Hpn. rewrite Hc in Hpn. discriminate.
    + rewrite after_its. apply follow_stops. exact Hfo.
    + apply IH; try assumption. intros En. rewrite En in Hni. cbn [andb] in Hni. apply negb_true_iff in Hni. exact Hni.
  - apply andb_true_iff in Hf. destruct Hf as [Hsp Hfr].
    cbn [its_of map it_of]. fold (its_of r).
    apply (sx_cons ids idc zs pn pl lev [] lev [] WhitespaceToken [32] (its_of r) KWs).
    + apply space_relexes.
    + reflexivity.
    + exact I.
    + reflexivity.
    + intros _. discriminate.
    + reflexivity.
    + rewrite after_its. cbn [stops]. unfold ws_stop. cbv zeta.
      destruct r as [|[t2 [|c b2] a2|] r']; try discriminate. cbn [space_ok] in Hsp.
      unfold restb, items_bytes. cbn [map concat item_bytes app hd].
      apply andb_true_iff in Hsp. destruct Hsp as [Hsp H4]. apply andb_true_iff in Hsp. destruct Hsp as [Hsp H3].
      apply andb_true_iff in Hsp. destruct Hsp as [H1 H2].
      apply negb_true_iff in H1, H2, H3, H4. apply Z.eqb_neq in H1, H2, H3, H4.
      repeat split; try assumption.
      inversion Hr' as [|? ? Hi2 _]; subst. destruct Hi2 as [_ [_ [_ [_ Hws]]]].
      specialize (Hws (concat (map item_bytes r') ++ [0])). cbn [app] in Hws. rewrite <- ?app_assoc. exact Hws.
    + apply IH; try assumption. intros E. discriminate.
Qed.

(* ---- the lexer on the printed bytes ------------------------------------------------------------------------------- *)

Lemma lexed_view_items ids idc zs l : Forall (real_item ids idc zs) l -> lexed_view (map tok_of_item l) = ptoks l.
Proof.
  induction 1 as [|i l Hi _ IH]; [reflexivity|]. destruct i as [t b a|]; cbn [map tok_of_item lexed_view ptoks].
  - destruct Hi as [_ [_ [[cls [Hc Hu]] _]]].
    destruct (t =? WhitespaceToken) eqn:E; [|rewrite IH; reflexivity].
    apply Z.eqb_eq in E. subst t. vm_compute in Hc. inversion Hc; subst. discriminate.
  - exact IH.
Qed.

(* every item list whose odd tokens are real and that passes the separation check: Next, called once per item, returns
   exactly the items as tokens and stops at the end of the input; without the whitespace tokens they are [ptoks] *)
Theorem items_lex_back ids idc zs l :
  Forall (real_item ids idc zs) (odd_items l) -> flat_ok true l = true ->
  exists s', jrun ids idc zs (map (fun _ => ONext) l) (js_init (items_bytes l)) = Model.Ok (map tok_of_item l, s') /\
    at_end (jcur s') = true /\ lstart (jcur s') = lpos (jcur s') /\
    lexed_view (map tok_of_item l) = ptoks l.
Proof.
  intros Ho Hf. pose proof (all_real _ _ _ _ Ho) as Hr.
  assert (Hs : seq_exact ids idc zs false true 0 [] (its_of l)) by (apply flat_seq; auto; discriminate).
  destruct (jslex_token_sequences_proof ids idc zs _ Hs) as [s' [Hrun [He Hst]]].
  rewrite ops_its, texts_its, toks_its in Hrun. exists s'. repeat split; try assumption.
  eapply lexed_view_items; eauto.
Qed.

(* ---- the round trip of the fragment: print, lex, parse ------------------------------------------------------------- *)

(* the separation check on the output for t, and its odd tokens *)
Definition c06_separated (t : expr) : bool := flat_ok true (pitems t).
Definition leaf_tokens_real (ids idc zs : Z -> bool) (t : expr) : Prop := Forall (real_item ids idc zs) (odd_items (pitems t)).

Theorem print_lex_parse_proof :
  forall (ids idc zs : Z -> bool) inf ts t,
    parse inf prec_OpExpr ts = Ok (t, []) -> leaf_tokens_real ids idc zs t -> c06_separated t = true ->
    exists toks s',
      jrun ids idc zs (map (fun _ => ONext) (pitems t)) (js_init (print_js t)) = Model.Ok (toks, s') /\
      at_end (jcur s') = true /\
      toks = map tok_of_item (pitems t) /\
      parse inf prec_OpExpr (lexed_view toks) = Ok (ng t, []) /\
      strip_groups (ng t) = strip_groups t /\
      print_js (ng t) = print_js t.
Proof.
  intros ids idc zs inf ts t Hp Hl Hc.
  destruct (items_lex_back ids idc zs (pitems t) Hl Hc) as [s' [Hrun [He [_ Hv]]]].
  destruct (print_reparses_proof inf ts t Hp) as [Hre [Hsg Hpr]].
  exists (map tok_of_item (pitems t)), s'. unfold print_js. repeat split; try assumption.
  rewrite Hv. exact Hre.
Qed.

(* ---- which outputs fall outside: examples ------------------------------------------------------------------------------ *)

Definition lb_id (c : Z) : expr := EVar [c].
Definition lb_num : expr := ELit tt_IntegerToken [49].

(* `-a`, `- -a`, `!~a`, `a++ + (1).b`, `typeof a`, `f(a, 'x')[1]` pass *)
Example separated_examples :
  c06_separated (EUnary tt_NegToken (lb_id 97)) = true /\
  c06_separated (EUnary tt_NegToken (EUnary tt_NegToken (lb_id 97))) = true /\
  c06_separated (EUnary tt_NotToken (EUnary tt_BitNotToken (lb_id 97))) = true /\
  c06_separated (EBinary tt_AddToken (EUnary tt_PostIncrToken (lb_id 97)) (EDot lb_num [98])) = true /\
  c06_separated (EUnary tt_TypeofToken (lb_id 97)) = true /\
  c06_separated (EIndex (ECall (lb_id 102) [lb_id 97; ELit tt_StringToken [39; 120; 39]]) lb_num) = true.
Proof. repeat split; vm_compute; reflexivity. Qed.

(* `-1`, `-.5`, `!-a`, `!!a`, `+++a`, `a++++`, `0x1F.a`, `a + é`: the exact follower condition of C06 covers them *)
Example separated_examples_exact :
  c06_separated (EUnary tt_NegToken lb_num) = true /\
  c06_separated (EUnary tt_NegToken (ELit tt_DecimalToken [46; 53])) = true /\
  c06_separated (EUnary tt_NotToken (EUnary tt_NegToken (lb_id 97))) = true /\
  c06_separated (EUnary tt_NotToken (EUnary tt_NotToken (lb_id 97))) = true /\
  c06_separated (EUnary tt_PreIncrToken (EUnary tt_PosToken (lb_id 97))) = true /\
  c06_separated (EUnary tt_PostIncrToken (EUnary tt_PostIncrToken (lb_id 97))) = true /\
  c06_separated (EDot (ELit tt_HexadecimalToken [48; 120; 49; 70]) [97]) = true /\
  c06_separated (EBinary tt_AddToken (lb_id 97) (EVar [195; 169])) = true.
Proof. repeat split; vm_compute; reflexivity. Qed.

(* what the check still refuses are leaves that are no tokens: a "hexadecimal" literal spelled `1` before '.', a name
   that begins with a space *)
Example not_separated_examples :
  c06_separated (EDot (ELit tt_HexadecimalToken [49]) [97]) = false /\
  c06_separated (EBinary tt_AddToken (lb_id 97) (EVar [32; 97])) = false.
Proof. repeat split; vm_compute; reflexivity. Qed.

(* ---- non-vacuity: `a + b * (c, 1)['k'].d++` ----------------------------------------------------------------------------- *)

Definition lb_tokens : list token :=
  [ mkTok tt_IdentifierToken false [97]; mkTok tt_AddToken false [43]; mkTok tt_IdentifierToken false [98]; mkTok tt_MulToken false [42];
    mkTok tt_OpenParenToken false [40]; mkTok tt_IdentifierToken false [99]; mkTok tt_CommaToken false [44]; mkTok tt_IntegerToken false [49];
    mkTok tt_CloseParenToken false [41]; mkTok tt_OpenBracketToken false [91]; mkTok tt_StringToken false [39; 107; 39];
    mkTok tt_CloseBracketToken false [93]; mkTok tt_DotToken false [46]; mkTok tt_IdentifierToken false [100]; mkTok tt_IncrToken false [43; 43] ].

Example print_lex_parse_example (ids idc zs : Z -> bool) :
  exists t, parse true prec_OpExpr lb_tokens = Ok (t, []) /\ leaf_tokens_real ids idc zs t /\ c06_separated t = true /\
            print_js t = [97; 32; 43; 32; 98; 32; 42; 32; 40; 99; 44; 49; 41; 91; 39; 107; 39; 93; 46; 100; 43; 43].
Proof.
  eexists. split; [vm_compute; reflexivity|]. split; [|split; vm_compute; reflexivity].
  unfold leaf_tokens_real. vm_compute odd_items. repeat (apply Forall_cons; [cbn [real_item]; relex_compute|]). apply Forall_nil.
Qed.
